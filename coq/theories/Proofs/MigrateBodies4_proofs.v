(* C25 -- migration bodies proved total, fourth batch: migrations 2 and 1 (chains of AddTable / AddColumn / update /
   ReplaceTableData). *)
From Coq Require Import ZArith Bool String List Lia.
Import ListNotations.
Require Import Grist.Model.Migrate Grist.Model.MigrateSites Grist.Model.MigrateBodies.
Require Import Grist.Proofs.Migrate_proofs Grist.Proofs.MigrateBodies_proofs Grist.Proofs.MigrateBodies2_proofs
               Grist.Proofs.MigrateBodies3_proofs.
Open Scope Z_scope.
Local Arguments zs : simpl never.

(* one step of a chain: success, the invariant, tables stay, typed tables other than the one rewritten stay typed *)
Definition chain_ok (s s' : tds) (keep : str -> Prop) : Prop :=
  J s' /\ (forall u, has_table u s -> has_table u s') /\ (forall u, keep u -> typed_table u s -> typed_table u s') /\
  (forall u, keep u -> incl (rows_of u s) (rows_of u s')).

Lemma replace_data_chain : forall t rs acols s, J s -> typed_table t s ->
  Forall (fun cv : str * list val => length (snd cv) = length rs) acols ->
  exists s', tds_apply (ReplaceTableData t rs acols) s = Ok s' /\ chain_ok s s' (fun u => seqb u t = false) /\ typed_table t s'.
Proof.
  intros t rs acols s HJ [rows [cols [sc [Hd [Hs HF]]]]] Hlen. cbn [tds_apply]. unfold replace_data. rewrite Hd.
  set (s0 := mkTds (dset t ([], map (fun cv => (fst cv, @nil val)) cols) (t_data s)) (t_schema s)).
  assert (HJ0 : J s0).
  { intros u rows0 cols0 H. unfold s0 in H. cbn [t_data t_schema] in *. rewrite lookup_dset_cases in H. destruct (seqb u t) eqn:Q.
    - injection H as <- <-. apply seqb_eq in Q. subst u. split; [|eauto]. apply Forall_forall. intros cv _. cbn. apply Nat.le_0_l.
    - apply HJ. exact H. }
  assert (Hty0 : typed_table t s0).
  { unfold typed_table, s0. cbn [t_data t_schema]. rewrite lookup_dset_same. eexists _, _, sc. split; [reflexivity|]. split; [exact Hs|].
    eapply (forall_fst_map (fun k => exists ci, lookup k sc = Some ci /\ ci_typed ci)); [|exact HF]. rewrite map_map. reflexivity. }
  destruct (bulk_add_step t rs acols s0 HJ0 Hty0 Hlen) as [s' [E [HJ' [R [T Y]]]]].
  exists s'. split; [exact E|]. split; [|apply Y; exact Hty0]. split; [exact HJ'|]. split; [|split].
  - intros u [td Hu]. apply T. unfold has_table, s0. cbn [t_data]. rewrite lookup_dset_cases. destruct (seqb u t); eauto.
  - intros u Q [rows1 [cols1 [sc1 [Hd1 [Hs1 HF1]]]]]. apply Y. exists rows1, cols1, sc1. unfold s0. cbn [t_data t_schema].
    rewrite lookup_dset_cases, Q. repeat split; assumption.
  - intros u Q. eapply incl_tran; [|apply R]. unfold rows_of, s0. cbn [t_data]. rewrite lookup_dset_cases, Q. apply incl_refl.
Qed.

Lemma add_table_chain : forall t cols s, J s -> forallb ci_wf_b cols = true ->
  exists s', tds_apply (AddTable t cols) s = Ok s' /\ chain_ok s s' (fun u => seqb u t = false) /\ typed_table t s' /\ has_table t s'.
Proof.
  intros t cols s HJ Hwf. destruct (add_table_step t cols s HJ Hwf) as [s' [E [HJ' [Ht [T R]]]]].
  exists s'. split; [exact E|]. split; [|split; [eapply add_table_typed; eassumption|exact Ht]].
  split; [exact HJ'|]. split; [exact T|]. split.
  - intros u Q Hty. eapply typed_add_table; eassumption.
  - intros u Q. rewrite (R u Q). apply incl_refl.
Qed.

Lemma good2_chain : forall a s, J s -> good2 s a ->
  exists s', tds_apply a s = Ok s' /\ chain_ok s s' (fun _ => True).
Proof.
  intros a s HJ Hg. destruct (good2_step a s HJ Hg) as [s' [E [HJ' [R [T Y]]]]].
  exists s'. split; [exact E|]. split; [exact HJ'|]. split; [exact T|]. split; [intros u _; apply Y|intros u _; apply R].
Qed.

(* ---------- migration 2 ---------- *)
Lemma pd_set_forall2 : forall {V} (P : val * V -> Prop) k v (m : list (val * V)),
  Forall P m -> P (k, v) -> (forall k' v', P (k', v') -> P (k', v)) -> Forall P (pd_set k v m).
Proof.
  intros V P k v m H Hv Hrep. induction H as [|[k' v'] m Hx Hm IH]; cbn [pd_set].
  - constructor; [exact Hv|constructor].
  - destruct (py_eq k k'); constructor; [eapply Hrep; exact Hx|exact Hm|exact Hx|exact IH].
Qed.

Definition table_key (s : tds) (k : val) : Prop :=
  exists z, k = VInt z /\ In (Some z) (rows_of T_TABLES s).

Lemma rid_mem_in : forall r l, rid_mem r l = true -> In r l.
Proof.
  intros r l H. unfold rid_mem in H. apply existsb_exists in H. destruct H as [x [Hx E]]. apply rid_eqb_eq in E. subst. exact Hx.
Qed.

Lemma sort_nums_ok : forall l, Forall (fun v => is_num v = true) l ->
  exists r, sort_nums l = Ok r /\ (forall x, In x r -> In x l) /\ length r = length l.
Proof.
  intros l H. unfold sort_nums.
  destruct (mapM_ok_post (fun v => bind (val_num v) (fun k => Ok (k, v))) (fun v y => snd y = v) l) as [keyed [-> Q]].
  { eapply Forall_impl; [|exact H]. cbn beta. intros v Hv. unfold is_num in Hv. destruct (val_num v); [|discriminate Hv]. cbn. eauto. }
  cbn [bind]. eexists. split; [reflexivity|].
  assert (Hmap : map snd keyed = l).
  { clear -Q. induction Q as [|v y l k E _ IH]; cbn; [reflexivity|]. rewrite E, IH. reflexivity. }
  split.
  - intros x Hx. rewrite <- Hmap. eapply sort_by_in. exact Hx.
  - unfold sort_by. rewrite map_length. rewrite <- Hmap, map_length.
    clear. induction keyed as [|y k IH]; cbn [fold_right]; [reflexivity|].
    assert (G : forall (x : numv * val) l0, length (insert_by numv_lt x l0) = S (length l0)).
    { intros x l0. induction l0 as [|z l0 IH0]; cbn [insert_by]; [reflexivity|]. destruct (numv_lt (fst z) (fst x)); cbn [length]; [rewrite IH0|]; reflexivity. }
    rewrite G, IH. reflexivity.
Qed.

Section M2.
  Variable s : tds.

  Definition pv_ok (kv : val * val) : Prop := table_key s (fst kv) /\ is_num (fst kv) = true /\ hashable (snd kv) = true.
  Definition vt_ok (kv : val * val) : Prop := is_num (fst kv) = true.

  Lemma m2_scan_ok : forall secs pv vt,
    Forall (fun sec => sec_pre2 s sec = true) secs -> Forall pv_ok pv -> Forall vt_ok vt ->
    exists r, m2_scan secs pv vt = Ok r /\ Forall pv_ok (fst r) /\ Forall vt_ok (snd r).
  Proof.
    induction secs as [|sec secs IH]; intros pv vt Hs Hpv Hvt; cbn [m2_scan]; [exists (pv, vt); auto|].
    inversion Hs as [|? ? Hsec Hrest]; subst. unfold sec_pre2, fld_is, has_fld in Hsec. split_pre Hsec.
    destruct (fld (zs "tableRef") sec) as [tr|]; [|discriminate Hsec]. apply andb_prop in Hsec. destruct Hsec as [Htrh Htrn].
    cbn [bind]. unfold hash_key at 1. rewrite Htrh. cbn [bind].
    destruct (fld (zs "parentKey") sec) as [pk|]; [|discriminate P1].
    destruct (fld (zs "parentId") sec) as [p|]; [|discriminate P0]. apply andb_prop in P0. destruct P0 as [Hph Hpn].
    assert (Hpv' : exists pv', match pd_get tr pv with
                               | Some _ => Ok pv
                               | None => bind (Ok pk) (fun pk0 => if py_eq pk0 (VStr (zs "record")) then bind (Ok p) (fun p0 => Ok (pd_set tr p0 pv)) else Ok pv)
                               end = Ok pv' /\ Forall pv_ok pv').
    { destruct (pd_get tr pv); [eauto|]. cbn [bind]. destruct (py_eq pk (VStr (zs "record"))); [|eauto].
      eexists. split; [reflexivity|]. apply pd_set_forall2; [exact Hpv| |].
      - destruct tr; try discriminate P. split; [exists z; split; [reflexivity|apply rid_mem_in; exact P]|]. split; [exact Htrn|exact Hph].
      - intros k' v' [A [B _]]. split; [exact A|split; [exact B|exact Hph]]. }
    destruct Hpv' as [pv' [-> Hpv']]. cbn [bind]. unfold hash_key. rewrite Hph. cbn [bind].
    apply IH; [exact Hrest|exact Hpv'|].
    destruct (pd_get p vt); [exact Hvt|]. apply pd_set_forall2; [exact Hvt|exact Hpn|]. intros k' v' A. exact A.
  Qed.
End M2.

Lemma pre2_sound : forall s, pre2 s = true -> exists acts s', m2 s = Ok acts /\ tds_apply_all acts s = Ok s' /\ J s'.
Proof.
  intros s H. unfold pre2 in H. split_pre H. pose proof (J_b_sound _ H) as HJ.
  pose proof (has_table_b_sound _ _ P1) as Hsec. pose proof (has_table_b_sound _ _ P0) as Htab.
  unfold m2. rewrite (table_records_ok _ _ Hsec). cbn [bind]. cbv zeta.
  destruct (m2_scan_ok s (recs T_SECTIONS s) [] []) as [[pv vt] [-> [Hpv Hvt]]]; [|constructor|constructor|].
  { apply Forall_forall. intros sec Hin. exact (proj1 (forallb_forall _ _) P sec Hin). }
  cbn [bind fst snd] in *.
  destruct (sort_nums_ok (map fst pv)) as [pkeys [-> [Hpk _]]].
  { apply Forall_forall. intros k Hk. apply in_map_iff in Hk. destruct Hk as [kv [<- Hkv]]. rewrite Forall_forall in Hpv. apply (Hpv kv Hkv). }
  cbn [bind].
  assert (Hkeys : forall k, In k pkeys -> table_key s k).
  { intros k Hk. apply Hpk in Hk. apply in_map_iff in Hk. destruct Hk as [kv [<- Hkv]]. rewrite Forall_forall in Hpv. apply (Hpv kv Hkv). }
  assert (Hpr : exists prids, mapM val_rid pkeys = Ok prids /\ Forall (fun r => In r (rows_of T_TABLES s)) prids).
  { clear -Hkeys. induction pkeys as [|k l IH]; cbn [mapM]; [exists []; split; [reflexivity|constructor]|].
    destruct (Hkeys k (or_introl eq_refl)) as [z [-> Hz]]. cbn [val_rid bind].
    destruct IH as [r [-> Hr]]; [intros; apply Hkeys; right; assumption|]. cbn [bind]. eexists. split; [reflexivity|constructor; assumption]. }
  destruct Hpr as [prids [-> Hprids]]. cbn [bind].
  destruct (sort_nums_ok (map fst vt)) as [vkeys [-> _]].
  { apply Forall_forall. intros k Hk. apply in_map_iff in Hk. destruct Hk as [kv [<- Hkv]]. rewrite Forall_forall in Hvt. apply (Hvt kv Hkv). }
  cbn [bind].
  destruct (mapM_some hash_key (map snd pv)) as [pvals ->].
  { apply Forall_forall. intros v Hv. apply in_map_iff in Hv. destruct Hv as [kv [<- Hkv]]. rewrite Forall_forall in Hpv.
    destruct (Hpv kv Hkv) as [_ [_ Hh]]. unfold hash_key. rewrite Hh. eauto. }
  cbn [bind].
  match goal with |- context [sort_nums (filter ?f (map fst vt))] => destruct (sort_nums_ok (filter f (map fst vt))) as [related [-> _]] end.
  { apply Forall_forall. intros k Hk. apply filter_In in Hk. destruct Hk as [Hk _]. apply in_map_iff in Hk. destruct Hk as [kv [<- Hkv]].
    rewrite Forall_forall in Hvt. apply (Hvt kv Hkv). }
  cbn [bind].
  (* the six actions, one after the other *)
  match goal with |- context [AddTable T_TABBAR ?c1 :: AddTable T_TABLEVIEWS ?c2 :: _] =>
    destruct (add_table_chain T_TABBAR c1 s HJ eq_refl) as [s1 [E1 [[HJ1 [T1 [Y1 R1]]] [Hbar1 _]]]];
    destruct (add_table_chain T_TABLEVIEWS c2 s1 HJ1 eq_refl) as [s2 [E2 [[HJ2 [T2 [Y2 R2]]] [Htv2 _]]]] end.
  assert (Hbar2 : typed_table T_TABBAR s2) by (apply Y2; [reflexivity|exact Hbar1]).
  destruct (good2_chain (add_column T_TABLES (zs "primaryViewId") (zs "Ref:_grist_Views")) s2 HJ2) as [s3 [E3 [HJ3 [T3 [Y3 R3]]]]].
  { split; [apply T2, T1; exact Htab|apply mkci_typed]. }
  match goal with |- context [BulkUpdateRecord T_TABLES prids ?cols] =>
    destruct (good2_chain (BulkUpdateRecord T_TABLES prids cols) s3 HJ3) as [s4 [E4 [HJ4 [T4 [Y4 R4]]]]] end.
  { split; [apply T3, T2, T1; exact Htab|]. eapply Forall_impl; [|exact Hprids]. cbn beta. intros r Hr.
    apply (R3 T_TABLES I), (R2 T_TABLES eq_refl), (R1 T_TABLES eq_refl). exact Hr. }
  match goal with |- context [ReplaceTableData T_TABBAR ?ids ?cols :: ReplaceTableData T_TABLEVIEWS ?ids2 ?cols2 :: _] =>
    destruct (replace_data_chain T_TABBAR ids cols s4 HJ4) as [s5 [E5 [[HJ5 [T5 [Y5 R5]]] _]]];
      [apply Y4, Y3; auto|
       unfold seq_ids; repeat (constructor; [cbn [snd]; repeat rewrite map_length; rewrite ?seq_length; reflexivity|]); constructor|];
    destruct (replace_data_chain T_TABLEVIEWS ids2 cols2 s5 HJ5) as [s6 [E6 [[HJ6 _] _]]];
      [apply Y5; [reflexivity|]; apply Y4, Y3; auto|
       unfold seq_ids; repeat (constructor; [cbn [snd]; repeat rewrite map_length; rewrite ?seq_length; reflexivity|]); constructor|] end.
  eexists. exists s6. split; [reflexivity|]. cbn [tds_apply_all].
  rewrite E1. cbn [bind]. rewrite E2. cbn [bind]. rewrite E3. cbn [bind]. rewrite E4. cbn [bind]. rewrite E5. cbn [bind]. rewrite E6. cbn [bind]. auto.
Qed.

(* ---------- migration 1 ---------- *)
Lemma ensure_table : forall t cols s, J s -> forallb ci_wf_b cols = true ->
  exists s1, tds_apply_all (if has t (t_data s) then [] else [AddTable t cols]) s = Ok s1 /\ J s1 /\ has_table t s1 /\
             ((has t (t_data s) = true -> typed_table t s) -> typed_table t s1) /\
             (forall u, has_table u s -> has_table u s1) /\
             (forall u, seqb u t = false -> typed_table u s -> typed_table u s1).
Proof.
  intros t cols s HJ Hwf. destruct (has t (t_data s)) eqn:Hh.
  - exists s. cbn [tds_apply_all]. split; [reflexivity|]. split; [exact HJ|]. split; [apply has_table_b_sound; exact Hh|]. auto.
  - destruct (add_table_chain t cols s HJ Hwf) as [s1 [E [[HJ1 [T [Y _]]] [Hty Hht]]]].
    exists s1. cbn [tds_apply_all]. rewrite E. cbn [bind]. split; [reflexivity|]. split; [exact HJ1|]. split; [exact Hht|]. auto.
Qed.

Lemma pre1_sound : forall s, pre1 s = true -> exists acts s', m1 s = Ok acts /\ tds_apply_all acts s = Ok s' /\ J s'.
Proof.
  intros s H. unfold pre1 in H. split_pre H. pose proof (J_b_sound _ H) as HJ.
  pose proof (has_table_b_sound _ _ P3) as Hsec. pose proof (has_table_b_sound _ _ P2) as Hdoc.
  unfold m1. cbv zeta. unfold has_col. destruct Hdoc as [dtd Hdtd]. rewrite Hdtd. cbn [bind].
  rewrite (table_records_ok _ _ Hsec). cbn [bind].
  match goal with |- exists acts s', bind ?A _ = _ /\ _ => assert (Hp : exists pairs, A = Ok pairs /\
      Forall (fun v => exists a b, v = VList [a; b] /\ is_num a = true /\ is_num b = true) pairs) end.
  { match goal with |- exists pairs, mapM ?f _ = _ /\ _ =>
      destruct (mapM_ok_post f (fun _ v => exists a b, v = VList [a; b] /\ is_num a = true /\ is_num b = true) (recs T_SECTIONS s)) as [pairs [E Q]] end.
    - apply Forall_forall. intros sec Hin. pose proof (proj1 (forallb_forall _ _) P sec Hin) as Q. cbv beta in Q.
      apply andb_prop in Q. destruct Q as [Q1 Q2]. unfold fld_is in Q1, Q2.
      destruct (fld (zs "tableRef") sec) as [a|]; [|discriminate Q1]. destruct (fld (zs "parentId") sec) as [b|]; [|discriminate Q2].
      apply andb_prop in Q1. destruct Q1 as [Ha1 Ha2]. apply andb_prop in Q2. destruct Q2 as [Hb1 Hb2].
      cbn [bind]. unfold hash_key. rewrite Ha1, Hb1. cbn [bind]. eexists. split; [reflexivity|]. eauto.
    - exists pairs. split; [exact E|]. clear -Q. induction Q; constructor; auto. }
  destruct Hp as [pairs [-> Hpairs]]. cbn [bind].
  assert (Hd : Forall (fun v => exists a b, v = VList [a; b] /\ is_num a = true /\ is_num b = true) (dedup_vals pairs [])).
  { assert (G : forall l acc, Forall (fun v => exists a b, v = VList [a; b] /\ is_num a = true /\ is_num b = true) l ->
                Forall (fun v => exists a b, v = VList [a; b] /\ is_num a = true /\ is_num b = true) acc ->
                Forall (fun v => exists a b, v = VList [a; b] /\ is_num a = true /\ is_num b = true) (dedup_vals l acc)).
    { induction l as [|x l IH]; intros acc Hl Hacc; cbn [dedup_vals]; [exact Hacc|]. inversion Hl; subst.
      destruct (pset_mem x acc); apply IH; auto. apply Forall_app. split; [exact Hacc|constructor; [assumption|constructor]]. }
    apply G; [exact Hpairs|constructor]. }
  destruct (mapM_some num_pair_key (dedup_vals pairs [])) as [keyed ->].
  { eapply Forall_impl; [|exact Hd]. cbn beta. intros v [a [b [-> [Ha Hb]]]]. cbn [num_pair_key]. unfold is_num in Ha, Hb.
    destruct (val_num a); [|discriminate Ha]. destruct (val_num b); [|discriminate Hb]. cbn. eauto. }
  cbn [bind].
  (* application, part by part *)
  match goal with |- context [AddTable T_ATTACHMENTS ?c1] => destruct (ensure_table T_ATTACHMENTS c1 s HJ eq_refl) as [s1 [E1 [HJ1 [Ha1 [_ [T1 Y1]]]]]] end.
  match goal with |- context [AddTable T_TABITEMS ?c2] => destruct (ensure_table T_TABITEMS c2 s1 HJ1 eq_refl) as [s2 [E2 [HJ2 [Hi2 [Hty2 [T2 Y2]]]]]] end.
  assert (Htab2 : typed_table T_TABITEMS s2).
  { apply Hty2. intros Hh. apply Y1; [reflexivity|]. apply typed_table_b_sound.
    destruct (has T_TABITEMS (t_data s)) eqn:Q; [exact P0|]. exfalso.
    (* the table exists in s1 only if it existed in s: AddTable Attachments does not create it *)
    clear -Q Hh E1. destruct (has T_ATTACHMENTS (t_data s)); cbn [tds_apply_all] in E1.
    - injection E1 as <-. congruence.
    - cbn [tds_apply schema_step data_step bind] in E1. injection E1 as <-. cbn [t_data] in Hh. unfold has in *.
      rewrite lookup_dset_other in Hh by reflexivity. congruence. }
  assert (Hhas_same : has T_ATTACHMENTS (t_data s1) = true).
  { destruct Ha1 as [td Htd]. unfold has. rewrite Htd. reflexivity. }
  set (a3 := if has (zs "schemaVersion") (snd dtd) then [] else [add_column T_DOCINFO (zs "schemaVersion") (zs "Int")]).
  assert (H3 : exists s3, tds_apply_all a3 s2 = Ok s3 /\ J s3 /\ (forall u, has_table u s2 -> has_table u s3) /\
                          (forall u, typed_table u s2 -> typed_table u s3)).
  { unfold a3. destruct (has (zs "schemaVersion") (snd dtd)); [exists s2; cbn; auto|].
    destruct (good2_chain (add_column T_DOCINFO (zs "schemaVersion") (zs "Int")) s2 HJ2) as [s3 [E3 [HJ3 [T3 [Y3 _]]]]].
    { split; [apply T2, T1; exists dtd; exact Hdtd|apply mkci_typed]. }
    exists s3. cbn [tds_apply_all]. rewrite E3. cbn [bind]. auto. }
  destruct H3 as [s3 [E3 [HJ3 [T3 Y3]]]].
  destruct (good2_chain (add_column T_ATTACHMENTS (zs "imageHeight") (zs "Int")) s3 HJ3) as [s4 [E4 [HJ4 [T4 [Y4 _]]]]].
  { split; [apply T3, T2; exact Ha1|apply mkci_typed]. }
  destruct (good2_chain (add_column T_ATTACHMENTS (zs "imageWidth") (zs "Int")) s4 HJ4) as [s5 [E5 [HJ5 [T5 [Y5 _]]]]].
  { split; [apply T4, T3, T2; exact Ha1|apply mkci_typed]. }
  assert (Hfin : forall tail s6, tds_apply_all tail s5 = Ok s6 -> J s6 ->
            exists acts s', Ok ((if has T_ATTACHMENTS (t_data s) then [] else [AddTable T_ATTACHMENTS
                                   [mkci (zs "fileIdent") (zs "Text") false []; mkci (zs "fileName") (zs "Text") false [];
                                    mkci (zs "fileType") (zs "Text") false []; mkci (zs "fileSize") (zs "Int") false [];
                                    mkci (zs "timeUploaded") (zs "DateTime") false []]]) ++
                                (if has T_TABITEMS (t_data s) then [] else [AddTable T_TABITEMS
                                   [mkci (zs "tableRef") (zs "Ref:_grist_Tables") false []; mkci (zs "viewRef") (zs "Ref:_grist_Views") false []]]) ++
                                a3 ++ [add_column T_ATTACHMENTS (zs "imageHeight") (zs "Int"); add_column T_ATTACHMENTS (zs "imageWidth") (zs "Int")] ++ tail)
                          = Ok acts /\ tds_apply_all acts s = Ok s' /\ J s').
  { intros tail s6 E6 HJ6. eexists. exists s6. split; [reflexivity|]. split; [|exact HJ6].
    rewrite tds_apply_all_app, E1. cbn [bind].
    assert (Eq2 : has T_TABITEMS (t_data s1) = has T_TABITEMS (t_data s)).
    { clear -E1. destruct (has T_ATTACHMENTS (t_data s)); cbn [tds_apply_all] in E1; [injection E1 as <-; reflexivity|].
      cbn [tds_apply schema_step data_step bind] in E1. injection E1 as <-. cbn [t_data]. unfold has.
      rewrite lookup_dset_other by reflexivity. reflexivity. }
    rewrite tds_apply_all_app. rewrite <- Eq2, E2. cbn [bind].
    rewrite tds_apply_all_app, E3. cbn [bind]. cbn [app tds_apply_all]. rewrite E4. cbn [bind]. rewrite E5. cbn [bind]. exact E6. }
  destruct (sort_by pair_lt keyed) as [|r0 rows] eqn:Er.
  - apply (Hfin [] s5); [reflexivity|exact HJ5].
  - match goal with |- context [ReplaceTableData T_TABITEMS ?ids ?cols] =>
      destruct (replace_data_chain T_TABITEMS ids cols s5 HJ5) as [s6 [E6 [[HJ6 _] _]]] end.
    + apply Y5, Y4, Y3; auto.
    + unfold seq_ids. repeat (constructor; [cbn [snd]; repeat rewrite map_length; rewrite ?seq_length; reflexivity|]). constructor.
    + eapply Hfin; [|exact HJ6]. cbn [tds_apply_all]. rewrite E6. reflexivity.
Qed.
