(* Main theorem about the re-evaluation of a lookup-map cell. *)
From Coq Require Import ZArith List Bool Lia.
Import ListNotations.
Require Import Grist.Model.Deps Grist.Model.DepsSpec Grist.Model.DepsExec Grist.Model.DepsEval Grist.Model.DepsLookup.
Require Import Grist.Proofs.DepsSpec_proofs.
Require Import Grist.Proofs.Deps_closure_proofs Grist.Proofs.Deps_inval_proofs Grist.Proofs.Deps_order_proofs.
Require Import Grist.Proofs.Deps_rel_proofs Grist.Proofs.Deps_refine_proofs Grist.Proofs.Deps_eval_proofs.
Require Import Grist.Proofs.Deps_eval_lazy_proofs Grist.Proofs.Deps_lookup_proofs.
Open Scope Z_scope.

Section Step.
Variables (fuel : nat) (v : cell -> Z) (f : cell -> option itree) (g : gst) (c : cell) (t : itree)
          (refs : list node) (l : list row) (v' : cell -> Z) (g' : gst).
Hypothesis Hf : f c = Some t.
Hypothesis HM : g_map g (fst c) = Some (Rows l).
Hypothesis Hd : in_map (g_map g) c = true.
Hypothesis Hclean : Forall (fun a => f (acell a) <> None -> in_map (g_map g) (acell a) = false) (trace v t).
Hypothesis Ho : owner_ok (g_edges g).
Hypothesis Hh : forall e, In e (g_edges g) -> head_look (e_rel e) = true.
(* the index holds, for this target row, the key that is the cell's current value *)
Hypothesis Hidx : lkkeys (g_rel g) (fst c) (snd c) = [v c].
(* the lookup map's formula reads the key columns of its own row (no lookups), all covered *)
Hypothesis Hcov : Forall (fun a => no_look (snd (fst a)) = true /\
                                   covers (g_rel g) (snd (fst a)) (snd (acell a)) (snd c) = true) (trace v t).
(* refs lists every referring node that holds registrations for this lookup map *)
Hypothesis Hrefs : forall n r k0, In (r, k0) (lkrows (g_rel g) (fst c) n) -> In n refs.
Hypothesis Hexec : eval_lookup_exec fuel v g c t refs = Some (v', g').

Let k := v c.
Let k' := run v t.
Let R2 := set_lkkeys (g_rel g) (fst c) (snd c) [k'].
Let E1 := record_reads (g_edges g) (fst c) (trace v t).
Let M1 := map_remove (g_map g) c.

Lemma Ho1 : owner_ok E1.
Proof.
  intros e He. apply record_reads_inv in He. destruct He as [He | (a & Ha & ->)]; [apply Ho; exact He |].
  rewrite Forall_forall in Hcov. destruct (Hcov a Ha) as [Hn _]. cbn [e_rel e_out fst snd].
  apply no_look_owner. exact Hn.
Qed.

(* what the execution leaves behind *)
Lemma exec_facts :
  v' = upd v c k' /\ g_edges g' = E1 /\ g_rel g' = R2 /\ mono M1 (g_map g') /\ cell_closed E1 R2 M1 (g_map g') /\
  (k <> k' -> forall n, In n refs -> batch_in (g_map g') (n, Rows (rows_by_keys (lkrows (g_rel g) (fst c) n) [k; k']))).
Proof.
  unfold eval_lookup_exec in Hexec. fold k k' R2 E1 M1 in Hexec.
  destruct (Z.eqb k k') eqn:E.
  - inversion Hexec; subst v' g'. cbn [g_edges g_rel g_map]. apply Z.eqb_eq in E.
    refine (conj eq_refl (conj eq_refl (conj eq_refl (conj (mono_refl _) (conj _ _))))).
    + intros d H1 H0. rewrite H1 in H0. discriminate.
    + intros X. contradiction.
  - destruct (invalidate_list fuel _ _) as [g2 |] eqn:HL; [| discriminate].
    destruct (invalidate_list_spec fuel _ (mkG E1 R2 M1 (g_nodes g)) g2 Ho1 HL) as (A1 & A2 & A3 & A4 & A5).
    inversion Hexec; subst v' g'. cbn [g_edges g_rel g_map] in *.
    refine (conj eq_refl (conj A1 (conj A2 (conj A3 (conj A5 _))))).
    intros _ n Hn. rewrite Forall_forall in A4.
    apply (A4 (n, rows_by_keys (lkrows R2 (fst c) n) [k; k'])). unfold post_batches. apply in_map_iff. eauto.
Qed.

Lemma cov2 a : In a (trace v t) -> covers R2 (snd (fst a)) (snd (acell a)) (snd c) = true.
Proof.
  intros Ha. rewrite Forall_forall in Hcov. destruct (Hcov a Ha) as [Hn Hc]. apply covers_In. apply covers_In in Hc.
  rewrite <- (aff_l_no_look_inv (g_rel g) R2 _ (fun _ _ => eq_refl) Hn). exact Hc.
Qed.

(* a row registered under the old or the new key is dirty afterwards *)
Lemma registered_dirty x k0 :
  k <> k' -> In (snd x, k0) (lkrows (g_rel g) (fst c) (fst x)) -> (k0 = k \/ k0 = k') -> in_map (g_map g') x = true.
Proof.
  intros Hne Hin Hk. destruct exec_facts as (_ & _ & _ & _ & _ & Hpost).
  pose proof (Hpost Hne (fst x) (Hrefs _ _ _ Hin) (snd x)) as B. cbn [fst snd] in B.
  replace x with (fst x, snd x) by (destruct x; reflexivity). apply B.
  apply in_rowset_rows. apply rows_by_keys_In. exists k0. split; auto. destruct Hk as [-> | ->]; cbn; auto.
Qed.

(* a link of the old state survives, or its dependent had looked up the old key *)
Lemma link_transfer d x via :
  In (fst x, fst d, via) (g_edges g) -> covers (g_rel g) via (snd d) (snd x) = true ->
  covers R2 via (snd d) (snd x) = true \/ (k <> k' /\ In (snd x, k) (lkrows (g_rel g) (fst c) (fst x))).
Proof.
  intros Hin Hc. apply covers_In in Hc.
  destruct (aff_keys_change (g_rel g) (fst c) (snd c) k k' Hidx via (Hh _ Hin) _ _ Hc) as [H | (Hne & n' & Hhd & Hr)].
  - left. apply covers_In. exact H.
  - right. split; auto. pose proof (Ho _ Hin) as Hown. cbn [e_rel e_out fst snd] in Hown.
    rewrite (head_owner _ _ _ _ Hown Hhd) in Hr. exact Hr.
Qed.

Theorem eval_lookup_ok : eval_ok guardedL (to_state v f g) c t (to_state v' f g').
Proof.
  destruct exec_facts as (Hv & HE & HR & Hmono & Hclosed & Hpost).
  constructor; cbn [to_state val fml dirty edges rst].
  - exact Hf.
  - exact Hd.
  - exact Hclean.
  - intros x. rewrite Hv. reflexivity.
  - reflexivity.
  - intros x Hx Hdx. apply (proj1 Hmono). eapply in_map_remove_other; eauto.
  - intros Hcl. rewrite Forall_forall. intros a Ha. left. split.
    + exists (snd (fst a)). cbn [to_state edges rst]. rewrite HE, HR. split; [apply record_reads_has; exact Ha |].
      apply cov2. exact Ha.
    + intros Hfa. cbn [to_state fml dirty] in *. destruct (in_map (g_map g') (acell a)) eqn:X; auto.
      rewrite Forall_forall in Hclean. pose proof (Hclean a Ha Hfa) as Hc0.
      assert (N1 : in_map M1 (acell a) = false).
      { destruct (in_map M1 (acell a)) eqn:Y; auto. apply in_map_remove in Y. congruence. }
      pose proof (Hclosed (acell a) X N1 (fst c, fst (acell a), snd (fst a)) (snd c)
                   (record_reads_has _ _ _ _ Ha) eq_refl) as B.
      cbn [e_rel e_out fst snd] in B.
      assert (in_map (g_map g') c = true).
      { replace c with (fst c, snd c) by (destruct c; reflexivity). apply B. apply covers_In. apply cov2. exact Ha. }
      congruence.
  - intros d x Hd1 Hd0 (via & Hin & Hc) Hfx. cbn [to_state edges rst fml dirty] in *.
    assert (N1 : in_map M1 d = false).
    { destruct (in_map M1 d) eqn:Y; auto. apply in_map_remove in Y. congruence. }
    destruct (link_transfer d x via Hin Hc) as [H2 | (Hne & Hr)].
    + pose proof (Hclosed d Hd1 N1 (fst x, fst d, via) (snd x) (record_reads_incl _ _ _ _ Hin) eq_refl) as B.
      cbn [e_rel e_out fst snd] in B. replace x with (fst x, snd x) by (destruct x; reflexivity).
      apply B. apply covers_In. exact H2.
    + apply (registered_dirty x k Hne Hr). auto.
  - intros d x Hx Hfx Hcl (via & Hin & Hc). cbn [to_state edges rst fml dirty] in *. exists via.
    cbn [to_state edges rst]. rewrite HE, HR.
    split; [apply record_reads_incl; exact Hin |].
    destruct (link_transfer d x via Hin Hc) as [H2 | (Hne & Hr)]; auto.
    rewrite (registered_dirty x k Hne Hr (or_introl eq_refl)) in Hcl. discriminate.
  - intros x d p Hx Hfx Hcl (k0 & Hp & Hin). cbn [to_state rst dirty] in *. split.
    + exists k0. split; auto. cbn [to_state rst]. rewrite HR. exact Hin.
    + rewrite Hv. destruct (cell_dec d c) as [-> | Hdc]; [| rewrite upd_other; auto].
      rewrite upd_same, !Hp. fold k.
      destruct (Z.eqb k' k0) eqn:A; destruct (Z.eqb k k0) eqn:B; auto; exfalso.
      * apply Z.eqb_eq in A. apply Z.eqb_neq in B.
        assert (Hne : k <> k') by congruence.
        rewrite (registered_dirty x k0 Hne Hin (or_intror (eq_sym A))) in Hcl. discriminate.
      * apply Z.eqb_neq in A. apply Z.eqb_eq in B.
        assert (Hne : k <> k') by congruence.
        rewrite (registered_dirty x k0 Hne Hin (or_introl (eq_sym B))) in Hcl. discriminate.
Qed.

End Step.
