(* Bridging lemmas: every function of GristGen.Csv_gen (REGENERATED from imports/import_utils.py, parse_data.py and
   imports/import_csv.py by harness/csv2v.py on every run) equals the corresponding hand-written function of
   Model/Csv.v.  These proofs are re-checked against the regenerated text on every run: a semantic edit of the
   source breaks one of them. *)
From Coq Require Import ZArith List Bool Arith Lia.
Import ListNotations.
Require Import Grist.Model.Csv Grist.Lib.CsvPrelude GristGen.Csv_gen Grist.Proofs.Csv_proofs.
Open Scope nat_scope.

Definition zpair {A} (p : nat * A) : Z * A := (Z.of_nat (fst p), snd p).

(* ---- generic facts about the prelude ------------------------------------------------------------------ *)

Lemma py_for_search : forall {A R} (l : list A) (p : A -> bool) (v : R) (body : unit -> A -> ctl R unit),
  (forall x, body tt x = if p x then Ret v else Nxt tt) ->
  py_for l tt body = if existsb p l then inl v else inr tt.
Proof.
  intros A R l p v body Hb. induction l as [|x t IH]; [reflexivity|].
  cbn [py_for existsb]. rewrite Hb. destruct (p x); [reflexivity | exact IH].
Qed.

Lemma forallb_negb_existsb : forall {A} (q : A -> bool) l, forallb (fun x => negb (q x)) l = negb (existsb q l).
Proof.
  intros A q l. induction l as [|x t IH]; [reflexivity|]. cbn. rewrite IH. destruct (q x); reflexivity.
Qed.

Lemma existsb_ext' : forall {A} (p q : A -> bool) l, (forall x, p x = q x) -> existsb p l = existsb q l.
Proof. intros A p q l H. induction l as [|x t IH]; [reflexivity|]. cbn. rewrite H, IH. reflexivity. Qed.

Lemma forallb_ext' : forall {A} (p q : A -> bool) l, (forall x, p x = q x) -> forallb p l = forallb q l.
Proof. intros A p q l H. induction l as [|x t IH]; [reflexivity|]. cbn. rewrite H, IH. reflexivity. Qed.

Lemma nth_error_ext' : forall {A} (l l' : list A), (forall j, nth_error l j = nth_error l' j) -> l = l'.
Proof.
  induction l as [|x l IH]; intros [|y l'] H.
  - reflexivity.
  - specialize (H 0). discriminate H.
  - specialize (H 0). discriminate H.
  - pose proof (H 0) as H0. cbn in H0. inversion H0; subst. f_equal. apply IH. intros j. exact (H (S j)).
Qed.

Lemma islice_of_nat : forall {A} (l : list A) n, py_islice_from l (Z.of_nat n) = skipn n l.
Proof. intros. unfold py_islice_from. rewrite Nat2Z.id. reflexivity. Qed.

Lemma slice_from_of_nat : forall {A} (l : list A) n, py_slice_from l (Z.of_nat n) = skipn n l.
Proof.
  intros. unfold py_slice_from. replace (0 <=? Z.of_nat n)%Z with true by (symmetry; apply Z.leb_le; lia).
  rewrite Nat2Z.id. reflexivity.
Qed.

Lemma slice_to_of_nat : forall {A} (l : list A) n, py_slice_to l (Z.of_nat n) = firstn n l.
Proof.
  intros. unfold py_slice_to. replace (0 <=? Z.of_nat n)%Z with true by (symmetry; apply Z.leb_le; lia).
  rewrite Nat2Z.id. reflexivity.
Qed.

Lemma py_repeat_sub : forall {A} (x : A) a b, py_repeat x (Z.of_nat a - Z.of_nat b) = repeat x (a - b).
Proof. intros. unfold py_repeat. f_equal. lia. Qed.

Lemma py_repeat_of_nat : forall {A} (x : A) a, py_repeat x (Z.of_nat a) = repeat x a.
Proof. intros. unfold py_repeat. rewrite Nat2Z.id. reflexivity. Qed.

(* ---- empty ------------------------------------------------------------------------------------------- *)

Lemma is_nil_lstrip : forall s, is_nil (lstrip s) = forallb is_space s.
Proof.
  induction s as [|c t IH]; [reflexivity|]. cbn [lstrip forallb]. destruct (is_space c); [exact IH | reflexivity].
Qed.

Lemma is_nil_rev : forall {A} (l : list A), is_nil (rev l) = is_nil l.
Proof. intros A [|x l]; [reflexivity|]. cbn [rev]. destruct (rev l); reflexivity. Qed.

Lemma forallb_rev : forall {A} (f : A -> bool) l, forallb f (rev l) = forallb f l.
Proof.
  intros A f l. induction l as [|x t IH]; [reflexivity|].
  cbn [rev forallb]. rewrite forallb_app, IH. cbn. rewrite andb_true_r. apply andb_comm.
Qed.

Lemma forallb_lstrip : forall s, forallb is_space (lstrip s) = forallb is_space s.
Proof.
  induction s as [|c t IH]; [reflexivity|]. cbn [lstrip]. destruct (is_space c) eqn:E; [|reflexivity].
  cbn [forallb]. rewrite E. exact IH.
Qed.

Lemma is_nil_strip : forall s, is_nil (strip s) = empty s.
Proof.
  intros s. unfold strip, empty. rewrite is_nil_rev, is_nil_lstrip, forallb_rev. apply forallb_lstrip.
Qed.

Theorem gen_empty : forall c, g_empty c = empty c.
Proof. intros c. unfold g_empty. cbn [negb]. rewrite negb_involutive. apply is_nil_strip. Qed.

(* ---- _count_nonempty ------------------------------------------------------------------------------------ *)

Lemma count_fold : forall (f : Z -> Z * cell -> Z),
  (forall acc i c, f acc (i, c) = if negb (empty c) then (i + 1)%Z else acc) ->
  forall r i acc,
  fold_left f (py_enumerate_from i r) acc
  = if count_nonempty r =? 0 then acc else (i + Z.of_nat (count_nonempty r))%Z.
Proof.
  intros f Hf. induction r as [|c t IH]; intros i acc; [reflexivity|].
  cbn [py_enumerate_from fold_left count_nonempty]. rewrite IH, Hf.
  destruct (count_nonempty t =? 0) eqn:E.
  - apply Nat.eqb_eq in E. rewrite E. destruct (empty c); cbn [negb andb Nat.eqb]; [reflexivity | lia].
  - cbn [andb Nat.eqb]. lia.
Qed.

Theorem gen_count_nonempty : forall r, g_count_nonempty r = Z.of_nat (count_nonempty r).
Proof.
  intros r. unfold g_count_nonempty, py_enumerate. cbv zeta. rewrite count_fold.
  - destruct (count_nonempty r =? 0) eqn:E; [apply Nat.eqb_eq in E; rewrite E; reflexivity | lia].
  - intros acc i c. rewrite gen_empty. reflexivity.
Qed.

(* ---- column_count_modal --------------------------------------------------------------------------------- *)

Definition zz (p : nat * nat) : Z * Z := (Z.of_nat (fst p), Z.of_nat (snd p)).

Lemma counts_add_bump : forall k cs, py_counts_add (Z.of_nat k) 1 (map zz cs) = map zz (bump k cs).
Proof.
  induction cs as [|[k' n] cs IH]; [reflexivity|].
  cbn [map bump py_counts_add]. unfold zz at 1. cbn [fst snd].
  replace (Z.of_nat k =? Z.of_nat k')%Z with (k =? k').
  - destruct (k =? k'); cbn [map]; [unfold zz; cbn [fst snd]; f_equal; f_equal; lia | rewrite IH; reflexivity].
  - destruct (Nat.eqb_spec k k') as [->|Hne]; symmetry; [apply Z.eqb_refl | apply Z.eqb_neq; lia].
Qed.

Lemma first_max_zz : forall l best, py_first_max_snd (zz best) (map zz l) = zz (first_max best l).
Proof.
  induction l as [|kv l IH]; intros best; [reflexivity|].
  cbn [map py_first_max_snd first_max]. unfold zz at 1 2. cbn [snd].
  replace (Z.of_nat (snd best) <? Z.of_nat (snd kv))%Z with (snd best <? snd kv).
  - destruct (snd best <? snd kv); apply IH.
  - destruct (Nat.ltb_spec (snd best) (snd kv)); symmetry; [apply Z.ltb_lt | apply Z.ltb_ge]; lia.
Qed.

Lemma nonempty_cells_gen : forall r,
  py_len (map (fun c_ : cell => c_) (filter (fun c_ : cell => negb (g_empty c_)) r)) = Z.of_nat (nonempty_cells r).
Proof.
  intros r. unfold py_len, nonempty_cells. rewrite map_id.
  rewrite (filter_ext _ (fun c => negb (empty c))); [reflexivity|]. intros c. rewrite gen_empty. reflexivity.
Qed.

Lemma modal_fold : forall (f : counts -> row -> counts),
  (forall cs r, f (map zz cs) r = map zz (let l := nonempty_cells r in if 1 <? l then bump l cs else cs)) ->
  forall rows cs,
  fold_left f rows (map zz cs)
  = map zz (fold_left (fun cs r => let l := nonempty_cells r in if 1 <? l then bump l cs else cs) rows cs).
Proof.
  intros f Hf. induction rows as [|r rows IH]; intros cs; [reflexivity|].
  cbn [fold_left]. rewrite Hf. apply IH.
Qed.

Theorem gen_column_count_modal : forall rows, g_column_count_modal rows = Z.of_nat (column_count_modal rows).
Proof.
  intros rows. unfold g_column_count_modal, column_count_modal, modal_counts. cbv zeta.
  change (@nil (Z * Z)) with (map zz []). rewrite modal_fold.
  - cbv zeta. match goal with |- context[map zz ?x] => destruct x as [|kv t] end; [reflexivity|].
    cbn [map is_nil negb py_max_by_snd]. rewrite first_max_zz. reflexivity.
  - intros cs r. rewrite nonempty_cells_gen. cbv zeta.
    replace (Z.of_nat (nonempty_cells r) >? 1)%Z with (1 <? nonempty_cells r).
    + destruct (1 <? nonempty_cells r); [apply counts_add_bump | reflexivity].
    + rewrite Z.gtb_ltb. destruct (Nat.ltb_spec 1 (nonempty_cells r)); symmetry; [apply Z.ltb_lt | apply Z.ltb_ge]; lia.
Qed.

(* ---- find_first_non_empty_row ----------------------------------------------------------------------------- *)

Lemma ffner_loop : forall (modal : nat) (body : unit -> Z * row -> ctl (Z * row) unit),
  (forall i r, body tt (i, r) = if (g_count_nonempty r >=? Z.of_nat modal - 1)%Z then Ret ((i + 1)%Z, r) else Nxt tt) ->
  forall rows i,
  match py_for (py_enumerate_from (Z.of_nat i) rows) tt body with
  | inl r => r
  | inr _ => (0%Z, [])
  end = zpair (ffner_from modal i rows).
Proof.
  intros modal body Hb. induction rows as [|r rows IH]; intros i; [reflexivity|].
  cbn [py_enumerate_from py_for ffner_from]. rewrite Hb, gen_count_nonempty.
  replace (Z.of_nat (count_nonempty r) >=? Z.of_nat modal - 1)%Z with (modal - 1 <=? count_nonempty r).
  - destruct (modal - 1 <=? count_nonempty r).
    + unfold zpair. cbn [fst snd]. f_equal. lia.
    + replace (Z.of_nat i + 1)%Z with (Z.of_nat (S i)) by lia. apply IH.
  - rewrite Z.geb_leb. destruct (Nat.leb_spec (modal - 1) (count_nonempty r)); symmetry;
      [apply Z.leb_le | apply Z.leb_gt]; lia.
Qed.

Theorem gen_find_first_non_empty_row : forall rows,
  g_find_first_non_empty_row rows = zpair (find_first_non_empty_row rows).
Proof.
  intros rows. unfold g_find_first_non_empty_row, find_first_non_empty_row, py_enumerate. cbv zeta.
  rewrite gen_column_count_modal. change 0%Z with (Z.of_nat 0) at 1.
  apply (ffner_loop (column_count_modal rows)). intros i r. reflexivity.
Qed.

(* ---- _is_header -------------------------------------------------------------------------------------------- *)

Theorem gen_is_header : forall isnum header rows, g_is_header isnum header rows = is_header isnum header rows.
Proof.
  intros isnum header rows. unfold g_is_header, is_header.
  rewrite (py_for_search header isnum false) by (intros x; reflexivity).
  destruct (existsb isnum header); [reflexivity|]. cbn [negb andb].
  rewrite (py_for_search rows
             (fun r => existsb (fun p : cell * cell => negb (is_nil (fst p)) && cell_eqb (fst p) (snd p))
                               (combine r header)) false).
  - rewrite forallb_negb_existsb.
    match goal with |- context[if ?b then inl false else inr tt] => set (bb := b) end.
    match goal with |- ?l = _ => change (l = negb bb) end. clearbody bb. destruct bb; reflexivity.
  - intros r.
    rewrite (py_for_search (combine r header)
               (fun p : cell * cell => negb (is_nil (fst p)) && cell_eqb (fst p) (snd p)) false).
    + destruct (existsb _ (combine r header)); reflexivity.
    + intros [c hc]. reflexivity.
Qed.

(* ---- expand_headers ---------------------------------------------------------------------------------------- *)

Lemma fold_max_of_nat : forall l a,
  fold_left Z.max (map Z.of_nat l) (Z.of_nat a) = Z.of_nat (Nat.max a (list_max l)).
Proof.
  induction l as [|x l IH]; intros a; cbn [map fold_left list_max fold_right].
  - f_equal. lia.
  - replace (Z.max (Z.of_nat a) (Z.of_nat x)) with (Z.of_nat (Nat.max a x)) by lia.
    rewrite IH. f_equal. fold (list_max l). lia.
Qed.

Lemma strip_nil : strip [] = [].
Proof. reflexivity. Qed.

Theorem gen_expand_headers : forall hs off rows,
  g_expand_headers hs (Z.of_nat off) rows = expand_headers hs off rows.
Proof.
  intros hs off rows. unfold g_expand_headers, expand_headers. cbv zeta.
  rewrite islice_of_nat.
  rewrite (map_ext _ (fun r => Z.of_nat (count_nonempty r)) gen_count_nonempty).
  rewrite <- (map_map count_nonempty Z.of_nat).
  cbn [app py_max]. unfold py_len. rewrite fold_max_of_nat, py_repeat_sub.
  f_equal. apply map_ext. intros [|c h]; reflexivity.
Qed.

(* ---- headers_guess ----------------------------------------------------------------------------------------- *)

Lemma ffner_nonblank_offset : forall rows off h, find_first_non_empty_row rows = (off, h) -> h <> [] -> 1 <= off.
Proof.
  intros rows off h H Hne. destruct (ffner_spec _ _ _ H) as [[_ [_ ->]]|[k [-> _]]]; [contradiction | lia].
Qed.

Theorem gen_headers_guess : forall isnum rows, g_headers_guess isnum rows = zpair (headers_guess isnum rows).
Proof.
  intros isnum rows. unfold g_headers_guess, headers_guess. rewrite gen_find_first_non_empty_row.
  destruct (find_first_non_empty_row rows) as [off header] eqn:Ef. unfold zpair at 1. cbn [fst snd].
  destruct header as [|h0 ht]; [reflexivity|]. cbn [is_nil negb].
  rewrite islice_of_nat, gen_is_header.
  change (@skipn (list cell) off rows) with (@skipn row off rows).
  destruct (is_header isnum (h0 :: ht) (@skipn row off rows)); cbn [negb].
  - rewrite gen_expand_headers. reflexivity.
  - assert (Hoff : 1 <= off) by (eapply ffner_nonblank_offset; [exact Ef | discriminate]).
    replace (Z.of_nat off - 1)%Z with (Z.of_nat (off - 1)) by lia.
    rewrite gen_expand_headers. reflexivity.
Qed.

(* ---- parse_data.get_table_data ------------------------------------------------------------------------------ *)

Definition pad (n : nat) (r : row) : row := r ++ repeat [] (n - length r).
Definition tstep (n : nat) (accs : list (list cell)) (r : row) : list (list cell) :=
  py_zip_update (fun (c : cell) (conv : list cell) => convert_and_add conv c) (pad n r) accs.

Lemma nth_error_zip_update : forall {A B} (f : A -> B -> B) l objs j,
  nth_error (py_zip_update f l objs) j =
  match nth_error objs j with
  | None => None
  | Some b => match nth_error l j with Some a => Some (f a b) | None => Some b end
  end.
Proof.
  induction l as [|a l IH]; intros objs j.
  - cbn [py_zip_update]. destruct (nth_error objs j); destruct j; reflexivity.
  - destruct objs as [|b objs]; [destruct j; reflexivity|].
    destruct j as [|j]; [reflexivity|]. cbn [py_zip_update nth_error]. apply IH.
Qed.

Lemma nth_repeat_nil : forall n j, nth j (repeat ([] : cell) n) [] = [].
Proof. induction n as [|n IH]; intros [|j]; try reflexivity. apply IH. Qed.

Lemma nth_pad : forall n r j, nth j (pad n r) [] = nth j r [].
Proof.
  intros n r j. unfold pad. destruct (Nat.lt_ge_cases j (length r)) as [H|H].
  - apply app_nth1. exact H.
  - rewrite app_nth2 by exact H. rewrite nth_repeat_nil. symmetry. apply nth_overflow. exact H.
Qed.

Lemma length_pad : forall n r, n <= length (pad n r).
Proof. intros. unfold pad. rewrite app_length, repeat_length. lia. Qed.

Lemma tstep_table : forall n p r, tstep n (get_table_data p n) r = get_table_data (p ++ [r]) n.
Proof.
  intros n p r. apply nth_error_ext'. intros j. unfold tstep.
  rewrite nth_error_zip_update, !nth_error_get_table_data.
  destruct (j <? n) eqn:Hj; [|reflexivity]. apply Nat.ltb_lt in Hj.
  rewrite (nth_error_nth' (pad n r) [] (Nat.lt_le_trans _ _ _ Hj (length_pad n r))).
  rewrite nth_pad. unfold convert_and_add. rewrite map_app. reflexivity.
Qed.

Lemma fold_tstep : forall n rows p, fold_left (tstep n) rows (get_table_data p n) = get_table_data (p ++ rows) n.
Proof.
  intros n. induction rows as [|r rows IH]; intros p; cbn [fold_left].
  - rewrite app_nil_r. reflexivity.
  - rewrite tstep_table, IH, <- app_assoc. reflexivity.
Qed.

Lemma table_loop : forall (n : nat) (nr : Z) (body : list (list cell) -> Z * row -> ctl unit (list (list cell))),
  (forall accs i r, body accs (i, r) =
     if negb (nr =? 0)%Z && (i =? nr)%Z then Brk accs else Nxt (tstep n accs r)) ->
  forall rows i accs, (0 <= i)%Z -> (nr <= 0 \/ i <= nr)%Z ->
  py_for (py_enumerate_from i rows) accs body
  = inr (fold_left (tstep n) (if (0 <? nr)%Z then firstn (Z.to_nat (nr - i)) rows else rows) accs).
Proof.
  intros n nr body Hb. induction rows as [|r rows IH]; intros i accs Hi Hnr.
  - cbn [py_enumerate_from py_for]. destruct (0 <? nr)%Z; [rewrite firstn_nil|]; reflexivity.
  - cbn [py_enumerate_from py_for]. rewrite Hb.
    destruct (0 <? nr)%Z eqn:Hpos.
    + pose proof (proj1 (Z.ltb_lt _ _) Hpos) as Hpos'. destruct (Z.eqb_spec nr 0) as [?|_]; [lia|]. cbn [negb andb].
      destruct (Z.eqb_spec i nr) as [->|Hne].
      * rewrite Z.sub_diag. reflexivity.
      * rewrite IH by lia.
        replace (Z.to_nat (nr - i)) with (S (Z.to_nat (nr - (i + 1)))) by lia. reflexivity.
    + apply Z.ltb_ge in Hpos.
      replace (negb (nr =? 0)%Z && (i =? nr)%Z) with false.
      * rewrite IH by lia. reflexivity.
      * destruct (Z.eqb_spec nr 0); [reflexivity|]. destruct (Z.eqb_spec i nr); [lia | reflexivity].
Qed.

Lemma map_const_seq : forall {A} (x : A) n s, map (fun _ => x) (seq s n) = repeat x n.
Proof. intros A x. induction n as [|n IH]; intros s; [reflexivity|]. cbn [seq map repeat]. rewrite IH. reflexivity. Qed.

Lemma map_repeat' : forall {A B} (f : A -> B) x n, map f (repeat x n) = repeat (f x) n.
Proof. intros A B f x. induction n as [|n IH]; [reflexivity|]. cbn [repeat map]. rewrite IH. reflexivity. Qed.

Theorem gen_get_table_data : forall rows n nr,
  g_get_table_data rows (Z.of_nat n) nr = map get_grist_column (get_table_data (take_rows nr rows) n).
Proof.
  intros rows n nr. unfold g_get_table_data. cbv zeta. unfold guess_basic_types, py_loop, py_enumerate.
  rewrite Nat2Z.id, map_repeat'. change (ColumnConverter tt) with ([] : list cell).
  rewrite <- (map_const_seq ([] : list cell) n 0). change (map (fun _ : nat => []) (seq 0 n)) with (get_table_data [] n).
  rewrite (table_loop n nr).
  - rewrite fold_tstep. cbn [app]. unfold take_rows. rewrite Z.sub_0_r. reflexivity.
  - intros accs i r. unfold tstep, pad, py_len. rewrite repeat_length.
    destruct (Z.of_nat n - Z.of_nat (length r) >? 0)%Z eqn:Hgt.
    + rewrite py_repeat_sub. reflexivity.
    + replace (n - length r) with 0 by (rewrite Z.gtb_ltb in Hgt; apply Z.ltb_ge in Hgt; lia).
      cbn [repeat]. rewrite app_nil_r. reflexivity.
  - lia.
  - lia.
Qed.

(* ---- import_csv._parse_open_file (the part after csv.reader) ------------------------------------------------ *)

Definition mk_cd (c : column) : coldict := {| cd_id := c_id c; cd_data := c_data c |}.

Lemma noop_fold : forall {A B} (f : A -> B -> A) l a, (forall a x, f a x = a) -> fold_left f l a = a.
Proof. intros A B f l a H. induction l as [|x l IH]; [reflexivity|]. cbn [fold_left]. rewrite H. exact IH. Qed.

Lemma cell_eqb_nil : forall v : cell, cell_eqb v [] = is_nil v.
Proof. intros [|x v]; reflexivity. Qed.

Lemma removal_loop : forall (body : list coldict * list (list cell) -> coldict * cell ->
                                   ctl unit (list coldict * list (list cell))),
  (forall cm td d h, body (cm, td) (d, h) =
     if is_nil h && forallb is_nil (cd_data d) then Nxt (cm, td)
     else Nxt (cm ++ [cd_set_id d h], td ++ [cd_data d])) ->
  forall cols headers k cm td,
  py_for (combine (map get_grist_column cols) headers) (cm, td) body
  = inr (cm ++ map mk_cd (build_columns k cols headers), td ++ map c_data (build_columns k cols headers)).
Proof.
  intros body Hb. induction cols as [|d cols IH]; intros headers k cm td.
  - cbn. rewrite !app_nil_r. reflexivity.
  - destruct headers as [|h headers]; [cbn; rewrite !app_nil_r; reflexivity|].
    cbn [map combine py_for build_columns]. rewrite Hb. cbn [get_grist_column cd_data].
    destruct (is_nil h && forallb is_nil d).
    + apply IH.
    + rewrite (IH headers (S k)). cbn [map mk_cd c_id c_data cd_set_id get_grist_column cd_data].
      rewrite <- !app_assoc. reflexivity.
Qed.

Lemma guessed_header_offset : forall isnum rows off hs,
  headers_guess isnum rows = (off, hs) -> any_header hs = true -> 1 <= off.
Proof.
  intros isnum rows off hs H Hany. unfold headers_guess in H.
  destruct (find_first_non_empty_row rows) as [off0 header] eqn:Ef.
  destruct header as [|h0 ht].
  - inversion H; subst. discriminate Hany.
  - assert (Hoff : 1 <= off0) by (eapply ffner_nonblank_offset; [exact Ef | discriminate]).
    destruct (is_header isnum (h0 :: ht) (skipn off0 rows)); inversion H; subst; [exact Hoff|].
    unfold expand_headers in Hany. cbn [map app] in Hany. rewrite any_header_repeat in Hany. discriminate Hany.
Qed.

Ltac parse_tail :=
  rewrite slice_from_of_nat; change 0%Z with (Z.of_nat 0); rewrite gen_expand_headers;
  unfold py_len; rewrite gen_get_table_data; unfold py_loop;
  match goal with |- context[py_for _ _ ?b] =>
    let Hb := fresh "Hb" in
    assert (Hb : forall cm td d h, b (cm, td) (d, h) =
                   if is_nil h && forallb is_nil (cd_data d) then Nxt (cm, td)
                   else Nxt (cm ++ [cd_set_id d h], td ++ [cd_data d]));
    [ intros cm td d h; cbn beta iota; rewrite negb_involutive, (forallb_ext' _ is_nil _ cell_eqb_nil); reflexivity
    | rewrite (removal_loop b Hb _ _ 0 [] []) ]
  end;
  reflexivity.

Theorem gen_parse_rows : forall isnum o rows,
  g_parse_rows isnum o rows
  = (map mk_cd (import_csv_gen true isnum rows o), map c_data (import_csv_gen true isnum rows o)).
Proof.
  intros isnum o rows.
  unfold g_parse_rows, import_csv_gen, csv_headers, csv_data_rows, csv_offset, header_decision, widen. cbv zeta.
  change 100%Z with (Z.of_nat sample_len).
  rewrite slice_to_of_nat, gen_headers_guess.
  destruct (headers_guess isnum (firstn sample_len rows)) as [off hs] eqn:Eg.
  unfold zpair at 1. cbn [fst snd].
  rewrite noop_fold by (intros a [i h]; reflexivity).
  unfold opt_headers_get. fold (any_header hs).
  destruct (any_header hs) eqn:Eh; destruct (o_headers o) as [[|]|]; cbn [andb negb].
  - parse_tail.
  - pose proof (guessed_header_offset _ _ _ _ Eg Eh) as Hoff.
    replace (Z.of_nat off - 1)%Z with (Z.of_nat (off - 1)) by lia.
    unfold py_len. rewrite py_repeat_of_nat. parse_tail.
  - parse_tail.
  - rewrite gen_find_first_non_empty_row.
    destruct (find_first_non_empty_row (firstn sample_len rows)) as [off' first_row].
    unfold zpair at 1. cbn [fst snd]. rewrite gen_expand_headers. parse_tail.
  - parse_tail.
  - parse_tail.
Qed.
