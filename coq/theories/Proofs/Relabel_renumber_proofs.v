(* C20: total correctness of the model on the simple renumbering path: every request lands before the first
   existing row, and that row's position is invalid (<= 0 or +inf, but not -inf), so prep_inserts_at_index
   renumbers everything 1..N (_adjust_all). *)
From Coq Require Import ZArith List Bool Lia Sorted Permutation.
Import ListNotations.
Require Import Grist.Lib.Fl64 Grist.Proofs.Fl64_proofs Grist.Model.Relabel
               Grist.Proofs.Sort_by_proofs Grist.Proofs.Relabel_ungroup_proofs Grist.Proofs.Relabel_check_proofs
               Grist.Proofs.Relabel_total_proofs.
Open Scope Z_scope.

(* ---- insertion sort: elements that are not smaller than anything before them stay where they are *)
Section InsertLemmas.
Context {A : Type} (lt : A -> A -> bool).

Lemma insert_at_end x l : (forall y, In y l -> lt x y = false) -> insert_by lt x l = l ++ [x].
Proof.
  induction l as [|y t IH]; intros H; cbn; [reflexivity|].
  rewrite (H y (or_introl eq_refl)). f_equal. apply IH. intros; apply H; right; assumption.
Qed.

Lemma insert_middle x l1 z l2 : (forall y, In y l1 -> lt x y = false) -> lt x z = true ->
  insert_by lt x (l1 ++ z :: l2) = l1 ++ x :: z :: l2.
Proof.
  induction l1 as [|y t IH]; intros H Hz; cbn.
  - rewrite Hz. reflexivity.
  - rewrite (H y (or_introl eq_refl)). f_equal. apply IH; [intros; apply H; right; assumption | exact Hz].
Qed.

Lemma fold_insert_id l : forall acc,
  (forall x y, In x l -> In y acc -> lt x y = false) ->
  ForallOrdPairs (fun a b => lt b a = false) l ->
  fold_left (fun acc x => insert_by lt x acc) l acc = acc ++ l.
Proof.
  induction l as [|x t IH]; intros acc Hacc Hp; cbn; [rewrite app_nil_r; reflexivity|].
  inversion Hp as [|? ? Hxt Hpt]; subst.
  rewrite insert_at_end by (intros y Hy; apply Hacc; [left; reflexivity | exact Hy]).
  rewrite IH; [rewrite <- app_assoc; reflexivity | | exact Hpt].
  intros x' y Hx' Hy. apply in_app_or in Hy. destruct Hy as [Hy|[<-|[]]].
  - apply Hacc; [right; exact Hx' | exact Hy].
  - rewrite Forall_forall in Hxt. apply Hxt. exact Hx'.
Qed.
End InsertLemmas.

(* ---- the triples that _do_adjust_range sorts *)
Fixpoint otr (l : list fl) (s : nat) : list (fl * bool * Z) :=
  match l with
  | [] => []
  | x :: t => (x, false, Z.of_nat s) :: otr t (S s)
  end.
Definition itr (s r : nat) : list (fl * bool * Z) := map (fun j => (fneginf, true, Z.of_nat j)) (seq s r).

Lemma otr_In l : forall s p, In p (otr l s) -> exists x j, p = (x, false, Z.of_nat j) /\ In x l /\ (s <= j)%nat.
Proof.
  induction l as [|x t IH]; intros s p H; cbn in H; [destruct H|].
  destruct H as [<-|H]; [exists x, s; split; [reflexivity | split; [left; reflexivity | lia]]|].
  destruct (IH _ _ H) as (y & j & -> & Hy & Hj). exists y, j. split; [reflexivity | split; [right; exact Hy | lia]].
Qed.

Lemma otr_length l : forall s, length (otr l s) = length l.
Proof. induction l as [|x t IH]; intros s; cbn; [reflexivity | rewrite IH; reflexivity]. Qed.

Lemma zrange0_seq n : zrange 0 (Z.of_nat n) = map Z.of_nat (seq 0 n).
Proof. unfold zrange. rewrite Z.sub_0_r, Nat2Z.id. apply map_ext. intros; lia. Qed.

Lemma otr_spec l : forall s,
  map (fun j => (nth (j - s) l FNaN, false, Z.of_nat j)) (seq s (length l)) = otr l s.
Proof.
  induction l as [|x t IH]; intros s; cbn [length seq map otr]; [reflexivity|].
  rewrite Nat.sub_diag. cbn [nth]. f_equal. rewrite <- IH. apply map_ext_in. intros j Hj. apply in_seq in Hj.
  replace (j - s)%nat with (S (j - S s)) by lia. reflexivity.
Qed.

Lemma map_seq_shift {B} (f : nat -> B) n : forall s a, map (fun j => f (a + j)%nat) (seq s n) = map f (seq (a + s) n).
Proof.
  induction n as [|m IH]; intros s a; cbn [seq map]; [reflexivity|]. f_equal.
  rewrite IH. f_equal. f_equal. lia.
Qed.

Lemma nth_set_nth_eq i v : forall l, (i < length l)%nat -> nth i (set_nth i v l) FNaN = v.
Proof. induction i as [|i IH]; intros [|x t] H; cbn in *; try lia; [reflexivity | apply IH; lia]. Qed.
Lemma nth_set_nth_neq i j v : forall l, i <> j -> nth i (set_nth j v l) FNaN = nth i l FNaN.
Proof.
  revert i. induction j as [|j IH]; intros [|i] [|x t] H; cbn; try reflexivity; try lia.
  apply IH. lia.
Qed.

Lemma seq_nat_sorted s r : StronglySorted Z.lt (map Z.of_nat (seq s r)).
Proof.
  revert s. induction r as [|r IH]; intros s; cbn; constructor; [apply IH|].
  rewrite Forall_forall. intros y Hy. apply in_map_iff in Hy. destruct Hy as (j & <- & Hj). apply in_seq in Hj. lia.
Qed.

Lemma nth_map_seq {B} (g : nat -> B) n s b d : (b < n)%nat -> nth b (map g (seq s n)) d = g (s + b)%nat.
Proof.
  intros H. rewrite (nth_indep _ d (g 0%nat)) by (rewrite map_length, seq_length; lia).
  rewrite map_nth. rewrite seq_nth by lia. reflexivity.
Qed.

Section Renumber.
Variables (orig keys : list fl).
Hypothesis HPre : Pre orig keys.
Hypothesis Hkeys : keys <> [].
Variables (x0 : fl) (rest : list fl).
Hypothesis Horig : orig = x0 :: rest.
(* every request lands before the first existing row *)
Hypothesis Hfirst : forall k, In k keys -> flt x0 k = false.
(* whose position is invalid, but not -inf *)
Hypothesis Hinvalid : fle x0 fzero = true \/ x0 = FInf false.
Hypothesis Hnotneginf : flt fneginf x0 = true.

Let n := length orig.
Let c := length keys.
Hypothesis Hsmall : Z.of_nat (n + c) + 1 < 2 ^ 53.

Lemma orig_nn x : In x orig -> is_nan x = false.
Proof. destruct HPre as (_ & H & _). rewrite Forall_forall in H. apply H. Qed.

Lemma orig_le i j : (i <= j < n)%nat -> fle (nth i orig FNaN) (nth j orig FNaN) = true.
Proof.
  intros Hij. destruct (Nat.eq_dec i j) as [->|Hne].
  - apply fle_iff. assert (is_nan (nth j orig FNaN) = false) by (apply orig_nn, nth_In; fold n; lia).
    repeat split; auto. lia.
  - destruct HPre as (Hs & _ & _). apply Hs. fold n. lia.
Qed.

Lemma n_pos : (1 <= n)%nat.
Proof. unfold n. rewrite Horig. cbn. lia. Qed.

Lemma c_pos : (1 <= c)%nat.
Proof. unfold c. destruct keys; [congruence | cbn; lia]. Qed.

(* groups *)
Lemma renumber_groups : ins_groups orig keys = [(0, Z.of_nat c)].
Proof.
  unfold ins_groups.
  assert (Hmap : map (fun p => bkl orig (fst p)) (sorted_requests keys) = repeat 0 c).
  { assert (Hl : length (sorted_requests keys) = c).
    { unfold sorted_requests. rewrite sort_by_length, combine_length, zrange_length. unfold lenZ, c. lia. }
    rewrite <- Hl. rewrite <- map_const. apply map_ext_in. intros p Hp.
    unfold sorted_requests in Hp. apply (proj1 (sort_by_In pair_lt _ _)) in Hp. destruct p as [k i].
    apply in_combine_l in Hp. rewrite Horig. cbn [bkl fst]. rewrite (Hfirst k Hp). reflexivity. }
  rewrite Hmap. apply group_counts_repeat. apply c_pos.
Qed.

(* the sort *)
Lemma otr_orig_FOP : forall l s, (forall i j, (i <= j < length l)%nat -> fle (nth i l FNaN) (nth j l FNaN) = true) ->
  ForallOrdPairs (fun a b => triple_lt b a = false) (otr l s).
Proof.
  induction l as [|x t IH]; intros s Hs; cbn [otr]; constructor.
  - rewrite Forall_forall. intros p Hp. destruct (otr_In _ _ _ Hp) as (y & j & -> & Hy & Hj).
    destruct (In_nth _ _ FNaN Hy) as (i & Hi & <-).
    assert (Hle : fle x (nth i t FNaN) = true) by (apply (Hs 0%nat (S i)); cbn; lia).
    apply fle_iff in Hle. destruct Hle as (N1 & N2 & Hle).
    cbn [triple_lt]. apply orb_false_intro.
    + destruct (flt (nth i t FNaN) x) eqn:E; [apply flt_iff in E; lia | reflexivity].
    + apply andb_false_intro2. cbn [bool_lt negb andb Bool.eqb orb]. apply Z.ltb_ge. lia.
  - apply IH. intros i j Hij. apply (Hs (S i) (S j)). cbn. lia.
Qed.

Lemma sort_triples :
  sort_by triple_lt (otr orig 0 ++ itr 0 c) = itr 0 c ++ otr orig 0.
Proof.
  unfold sort_by. rewrite fold_left_app.
  rewrite (fold_insert_id triple_lt (otr orig 0) []); [|intros x y _ []|].
  2:{ apply otr_orig_FOP. intros i j Hij. apply orig_le. fold n. exact Hij. }
  cbn [app].
  (* now insert the c triples (-inf, True, t) one by one in front of the existing rows *)
  assert (Hgen : forall r t, fold_left (fun acc x => insert_by triple_lt x acc) (itr t r) (itr 0 t ++ otr orig 0)
                           = itr 0 (t + r) ++ otr orig 0).
  { induction r as [|r IH]; intros t; cbn [itr seq map fold_left]; [rewrite Nat.add_0_r; reflexivity|].
    rewrite Horig. cbn [otr].
    rewrite insert_middle.
    - replace (itr 0 t ++ (fneginf, true, Z.of_nat t) :: (x0, false, Z.of_nat 0) :: otr rest 1)
        with (itr 0 (S t) ++ otr orig 0).
      + fold (itr (S t) r). rewrite IH. replace (S t + r)%nat with (t + S r)%nat by lia. rewrite Horig. reflexivity.
      + unfold itr. rewrite seq_S, map_app. cbn [map Nat.add]. rewrite <- app_assoc. rewrite Horig. reflexivity.
    - intros y Hy. unfold itr in Hy. apply in_map_iff in Hy. destruct Hy as (j & <- & Hj). apply in_seq in Hj.
      cbn [triple_lt]. rewrite flt_irrefl. cbn [orb bool_lt negb andb Bool.eqb].
      apply andb_false_intro2. apply Z.ltb_ge. lia.
    - cbn [triple_lt]. rewrite Hnotneginf. reflexivity. }
  specialize (Hgen c 0%nat). cbn [itr seq map app Nat.add] in Hgen. exact Hgen.
Qed.


(* ---- the loop of _do_adjust_range over the sorted triples *)
Definition FI (t : nat) : list fl := map (fun j => fint (Z.of_nat j)) (seq 1 t).
Definition AJ (s : nat) : list (Z * fl) := map (fun j => (Z.of_nat j, fint (Z.of_nat (1 + c + j)))) (seq 0 s).

Lemma fle_neginf_fint k : 0 <= k -> fle fneginf (fint k) = true.
Proof.
  intros Hk. apply fle_iff. split; [reflexivity|]. split; [reflexivity|]. rewrite ford_fint.
  change (ford fneginf) with (- UINF). assert (0 < UINF) by (rewrite UINF_eq; apply pow2_pos'; lia).
  assert (0 < 2 ^ 1074) by (apply pow2_pos'; lia). nia.
Qed.

Lemma FI_S t : FI (S t) = FI t ++ [fint (Z.of_nat (S t))].
Proof. unfold FI. rewrite seq_S, map_app. reflexivity. Qed.
Lemma AJ_S s : AJ (S s) = AJ s ++ [(Z.of_nat s, fint (Z.of_nat (1 + c + s)))].
Proof. unfold AJ. rewrite seq_S, map_app. reflexivity. Qed.

Lemma phaseA : forall r t adjs0,
  fold_left adjust_step
    (combine (itr t r) (map (fun j => fint (Z.of_nat j)) (seq (S t) r)))
    (Ok (mkwl adjs0 (repeat fneginf r ++ FI t))) = Ok (mkwl adjs0 (FI (t + r))).
Proof.
  induction r as [|r IH]; intros t adjs0; cbn [itr seq map combine fold_left repeat app].
  - rewrite Nat.add_0_r. reflexivity.
  - unfold adjust_step at 2. cbn [bind adjs inss sl_remove].
    change (feq fneginf fneginf) with true. cbn [option_map].
    rewrite sl_add_last.
    + rewrite <- app_assoc. rewrite <- FI_S. fold (itr (S t) r). rewrite IH. f_equal. f_equal. f_equal. lia.
    + rewrite Forall_forall. intros y Hy. apply in_app_or in Hy. destruct Hy as [Hy|Hy].
      * apply repeat_spec in Hy. subst y. apply fle_neginf_fint. lia.
      * unfold FI in Hy. apply in_map_iff in Hy. destruct Hy as (j & <- & Hj). apply in_seq in Hj.
        rewrite fle_fint. apply Z.leb_le. lia.
Qed.

Lemma al_add_last p : forall l, Forall (fun q => fle (snd q) (snd p) = true) l -> al_add p l = l ++ [p].
Proof.
  induction l as [|q t IH]; intros H; cbn; [reflexivity|].
  inversion H as [|? ? Hq Ht]; subst. rewrite Hq. f_equal. apply IH. exact Ht.
Qed.
Lemma al_discard_none p : forall l, (forall q, In q l -> fst q <> fst p) -> al_discard p l = l.
Proof.
  induction l as [|q t IH]; intros H; cbn; [reflexivity|].
  replace (fst q =? fst p) with false by (symmetry; apply Z.eqb_neq; apply H; left; reflexivity).
  cbn [andb]. f_equal. apply IH. intros; apply H; right; assumption.
Qed.

Lemma phaseB : forall l s inss0,
  fold_left adjust_step
    (combine (otr l s) (map (fun j => fint (Z.of_nat (1 + c + j))) (seq s (length l))))
    (Ok (mkwl (AJ s) inss0)) = Ok (mkwl (AJ (s + length l)) inss0).
Proof.
  induction l as [|x t IH]; intros s inss0; cbn [otr length seq map combine fold_left].
  - rewrite Nat.add_0_r. reflexivity.
  - unfold adjust_step at 2. cbn [bind adjs inss].
    rewrite al_discard_none.
    + rewrite al_add_last.
      * rewrite <- AJ_S. rewrite IH. f_equal. f_equal. f_equal. lia.
      * rewrite Forall_forall. intros q Hq. unfold AJ in Hq. apply in_map_iff in Hq. destruct Hq as (j & <- & Hj).
        apply in_seq in Hj. cbn [snd]. rewrite fle_fint. apply Z.leb_le. lia.
    + intros q Hq. unfold AJ in Hq. apply in_map_iff in Hq. destruct Hq as (j & <- & Hj). apply in_seq in Hj.
      cbn [fst]. lia.
Qed.

Lemma combine_app_eq {A B} (l1 l2 : list A) (m1 m2 : list B) :
  length l1 = length m1 -> combine (l1 ++ l2) (m1 ++ m2) = combine l1 m1 ++ combine l2 m2.
Proof.
  revert m1. induction l1 as [|x t IH]; intros [|y u] H; cbn in *; try lia; [reflexivity|].
  f_equal. apply IH. lia.
Qed.

Lemma sl_update_repeat v r : fle v v = true -> forall t, sl_update (repeat v t) (repeat v r) = repeat v (t + r).
Proof.
  intros Hv. unfold sl_update. induction r as [|r IH]; intros t; cbn [repeat fold_left]; [rewrite Nat.add_0_r; reflexivity|].
  rewrite sl_add_last by (rewrite Forall_forall; intros y Hy; apply repeat_spec in Hy; subst; exact Hv).
  replace (repeat v t ++ [v]) with (repeat v (S t)) by (rewrite <- repeat_cons; reflexivity).
  rewrite IH. f_equal. lia.
Qed.

Lemma get_range_all : get_range fzero (fadd (of_Z (lenZ orig + Z.of_nat c)) (of_Z 1)) (lenZ orig + Z.of_nat c)
                      = map (fun j => fint (Z.of_nat j)) (seq 1 (c + n)).
Proof.
  unfold lenZ. fold n. rewrite (renumber_all_ok (Z.of_nat n + Z.of_nat c)) by lia.
  unfold zrange. rewrite map_map. replace (Z.to_nat (Z.of_nat n + Z.of_nat c + 1 - 1)) with (c + n)%nat by lia.
  rewrite <- (seq_shift (c + n) 0). rewrite map_map. apply map_ext_in. intros j Hj. apply in_seq in Hj.
  rewrite of_Z_int by lia. f_equal. lia.
Qed.

Lemma renumber_prep :
  prep_inserts_at_index orig (mkwl [] []) 0 (Z.of_nat c) = Ok (mkwl (AJ n) (FI c)).
Proof.
  pose proof c_pos as Hc. pose proof n_pos as Hn.
  unfold prep_inserts_at_index. replace (Z.of_nat c <=? 0) with false by (symmetry; apply Z.leb_gt; lia).
  cbn [Z.ltb Z.compare]. replace (0 <? lenZ orig) with true by (symmetry; apply Z.ltb_lt; unfold lenZ; fold n; lia).
  change (adj_get_key orig (mkwl [] []) 0) with (nthZ orig 0 FNaN). unfold nthZ. cbn [Z.to_nat]. replace (nth 0 orig FNaN) with x0 by (rewrite Horig; reflexivity).
  assert (Hcond : flt fzero fzero || fle x0 fzero || is_inf (fmax fzero x0) = true).
  { destruct Hinvalid as [H| ->]; [rewrite H; rewrite orb_true_r; reflexivity | reflexivity]. }
  rewrite Hcond. cbn [adjs inss]. rewrite Nat2Z.id.
  change (sl_update [] (repeat fneginf c)) with (sl_update (repeat fneginf 0) (repeat fneginf c)).
  rewrite sl_update_repeat by reflexivity. cbn [Nat.add].
  unfold adjust_all. cbn [inss]. unfold do_adjust_range. cbn [adjs inss].
  assert (Hlc : lenZ (repeat fneginf c) = Z.of_nat c) by (unfold lenZ; rewrite repeat_length; reflexivity).
  rewrite Hlc. rewrite !Z.sub_0_r.
  (* the triples *)
  assert (Hprev : map (fun i => (adj_get_key orig (mkwl [] (repeat fneginf c)) i, false, i)) (zrange 0 (lenZ orig)) ++
                  map (fun i => (nthZ (repeat fneginf c) i FNaN, true, i)) (zrange 0 (Z.of_nat c))
                  = otr orig 0 ++ itr 0 c).
  { f_equal.
    - unfold lenZ. fold n. rewrite zrange0_seq, map_map. rewrite <- (otr_spec orig 0). fold n.
      apply map_ext_in. intros j Hj. rewrite Nat.sub_0_r.
      change (adj_get_key orig (mkwl [] (repeat fneginf c)) (Z.of_nat j)) with (nthZ orig (Z.of_nat j) FNaN).
      unfold nthZ. rewrite Nat2Z.id. reflexivity.
    - rewrite zrange0_seq, map_map. unfold itr. apply map_ext_in. intros j Hj. apply in_seq in Hj.
      unfold nthZ. rewrite Nat2Z.id. rewrite (nth_repeat_lt _ fneginf) || (rewrite nth_indep with (d' := fneginf) by (rewrite repeat_length; lia); rewrite nth_repeat); reflexivity. }
  rewrite Hprev. rewrite sort_triples.
  rewrite get_range_all.
  rewrite seq_app, map_app.
  rewrite combine_app_eq by (unfold itr; rewrite !map_length, !seq_length; reflexivity).
  rewrite fold_left_app.
  pose proof (phaseA c 0 []) as HA. cbn [FI seq map app Nat.add] in HA. rewrite app_nil_r in HA.
  rewrite HA.
  pose proof (phaseB orig 0 (FI c)) as HB. fold n in HB. cbn [AJ seq map Nat.add] in HB.
  replace (map (fun j => fint (Z.of_nat j)) (seq (1 + c) n))
    with (map (fun j => fint (Z.of_nat (1 + c + j))) (seq 0 n)).
  - exact HB.
  - rewrite (map_seq_shift (fun j => fint (Z.of_nat j)) n 0 (1 + c)). rewrite Nat.add_0_r. reflexivity.
Qed.

Lemma apply_AJ_gen (f : nat -> fl) : forall r s l i, (s + r <= length l)%nat ->
  nth i (fold_left (fun l p => set_nth (Z.to_nat (fst p)) (snd p) l) (map (fun j => (Z.of_nat j, f j)) (seq s r)) l) FNaN
  = if (s <=? i)%nat && (i <? s + r)%nat then f i else nth i l FNaN.
Proof.
  induction r as [|r IH]; intros s l i Hl; cbn [seq map fold_left].
  - replace ((s <=? i)%nat && (i <? s + 0)%nat) with false; [reflexivity|].
    symmetry. apply andb_false_iff. destruct (Nat.leb_spec s i); [right; apply Nat.ltb_ge; lia | left; reflexivity].
  - cbn [fst snd]. rewrite Nat2Z.id. rewrite IH by (rewrite set_nth_length; lia).
    destruct (Nat.eq_dec i s) as [->|Hne].
    + replace ((S s <=? s)%nat && (s <? S s + r)%nat) with false
        by (symmetry; apply andb_false_iff; left; apply Nat.leb_gt; lia).
      rewrite nth_set_nth_eq by lia.
      replace ((s <=? s)%nat && (s <? s + S r)%nat) with true; [reflexivity|].
      symmetry. apply andb_true_intro. split; [apply Nat.leb_le; lia | apply Nat.ltb_lt; lia].
    + rewrite nth_set_nth_neq by exact Hne.
      replace ((S s <=? i)%nat && (i <? S s + r)%nat) with ((s <=? i)%nat && (i <? s + S r)%nat); [reflexivity|].
      destruct (Nat.leb_spec s i), (Nat.leb_spec (S s) i), (Nat.ltb_spec i (s + S r)), (Nat.ltb_spec i (S s + r)); cbn; try reflexivity; lia.
Qed.

Lemma apply_AJ i : (i < n)%nat -> nth i (apply_adj orig (AJ n)) FNaN = fint (Z.of_nat (1 + c + i)).
Proof.
  intros Hi. unfold apply_adj, AJ.
  rewrite (apply_AJ_gen (fun j => fint (Z.of_nat (1 + c + j))) n 0 orig i) by (fold n; lia).
  replace ((0 <=? i)%nat && (i <? 0 + n)%nat) with true; [reflexivity|].
  symmetry. apply andb_true_intro. split; [apply Nat.leb_le; lia | apply Nat.ltb_lt; lia].
Qed.

Lemma FI_sorted t : StronglySorted Flt (FI t).
Proof. unfold FI. rewrite <- (map_map Z.of_nat fint). apply sorted_fint, seq_nat_sorted. Qed.

Lemma FI_len t : length (FI t) = t.
Proof. unfold FI. rewrite map_length, seq_length. reflexivity. Qed.

Lemma FI_In x t : In x (FI t) -> exists j, (1 <= j <= t)%nat /\ x = fint (Z.of_nat j).
Proof.
  unfold FI. intros H. apply in_map_iff in H. destruct H as (j & <- & Hj). apply in_seq in Hj. exists j. split; [lia | reflexivity].
Qed.

Theorem total_renumber_front :
  prepare_inserts_model orig keys = Ok (AJ n, ungroup keys (FI c)) /\ Spec orig keys (AJ n) (ungroup keys (FI c)).
Proof.
  split.
  - unfold prepare_inserts_model. rewrite renumber_groups. cbn [fold_left bind fst snd].
    rewrite renumber_prep. reflexivity.
  - destruct HPre as (Hsorted & Hnn_o & Hnn_k). constructor.
    + intros a Ha. unfold AJ in Ha |- *. rewrite map_length, seq_length in Ha.
      assert (Hnth : forall b, (b < n)%nat ->
                nth b (map (fun j => (Z.of_nat j, fint (Z.of_nat (1 + c + j)))) (seq 0 n)) (0, FNaN)
                = (Z.of_nat b, fint (Z.of_nat (1 + c + b)))).
      { intros b Hb. rewrite (nth_map_seq _ n 0 b (0, FNaN) Hb). reflexivity. }
      rewrite Hnth by exact Ha. cbn [fst snd]. split; [unfold lenZ; fold n; lia|]. split; [reflexivity|].
      intros b Hb. rewrite map_length, seq_length in Hb. rewrite Hnth by lia. cbn [fst]. lia.
    + intros i j Hij. fold n in Hij. rewrite !apply_AJ by lia. unfold Fle, Flt. rewrite fle_fint, flt_fint.
      split; [apply Z.leb_le; lia | intros _; apply Z.ltb_lt; lia].
    + apply ungroup_len. apply FI_len.
    + rewrite Forall_forall. intros x Hx. apply ungroup_In in Hx. destruct (FI_In _ _ Hx) as (j & _ & ->). reflexivity.
    + intros k i Hk Hi. fold n in Hi. fold c in Hk. rewrite apply_AJ by exact Hi.
      assert (Hflt : flt (nth i orig FNaN) (nth k keys FNaN) = false).
      { assert (Hk0 : flt x0 (nth k keys FNaN) = false) by (apply Hfirst, nth_In; fold c; exact Hk).
        assert (Hle : fle (nth 0 orig FNaN) (nth i orig FNaN) = true) by (apply orig_le; lia).
        rewrite Horig in Hle at 1. cbn [nth] in Hle. apply fle_iff in Hle. destruct Hle as (N1 & N2 & Hle).
        rewrite Forall_forall in Hnn_k. assert (N3 : is_nan (nth k keys FNaN) = false) by (apply Hnn_k, nth_In; fold c; exact Hk).
        apply flt_false in Hk0; auto.
        destruct (flt (nth i orig FNaN) (nth k keys FNaN)) eqn:E; [|reflexivity]. apply flt_iff in E. lia. }
      rewrite Hflt.
      assert (Hin : In (nth k (ungroup keys (FI c)) FNaN) (FI c)).
      { apply (ungroup_In keys (FI c)). apply nth_In. rewrite (ungroup_len keys (FI c) (FI_len c)). exact Hk. }
      destruct (FI_In _ _ Hin) as (j & Hj & ->). unfold Flt. rewrite flt_fint. apply Z.ltb_lt. lia.
    + intros k1 k2 Hk1 Hk2 Hreq. apply (ungroup_order keys Hnn_k (FI c) (FI_len c) (FI_sorted c)); assumption.
Qed.

End Renumber.
