(* Soundness of the row relations against small models of what they are computed from:
   ReferenceRelation.inverse_map vs the reference column's cells (column.py BaseReferenceColumn.set ->
   _update_references), _LookupRelation vs the lookup index (lookup.py), ComposedRelation. *)
From Coq Require Import ZArith List Bool Lia.
Import ListNotations.
Require Import Grist.Model.Deps Grist.Model.DepsSpec Grist.Model.DepsExec.
Require Import Grist.Proofs.Deps_closure_proofs Grist.Proofs.Deps_inval_proofs Grist.Proofs.Deps_order_proofs.
Open Scope Z_scope.

Lemma covers_In R via rd rr : covers R via rd rr = true <-> In rr (aff_l R via [rd]).
Proof. unfold covers. rewrite affected_rows. apply in_rowset_rows. Qed.

(* ---- IdentityRelation --------------------------------------------------------------------- *)
Lemma identity_relation_sound R r : covers R RId r r = true.
Proof. apply covers_In. cbn. auto. Qed.

(* ---- ComposedRelation --------------------------------------------------------------------- *)
(* a reached q through a (q's change affects r), and q reached t through b: t's change affects r *)
Theorem composed_sound R a b t q r :
  covers R b t q = true -> covers R a q r = true -> covers R (RComp a b) t r = true.
Proof.
  rewrite !covers_In. intros Hb Ha. cbn [aff_l]. apply aff_l_In. exists q. split; auto.
Qed.

(* ---- ReferenceRelation -------------------------------------------------------------------- *)
(* refs r: the target rows held by row r of the reference column (one for Ref, several for RefList) *)
Definition inv_exact (R : relst) (c : node) (refs : row -> list row) : Prop :=
  forall t r, In r (inv R c t) <-> In t (refs r).

Definition zremove (x : Z) (l : list Z) : list Z := filter (fun y => negb (Z.eqb y x)) l.

(* remove_reference(r, t) for t in old; add_reference(r, t) for t in new *)
Definition inv_update (f : row -> list row) (r : row) (old new : list row) : row -> list row :=
  fun t => let l := if zmem t old then zremove r (f t) else f t in
           if zmem t new then r :: l else l.

Definition ref_set (R : relst) (c : node) (r : row) (old new : list row) : relst :=
  mkR (fun c' => if Z.eqb c' c then inv_update (inv R c) r old new else inv R c') (lkrows R) (lkkeys R).

Lemma zremove_In x y l : In y (zremove x l) <-> In y l /\ y <> x.
Proof.
  unfold zremove. rewrite filter_In, negb_true_iff, Z.eqb_neq. tauto.
Qed.

Theorem ref_set_exact R c refs r new :
  inv_exact R c refs ->
  inv_exact (ref_set R c r (refs r) new) c (fun r' => if Z.eqb r' r then new else refs r').
Proof.
  intros H t r'. unfold inv_exact in H. cbn [ref_set inv]. rewrite Z.eqb_refl. unfold inv_update.
  destruct (Z.eqb r' r) eqn:E.
  - apply Z.eqb_eq in E. subst r'.
    destruct (zmem t new) eqn:N.
    + apply zmem_In in N. split; auto. intros _. left. reflexivity.
    + assert (~ In t new) by (intros X; apply zmem_In in X; congruence).
      destruct (zmem t (refs r)) eqn:O.
      * rewrite zremove_In. split; [intros [_ X]; congruence | contradiction].
      * rewrite H. split; [| contradiction]. intros X. apply zmem_In in X. congruence.
  - apply Z.eqb_neq in E.
    assert (G : In r' (if zmem t (refs r) then zremove r (inv R c t) else inv R c t) <-> In t (refs r')).
    { destruct (zmem t (refs r)); [rewrite zremove_In |]; rewrite H; tauto. }
    destruct (zmem t new); [| exact G].
    cbn [In]. rewrite G. split; [intros [X | X]; [congruence | exact X] | auto].
Qed.

(* row r of the referring table reached target row t through reference column c ($ref.X,
   $reflist.X): a change of t maps back to r *)
Theorem reference_relation_sound R c refs t r :
  inv_exact R c refs -> In t (refs r) -> covers R (RComp RId (RRef c)) t r = true.
Proof.
  intros H Ht. apply (composed_sound R RId (RRef c) t r r).
  - apply covers_In. cbn [aff_l flat_map]. rewrite app_nil_r. apply H. exact Ht.
  - apply identity_relation_sound.
Qed.

(* ---- _LookupRelation ---------------------------------------------------------------------- *)
(* eager part: row r looked up key k in lookup map m (recorded by _add_lookup); every target row
   indexed under k maps back to r *)
Theorem lookup_relation_sound R m n r k t :
  In (r, k) (lkrows R m n) -> In k (lkkeys R m t) -> covers R (RLook m n) t r = true.
Proof.
  intros Hr Hk. apply covers_In. cbn [aff_l flat_map]. rewrite app_nil_r.
  apply rows_by_keys_In. eauto.
Qed.

(* lazy part (LookupMapColumn._recalc_rec_method -> invalidate_affected_keys): when the keys of a
   target row change from [old] to [new], the rows that looked up a key in the symmetric difference
   are invalidated; a row that looked up k and is NOT invalidated sees no change of "k in keys" *)
Definition key_diff (old new : list Z) : list Z :=
  filter (fun k => negb (zmem k new)) old ++ filter (fun k => negb (zmem k old)) new.

Definition invalidated_by_keys (R : relst) (m n : node) (old new : list Z) : list row :=
  rows_by_keys (lkrows R m n) (key_diff old new).

Theorem lookup_guard_sound R m n r k old new :
  In (r, k) (lkrows R m n) -> zmem k old <> zmem k new ->
  In r (invalidated_by_keys R m n old new).
Proof.
  intros Hr Hd. apply rows_by_keys_In. exists k. split; auto. unfold key_diff. apply in_app_iff.
  destruct (zmem k old) eqn:O; destruct (zmem k new) eqn:N; try congruence.
  - left. apply filter_In. split; [apply zmem_In; exact O | rewrite N; reflexivity].
  - right. apply filter_In. split; [apply zmem_In; exact N | rewrite O; reflexivity].
Qed.

(* reset_rows before re-evaluation only forgets the rows that are about to be recomputed *)
Theorem reset_rows_keeps R m n l r k :
  In (r, k) (lkrows R m n) -> zmem r l = false ->
  In (r, k) (lkrows (reset_rows R (RLook m n) (Rows l)) m n).
Proof.
  intros H Hl. cbn [reset_rows set_lkrows lkrows]. rewrite !Z.eqb_refl. cbn [andb].
  apply filter_In. split; auto. cbn [fst]. rewrite Hl. reflexivity.
Qed.

(* ... and leaves every relation of other referring nodes alone *)
Theorem reset_dependencies_frame E R n x via o :
  owner_ok E -> rel_owner via o = true -> o <> n ->
  forall y, affected (reset_dependencies E R n x) via y = affected R via y.
Proof.
  intros Ho Hv Hn y. symmetry.
  apply (affected_agree (fun k => Z.eqb k n) R _ via o); auto.
  - apply reset_dependencies_agree. exact Ho.
  - apply Z.eqb_neq. exact Hn.
Qed.

(* ALL_ROWS is passed on by every relation except SingleRowsIdentityRelation *)
Fixpoint no_single (r : rel) : bool :=
  match r with RSingle => false | RComp a b => no_single a && no_single b | _ => true end.

Theorem allrows_propagates R via : no_single via = true -> affected R via AllRows = AllRows.
Proof.
  induction via as [| | c | a IHa b IHb | m n]; cbn [no_single affected]; intros H; auto; try discriminate.
  apply andb_true_iff in H. destruct H as [Ha Hb]. rewrite (IHb Hb). apply IHa. exact Ha.
Qed.
