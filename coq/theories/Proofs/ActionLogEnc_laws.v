(* The value laws (ValLaws) for the encoded values used by the event-trace tie (Model/ActionLogEnc.v). *)
From Coq Require Import ZArith List Bool Lia.
Import ListNotations.
Require Import Grist.Model.ActionLog Grist.Model.ActionLogEnc Grist.Proofs.ActionLog_proofs.
Open Scope Z_scope.

(* ------------------------------------------------------------------------------------------------ *)
(* numbers m * 2^e *)

Lemma pow2_pos : forall k, 0 <= k -> 0 < 2 ^ k.
Proof. intros k H. apply Z.pow_pos_nonneg; lia. Qed.

(* comparing at any common exponent below both gives the same answer *)
Lemma fin_eq_shift : forall m1 e1 m2 e2 E E',
  E' <= E -> E <= e1 -> E <= e2 ->
  (m1 * 2 ^ (e1 - E) = m2 * 2 ^ (e2 - E) <-> m1 * 2 ^ (e1 - E') = m2 * 2 ^ (e2 - E')).
Proof.
  intros m1 e1 m2 e2 E E' H1 H2 H3.
  replace (e1 - E') with ((e1 - E) + (E - E')) by lia.
  replace (e2 - E') with ((e2 - E) + (E - E')) by lia.
  rewrite !Z.pow_add_r by lia. rewrite !Z.mul_assoc.
  pose proof (pow2_pos (E - E') ltac:(lia)) as Hp.
  split; intro H.
  - rewrite H. reflexivity.
  - apply Z.mul_cancel_r in H; [exact H | lia].
Qed.

Definition fin_eq (m1 e1 m2 e2 : Z) : Prop := m1 * 2 ^ (e1 - Z.min e1 e2) = m2 * 2 ^ (e2 - Z.min e1 e2).

Lemma num_eq_fin : forall m1 e1 m2 e2, num_eq (NFin m1 e1) (NFin m2 e2) = true <-> fin_eq m1 e1 m2 e2.
Proof. intros. cbn. unfold fin_eq. apply Z.eqb_eq. Qed.

Lemma fin_eq_at : forall m1 e1 m2 e2 E, E <= e1 -> E <= e2 ->
  (fin_eq m1 e1 m2 e2 <-> m1 * 2 ^ (e1 - E) = m2 * 2 ^ (e2 - E)).
Proof. intros. unfold fin_eq. apply fin_eq_shift; lia. Qed.

Lemma num_eq_refl : forall a, num_eq a a = true.
Proof. intros [| [|] | m e]; cbn; try reflexivity. apply Z.eqb_refl. Qed.

Lemma num_eq_sym : forall a b, num_eq a b = true -> num_eq b a = true.
Proof.
  intros [| x | m1 e1] [| y | m2 e2]; cbn; intro H; try discriminate; try reflexivity.
  - destruct x, y; cbn in *; congruence.
  - apply Z.eqb_eq in H. apply Z.eqb_eq. rewrite (Z.min_comm e2 e1). symmetry. exact H.
Qed.

Lemma num_eq_trans : forall a b c, num_eq a b = true -> num_eq b c = true -> num_eq a c = true.
Proof.
  intros [| x | m1 e1] [| y | m2 e2] [| z | m3 e3]; intros H1 H2; try discriminate; try reflexivity.
  - cbn in *. destruct x, y, z; cbn in *; congruence.
  - apply num_eq_fin in H1. apply num_eq_fin in H2. apply num_eq_fin.
    set (E := Z.min e1 (Z.min e2 e3)).
    apply (fin_eq_at m1 e1 m2 e2 E) in H1; [|unfold E; lia | unfold E; lia].
    apply (fin_eq_at m2 e2 m3 e3 E) in H2; [|unfold E; lia | unfold E; lia].
    apply (fin_eq_at m1 e1 m3 e3 E); [unfold E; lia | unfold E; lia | congruence].
Qed.

(* ------------------------------------------------------------------------------------------------ *)
(* induction over encoded values *)

Section ev_induction.
Variable P : ev -> Prop.
Hypothesis HNull : P ENull.
Hypothesis HBool : forall b, P (EBool b).
Hypothesis HInt : forall n, P (EInt n).
Hypothesis HFloat : forall m e, P (EFloat m e).
Hypothesis HSpec : forall k, P (EFloatSpec k).
Hypothesis HStr : forall s, P (EStr s).
Hypothesis HList : forall l, Forall P l -> P (EList l).
Hypothesis HDict : forall l, Forall (fun kv : list Z * ev => P (snd kv)) l -> P (EDict l).

Fixpoint ev_ind' (x : ev) : P x :=
  match x with
  | ENull => HNull
  | EBool b => HBool b
  | EInt n => HInt n
  | EFloat m e => HFloat m e
  | EFloatSpec k => HSpec k
  | EStr s => HStr s
  | EList l => HList l ((fix go (l : list ev) : Forall P l :=
                           match l with [] => Forall_nil P | y :: t => Forall_cons y (ev_ind' y) (go t) end) l)
  | EDict l => HDict l ((fix go (l : list (list Z * ev)) : Forall (fun kv => P (snd kv)) l :=
                           match l with
                           | [] => Forall_nil _
                           | kv :: t => Forall_cons kv (ev_ind' (snd kv)) (go t)
                           end) l)
  end.
End ev_induction.

Fixpoint all2 {A} (f : A -> A -> bool) (l l' : list A) : bool :=
  match l, l' with
  | [], [] => true
  | x :: t, y :: t' => f x y && all2 f t t'
  | _, _ => false
  end.

Definition kv_pyeq (p q : list Z * ev) : bool := zlist_eqb (fst p) (fst q) && ev_pyeq (snd p) (snd q).

Lemma pyeq_list : forall l l', ev_pyeq (EList l) (EList l') = all2 ev_pyeq l l'.
Proof. induction l as [|x l IH]; intros [|y l']; cbn in *; try reflexivity. rewrite <- IH. reflexivity. Qed.

Lemma pyeq_dict : forall l l', ev_pyeq (EDict l) (EDict l') = all2 kv_pyeq l l'.
Proof.
  induction l as [|[k x] l IH]; intros [|[k' y] l']; cbn in *; try reflexivity.
  rewrite <- IH. unfold kv_pyeq. cbn. reflexivity.
Qed.

Lemma zlist_eqb_eq : forall a b, zlist_eqb a b = true <-> a = b.
Proof.
  induction a as [|x a IH]; intros [|y b]; cbn; split; intro H; try congruence; try discriminate.
  - apply andb_true_iff in H. destruct H as [H1 H2]. apply Z.eqb_eq in H1. apply IH in H2. congruence.
  - inversion H; subst. rewrite Z.eqb_refl. apply IH. reflexivity.
Qed.

Lemma float_num_spec : forall k, exists x, float_num (EFloatSpec k) = Some x.
Proof.
  intro k. destruct k as [|p|p]; cbn; eauto. do 3 (destruct p as [p|p|]; cbn; eauto).
Qed.

Lemma pyeq_nums : forall a b x y, any_num a = Some x -> any_num b = Some y -> ev_pyeq a b = num_eq x y.
Proof. intros a b x y H1 H2. destruct a; cbn [ev_pyeq]; rewrite H1, H2; reflexivity. Qed.

Lemma pyeq_num_nonnum : forall a b x, any_num a = Some x -> any_num b = None -> ev_pyeq a b = false.
Proof. intros a b x H1 H2. destruct a; cbn [ev_pyeq]; rewrite H1, H2; reflexivity. Qed.

Lemma pyeq_nonnum_num : forall a b y, any_num a = None -> any_num b = Some y -> ev_pyeq a b = false.
Proof. intros a b y H1 H2. destruct a; cbn [ev_pyeq]; rewrite H1, H2; reflexivity. Qed.

Lemma pyeq_refl : forall a, ev_pyeq a a = true.
Proof.
  apply ev_ind'.
  - reflexivity.
  - intro b. cbn. apply Z.eqb_refl.
  - intro n. cbn. apply Z.eqb_refl.
  - intros m e. cbn. apply Z.eqb_refl.
  - intro k. destruct (float_num_spec k) as [x Hx]. rewrite (pyeq_nums _ _ x x) by (cbn [any_num]; exact Hx). apply num_eq_refl.
  - intro s. cbn. apply zlist_eqb_eq. reflexivity.
  - intros l H. rewrite pyeq_list. induction H; cbn; [reflexivity|]. rewrite H, IHForall. reflexivity.
  - intros l H. rewrite pyeq_dict. induction H; cbn; [reflexivity|].
    unfold kv_pyeq at 1. rewrite H, IHForall. rewrite (proj2 (zlist_eqb_eq _ _) eq_refl). reflexivity.
Qed.

Lemma nonnum_cases : forall a, any_num a = None ->
  a = ENull \/ (exists s, a = EStr s) \/ (exists l, a = EList l) \/ (exists l, a = EDict l).
Proof.
  intros a H. destruct a; cbn [any_num] in H; try discriminate; eauto 6.
  destruct (float_num_spec k) as [x Hx]. congruence.
Qed.

Lemma num_cases : forall a, (exists x, any_num a = Some x) \/ any_num a = None.
Proof. intro a. destruct (any_num a); eauto. Qed.

Lemma all2_sym : forall (A : Type) (f : A -> A -> bool) l l',
  Forall (fun x => forall y, f x y = true -> f y x = true) l -> all2 f l l' = true -> all2 f l' l = true.
Proof.
  intros A f l. induction l as [|x l IH]; intros [|y l'] HF H; cbn in *; try discriminate; try reflexivity.
  inversion HF as [|? ? Hx HFl]; subst. apply andb_true_iff in H. destruct H as [Ha Hb]. rewrite (Hx y Ha), (IH l' HFl Hb). reflexivity.
Qed.

Lemma all2_trans : forall (A : Type) (f : A -> A -> bool) l l' l'',
  Forall (fun x => forall y z, f x y = true -> f y z = true -> f x z = true) l ->
  all2 f l l' = true -> all2 f l' l'' = true -> all2 f l l'' = true.
Proof.
  intros A f l. induction l as [|x l IH]; intros [|y l'] [|z l''] HF H1 H2; cbn in *; try discriminate; try reflexivity.
  inversion HF as [|? ? Hx HFl]; subst. apply andb_true_iff in H1. destruct H1 as [Ha Hb]. apply andb_true_iff in H2. destruct H2 as [Hc Hd].
  rewrite (Hx y z Ha Hc), (IH l' l'' HFl Hb Hd). reflexivity.
Qed.

Lemma pyeq_sym : forall a b, ev_pyeq a b = true -> ev_pyeq b a = true.
Proof.
  intro a. pattern a. apply ev_ind'.
  - intros b H. destruct (num_cases b) as [[y Hy]|Hn]; [rewrite (pyeq_nonnum_num ENull b y) in H by (try reflexivity; exact Hy); discriminate|].
    destruct (nonnum_cases b Hn) as [->|[[s ->]|[[l ->]|[l ->]]]]; cbn in *; congruence.
  - intros x b H. destruct (num_cases b) as [[y Hy]|Hn].
    + rewrite (pyeq_nums (EBool x) b _ y eq_refl Hy) in H. rewrite (pyeq_nums b (EBool x) y _ Hy eq_refl). apply num_eq_sym. exact H.
    + rewrite (pyeq_num_nonnum (EBool x) b _ eq_refl Hn) in H. discriminate.
  - intros n b H. destruct (num_cases b) as [[y Hy]|Hn].
    + rewrite (pyeq_nums (EInt n) b _ y eq_refl Hy) in H. rewrite (pyeq_nums b (EInt n) y _ Hy eq_refl). apply num_eq_sym. exact H.
    + rewrite (pyeq_num_nonnum (EInt n) b _ eq_refl Hn) in H. discriminate.
  - intros m e b H. destruct (num_cases b) as [[y Hy]|Hn].
    + rewrite (pyeq_nums (EFloat m e) b _ y eq_refl Hy) in H. rewrite (pyeq_nums b (EFloat m e) y _ Hy eq_refl). apply num_eq_sym. exact H.
    + rewrite (pyeq_num_nonnum (EFloat m e) b _ eq_refl Hn) in H. discriminate.
  - intros k b H. destruct (float_num_spec k) as [x Hx].
    assert (Hk : any_num (EFloatSpec k) = Some x) by (cbn [any_num]; exact Hx).
    destruct (num_cases b) as [[y Hy]|Hn].
    + rewrite (pyeq_nums _ _ _ y Hk Hy) in H. rewrite (pyeq_nums _ _ y _ Hy Hk). apply num_eq_sym. exact H.
    + rewrite (pyeq_num_nonnum _ b _ Hk Hn) in H. discriminate.
  - intros s b H. destruct (num_cases b) as [[y Hy]|Hn]; [rewrite (pyeq_nonnum_num (EStr s) b y) in H by (try reflexivity; exact Hy); discriminate|].
    destruct (nonnum_cases b Hn) as [->|[[s' ->]|[[l ->]|[l ->]]]]; cbn in *; try congruence.
    apply zlist_eqb_eq in H. subst. apply zlist_eqb_eq. reflexivity.
  - intros l HF b H. destruct (num_cases b) as [[y Hy]|Hn]; [rewrite (pyeq_nonnum_num (EList l) b y) in H by (try reflexivity; exact Hy); discriminate|].
    destruct (nonnum_cases b Hn) as [->|[[s' ->]|[[l' ->]|[l' ->]]]]; try (cbn in H; discriminate).
    rewrite pyeq_list in *. eapply all2_sym; eassumption.
  - intros l HF b H. destruct (num_cases b) as [[y Hy]|Hn]; [rewrite (pyeq_nonnum_num (EDict l) b y) in H by (try reflexivity; exact Hy); discriminate|].
    destruct (nonnum_cases b Hn) as [->|[[s' ->]|[[l' ->]|[l' ->]]]]; try (cbn in H; discriminate).
    rewrite pyeq_dict in *. eapply all2_sym; [|exact H].
    clear -HF. induction HF as [|[k x] l Hx HF IH]; constructor; [|exact IH].
    intros [k' y] Hxy. unfold kv_pyeq in *. cbn in *. apply andb_true_iff in Hxy. destruct Hxy as [H1 H2].
    apply zlist_eqb_eq in H1. subst. rewrite (Hx y H2). rewrite (proj2 (zlist_eqb_eq _ _) eq_refl). reflexivity.
Qed.

Lemma pyeq_num_trans : forall a b c x, any_num a = Some x ->
  ev_pyeq a b = true -> ev_pyeq b c = true -> ev_pyeq a c = true.
Proof.
  intros a b c x Ha H1 H2.
  destruct (num_cases b) as [[y Hy]|Hn]; [|rewrite (pyeq_num_nonnum a b x Ha Hn) in H1; discriminate].
  destruct (num_cases c) as [[z Hz]|Hn]; [|rewrite (pyeq_num_nonnum b c y Hy Hn) in H2; discriminate].
  rewrite (pyeq_nums a b x y Ha Hy) in H1. rewrite (pyeq_nums b c y z Hy Hz) in H2. rewrite (pyeq_nums a c x z Ha Hz).
  eapply num_eq_trans; eassumption.
Qed.

Lemma pyeq_trans : forall a b c, ev_pyeq a b = true -> ev_pyeq b c = true -> ev_pyeq a c = true.
Proof.
  intro a. pattern a. apply ev_ind'.
  - intros b c H1 H2.
    destruct (num_cases b) as [[y Hy]|Hn]; [rewrite (pyeq_nonnum_num ENull b y eq_refl Hy) in H1; discriminate|].
    destruct (nonnum_cases b Hn) as [->|[[s ->]|[[l ->]|[l ->]]]]; try (cbn in H1; discriminate). exact H2.
  - intros x b c. apply (pyeq_num_trans (EBool x) b c _ eq_refl).
  - intros n b c. apply (pyeq_num_trans (EInt n) b c _ eq_refl).
  - intros m e b c. apply (pyeq_num_trans (EFloat m e) b c _ eq_refl).
  - intros k b c. destruct (float_num_spec k) as [x Hx]. apply (pyeq_num_trans (EFloatSpec k) b c x). cbn [any_num]. exact Hx.
  - intros s b c H1 H2.
    destruct (num_cases b) as [[y Hy]|Hn]; [rewrite (pyeq_nonnum_num (EStr s) b y eq_refl Hy) in H1; discriminate|].
    destruct (nonnum_cases b Hn) as [->|[[s' ->]|[[l ->]|[l ->]]]]; try (cbn in H1; discriminate).
    cbn in H1. apply zlist_eqb_eq in H1. subst s'. exact H2.
  - intros l HF b c H1 H2.
    destruct (num_cases b) as [[y Hy]|Hn]; [rewrite (pyeq_nonnum_num (EList l) b y eq_refl Hy) in H1; discriminate|].
    destruct (nonnum_cases b Hn) as [->|[[s' ->]|[[l' ->]|[l' ->]]]]; try (cbn in H1; discriminate).
    destruct (num_cases c) as [[z Hz]|Hn2]; [rewrite (pyeq_nonnum_num (EList l') c z eq_refl Hz) in H2; discriminate|].
    destruct (nonnum_cases c Hn2) as [->|[[s' ->]|[[l'' ->]|[l'' ->]]]]; try (cbn in H2; discriminate).
    rewrite pyeq_list in *. eapply all2_trans; eassumption.
  - intros l HF b c H1 H2.
    destruct (num_cases b) as [[y Hy]|Hn]; [rewrite (pyeq_nonnum_num (EDict l) b y eq_refl Hy) in H1; discriminate|].
    destruct (nonnum_cases b Hn) as [->|[[s' ->]|[[l' ->]|[l' ->]]]]; try (cbn in H1; discriminate).
    destruct (num_cases c) as [[z Hz]|Hn2]; [rewrite (pyeq_nonnum_num (EDict l') c z eq_refl Hz) in H2; discriminate|].
    destruct (nonnum_cases c Hn2) as [->|[[s' ->]|[[l'' ->]|[l'' ->]]]]; try (cbn in H2; discriminate).
    rewrite pyeq_dict in *. eapply all2_trans; [|exact H1|exact H2].
    clear -HF. induction HF as [|[k x] l Hx HF IH]; constructor; [|exact IH].
    intros [k' y] [k'' z] Hxy Hyz. unfold kv_pyeq in *. cbn in *.
    apply andb_true_iff in Hxy. destruct Hxy as [Ha Hb]. apply andb_true_iff in Hyz. destruct Hyz as [Hc Hd].
    apply zlist_eqb_eq in Ha. apply zlist_eqb_eq in Hc. subst. rewrite (Hx y z Hb Hd).
    rewrite (proj2 (zlist_eqb_eq _ _) eq_refl). reflexivity.
Qed.

(* ------------------------------------------------------------------------------------------------ *)
(* equal_encoding is an equivalence *)

Lemma enc_refl : forall a, ev_enc a a = true.
Proof.
  intro a. unfold ev_enc. destruct (is_float a && is_float a); [apply pyeq_refl|].
  destruct (is_bool a || is_bool a) eqn:E; [|apply pyeq_refl].
  destruct a; cbn in E; try discriminate. apply Bool.eqb_reflx.
Qed.

Lemma enc_no_bool : forall a b, is_bool a = false -> is_bool b = false -> ev_enc a b = ev_pyeq a b.
Proof. intros a b Ha Hb. unfold ev_enc. rewrite Ha, Hb. cbn. destruct (is_float a && is_float b); reflexivity. Qed.

Lemma is_bool_not_float : forall a, is_bool a = true -> is_float a = false.
Proof. intros a H. destruct a; cbn in *; try discriminate. reflexivity. Qed.

Lemma enc_bool_l : forall x b, ev_enc (EBool x) b = true -> b = EBool x.
Proof.
  intros x b H. unfold ev_enc in H. cbn in H. destruct b; try discriminate. apply Bool.eqb_prop in H. congruence.
Qed.

Lemma enc_bool_r : forall a y, ev_enc a (EBool y) = true -> a = EBool y.
Proof.
  intros a y H. unfold ev_enc in H. rewrite (is_bool_not_float (EBool y) eq_refl), andb_false_r in H.
  cbn [is_bool] in H. rewrite orb_true_r in H. destruct a; try discriminate. apply Bool.eqb_prop in H. congruence.
Qed.

Lemma is_bool_cases : forall a, (exists x, a = EBool x) \/ is_bool a = false.
Proof. intro a. destruct a; eauto. Qed.

Lemma enc_sym : forall a b, ev_enc a b = true -> ev_enc b a = true.
Proof.
  intros a b H. destruct (is_bool_cases a) as [[x ->]|Ha].
  - apply enc_bool_l in H. subst. apply enc_refl.
  - destruct (is_bool_cases b) as [[y ->]|Hb].
    + apply enc_bool_r in H. subst. apply enc_refl.
    + rewrite enc_no_bool in * by assumption. apply pyeq_sym. exact H.
Qed.

Lemma enc_trans : forall a b c, ev_enc a b = true -> ev_enc b c = true -> ev_enc a c = true.
Proof.
  intros a b c H1 H2. destruct (is_bool_cases a) as [[x ->]|Ha].
  - apply enc_bool_l in H1. subst. exact H2.
  - destruct (is_bool_cases b) as [[y ->]|Hb]; [apply enc_bool_r in H1; subst; discriminate|].
    destruct (is_bool_cases c) as [[z ->]|Hc]; [apply enc_bool_r in H2; subst; discriminate|].
    rewrite enc_no_bool in * by assumption. eapply pyeq_trans; eassumption.
Qed.

Lemma strict_enc : forall a b, ev_strict a b = true -> ev_enc a b = true.
Proof.
  intros a b H. unfold ev_strict in H. apply andb_true_iff in H. destruct H as [H H3].
  apply andb_true_iff in H. destruct H as [H1 _]. apply Z.eqb_eq in H1.
  destruct (is_bool_cases a) as [[x ->]|Ha].
  - destruct b; cbn in H1; try discriminate. cbn in H3. unfold ev_enc. cbn.
    destruct x, b; cbn in *; try reflexivity; discriminate.
  - destruct (is_bool_cases b) as [[y ->]|Hb].
    + destruct a; cbn in H1; try discriminate.
    + rewrite enc_no_bool by assumption. exact H3.
Qed.

(* ------------------------------------------------------------------------------------------------ *)
(* Column.set normalisations respect equal_encoding and are idempotent *)

Lemma num_eq_congr : forall x y z, num_eq x y = true -> num_eq x z = num_eq y z.
Proof.
  intros x y z H. destruct (num_eq x z) eqn:E1, (num_eq y z) eqn:E2; try reflexivity.
  - rewrite (num_eq_trans y x z (num_eq_sym _ _ H) E1) in E2. discriminate.
  - rewrite (num_eq_trans x y z H E2) in E1. discriminate.
Qed.

Lemma pyeq_num_equiv_l : forall a a' b x x', any_num a = Some x -> any_num a' = Some x' -> num_eq x x' = true ->
  ev_pyeq a b = ev_pyeq a' b.
Proof.
  intros a a' b x x' Ha Ha' Hx. destruct (num_cases b) as [[y Hy]|Hn].
  - rewrite (pyeq_nums a b x y Ha Hy), (pyeq_nums a' b x' y Ha' Hy). apply num_eq_congr. exact Hx.
  - rewrite (pyeq_num_nonnum a b x Ha Hn), (pyeq_num_nonnum a' b x' Ha' Hn). reflexivity.
Qed.

Lemma pyeq_comm : forall a b, ev_pyeq a b = ev_pyeq b a.
Proof.
  intros a b. destruct (ev_pyeq a b) eqn:E1, (ev_pyeq b a) eqn:E2; try reflexivity.
  - rewrite (pyeq_sym _ _ E1) in E2. discriminate.
  - rewrite (pyeq_sym _ _ E2) in E1. discriminate.
Qed.

(* f keeps the value: it returns its argument, or a number of the same value and the same bool-ness *)
Definition value_preserving (f : ev -> ev) : Prop :=
  forall v, is_bool (f v) = is_bool v /\
            (f v = v \/ exists x x', any_num v = Some x /\ any_num (f v) = Some x' /\ num_eq x x' = true).

Lemma vp_pyeq_l : forall f a b, value_preserving f -> ev_pyeq (f a) b = ev_pyeq a b.
Proof.
  intros f a b Hf. destruct (Hf a) as [_ [->|[x [x' [H1 [H2 H3]]]]]]; [reflexivity|].
  symmetry. eapply pyeq_num_equiv_l; eassumption.
Qed.

Lemma vp_enc : forall f a b, value_preserving f -> ev_enc a b = true -> ev_enc (f a) (f b) = true.
Proof.
  intros f a b Hf H. destruct (is_bool_cases a) as [[x ->]|Ha].
  - apply enc_bool_l in H. subst. apply enc_refl.
  - destruct (is_bool_cases b) as [[y ->]|Hb]; [apply enc_bool_r in H; subst; discriminate|].
    rewrite enc_no_bool in H by assumption.
    rewrite enc_no_bool by (rewrite (proj1 (Hf _)); assumption).
    rewrite (vp_pyeq_l f a (f b) Hf), pyeq_comm, (vp_pyeq_l f b a Hf), pyeq_comm. exact H.
Qed.

Lemma vp_numeric : value_preserving norm_numeric.
Proof.
  intro v. destruct v; cbn; split; try reflexivity; try (left; reflexivity).
  right. exists (NFin n 0), (NFin n 0). repeat split. apply Z.eqb_refl.
Qed.

Definition ref_int (m e : Z) : option Z :=
  if Z.leb 0 e then Some (m * 2 ^ e)
  else if Z.eqb (m mod 2 ^ (- e)) 0 then Some (m / 2 ^ (- e)) else None.

Lemma ref_int_value : forall m e k, ref_int m e = Some k -> num_eq (NFin m e) (NFin k 0) = true.
Proof.
  intros m e k H. unfold ref_int in H. cbn. apply Z.eqb_eq.
  destruct (Z.leb_spec 0 e) as [He|He].
  - inversion H; subst. rewrite Z.min_r by lia. rewrite !Z.sub_0_r. cbn. lia.
  - destruct (Z.eqb_spec (m mod 2 ^ (- e)) 0) as [Hm|]; [|discriminate]. inversion H; subst. clear H.
    rewrite Z.min_l by lia. rewrite Z.sub_diag. cbn [Z.pow]. rewrite Z.mul_1_r.
    replace (0 - e) with (- e) by lia.
    pose proof (pow2_pos (- e) ltac:(lia)) as Hp.
    rewrite (Z.div_mod m (2 ^ (- e))) at 1 by lia. rewrite Hm. lia.
Qed.

Lemma vp_ref : value_preserving norm_ref.
Proof.
  intro v. destruct v; cbn [norm_ref]; try (split; [reflexivity | left; reflexivity]).
  fold (ref_int m e). destruct (ref_int m e) as [k|] eqn:Ek; [|split; [reflexivity | left; reflexivity]].
  destruct (Z.ltb 0 k && Z.ltb k (2 ^ 31)); [|split; [reflexivity | left; reflexivity]].
  split; [reflexivity|]. right. exists (NFin m e), (NFin k 0). repeat split. apply ref_int_value. exact Ek.
Qed.

Lemma norm_bool_enc : forall a b, ev_enc a b = true -> ev_enc (norm_bool a) (norm_bool b) = true.
Proof.
  intros a b H. destruct (is_bool_cases a) as [[x ->]|Ha].
  - apply enc_bool_l in H. subst. apply enc_refl.
  - destruct (is_bool_cases b) as [[y ->]|Hb]; [apply enc_bool_r in H; subst; discriminate|].
    pose proof H as H0. rewrite enc_no_bool in H0 by assumption.
    unfold norm_bool. destruct (num_cases a) as [[x Hx]|Hna].
    + destruct (num_cases b) as [[y Hy]|Hnb]; [|rewrite (pyeq_num_nonnum a b x Hx Hnb) in H0; discriminate].
      rewrite (pyeq_nums a b x y Hx Hy) in H0. rewrite Hx, Hy.
      rewrite <- (num_eq_congr x y (NFin 1 0) H0), <- (num_eq_congr x y (NFin 0 0) H0).
      destruct (num_eq x (NFin 1 0)); [reflexivity|]. destruct (num_eq x (NFin 0 0)); [reflexivity | exact H].
    + destruct (num_cases b) as [[y Hy]|Hnb]; [rewrite (pyeq_nonnum_num a b y Hna Hy) in H0; discriminate|].
      rewrite Hna, Hnb. exact H.
Qed.

Lemma norm_bool_idem : forall a, norm_bool (norm_bool a) = norm_bool a.
Proof.
  intro a. destruct (any_num a) as [x|] eqn:Ea.
  - assert (Hn : norm_bool a = if num_eq x (NFin 1 0) then EBool true else if num_eq x (NFin 0 0) then EBool false else a)
      by (unfold norm_bool; rewrite Ea; reflexivity).
    rewrite Hn. destruct (num_eq x (NFin 1 0)) eqn:E1; [reflexivity|]. destruct (num_eq x (NFin 0 0)) eqn:E0; [reflexivity|].
    unfold norm_bool. rewrite Ea, E1, E0. reflexivity.
  - assert (Hn : norm_bool a = a) by (unfold norm_bool; rewrite Ea; reflexivity). rewrite !Hn. reflexivity.
Qed.

Lemma norm_numeric_idem : forall a, norm_numeric (norm_numeric a) = norm_numeric a.
Proof. intros []; reflexivity. Qed.

Lemma norm_ref_idem : forall a, norm_ref (norm_ref a) = norm_ref a.
Proof.
  intros a. destruct a; try reflexivity. cbn [norm_ref]. fold (ref_int m e).
  destruct (ref_int m e) as [k|] eqn:Ek; [|cbn [norm_ref]; fold (ref_int m e); rewrite Ek; reflexivity].
  destruct (Z.ltb 0 k && Z.ltb k (2 ^ 31)) eqn:Er; [reflexivity|].
  cbn [norm_ref]. fold (ref_int m e). rewrite Ek, Er. reflexivity.
Qed.

Lemma norm_kind_cases : forall k,
  (forall v, norm_kind k v = norm_bool v) \/ (forall v, norm_kind k v = norm_numeric v) \/
  (forall v, norm_kind k v = norm_ref v) \/ (forall v, norm_kind k v = v).
Proof.
  intro k. destruct k as [|p|p]; [right; right; right; reflexivity | | right; right; right; reflexivity].
  destruct p as [p|p|]; [| | left; reflexivity].
  - destruct p as [p|p|]; [right; right; right; reflexivity | right; right; right; reflexivity | right; right; left; reflexivity].
  - destruct p as [p|p|]; [right; right; right; reflexivity | right; right; right; reflexivity | right; left; reflexivity].
Qed.

Lemma norm_kind_enc : forall k a b, ev_enc a b = true -> ev_enc (norm_kind k a) (norm_kind k b) = true.
Proof.
  intros k a b H. destruct (norm_kind_cases k) as [Hk|[Hk|[Hk|Hk]]]; rewrite !Hk.
  - apply norm_bool_enc. exact H.
  - apply vp_enc; [apply vp_numeric | exact H].
  - apply vp_enc; [apply vp_ref | exact H].
  - exact H.
Qed.

Lemma norm_kind_idem : forall k a, norm_kind k (norm_kind k a) = norm_kind k a.
Proof.
  intros k a. destruct (norm_kind_cases k) as [Hk|[Hk|[Hk|Hk]]]; rewrite !Hk.
  - apply norm_bool_idem.
  - apply norm_numeric_idem.
  - apply norm_ref_idem.
  - reflexivity.
Qed.

(* the type table is well formed when every default is a fixed point of its column class *)
Definition tt_ok (tt : typetable) : bool :=
  forallb (fun e : name * (ev * Z) => let '(_, (d, k)) := e in ev_enc (norm_kind k d) d) tt.

Lemma tt_ok_get : forall tt ty d k, tt_ok tt = true -> tbl_get tt ty = Some (d, k) -> ev_enc (norm_kind k d) d = true.
Proof.
  induction tt as [|[ty0 [d0 k0]] tt IH]; intros ty d k H Hg; cbn in *; [discriminate|].
  apply andb_true_iff in H. destruct H as [H1 H2].
  destruct (name_eqb ty ty0); [inversion Hg; subst; exact H1 | eapply IH; eassumption].
Qed.

Theorem EOps_laws : forall tt, tt_ok tt = true -> ValLaws (EOps tt).
Proof.
  intros tt Hok. constructor; cbn.
  - apply enc_refl.
  - apply enc_sym.
  - apply enc_trans.
  - apply strict_enc.
  - intros ty a b H. destruct (tbl_get tt ty) as [[d k]|]; [apply norm_kind_enc; exact H | exact H].
  - intros ty a. destruct (tbl_get tt ty) as [[d k]|]; [rewrite norm_kind_idem|]; apply enc_refl.
  - intros ty. destruct (tbl_get tt ty) as [[d k]|] eqn:E; [eapply tt_ok_get; eassumption | apply enc_refl].
Qed.
