(* K6 proofs: converting the reference columns that point at removed tables (displayCol/visibleCol/rules are
   only cleared) keeps the invariant; setting a visibleCol to an existing column keeps it. *)
From Coq Require Import ZArith List Bool Lia.
Import ListNotations.
Require Import Grist.Model.MetaCascade Grist.Proofs.MetaCascade_base Grist.Proofs.MetaCascade_inv
  Grist.Proofs.MetaCascade_rm Grist.Proofs.MetaCascade_add3 Grist.Proofs.MetaCascade_upd.
Open Scope Z_scope.

Lemma convert_refs_frame : forall tabs m,
  m_tables (convert_refs tabs m) = m_tables m /\ m_sections (convert_refs tabs m) = m_sections m /\
  m_views (convert_refs tabs m) = m_views m /\ tids (convert_refs tabs m) = tids m /\
  cids (convert_refs tabs m) = cids m.
Proof.
  intros. unfold convert_refs, tids, cids. cbn [m_tables m_sections m_views m_columns].
  repeat split; try reflexivity.
  apply map_map_id. intros c.
  destruct (mem (c_id c) _); [reflexivity|]. destruct (mem (c_src c) _); reflexivity.
Qed.

Lemma convert_refs_inv : forall X tabs m, InvX X m -> InvX X (convert_refs tabs m).
Proof.
  intros X tabs m [I1 I2 I3 I4 I5 I6 I7 I8].
  destruct (convert_refs_frame tabs m) as [ET [ES [EV [Etid Ecid]]]].
  set (conv := map c_id (filter (fun c => mem (c_reft c) tabs && negb (mem (c_parent c) tabs) && (c_src c =? 0))
                                (m_columns m))) in *.
  set (gc := fun c => if mem (c_id c) conv
                      then mkC (c_id c) (c_parent c) (c_kind c) 0 0 (c_src c)
                               (if negb (c_visible c =? 0) && negb (c_display c =? 0) then [] else c_rules c) 0
                      else if mem (c_src c) conv
                      then mkC (c_id c) (c_parent c) (c_kind c) 0 0 (c_src c) (c_rules c) 0
                      else c).
  assert (EC : m_columns (convert_refs tabs m) = map gc (m_columns m)) by reflexivity.
  assert (Hgc : forall c, c_id (gc c) = c_id c /\ c_parent (gc c) = c_parent c).
  { intros c. unfold gc. destruct (mem (c_id c) conv); [split; reflexivity|].
    destruct (mem (c_src c) conv); split; reflexivity. }
  constructor.
  - unfold IdsOk in *. rewrite Etid, Ecid, EV. unfold sids. rewrite ES.
    destruct I1 as [A [B [C [D [E [F G]]]]]]. repeat split; try (apply A || apply B || apply C || apply D || apply F || apply G).
    + unfold fids, convert_refs. cbn [m_fields]. rewrite map_map_id; [apply E|]. intros f. destruct (mem (f_col f) _); reflexivity.
    + unfold fids, convert_refs. cbn [m_fields]. rewrite map_map_id; [apply E|]. intros f. destruct (mem (f_col f) _); reflexivity.
  - intros c' Hc'. rewrite EC in Hc'. apply in_map_iff in Hc'. destruct Hc' as [c [E Hc]]. subst c'.
    destruct (I2 c Hc) as [J1 [J2 [J3 [J4 J5]]]]. unfold ColOk. rewrite Etid, Ecid. unfold gc.
    destruct (mem (c_id c) conv).
    + simpl. split; [exact J1|]. split; [left; reflexivity|]. split; [left; reflexivity|]. split; [exact J4|].
      destruct (negb (c_visible c =? 0) && negb (c_display c =? 0)); [intros x [] | exact J5].
    + destruct (mem (c_src c) conv); simpl; [|tauto].
      split; [exact J1|]. split; [left; reflexivity|]. split; [left; reflexivity|]. split; assumption.
  - intros f' Hf'. unfold convert_refs in Hf'. cbn [m_fields] in Hf'. apply in_map_iff in Hf'.
    destruct Hf' as [f [E Hf]]. destruct (I3 f Hf) as [[sr [cr [Hs [H1 [Hc [H2 H3]]]]]] [J2 [J3 J4]]].
    assert (Hcs : ColOfSection (convert_refs tabs m) (f_section f) (f_col f)).
    { exists sr, (gc cr). destruct (Hgc cr) as [G1 G2]. rewrite ES, EC.
      split; [exact Hs|]. split; [exact H1|]. split; [apply in_map; exact Hc|]. split; congruence. }
    unfold FieldOk. rewrite Ecid. destruct (mem (f_col f) _); subst f'; simpl.
    + split; [exact Hcs|]. split; [left; reflexivity|]. split; [left; reflexivity | exact J4].
    + split; [exact Hcs|]. tauto.
  - intros s Hs. rewrite ES in Hs. specialize (I4 s Hs). unfold SecOk in *. rewrite Etid, Ecid, EV. exact I4.
  - intros t Ht Hx. rewrite ET in Ht. destruct (I5 t Ht Hx) as [J1 [J2 [J3 J4]]].
    unfold TableOk, SecOfTable in *. rewrite ES, EV, Etid. tauto.
  - intros b Hb. rewrite EV. apply (I6 b Hb).
  - intros b Hb. rewrite EV. apply (I7 b Hb).
  - unfold NamesOk in *. rewrite ET. exact I8.
Qed.

Lemma set_visible_inv : forall X col v m m', InvX X m -> set_visible col v m = Ok m' -> InvX X m'.
Proof.
  intros X col v m m' HI H. unfold set_visible in H.
  destruct (find_column m col); [|discriminate].
  destruct ((v =? 0) || negb (mem v (cids m))) eqn:Ev; [discriminate|].
  apply orb_false_iff in Ev. destruct Ev as [_ Ev]. apply negb_false_iff in Ev. apply mem_In in Ev.
  destruct ((c_src c =? 0) && is_summary_table m (c_parent c)); [discriminate|].
  inversion H; subst m'. apply upd_column_inv; [exact HI | intros; split; reflexivity |].
  intros c0 Hc0. destruct (inv_col X m HI c0 Hc0) as [J1 [J2 [J3 [J4 J5]]]]. unfold ColOk. simpl.
  split; [exact J1|]. split; [exact J2|]. split; [right; exact Ev|]. split; assumption.
Qed.
