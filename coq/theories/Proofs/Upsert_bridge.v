(* C28 -- bridge between the code of BulkAddOrUpdateRecord / AddOrUpdateRecord as REGENERATED from useractions.py
   (GristGen.Upsert_gen, written by harness/up2v.py on every run) and the hand model Model/Upsert.v.
   Step 1 (gen_upsert_is_mirror): the generated function is convertible with a hand-written, structured mirror
          `cm_upsert` of the same column-major computation -- any semantic edit of the source breaks this proof.
   Step 2 (mirror_is_model): the mirror, with the opaque environment instantiated by the models of lookup,
          BulkAddRecord and BulkUpdateRecord, equals the row-major model `upsert` on well-formed dicts. *)
From Coq Require Import ZArith List Bool Lia Arith.
Import ListNotations.
Require Import Grist.Model.Upsert Grist.Lib.UpsertPrelude Grist.Proofs.Upsert_proofs GristGen.Upsert_gen.
Open Scope Z_scope.

(* ================= the structured mirror ================= *)
Section Mirror.
Variable oe : oenv.

Definition S6 := (list (option val) * kv * list Z * kv * retval * list nat)%type.

(* not (col.is_formula() and <metadata formula>) *)
Definition g_settable (key : col) : res bool :=
  rbind (oe_is_formula oe key) (fun b => Ok (negb ((b) && (oe_rec_formula oe key)))).

(* for key, vals in d.items(): m[key].append(vals[i])   /   for key, value in d.items(): m[key].append(value) *)
Definition g_cm_row (i : nat) (d : kv) (m : kv) : res kv :=
  for_m d m (fun kv_ m => rbind (cm_append m (fst kv_) (nth i (snd kv_) VNone)) (fun m => Ok m)).
Definition g_cm_cells (d : cells) (m : kv) : res kv :=
  for_m d m (fun kv_ m => rbind (cm_append m (fst kv_) (snd kv_)) (fun m => Ok m)).

(* `if not records and add:` ... followed by k *)
Definition g_add_part (require col_values : kv) (add : bool) (rak : list col) (i : nat) (records : list Z)
    (aids : list (option val)) (acm : kv) (nidx : list nat)
    (k : list (option val) * kv * list nat -> res S6) : res S6 :=
  if (negb (negb (isnil records))) && add then
    rbind (map_m (fun key => rbind (kv_lookup require key) (fun l => Ok (key, nth i l VNone))) rak) (fun d =>
      let values := dict_update d (row_at i col_values) in
      let '(popped, values) := dict_pop values id_col in
      let aids := aids ++ [popped] in
      rbind (g_cm_cells values acm) (fun acm => k (aids, acm, nidx ++ [i])))
  else k (aids, acm, nidx).

(* `if records and update:` ... followed by k; `continue` = skip *)
Definition g_update_part (col_values : kv) (update : bool) (om : on_many) (i : nat) (records : list Z)
    (uids : list Z) (ucm : kv) (result : retval) (skip : res S6)
    (k : list Z * kv * retval * list Z -> res S6) : res S6 :=
  if (negb (isnil records)) && update then
    let k10 := fun records : list Z =>
      rbind (for_m records (uids, ucm) (fun record '(uids, ucm) =>
               rbind (g_cm_row i col_values ucm) (fun ucm => Ok (uids ++ [record], ucm))))
            (fun '(uids, ucm) =>
               let matched := map (fun record : Z => record) records in
               let result := ret_set_record_ids result (set_nth i matched (r_record_ids result)) in
               let result := ret_set_update_ids result (r_update_ids result ++ [matched]) in
               k (uids, ucm, result, records)) in
    if (1 <? length records)%nat then
      if on_many_eqb om OnFirst then k10 (firstn 1 records)
      else if on_many_eqb om OnNone then skip else k10 records
    else k10 records
  else k (uids, ucm, result, records).

Definition g_body (require col_values : kv) (update add : bool) (om : on_many) (rak : list col) (t : table)
    (i : nat) (s : S6) : res S6 :=
  let '(aids, acm, uids, ucm, result, nidx) := s in
  let records := oe_lookup oe t (row_at i require) in
  g_add_part require col_values add rak i records aids acm nidx (fun '(aids, acm, nidx) =>
    g_update_part col_values update om i records uids ucm result
      (Ok (aids, acm, uids, ucm, result, nidx))
      (fun '(uids, ucm, result, records) => Ok (aids, acm, uids, ucm, result, nidx))).

Definition g_fill (nidx : list nat) (new_ids : list Z) (result : retval) : res retval :=
  for_m (py_enumerate nidx) result (fun ix_ result =>
    let result := ret_set_record_ids result (set_nth (snd ix_) [nth (fst ix_) new_ids 0] (r_record_ids result)) in
    Ok (ret_set_add_ids result (r_add_ids result ++ [nth (fst ix_) new_ids 0]))).

Definition g_finish (t : table) (s : S6) : res (table * retval) :=
  let '(aids, acm, uids, ucm, result, nidx) := s in
  let k15 := fun '(t, result) =>
    if negb (isnil uids) then rbind (oe_bulk_update oe t uids ucm) (fun t => Ok (t, result)) else Ok (t, result) in
  if negb (isnil aids) then
    rbind (oe_bulk_add oe t aids acm) (fun '(t, new_ids) =>
      rbind (g_fill nidx new_ids result) (fun result => k15 (t, result)))
  else k15 (t, result).

Definition cm_upsert (t : table) (require col_values : kv) (opts : options) : res (table * retval) :=
  if negb (existsb (on_many_eqb (o_on_many opts)) [OnFirst; OnNone; OnAll]) then Err EOnMany else
  if (negb (negb (isnil require))) && negb (o_allow_empty opts) then Err EEmptyRequire else
  if (negb (negb (isnil require))) && (negb (negb (isnil col_values))) then Ok (t, empty_ret) else
  match dedup Nat.eqb (map (@length val) (all_lists require col_values)) with
  | [len] =>
      if (negb (isnil require))
         && (length (dedup (list_eqb val_eqb) (map (fun i => map snd (row_at i require)) (seq 0 len))) <? len)%nat
      then Err EUnique else
      rbind (filter_m g_settable (map fst require)) (fun s =>
        let rak := py_set s in
        let col_keys := py_set (map fst col_values) in
        rbind (for_m (seq 0 len)
                 ([], cm_new (set_union col_keys (set_diff rak [id_col])), [], cm_new (set_diff col_keys [id_col]),
                  ret_set_record_ids empty_ret (repeat [] len), [])
                 (g_body require col_values (o_update opts) (o_add opts) (o_on_many opts) rak t))
              (g_finish t))
  | _ => Err ELengths
  end.

Definition cm_upsert_single (t : table) (require col_values : cells) (opts : options)
  : res (table * (list Z * action)) :=
  if (negb (negb (isnil require))) && (negb (negb (isnil col_values))) then Ok (t, ([], ANone)) else
  rbind (cm_upsert t (single_kv require) (single_kv col_values) opts) (fun '(t, result) =>
    if ((length (r_record_ids result) =? 0)%nat) || false then Ok (t, ([], ANone)) else
    let ids := nth 0%nat (r_record_ids result) [] in
    if (0 <? length (r_update_ids result))%nat then Ok (t, (ids, AUpdate))
    else if (0 <? length (r_add_ids result))%nat then Ok (t, (ids, AAdd)) else Ok (t, (ids, ANone))).

(* Step 1: the regenerated code IS the mirror (by computation: beta, zeta, unfolding). *)
Lemma gen_upsert_is_mirror : forall t require col_values opts,
  gen_upsert oe t require col_values opts = cm_upsert t require col_values opts.
Proof. intros. reflexivity. Qed.

End Mirror.

Lemma gen_upsert_single_is_mirror : forall oe t require col_values opts,
  gen_upsert_single oe t require col_values opts = cm_upsert_single oe t require col_values opts.
Proof. intros. reflexivity. Qed.

(* ================= the opaque environment, instantiated by the models ================= *)
Definition cm_rows (m : kv) (n : nat) : list cells := map (fun j => row_at j m) (seq 0 n).

Definition oenv_of (e : env) : oenv := {|
  oe_is_formula := fun c => if known e c then Ok (negb (settable e c)) else Err EEnv;
  oe_has_formula := fun c => if known e c then Ok (negb (settable e c)) else Err EEnv;
  oe_rec_formula := fun _ => true;
  oe_lookup := fun t req => lookup e t req;
  (* _ensure_column_accepts_data on every named column, then the record action on the rows of the column dict *)
  oe_bulk_add := fun t ids m =>
    if forallb (writable e) (map fst m) then bulk_add e t (combine ids (cm_rows m (length ids))) else Err EEnv;
  oe_bulk_update := fun t ids m =>
    if forallb (writable e) (map fst m) then Ok (bulk_update e t (combine ids (cm_rows m (length ids)))) else Err EEnv
|}.

Definition wf_dict {A} (d : list (col * A)) : Prop := NoDup (map fst d).

(* ---------- generic facts ---------- *)
Lemma rbind_ok {A B} : forall (a : A) (k : A -> res B), rbind (Ok a) k = k a.
Proof. reflexivity. Qed.

(* a loop that either keeps an invariant with a pure model of the iteration or fails into a "bad" model state *)
Lemma for_m_sim {X S S'} (R : S -> S' -> Prop) (Bad : S' -> Prop) (body : X -> S -> res S) (f : S' -> X -> S') :
  (forall s' x, Bad s' -> Bad (f s' x)) ->
  forall l s s',
  (forall x s s', In x l -> R s s' ->
     (exists s2, body x s = Ok s2 /\ R s2 (f s' x)) \/ (body x s = Err EEnv /\ Bad (f s' x))) ->
  R s s' ->
  (exists sN, for_m l s body = Ok sN /\ R sN (fold_left f l s')) \/
  (for_m l s body = Err EEnv /\ Bad (fold_left f l s')).
Proof.
  intros Hbad l; induction l as [|x l IH]; intros s s' Hstep HR; simpl.
  - left. exists s. auto.
  - destruct (Hstep x s s' (or_introl eq_refl) HR) as [[s2 [E R2]]|[E B]]; rewrite E.
    + apply IH; [|exact R2]. intros y a b Hy. apply Hstep. right; exact Hy.
    + right. split; [reflexivity|]. clear - Hbad B. revert B. generalize (f s' x). induction l; simpl; auto.
Qed.

Lemma memz_false_notin : forall x l, memz x l = false <-> ~ In x l.
Proof. intros. rewrite <- memz_In. destruct (memz x l); split; intros; congruence. Qed.

Lemma dedup_nodup : forall l : list Z, NoDup l -> dedup Z.eqb l = l.
Proof.
  induction l as [|x l IH]; intros H; simpl; [reflexivity|]. inversion H; subst.
  fold (memz x l). replace (memz x l) with false by (symmetry; apply memz_false_notin; assumption).
  rewrite IH; auto.
Qed.

Lemma NoDup_map_filter {A} (p : col * A -> bool) : forall d : list (col * A),
  NoDup (map fst d) -> NoDup (map fst (filter p d)).
Proof.
  induction d as [|x d IH]; simpl; intros H; [constructor|]. inversion H; subst.
  destruct (p x); simpl; [constructor|]; auto.
  intros Hin. apply H2. apply in_map_iff in Hin. destruct Hin as [y [E Hy]]. apply filter_In in Hy.
  rewrite <- E. apply in_map. tauto.
Qed.

(* the set comprehension for require_add_keys *)
Lemma filter_settable : forall e (require : kv),
  filter_m (g_settable (oenv_of e)) (map fst require)
  = if forallb (fun p => known e (fst p)) require
    then Ok (map fst (filter (fun p => settable e (fst p)) require)) else Err EEnv.
Proof.
  intros e require; induction require as [|[k l] d IH]; [reflexivity|].
  cbn [map fst filter_m forallb filter]. unfold g_settable at 1. cbn [oenv_of oe_is_formula oe_rec_formula].
  destruct (known e k); cbn [rbind andb]; [|reflexivity].
  rewrite IH. destruct (forallb (fun p => known e (fst p)) d); [|reflexivity].
  rewrite andb_true_r, negb_involutive. destruct (settable e k); reflexivity.
Qed.

(* ---------- dicts as association lists with unique keys ---------- *)
Definition dget_eq (a b : cells) : Prop := forall c, dget c a = dget c b.

Lemma get_notin : forall c (d : cells), ~ In c (map fst d) -> get c d = None.
Proof.
  intros c d; induction d as [|[k v] d IH]; simpl; intros H; [reflexivity|].
  destruct (Z.eqb_spec k c) as [->|_]; [exfalso; apply H; left; reflexivity|]. apply IH. intros Hin; apply H; right; exact Hin.
Qed.

Lemma get_in : forall c (d : cells), In c (map fst d) -> exists v, get c d = Some v.
Proof.
  intros c d; induction d as [|[k v] d IH]; simpl; intros H; [destruct H|].
  destruct (Z.eqb_spec k c) as [->|Hne]; [exists v; reflexivity|]. destruct H as [H|H]; [contradiction|]. apply IH; exact H.
Qed.

Lemma dget_notin : forall c (d : cells), ~ In c (map fst d) -> dget c d = None.
Proof.
  intros c d; induction d as [|[k v] d IH]; simpl; intros H; [reflexivity|].
  rewrite IH by (intros Hin; apply H; right; exact Hin).
  destruct (Z.eqb_spec k c) as [->|_]; [exfalso; apply H; left; reflexivity|reflexivity].
Qed.

Lemma dget_get : forall c (d : cells), NoDup (map fst d) -> dget c d = get c d.
Proof.
  intros c d; induction d as [|[k v] d IH]; simpl; intros H; [reflexivity|]. inversion H; subst.
  destruct (Z.eqb_spec k c) as [->|Hne].
  - rewrite dget_notin by assumption. reflexivity.
  - rewrite IH by assumption. destruct (get c d); reflexivity.
Qed.

Lemma dget_app : forall c (a b : cells),
  dget c (a ++ b) = match dget c b with Some v => Some v | None => dget c a end.
Proof.
  intros c a b; induction a as [|[k v] a IH]; simpl; [destruct (dget c b); reflexivity|].
  rewrite IH. destruct (dget c b); [reflexivity|]. reflexivity.
Qed.

Lemma dict_set_get : forall c (d : cells) k v, get c (dict_set d k v) = if k =? c then Some v else get c d.
Proof.
  intros c d k v; induction d as [|[k' v'] d IH]; simpl.
  - destruct (k =? c); reflexivity.
  - destruct (Z.eqb_spec k' k) as [->|Hne]; simpl.
    + destruct (k =? c); reflexivity.
    + rewrite IH. destruct (Z.eqb_spec k' c) as [->|Hc]; [|reflexivity].
      destruct (Z.eqb_spec k c); [congruence|reflexivity].
Qed.

Lemma dict_set_keys : forall (d : cells) k v,
  map fst (dict_set d k v) = if memz k (map fst d) then map fst d else map fst d ++ [k].
Proof.
  intros d k v; induction d as [|[k' v'] d IH]; simpl; [reflexivity|].
  unfold memz; simpl. fold (memz k (map fst d)). rewrite (Z.eqb_sym k k').
  destruct (Z.eqb_spec k' k) as [->|Hne]; simpl; [reflexivity|]. rewrite IH.
  destruct (memz k (map fst d)); reflexivity.
Qed.

Lemma NoDup_snoc {A} : forall (l : list A) x, NoDup l -> ~ In x l -> NoDup (l ++ [x]).
Proof.
  induction l as [|y l IH]; intros x H Hx; simpl; [constructor; [intros []|constructor]|].
  inversion H; subst. constructor.
  - intros Hin. apply in_app_or in Hin. destruct Hin as [Hin|[->|[]]]; [contradiction|apply Hx; left; reflexivity].
  - apply IH; [assumption|intros Hin; apply Hx; right; exact Hin].
Qed.

Lemma dict_set_nodup : forall (d : cells) k v, NoDup (map fst d) -> NoDup (map fst (dict_set d k v)).
Proof.
  intros d k v H. rewrite dict_set_keys. destruct (memz k (map fst d)) eqn:M; [exact H|].
  apply memz_false_notin in M. apply NoDup_snoc; assumption.
Qed.

Lemma dict_update_spec : forall (b a : cells), NoDup (map fst a) ->
  NoDup (map fst (dict_update a b)) /\
  (forall c, get c (dict_update a b) = match dget c b with Some v => Some v | None => get c a end) /\
  (forall c, In c (map fst (dict_update a b)) <-> In c (map fst a) \/ In c (map fst b)).
Proof.
  unfold dict_update. induction b as [|[k v] b IH]; intros a Ha; simpl.
  - repeat split; auto. intros [H|[]]; exact H.
  - destruct (IH (dict_set a k v) (dict_set_nodup a k v Ha)) as [N [G K]]. split; [exact N|]. split.
    + intros c. rewrite G, dict_set_get. destruct (dget c b); [reflexivity|]. destruct (k =? c); reflexivity.
    + intros c. rewrite K, dict_set_keys. destruct (memz k (map fst a)) eqn:M.
      * apply memz_In in M. split; [intros [H|H]; auto|intros [H|[H|H]]; auto]. subst; auto.
      * rewrite in_app_iff. simpl. split; [intros [[H|[H|[]]]|H]; auto|intros [H|[H|H]]; auto].
Qed.

(* ---------- appending one row to a dict of columns ---------- *)
Definition grow (vals : cells) (p : col * list val) : col * list val :=
  match get (fst p) vals with Some v => (fst p, snd p ++ [v]) | None => p end.

Lemma cm_append_spec : forall (m : kv) k v, In k (map fst m) -> NoDup (map fst m) ->
  cm_append m k v = Ok (map (fun p => if fst p =? k then (fst p, snd p ++ [v]) else p) m).
Proof.
  induction m as [|[k' l] m IH]; intros k v Hin Hnd; [destruct Hin|]. simpl in *. inversion Hnd; subst.
  destruct (Z.eqb_spec k' k) as [->|Hne].
  - f_equal. f_equal. rewrite <- (map_id m) at 1. apply map_ext_in. intros [k2 l2] Hp2. simpl.
    destruct (Z.eqb_spec k2 k) as [->|_]; [|reflexivity]. exfalso. apply H1. apply (in_map fst) in Hp2. exact Hp2.
  - destruct Hin as [E|Hin]; [contradiction|]. rewrite (IH k v Hin H2). reflexivity.
Qed.

Lemma cm_append_notin : forall (m : kv) k v, ~ In k (map fst m) -> cm_append m k v = Err EEnv.
Proof.
  induction m as [|[k' l] m IH]; intros k v H; [reflexivity|]. simpl in *.
  destruct (Z.eqb_spec k' k) as [->|Hne]; [exfalso; apply H; left; reflexivity|].
  rewrite IH; [reflexivity|]. intros Hin; apply H; right; exact Hin.
Qed.

Definition upd_col (k : col) (v : val) (p : col * list val) : col * list val :=
  if fst p =? k then (fst p, snd p ++ [v]) else p.
Lemma upd_col_keys : forall (m : kv) k v, map fst (map (upd_col k v) m) = map fst m.
Proof. intros. rewrite map_map. apply map_ext. intros p. unfold upd_col. destruct (fst p =? k); reflexivity. Qed.
Lemma cm_append_spec' : forall (m : kv) k v, In k (map fst m) -> NoDup (map fst m) ->
  cm_append m k v = Ok (map (upd_col k v) m).
Proof. intros. apply cm_append_spec; assumption. Qed.

Lemma g_cm_cells_spec : forall (vals : cells) (m : kv),
  NoDup (map fst vals) -> NoDup (map fst m) -> (forall k, In k (map fst vals) -> In k (map fst m)) ->
  g_cm_cells vals m = Ok (map (grow vals) m).
Proof.
  unfold g_cm_cells. induction vals as [|[k v] vals IH]; intros m Hv Hm Hsub.
  - simpl. f_equal. symmetry. rewrite <- (map_id m) at 2. apply map_ext. intros p. reflexivity.
  - simpl in Hv. inversion Hv; subst. cbn [for_m fst snd].
    rewrite (cm_append_spec' m k v (Hsub k (or_introl eq_refl)) Hm). cbn [rbind].
    rewrite (IH (map (upd_col k v) m) H2);
      [| rewrite upd_col_keys; exact Hm | intros k' Hk'; rewrite upd_col_keys; apply Hsub; right; exact Hk'].
    f_equal. rewrite map_map. apply map_ext. intros [k' l]. unfold grow, upd_col. cbn [fst snd get].
    destruct (Z.eqb_spec k' k) as [->|Hne].
    + rewrite Z.eqb_refl. cbn [fst snd]. rewrite (get_notin k vals H1). reflexivity.
    + destruct (Z.eqb_spec k k'); [congruence|]. reflexivity.
Qed.

Lemma for_m_map {X Y S} : forall (f : X -> Y) (l : list X) (s : S) (body : Y -> S -> res S),
  for_m (map f l) s body = for_m l s (fun x => body (f x)).
Proof. intros f l; induction l as [|x l IH]; intros s body; simpl; [reflexivity|]. destruct (body (f x) s); auto. Qed.

Lemma g_cm_row_cells : forall i (d : kv) m, g_cm_row i d m = g_cm_cells (row_at i d) m.
Proof. intros. unfold g_cm_row, g_cm_cells, row_at. rewrite for_m_map. reflexivity. Qed.

(* a failing append (key absent) makes the whole row fail *)
Lemma g_cm_cells_fail : forall (vals : cells) (m : kv) k,
  NoDup (map fst m) -> In k (map fst vals) -> ~ In k (map fst m) -> g_cm_cells vals m = Err EEnv.
Proof.
  unfold g_cm_cells. induction vals as [|[k' v] vals IH]; intros m k Hm Hin Hk; [destruct Hin|].
  cbn [for_m fst snd]. destruct (in_dec Z.eq_dec k' (map fst m)) as [Hi|Hn].
  - rewrite (cm_append_spec' m k' v Hi Hm). cbn [rbind]. simpl in Hin. destruct Hin as [->|Hin]; [contradiction|].
    apply (IH (map (upd_col k' v) m) k); [rewrite upd_col_keys; exact Hm | exact Hin | rewrite upd_col_keys; exact Hk].
  - rewrite (cm_append_notin m k' v Hn). reflexivity.
Qed.

Definition cm_rect (m : kv) (n : nat) : Prop := Forall (fun p => length (snd p) = n) m.

Lemma grow_keys : forall vals m, map fst (map (grow vals) m) = map fst m.
Proof. intros. rewrite map_map. apply map_ext. intros p. unfold grow. destruct (get (fst p) vals); reflexivity. Qed.

Lemma grow_rect : forall vals m n, cm_rect m n -> (forall k, In k (map fst m) -> In k (map fst vals)) ->
  cm_rect (map (grow vals) m) (S n).
Proof.
  intros vals m n Hr Hsub. unfold cm_rect in *. rewrite Forall_forall in *. intros q Hq.
  apply in_map_iff in Hq. destruct Hq as [p [<- Hp]]. unfold grow.
  destruct (get_in (fst p) vals (Hsub _ (in_map fst _ _ Hp))) as [v ->]. cbn [snd].
  rewrite app_length, (Hr p Hp). simpl. lia.
Qed.

Lemma grow_old_rows : forall vals m n j, cm_rect m n -> (j < n)%nat -> row_at j (map (grow vals) m) = row_at j m.
Proof.
  intros vals m n j Hr Hj. unfold row_at. rewrite map_map. apply map_ext_in. intros p Hp.
  unfold cm_rect in Hr. rewrite Forall_forall in Hr. specialize (Hr p Hp). unfold grow.
  destruct (get (fst p) vals); [|reflexivity]. cbn [fst snd]. rewrite app_nth1 by lia. reflexivity.
Qed.

Lemma grow_new_row : forall vals m n c, cm_rect m n -> NoDup (map fst m) ->
  (forall k, In k (map fst m) <-> In k (map fst vals)) ->
  dget c (row_at n (map (grow vals) m)) = get c vals.
Proof.
  intros vals m n c Hr Hnd Hkeys.
  assert (Hrow : row_at n (map (grow vals) m)
                 = map (fun p => (fst p, match get (fst p) vals with Some v => v | None => VNone end)) m).
  { unfold row_at. rewrite map_map. apply map_ext_in. intros p Hp.
    unfold cm_rect in Hr. rewrite Forall_forall in Hr. specialize (Hr p Hp). unfold grow.
    destruct (get_in (fst p) vals (proj1 (Hkeys _) (in_map fst _ _ Hp))) as [v ->]. cbn [fst snd].
    rewrite app_nth2 by lia. rewrite Hr, Nat.sub_diag. reflexivity. }
  rewrite Hrow. rewrite dget_get by (rewrite map_map; cbn [fst]; exact Hnd).
  destruct (in_dec Z.eq_dec c (map fst m)) as [Hi|Hn].
  - destruct (get_in c vals (proj1 (Hkeys c) Hi)) as [v G]. rewrite G.
    clear - Hi G. induction m as [|[k l] m IH]; [destruct Hi|]. simpl in *.
    destruct (Z.eqb_spec k c) as [->|Hne]; [rewrite G; reflexivity|].
    destruct Hi as [E|Hi]; [contradiction|]. apply IH; assumption.
  - rewrite get_notin by (rewrite map_map; cbn [fst]; exact Hn).
    symmetry. apply get_notin. intros H. apply Hn. apply Hkeys. exact H.
Qed.

(* ---------- sets of columns ---------- *)
Lemma set_union_In : forall a b k, In k (set_union a b) <-> In k a \/ In k b.
Proof.
  intros a b k. unfold set_union. rewrite in_app_iff, filter_In. split.
  - intros [H|[H _]]; auto.
  - intros [H|H]; auto. destruct (in_dec Z.eq_dec k a) as [Hi|Hn]; [left; exact Hi|right].
    split; [exact H|]. apply negb_true_iff. apply memz_false_notin. exact Hn.
Qed.

Lemma set_diff_In : forall a b k, In k (set_diff a b) <-> In k a /\ ~ In k b.
Proof.
  intros a b k. unfold set_diff. rewrite filter_In, negb_true_iff, memz_false_notin. reflexivity.
Qed.

Lemma NoDup_filter {A} (p : A -> bool) : forall l, NoDup l -> NoDup (filter p l).
Proof.
  induction l as [|x l IH]; simpl; intros H; [constructor|]. inversion H; subst.
  destruct (p x); [constructor|]; auto. intros Hin. apply filter_In in Hin. tauto.
Qed.


Lemma nodup_app {A} : forall a b : list A, NoDup a -> NoDup b -> (forall x, In x a -> ~ In x b) -> NoDup (a ++ b).
Proof.
  induction a as [|x a IH]; intros b Ha Hb Hd; simpl; [exact Hb|]. inversion Ha; subst. constructor.
  - intros Hin. apply in_app_or in Hin. destruct Hin as [Hin|Hin]; [contradiction|]. apply (Hd x (or_introl eq_refl) Hin).
  - apply IH; auto. intros y Hy. apply Hd. right; exact Hy.
Qed.

Lemma set_union_nodup : forall a b, NoDup a -> NoDup b -> NoDup (set_union a b).
Proof.
  intros a b Ha Hb. unfold set_union. apply nodup_app; [exact Ha|apply NoDup_filter; exact Hb|].
  intros x Hx Hin. apply filter_In in Hin. destruct Hin as [_ Hn]. apply negb_true_iff in Hn.
  apply memz_false_notin in Hn. contradiction.
Qed.

Lemma set_diff_nodup : forall a b, NoDup a -> NoDup (set_diff a b).
Proof. intros. apply NoDup_filter. assumption. Qed.

Lemma set_diff_id : forall a k, ~ In k a -> set_diff a [k] = a.
Proof.
  intros a k H. unfold set_diff. induction a as [|x a IH]; [reflexivity|]. cbn [filter].
  assert (M : memz x [k] = false).
  { apply memz_false_notin. intros [E|[]]. apply H. left. symmetry; exact E. }
  rewrite M. cbn [negb]. rewrite IH; [reflexivity|]. intros Hin; apply H; right; exact Hin.
Qed.

Lemma row_at_length : forall i (d : kv), length (row_at i d) = length d.
Proof. intros. unfold row_at. apply map_length. Qed.

(* ---------- d[key] over the keys of a sub-dict ---------- *)
Lemma kv_lookup_in : forall (d : kv) k l, NoDup (map fst d) -> In (k, l) d -> kv_lookup d k = Ok l.
Proof.
  induction d as [|[k' l'] d IH]; intros k l Hnd Hin; [destruct Hin|]. simpl in *. inversion Hnd; subst.
  destruct Hin as [E|Hin].
  - inversion E; subst. rewrite Z.eqb_refl. reflexivity.
  - destruct (Z.eqb_spec k' k) as [->|_]; [|apply IH; assumption].
    exfalso. apply H1. apply (in_map fst) in Hin. exact Hin.
Qed.

Lemma map_m_lookup : forall i (require d' : kv), NoDup (map fst require) -> (forall p, In p d' -> In p require) ->
  map_m (fun key => rbind (kv_lookup require key) (fun l => Ok (key, nth i l VNone))) (map fst d')
  = Ok (row_at i d').
Proof.
  intros i require d' Hnd. induction d' as [|[k l] d' IH]; intros Hsub; [reflexivity|].
  cbn [map fst map_m]. rewrite (kv_lookup_in require k l Hnd (Hsub _ (or_introl eq_refl))). cbn [rbind].
  rewrite IH by (intros p Hp; apply Hsub; right; exact Hp). reflexivity.
Qed.

Lemma dget_drop_id : forall c (d : cells), dget c (drop_id d) = if c =? id_col then None else dget c d.
Proof.
  intros c d. unfold drop_id. generalize id_col as idc. intros idc.
  induction d as [|[k v] d IH]; cbn [filter fst dget]; [destruct (c =? idc); reflexivity|].
  destruct (Z.eqb_spec k idc) as [->|Hk]; cbn [negb dget].
  - rewrite IH. destruct (Z.eqb_spec c idc) as [->|Hc]; [reflexivity|].
    destruct (dget c d); [reflexivity|]. destruct (Z.eqb_spec idc c); [congruence|reflexivity].
  - rewrite IH. destruct (Z.eqb_spec c idc) as [->|Hc]; [|reflexivity].
    destruct (Z.eqb_spec k idc); [contradiction|reflexivity].
Qed.

Lemma keys_drop_id : forall (d : cells) k, In k (map fst (drop_id d)) <-> In k (map fst d) /\ k <> id_col.
Proof.
  intros d k. unfold drop_id. rewrite !in_map_iff. split.
  - intros [p [E Hp]]. apply filter_In in Hp. destruct Hp as [Hp Hn]. apply negb_true_iff in Hn.
    apply Z.eqb_neq in Hn. subst k. split; [exists p; auto|exact Hn].
  - intros [[p [E Hp]] Hn]. exists p. split; [exact E|]. apply filter_In. split; [exact Hp|].
    apply negb_true_iff. apply Z.eqb_neq. intros X. apply Hn. rewrite <- E. exact X.
Qed.

(* ================= one iteration of the loop ================= *)
Section Step.
Variables (e : env) (require col_values : kv).
Hypothesis Hrq : wf_dict require.
Hypothesis Hcv : wf_dict col_values.

Definition add_keys_ := filter (fun p : col * list val => settable e (fst p)) require.
Definition rak_ := map fst add_keys_.
Definition ck_ := map fst col_values.
Definition KA_ := set_union ck_ (set_diff rak_ [id_col]).
Definition KU_ := set_diff ck_ [id_col].

Lemma rak_nodup : NoDup rak_.
Proof. unfold rak_, add_keys_. apply NoDup_map_filter. exact Hrq. Qed.
Lemma KA_nodup : NoDup KA_.
Proof. unfold KA_. apply set_union_nodup; [exact Hcv|apply set_diff_nodup; exact rak_nodup]. Qed.
Lemma KU_nodup : NoDup KU_.
Proof. unfold KU_. apply set_diff_nodup. exact Hcv. Qed.

(* the dict `values` of a new record, as the code builds it, against the model's list *)
Definition valuesM (i : nat) : cells := row_at i add_keys_ ++ row_at i col_values.
Definition values0 (i : nat) : cells := dict_update (row_at i add_keys_) (row_at i col_values).

Lemma values_facts : forall i,
  dict_pop (values0 i) id_col = (dget id_col (valuesM i), drop_id (values0 i)) /\
  NoDup (map fst (drop_id (values0 i))) /\
  dget_eq (drop_id (values0 i)) (drop_id (valuesM i)) /\
  (forall k, In k (map fst (drop_id (values0 i))) <-> (In k rak_ \/ In k ck_) /\ k <> id_col).
Proof.
  intros i. unfold values0, valuesM.
  assert (NA : NoDup (map fst (row_at i add_keys_))) by (rewrite row_at_keys; exact rak_nodup).
  destruct (dict_update_spec (row_at i col_values) (row_at i add_keys_) NA) as [N [G K]].
  assert (GE : forall c, get c (dict_update (row_at i add_keys_) (row_at i col_values))
                         = dget c (row_at i add_keys_ ++ row_at i col_values)).
  { intros c. rewrite G, dget_app, (dget_get c _ NA). reflexivity. }
  split; [|split; [|split]].
  - unfold dict_pop. rewrite GE. reflexivity.
  - unfold drop_id. apply NoDup_map_filter. exact N.
  - intros c. rewrite !dget_drop_id. destruct (c =? id_col); [reflexivity|].
    rewrite (dget_get c _ N). apply GE.
  - intros k. rewrite keys_drop_id, K, !row_at_keys. reflexivity.
Qed.

Lemma add_cm_step : forall i (acm : kv), map fst acm = KA_ ->
  g_cm_cells (drop_id (values0 i)) acm = Ok (map (grow (drop_id (values0 i))) acm).
Proof.
  intros i acm HK. destruct (values_facts i) as [_ [N [_ K]]].
  apply g_cm_cells_spec; [exact N | rewrite HK; exact KA_nodup |].
  intros k Hk. rewrite HK. apply K in Hk. destruct Hk as [[Hk|Hk] Hn]; unfold KA_; apply set_union_In.
  - right. apply set_diff_In. split; [exact Hk|]. intros [E|[]]. congruence.
  - left. exact Hk.
Qed.

Lemma g_add_part_spec : forall add i records aids acm nidx (k : list (option val) * kv * list nat -> res S6),
  map fst acm = KA_ ->
  g_add_part require col_values add rak_ i records aids acm nidx k
  = if isnil records && add
    then k (aids ++ [dget id_col (valuesM i)], map (grow (drop_id (values0 i))) acm, nidx ++ [i])
    else k (aids, acm, nidx).
Proof.
  intros add i records aids acm nidx k HK. unfold g_add_part. rewrite negb_involutive.
  destruct (isnil records && add); [|reflexivity].
  unfold rak_. rewrite (map_m_lookup i require add_keys_ Hrq).
  2:{ intros p Hp. unfold add_keys_ in Hp. apply filter_In in Hp. tauto. }
  cbn [rbind]. fold (values0 i). destruct (values_facts i) as [P _]. rewrite P.
  rewrite (add_cm_step i acm HK). reflexivity.
Qed.

End Step.

(* ---------- appending the same row several times (one update entry per matched record) ---------- *)
Fixpoint grow_n (vals : cells) (n : nat) (m : kv) : kv :=
  match n with O => m | S n' => grow_n vals n' (map (grow vals) m) end.

Definition getd (vals : cells) (k : col) : val := match get k vals with Some v => v | None => VNone end.

Lemma assoc_canon : forall vals : cells, NoDup (map fst vals) ->
  map (fun k => (k, getd vals k)) (map fst vals) = vals.
Proof.
  induction vals as [|[k v] vals IH]; intros H; [reflexivity|]. simpl in H. inversion H; subst.
  cbn [map fst]. unfold getd at 1. cbn [get]. rewrite Z.eqb_refl. f_equal.
  transitivity (map (fun k0 => (k0, getd vals k0)) (map fst vals)); [|apply IH; exact H3].
  apply map_ext_in. intros k' Hk'. unfold getd. cbn [get].
  destruct (Z.eqb_spec k k') as [->|_]; [contradiction|reflexivity].
Qed.

Lemma grow_new_row_exact : forall vals m n, cm_rect m n -> NoDup (map fst vals) -> map fst m = map fst vals ->
  row_at n (map (grow vals) m) = vals.
Proof.
  intros vals m n Hr Hnd HK.
  assert (Hrow : row_at n (map (grow vals) m) = map (fun p => (fst p, getd vals (fst p))) m).
  { unfold row_at. rewrite map_map. apply map_ext_in. intros p Hp.
    unfold cm_rect in Hr. rewrite Forall_forall in Hr. specialize (Hr p Hp). unfold grow, getd.
    assert (Hin : In (fst p) (map fst vals)) by (rewrite <- HK; apply in_map; exact Hp).
    destruct (get_in (fst p) vals Hin) as [v ->]. cbn [fst snd].
    rewrite app_nth2 by lia. rewrite Hr, Nat.sub_diag. reflexivity. }
  rewrite Hrow. transitivity (map (fun k => (k, getd vals k)) (map fst vals)); [|apply assoc_canon; exact Hnd].
  rewrite <- HK, map_map. reflexivity.
Qed.

Lemma cm_rows_grow : forall vals m n, cm_rect m n -> NoDup (map fst vals) -> map fst m = map fst vals ->
  cm_rows (map (grow vals) m) (S n) = cm_rows m n ++ [vals].
Proof.
  intros vals m n Hr Hnd HK. unfold cm_rows. rewrite seq_S, map_app. cbn [map Nat.add]. f_equal.
  - apply map_ext_in. intros j Hj. apply in_seq in Hj. apply (grow_old_rows vals m n j Hr). lia.
  - f_equal. apply grow_new_row_exact; assumption.
Qed.

Lemma grow_n_spec : forall vals k m n, cm_rect m n -> NoDup (map fst vals) -> map fst m = map fst vals ->
  map fst (grow_n vals k m) = map fst m /\ cm_rect (grow_n vals k m) (n + k) /\
  cm_rows (grow_n vals k m) (n + k) = cm_rows m n ++ repeat vals k.
Proof.
  intros vals k; induction k as [|k IH]; intros m n Hr Hnd HK; cbn [grow_n repeat].
  - rewrite Nat.add_0_r, app_nil_r. auto.
  - assert (Hr1 : cm_rect (map (grow vals) m) (S n)).
    { apply grow_rect; [exact Hr|]. intros c Hc. rewrite <- HK. exact Hc. }
    assert (HK1 : map fst (map (grow vals) m) = map fst vals) by (rewrite grow_keys; exact HK).
    destruct (IH _ (S n) Hr1 Hnd HK1) as [K [R C]]. rewrite Nat.add_succ_r. cbn [Nat.add] in R, C.
    split; [rewrite K; apply grow_keys|]. split; [exact R|].
    rewrite C, (cm_rows_grow vals m n Hr Hnd HK), <- app_assoc. reflexivity.
Qed.

Section Step2.
Variables (col_values : kv).
Hypothesis Hcv : wf_dict col_values.

Definition upd_loop (i : nat) (recs : list Z) (uids : list Z) (ucm : kv) : res (list Z * kv) :=
  for_m recs (uids, ucm) (fun record '(uids, ucm) =>
    rbind (g_cm_row i col_values ucm) (fun ucm => Ok (uids ++ [record], ucm))).

Lemma upd_loop_ok : forall i recs uids ucm, ~ In id_col (ck_ col_values) -> map fst ucm = KU_ col_values ->
  upd_loop i recs uids ucm = Ok (uids ++ recs, grow_n (row_at i col_values) (length recs) ucm).
Proof.
  intros i recs. unfold upd_loop. induction recs as [|r recs IH]; intros uids ucm Hid HK.
  - simpl. rewrite app_nil_r. reflexivity.
  - cbn [for_m length grow_n]. rewrite g_cm_row_cells.
    assert (KUck : KU_ col_values = map fst col_values) by (unfold KU_; apply set_diff_id; exact Hid).
    rewrite g_cm_cells_spec.
    + cbn [rbind]. rewrite IH; [rewrite <- app_assoc; reflexivity|exact Hid|rewrite grow_keys; exact HK].
    + rewrite row_at_keys. exact Hcv.
    + rewrite HK, KUck. exact Hcv.
    + intros k Hk. rewrite row_at_keys in Hk. rewrite HK, KUck. exact Hk.
Qed.

Lemma upd_loop_fail : forall i r recs uids ucm, In id_col (ck_ col_values) -> map fst ucm = KU_ col_values ->
  upd_loop i (r :: recs) uids ucm = Err EEnv.
Proof.
  intros i r recs uids ucm Hid HK. unfold upd_loop. cbn [for_m]. rewrite g_cm_row_cells.
  rewrite (g_cm_cells_fail (row_at i col_values) ucm id_col); [reflexivity| | |].
  - rewrite HK. apply set_diff_nodup. exact Hcv.
  - rewrite row_at_keys. exact Hid.
  - rewrite HK. unfold KU_. intros H. apply set_diff_In in H. destruct H as [_ H]. apply H. left; reflexivity.
Qed.

End Step2.

(* ================= the loop invariant ================= *)
Section Sim.
Variables (e : env) (t : table) (o : options) (require col_values : kv).
Hypothesis Hrq : wf_dict require.
Hypothesis Hcv : wf_dict col_values.
Hypothesis Hbad : o_on_many o <> OnBad.

Let ak := add_keys_ e require.
Let rak := rak_ e require.
Let ck := ck_ col_values.
Let KA := KA_ e require col_values.
Let KU := KU_ col_values.

Definition Rel (s : S6) (st : lstate) : Prop :=
  let '(aids, acm, uids, ucm, result, nidx) := s in
  aids = map fst (s_adds st) /\ map fst acm = KA /\
  (~ In id_col ck -> cm_rect acm (length (s_adds st)) /\
                     Forall2 dget_eq (cm_rows acm (length (s_adds st))) (map snd (s_adds st))) /\
  uids = map fst (s_upds st) /\ map fst ucm = KU /\ cm_rect ucm (length (s_upds st)) /\
  cm_rows ucm (length (s_upds st)) = map snd (s_upds st) /\
  (In id_col ck -> s_upds st = []) /\
  result = {| r_record_ids := s_rec_ids st; r_add_ids := []; r_update_ids := s_upd_ids st |} /\
  nidx = s_new_idx st /\ length (s_new_idx st) = length (s_adds st).

Definition BadSt (st : lstate) : Prop := In id_col ck /\ s_upds st <> [].

Lemma KA_values_keys : forall i k, ~ In id_col ck ->
  (In k KA <-> In k (map fst (drop_id (values0 e require col_values i)))).
Proof.
  intros i k Hid. destruct (values_facts e require col_values Hrq i) as [_ [_ [_ K]]]. rewrite K.
  unfold KA, KA_. rewrite set_union_In, set_diff_In. fold ck. fold rak. split.
  - intros [H|[H Hn]].
    + split; [right; exact H|]. intros E. subst k. contradiction.
    + split; [left; exact H|]. intros E. apply Hn. left. symmetry; exact E.
  - intros [[H|H] Hn]; [right|left; exact H]. split; [exact H|]. intros [E|[]]. congruence.
Qed.

Lemma Rel_add : forall i aids acm uids ucm result nidx st,
  Rel (aids, acm, uids, ucm, result, nidx) st ->
  Rel (aids ++ [dget id_col (valuesM e require col_values i)],
       map (grow (drop_id (values0 e require col_values i))) acm, uids, ucm, result, nidx ++ [i])
      {| s_adds := s_adds st ++ [(dget id_col (valuesM e require col_values i), drop_id (valuesM e require col_values i))];
         s_new_idx := s_new_idx st ++ [i];
         s_upds := s_upds st; s_rec_ids := s_rec_ids st; s_upd_ids := s_upd_ids st |}.
Proof.
  intros i aids acm uids ucm result nidx st [Ha [Hk [Hrows [Hu [Hku [Hur [Hurows [Hidu [Hres [Hn Hlen]]]]]]]]]].
  unfold Rel. cbn [s_adds s_new_idx s_upds s_rec_ids s_upd_ids].
  destruct (values_facts e require col_values Hrq i) as [_ [Nv [Deq _]]].
  repeat split; auto.
  - rewrite map_app, Ha. reflexivity.
  - rewrite grow_keys. exact Hk.
  - destruct (Hrows H) as [Hr _]. rewrite app_length, Nat.add_1_r. apply grow_rect; [exact Hr|].
    intros k Hkin. rewrite Hk in Hkin. apply (KA_values_keys i k H). exact Hkin.
  - destruct (Hrows H) as [Hr HF]. rewrite app_length, Nat.add_1_r, map_app. unfold cm_rows.
    rewrite seq_S, map_app. cbn [map Nat.add]. apply Forall2_app.
    + replace (map (fun j => row_at j (map (grow (drop_id (values0 e require col_values i))) acm))
                   (seq 0 (length (s_adds st)))) with (cm_rows acm (length (s_adds st))); [exact HF|].
      unfold cm_rows. apply map_ext_in. intros j Hj. apply in_seq in Hj. symmetry.
      apply (grow_old_rows _ acm (length (s_adds st)) j Hr). lia.
    + constructor; [|constructor]. intros c.
      rewrite (grow_new_row _ acm (length (s_adds st)) c Hr).
      * rewrite <- (dget_get c _ Nv). apply Deq.
      * rewrite Hk. apply (KA_nodup e require col_values Hrq Hcv).
      * intros k. rewrite Hk. apply KA_values_keys. exact H.
  - rewrite Hn. reflexivity.
  - rewrite !app_length, Hlen. reflexivity.
Qed.

Lemma map_const_repeat {A B} : forall (l : list A) (b : B), map (fun _ => b) l = repeat b (length l).
Proof. induction l as [|x l IH]; intros b; simpl; [reflexivity|]. rewrite IH. reflexivity. Qed.

Lemma Rel_upd : forall i recs aids acm uids ucm result nidx st, ~ In id_col ck ->
  Rel (aids, acm, uids, ucm, result, nidx) st ->
  Rel (aids, acm, uids ++ recs, grow_n (row_at i col_values) (length recs) ucm,
       ret_set_update_ids (ret_set_record_ids result (set_nth i recs (r_record_ids result)))
         (r_update_ids (ret_set_record_ids result (set_nth i recs (r_record_ids result))) ++ [recs]), nidx)
      {| s_adds := s_adds st; s_new_idx := s_new_idx st;
         s_upds := s_upds st ++ map (fun r => (r, row_at i col_values)) recs;
         s_rec_ids := set_nth i recs (s_rec_ids st);
         s_upd_ids := s_upd_ids st ++ [recs] |}.
Proof.
  intros i recs aids acm uids ucm result nidx st Hid [Ha [Hk [Hrows [Hu [Hku [Hur [Hurows [Hidu [Hres [Hn Hlen]]]]]]]]]].
  unfold Rel. cbn [s_adds s_new_idx s_upds s_rec_ids s_upd_ids].
  assert (KUck : KU = map fst col_values) by (unfold KU, KU_; apply set_diff_id; exact Hid).
  destruct (grow_n_spec (row_at i col_values) (length recs) ucm (length (s_upds st)) Hur) as [K [Rc C]].
  { rewrite row_at_keys. exact Hcv. }
  { rewrite row_at_keys, Hku, KUck. reflexivity. }
  assert (Hl : length (s_upds st ++ map (fun r => (r, row_at i col_values)) recs) = (length (s_upds st) + length recs)%nat)
    by (rewrite app_length, map_length; reflexivity).
  refine (conj Ha (conj Hk (conj Hrows (conj _ (conj _ (conj _ (conj _ (conj _ (conj _ (conj Hn Hlen)))))))))).
  - rewrite map_app, map_map, Hu. cbn [fst]. rewrite map_id. reflexivity.
  - rewrite K. exact Hku.
  - rewrite Hl. exact Rc.
  - rewrite Hl, C, Hurows, map_app, map_map. cbn [snd]. rewrite map_const_repeat. reflexivity.
  - intros H. contradiction.
  - rewrite Hres. reflexivity.
Qed.


Lemma loop_body_eq : forall st i,
  loop_body e t o require ak col_values st i
  = step e st i (mk_row require col_values i) (ref_outcome e t o (row_at i require)).
Proof. intros. apply loop_body_step. exact Hbad. Qed.

Lemma BadSt_mono : forall st i, BadSt st -> BadSt (loop_body e t o require ak col_values st i).
Proof.
  intros st i [Hid Hne]. split; [exact Hid|]. rewrite loop_body_eq. unfold step.
  destruct (ref_outcome e t o (row_at i require)); cbn [s_upds]; try exact Hne.
  intros E. apply app_eq_nil in E. destruct E as [E _]. contradiction.
Qed.

Lemma add_values_valuesM : forall i,
  add_values e (row_at i require, row_at i col_values) = valuesM e require col_values i.
Proof.
  intros i. unfold add_values, valuesM, add_keys_. cbn [fst snd].
  rewrite (row_at_filter (settable e) i require). reflexivity.
Qed.

Ltac fold_upd_loop i :=
  match goal with |- context [for_m ?l (?u, ?m) ?b] =>
    change (for_m l (u, m) b) with (upd_loop col_values i l u m) end.

Lemma body_step : forall i s st, Rel s st ->
  (exists s2, g_body (oenv_of e) require col_values (o_update o) (o_add o) (o_on_many o) rak t i s = Ok s2 /\
              Rel s2 (loop_body e t o require ak col_values st i)) \/
  (g_body (oenv_of e) require col_values (o_update o) (o_add o) (o_on_many o) rak t i s = Err EEnv /\
   BadSt (loop_body e t o require ak col_values st i)).
Proof.
  intros i [[[[[aids acm] uids] ucm] result] nidx] st HR.
  pose proof HR as [Ha [Hk [Hrows [Hu [Hku [Hur [Hurows [Hidu [Hres [Hn Hlen]]]]]]]]]].
  unfold g_body. cbn [oe_lookup oenv_of].
  rewrite (g_add_part_spec e require col_values Hrq Hcv (o_add o) i _ aids acm nidx _ Hk).
  rewrite loop_body_eq. unfold ref_outcome, step, mk_row. cbn [fst snd].
  assert (Hupd : forall recs aids' acm' nidx' st', recs <> [] ->
            Rel (aids', acm', uids, ucm, result, nidx') st' ->
            s_upds st' = s_upds st ->
            let k := fun '(uids, ucm, result, records) => Ok (aids', acm', uids, ucm, result, nidx') : res S6 in
            let st2 := {| s_adds := s_adds st'; s_new_idx := s_new_idx st';
                          s_upds := s_upds st' ++ map (fun x => (x, row_at i col_values)) recs;
                          s_rec_ids := set_nth i recs (s_rec_ids st'); s_upd_ids := s_upd_ids st' ++ [recs] |} in
            (exists s2,
               rbind (upd_loop col_values i recs uids ucm)
                 (fun '(uids, ucm) =>
                    k (uids, ucm,
                       ret_set_update_ids (ret_set_record_ids result (set_nth i (map (fun r : Z => r) recs) (r_record_ids result)))
                         (r_update_ids (ret_set_record_ids result (set_nth i (map (fun r : Z => r) recs) (r_record_ids result)))
                          ++ [map (fun r : Z => r) recs]), recs)) = Ok s2 /\ Rel s2 st2) \/
            (rbind (upd_loop col_values i recs uids ucm)
                 (fun '(uids, ucm) =>
                    k (uids, ucm,
                       ret_set_update_ids (ret_set_record_ids result (set_nth i (map (fun r : Z => r) recs) (r_record_ids result)))
                         (r_update_ids (ret_set_record_ids result (set_nth i (map (fun r : Z => r) recs) (r_record_ids result)))
                          ++ [map (fun r : Z => r) recs]), recs)) = Err EEnv /\ BadSt st2)).
  { intros recs aids' acm' nidx' st' Hne HR' Hsame. cbn zeta.
    destruct (in_dec Z.eq_dec id_col ck) as [Hid|Hid].
    - right. destruct recs as [|r recs]; [contradiction|].
      rewrite (upd_loop_fail col_values Hcv i r recs uids ucm Hid Hku). split; [reflexivity|].
      split; [exact Hid|]. cbn [s_upds]. intros E. apply app_eq_nil in E. destruct E as [_ E]. discriminate E.
    - left. rewrite (upd_loop_ok col_values Hcv i recs uids ucm Hid Hku). cbn [rbind]. rewrite map_id.
      eexists. split; [reflexivity|]. apply (Rel_upd i recs _ _ _ _ _ _ st' Hid HR'). }
  destruct (lookup e t (row_at i require)) as [|r [|r' rest]] eqn:L; cbn [isnil andb].
  - (* no match *)
    destruct (o_add o) eqn:Ad; cbn [andb]; unfold g_update_part; cbn [isnil negb andb].
    + left. eexists. split; [reflexivity|]. rewrite add_values_valuesM.
      apply (Rel_add i aids acm uids ucm result nidx st HR).
    + left. eexists. split; [reflexivity|]. exact HR.
  - (* one match *)
    unfold g_update_part. cbn [isnil negb andb length Nat.ltb Nat.leb].
    destruct (o_update o) eqn:Up.
    + fold_upd_loop i. apply (Hupd [r] aids acm nidx st); [discriminate|exact HR|reflexivity].
    + left. eexists. split; [reflexivity|]. exact HR.
  - (* several matches *)
    unfold g_update_part. cbn [isnil negb andb length Nat.ltb Nat.leb].
    destruct (o_update o) eqn:Up; [|left; eexists; split; [reflexivity|exact HR]].
    destruct (o_on_many o) eqn:Om; cbn [on_many_eqb firstn]; try contradiction.
    + fold_upd_loop i. apply (Hupd [r] aids acm nidx st); [discriminate|exact HR|reflexivity].
    + left. eexists. split; [reflexivity|]. exact HR.
    + fold_upd_loop i. apply (Hupd (r :: r' :: rest) aids acm nidx st); [discriminate|exact HR|reflexivity].
Qed.

End Sim.

(* ================= after the loop ================= *)
Lemma combine_fst {A B} : forall (l : list A) (m : list B), length l = length m -> map fst (combine l m) = l.
Proof. induction l as [|x l IH]; intros [|y m] H; simpl in *; try discriminate; [reflexivity|]. f_equal. apply IH. lia. Qed.
Lemma combine_snd {A B} : forall (l : list A) (m : list B), length l = length m -> map snd (combine l m) = m.
Proof. induction l as [|x l IH]; intros [|y m] H; simpl in *; try discriminate; [reflexivity|]. f_equal. apply IH. lia. Qed.
Lemma combine_fst_snd {A B} : forall l : list (A * B), combine (map fst l) (map snd l) = l.
Proof. induction l as [|[a b] l IH]; simpl; [reflexivity|]. rewrite IH. reflexivity. Qed.

Lemma new_cells_ext : forall e a b, dget_eq a b -> new_cells e a = new_cells e b.
Proof. intros e a b H. unfold new_cells. apply map_ext. intros ci. rewrite (H (c_id ci)). reflexivity. Qed.

Lemma bulk_add_ext : forall e t (a1 a2 : list add_req), map fst a1 = map fst a2 ->
  Forall2 dget_eq (map snd a1) (map snd a2) -> bulk_add e t a1 = bulk_add e t a2.
Proof.
  intros e t a1 a2 Hf Hs. unfold bulk_add. rewrite Hf.
  match goal with |- context [map ?f a1] => assert (E : map f a1 = map f a2) end.
  { clear Hf. revert a2 Hs. induction a1 as [|x a1 IH]; intros [|y a2] Hs; simpl in Hs; inversion Hs; subst;
      [reflexivity|]. simpl. rewrite (new_cells_ext e (snd x) (snd y)) by assumption. f_equal. apply IH. assumption. }
  rewrite E. reflexivity.
Qed.

Lemma bulk_add_length : forall e t adds t1 ids, bulk_add e t adds = Ok (t1, ids) -> length ids = length adds.
Proof.
  intros e t adds t1 ids. unfold bulk_add, alloc.
  destruct (existsb is_bad (map fst adds)); [discriminate|].
  destruct (validate [] (map fst adds)); [|discriminate].
  destruct (existsb _ _); [discriminate|]. intros H. inversion H; subst. rewrite fill_length. apply map_length.
Qed.

Lemma g_fill_from : forall (nidx : list nat) (new_ids pre : list Z) (result : retval),
  length nidx = length new_ids ->
  for_m (enumerate_from (length pre) nidx) result (fun ix_ result =>
    let result := ret_set_record_ids result (set_nth (snd ix_) [nth (fst ix_) (pre ++ new_ids) 0] (r_record_ids result)) in
    Ok (ret_set_add_ids result (r_add_ids result ++ [nth (fst ix_) (pre ++ new_ids) 0])))
  = Ok {| r_record_ids := fold_left (fun acc (p : nat * Z) => set_nth (fst p) [snd p] acc) (combine nidx new_ids)
                                    (r_record_ids result);
          r_add_ids := r_add_ids result ++ new_ids;
          r_update_ids := r_update_ids result |}.
Proof.
  induction nidx as [|x nidx IH]; intros [|y new_ids] pre result Hl; simpl in Hl; try discriminate.
  - simpl. rewrite app_nil_r. destruct result; reflexivity.
  - cbn [enumerate_from for_m fst snd combine fold_left].
    rewrite app_nth2 by lia. rewrite Nat.sub_diag. cbn [nth].
    replace (pre ++ y :: new_ids) with ((pre ++ [y]) ++ new_ids) by (rewrite <- app_assoc; reflexivity).
    replace (S (length pre)) with (length (pre ++ [y])) by (rewrite app_length; simpl; lia).
    rewrite IH by lia. cbn [ret_set_add_ids ret_set_record_ids r_record_ids r_add_ids r_update_ids].
    rewrite <- app_assoc. reflexivity.
Qed.

Lemma g_fill_spec : forall nidx new_ids result, length nidx = length new_ids ->
  g_fill nidx new_ids result
  = Ok {| r_record_ids := fold_left (fun acc (p : nat * Z) => set_nth (fst p) [snd p] acc) (combine nidx new_ids)
                                    (r_record_ids result);
          r_add_ids := r_add_ids result ++ new_ids;
          r_update_ids := r_update_ids result |}.
Proof. intros. unfold g_fill, py_enumerate. apply (g_fill_from nidx new_ids [] result H). Qed.

Lemma forallb_In_ext {A} (p : A -> bool) : forall l m, (forall x, In x l <-> In x m) -> forallb p l = forallb p m.
Proof.
  intros l m H. apply eq_true_iff_eq. rewrite !forallb_forall. split; intros G x Hx; apply G; apply H; exact Hx.
Qed.

Lemma forallb_map_fst {A} : forall (p : col -> bool) (d : list (col * A)),
  forallb p (map fst d) = forallb (fun q => p (fst q)) d.
Proof. intros p d; induction d as [|q d IH]; simpl; [reflexivity|]. rewrite IH. reflexivity. Qed.

Section Final.
Variables (e : env) (t : table) (o : options) (require col_values : kv).
Hypothesis Hrq : wf_dict require.
Hypothesis Hcv : wf_dict col_values.

Let ck := ck_ col_values.
Let W := forallb (fun p : col * list val => writable e (fst p)) col_values.

(* the model after its loop *)
Definition model_finish (st : lstate) : res (table * retval) :=
  if (negb (isnil (s_adds st)) || negb (isnil (s_upds st))) && negb W then Err EEnv else
  match (if isnil (s_adds st) then Ok (t, []) else bulk_add e t (s_adds st)) with
  | Err x => Err x
  | Ok (t1, new_ids) =>
      Ok (if isnil (s_upds st) then t1 else bulk_update e t1 (s_upds st),
          {| r_record_ids := fold_left (fun acc (p : nat * Z) => set_nth (fst p) [snd p] acc)
                                       (combine (s_new_idx st) new_ids) (s_rec_ids st);
             r_add_ids := new_ids; r_update_ids := s_upd_ids st |})
  end.

Lemma W_ck : forallb (writable e) ck = W.
Proof. unfold W, ck, ck_. apply forallb_map_fst. Qed.

Lemma writable_id : writable e id_col = false.
Proof. unfold writable. rewrite Z.eqb_refl. reflexivity. Qed.

Lemma W_no_id : W = true -> ~ In id_col ck.
Proof.
  intros HW Hin. rewrite <- W_ck in HW. rewrite forallb_forall in HW. specialize (HW _ Hin).
  rewrite writable_id in HW. discriminate.
Qed.

Lemma KA_writable : forallb (writable e) (KA_ e require col_values) = W.
Proof.
  rewrite <- W_ck. apply eq_true_iff_eq. rewrite !forallb_forall. split; intros G k Hk.
  - apply G. unfold KA_. apply set_union_In. left. exact Hk.
  - unfold KA_ in Hk. apply set_union_In in Hk. destruct Hk as [Hk|Hk]; [apply G; exact Hk|].
    apply set_diff_In in Hk. destruct Hk as [Hk Hn]. unfold rak_, add_keys_ in Hk.
    apply in_map_iff in Hk. destruct Hk as [p [E Hp]]. apply filter_In in Hp. destruct Hp as [_ Hs].
    subst k. unfold settable in Hs. unfold writable.
    destruct (Z.eqb_spec (fst p) id_col) as [E|_]; [exfalso; apply Hn; left; symmetry; exact E|]. exact Hs.
Qed.

Lemma finish_eq : forall s st, Rel e require col_values s st ->
  g_finish (oenv_of e) t s = model_finish st.
Proof.
  intros [[[[[aids acm] uids] ucm] result] nidx] st [Ha [Hk [Hrows [Hu [Hku [Hur [Hurows [Hidu [Hres [Hn Hlen]]]]]]]]]].
  unfold g_finish, model_finish. cbn [oe_bulk_add oe_bulk_update oenv_of].
  rewrite Hk, Hku, KA_writable.
  assert (Ea : isnil aids = isnil (s_adds st)) by (rewrite Ha; destruct (s_adds st); reflexivity).
  assert (Eu : isnil uids = isnil (s_upds st)) by (rewrite Hu; destruct (s_upds st); reflexivity).
  rewrite Ea, Eu.
  destruct W eqn:HW; cbn [negb andb].
  - (* all value columns accept data *)
    rewrite andb_false_r.
    pose proof (W_no_id HW) as Hid. destruct (Hrows Hid) as [Hr HF].
    assert (KUw : forallb (writable e) (KU_ col_values) = true).
    { unfold KU_. rewrite (set_diff_id (ck_ col_values) id_col Hid). fold ck. rewrite W_ck. exact HW. }
    rewrite KUw.
    assert (Eupd : forall t1, bulk_update e t1 (combine uids (cm_rows ucm (length uids))) = bulk_update e t1 (s_upds st)).
    { intros t1. f_equal.
      assert (L : length uids = length (s_upds st)) by (rewrite Hu; apply map_length).
      rewrite L. etransitivity; [|apply combine_fst_snd]. f_equal; [exact Hu|exact Hurows]. }
    destruct (s_adds st) as [|a0 adds] eqn:Ads; cbn [isnil negb].
    + (* nothing to add *)
      destruct (s_new_idx st) as [|? ?]; [|discriminate Hlen]. cbn [combine fold_left].
      destruct (isnil (s_upds st)); cbn [negb rbind]; rewrite Hres; [reflexivity|]. rewrite Eupd. reflexivity.
    + rewrite <- Ads in *. 
      assert (Eadd : bulk_add e t (combine aids (cm_rows acm (length aids))) = bulk_add e t (s_adds st)).
      { apply bulk_add_ext.
        - rewrite combine_fst; [exact Ha|]. unfold cm_rows. rewrite map_length, seq_length. reflexivity.
        - rewrite combine_snd by (unfold cm_rows; rewrite map_length, seq_length; reflexivity).
          rewrite Ha, map_length. exact HF. }
      rewrite Eadd. destruct (bulk_add e t (s_adds st)) as [[t1 new_ids]|x] eqn:BA; [|reflexivity]. cbn [rbind].
      rewrite g_fill_spec by (rewrite Hn, Hlen; symmetry; apply (bulk_add_length e t _ t1 new_ids BA)).
      cbn [rbind]. rewrite Hres, Hn. cbn [r_record_ids r_add_ids r_update_ids app].
      destruct (isnil (s_upds st)); cbn [negb rbind]; [reflexivity|]. rewrite Eupd. reflexivity.
  - (* some value column does not accept data *)
    rewrite andb_true_r.
    destruct (s_adds st) as [|a0 adds] eqn:Ads; cbn [isnil negb orb rbind]; [|reflexivity].
    destruct (s_upds st) as [|u0 upds] eqn:Ups; cbn [isnil negb].
    + destruct (s_new_idx st) as [|? ?]; [|discriminate Hlen]. rewrite Hres. reflexivity.
    + assert (Hid : ~ In id_col ck) by (intros H; specialize (Hidu H); discriminate Hidu).
      unfold KU_. rewrite (set_diff_id (ck_ col_values) id_col Hid). fold ck. rewrite W_ck, HW. reflexivity.
Qed.

End Final.

(* ================= Step 2: the mirror over the modelled environment is the model ================= *)
Lemma match_om {A} : forall (om : on_many) (a b : A),
  (match om with OnBad => a | _ => b end)
  = if negb (existsb (on_many_eqb om) [OnFirst; OnNone; OnAll]) then a else b.
Proof. intros [] a b; reflexivity. Qed.

Lemma cm_new_keys : forall keys, map fst (cm_new keys) = keys.
Proof. intros. unfold cm_new. rewrite map_map. cbn [fst]. apply map_id. Qed.

Lemma cm_new_rect : forall keys, cm_rect (cm_new keys) 0.
Proof. intros. unfold cm_rect, cm_new. apply Forall_forall. intros p H. apply in_map_iff in H. destruct H as [k [<- _]]. reflexivity. Qed.

Theorem mirror_is_model : forall e t require col_values o,
  wf_dict require -> wf_dict col_values ->
  cm_upsert (oenv_of e) t require col_values o = upsert e t require col_values o.
Proof.
  intros e t require col_values o Hrq Hcv. unfold cm_upsert, upsert. rewrite match_om.
  destruct (negb (existsb (on_many_eqb (o_on_many o)) [OnFirst; OnNone; OnAll])) eqn:C; [reflexivity|].
  assert (Hbad : o_on_many o <> OnBad) by (intros E; rewrite E in C; discriminate C).
  rewrite !negb_involutive.
  destruct (isnil require && negb (o_allow_empty o)); [reflexivity|].
  destruct (isnil require && isnil col_values); [reflexivity|].
  destruct (dedup Nat.eqb (map (@length val) (all_lists require col_values))) as [|len [|? ?]]; try reflexivity.
  destruct (negb (isnil require) && _); [reflexivity|].
  rewrite filter_settable. destruct (forallb (fun p => known e (fst p)) require); cbn [negb rbind]; [|reflexivity].
  fold (add_keys_ e require). fold (rak_ e require).
  unfold py_set. rewrite (dedup_nodup _ (rak_nodup e require Hrq)), (dedup_nodup _ Hcv).
  fold (ck_ col_values). fold (KA_ e require col_values). fold (KU_ col_values).
  unfold upsert_core. cbn zeta. fold (add_keys_ e require).
  pose (st0 := {| s_adds := []; s_new_idx := []; s_upds := []; s_rec_ids := repeat [] len; s_upd_ids := [] |}).
  pose (s0 := ([], cm_new (KA_ e require col_values), [], cm_new (KU_ col_values),
              ret_set_record_ids empty_ret (repeat [] len), []) : S6).
  assert (R0 : Rel e require col_values s0 st0).
  { unfold Rel, s0, st0. cbn [s_adds s_new_idx s_upds s_rec_ids s_upd_ids map length].
    rewrite !cm_new_keys.
    refine (conj eq_refl (conj eq_refl (conj _ (conj eq_refl (conj eq_refl (conj (cm_new_rect _) (conj eq_refl
             (conj (fun _ => eq_refl) (conj eq_refl (conj eq_refl eq_refl)))))))))).
    intros _. split; [apply cm_new_rect|constructor]. }
  destruct (for_m_sim (Rel e require col_values) (BadSt col_values)
              (g_body (oenv_of e) require col_values (o_update o) (o_add o) (o_on_many o) (rak_ e require) t)
              (loop_body e t o require (add_keys_ e require) col_values)
              (BadSt_mono e t o require col_values Hbad) (seq 0 len) s0 st0
              (fun x s s' _ HR => body_step e t o require col_values Hrq Hcv Hbad x s s' HR) R0)
    as [[sN [E HR]]|[E HB]];
    (match goal with |- rbind ?m _ = _ =>
       replace m with (for_m (seq 0 len) s0
                         (g_body (oenv_of e) require col_values (o_update o) (o_add o) (o_on_many o) (rak_ e require) t))
         by reflexivity end);
    rewrite E; cbn [rbind].
  - rewrite (finish_eq e t require col_values sN _ HR). reflexivity.
  - destruct HB as [Hid Hne].
    destruct (forallb (fun p => writable e (fst p)) col_values) eqn:HW.
    + exfalso. apply (W_no_id e col_values HW). exact Hid.
    + match goal with |- Err EEnv = if ?c then _ else _ => replace c with true; [reflexivity|] end.
      assert (Hn : forall l : list upd, l <> [] -> negb (isnil l) = true) by (intros [|? ?] H; [contradiction|reflexivity]).
      unfold st0 in Hne. symmetry. rewrite (Hn _ Hne). rewrite orb_true_r. reflexivity.
Qed.

Lemma single_kv_keys : forall d : cells, map fst (single_kv d) = map fst d.
Proof. intros. unfold single_kv. rewrite map_map. reflexivity. Qed.

Theorem mirror_single_is_model : forall e t require col_values o,
  wf_dict require -> wf_dict col_values ->
  cm_upsert_single (oenv_of e) t require col_values o = upsert_single e t require col_values o.
Proof.
  intros e t require col_values o Hrq Hcv. unfold cm_upsert_single, upsert_single. rewrite !negb_involutive.
  destruct (isnil require && isnil col_values); [reflexivity|].
  rewrite mirror_is_model by (unfold wf_dict; rewrite single_kv_keys; assumption).
  destruct (upsert e t (single_kv require) (single_kv col_values) o) as [[t' r]|x]; [|reflexivity]. cbn [rbind].
  destruct (r_record_ids r) as [|ids rest]; [reflexivity|]. cbn [length Nat.eqb orb nth].
  destruct (r_update_ids r); [|reflexivity]. destruct (r_add_ids r); reflexivity.
Qed.

(* ================= the theorems about the regenerated code ================= *)
Theorem gen_refines_reference : forall e t require col_values o,
  wf_dict require -> wf_dict col_values ->
  gen_upsert (oenv_of e) t require col_values o = ref_upsert e t require col_values o.
Proof. intros. rewrite gen_upsert_is_mirror, mirror_is_model by assumption. apply upsert_eq. Qed.

Theorem gen_single_refines_reference : forall e t require col_values o,
  wf_dict require -> wf_dict col_values ->
  gen_upsert_single (oenv_of e) t require col_values o = ref_single e t require col_values o.
Proof. intros. rewrite gen_upsert_single_is_mirror, mirror_single_is_model by assumption. apply single_eq. Qed.

Theorem gen_arg_errors_reject : forall e t require col_values o x,
  wf_dict require -> wf_dict col_values ->
  arg_error require col_values o = Some x ->
  gen_upsert (oenv_of e) t require col_values o = Err x /\
  table_after t (gen_upsert (oenv_of e) t require col_values o) = t.
Proof.
  intros e t require col_values o x Hrq Hcv H.
  rewrite gen_upsert_is_mirror, mirror_is_model by assumption. apply arg_error_rejects. exact H.
Qed.
