(* C28 -- bridge between the code of BulkAddOrUpdateRecord / AddOrUpdateRecord as REGENERATED from useractions.py
   (GristGen.Upsert_gen, written by harness/up2v.py on every run) and the hand model Model/Upsert.v.
   Step 1 (gen_upsert_is_mirror): the generated function is convertible with a hand-written, structured mirror
          `cm_upsert` of the same column-major computation -- any semantic edit of the source breaks this proof.
   Step 2 (mirror_is_model): the mirror, with the opaque environment instantiated by the models of lookup,
          BulkAddRecord and BulkUpdateRecord, equals the row-major model `upsert` on well-formed dicts. *)
From Coq Require Import ZArith List Bool Lia Arith.
Import ListNotations.
Require Import Grist.Model.Upsert Grist.Lib.UpsertPrelude Grist.Proofs.Upsert_proofs GristGen.Upsert_gen.
Open Scope Z_scope.

(* ================= the structured mirror ================= *)
Section Mirror.
Variable oe : oenv.

Definition S6 := (list (option val) * kv * list Z * kv * retval * list nat)%type.

(* not (col.is_formula() and <metadata formula>) *)
Definition g_settable (key : col) : res bool :=
  rbind (oe_is_formula oe key) (fun b => Ok (negb ((b) && (oe_rec_formula oe key)))).

(* for key, vals in d.items(): m[key].append(vals[i])   /   for key, value in d.items(): m[key].append(value) *)
Definition g_cm_row (i : nat) (d : kv) (m : kv) : res kv :=
  for_m d m (fun kv_ m => rbind (cm_append m (fst kv_) (nth i (snd kv_) VNone)) (fun m => Ok m)).
Definition g_cm_cells (d : cells) (m : kv) : res kv :=
  for_m d m (fun kv_ m => rbind (cm_append m (fst kv_) (snd kv_)) (fun m => Ok m)).

(* `if not records and add:` ... followed by k *)
Definition g_add_part (require col_values : kv) (add : bool) (rak : list col) (i : nat) (records : list Z)
    (aids : list (option val)) (acm : kv) (nidx : list nat)
    (k : list (option val) * kv * list nat -> res S6) : res S6 :=
  if (negb (negb (isnil records))) && add then
    rbind (map_m (fun key => rbind (kv_lookup require key) (fun l => Ok (key, nth i l VNone))) rak) (fun d =>
      let values := dict_update d (row_at i col_values) in
      let '(popped, values) := dict_pop values id_col in
      let aids := aids ++ [popped] in
      rbind (g_cm_cells values acm) (fun acm => k (aids, acm, nidx ++ [i])))
  else k (aids, acm, nidx).

(* `if records and update:` ... followed by k; `continue` = skip *)
Definition g_update_part (col_values : kv) (update : bool) (om : on_many) (i : nat) (records : list Z)
    (uids : list Z) (ucm : kv) (result : retval) (skip : res S6)
    (k : list Z * kv * retval * list Z -> res S6) : res S6 :=
  if (negb (isnil records)) && update then
    let k10 := fun records : list Z =>
      rbind (for_m records (uids, ucm) (fun record '(uids, ucm) =>
               rbind (g_cm_row i col_values ucm) (fun ucm => Ok (uids ++ [record], ucm))))
            (fun '(uids, ucm) =>
               let matched := map (fun record : Z => record) records in
               let result := ret_set_record_ids result (set_nth i matched (r_record_ids result)) in
               let result := ret_set_update_ids result (r_update_ids result ++ [matched]) in
               k (uids, ucm, result, records)) in
    if (1 <? length records)%nat then
      if on_many_eqb om OnFirst then k10 (firstn 1 records)
      else if on_many_eqb om OnNone then skip else k10 records
    else k10 records
  else k (uids, ucm, result, records).

Definition g_body (require col_values : kv) (update add : bool) (om : on_many) (rak : list col) (t : table)
    (i : nat) (s : S6) : res S6 :=
  let '(aids, acm, uids, ucm, result, nidx) := s in
  let records := oe_lookup oe t (row_at i require) in
  g_add_part require col_values add rak i records aids acm nidx (fun '(aids, acm, nidx) =>
    g_update_part col_values update om i records uids ucm result
      (Ok (aids, acm, uids, ucm, result, nidx))
      (fun '(uids, ucm, result, records) => Ok (aids, acm, uids, ucm, result, nidx))).

Definition g_fill (nidx : list nat) (new_ids : list Z) (result : retval) : res retval :=
  for_m (py_enumerate nidx) result (fun ix_ result =>
    let result := ret_set_record_ids result (set_nth (snd ix_) [nth (fst ix_) new_ids 0] (r_record_ids result)) in
    Ok (ret_set_add_ids result (r_add_ids result ++ [nth (fst ix_) new_ids 0]))).

Definition g_finish (t : table) (s : S6) : res (table * retval) :=
  let '(aids, acm, uids, ucm, result, nidx) := s in
  let k15 := fun '(t, result) =>
    if negb (isnil uids) then rbind (oe_bulk_update oe t uids ucm) (fun t => Ok (t, result)) else Ok (t, result) in
  if negb (isnil aids) then
    rbind (oe_bulk_add oe t aids acm) (fun '(t, new_ids) =>
      rbind (g_fill nidx new_ids result) (fun result => k15 (t, result)))
  else k15 (t, result).

Definition cm_upsert (t : table) (require col_values : kv) (opts : options) : res (table * retval) :=
  if negb (existsb (on_many_eqb (o_on_many opts)) [OnFirst; OnNone; OnAll]) then Err EOnMany else
  if (negb (negb (isnil require))) && negb (o_allow_empty opts) then Err EEmptyRequire else
  if (negb (negb (isnil require))) && (negb (negb (isnil col_values))) then Ok (t, empty_ret) else
  match dedup Nat.eqb (map (@length val) (all_lists require col_values)) with
  | [len] =>
      if (negb (isnil require))
         && (length (dedup (list_eqb val_eqb) (map (fun i => map snd (row_at i require)) (seq 0 len))) <? len)%nat
      then Err EUnique else
      rbind (filter_m g_settable (map fst require)) (fun s =>
        let rak := py_set s in
        let col_keys := py_set (map fst col_values) in
        rbind (for_m (seq 0 len)
                 ([], cm_new (set_union col_keys (set_diff rak [id_col])), [], cm_new (set_diff col_keys [id_col]),
                  ret_set_record_ids empty_ret (repeat [] len), [])
                 (g_body require col_values (o_update opts) (o_add opts) (o_on_many opts) rak t))
              (g_finish t))
  | _ => Err ELengths
  end.

Definition cm_upsert_single (t : table) (require col_values : cells) (opts : options)
  : res (table * (list Z * action)) :=
  if (negb (negb (isnil require))) && (negb (negb (isnil col_values))) then Ok (t, ([], ANone)) else
  rbind (cm_upsert t (single_kv require) (single_kv col_values) opts) (fun '(t, result) =>
    if ((length (r_record_ids result) =? 0)%nat) || false then Ok (t, ([], ANone)) else
    let ids := nth 0%nat (r_record_ids result) [] in
    if (0 <? length (r_update_ids result))%nat then Ok (t, (ids, AUpdate))
    else if (0 <? length (r_add_ids result))%nat then Ok (t, (ids, AAdd)) else Ok (t, (ids, ANone))).

(* Step 1: the regenerated code IS the mirror (by computation: beta, zeta, unfolding). *)
Lemma gen_upsert_is_mirror : forall t require col_values opts,
  gen_upsert oe t require col_values opts = cm_upsert t require col_values opts.
Proof. intros. reflexivity. Qed.

End Mirror.

Lemma gen_upsert_single_is_mirror : forall oe t require col_values opts,
  gen_upsert_single oe t require col_values opts = cm_upsert_single oe t require col_values opts.
Proof. intros. reflexivity. Qed.

(* ================= the opaque environment, instantiated by the models ================= *)
Definition cm_rows (m : kv) (n : nat) : list cells := map (fun j => row_at j m) (seq 0 n).

Definition oenv_of (e : env) : oenv := {|
  oe_is_formula := fun c => if known e c then Ok (negb (settable e c)) else Err EEnv;
  oe_has_formula := fun c => if known e c then Ok (negb (settable e c)) else Err EEnv;
  oe_rec_formula := fun _ => true;
  oe_lookup := fun t req => lookup e t req;
  (* _ensure_column_accepts_data on every named column, then the record action on the rows of the column dict *)
  oe_bulk_add := fun t ids m =>
    if forallb (writable e) (map fst m) then bulk_add e t (combine ids (cm_rows m (length ids))) else Err EEnv;
  oe_bulk_update := fun t ids m =>
    if forallb (writable e) (map fst m) then Ok (bulk_update e t (combine ids (cm_rows m (length ids)))) else Err EEnv
|}.

Definition wf_dict {A} (d : list (col * A)) : Prop := NoDup (map fst d).

(* ---------- generic facts ---------- *)
Lemma rbind_ok {A B} : forall (a : A) (k : A -> res B), rbind (Ok a) k = k a.
Proof. reflexivity. Qed.

(* a loop that either keeps an invariant with a pure model of the iteration or fails into a "bad" model state *)
Lemma for_m_sim {X S S'} (R : S -> S' -> Prop) (Bad : S' -> Prop) (body : X -> S -> res S) (f : S' -> X -> S') :
  (forall s' x, Bad s' -> Bad (f s' x)) ->
  forall l s s',
  (forall x s s', In x l -> R s s' ->
     (exists s2, body x s = Ok s2 /\ R s2 (f s' x)) \/ (body x s = Err EEnv /\ Bad (f s' x))) ->
  R s s' ->
  (exists sN, for_m l s body = Ok sN /\ R sN (fold_left f l s')) \/
  (for_m l s body = Err EEnv /\ Bad (fold_left f l s')).
Proof.
  intros Hbad l; induction l as [|x l IH]; intros s s' Hstep HR; simpl.
  - left. exists s. auto.
  - destruct (Hstep x s s' (or_introl eq_refl) HR) as [[s2 [E R2]]|[E B]]; rewrite E.
    + apply IH; [|exact R2]. intros y a b Hy. apply Hstep. right; exact Hy.
    + right. split; [reflexivity|]. clear - Hbad B. revert B. generalize (f s' x). induction l; simpl; auto.
Qed.

Lemma memz_false_notin : forall x l, memz x l = false <-> ~ In x l.
Proof. intros. rewrite <- memz_In. destruct (memz x l); split; intros; congruence. Qed.

Lemma dedup_nodup : forall l : list Z, NoDup l -> dedup Z.eqb l = l.
Proof.
  induction l as [|x l IH]; intros H; simpl; [reflexivity|]. inversion H; subst.
  fold (memz x l). replace (memz x l) with false by (symmetry; apply memz_false_notin; assumption).
  rewrite IH; auto.
Qed.

Lemma NoDup_map_filter {A} (p : col * A -> bool) : forall d : list (col * A),
  NoDup (map fst d) -> NoDup (map fst (filter p d)).
Proof.
  induction d as [|x d IH]; simpl; intros H; [constructor|]. inversion H; subst.
  destruct (p x); simpl; [constructor|]; auto.
  intros Hin. apply H2. apply in_map_iff in Hin. destruct Hin as [y [E Hy]]. apply filter_In in Hy.
  rewrite <- E. apply in_map. tauto.
Qed.

(* the set comprehension for require_add_keys *)
Lemma filter_settable : forall e (require : kv),
  filter_m (g_settable (oenv_of e)) (map fst require)
  = if forallb (fun p => known e (fst p)) require
    then Ok (map fst (filter (fun p => settable e (fst p)) require)) else Err EEnv.
Proof.
  intros e require; induction require as [|[k l] d IH]; [reflexivity|].
  cbn [map fst filter_m forallb filter]. unfold g_settable at 1. cbn [oenv_of oe_is_formula oe_rec_formula].
  destruct (known e k); cbn [rbind andb]; [|reflexivity].
  rewrite IH. destruct (forallb (fun p => known e (fst p)) d); [|reflexivity].
  rewrite andb_true_r, negb_involutive. destruct (settable e k); reflexivity.
Qed.

(* ---------- dicts as association lists with unique keys ---------- *)
Definition dget_eq (a b : cells) : Prop := forall c, dget c a = dget c b.

Lemma get_notin : forall c (d : cells), ~ In c (map fst d) -> get c d = None.
Proof.
  intros c d; induction d as [|[k v] d IH]; simpl; intros H; [reflexivity|].
  destruct (Z.eqb_spec k c) as [->|_]; [exfalso; apply H; left; reflexivity|]. apply IH. intros Hin; apply H; right; exact Hin.
Qed.

Lemma get_in : forall c (d : cells), In c (map fst d) -> exists v, get c d = Some v.
Proof.
  intros c d; induction d as [|[k v] d IH]; simpl; intros H; [destruct H|].
  destruct (Z.eqb_spec k c) as [->|Hne]; [exists v; reflexivity|]. destruct H as [H|H]; [contradiction|]. apply IH; exact H.
Qed.

Lemma dget_notin : forall c (d : cells), ~ In c (map fst d) -> dget c d = None.
Proof.
  intros c d; induction d as [|[k v] d IH]; simpl; intros H; [reflexivity|].
  rewrite IH by (intros Hin; apply H; right; exact Hin).
  destruct (Z.eqb_spec k c) as [->|_]; [exfalso; apply H; left; reflexivity|reflexivity].
Qed.

Lemma dget_get : forall c (d : cells), NoDup (map fst d) -> dget c d = get c d.
Proof.
  intros c d; induction d as [|[k v] d IH]; simpl; intros H; [reflexivity|]. inversion H; subst.
  destruct (Z.eqb_spec k c) as [->|Hne].
  - rewrite dget_notin by assumption. reflexivity.
  - rewrite IH by assumption. destruct (get c d); reflexivity.
Qed.

Lemma dget_app : forall c (a b : cells),
  dget c (a ++ b) = match dget c b with Some v => Some v | None => dget c a end.
Proof.
  intros c a b; induction a as [|[k v] a IH]; simpl; [destruct (dget c b); reflexivity|].
  rewrite IH. destruct (dget c b); [reflexivity|]. reflexivity.
Qed.

Lemma dict_set_get : forall c (d : cells) k v, get c (dict_set d k v) = if k =? c then Some v else get c d.
Proof.
  intros c d k v; induction d as [|[k' v'] d IH]; simpl.
  - destruct (k =? c); reflexivity.
  - destruct (Z.eqb_spec k' k) as [->|Hne]; simpl.
    + destruct (k =? c); reflexivity.
    + rewrite IH. destruct (Z.eqb_spec k' c) as [->|Hc]; [|reflexivity].
      destruct (Z.eqb_spec k c); [congruence|reflexivity].
Qed.

Lemma dict_set_keys : forall (d : cells) k v,
  map fst (dict_set d k v) = if memz k (map fst d) then map fst d else map fst d ++ [k].
Proof.
  intros d k v; induction d as [|[k' v'] d IH]; simpl; [reflexivity|].
  unfold memz; simpl. fold (memz k (map fst d)). rewrite (Z.eqb_sym k k').
  destruct (Z.eqb_spec k' k) as [->|Hne]; simpl; [reflexivity|]. rewrite IH.
  destruct (memz k (map fst d)); reflexivity.
Qed.

Lemma NoDup_snoc {A} : forall (l : list A) x, NoDup l -> ~ In x l -> NoDup (l ++ [x]).
Proof.
  induction l as [|y l IH]; intros x H Hx; simpl; [constructor; [intros []|constructor]|].
  inversion H; subst. constructor.
  - intros Hin. apply in_app_or in Hin. destruct Hin as [Hin|[->|[]]]; [contradiction|apply Hx; left; reflexivity].
  - apply IH; [assumption|intros Hin; apply Hx; right; exact Hin].
Qed.

Lemma dict_set_nodup : forall (d : cells) k v, NoDup (map fst d) -> NoDup (map fst (dict_set d k v)).
Proof.
  intros d k v H. rewrite dict_set_keys. destruct (memz k (map fst d)) eqn:M; [exact H|].
  apply memz_false_notin in M. apply NoDup_snoc; assumption.
Qed.

Lemma dict_update_spec : forall (b a : cells), NoDup (map fst a) ->
  NoDup (map fst (dict_update a b)) /\
  (forall c, get c (dict_update a b) = match dget c b with Some v => Some v | None => get c a end) /\
  (forall c, In c (map fst (dict_update a b)) <-> In c (map fst a) \/ In c (map fst b)).
Proof.
  unfold dict_update. induction b as [|[k v] b IH]; intros a Ha; simpl.
  - repeat split; auto. intros [H|[]]; exact H.
  - destruct (IH (dict_set a k v) (dict_set_nodup a k v Ha)) as [N [G K]]. split; [exact N|]. split.
    + intros c. rewrite G, dict_set_get. destruct (dget c b); [reflexivity|]. destruct (k =? c); reflexivity.
    + intros c. rewrite K, dict_set_keys. destruct (memz k (map fst a)) eqn:M.
      * apply memz_In in M. split; [intros [H|H]; auto|intros [H|[H|H]]; auto]. subst; auto.
      * rewrite in_app_iff. simpl. split; [intros [[H|[H|[]]]|H]; auto|intros [H|[H|H]]; auto].
Qed.

(* ---------- appending one row to a dict of columns ---------- *)
Definition grow (vals : cells) (p : col * list val) : col * list val :=
  match get (fst p) vals with Some v => (fst p, snd p ++ [v]) | None => p end.

Lemma cm_append_spec : forall (m : kv) k v, In k (map fst m) -> NoDup (map fst m) ->
  cm_append m k v = Ok (map (fun p => if fst p =? k then (fst p, snd p ++ [v]) else p) m).
Proof.
  induction m as [|[k' l] m IH]; intros k v Hin Hnd; [destruct Hin|]. simpl in *. inversion Hnd; subst.
  destruct (Z.eqb_spec k' k) as [->|Hne].
  - f_equal. f_equal. rewrite <- (map_id m) at 1. apply map_ext_in. intros [k2 l2] Hp2. simpl.
    destruct (Z.eqb_spec k2 k) as [->|_]; [|reflexivity]. exfalso. apply H1. apply (in_map fst) in Hp2. exact Hp2.
  - destruct Hin as [E|Hin]; [contradiction|]. rewrite (IH k v Hin H2). reflexivity.
Qed.

Lemma cm_append_notin : forall (m : kv) k v, ~ In k (map fst m) -> cm_append m k v = Err EEnv.
Proof.
  induction m as [|[k' l] m IH]; intros k v H; [reflexivity|]. simpl in *.
  destruct (Z.eqb_spec k' k) as [->|Hne]; [exfalso; apply H; left; reflexivity|].
  rewrite IH; [reflexivity|]. intros Hin; apply H; right; exact Hin.
Qed.

Definition upd_col (k : col) (v : val) (p : col * list val) : col * list val :=
  if fst p =? k then (fst p, snd p ++ [v]) else p.
Lemma upd_col_keys : forall (m : kv) k v, map fst (map (upd_col k v) m) = map fst m.
Proof. intros. rewrite map_map. apply map_ext. intros p. unfold upd_col. destruct (fst p =? k); reflexivity. Qed.
Lemma cm_append_spec' : forall (m : kv) k v, In k (map fst m) -> NoDup (map fst m) ->
  cm_append m k v = Ok (map (upd_col k v) m).
Proof. intros. apply cm_append_spec; assumption. Qed.

Lemma g_cm_cells_spec : forall (vals : cells) (m : kv),
  NoDup (map fst vals) -> NoDup (map fst m) -> (forall k, In k (map fst vals) -> In k (map fst m)) ->
  g_cm_cells vals m = Ok (map (grow vals) m).
Proof.
  unfold g_cm_cells. induction vals as [|[k v] vals IH]; intros m Hv Hm Hsub.
  - simpl. f_equal. symmetry. rewrite <- (map_id m) at 2. apply map_ext. intros p. reflexivity.
  - simpl in Hv. inversion Hv; subst. cbn [for_m fst snd].
    rewrite (cm_append_spec' m k v (Hsub k (or_introl eq_refl)) Hm). cbn [rbind].
    rewrite (IH (map (upd_col k v) m) H2);
      [| rewrite upd_col_keys; exact Hm | intros k' Hk'; rewrite upd_col_keys; apply Hsub; right; exact Hk'].
    f_equal. rewrite map_map. apply map_ext. intros [k' l]. unfold grow, upd_col. cbn [fst snd get].
    destruct (Z.eqb_spec k' k) as [->|Hne].
    + rewrite Z.eqb_refl. cbn [fst snd]. rewrite (get_notin k vals H1). reflexivity.
    + destruct (Z.eqb_spec k k'); [congruence|]. reflexivity.
Qed.

Lemma for_m_map {X Y S} : forall (f : X -> Y) (l : list X) (s : S) (body : Y -> S -> res S),
  for_m (map f l) s body = for_m l s (fun x => body (f x)).
Proof. intros f l; induction l as [|x l IH]; intros s body; simpl; [reflexivity|]. destruct (body (f x) s); auto. Qed.

Lemma g_cm_row_cells : forall i (d : kv) m, g_cm_row i d m = g_cm_cells (row_at i d) m.
Proof. intros. unfold g_cm_row, g_cm_cells, row_at. rewrite for_m_map. reflexivity. Qed.

(* a failing append (key absent) makes the whole row fail *)
Lemma g_cm_cells_fail : forall (vals : cells) (m : kv) k,
  NoDup (map fst m) -> In k (map fst vals) -> ~ In k (map fst m) -> g_cm_cells vals m = Err EEnv.
Proof.
  unfold g_cm_cells. induction vals as [|[k' v] vals IH]; intros m k Hm Hin Hk; [destruct Hin|].
  cbn [for_m fst snd]. destruct (in_dec Z.eq_dec k' (map fst m)) as [Hi|Hn].
  - rewrite (cm_append_spec' m k' v Hi Hm). cbn [rbind]. simpl in Hin. destruct Hin as [->|Hin]; [contradiction|].
    apply (IH (map (upd_col k' v) m) k); [rewrite upd_col_keys; exact Hm | exact Hin | rewrite upd_col_keys; exact Hk].
  - rewrite (cm_append_notin m k' v Hn). reflexivity.
Qed.

Definition cm_rect (m : kv) (n : nat) : Prop := Forall (fun p => length (snd p) = n) m.

Lemma grow_keys : forall vals m, map fst (map (grow vals) m) = map fst m.
Proof. intros. rewrite map_map. apply map_ext. intros p. unfold grow. destruct (get (fst p) vals); reflexivity. Qed.

Lemma grow_rect : forall vals m n, cm_rect m n -> (forall k, In k (map fst m) -> In k (map fst vals)) ->
  cm_rect (map (grow vals) m) (S n).
Proof.
  intros vals m n Hr Hsub. unfold cm_rect in *. rewrite Forall_forall in *. intros q Hq.
  apply in_map_iff in Hq. destruct Hq as [p [<- Hp]]. unfold grow.
  destruct (get_in (fst p) vals (Hsub _ (in_map fst _ _ Hp))) as [v ->]. cbn [snd].
  rewrite app_length, (Hr p Hp). simpl. lia.
Qed.

Lemma grow_old_rows : forall vals m n j, cm_rect m n -> (j < n)%nat -> row_at j (map (grow vals) m) = row_at j m.
Proof.
  intros vals m n j Hr Hj. unfold row_at. rewrite map_map. apply map_ext_in. intros p Hp.
  unfold cm_rect in Hr. rewrite Forall_forall in Hr. specialize (Hr p Hp). unfold grow.
  destruct (get (fst p) vals); [|reflexivity]. cbn [fst snd]. rewrite app_nth1 by lia. reflexivity.
Qed.

Lemma grow_new_row : forall vals m n c, cm_rect m n -> NoDup (map fst m) ->
  (forall k, In k (map fst m) <-> In k (map fst vals)) ->
  dget c (row_at n (map (grow vals) m)) = get c vals.
Proof.
  intros vals m n c Hr Hnd Hkeys.
  assert (Hrow : row_at n (map (grow vals) m)
                 = map (fun p => (fst p, match get (fst p) vals with Some v => v | None => VNone end)) m).
  { unfold row_at. rewrite map_map. apply map_ext_in. intros p Hp.
    unfold cm_rect in Hr. rewrite Forall_forall in Hr. specialize (Hr p Hp). unfold grow.
    destruct (get_in (fst p) vals (proj1 (Hkeys _) (in_map fst _ _ Hp))) as [v ->]. cbn [fst snd].
    rewrite app_nth2 by lia. rewrite Hr, Nat.sub_diag. reflexivity. }
  rewrite Hrow. rewrite dget_get by (rewrite map_map; cbn [fst]; exact Hnd).
  destruct (in_dec Z.eq_dec c (map fst m)) as [Hi|Hn].
  - destruct (get_in c vals (proj1 (Hkeys c) Hi)) as [v G]. rewrite G.
    clear - Hi G. induction m as [|[k l] m IH]; [destruct Hi|]. simpl in *.
    destruct (Z.eqb_spec k c) as [->|Hne]; [rewrite G; reflexivity|].
    destruct Hi as [E|Hi]; [contradiction|]. apply IH; assumption.
  - rewrite get_notin by (rewrite map_map; cbn [fst]; exact Hn).
    symmetry. apply get_notin. intros H. apply Hn. apply Hkeys. exact H.
Qed.

(* ---------- sets of columns ---------- *)
Lemma set_union_In : forall a b k, In k (set_union a b) <-> In k a \/ In k b.
Proof.
  intros a b k. unfold set_union. rewrite in_app_iff, filter_In. split.
  - intros [H|[H _]]; auto.
  - intros [H|H]; auto. destruct (in_dec Z.eq_dec k a) as [Hi|Hn]; [left; exact Hi|right].
    split; [exact H|]. apply negb_true_iff. apply memz_false_notin. exact Hn.
Qed.

Lemma set_diff_In : forall a b k, In k (set_diff a b) <-> In k a /\ ~ In k b.
Proof.
  intros a b k. unfold set_diff. rewrite filter_In, negb_true_iff, memz_false_notin. reflexivity.
Qed.

Lemma NoDup_filter {A} (p : A -> bool) : forall l, NoDup l -> NoDup (filter p l).
Proof.
  induction l as [|x l IH]; simpl; intros H; [constructor|]. inversion H; subst.
  destruct (p x); [constructor|]; auto. intros Hin. apply filter_In in Hin. tauto.
Qed.


Lemma nodup_app {A} : forall a b : list A, NoDup a -> NoDup b -> (forall x, In x a -> ~ In x b) -> NoDup (a ++ b).
Proof.
  induction a as [|x a IH]; intros b Ha Hb Hd; simpl; [exact Hb|]. inversion Ha; subst. constructor.
  - intros Hin. apply in_app_or in Hin. destruct Hin as [Hin|Hin]; [contradiction|]. apply (Hd x (or_introl eq_refl) Hin).
  - apply IH; auto. intros y Hy. apply Hd. right; exact Hy.
Qed.

Lemma set_union_nodup : forall a b, NoDup a -> NoDup b -> NoDup (set_union a b).
Proof.
  intros a b Ha Hb. unfold set_union. apply nodup_app; [exact Ha|apply NoDup_filter; exact Hb|].
  intros x Hx Hin. apply filter_In in Hin. destruct Hin as [_ Hn]. apply negb_true_iff in Hn.
  apply memz_false_notin in Hn. contradiction.
Qed.

Lemma set_diff_nodup : forall a b, NoDup a -> NoDup (set_diff a b).
Proof. intros. apply NoDup_filter. assumption. Qed.

Lemma set_diff_id : forall a k, ~ In k a -> set_diff a [k] = a.
Proof.
  intros a k H. unfold set_diff. induction a as [|x a IH]; simpl; [reflexivity|].
  unfold memz; simpl. destruct (Z.eqb_spec x k) as [->|_]; [exfalso; apply H; left; reflexivity|].
  simpl. rewrite IH; [reflexivity|]. intros Hin; apply H; right; exact Hin.
Qed.

Lemma row_at_length : forall i (d : kv), length (row_at i d) = length d.
Proof. intros. unfold row_at. apply map_length. Qed.

(* ---------- d[key] over the keys of a sub-dict ---------- *)
Lemma kv_lookup_in : forall (d : kv) k l, NoDup (map fst d) -> In (k, l) d -> kv_lookup d k = Ok l.
Proof.
  induction d as [|[k' l'] d IH]; intros k l Hnd Hin; [destruct Hin|]. simpl in *. inversion Hnd; subst.
  destruct Hin as [E|Hin].
  - inversion E; subst. rewrite Z.eqb_refl. reflexivity.
  - destruct (Z.eqb_spec k' k) as [->|_]; [|apply IH; assumption].
    exfalso. apply H1. apply (in_map fst) in Hin. exact Hin.
Qed.

Lemma map_m_lookup : forall i (require d' : kv), NoDup (map fst require) -> (forall p, In p d' -> In p require) ->
  map_m (fun key => rbind (kv_lookup require key) (fun l => Ok (key, nth i l VNone))) (map fst d')
  = Ok (row_at i d').
Proof.
  intros i require d' Hnd. induction d' as [|[k l] d' IH]; intros Hsub; [reflexivity|].
  cbn [map fst map_m]. rewrite (kv_lookup_in require k l Hnd (Hsub _ (or_introl eq_refl))). cbn [rbind].
  rewrite IH by (intros p Hp; apply Hsub; right; exact Hp). reflexivity.
Qed.

Lemma dget_drop_id : forall c (d : cells), dget c (drop_id d) = if c =? id_col then None else dget c d.
Proof.
  intros c d; induction d as [|[k v] d IH]; simpl; [destruct (c =? id_col); reflexivity|].
  destruct (Z.eqb_spec k id_col) as [->|Hk]; simpl.
  - rewrite IH. destruct (Z.eqb_spec c id_col) as [->|Hc]; [reflexivity|].
    destruct (dget c d); [reflexivity|]. destruct (Z.eqb_spec id_col c); [congruence|reflexivity].
  - rewrite IH. destruct (Z.eqb_spec c id_col) as [->|Hc]; [|reflexivity].
    destruct (Z.eqb_spec k id_col); [contradiction|reflexivity].
Qed.
