(* C38 -- bridging lemmas: the functions translated from /repo on every run (GristGen.JsGen_gen: gen_js_schema.py
   get_ts_type / main, usertypes.get_pure_type / get_type_default; GristGen.TsGen_gen: gristTypes.ts
   extractTypeFromColType / getDefaultForType) are, pointwise, the hand-written model (Model/JsSchema.v). *)
From Coq Require Import String Ascii ZArith List Bool Lia.
Import ListNotations.
Require Import Grist.Lib.JsPrelude Grist.Model.JsSchema Grist.Proofs.JsSchema_proofs.
Require GristGen.JsGen_gen GristGen.TsGen_gen.
Open Scope Z_scope.

Local Arguments dec : simpl never.
Local Arguments pad_to : simpl never.
Local Arguments pad_left : simpl never.

(* bring both sides of an equation between concatenations into right-nested cons form *)
Ltac push_app := cbn [app].
Ltac norm_app := repeat first [ rewrite <- app_assoc | rewrite app_nil_r | progress push_app ].

Lemma py_for_some : forall {A} (l : list A) (f : A -> option (list Z)) (g : A -> list Z),
  (forall x, f x = Some (g x)) -> py_for l f = Some (flat_map g l).
Proof.
  intros A l f g H. unfold py_for. induction l as [|x l IH]; cbn [map out_seq flat_map].
  - reflexivity.
  - rewrite H, IH. reflexivity.
Qed.

(* ---------- gen_js_schema.py ---------- *)

Lemma gen_get_ts_type_eq : forall tt s ty, JsGen_gen.get_ts_type tt s ty = JsSchema.get_ts_type tt ty.
Proof. intros tt s ty. reflexivity. Qed.

Lemma gen_col1 : forall c,
  out_seq [py_print (py_percent (str "    %-20s: ""%s"",") [AStr (col_id c); AStr (col_type c)])] = Some (render_col1 c).
Proof. intro c. unfold py_print, py_percent, render_col1. cbn. f_equal. norm_app. reflexivity. Qed.

Lemma gen_col2 : forall tt s c,
  out_seq [py_print (py_percent (str "    %s: %s;")
             [AStr (col_id c); AStr (JsGen_gen.get_ts_type tt s (col_type c))])] = Some (render_col2 tt c).
Proof.
  intros tt s c. rewrite gen_get_ts_type_eq. unfold py_print, py_percent, render_col2. cbn. f_equal.
  norm_app. reflexivity.
Qed.

Lemma gen_table1 : forall t,
  out_seq [py_print (py_percent (str "  ""%s"": {") [AStr (tbl_id t)]);
           py_for (tbl_columns t) (fun column =>
             out_seq [py_print (py_percent (str "    %-20s: ""%s"",") [AStr (col_id column); AStr (col_type column)])]);
           py_print (Some (str "  },
"))] = Some (render_table1 t).
Proof.
  intro t. rewrite (py_for_some _ _ render_col1 gen_col1).
  unfold py_print, py_percent, render_table1. cbn. f_equal. norm_app. reflexivity.
Qed.

Lemma gen_table2 : forall tt s t,
  out_seq [py_print (py_percent (str "  ""%s"": {") [AStr (tbl_id t)]);
           py_for (tbl_columns t) (fun column =>
             out_seq [py_print (py_percent (str "    %s: %s;")
                        [AStr (col_id column); AStr (JsGen_gen.get_ts_type tt s (col_type column))])]);
           py_print (Some (str "  };
"))] = Some (render_table2 tt t).
Proof.
  intros tt s t. rewrite (py_for_some _ _ (render_col2 tt) (gen_col2 tt s)).
  unfold py_print, py_percent, render_table2. cbn. f_equal. norm_app. reflexivity.
Qed.

(* everything the translated main() writes is render *)
Theorem gen_main_eq : forall tt s, JsGen_gen.main tt s = Some (render tt s).
Proof.
  intros tt s. unfold JsGen_gen.main.
  rewrite (py_for_some _ _ render_table1 gen_table1).
  rewrite (py_for_some _ _ (render_table2 tt) (gen_table2 tt s)).
  unfold py_print, py_percent, render. cbn. f_equal. norm_app. reflexivity.
Qed.

(* ---------- usertypes.py ---------- *)

Theorem gen_get_type_default_eq : forall pyd ct, JsGen_gen.get_type_default pyd ct = py_col_default pyd ct.
Proof. intros pyd ct. reflexivity. Qed.

(* ---------- gristTypes.ts ---------- *)

Lemma index_of_take_until : forall c s,
  (js_index_of c s = -1 /\ take_until c s = s) \/
  (0 <= js_index_of c s /\ firstn (Z.to_nat (js_index_of c s)) s = take_until c s).
Proof.
  intros c s. induction s as [|x t IH]; cbn [js_index_of take_until].
  - left. split; reflexivity.
  - destruct (x =? c) eqn:E.
    + right. split; [lia | reflexivity].
    + destruct IH as [[H1 H2] | [H1 H2]].
      * left. rewrite H1, H2. split; reflexivity.
      * right. destruct (js_index_of c t <? 0) eqn:L; [apply Z.ltb_lt in L; lia|].
        split; [lia|]. rewrite Z2Nat.inj_add by lia. rewrite Nat.add_comm. change (firstn (S (Z.to_nat (js_index_of c t))) (x :: t) = x :: take_until c t). cbn [firstn].
        rewrite H2. reflexivity.
Qed.

Theorem ts_extract_eq : forall s, TsGen_gen.extractTypeFromColType s = take_until 58 s.
Proof.
  intro s. unfold TsGen_gen.extractTypeFromColType. destruct s as [|x t]; [reflexivity|].
  cbn [js_not_str]. unfold js_slice0.
  destruct (index_of_take_until 58 (x :: t)) as [[H1 H2] | [H1 H2]].
  - rewrite H1, H2. reflexivity.
  - destruct (Z.eqb_spec (js_index_of 58 (x :: t)) (-1)) as [E|_]; [lia | exact H2].
Qed.

Lemma assoc_first_components : forall pairs k,
  assoc k (first_components pairs) = option_map fst (assoc k pairs).
Proof.
  intros pairs k. induction pairs as [|[k' [a b]] t IH]; cbn [first_components map assoc fst snd option_map].
  - reflexivity.
  - destruct (zs_eqb k k'); [reflexivity | exact IH].
Qed.

(* getDefaultForType(colType) (sqlFormatted absent/false) is the model's lookup, for every column type whose
   pure type is not the name of a property of Object.prototype *)
Theorem ts_getDefaultForType_eq : forall pairs ct,
  zs_mem (take_until 58 ct) js_object_prototype_names = false ->
  TsGen_gen.getDefaultForType pairs ct false = ts_col_default (first_components pairs) ct.
Proof.
  intros pairs ct H. unfold TsGen_gen.getDefaultForType, ts_col_default, ts_default.
  rewrite ts_extract_eq. unfold js_obj_get. rewrite !assoc_first_components. rewrite H.
  destruct (assoc (take_until 58 ct) pairs) as [[a b]|]; cbn [js_prop_or js_pair_index option_map fst]; [reflexivity|].
  destruct (assoc (str "Any") pairs) as [[a b]|]; cbn [js_pair_index option_map fst]; reflexivity.
Qed.

(* ... and for such a name that the literal does not define itself, Node gets undefined *)
Theorem ts_getDefaultForType_inherited : forall pairs ct,
  zs_mem (take_until 58 ct) js_object_prototype_names = true -> assoc (take_until 58 ct) pairs = None ->
  TsGen_gen.getDefaultForType pairs ct false = TsUndefined.
Proof.
  intros pairs ct H N. unfold TsGen_gen.getDefaultForType. rewrite ts_extract_eq. unfold js_obj_get.
  rewrite N, H. reflexivity.
Qed.
