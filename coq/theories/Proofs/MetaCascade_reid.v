(* K6 proofs: renames (new column kinds, new table names). *)
From Coq Require Import ZArith List Bool Lia.
Import ListNotations.
Require Import Grist.Model.MetaCascade Grist.Proofs.MetaCascade_base Grist.Proofs.MetaCascade_inv
  Grist.Proofs.MetaCascade_rm Grist.Proofs.MetaCascade_clear.
Open Scope Z_scope.

(* table records rewritten without touching ids and references, any schema: fine when the names agree again *)
Lemma rename_tables_inv : forall X m (g : trec -> trec) (schema : list Z),
  InvX X m ->
  (forall t, t_id (g t) = t_id t /\ t_pview (g t) = t_pview t /\ t_src (g t) = t_src t /\ t_raw (g t) = t_raw t /\
             t_card (g t) = t_card t) ->
  let m' := mkM (map g (m_tables m)) (m_columns m) (m_views m) (m_sections m) (m_fields m) (m_tabbar m)
                (m_pages m) schema in
  NamesOk m' -> InvX X m'.
Proof.
  intros X m g schema [I1 I2 I3 I4 I5 I6 I7 I8] Hg m' Hn.
  assert (Etid : tids m' = tids m).
  { unfold tids, m'. cbn [m_tables]. apply map_map_id. intros t. apply (Hg t). }
  constructor; try assumption.
  - unfold IdsOk in *. rewrite Etid. exact I1.
  - intros c Hc. specialize (I2 c Hc). unfold ColOk in *. rewrite Etid. exact I2.
  - intros s Hs. specialize (I4 s Hs). unfold SecOk in *. rewrite Etid. exact I4.
  - intros t' Ht' Hx. cbn [m_tables m'] in Ht'. apply in_map_iff in Ht'. destruct Ht' as [t [E Ht]]. subst t'.
    destruct (Hg t) as [G1 [G2 [G3 [G4 G5]]]]. rewrite G1 in Hx. specialize (I5 t Ht Hx).
    unfold TableOk, SecOfTable in *. rewrite Etid, G1, G2, G3, G4, G5. exact I5.
Qed.

Lemma reident_inv : forall X ckinds tnames m m', InvX X m -> reident ckinds tnames m = Ok m' -> InvX X m'.
Proof.
  intros X ckinds tnames m m' HI H. unfold reident in H.
  match type of H with (if ?b then _ else _) = _ => destruct b eqn:Eb; [|discriminate] end.
  inversion H; subst m'. clear H.
  repeat rewrite andb_true_iff in Eb. destruct Eb as [[[N1 N2] N3] N4].
  set (gc := fun c => match lookup (c_id c) ckinds with
                      | Some k => mkC (c_id c) (c_parent c) k (c_display c) (c_visible c) (c_src c) (c_rules c) (c_reft c)
                      | None => c end).
  assert (HI1 : InvX X (mkM (m_tables m) (map gc (m_columns m)) (m_views m) (m_sections m)
                            (map (fun f => f) (m_fields m)) (m_tabbar m) (m_pages m) (m_schema m))).
  { apply weaken_records_inv; [exact HI | | intros f; apply field_weaker_refl].
    intros c. unfold gc. destruct (lookup (c_id c) ckinds); [|apply col_weaker_refl].
    unfold col_weaker. simpl. repeat split; try (right; reflexivity). apply incl_refl. }
  rewrite map_id in HI1.
  match goal with |- InvX X (mkM (map ?g _) _ _ _ _ _ _ ?sch) =>
    apply (rename_tables_inv X _ g sch HI1) end.
  - intros t. simpl. tauto.
  - unfold NamesOk. cbn [m_tables m_schema].
    split; [apply nodupb_NoDup; exact N1|]. split; [apply nodupb_NoDup; exact N2|].
    split; apply all_in_incl; assumption.
Qed.
