(* Proofs for C23 (Model/ModifyColumn.v). *)
From Coq Require Import ZArith List Bool Lia.
Import ListNotations.
Require Import Grist.Model.ModifyColumn.

Lemma str_eqb_refl : forall a, str_eqb a a = true.
Proof. induction a as [|x a IH]; cbn; [reflexivity|]. rewrite Z.eqb_refl, IH. reflexivity. Qed.

Lemma str_eqb_eq : forall a b, str_eqb a b = true <-> a = b.
Proof.
  induction a as [|x a IH]; destruct b as [|y b]; cbn; split; intro H; try reflexivity; try discriminate.
  - apply andb_true_iff in H. destruct H as [H1 H2]. apply Z.eqb_eq in H1. apply IH in H2. congruence.
  - inversion H; subst. rewrite Z.eqb_refl. cbn. apply str_eqb_refl.
Qed.

Lemma str_eqb_neq : forall a b, a <> b -> str_eqb a b = false.
Proof.
  intros a b H. destruct (str_eqb a b) eqn:E; [|reflexivity]. apply str_eqb_eq in E. contradiction.
Qed.

Section Proofs.
  Variable V : Type.
  Variable col_convert : V -> V.
  Variable col_set : V -> V.
  Variable strict_equal : V -> V -> bool.
  Variable dflt : V.
  Variable rev_set : V -> V.

  Notation raw_get := (@raw_get V).
  Notation store := (@store V).

  (* ---- list-backed column ---- *)
  Lemma store_same : forall d c r v, raw_get d (store d c r v) r = v.
  Proof.
    intros d c r. revert c. induction r as [|r IH]; intros c v; destruct c as [|x t]; cbn; try reflexivity.
    - apply (IH []).
    - apply IH.
  Qed.

  Lemma raw_get_nil : forall d r, raw_get d [] r = d.
  Proof. intros d r. unfold ModifyColumn.raw_get. destruct r; reflexivity. Qed.

  Lemma store_other : forall d c r v r', r <> r' -> raw_get d (store d c r v) r' = raw_get d c r'.
  Proof.
    intros d c r. revert c. induction r as [|r IH]; intros c v r' Hne; destruct c as [|x t]; destruct r' as [|r'];
      try congruence; cbn; try reflexivity.
    - destruct r'; reflexivity.
    - change (raw_get d (store d [] r v) r' = d). rewrite (IH [] v r') by congruence. apply raw_get_nil.
    - change (raw_get d (store d t r v) r' = raw_get d t r'). apply IH. congruence.
  Qed.

  (* a loop that stores g r at row r whenever g r is defined *)
  Definition loop (g : nat -> option V) (rows : list nat) (acc : list V) : list V :=
    fold_left (fun acc r => match g r with Some v => store dflt acc r v | None => acc end) rows acc.

  Lemma loop_get : forall g rows acc r,
    raw_get dflt (loop g rows acc) r =
    match g r with
    | Some v => if in_dec Nat.eq_dec r rows then v else raw_get dflt acc r
    | None => raw_get dflt acc r
    end.
  Proof.
    intros g rows. induction rows as [|x rows IH]; intros acc r.
    - cbn [loop fold_left]. destruct (g r); reflexivity.
    - change (loop g (x :: rows) acc) with (loop g rows (match g x with Some v => store dflt acc x v | None => acc end)).
      rewrite IH. destruct (g r) as [v|] eqn:Eg.
      + destruct (in_dec Nat.eq_dec r rows) as [Hin|Hnin].
        * destruct (in_dec Nat.eq_dec r (x :: rows)) as [_|Hn]; [reflexivity|]. exfalso; apply Hn; right; exact Hin.
        * destruct (Nat.eq_dec x r) as [->|Hne].
          -- rewrite Eg. rewrite store_same.
             destruct (in_dec Nat.eq_dec r (r :: rows)) as [_|Hn]; [reflexivity|]. exfalso; apply Hn; left; reflexivity.
          -- destruct (in_dec Nat.eq_dec r (x :: rows)) as [[H|H]|_]; try contradiction.
             destruct (g x); [apply store_other; exact Hne | reflexivity].
      + destruct (Nat.eq_dec x r) as [->|Hne].
        * rewrite Eg. reflexivity.
        * destruct (g x); [apply store_other; exact Hne | reflexivity].
  Qed.

  Lemma da_fill_is_loop : forall rows old new,
    da_fill V col_set dflt rows old new =
    loop (fun r => Some (col_set (raw_get (c_default old) (c_data old) r))) rows new.
  Proof. reflexivity. Qed.

  Lemma ua_convert_is_loop : forall rows old new,
    ua_convert V col_convert col_set strict_equal dflt rows old new =
    loop (fun r => let ov := raw_get (c_default old) (c_data old) r in
                   if strict_equal ov (col_convert ov) then None else Some (col_set (col_convert ov))) rows new.
  Proof.
    intros rows old. unfold ua_convert, loop. induction rows as [|x rows IH]; intro new; cbn [fold_left]; [reflexivity|].
    rewrite <- IH. cbv zeta.
    destruct (strict_equal (raw_get (c_default old) (c_data old) x) (col_convert (raw_get (c_default old) (c_data old) x)));
      reflexivity.
  Qed.

  (* ---- the cell of the new column, with no hypothesis at all ---- *)
  Lemma new_column_cell : forall size0 rows old r,
    In r rows ->
    let ov := raw_get (c_default old) (c_data old) r in
    raw_get dflt (c_data (new_column V col_convert col_set strict_equal dflt size0 rows old)) r =
    if strict_equal ov (col_convert ov) then col_set ov else col_set (col_convert ov).
  Proof.
    intros size0 rows old r Hin ov. unfold new_column. cbn [c_data].
    rewrite ua_convert_is_loop, loop_get. fold ov. cbv zeta. fold ov.
    destruct (strict_equal ov (col_convert ov)) eqn:E.
    - rewrite da_fill_is_loop, loop_get.
      destruct (in_dec Nat.eq_dec r rows) as [_|Hn]; [reflexivity | contradiction].
    - destruct (in_dec Nat.eq_dec r rows) as [_|Hn]; [reflexivity | contradiction].
  Qed.

  (* rows outside the table keep the default *)
  Lemma new_column_other_rows : forall size0 rows old r,
    ~ In r rows ->
    raw_get dflt (c_data (new_column V col_convert col_set strict_equal dflt size0 rows old)) r = dflt.
  Proof.
    intros size0 rows old r Hnin. unfold new_column. cbn [c_data].
    rewrite ua_convert_is_loop, loop_get, da_fill_is_loop, loop_get.
    assert (Hd : raw_get dflt (repeat dflt size0) r = dflt).
    { unfold ModifyColumn.raw_get. clear Hnin. revert r. induction size0 as [|n IH]; intros r; destruct r; cbn; try reflexivity.
      apply IH. }
    destruct (in_dec Nat.eq_dec r rows) as [H|_]; [contradiction|].
    cbv zeta.
    destruct (strict_equal _ _); exact Hd.
  Qed.

  (* ---- association lists ---- *)
  Lemma get_put_col_same : forall cols c x, get_col V cols c <> None -> get_col V (put_col V cols c x) c = Some x.
  Proof.
    induction cols as [|[k y] t IH]; intros c x H; cbn in *; [congruence|].
    destruct (str_eqb k c) eqn:E; cbn; rewrite E; [reflexivity | apply IH; exact H].
  Qed.

  Lemma get_put_col_other : forall cols c x c', c' <> c -> get_col V (put_col V cols c x) c' = get_col V cols c'.
  Proof.
    induction cols as [|[k y] t IH]; intros c x c' Hne; cbn; [reflexivity|].
    destruct (str_eqb k c) eqn:E; cbn.
    - apply str_eqb_eq in E; subst k. rewrite (str_eqb_neq c c') by congruence. reflexivity.
    - destruct (str_eqb k c'); [reflexivity | apply IH; exact Hne].
  Qed.

  Lemma put_col_keys : forall cols c x, map fst (put_col V cols c x) = map fst cols.
  Proof.
    induction cols as [|[k y] t IH]; intros c x; cbn; [reflexivity|].
    destruct (str_eqb k c); cbn; [reflexivity | rewrite IH; reflexivity].
  Qed.

  Lemma get_put_table_same : forall d t x, get_table V d t <> None -> get_table V (put_table V d t x) t = Some x.
  Proof.
    induction d as [|[k y] r IH]; intros t x H; cbn in *; [congruence|].
    destruct (str_eqb k t) eqn:E; cbn; rewrite E; [reflexivity | apply IH; exact H].
  Qed.

  Lemma get_put_table_other : forall d t x t', t' <> t -> get_table V (put_table V d t x) t' = get_table V d t'.
  Proof.
    induction d as [|[k y] r IH]; intros t x t' Hne; cbn; [reflexivity|].
    destruct (str_eqb k t) eqn:E; cbn.
    - apply str_eqb_eq in E; subst k. rewrite (str_eqb_neq t t') by congruence. reflexivity.
    - destruct (str_eqb k t'); [reflexivity | apply IH; exact Hne].
  Qed.

  Lemma put_table_keys : forall d t x, map fst (put_table V d t x) = map fst d.
  Proof.
    induction d as [|[k y] r IH]; intros t x; cbn; [reflexivity|].
    destruct (str_eqb k t); cbn; [reflexivity | rewrite IH; reflexivity].
  Qed.

  Notation modify_column := (modify_column V col_convert col_set strict_equal dflt).
  Notation cell := (cell V).

  (* ---- the converted cell ---- *)
  Lemma modify_cell_exact : forall size0 d t c d' tb old r,
    modify_column size0 d t c = Ok d' ->
    get_table V d t = Some tb -> get_col V (t_cols tb) c = Some old -> In r (t_rows tb) ->
    let ov := raw_get (c_default old) (c_data old) r in
    cell d' t c r = Some (if strict_equal ov (col_convert ov) then col_set ov else col_set (col_convert ov)).
  Proof.
    intros size0 d t c d' tb old r Hm Ht Hc Hin ov. unfold ModifyColumn.modify_column in Hm. rewrite Ht, Hc in Hm.
    inversion Hm; subst d'; clear Hm. unfold ModifyColumn.cell.
    rewrite get_put_table_same by congruence. cbn [t_cols].
    rewrite get_put_col_same by congruence. f_equal.
    change (c_default (new_column V col_convert col_set strict_equal dflt size0 (t_rows tb) old)) with dflt.
    apply new_column_cell. exact Hin.
  Qed.

  (* ---- frame ---- *)
  Lemma modify_frame_cols : forall size0 d t c d',
    modify_column size0 d t c = Ok d' ->
    forall t' c', (t', c') <> (t, c) ->
      match get_table V d' t', get_table V d t' with
      | Some tb', Some tb => get_col V (t_cols tb') c' = get_col V (t_cols tb) c'
      | None, None => True
      | _, _ => False
      end.
  Proof.
    intros size0 d t c d' Hm t' c' Hne. unfold ModifyColumn.modify_column in Hm.
    destruct (get_table V d t) as [tb|] eqn:Ht; [|discriminate].
    destruct (get_col V (t_cols tb) c) as [old|] eqn:Hc; [|discriminate].
    inversion Hm; subst d'; clear Hm.
    destruct (list_eq_dec Z.eq_dec t' t) as [->|Hnt].
    - rewrite get_put_table_same by congruence. rewrite Ht. cbn [t_cols].
      apply get_put_col_other. congruence.
    - rewrite get_put_table_other by exact Hnt. destruct (get_table V d t'); [reflexivity | exact I].
  Qed.

  Lemma modify_frame_rows : forall size0 d t c d',
    modify_column size0 d t c = Ok d' ->
    map fst d' = map fst d /\
    forall t', match get_table V d' t', get_table V d t' with
               | Some tb', Some tb => t_rows tb' = t_rows tb /\ map fst (t_cols tb') = map fst (t_cols tb)
               | None, None => True
               | _, _ => False
               end.
  Proof.
    intros size0 d t c d' Hm. unfold ModifyColumn.modify_column in Hm.
    destruct (get_table V d t) as [tb|] eqn:Ht; [|discriminate].
    destruct (get_col V (t_cols tb) c) as [old|] eqn:Hc; [|discriminate].
    inversion Hm; subst d'; clear Hm. split; [apply put_table_keys|].
    intro t'. destruct (list_eq_dec Z.eq_dec t' t) as [->|Hnt].
    - rewrite get_put_table_same by congruence. rewrite Ht. cbn [t_rows t_cols]. split; [reflexivity | apply put_col_keys].
    - rewrite get_put_table_other by exact Hnt. destruct (get_table V d t'); [split; reflexivity | exact I].
  Qed.

  Lemma modify_frame_cell : forall size0 d t c d',
    modify_column size0 d t c = Ok d' ->
    forall t' c' r, (t', c') <> (t, c) -> cell d' t' c' r = cell d t' c' r.
  Proof.
    intros size0 d t c d' Hm t' c' r Hne. pose proof (modify_frame_cols size0 d t c d' Hm t' c' Hne) as H.
    unfold ModifyColumn.cell. destruct (get_table V d' t'), (get_table V d t'); try contradiction; [|reflexivity].
    rewrite H. reflexivity.
  Qed.

  (* the reverse-column update touches only the reverse column *)
  Lemma bulk_update_frame_cell : forall d rt rc upd d',
    bulk_update V rev_set d rt rc upd = Ok d' ->
    forall t' c' r, (t', c') <> (rt, rc) -> cell d' t' c' r = cell d t' c' r.
  Proof.
    intros d rt rc upd d' Hb t' c' r Hne. unfold bulk_update in Hb.
    destruct (get_table V d rt) as [tb|] eqn:Ht; [|discriminate].
    destruct (get_col V (t_cols tb) rc) as [col|] eqn:Hc; [|discriminate].
    inversion Hb; subst d'; clear Hb. unfold ModifyColumn.cell.
    destruct (list_eq_dec Z.eq_dec t' rt) as [->|Hnt].
    - rewrite get_put_table_same by congruence. rewrite Ht. cbn [t_cols].
      rewrite get_put_col_other by congruence. reflexivity.
    - rewrite get_put_table_other by exact Hnt. reflexivity.
  Qed.

  Lemma modify_with_reverse_frame : forall size0 d t c rt rc upd d',
    modify_with_reverse V col_convert col_set strict_equal dflt rev_set size0 d t c (Some (rt, rc, upd)) = Ok d' ->
    forall t' c' r, (t', c') <> (t, c) -> (t', c') <> (rt, rc) -> cell d' t' c' r = cell d t' c' r.
  Proof.
    intros size0 d t c rt rc upd d' H t' c' r Hn1 Hn2. unfold modify_with_reverse in H.
    destruct (modify_column size0 d t c) as [d1|e] eqn:Hm; [|discriminate].
    rewrite (bulk_update_frame_cell d1 rt rc upd d' H t' c' r Hn2).
    apply (modify_frame_cell size0 d t c d1 Hm). exact Hn1.
  Qed.

  Lemma modify_with_reverse_cell : forall size0 d t c rt rc upd d' tb old r,
    modify_with_reverse V col_convert col_set strict_equal dflt rev_set size0 d t c (Some (rt, rc, upd)) = Ok d' ->
    (t, c) <> (rt, rc) ->
    get_table V d t = Some tb -> get_col V (t_cols tb) c = Some old -> In r (t_rows tb) ->
    let ov := raw_get (c_default old) (c_data old) r in
    cell d' t c r = Some (if strict_equal ov (col_convert ov) then col_set ov else col_set (col_convert ov)).
  Proof.
    intros size0 d t c rt rc upd d' tb old r H Hne Ht Hc Hin ov. unfold modify_with_reverse in H.
    destruct (modify_column size0 d t c) as [d1|e] eqn:Hm; [|discriminate].
    rewrite (bulk_update_frame_cell d1 rt rc upd d' H t c r Hne).
    apply (modify_cell_exact size0 d t c d1 tb old r Hm Ht Hc Hin).
  Qed.

  (* the emitted changes are exactly the rows whose stored value is not strict_equal to its conversion *)
  Lemma changes_spec : forall rows old r ov nv,
    In (r, ov, nv) (ua_changes V col_convert col_set strict_equal rows old) <->
    In r rows /\ ov = raw_get (c_default old) (c_data old) r /\ nv = col_set (col_convert ov) /\
    strict_equal ov (col_convert ov) = false.
  Proof.
    intros rows old r ov nv. unfold ua_changes. rewrite in_flat_map. split.
    - intros [x [Hin H]]. cbv zeta in H.
      destruct (strict_equal (raw_get (c_default old) (c_data old) x) (col_convert (raw_get (c_default old) (c_data old) x))) eqn:E;
        [contradiction|].
      destruct H as [H|[]]. inversion H; subst. repeat split; assumption.
    - intros [Hin [-> [-> E]]]. exists r. split; [exact Hin|]. cbv zeta. rewrite E. left. reflexivity.
  Qed.

End Proofs.
