(* K6 proofs: the auto-removal loop needs at most (number of helper columns + number of summary tables) rounds:
   every round removes a helper column or a summary table and none is ever created by the loop. *)
From Coq Require Import ZArith List Bool Lia.
Import ListNotations.
Require Import Grist.Model.MetaCascade Grist.Proofs.MetaCascade_base.
Open Scope Z_scope.

Definition is_helper (c : crec) : bool := 3 <=? c_kind c.
Definition is_summary (t : trec) : bool := negb (t_src t =? 0).
Definition hcount (m : meta) : nat := length (filter is_helper (m_columns m)).
Definition scount (m : meta) : nat := length (filter is_summary (m_tables m)).
Definition measure (m : meta) : nat := (hcount m + scount m)%nat.

Lemma count_map_filter_le : forall {A} (p q keep : A -> bool) (g : A -> A) (l : list A),
  (forall x, p (g x) = true -> q x = true) ->
  (length (filter p (map g (filter keep l))) <= length (filter q l))%nat.
Proof.
  intros A p q keep g l H. induction l as [|x t IH]; simpl; [lia|].
  destruct (keep x); simpl.
  - destruct (p (g x)) eqn:E.
    + rewrite (H x E). simpl. lia.
    + destruct (q x); simpl; lia.
  - destruct (q x); simpl; lia.
Qed.

Lemma count_map_filter_lt : forall {A} (p q keep : A -> bool) (g : A -> A) (l : list A) (x : A),
  (forall y, p (g y) = true -> q y = true) -> In x l -> q x = true -> keep x = false ->
  (length (filter p (map g (filter keep l))) < length (filter q l))%nat.
Proof.
  intros A p q keep g l x H. induction l as [|y t IH]; intros Hin Hq Hk; [contradiction|].
  simpl. destruct Hin as [Hin|Hin].
  - subst y. rewrite Hk, Hq. simpl. pose proof (count_map_filter_le p q keep g t H). lia.
  - specialize (IH Hin Hq Hk). destruct (keep y); simpl.
    + destruct (p (g y)) eqn:E; [rewrite (H y E); simpl; lia | destruct (q y); simpl; lia].
    + destruct (q y); simpl; lia.
Qed.

Lemma count_map_le : forall {A} (p q : A -> bool) (g : A -> A) (l : list A),
  (forall x, p (g x) = true -> q x = true) -> (length (filter p (map g l)) <= length (filter q l))%nat.
Proof.
  intros A p q g l H. pose proof (count_map_filter_le p q (fun _ => true) g l H) as J.
  assert (E : filter (fun _ : A => true) l = l).
  { clear J. induction l as [|y u IHu]; simpl; [reflexivity | rewrite IHu; reflexivity]. }
  rewrite E in J. exact J.
Qed.

(* the removal primitives never add helper columns or summary tables *)
Lemma rm_columns_counts : forall ids m,
  (hcount (rm_columns ids m) <= hcount m)%nat /\ scount (rm_columns ids m) = scount m.
Proof.
  intros. unfold hcount, scount. simpl. split; [|reflexivity].
  apply count_map_filter_le. intros x H. exact H.
Qed.

Lemma rm_columns_strict : forall ids m c, In c (m_columns m) -> is_helper c = true -> In (c_id c) ids ->
  (hcount (rm_columns ids m) < hcount m)%nat.
Proof.
  intros ids m c Hc Hh Hin. unfold hcount. simpl.
  apply (count_map_filter_lt _ _ _ _ _ c); try assumption; [intros y H; exact H|].
  apply negb_false_iff. apply mem_In. exact Hin.
Qed.

Lemma rm_tables_counts : forall ids m,
  (hcount (rm_tables ids m) <= hcount m)%nat /\ (scount (rm_tables ids m) <= scount m)%nat.
Proof.
  intros. unfold hcount, scount. simpl. split.
  - apply count_map_le. intros x H. exact H.
  - apply count_map_filter_le. intros x H. unfold is_summary in *. simpl in H.
    destruct (clr_cases ids (t_src x)) as [[_ E]|[_ E]]; rewrite E in H; [discriminate | exact H].
Qed.

Lemma rm_tables_strict : forall ids m t, In t (m_tables m) -> is_summary t = true -> In (t_id t) ids ->
  (scount (rm_tables ids m) < scount m)%nat.
Proof.
  intros ids m t Ht Hs Hin. unfold scount. simpl.
  apply (count_map_filter_lt _ _ _ _ _ t); try assumption.
  - intros x H. unfold is_summary in *. simpl in H.
    destruct (clr_cases ids (t_src x)) as [[_ E]|[_ E]]; rewrite E in H; [discriminate | exact H].
  - apply negb_false_iff. apply mem_In. exact Hin.
Qed.

Lemma counts_same : forall m m', m_columns m' = m_columns m ->
  map t_src (m_tables m') = map t_src (m_tables m) -> hcount m' = hcount m /\ scount m' = scount m.
Proof.
  intros m m' Ec Et. unfold hcount, scount. rewrite Ec. split; [reflexivity|].
  assert (G : forall l l', map t_src l' = map t_src l -> length (filter is_summary l') = length (filter is_summary l)).
  { induction l as [|x t IH]; intros [|y u] E; simpl in *; try discriminate; [reflexivity|].
    inversion E as [[H0 H1]].
    assert (Es : is_summary y = is_summary x) by (unfold is_summary; rewrite H0; reflexivity).
    rewrite Es. destruct (is_summary x); simpl; rewrite (IH u H1); reflexivity. }
  apply G. exact Et.
Qed.

Lemma remove_sections_raw_counts : forall secs m,
  hcount (remove_sections_raw secs m) = hcount m /\ scount (remove_sections_raw secs m) = scount m.
Proof.
  intros. apply counts_same; [reflexivity|]. unfold remove_sections_raw. simpl. rewrite map_map. reflexivity.
Qed.

Lemma remove_sections_counts : forall secs m m', remove_sections secs m = Ok m' ->
  hcount m' = hcount m /\ scount m' = scount m.
Proof.
  intros secs m m' H. unfold remove_sections in H.
  destruct (negb (all_in secs (sids m))); [discriminate|].
  destruct (existsb _ (m_sections m)); [discriminate|]. inversion H; subst. apply remove_sections_raw_counts.
Qed.

Lemma remove_views_counts : forall vs m m', remove_views vs m = Ok m' ->
  hcount m' = hcount m /\ scount m' = scount m.
Proof.
  intros vs m m' H. unfold remove_views in H.
  destruct (negb (all_in vs (m_views m))); [discriminate|].
  set (m1 := rm_tabbar _ m) in *.
  destruct (if isnil _ then Ok m1 else remove_sections _ m1) as [m2| |] eqn:E; unfold bind in H; try discriminate.
  inversion H; subst m'. clear H.
  assert (H2 : hcount m2 = hcount m /\ scount m2 = scount m).
  { destruct (isnil _); [inversion E; subst; split; reflexivity|].
    apply remove_sections_counts in E. exact E. }
  destruct H2 as [A B]. rewrite <- A, <- B. apply counts_same; [reflexivity|]. simpl. rewrite map_map. reflexivity.
Qed.

Lemma remove_columns_core_counts : forall cols m m', remove_columns_core cols m = Ok m' ->
  (hcount m' <= hcount m)%nat /\ scount m' = scount m /\
  (forall c, In c (m_columns m) -> is_helper c = true -> In (c_id c) cols -> (hcount m' < hcount m)%nat).
Proof.
  intros cols m m' H. unfold remove_columns_core in H.
  destruct (existsb _ (m_fields m)); [discriminate|].
  destruct (sister_hazard _ m); [discriminate|]. inversion H; subst m'. clear H.
  set (all := cols ++ _). set (m1 := rm_fields _ m).
  destruct (rm_columns_counts all m1) as [A B].
  split; [exact A|]. split; [exact B|].
  intros c Hc Hh Hin. apply (rm_columns_strict all m1 c Hc Hh). apply in_app_iff. left. exact Hin.
Qed.

Lemma remove_columns_counts : forall cols m m', remove_columns cols m = Ok m' ->
  (hcount m' <= hcount m)%nat /\ scount m' = scount m /\
  (forall c, In c (m_columns m) -> is_helper c = true -> In (c_id c) cols -> (hcount m' < hcount m)%nat).
Proof.
  intros cols m m' H. unfold remove_columns in H.
  destruct (negb (all_in cols (cids m))); [discriminate|].
  destruct (negb (nodupb cols)); [discriminate|].
  destruct (existsb _ (m_columns m)); [discriminate|].
  destruct (has_groupby_users cols m); [discriminate|].
  apply remove_columns_core_counts. exact H.
Qed.
