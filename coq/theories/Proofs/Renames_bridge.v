(* C16: bridging lemmas between the code translated from /repo on every run (GristGen.Renames_gen) and the rename model
   of Model/Renames.v: the generated _prepare_formula_renames applies, per formula column, exactly the patches of
   rename_text for the names grist_names() reported for that column. *)
From Coq Require Import ZArith List Bool Lia.
Import ListNotations.
Require Import Grist.Model.Renames Grist.Lib.RenPrelude GristGen.Renames_gen Grist.Proofs.Renames_proofs.
Open Scope Z_scope.

Lemma colkey_eqb_eq : forall a b, colkey_eqb a b = true <-> a = b.
Proof.
  intros [a1 a2] [b1 b2]. unfold colkey_eqb. cbn. rewrite andb_true_iff, !name_eqb_eq. split.
  - intros [H1 H2]. subst. reflexivity.
  - intro H. inversion H. split; reflexivity.
Qed.

Lemma colkey_eqb_refl : forall a, colkey_eqb a a = true.
Proof. intro a. apply colkey_eqb_eq. reflexivity. Qed.

Lemma dict_get_append : forall d k' p k,
  dict_get (dict_setdefault_append d k' p) k
  = if colkey_eqb k' k then Some (match dict_get d k with Some ps => ps | None => [] end ++ [p]) else dict_get d k.
Proof.
  induction d as [|[k0 ps] d IH]; intros k' p k; cbn.
  - destruct (colkey_eqb k' k); reflexivity.
  - destruct (colkey_eqb k0 k') eqn:E0.
    + apply colkey_eqb_eq in E0. subst k0. cbn. destruct (colkey_eqb k' k); reflexivity.
    + cbn. destruct (colkey_eqb k0 k) eqn:E1.
      * apply colkey_eqb_eq in E1. subst k0. destruct (colkey_eqb k' k) eqn:E2; [|reflexivity].
        apply colkey_eqb_eq in E2. subst k'. rewrite colkey_eqb_refl in E0. discriminate.
      * apply IH.
Qed.

Section PrepareBridge.
  Variable rt : name -> name.
  Variable rc : name -> name -> name.
  Variable renames_get : name -> option name -> option text.
  Variable formula_of : colkey -> text.
  (* the `renames` dict handed to _prepare_formula_renames holds exactly the entities whose name changes, with
     their (non-empty) new names *)
  Hypothesis renames_spec : forall t c,
    renames_get t c = if renamed rt rc (0, t, c) then Some (new_text rt rc (0, t, c)) else None.
  Hypothesis new_nonempty : forall t c, renamed rt rc (0, t, c) = true -> new_text rt rc (0, t, c) <> [].

  Definition occ_of (g : gname) : occ := match g with (_, pos, t, c) => (pos, t, c) end.
  Definition key_of (g : gname) : colkey := match g with (k, _, _, _) => k end.
  (* what grist_names() reported for the formula of column k *)
  Definition reported_for (k : colkey) (names : list gname) : list occ :=
    map occ_of (filter (fun g => colkey_eqb (key_of g) k) names).
  Definition patches_for (k : colkey) (names : list gname) : list patch :=
    map (occ_patch rt rc (formula_of k)) (filter (renamed rt rc) (reported_for k names)).
  (* column ids are not empty strings (`col_id or table_id` picks the column id whenever there is one) *)
  Definition cols_nonempty (names : list gname) : Prop := forall g, In g names -> snd g <> Some [].

  Lemma truthy_spec : forall t c, py_truthy_opt (renames_get t c) = renamed rt rc (0, t, c).
  Proof.
    intros t c. rewrite renames_spec. destruct (renamed rt rc (0, t, c)) eqn:E; [|reflexivity].
    pose proof (new_nonempty t c E) as H. destruct (new_text rt rc (0, t, c)); [contradiction H; reflexivity | reflexivity].
  Qed.

  Lemma loop1_spec : forall pm k0 pos (t : name) (c : option name), c <> Some [] ->
    gen_prepare_loop1 renames_get formula_of pm (k0, pos, t, c)
    = if renamed rt rc (pos, t, c) then dict_setdefault_append pm k0 (occ_patch rt rc (formula_of k0) (pos, t, c)) else pm.
  Proof.
    intros pm [ft fc] pos t c Hc. unfold gen_prepare_loop1. cbv zeta. rewrite truthy_spec.
    change (renamed rt rc (pos, t, c)) with (renamed rt rc (0, t, c)).
    destruct (renamed rt rc (0, t, c)) eqn:E; [|reflexivity].
    unfold get_column_rec, occ_patch. cbn [fst snd]. rewrite renames_spec, E. cbn [opt_text].
    replace (py_or_name c t) with (occ_text (pos, t, c)); [reflexivity|].
    unfold occ_text, py_or_name. cbn [fst snd]. destruct c as [[|x r]|]; [contradiction Hc; reflexivity | reflexivity | reflexivity].
  Qed.

  Lemma fold_spec : forall names pm k, cols_nonempty names ->
    dict_get (fold_left (gen_prepare_loop1 renames_get formula_of) names pm) k
    = match dict_get pm k, patches_for k names with
      | None, [] => None
      | None, ps => Some ps
      | Some qs, ps => Some (qs ++ ps)
      end.
  Proof.
    induction names as [|g names IH]; intros pm k Hne.
    - cbn. destruct (dict_get pm k); [rewrite app_nil_r|]; reflexivity.
    - assert (Hne' : cols_nonempty names) by (intros g' Hg'; apply Hne; right; exact Hg').
      destruct g as [[[k0 pos] t] c]. cbn [fold_left]. rewrite (IH _ k Hne').
      rewrite loop1_spec by (apply (Hne (k0, pos, t, c)); left; reflexivity).
      unfold patches_for, reported_for. cbn [filter key_of]. destruct (colkey_eqb k0 k) eqn:Ek.
      + apply colkey_eqb_eq in Ek. subst k0. cbn [map occ_of filter].
        destruct (renamed rt rc (pos, t, c)) eqn:Er; cbn [map].
        * rewrite dict_get_append, colkey_eqb_refl. destruct (dict_get pm k) as [qs|]; cbn [app].
          -- rewrite <- app_assoc. reflexivity.
          -- reflexivity.
        * reflexivity.
      + destruct (renamed rt rc (pos, t, c)); [|reflexivity]. rewrite dict_get_append, Ek. reflexivity.
  Qed.

  Fixpoint res_get (l : list (colkey * R text)) (k : colkey) : option (R text) :=
    match l with [] => None | (k', r) :: t => if colkey_eqb k' k then Some r else res_get t k end.

  Lemma res_get_map : forall (pm : pdict) k,
    res_get (map (fun kv => let '(col_rec, patches) := kv in
                            (col_rec, replacer_get_text (mk_replacer (formula_of col_rec) patches))) pm) k
    = option_map (replacer_text (formula_of k)) (dict_get pm k).
  Proof.
    induction pm as [|[k' ps] pm IH]; intro k; [reflexivity|]. cbn. destruct (colkey_eqb k' k) eqn:E; [|apply IH].
    apply colkey_eqb_eq in E. subst k'. reflexivity.
  Qed.

  (* The bridge: for every formula column k, the generated _prepare_formula_renames returns an update for k exactly
     when some name reported for k is being renamed, and the new formula is rename_text of the model applied to the
     names reported for k. *)
  Theorem prepare_bridge : forall names k, cols_nonempty names ->
    res_get (gen_prepare_formula_renames renames_get formula_of names) k
    = match filter (renamed rt rc) (reported_for k names) with
      | [] => None
      | _ => Some (rename_text rt rc (formula_of k) (reported_for k names))
      end.
  Proof.
    intros names k Hne. unfold gen_prepare_formula_renames. rewrite res_get_map. rewrite (fold_spec names [] k Hne).
    cbn [dict_get]. unfold rename_text, patches_for.
    destruct (filter (renamed rt rc) (reported_for k names)); reflexivity.
  Qed.
End PrepareBridge.

(* ---- the small pieces ------------------------------------------------------------------------------------------- *)
(* gencode.grist_names: whatever the name discovery reports for the CURRENT builder, nothing remembered *)
Lemma grist_names_bridge : forall (B N : Type) (parse : B -> N) (b : B), gen_grist_names parse b = parse b.
Proof. reflexivity. Qed.

(* add(): every derived (group-by / sister) column is queued with ITS OWN skip_rules_update(c, value_dict) *)
Lemma add_bridge : forall (C D : Type) (skip : C -> D -> D) results cols v,
  gen_add skip results cols v = results ++ map (fun c => (c, skip c v)) cols.
Proof. reflexivity. Qed.

Lemma add_own_dict : forall (C D : Type) (skip : C -> D -> D) cols v c d,
  In (c, d) (gen_add skip [] cols v) -> d = skip c v.
Proof.
  intros C D skip cols v c d H. rewrite add_bridge in H. cbn in H. apply in_map_iff in H.
  destruct H as [c' [E _]]. inversion E; subst. reflexivity.
Qed.

(* _updateTableRecords: the rename map holds EVERY table whose id changes in this update (also the summary tables
   renamed along with their source table, which are appended to update_pairs) *)
Lemma table_renames_complete : forall (T V : Type) (tid : T -> name) (vt : V -> name) (diff : V -> name -> bool) pairs t v,
  In (t, v) pairs -> diff v (tid t) = true -> In (tid t, vt v) (gen_table_renames tid vt diff pairs).
Proof.
  intros T V tid vt diff pairs t v Hin Hd. unfold gen_table_renames. apply in_map_iff. exists (t, v).
  split; [reflexivity|]. apply filter_In. split; [exact Hin | exact Hd].
Qed.

Lemma table_renames_sound : forall (T V : Type) (tid : T -> name) (vt : V -> name) (diff : V -> name -> bool) pairs a b,
  In (a, b) (gen_table_renames tid vt diff pairs) -> exists t v, In (t, v) pairs /\ diff v (tid t) = true /\ a = tid t /\ b = vt v.
Proof.
  intros T V tid vt diff pairs a b H. unfold gen_table_renames in H. apply in_map_iff in H.
  destruct H as [[t v] [E H]]. apply filter_In in H. destruct H as [Hin Hd]. inversion E; subst.
  exists t, v. repeat split; assumption.
Qed.

(* _updateColumnRecords: merging the rewritten formulas -- every column gets ITS OWN rewritten formula (unless the
   update already carries one) *)
Fixpoint assoc_formula (us : list (colkey * text)) (k : colkey) : option text :=
  match us with [] => None | (k', f) :: r => if colkey_eqb k' k then Some f else assoc_formula r k end.

Lemma upd_get_setdefault : forall d k k',
  upd_get (upd_setdefault d k) k' = match upd_get d k' with Some v => Some v | None => if colkey_eqb k k' then Some None else None end.
Proof.
  induction d as [|[k0 v] d IH]; intros k k'; cbn.
  - destruct (colkey_eqb k k'); reflexivity.
  - destruct (colkey_eqb k0 k) eqn:E0; cbn.
    + destruct (colkey_eqb k0 k') eqn:E1; [reflexivity|]. destruct (upd_get d k') eqn:Eg; [reflexivity|].
      apply colkey_eqb_eq in E0. subst k0. rewrite E1. reflexivity.
    + destruct (colkey_eqb k0 k'); [reflexivity | apply IH].
Qed.

Lemma upd_get_setformula : forall d k f k',
  upd_get (upd_setdefault_formula d k f) k'
  = match upd_get d k' with
    | Some None => if colkey_eqb k k' then Some (Some f) else Some None
    | other => other
    end.
Proof.
  induction d as [|[k0 v] d IH]; intros k f k'; cbn; [reflexivity|].
  destruct (colkey_eqb k0 k) eqn:E0; cbn.
  - apply colkey_eqb_eq in E0. subst k0. destruct (colkey_eqb k k') eqn:E1; [destruct v; reflexivity|].
    destruct (upd_get d k') as [[g|]|]; reflexivity.
  - destruct (colkey_eqb k0 k') eqn:E1; [|apply IH].
    destruct (colkey_eqb k k') eqn:E2; [|destruct v; reflexivity].
    apply colkey_eqb_eq in E1, E2. subst. rewrite colkey_eqb_refl in E0. discriminate.
Qed.

Theorem merge_own_formula : forall sorted us d k,
  upd_get (gen_merge_formulas sorted d us) k
  = match upd_get d k with
    | Some (Some g) => Some (Some g)
    | other => match assoc_formula (sorted us) k with Some f => Some (Some f) | None => other end
    end.
Proof.
  intros sorted us. unfold gen_merge_formulas. induction (sorted us) as [|[k0 f] l IH]; intros d k; cbn [fold_left].
  - cbn. destruct (upd_get d k) as [[g|]|]; reflexivity.
  - rewrite IH. rewrite upd_get_setformula, upd_get_setdefault. cbn [assoc_formula].
    destruct (upd_get d k) as [[g|]|]; [reflexivity| |]; destruct (colkey_eqb k0 k); reflexivity.
Qed.
