(* Bridge, part 1: the functions generated from imports/import_json.py (GristGen.JsonImport_gen, rewritten on
   every run) are pointwise equal to the hand-written model (Model/JsonImport.v). *)
From Coq Require Import ZArith List Bool Arith Lia Permutation.
Import ListNotations.
Require Import Grist.Model.JsonImport Grist.Model.JsonImportPy GristGen.JsonImport_gen.
Require Import Grist.Proofs.JsonImport_proofs Grist.Proofs.JsonImport_final_proofs.

(* ---- the option strings *)
Lemma py_split_aux_semi s : forall cur, py_split_aux 59 s cur = split_semi_aux s cur.
Proof. induction s as [|c s IH]; intros cur; cbn; [reflexivity|]. destruct (Z.eqb c 59); rewrite IH; reflexivity. Qed.

Lemma bridge_init_includes s : gen_init_includes_opt s = split_opt s.
Proof. unfold gen_init_includes_opt, split_opt, py_filter_none. cbn [py_split]. rewrite py_split_aux_semi. reflexivity. Qed.

Lemma bridge_init_excludes s : gen_init_excludes_opt s = split_opt s.
Proof. unfold gen_init_excludes_opt, split_opt, py_filter_none. cbn [py_split]. rewrite py_split_aux_semi. reflexivity. Qed.

(* ---- Tables._is_included *)
Lemma bridge_is_included incs excs path : gen_is_included incs excs path = is_included incs excs path.
Proof. unfold gen_is_included, is_included. destruct incs, excs; reflexivity. Qed.

(* ---- first_available_key *)
Lemma next_count_fak {V} (d : list (str * V)) name fuel : forall i,
  py_next_count (fun j => name ++ py_str_nat j) (fun n => negb (od_mem n d)) i fuel =
  fak_from (map fst d) name i fuel.
Proof.
  induction fuel as [|f IH]; intros i; cbn [py_next_count fak_from]; [reflexivity|].
  unfold od_mem at 1, py_str_nat at 1 2. destruct (mem_str (name ++ dec i) (map fst d)); cbn [negb]; [apply IH|reflexivity].
Qed.

Lemma bridge_first_available_key {V} (d : list (str * V)) name :
  gen_first_available_key d name = first_available_key (map fst d) name.
Proof.
  unfold gen_first_available_key, first_available_key, py_next_chain. cbn [find]. unfold od_mem at 1.
  destruct (mem_str name (map fst d)); cbn [negb]; [|reflexivity].
  rewrite next_count_fak, map_length. reflexivity.
Qed.

(* ---- _grist_type, _dump_value *)
Lemma bridge_grist_type c : gen_grist_type c = grist_type c.
Proof. destruct c as [[| | | |]|[t r]]; reflexivity. Qed.

Lemma bridge_dump_value c : gen_dump_value c = dump_value c.
Proof. destruct c as [[| | | |]|[t r]]; reflexivity. Qed.

(* ---- OrderedDict primitives on cell dictionaries are those of the model *)
Lemma od_set_dict_set k c (d : dict) : od_set k c d = dict_set k c d.
Proof. induction d as [|[k' c'] d IH]; cbn; [reflexivity|]. destruct (str_eqb k' k); [reflexivity|]. rewrite IH. reflexivity. Qed.

Lemma od_update_dict_update (d row : dict) : od_update d row = dict_update d row.
Proof. unfold od_update, dict_update. apply fold_left_ext. intros a x. apply od_set_dict_set. Qed.

Lemma od_get_dict_get k (d : dict) : od_get k d cnone = dict_get k d.
Proof. unfold dict_get. induction d as [|[k' c'] d IH]; cbn; [reflexivity|]. destruct (str_eqb k' k); [reflexivity|exact IH]. Qed.

Lemma od_set_fresh {V} k (v : V) d : mem_str k (map fst d) = false -> od_set k v d = d ++ [(k, v)].
Proof.
  induction d as [|[k' v'] d IH]; cbn; [reflexivity|]. intros H. apply orb_false_iff in H. destruct H as [H1 H2].
  rewrite H1, IH by exact H2. reflexivity.
Qed.

Lemma fold_od_set_fresh {V W} (F : str -> W -> V) (l : list (str * W)) : forall acc,
  NoDup (map fst acc ++ map fst l) ->
  fold_left (fun tr kv => let '(key, val) := kv in od_set key (F key val) tr) l acc =
  acc ++ map (fun kv => (fst kv, F (fst kv) (snd kv))) l.
Proof.
  induction l as [|[k w] l IH]; intros acc Hnd; cbn [fold_left map]; [rewrite app_nil_r; reflexivity|].
  rewrite od_set_fresh.
  - rewrite IH; [rewrite <- app_assoc; reflexivity|].
    rewrite map_app, <- app_assoc. exact Hnd.
  - destruct (mem_str k (map fst acc)) eqn:E; [|reflexivity]. exfalso. apply mem_str_in in E.
    apply (nodup_app_disj _ _ k Hnd E). left. reflexivity.
Qed.

(* ---- _transpose *)
Definition col_of (kc : str * gcol) : tcol := mk_tcol (fst kc) (fst (snd kc)) (snd (snd kc)).

Lemma values_nodup rows : NoDup (map fst (fold_left dict_update (rev rows) [])).
Proof.
  assert (H := transpose_ids_nodup rows). unfold transpose in H. rewrite map_map in H. exact H.
Qed.

Lemma bridge_transpose rows : map col_of (gen_transpose rows) = transpose rows.
Proof.
  unfold gen_transpose, transpose, od_items.
  rewrite (fold_left_ext _ dict_update) by (intros; apply od_update_dict_update).
  rewrite (fold_od_set_fresh (fun key val => (gen_grist_type val, map (fun row => od_get key row cnone) rows))).
  - cbn [app]. rewrite map_map. apply map_ext. intros [k v]. unfold col_of. cbn [fst snd].
    rewrite bridge_grist_type. f_equal. apply map_ext. intros row. apply od_get_dict_get.
  - cbn [map app]. apply values_nodup.
Qed.

Lemma gen_transpose_keys rows : map fst (gen_transpose rows) = map col_id (transpose rows).
Proof. rewrite <- bridge_transpose, map_map. reflexivity. Qed.

(* ---- _dump_table *)
Definition dumped_triple (t : ttable) : list (str * str) * list (list dcell) * str :=
  (map (fun c => (col_id c, col_type c)) (t_columns t), map (fun c => map dump_value (col_cells c)) (t_columns t),
   t_name t).

Lemma first_parent_hd (rows : list grow) :
  hd_error (map (fun r => parent_ref (row_parent r)) (filter (fun r => py_truthy_opt (row_parent r)) rows)) =
  first_parent (map snd rows).
Proof. induction rows as [|[d [p|]] rows IH]; cbn; [reflexivity|reflexivity|exact IH]. Qed.

Lemma dumped_of_pairs (cols : list (str * gcol)) :
  (map (fun kc => let '(k, c) := kc in (k, col_type_of c)) (od_items cols),
   map (fun c => map (fun v => gen_dump_value v) (col_values_of c)) (od_values cols)) =
  (map (fun c => (col_id c, col_type c)) (map col_of cols),
   map (fun c => map dump_value (col_cells c)) (map col_of cols)).
Proof.
  unfold od_items, od_values. rewrite !map_map. f_equal.
  - apply map_ext. intros [k [ty cells]]. reflexivity.
  - apply map_ext. intros [k [ty cells]]. cbn. apply map_ext. intros v. apply bridge_dump_value.
Qed.

Lemma bridge_dump_table name rows : gen_dump_table name rows = dumped_triple (dump_rtable (name, rows)).
Proof.
  unfold gen_dump_table, dumped_triple, t_columns. cbn [dump_rtable t_data t_parent t_name fst snd].
  rewrite first_parent_hd.
  replace (map (fun r => row_values r) rows) with (map fst rows) by reflexivity.
  destruct (first_parent (map snd rows)) as [[pt pr]|] eqn:Efp; cbn [py_truthy_opt].
  - cbn [parent_ref ref_table_name fst cell_of_oref].
    rewrite od_set_fresh
      by (rewrite gen_transpose_keys, bridge_first_available_key, gen_transpose_keys; apply fak_fresh).
    rewrite (dumped_of_pairs _). rewrite map_app, bridge_transpose. cbn [map col_of fst snd].
    rewrite bridge_first_available_key, gen_transpose_keys, bridge_grist_type. cbn [grist_type].
    replace (map (fun row => if py_truthy_opt (row_parent row) then CR (parent_ref (row_parent row)) else cnone) rows)
      with (map parent_cell (map snd rows)); [reflexivity|].
    rewrite map_map. apply map_ext. intros [d [p|]]; reflexivity.
  - rewrite (dumped_of_pairs _), bridge_transpose, app_nil_r. reflexivity.
Qed.

(* ---- _dictify *)
Lemma bridge_dictify v : gen_dictify v = fields v.
Proof. destruct v; reflexivity. Qed.
