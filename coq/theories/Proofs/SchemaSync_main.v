(* C08, part 5: every coupled step keeps the invariant; histories; restored states. *)
From Coq Require Import ZArith List Bool Lia Permutation.
Import ListNotations.
Require Import Grist.Model.SchemaSync Grist.Proofs.SchemaSync_build Grist.Proofs.SchemaSync_spec
               Grist.Proofs.SchemaSync_steps Grist.Proofs.SchemaSync_aux Grist.Proofs.SchemaSync_proofs
               Grist.Proofs.SchemaSync_remove Grist.Proofs.SchemaSync_update Grist.Proofs.SchemaSync_tables.
Open Scope Z_scope.

Theorem coupled_step_InvD : forall base op s s' log,
  InvD base s -> cop_pre op s = true -> coupled op s = Ok (s', log) -> InvD base s'.
Proof.
  intros base op s s' log Hi Hpre H. destruct op.
  - exact (coupled_add_column base _ _ _ _ _ _ _ s s' log Hi H).
  - exact (coupled_add_table base _ _ s s' log Hi Hpre H).
  - exact (coupled_remove_columns base _ s s' log Hi Hpre H).
  - exact (coupled_remove_tables base _ s s' log Hi Hpre H).
  - exact (coupled_update_columns base _ s s' log Hi Hpre H).
  - exact (coupled_update_tables base _ _ s s' log Hi Hpre H).
  - cbn in Hpre. discriminate.
Qed.

Theorem coupled_step_Inv : forall base op s s',
  Inv base s -> cop_pre op s = true -> step op s = Ok s' -> Inv base s'.
Proof.
  intros base op s s' Hi Hpre H. unfold step in H. destruct (coupled op s) as [[s1 log]|] eqn:E; [|discriminate].
  inversion H; subst s1. apply Inv_InvD. apply Inv_InvD in Hi. exact (coupled_step_InvD base op s s' log Hi Hpre E).
Qed.

(* a history of coupled steps, each taken with its precondition *)
Fixpoint reach (ops : list cop) (s : state) : res state :=
  match ops with
  | [] => Ok s
  | op :: rest => if cop_pre op s
                  then match step op s with Ok s' => reach rest s' | Err e => Err e end
                  else Err 0%nat
  end.

Theorem reach_Inv : forall base ops s s', Inv base s -> reach ops s = Ok s' -> Inv base s'.
Proof.
  intros base ops. induction ops as [|op rest IH]; intros s s' Hi H; cbn in H.
  - inversion H; subst. exact Hi.
  - destruct (cop_pre op s) eqn:Hpre; [|discriminate]. destruct (step op s) as [s1|] eqn:Es; [|discriminate].
    exact (IH s1 s' (coupled_step_Inv base op s s1 Hi Hpre Es) H).
Qed.

Definition empty_doc (base : schema) : state :=
  {| st_schema := base; st_meta := {| m_tables := []; m_cols := [] |} |}.

Lemma Inv_empty : forall base, Inv base (empty_doc base).
Proof.
  intro base. apply Inv_InvD. constructor; cbn.
  - constructor; constructor.
  - constructor; [constructor | intros r [] | intros r1 r2 []].
  - intros r [].
  - intros c [].
  - intros t [].
  - intros t [].
  - intro tid. unfold target. cbn. destruct (od_get tid base); cbn; [intro c; reflexivity | exact I].
Qed.

(* a state whose schema is the same dict and whose metadata are the same rows as those of a state in the
   invariant is in the invariant: what a rollback or an undo restores *)
Theorem Inv_restored : forall base s0 s, Inv base s0 -> st_meta s = st_meta s0 ->
  schema_equiv (st_schema s) (st_schema s0) -> Inv base s.
Proof.
  intros base s0 s [Hwt [Hwc [Hnd [Hbd [Hns [sch [Hb He]]]]]]] Hm Heq. unfold Inv. rewrite Hm.
  repeat (split; [assumption|]). exists sch. split; [exact Hb|].
  intro t. specialize (Heq t). specialize (He t).
  destruct (od_get t (st_schema s)), (od_get t (st_schema s0)), (od_get t sch); try contradiction; try exact I.
  intro c. rewrite (Heq c). apply He.
Qed.
