(* Bridging lemmas (C22): the definitions GENERATED from usertypes.py / objtypes.py on every run
   (gen/Usertypes_gen.v) equal the hand model of Model/Values.v, pointwise, for every value and oracle.
   A semantic edit of the translated source makes one of these proofs fail. *)
From Coq Require Import ZArith List Bool Lia String.
Import ListNotations.
Require Import Grist.Lib.PyFloat Grist.Model.Values Grist.Model.ValuesPy GristGen.Usertypes_gen.
Open Scope Z_scope.

(* equal results; which exception class was raised is not compared (convert catches every Exception) *)
Definition same_res (a b : result value) : Prop :=
  match a, b with
  | Ok x, Ok y => x = y
  | Raise _, Raise _ => True
  | _, _ => False
  end.

Lemma same_res_refl : forall a, same_res a a.
Proof. destruct a; cbn; auto. Qed.

Lemma str_eqb_nil_r : forall s, str_eqb s [] = match s with [] => true | _ :: _ => false end.
Proof. destruct s; reflexivity. Qed.

(* unfold the Python run time, compute, and split on every stuck match (oracle answers, float classes...) *)
Ltac unf :=
  unfold p_isinstance, p_type_in, p_in, p_is_none, r_and, r_or, r_not, p_truth, p_str, p_float, p_int, p_abs, p_isinf, p_isnan,
    p_fmt15g, p_decode_utf8, p_lower, p_startswith, p_safe_repr, p_iter, p_json_loads, p_sorted_strs, p_dt_date, p_date_to_ts,
    p_dt_to_ts, p_parse_iso_date, p_parse_iso, p_reclist_from_repr, p_table_is, p_recordlist_of, p_rec_id, p_row_ids, p_dedup,
    p_lt, p_le, p_gt, p_eq, py_int_of_float, py_float, fl_bind, fl_seq, fl_try, bind, str_raise, isinstance1, type_is1, existsb, int_like, str_mem, orb, andb, negb in *.
Ltac split_match :=
  match goal with
  | |- context [match map_result ?f ?l with _ => _ end] => destruct (map_result f l)
  | |- context [match all_m ?f ?l with _ => _ end] => destruct (all_m f l)
  | |- context [match ?x with _ => _ end] =>
      lazymatch x with
      | context [match _ with _ => _ end] => fail
      | _ => destruct x
      end
  end.
Ltac split_match_eq :=
  match goal with
  | |- context [match ?x with _ => _ end] =>
      lazymatch x with
      | context [match _ with _ => _ end] => fail
      | _ => destruct x eqn:?
      end
  end.
Ltac crush := unf; unfold run_flow in *; cbn -[str_eqb Z.pow]; rewrite ?str_eqb_nil_r;
  repeat (first [split_match | progress (unf; unfold run_flow in * )]; cbn -[str_eqb Z.pow]); auto.

Lemma f_abs_lt : forall f, f_lt_Z (f_absv f) 9007199254740992 = f_abs_lt_pow2 f 53.
Proof.
  change 9007199254740992 with (2 ^ 53).
  destruct f as [| | |m e]; try reflexivity. cbn [f_absv f_lt_Z f_abs_lt_pow2].
  destruct (Z.leb_spec 0 e); [reflexivity|].
  replace (53 - e) with (53 + - e) by ring. rewrite Z.pow_add_r by lia. reflexivity.
Qed.

Lemma f_trunc_finite : forall f, f_is_inf f = false -> f_is_nan f = false -> exists n, f_trunc f = TrOk n.
Proof.
  destruct f as [| | |m e]; cbn [f_is_inf f_is_nan]; intros; try discriminate; unfold f_trunc; eauto.
  destruct (0 <=? e); eauto.
Qed.

Section Bridge.
Variable orc : oracles.

Lemma gen_is_int_short_int : forall b z, gen_is_int_short (PInt b z) = Ok (is_int_short z).
Proof. intros b z. unfold gen_is_int_short, is_int_short, r_and, p_le, p_lt. cbn. destruct (_ <=? z); reflexivity. Qed.

Lemma bridge_Text_do_convert : forall v, same_res (gen_Text_do_convert orc v) (text_do_convert orc v).
Proof.
  intros v. unfold gen_Text_do_convert, text_do_convert. destruct v; try (crush; fail).
  unf; cbn. rewrite f_abs_lt. repeat (split_match_eq; cbn); auto;
    match goal with
    | Hi : f_is_inf ?f = false, Hn : f_is_nan ?f = false, Ht : f_trunc ?f = _ |- _ =>
        destruct (f_trunc_finite f Hi Hn) as [n Hk]; congruence
    end.
Qed.
Lemma bridge_Blob_do_convert : forall v, same_res (gen_Blob_do_convert v) (do_convert orc TBlob v).
Proof. intros v. unfold gen_Blob_do_convert. destruct v; crush. Qed.

Lemma bridge_Any_do_convert : forall v, same_res (gen_Any_do_convert orc v) (do_convert orc TAny v).
Proof. intros v. unfold gen_Any_do_convert. destruct v; crush. Qed.

Lemma bridge_Bool_do_convert : forall v, same_res (gen_Bool_do_convert orc v) (bool_do_convert orc v).
Proof. intros v. unfold gen_Bool_do_convert, bool_do_convert, falsy_values, truthy_values. destruct v; crush. Qed.

Lemma bridge_Numeric_do_convert : forall v, same_res (gen_Numeric_do_convert orc v) (numeric_do_convert orc PNone v).
Proof. intros v. unfold gen_Numeric_do_convert, numeric_do_convert. destruct v; crush. Qed.

Lemma bridge_PositionNumber_do_convert : forall v,
  same_res (gen_PositionNumber_do_convert orc v) (numeric_do_convert orc (PFloat false (FInf false)) v).
Proof. intros v. unfold gen_PositionNumber_do_convert, numeric_do_convert. destruct v; crush. Qed.

Ltac short_consts :=
  unfold is_int_short, gen_is_int_short in *;
  change (- 2 ^ 31) with (-2147483648) in *; change (2 ^ 31) with 2147483648 in *.

Lemma bridge_Int_do_convert : forall v, same_res (gen_Int_do_convert orc v) (int_do_convert orc v).
Proof. intros v. unfold gen_Int_do_convert, int_do_convert. short_consts. destruct v; crush. Qed.

Lemma bridge_Id_do_convert : forall v, same_res (gen_Id_do_convert orc v) (id_do_convert orc v).
Proof. intros v. unfold gen_Id_do_convert, id_do_convert. short_consts. destruct v; crush. Qed.

Lemma bridge_Date_do_convert : forall v, same_res (gen_Date_do_convert orc v) (date_do_convert orc v).
Proof. intros v. unfold gen_Date_do_convert, date_do_convert. destruct v; crush. Qed.

Lemma bridge_DateTime_do_convert : forall z v,
  same_res (gen_DateTime_do_convert orc (effective_zone orc z) v) (datetime_do_convert orc z v).
Proof. intros z v. unfold gen_DateTime_do_convert, datetime_do_convert. destruct v; crush. Qed.

(* tuple(str(item) for item in l) in both vocabularies *)
Lemma map_p_str : forall l,
  map_result (fun x => p_str orc x) l = bind (map_result (str_raise orc) l) (fun ss => Ok (map (PStr false) ss)).
Proof.
  induction l as [|x t IH]; [reflexivity|]. cbn [map_result].
  unfold p_str at 1, str_raise at 1. destruct (py_str orc x); cbn [bind]; [|reflexivity].
  rewrite IH. destruct (map_result (str_raise orc) t); reflexivity.
Qed.

Lemma map_result_ext : forall {A B} (f g : A -> result B) l, (forall x, f x = g x) -> map_result f l = map_result g l.
Proof. intros A B f g l H. induction l as [|x t IH]; [reflexivity|]. cbn [map_result]. rewrite H, IH. reflexivity. Qed.

Lemma p_str_eq : forall x, bind (str_raise orc x) (fun s => Ok (PStr false s)) = p_str orc x.
Proof. intros x. unfold p_str, str_raise. destruct (py_str orc x); reflexivity. Qed.

Lemma strs_of_as_p_str : forall l,
  strs_of orc l = bind (map_result (fun x => p_str orc x) l) (fun l' => Ok (PTuple l')).
Proof. intros l. unfold strs_of. rewrite (map_result_ext _ (fun x => p_str orc x) l p_str_eq). reflexivity. Qed.

Lemma sorted_plain_strs : forall ss, p_sorted_strs (map (PStr false) ss) = Ok (map (PStr false) (sort_strs ss)).
Proof.
  intros ss. unfold p_sorted_strs.
  assert (H : map_result (fun x => match x with PStr _ s => Ok s | _ => Raise E_Type end) (map (PStr false) ss) = Ok ss).
  { induction ss as [|s t IH]; [reflexivity|]. cbn [map map_result]. cbn [bind]. rewrite IH. reflexivity. }
  rewrite H. reflexivity.
Qed.

Lemma bridge_ChoiceList_do_convert : forall v, same_res (gen_ChoiceList_do_convert orc v) (choicelist_do_convert orc v).
Proof.
  intros v. unfold gen_ChoiceList_do_convert, choicelist_do_convert. destruct v; try (crush; fail).
  - (* str: the JSON branch *)
    unf; cbn -[str_eqb Z.pow starts_with]. destruct s as [|c s]; [cbn; auto|]. cbn -[str_eqb Z.pow starts_with].
    destruct (starts_with _ (c :: s)); cbn -[str_eqb Z.pow starts_with]; [|auto].
    destruct (o_json_loads orc (c :: s)) as [j|]; cbn -[str_eqb Z.pow starts_with]; [|auto].
    destruct j; cbn -[str_eqb Z.pow strs_of];
      try match goal with |- context [o_iter orc ?i] => destruct (o_iter orc i); cbn -[str_eqb Z.pow strs_of] end;
      rewrite ?strs_of_as_p_str; crush.
  - cbn -[str_eqb Z.pow strs_of]; rewrite ?strs_of_as_p_str; crush.
  - cbn -[str_eqb Z.pow strs_of]; rewrite ?strs_of_as_p_str; crush.
  - cbn -[str_eqb Z.pow strs_of]; rewrite ?strs_of_as_p_str; crush.
  - cbn -[str_eqb Z.pow strs_of]; rewrite ?strs_of_as_p_str; crush.
  - (* set: sorted *)
    cbn -[str_eqb Z.pow strs_of]. destruct l as [|x l]; [crush|]. cbn [negb]. rewrite map_p_str. unfold strs_of_sorted.
    destruct (map_result (str_raise orc) (x :: l)) as [ss|e]; cbn [bind fl_seq fl_bind run_flow]; rewrite ?sorted_plain_strs; cbn; auto.
  - cbn -[str_eqb Z.pow strs_of]; rewrite ?strs_of_as_p_str; crush.
  - (* opaque *)
    unf; cbn -[str_eqb Z.pow strs_of]. destruct (o_truthy orc id) as [[|]|]; cbn -[str_eqb Z.pow strs_of]; auto.
    destruct (o_iter orc id); cbn -[str_eqb Z.pow strs_of]; rewrite ?strs_of_as_p_str; crush.
Qed.

(* ---- ReferenceList.do_convert: the str pre-processing, then the tail, then the per-element pass ---- *)
Definition reflist_generic (v : value) : result value :=
  bind (py_iter orc v) (fun items => bind (map_result (id_do_convert orc) items) (fun l => Ok (PList LPlain l))).

Definition reflist_tail (t : str) (v : value) : result value :=
  match v with
  | PRecordSet t' _ rows info =>
      if str_eqb t' t then Ok (PList (LRecordList info) (map (PInt false) rows)) else Raise E_Assertion
  | _ =>
    match py_truthy orc v with
    | None => Raise E_Type
    | Some false => Ok PNone
    | Some true =>
        match v with
        | PList _ l =>
            if forallb (is_recordset_of t) l then
              Ok (PList LPlain (map (PInt false)
                    (dedup_Z [] (flat_map (fun x => match x with PRecordSet _ _ rows _ => rows | _ => [] end) l))))
            else reflist_generic v
        | _ => reflist_generic v
        end
    end
  end.

Lemma reflist_split : forall t v0, reflist_do_convert orc t v0 = reflist_tail t (reflist_pre orc v0).
Proof. reflexivity. Qed.

Definition same_list (a b : result (list value)) : Prop :=
  match a, b with Ok x, Ok y => x = y | Raise _, Raise _ => True | _, _ => False end.

Lemma map_result_same : forall (f g : value -> result value) l,
  (forall x, same_res (f x) (g x)) -> same_list (map_result f l) (map_result g l).
Proof.
  intros f g l H. induction l as [|x t IH]; cbn [map_result]; [reflexivity|].
  specialize (H x). destruct (f x), (g x); cbn in *; try contradiction; auto. subst.
  destruct (map_result f t), (map_result g t); cbn in *; try contradiction; auto. subst. reflexivity.
Qed.

Lemma bridge_RL_k2 : forall t v p a b,
  same_res (run_flow (gen_ReferenceList_do_convert_k2 orc t (v, p, a, b))) (reflist_generic v).
Proof.
  intros t v p a b. unfold gen_ReferenceList_do_convert_k2, reflist_generic, p_iter.
  destruct (py_iter orc v) as [items|e]; cbn [bind fl_bind run_flow]; [|exact I].
  pose proof (map_result_same (fun x => gen_Id_do_convert orc x) (id_do_convert orc) items bridge_Id_do_convert) as H.
  destruct (map_result (fun v_val : value => gen_Id_do_convert orc v_val) items), (map_result (id_do_convert orc) items);
    cbn in *; try contradiction; auto. subst. reflexivity.
Qed.

Lemma all_recordsets : forall t l,
  all_m (fun v_rset => r_and (Ok (p_isinstance [C_RecordSet] v_rset)) (p_table_is v_rset t)) l = Ok (forallb (is_recordset_of t) l).
Proof.
  intros t l. induction l as [|x r IH]; [reflexivity|]. cbn [all_m forallb]. rewrite IH.
  destruct x; try reflexivity. cbn. destruct (str_eqb t0 t); reflexivity.
Qed.

Lemma flatten_recordsets : forall t l, forallb (is_recordset_of t) l = true ->
  bind (map_result (fun v_rset => bind (p_row_ids v_rset) (fun m_ => map_result (fun v_row_id => Ok v_row_id) m_)) l)
       (fun ll_ => Ok (List.concat ll_)) =
  Ok (map (PInt false) (flat_map (fun x => match x with PRecordSet _ _ rows _ => rows | _ => [] end) l)).
Proof.
  intros t l H. induction l as [|x r IH]; [reflexivity|]. cbn [forallb] in H. apply andb_true_iff in H as [Hx Hr].
  specialize (IH Hr). destruct x; try discriminate. cbn [map_result p_row_ids bind flat_map].
  assert (Hid : forall m : list value, map_result (fun v_row_id => Ok v_row_id) m = Ok m).
  { induction m as [|y m IHm]; [reflexivity|]. cbn [map_result bind]. rewrite IHm. reflexivity. }
  rewrite Hid. cbn [bind].
  destruct (map_result _ r) as [ll|e]; cbn [bind] in *; [|discriminate]. inversion IH as [Hll].
  cbn [List.concat]. rewrite Hll, map_app. reflexivity.
Qed.

Lemma dedup_ints : forall zs, p_dedup (map (PInt false) zs) = Ok (map (PInt false) (dedup_Z [] zs)).
Proof.
  intros zs. unfold p_dedup.
  assert (H : map_result (fun x => match x with PInt _ z => Ok z | _ => Raise E_Type end) (map (PInt false) zs) = Ok zs).
  { induction zs as [|z r IH]; [reflexivity|]. cbn [map map_result bind]. rewrite IH. reflexivity. }
  rewrite H. reflexivity.
Qed.

Lemma bridge_RL_k1 : forall t v p a b,
  same_res (run_flow (gen_ReferenceList_do_convert_k1 orc t (v, p, a, b))) (reflist_tail t v).
Proof.
  intros t v p a b. unfold gen_ReferenceList_do_convert_k1, reflist_tail.
  destruct v;
    try (unf; cbn -[str_eqb Z.pow gen_ReferenceList_do_convert_k2 reflist_generic];
         repeat (split_match; cbn -[str_eqb Z.pow gen_ReferenceList_do_convert_k2 reflist_generic]);
         first [exact I | reflexivity | apply bridge_RL_k2]; fail).
  (* list *)
  destruct l as [|x l]; [reflexivity|].
  unfold p_iter. cbn [py_iter bind]. rewrite all_recordsets.
  unfold fl_seq, fl_bind, r_not, r_and, p_truth.
  cbn [p_isinstance existsb isinstance1 orb py_truthy bind negb].
  destruct (forallb (is_recordset_of t) (x :: l)) eqn:E.
  - rewrite (flatten_recordsets t _ E). unfold p_iter. cbn [bind py_iter]. rewrite dedup_ints. reflexivity.
  - apply bridge_RL_k2.
Qed.

Lemma all_pos_ints : forall l,
  all_m (fun v_v => r_and (Ok (p_isinstance [C_int] v_v)) (p_gt v_v (PInt false 0))) l = Ok (forallb is_pos_int l).
Proof.
  induction l as [|x r IH]; [reflexivity|]. cbn [all_m forallb]. rewrite IH.
  destruct x; try reflexivity; cbn.
  - destruct b; reflexivity.
  - destruct (0 <? z); reflexivity.
Qed.

Lemma bridge_ReferenceList_do_convert : forall t v,
  same_res (gen_ReferenceList_do_convert orc t v) (reflist_do_convert orc t v).
Proof.
  intros t v. rewrite reflist_split. unfold gen_ReferenceList_do_convert.
  destruct v; try (cbn -[gen_ReferenceList_do_convert_k1 reflist_tail]; apply bridge_RL_k1; fail).
  (* str: the pre-processing inside try/except *)
  unfold fl_seq, fl_try, fl_bind, p_startswith, p_json_loads, p_reclist_from_repr, p_iter, r_and.
  cbn [p_isinstance existsb isinstance1 orb reflist_pre].
  destruct (starts_with (Str "[") s).
  - destruct (o_json_loads orc s) as [j|]; [|apply bridge_RL_k1].
    destruct j; try (cbn -[gen_ReferenceList_do_convert_k1 reflist_tail]; apply bridge_RL_k1; fail).
    cbn [p_isinstance existsb isinstance1 orb py_iter bind]. rewrite all_pos_ints. cbn [bind].
    destruct (forallb is_pos_int l); apply bridge_RL_k1.
  - destruct (reclist_from_repr orc s); apply bridge_RL_k1.
Qed.

(* ---- is_right_type ---- *)
Lemma bridge_Id_is_right_type : forall v, gen_Id_is_right_type v = Ok (is_short_exact_int v).
Proof.
  intros v. unfold gen_Id_is_right_type. short_consts. unfold is_short_exact_int. short_consts.
  destruct v; try reflexivity. destruct sub; [reflexivity|]. unf. cbn. destruct (_ <=? z); reflexivity.
Qed.

Lemma all_strs : forall l,
  all_m (fun v_item => Ok (p_isinstance [C_str] v_item)) l = Ok (forallb (fun x => match x with PStr _ _ => true | _ => false end) l).
Proof.
  induction l as [|x r IH]; [reflexivity|]. cbn [all_m forallb]. rewrite IH. destruct x; reflexivity.
Qed.

Lemma all_short_ids : forall l, all_m (fun v_val => gen_Id_is_right_type v_val) l = Ok (forallb is_short_exact_int l).
Proof.
  induction l as [|x r IH]; [reflexivity|]. cbn [all_m forallb]. rewrite bridge_Id_is_right_type, IH.
  cbn [bind]. destruct (is_short_exact_int x); reflexivity.
Qed.

Lemma bridge_is_right_type : forall T v, gen_is_right_type orc T v = Ok (is_right_type T v).
Proof.
  intros T v. destruct T; cbn [gen_is_right_type is_right_type]; try apply bridge_Id_is_right_type.
  - destruct v; reflexivity.
  - destruct v; reflexivity.
  - reflexivity.
  - destruct v; reflexivity.
  - unfold gen_Int_is_right_type. destruct v; try reflexivity.
    change (r_and (Ok (p_type_in [C_int] (PInt sub z))) (gen_is_int_short (PInt sub z))) with (gen_Id_is_right_type (PInt sub z)).
    rewrite bridge_Id_is_right_type. reflexivity.
  - destruct v; try reflexivity; destruct sub; reflexivity.
  - destruct v; reflexivity.
  - destruct v; reflexivity.
  - destruct v; reflexivity.
  - unfold gen_ChoiceList_is_right_type, p_iter. destruct v; try reflexivity; cbn [p_is_none p_isinstance existsb isinstance1 orb r_or r_and bind py_iter];
      rewrite all_strs; reflexivity.
  - destruct v; try reflexivity; destruct sub; reflexivity.
  - destruct v; try reflexivity; destruct sub; reflexivity.
  - unfold gen_ReferenceList_is_right_type, p_iter. destruct v; try reflexivity. destruct k;
      cbn [p_is_none p_isinstance existsb isinstance1 orb r_or r_and bind py_iter]; rewrite ?all_short_ids; reflexivity.
  - unfold gen_ReferenceList_is_right_type, p_iter. destruct v; try reflexivity. destruct k;
      cbn [p_is_none p_isinstance existsb isinstance1 orb r_or r_and bind py_iter]; rewrite ?all_short_ids; reflexivity.
Qed.

(* ---- the dispatch over type objects, and BaseColumnType.convert ---- *)
Lemma bridge_do_convert : forall T v, same_res (gen_do_convert orc T v) (do_convert orc T v).
Proof.
  intros T v. destruct T; cbn [gen_do_convert do_convert].
  - apply bridge_Text_do_convert.
  - apply bridge_Blob_do_convert.
  - apply bridge_Any_do_convert.
  - apply bridge_Bool_do_convert.
  - apply bridge_Int_do_convert.
  - apply bridge_Numeric_do_convert.
  - apply bridge_Date_do_convert.
  - apply bridge_DateTime_do_convert.
  - apply bridge_Text_do_convert.
  - apply bridge_ChoiceList_do_convert.
  - apply bridge_PositionNumber_do_convert.
  - apply bridge_PositionNumber_do_convert.
  - apply bridge_Id_do_convert.
  - apply bridge_Id_do_convert.
  - apply bridge_ReferenceList_do_convert.
  - apply bridge_ReferenceList_do_convert.
Qed.

Lemma bridge_convert : forall T v, gen_convert_T orc T v = Ok (convert orc T v).
Proof.
  intros T v. unfold gen_convert_T, gen_convert, convert. pose proof (bridge_do_convert T v) as H.
  destruct (is_error v) eqn:Herr.
  { destruct v; try discriminate. reflexivity. }
  assert (Hi : p_isinstance [C_RaisedException] v = false) by (destruct v; try discriminate; reflexivity).
  rewrite Hi. cbn [fl_seq]. unfold fl_try, fl_bind.
  destruct (gen_do_convert orc T v) as [w|e], (do_convert orc T v) as [w'|e']; cbn in H; try contradiction.
  - subst; reflexivity.
  - unfold alt_text, p_safe_repr, p_str. destruct v; cbn [p_isinstance existsb isinstance1 orb fl_seq run_flow]; try reflexivity;
      destruct (py_str orc _); reflexivity.
Qed.

End Bridge.
