(* Pending calc deltas of SEVERAL recomputed columns are rolled back by flush + revert (C04). *)
From stdpp Require Import gmap sorting.
Require Import Grist.Model.Rollback Grist.Proofs.Rollback_proofs Grist.Proofs.Rollback_actions Grist.Proofs.Rollback_undo
  Grist.Proofs.Rollback_run Grist.Proofs.Rollback_inside Grist.Proofs.Rollback_flush Grist.Proofs.Rollback_calc.
Open Scope Z_scope.

(* ---------------------------------------------------------------------------------------------------------- *)
(* association lists as used by the summary model *)
Definition assoc_put {K V} `{EqDecision K} (k : K) (v : V) (l : list (K * V)) : list (K * V) :=
  match assoc_get k l with
  | Some _ => map (fun kv => if decide (kv.1 = k) then (k, v) else kv) l
  | None => l ++ [(k, v)]
  end.

Lemma assoc_get_app {K V} `{EqDecision K} (k : K) (l1 l2 : list (K * V)) :
  assoc_get k (l1 ++ l2) = match assoc_get k l1 with Some v => Some v | None => assoc_get k l2 end.
Proof. induction l1 as [|[k' v'] l1 IH]; simpl; [reflexivity|]. destruct (decide (k' = k)); [reflexivity|exact IH]. Qed.

Lemma assoc_get_replace {K V} `{EqDecision K} (k k0 : K) (v : V) (l : list (K * V)) :
  assoc_get k0 (map (fun kv => if decide (kv.1 = k) then (k, v) else kv) l)
  = if decide (k0 = k) then (fun _ => v) <$> assoc_get k l else assoc_get k0 l.
Proof.
  induction l as [|[k' v'] l IH]; simpl; [destruct (decide (k0 = k)); reflexivity|].
  destruct (decide (k' = k)) as [->|Hne]; simpl.
  - destruct (decide (k = k0)) as [->|Hne0]; [rewrite decide_True by reflexivity; reflexivity|].
    rewrite IH. destruct (decide (k0 = k)); [congruence|reflexivity].
  - destruct (decide (k' = k0)) as [->|Hne0].
    + rewrite decide_False by auto. reflexivity.
    + rewrite IH. reflexivity.
Qed.

Lemma assoc_get_put {K V} `{EqDecision K} (k k0 : K) (v : V) (l : list (K * V)) :
  assoc_get k0 (assoc_put k v l) = if decide (k0 = k) then Some v else assoc_get k0 l.
Proof.
  unfold assoc_put. destruct (assoc_get k l) as [v0|] eqn:E.
  - rewrite assoc_get_replace, E. destruct (decide (k0 = k)); reflexivity.
  - rewrite assoc_get_app. simpl. destruct (decide (k0 = k)) as [->|Hne].
    + rewrite E, decide_True by reflexivity. reflexivity.
    + rewrite decide_False by auto. destruct (assoc_get k0 l); reflexivity.
Qed.

Lemma assoc_get_Some_in {K V} `{EqDecision K} (k : K) (v : V) l : assoc_get k l = Some v -> (k, v) ∈ l.
Proof.
  induction l as [|[k' v'] l IH]; simpl; [discriminate|]. destruct (decide (k' = k)) as [->|]; [intros [= ->]; left|intros H; right; auto].
Qed.

Lemma assoc_get_None_notin {K V} `{EqDecision K} (k : K) (l : list (K * V)) : assoc_get k l = None -> k ∉ l.*1.
Proof.
  induction l as [|[k' v'] l IH]; simpl; [intros _; apply not_elem_of_nil|]. destruct (decide (k' = k)); [discriminate|].
  intros H Hin. apply elem_of_cons in Hin as [Hin|Hin]; [congruence|]. exact (IH H Hin).
Qed.

Lemma assoc_get_in_nodup {K V} `{EqDecision K} (k : K) (v : V) l : NoDup l.*1 -> (k, v) ∈ l -> assoc_get k l = Some v.
Proof.
  induction l as [|[k' v'] l IH]; simpl; intros Hnd Hin; [inversion Hin|]. apply NoDup_cons in Hnd as [Hn Hnd].
  apply elem_of_cons in Hin as [[= -> ->]|Hin]; [rewrite decide_True by reflexivity; reflexivity|].
  rewrite decide_False; [auto|]. intros ->. apply Hn. apply elem_of_list_fmap. exists (k, v). auto.
Qed.

Lemma assoc_put_keys {K V} `{EqDecision K} (k : K) (v : V) (l : list (K * V)) :
  (assoc_put k v l).*1 = match assoc_get k l with Some _ => l.*1 | None => l.*1 ++ [k] end.
Proof.
  unfold assoc_put. destruct (assoc_get k l); [|rewrite fmap_app; reflexivity].
  induction l as [|[k' v'] l IH]; [reflexivity|]. simpl. destruct (decide (k' = k)) as [->|]; simpl; f_equal; exact IH.
Qed.

Lemma assoc_put_nodup {K V} `{EqDecision K} (k : K) (v : V) (l : list (K * V)) : NoDup l.*1 -> NoDup (assoc_put k v l).*1.
Proof.
  intros Hnd. rewrite assoc_put_keys. destruct (assoc_get k l) eqn:E; [exact Hnd|].
  apply NoDup_app. split; [exact Hnd|]. split; [|apply NoDup_singleton].
  intros x Hx Hx'. apply elem_of_list_singleton in Hx'. subst x. exact (assoc_get_None_notin _ _ E Hx).
Qed.

Lemma assoc_put_Forall {K V} `{EqDecision K} (P : K * V -> Prop) (k : K) (v : V) (l : list (K * V)) :
  Forall P l -> P (k, v) -> Forall P (assoc_put k v l).
Proof.
  intros Hl Hp. unfold assoc_put. destruct (assoc_get k l).
  - apply Forall_fmap. eapply Forall_impl; [exact Hl|]. intros [k' v'] Hkv. simpl. destruct (decide (k' = k)); [exact Hp|exact Hkv].
  - apply Forall_app. split; [exact Hl|repeat constructor; exact Hp].
Qed.

Lemma put_table_assoc t td sm :
  put_table t td sm = {| sm_renames := sm_renames sm; sm_tables := assoc_put t td (sm_tables sm) |}.
Proof. reflexivity. Qed.

Lemma td_add_changes_assoc c ch td :
  td_add_changes c ch td =
  {| td_before := td_before td; td_after := td_after td; td_renames := td_renames td;
     td_deltas := assoc_put c (merge_changes (default ∅ (assoc_get c (td_deltas td))) ch) (td_deltas td) |}.
Proof. reflexivity. Qed.

(* ---------------------------------------------------------------------------------------------------------- *)
(* summaries that only ever saw add_changes: no renames, no row marks, plain names, distinct keys *)
Definition td_plain (td : table_delta) : Prop :=
  td_before td = ∅ /\ td_after td = ∅ /\ td_renames td = [] /\
  Forall (fun cm => cm.1.1 = false) (td_deltas td) /\ NoDup (td_deltas td).*1.
Definition sm_plain (sm : summary) : Prop :=
  sm_renames sm = [] /\ Forall (fun ttd => ttd.1.1 = false /\ td_plain ttd.2) (sm_tables sm) /\ NoDup (sm_tables sm).*1.

Definition sm_get (sm : summary) (t c : name) : option (gmap rowid (val * val)) :=
  assoc_get (false, c) (td_deltas (for_table (false, t) sm)).

Lemma td_empty_plain : td_plain td_empty.
Proof. repeat split; try reflexivity; [constructor|apply NoDup_nil_2]. Qed.

Lemma for_table_plain t sm : sm_plain sm -> td_plain (for_table t sm).
Proof.
  intros (_ & Hf & _). unfold for_table. destruct (assoc_get t (sm_tables sm)) as [td|] eqn:E; simpl; [|apply td_empty_plain].
  apply assoc_get_Some_in in E. exact (proj2 (proj1 (Forall_forall _ _) Hf _ E)).
Qed.

Lemma sm_step_add_changes sm t c ch :
  sm_plain sm ->
  sm_plain (sm_step sm (SAddChanges t c ch)) /\
  forall t' c', sm_get (sm_step sm (SAddChanges t c ch)) t' c'
                = if decide (t' = t /\ c' = c) then Some (merge_changes (default ∅ (sm_get sm t c)) ch)
                  else sm_get sm t' c'.
Proof.
  intros Hp. pose proof (for_table_plain (false, t) sm Hp) as (Hb & Ha & Hr & Hfc & Hnc).
  destruct Hp as (Hrn & Hft & Hnt). simpl. rewrite put_table_assoc, td_add_changes_assoc. split.
  - split; [exact Hrn|]. simpl. split; [|apply assoc_put_nodup; exact Hnt].
    apply assoc_put_Forall; [exact Hft|]. simpl. split; [reflexivity|].
    unfold td_plain. simpl. repeat split; try assumption;
      first [apply assoc_put_nodup; exact Hnc | apply assoc_put_Forall; [exact Hfc|reflexivity]].
  - intros t' c'. unfold sm_get, for_table at 1. simpl. rewrite assoc_get_put.
    destruct (decide (t' = t)) as [->|Hne].
    + rewrite decide_True by reflexivity. simpl. rewrite assoc_get_put. destruct (decide (c' = c)) as [->|Hnc'].
      * rewrite !decide_True by auto. reflexivity.
      * rewrite decide_False by congruence. rewrite decide_False by (intros [_ ?]; contradiction). reflexivity.
    + rewrite decide_False by congruence. rewrite decide_False by (intros [? _]; contradiction). reflexivity.
Qed.

Lemma sm_empty_plain : sm_plain sm_empty.
Proof. repeat split; [constructor|apply NoDup_nil_2]. Qed.

(* ---------------------------------------------------------------------------------------------------------- *)
(* the flush of a plain summary: one appended BulkUpdateRecord per column with changed rows, nothing at the front *)
Definition back1 (t c : name) (m : gmap rowid (val * val)) : list action :=
  match changed_rows m with
  | [] => []
  | _ => [BulkUpdateRecord t (changed_rows m) [(c, map (fun r => from_option fst 0 (m !! r)) (changed_rows m))]]
  end.

Lemma changes_to_undo_plain sm t td c m :
  sm_plain sm -> ((false, t), td) ∈ sm_tables sm -> td_plain td ->
  changes_to_undo sm (false, t) td (false, c) m = ([], back1 t c m).
Proof.
  intros (Hrn & Hft & Hnt) Hin (Hb & Ha & Hr & _ & _). unfold changes_to_undo. simpl.
  rewrite (assoc_get_in_nodup _ _ _ Hnt Hin). simpl. rewrite Hrn, Hr, Hb, Ha. simpl. fold (changed_rows m).
  rewrite (filter_all (fun r => (∅ : gmap rowid bool) !! r ≠ Some false)) by (apply Forall_forall; intros r _; rewrite lookup_empty; discriminate).
  rewrite (filter_all (fun r => (∅ : gmap rowid bool) !! r ≠ Some false)) by (apply Forall_forall; intros r _; rewrite lookup_empty; discriminate).
  rewrite (filter_nothing (fun r => r ∉ changed_rows m)) by (intros x Hx Hn; exact (Hn Hx)).
  unfold back1. destruct (changed_rows m); reflexivity.
Qed.

Definition backs (sm : summary) : list action :=
  flat_map (fun ttd => flat_map (fun cm => back1 (root ttd.1) (root cm.1) cm.2) (td_deltas ttd.2)) (sm_tables sm).

Lemma flush_plain sm : sm_plain sm -> flush_undo_of sm = ([], backs sm).
Proof.
  intros Hp. unfold flush_undo_of, backs.
  assert (Hgen : forall l acc, (forall ttd, ttd ∈ l -> ttd ∈ sm_tables sm) -> acc.1 = [] ->
    foldl (fun acc ttd =>
             foldl (fun acc cm => let fb := changes_to_undo sm ttd.1 ttd.2 cm.1 cm.2 in (fb.1 ++ acc.1, acc.2 ++ fb.2))
                   acc (td_deltas ttd.2)) acc l
    = ([], acc.2 ++ flat_map (fun ttd => flat_map (fun cm => back1 (root ttd.1) (root cm.1) cm.2) (td_deltas ttd.2)) l)).
  { induction l as [|[[bt t] td] l IH]; intros acc Hl Hacc.
    - simpl. rewrite app_nil_r. destruct acc; simpl in *; subst; reflexivity.
    - simpl. assert (Hin : ((bt, t), td) ∈ sm_tables sm) by (apply Hl; left).
      destruct Hp as (Hrn & Hft & Hnt). destruct (proj1 (Forall_forall _ _) Hft _ Hin) as [Hbt Htd]. simpl in Hbt. subst bt.
      assert (Hinner : forall dl acc0, (forall cm, cm ∈ dl -> cm ∈ td_deltas td) -> acc0.1 = [] ->
        foldl (fun acc cm => let fb := changes_to_undo sm (false, t) td cm.1 cm.2 in (fb.1 ++ acc.1, acc.2 ++ fb.2)) acc0 dl
        = ([], acc0.2 ++ flat_map (fun cm => back1 t (root cm.1) cm.2) dl)).
      { induction dl as [|[[bc c] m] dl IHd]; intros acc0 Hdl Hacc0.
        - simpl. rewrite app_nil_r. destruct acc0; simpl in *; subst; reflexivity.
        - simpl. assert (Hcin : ((bc, c), m) ∈ td_deltas td) by (apply Hdl; left).
          destruct Htd as (_ & _ & _ & Hfc & _). pose proof (proj1 (Forall_forall _ _) Hfc _ Hcin) as Hbc. simpl in Hbc. subst bc.
          rewrite (changes_to_undo_plain sm t td c m); [|repeat split; assumption|exact Hin|exact (proj2 (proj1 (Forall_forall _ _) Hft _ Hin))].
          simpl. rewrite IHd; [|intros cm Hcm; apply Hdl; right; exact Hcm|simpl; exact Hacc0]. simpl. rewrite <- app_assoc. reflexivity. }
      rewrite Hinner; [|auto|exact Hacc]. rewrite IH; [|intros x Hx; apply Hl; right; exact Hx|reflexivity].
      simpl. rewrite <- app_assoc. reflexivity. }
  rewrite Hgen; [reflexivity|auto|reflexivity].
Qed.

(* ---------------------------------------------------------------------------------------------------------- *)
Definition dcol (d : doc) (t c : name) : option column := d_tables d !! t ≫= fun tb => t_cols tb !! c.

Lemma doc_ext d1 d2 : d_schema d1 = d_schema d2 -> (forall t, d_tables d1 !! t = d_tables d2 !! t) -> d1 = d2.
Proof. destruct d1, d2. simpl. intros -> H. f_equal. apply map_eq. exact H. Qed.

Section ManyCalcColumns.
  Variable ord : name -> list name.
  Variable s : doc.                          (* the document at the checkpoint *)
  Hypothesis Hwfs : wf s.

  (* the document with the selected columns put back to their checkpoint content *)
  Definition reset_col (sel : list (name * name)) (t c : name) (col : column) : column :=
    if decide ((t, c) ∈ sel) then default col (dcol s t c) else col.
  Definition reset_tb (sel : list (name * name)) (t : name) (tb : table) : table :=
    {| t_rows := t_rows tb; t_cols := map_imap (fun c col => Some (reset_col sel t c col)) (t_cols tb) |}.
  Definition reset_sel (sel : list (name * name)) (d : doc) : doc :=
    {| d_schema := d_schema d; d_tables := map_imap (fun t tb => Some (reset_tb sel t tb)) (d_tables d) |}.

  Lemma reset_tables_lookup sel d t : d_tables (reset_sel sel d) !! t = reset_tb sel t <$> d_tables d !! t.
  Proof. unfold reset_sel. simpl. rewrite map_lookup_imap. destruct (d_tables d !! t); reflexivity. Qed.
  Lemma reset_cols_lookup sel t tb c : t_cols (reset_tb sel t tb) !! c = reset_col sel t c <$> t_cols tb !! c.
  Proof. unfold reset_tb. simpl. rewrite map_lookup_imap. destruct (t_cols tb !! c); reflexivity. Qed.

  (* writing columns that are not selected commutes with the reset *)
  Lemma reset_write_cols sel t rows vals tb :
    (forall c, c ∈ vals.*1 -> (t, c) ∉ sel) ->
    reset_tb sel t (write_cols rows vals tb) = write_cols rows vals (reset_tb sel t tb).
  Proof.
    intros Hn. apply table_ext; [simpl; rewrite !write_cols_rows; reflexivity|]. intros c.
    rewrite reset_cols_lookup, !write_cols_lookup, reset_cols_lookup.
    destruct (t_cols tb !! c) as [col|]; simpl; [|reflexivity]. f_equal.
    destruct (decide (c ∈ vals.*1)) as [Hin|Hnin].
    - unfold reset_col. rewrite !decide_False by (apply Hn; exact Hin). reflexivity.
    - rewrite !col_writes_notin by exact Hnin. reflexivity.
  Qed.

  Lemma reset_tset sel t tb d : reset_sel sel (tset t tb d) = tset t (reset_tb sel t tb) (reset_sel sel d).
  Proof.
    apply doc_ext; [reflexivity|]. intros t'. rewrite reset_tables_lookup. simpl.
    destruct (decide (t' = t)) as [->|Hne]; [rewrite !lookup_insert; reflexivity|].
    rewrite !lookup_insert_ne by auto. rewrite map_lookup_imap. destruct (d_tables d !! t'); reflexivity.
  Qed.

  Lemma update_undo_reset_sel sel t rows vals tb :
    (forall c, c ∈ vals.*1 -> (t, c) ∉ sel) -> update_undo (reset_tb sel t tb) rows vals = update_undo tb rows vals.
  Proof.
    intros Hn. unfold update_undo. induction vals as [|cv vals IH]; [reflexivity|].
    cbn [omap list_omap]. rewrite reset_cols_lookup. unfold reset_col at 1.
    rewrite IH by (intros c Hc; apply Hn; right; exact Hc).
    destruct (t_cols tb !! cv.1) as [col|]; simpl; [|reflexivity].
    rewrite decide_False by (apply Hn; left). reflexivity.
  Qed.

  (* recomputing a selected column does not change the reset document *)
  Lemma reset_calc sel t c f d col0 :
    (t, c) ∈ sel -> dcol s t c = Some col0 ->
    reset_sel sel (upd_table t (upd_col c f) d) = reset_sel sel d.
  Proof.
    intros Hin Hc. apply doc_ext; [reflexivity|]. intros t'. rewrite !reset_tables_lookup. unfold upd_table. simpl.
    destruct (decide (t' = t)) as [->|Hne]; [|rewrite lookup_alter_ne by auto; reflexivity].
    rewrite lookup_alter. destruct (d_tables d !! t) as [tb|]; simpl; [|reflexivity]. f_equal.
    apply table_ext; [reflexivity|]. intros c'. rewrite !reset_cols_lookup. unfold upd_col. simpl.
    destruct (decide (c' = c)) as [->|Hne]; [|rewrite lookup_alter_ne by auto; reflexivity].
    rewrite lookup_alter. destruct (t_cols tb !! c) as [col|]; simpl; [|reflexivity].
    unfold reset_col. rewrite !decide_True by exact Hin. rewrite Hc. reflexivity.
  Qed.

  Lemma reset_reset sel1 sel2 d : reset_sel sel1 (reset_sel sel2 d) = reset_sel (sel1 ++ sel2) d.
  Proof.
    apply doc_ext; [reflexivity|]. intros t. rewrite !reset_tables_lookup. destruct (d_tables d !! t) as [tb|]; simpl; [|reflexivity].
    f_equal. apply table_ext; [reflexivity|]. intros c. rewrite !reset_cols_lookup.
    destruct (t_cols tb !! c) as [col|]; simpl; [|reflexivity]. f_equal. unfold reset_col.
    destruct (decide ((t, c) ∈ sel2)) as [H2|H2]; destruct (decide ((t, c) ∈ sel1)) as [H1|H1];
      rewrite ?decide_True by (apply elem_of_app; auto); rewrite ?decide_False by (intros Hx; apply elem_of_app in Hx as [?|?]; contradiction);
      try reflexivity.
    destruct (dcol s t c); reflexivity.
  Qed.

  Variable CC : list (name * name).       (* the recomputed columns *)

  Definition drows (d : doc) (t : name) : option (gset rowid) := t_rows <$> d_tables d !! t.

  Lemma dcol_tset t tb d t' c' : dcol (tset t tb d) t' c' = if decide (t' = t) then t_cols tb !! c' else dcol d t' c'.
  Proof. unfold dcol, tset. simpl. destruct (decide (t' = t)) as [->|Hne]; [rewrite lookup_insert|rewrite lookup_insert_ne by auto]; reflexivity. Qed.
  Lemma drows_tset t tb d t' : drows (tset t tb d) t' = if decide (t' = t) then Some (t_rows tb) else drows d t'.
  Proof. unfold drows, tset. simpl. destruct (decide (t' = t)) as [->|Hne]; [rewrite lookup_insert|rewrite lookup_insert_ne by auto]; reflexivity. Qed.

  Definition ev_okm (e : event) : Prop :=
    match e with
    | EDoc a => match normalize a with
                | BulkUpdateRecord t _ vals => forall c, c ∈ vals.*1 -> (t, c) ∉ CC
                | _ => False end
    | ECalc t c _ => (t, c) ∈ CC
    end.

  (* what the summary knows about a recomputed column: checkpoint value and current value of every changed row *)
  Definition delta_ok (rows : gset rowid) (col col0 : column) (m : gmap rowid (val * val)) : Prop :=
    forall r, match m !! r with
              | None => cget col r = cget col0 r
              | Some ba => ba.1 = cget col0 r /\ ba.2 = cget col r /\ r ∈ rows
              end.
  Definition entry_ok (d : doc) (t c : name) (m : gmap rowid (val * val)) : Prop :=
    exists rows col col0, drows d t = Some rows /\ dcol d t c = Some col /\ dcol s t c = Some col0 /\
      c_info col = c_info col0 /\ wf_col rows col /\ wf_col rows col0 /\ delta_ok rows col col0 m.

  Definition JM (st : mstate) (log : list sumcall) : Prop :=
    let d := ms_doc st in let sm := summary_of log in
    ms_saved st = None /\ wf d /\ wf (reset_sel CC d) /\ replay ord (reset_sel CC d) (rev (ms_undo st)) = Some s /\
    sm_plain sm /\
    (forall t c m, sm_get sm t c = Some m -> (t, c) ∈ CC /\ entry_ok d t c m) /\
    (forall t c col, (t, c) ∈ CC -> sm_get sm t c = None -> dcol d t c = Some col -> dcol s t c = Some col).

  Lemma JM_update st log a st' :
    JM st log -> ev_okm (EDoc a) ->
    exec_all st (event_steps ord (ms_doc st) (EDoc a)) = Some st' ->
    JM st' log /\ sum_log (event_steps ord (ms_doc st) (EDoc a)) = [].
  Proof.
    intros (Hsv & Hw & Hwr & Hrep & Hpl & HK1 & HK2) Hok Hex.
    simpl in *. unfold doc_steps in *. destruct (normalize a) as [| | | | |t rows vals| | | | | | | |] eqn:En; try contradiction.
    set (d := ms_doc st) in *.
    destruct (d_tables d !! t) as [tb|] eqn:Ht.
    2: { exfalso. unfold steps_of in Hex. rewrite Ht in Hex. discriminate. }
    rewrite <- (mstate_eta st), Hsv in Hex. fold d in Hex.
    destruct (exec_update ord d t tb rows vals _ _ _ _ Ht Hex) as (Hr & Hk & ->).
    destruct (wf_schema_of_table _ _ _ Hw Ht) as (sc & Hs & Hwt).
    split.
    2: { unfold steps_of. rewrite Ht. rewrite bool_decide_eq_true_2 by exact Hr. unfold update_steps.
         rewrite (known_prefix_all _ _ Hk), bool_decide_eq_true_2 by reflexivity. simpl. apply sum_log_cells. }
    set (tbr := reset_tb CC t tb).
    assert (Htr : d_tables (reset_sel CC d) !! t = Some tbr) by (rewrite reset_tables_lookup, Ht; reflexivity).
    assert (Hrho' : reset_sel CC (tset t (write_cols rows vals tb) d) = tset t (write_cols rows vals tbr) (reset_sel CC d))
      by (rewrite reset_tset, (reset_write_cols CC t rows vals tb Hok); reflexivity).
    assert (Hkr : Forall (known tbr) vals).
    { eapply Forall_impl; [exact Hk|]. intros cv [cl Hcl]. unfold known, tbr. rewrite reset_cols_lookup, Hcl. eexists. reflexivity. }
    destruct (undo_update ord (reset_sel CC d) t tbr sc rows vals Hwr Htr Hs Hr Hkr) as [Hwr' Hu'].
    destruct (undo_update ord d t tb sc rows vals Hw Ht Hs Hr Hk) as [Hw' _].
    (* recomputed columns are untouched by the update *)
    assert (Hcol : forall t' c', (t', c') ∈ CC -> dcol (tset t (write_cols rows vals tb) d) t' c' = dcol d t' c').
    { intros t' c' Hin. rewrite dcol_tset. destruct (decide (t' = t)) as [->|]; [|reflexivity].
      unfold dcol. rewrite Ht. simpl. rewrite write_cols_lookup. destruct (t_cols tb !! c') as [cl|]; simpl; [|reflexivity].
      rewrite col_writes_notin; [reflexivity|]. intros Hx. exact (Hok c' Hx Hin). }
    assert (Hrw : forall t', drows (tset t (write_cols rows vals tb) d) t' = drows d t').
    { intros t'. rewrite drows_tset. destruct (decide (t' = t)) as [->|]; [|reflexivity]. unfold drows. rewrite Ht, write_cols_rows. reflexivity. }
    split; [reflexivity|]. split; [exact Hw'|]. cbn [ms_doc ms_undo]. rewrite Hrho'. split; [exact Hwr'|].
    split; [rewrite rev_app_distr; simpl; unfold tbr; rewrite <- (update_undo_reset_sel CC t rows vals tb Hok); fold tbr; rewrite Hu'; exact Hrep|].
    split; [exact Hpl|]. split.
    - intros t' c' m Hm. destruct (HK1 t' c' m Hm) as [Hin (rws & col & col0 & H1 & H2 & H3)]. split; [exact Hin|].
      exists rws, col, col0. rewrite Hrw, (Hcol t' c' Hin). auto.
    - intros t' c' col Hin Hn Hd. rewrite (Hcol t' c' Hin) in Hd. exact (HK2 t' c' col Hin Hn Hd).
  Qed.

  Lemma merge_delta_ok rows col col0 m cells :
    delta_ok rows col col0 m -> (forall r, r ∈ cells.*1 -> r ∈ rows) ->
    delta_ok rows (cset_list col cells) col0 (merge_changes m (map (fun rv => (rv.1, cget col rv.1, rv.2)) cells)).
  Proof.
    intros Hm Hin r. rewrite merge_changes_spec, cget_cset_list_last. specialize (Hm r).
    destruct (lastv cells r) as [v|] eqn:El; simpl; [|exact Hm].
    split; [|split; [reflexivity|apply Hin; eapply lastv_Some_in; exact El]].
    destruct (m !! r) as [[b a]|]; simpl in *; [tauto|exact Hm].
  Qed.

  Lemma dcol_upd t c f d t' c' :
    dcol (upd_table t (upd_col c f) d) t' c' = if decide (t' = t /\ c' = c) then f <$> dcol d t c else dcol d t' c'.
  Proof.
    unfold dcol, upd_table. simpl. destruct (decide (t' = t)) as [->|Hne].
    - rewrite lookup_alter. destruct (d_tables d !! t) as [tb|]; simpl.
      + unfold upd_col. simpl. destruct (decide (c' = c)) as [->|Hnc].
        * rewrite lookup_alter, decide_True by auto. reflexivity.
        * rewrite lookup_alter_ne by auto. rewrite decide_False by (intros [_ ?]; contradiction). reflexivity.
      + destruct (decide (t = t /\ c' = c)); reflexivity.
    - rewrite lookup_alter_ne by auto. rewrite decide_False by (intros [? _]; contradiction). reflexivity.
  Qed.

  Lemma drows_upd t c f d t' : drows (upd_table t (upd_col c f) d) t' = drows d t'.
  Proof.
    unfold drows, upd_table. simpl. destruct (decide (t' = t)) as [->|Hne]; [|rewrite lookup_alter_ne by auto; reflexivity].
    rewrite lookup_alter. destruct (d_tables d !! t); reflexivity.
  Qed.

  Lemma JM_calc st log t c cells st' :
    JM st log -> (t, c) ∈ CC ->
    exec_all st (event_steps ord (ms_doc st) (ECalc t c cells)) = Some st' ->
    JM st' (log ++ sum_log (event_steps ord (ms_doc st) (ECalc t c cells))).
  Proof.
    intros HJ HinCC Hex. destruct cells as [|rv0 cells0] eqn:Ecells.
    { simpl in *. injection Hex as <-. rewrite app_nil_r. exact HJ. }
    rewrite <- Ecells in *. assert (Hne : cells ≠ []) by (rewrite Ecells; discriminate). clear Ecells.
    destruct HJ as (Hsv & Hw & Hwr & Hrep & Hpl & HK1 & HK2). set (d := ms_doc st) in *.
    destruct (d_tables d !! t) as [tb|] eqn:Ht.
    2: { exfalso. unfold event_steps in Hex. destruct cells; [contradiction|]. rewrite Ht in Hex. discriminate. }
    destruct (t_cols tb !! c) as [col|] eqn:Hc.
    2: { exfalso. unfold event_steps in Hex. destruct cells; [contradiction|]. rewrite Ht, Hc in Hex. discriminate. }
    assert (Hsteps : event_steps ord d (ECalc t c cells) =
      if bool_decide (Forall (fun rv => rv.1 ∈ t_rows tb) cells)
      then map (fun rv => MSetCell t c rv.1 rv.2) cells ++ [MSum (SAddChanges t c (map (fun rv => (rv.1, cget col rv.1, rv.2)) cells))]
      else [MFail]).
    { unfold event_steps. destruct cells; [contradiction|]. rewrite Ht, Hc. reflexivity. }
    rewrite Hsteps in *. destruct (bool_decide (Forall _ cells)) eqn:Eb; [|discriminate].
    apply bool_decide_eq_true in Eb. rewrite Forall_forall in Eb.
    rewrite exec_set_cells in Hex. simpl in Hex. injection Hex as <-.
    rewrite sum_log_app, sum_log_sets. simpl.
    destruct (wf_schema_of_table _ _ _ Hw Ht) as (sc & Hs & Hwt).
    destruct (wf_table_col _ _ _ _ Hwt Hc) as [Hsc Hwc].
    assert (Hin : forall r, r ∈ cells.*1 -> r ∈ t_rows tb).
    { intros r Hr. apply elem_of_list_fmap in Hr as (rv & -> & Hrv). apply Eb. exact Hrv. }
    assert (Hdc : dcol d t c = Some col) by (unfold dcol; rewrite Ht; exact Hc).
    assert (Hdr : drows d t = Some (t_rows tb)) by (unfold drows; rewrite Ht; reflexivity).
    (* the checkpoint column and what the summary says so far *)
    assert (Hck : exists col0 m0, dcol s t c = Some col0 /\ c_info col = c_info col0 /\ wf_col (t_rows tb) col0 /\
                    delta_ok (t_rows tb) col col0 m0 /\ m0 = default ∅ (sm_get (summary_of log) t c)).
    { destruct (sm_get (summary_of log) t c) as [m|] eqn:Eg.
      - destruct (HK1 t c m Eg) as [_ (rws & cl & col0 & H1 & H2 & H3 & H4 & _ & H5 & H6)].
        rewrite Hdr in H1. injection H1 as <-. rewrite Hdc in H2. injection H2 as <-. exists col0, m. auto.
      - pose proof (HK2 t c col HinCC Eg Hdc) as H0. exists col, ∅. split; [exact H0|]. split; [reflexivity|]. split; [exact Hwc|].
        split; [|reflexivity]. intros r. rewrite lookup_empty. reflexivity. }
    destruct Hck as (col0 & m0 & Hc0 & Hinfo & Hwc0 & Hm0 & Em0).
    set (f := fun cl : column => cset_list cl cells). set (d' := upd_table t (upd_col c f) d).
    assert (Hd' : d' = tset t (upd_col c f tb) d) by (apply upd_table_tset; exact Ht).
    split; [exact Hsv|]. cbn [ms_doc ms_undo]. fold d. fold d'. split.
    { rewrite Hd'. apply (wf_tset_same d t sc); [exact Hw|exact Hs|].
      eapply wf_table_same_schema; [exact Hwt|unfold upd_col; simpl; apply dom_alter_L|].
      intros c0 cl' Hl. destruct (decide (c0 = c)) as [->|Hn0].
      - unfold upd_col in Hl. simpl in Hl. rewrite lookup_alter, Hc in Hl. injection Hl as <-. exists col. split; [exact Hc|].
        split; [apply cset_list_info|]. apply wf_col_cset_list; [exact Hwc|exact Hin].
      - unfold upd_col in Hl. simpl in Hl. rewrite lookup_alter_ne in Hl by auto. exists cl'. split; [exact Hl|]. split; [reflexivity|].
        exact (proj2 (wf_table_col _ _ _ _ Hwt Hl)). }
    unfold d'. rewrite (reset_calc CC t c f d col0 HinCC Hc0). split; [exact Hwr|]. split; [exact Hrep|].
    unfold summary_of. rewrite foldl_app. simpl. fold (summary_of log).
    destruct (sm_step_add_changes (summary_of log) t c (map (fun rv => (rv.1, cget col rv.1, rv.2)) cells) Hpl) as [Hpl' Hget].
    split; [exact Hpl'|]. split.
    - intros t' c' m Hm. rewrite Hget in Hm. destruct (decide (t' = t /\ c' = c)) as [[-> ->]|Hne'].
      + injection Hm as <-. split; [exact HinCC|]. exists (t_rows tb), (f col), col0.
        rewrite drows_upd, dcol_upd, decide_True by auto. rewrite Hdc. split; [exact Hdr|]. split; [reflexivity|]. split; [exact Hc0|].
        split; [unfold f; rewrite cset_list_info; exact Hinfo|]. split; [apply wf_col_cset_list; [exact Hwc|exact Hin]|].
        split; [exact Hwc0|]. rewrite <- Em0. apply merge_delta_ok; assumption.
      + destruct (HK1 t' c' m Hm) as [Hin' (rws & cl & cl0 & H1 & H2 & H3)]. split; [exact Hin'|].
        exists rws, cl, cl0. rewrite drows_upd, dcol_upd, decide_False by exact Hne'. auto.
    - intros t' c' cl Hin' Hn Hd. rewrite Hget in Hn. destruct (decide (t' = t /\ c' = c)) as [|Hne']; [discriminate|].
      rewrite dcol_upd, decide_False in Hd by exact Hne'. exact (HK2 t' c' cl Hin' Hn Hd).
  Qed.

  (* ---- the flush, replayed ---- *)
  Definition entries (sm : summary) : list (name * name * gmap rowid (val * val)) :=
    flat_map (fun ttd => map (fun cm => (root ttd.1, root cm.1, cm.2)) (td_deltas ttd.2)) (sm_tables sm).

  Lemma backs_entries sm : backs sm = flat_map (fun e => back1 e.1.1 e.1.2 e.2) (entries sm).
  Proof.
    unfold backs, entries. induction (sm_tables sm) as [|ttd l IH]; [reflexivity|]. simpl. rewrite flat_map_app, IH. f_equal.
    induction (td_deltas ttd.2) as [|cm dl IHd]; [reflexivity|]. simpl. rewrite IHd. reflexivity.
  Qed.

  Lemma entries_in sm t c m :
    (t, c, m) ∈ entries sm <-> exists bt bc td, ((bt, t), td) ∈ sm_tables sm /\ ((bc, c), m) ∈ td_deltas td.
  Proof.
    unfold entries. rewrite elem_of_list_In, in_flat_map. split.
    - intros ([[bt t'] td] & Hin & Hm). apply in_map_iff in Hm as ([[bc c'] m'] & Heq & Hcm).
      simpl in Heq. injection Heq as <- <- <-. exists bt, bc, td. split; apply elem_of_list_In; assumption.
    - intros (bt & bc & td & H1 & H2). exists ((bt, t), td). split; [apply elem_of_list_In; exact H1|].
      apply in_map_iff. exists ((bc, c), m). split; [reflexivity|apply elem_of_list_In; exact H2].
  Qed.

  Lemma entries_get sm t c m : sm_plain sm -> (t, c, m) ∈ entries sm <-> sm_get sm t c = Some m.
  Proof.
    intros (Hrn & Hft & Hnt). rewrite entries_in. unfold sm_get, for_table. split.
    - intros (bt & bc & td & H1 & H2). destruct (proj1 (Forall_forall _ _) Hft _ H1) as [Hbt (_ & _ & _ & Hfc & Hnc)].
      simpl in Hbt. subst bt. rewrite (assoc_get_in_nodup _ _ _ Hnt H1). simpl.
      pose proof (proj1 (Forall_forall _ _) Hfc _ H2) as Hbc. simpl in Hbc. subst bc. apply (assoc_get_in_nodup _ _ _ Hnc H2).
    - intros H. match type of H with context [default td_empty ?x] => destruct x as [td|] eqn:E end; simpl in H; [|discriminate H].
      exists false, false, td. split; apply assoc_get_Some_in; assumption.
  Qed.

  Lemma entries_nodup sm : sm_plain sm -> NoDup (entries sm).*1.
  Proof.
    intros (_ & Hft & Hnt). unfold entries. induction (sm_tables sm) as [|[[bt t] td] l IH]; [apply NoDup_nil_2|].
    inversion Hft as [|? ? [Hbt (_ & _ & _ & Hfc & Hnc)] Hft']; subst. simpl in *. subst bt.
    apply NoDup_cons in Hnt as [Hnotin Hnt']. rewrite fmap_app. apply NoDup_app. split; [|split; [|apply IH; assumption]].
    - clear -Hfc Hnc. induction (td_deltas td) as [|[[bc c] m] dl IHd]; [apply NoDup_nil_2|]. simpl in *.
      inversion Hfc as [|? ? Hbc Hfc']; subst. simpl in Hbc. subst bc. apply NoDup_cons in Hnc as [Hn Hnc']. apply NoDup_cons. split; [|auto].
      intros Hx. apply Hn. apply elem_of_list_fmap in Hx as ([[t' c'] m'] & [= <- <-] & Hx).
      apply elem_of_list_fmap in Hx as ([[bc' c''] m''] & [= <- <-] & Hx). pose proof (proj1 (Forall_forall _ _) Hfc' _ Hx) as Hb. simpl in Hb. subst bc'.
      apply elem_of_list_fmap. exists (false, c, m'). auto.
    - intros [t' c'] H1 H2. apply elem_of_list_fmap in H1 as ([[t1 c1] m1] & [= <- <-] & H1).
      apply elem_of_list_fmap in H1 as ([[bc' c''] m''] & [= <- <- <-] & H1). simpl in *.
      apply elem_of_list_fmap in H2 as ([[t2 c2] m2] & [= -> ->] & H2). apply elem_of_list_In, in_flat_map in H2 as ([[bt2 t2'] td2] & Hin2 & H2).
      apply in_map_iff in H2 as ([[bc2 c2'] m2'] & [= <- <- <-] & _). simpl in *. apply elem_of_list_In in Hin2.
      destruct (proj1 (Forall_forall _ _) Hft' _ Hin2) as [Hb2 _]. simpl in Hb2. subst bt2.
      apply Hnotin. apply elem_of_list_fmap. exists (false, t2', td2). auto.
  Qed.

  Lemma reset_col_nil t c col : reset_col [] t c col = col.
  Proof. unfold reset_col. rewrite decide_False by apply not_elem_of_nil. reflexivity. Qed.

  Local Opaque col_writes.

  (* one entry: its BulkUpdateRecord puts the column back to the checkpoint content *)
  Lemma replay_back1 d t c m :
    entry_ok d t c m -> replay ord d (rev (back1 t c m)) = Some (reset_sel [(t, c)] d).
  Proof.
    intros (rows & col & col0 & Hrows & Hcol & Hc0 & Hinfo & Hwc & Hwc0 & Hm).
    unfold drows in Hrows. destruct (d_tables d !! t) as [tb|] eqn:Ht; [|discriminate]. simpl in Hrows. injection Hrows as <-.
    unfold dcol in Hcol. rewrite Ht in Hcol. simpl in Hcol.
    assert (Hsame : forall r, r ∉ changed_rows m -> cget col r = cget col0 r).
    { intros r Hn. specialize (Hm r). destruct (m !! r) as [[b a]|] eqn:E; [|exact Hm]. simpl in Hm.
      destruct Hm as (H1 & H2 & _). destruct (decide (b = a)) as [->|Hne]; [congruence|].
      exfalso. apply Hn. apply changed_rows_in. eauto. }
    (* the target document *)
    assert (Htarget : forall tb', t_rows tb' = t_rows tb ->
              (forall c', t_cols tb' !! c' = if decide (c' = c) then Some col0 else t_cols tb !! c') ->
              tset t tb' d = reset_sel [(t, c)] d).
    { intros tb' Hr' Hc'. apply doc_ext; [reflexivity|]. intros t'. rewrite reset_tables_lookup. simpl.
      destruct (decide (t' = t)) as [->|Hne].
      - rewrite lookup_insert, Ht. simpl. f_equal. apply table_ext; [exact Hr'|]. intros c'. rewrite Hc', reset_cols_lookup.
        destruct (decide (c' = c)) as [->|Hnc].
        + rewrite Hcol. simpl. unfold reset_col. rewrite decide_True by left. rewrite Hc0. reflexivity.
        + destruct (t_cols tb !! c'); simpl; [|reflexivity]. unfold reset_col.
          rewrite decide_False; [reflexivity|]. intros Hx. apply elem_of_list_singleton in Hx. congruence.
      - rewrite lookup_insert_ne by auto. destruct (d_tables d !! t') as [tb2|]; simpl; [|reflexivity]. f_equal.
        apply table_ext; [reflexivity|]. intros c'. rewrite reset_cols_lookup. destruct (t_cols tb2 !! c'); simpl; [|reflexivity].
        unfold reset_col. rewrite decide_False; [reflexivity|]. intros Hx. apply elem_of_list_singleton in Hx. congruence. }
    unfold back1. destruct (changed_rows m) as [|r0 rs] eqn:Ech.
    - simpl. f_equal. rewrite <- (tset_id t tb d Ht) at 1. apply Htarget; [reflexivity|].
      intros c'. destruct (decide (c' = c)) as [->|]; [|reflexivity]. rewrite Hcol. f_equal.
      apply (col_ext (t_rows tb) (t_rows tb)); [exact Hwc|exact Hwc0|exact Hinfo|]. intros r. apply Hsame. apply not_elem_of_nil.
    - rewrite <- Ech in *. clear Ech. set (rws := changed_rows m) in *. simpl rev. apply replay1.
      assert (Hin : forall r, r ∈ rws -> r ∈ t_rows tb).
      { intros r Hr. apply changed_rows_in in Hr as (b & a & E & _). specialize (Hm r).
        destruct (m !! r) as [[b' a']|]; [|discriminate]. simpl in Hm. tauto. }
      rewrite apply_doc_unfold. simpl normalize.
      rewrite (exec_update_ok ord d t tb); [|exact Ht|apply Forall_forall; exact Hin|].
      2: { constructor; [|constructor]. eexists. exact Hcol. }
      cbn [fmap option_fmap option_map ms_doc]. f_equal. apply Htarget; [apply write_cols_rows|].
      intros c'. rewrite write_cols_lookup. destruct (decide (c' = c)) as [->|Hnc].
      + rewrite Hcol. simpl. f_equal.
        apply (col_ext (t_rows tb) (t_rows tb)); [apply col_writes_wf; assumption|exact Hwc0|rewrite col_writes_info; exact Hinfo|].
        intros r. destruct (decide (r ∈ rws)) as [Hr|Hr].
        * rewrite (col_writes_restores c rws (fun r => from_option fst 0 (m !! r))); [|left| |exact Hr].
          -- apply changed_rows_in in Hr as (b & a & E & _). pose proof (Hm r) as Hmr.
             transitivity (from_option fst 0 (Some (b, a))); [f_equal; exact E|].
             simpl. destruct (m !! r) as [[b' a']|]; [|discriminate]. injection E as -> ->. simpl in Hmr. tauto.
          -- intros cv Hcv _. apply elem_of_list_singleton in Hcv. subst cv. reflexivity.
        * rewrite col_writes_other by exact Hr. apply Hsame. exact Hr.
      + destruct (t_cols tb !! c') as [cl|]; simpl; [|reflexivity].
        rewrite col_writes_notin by (intros Hx; apply elem_of_list_singleton in Hx; simpl in Hx; congruence). reflexivity.
  Qed.

  Lemma dcol_reset_other sel d t c : (t, c) ∉ sel -> dcol (reset_sel sel d) t c = dcol d t c.
  Proof.
    intros Hn. unfold dcol. rewrite reset_tables_lookup. destruct (d_tables d !! t) as [tb|]; [|reflexivity].
    cbn [fmap option_fmap option_map mbind option_bind]. rewrite reset_cols_lookup. destruct (t_cols tb !! c); simpl; [|reflexivity]. unfold reset_col. rewrite decide_False by exact Hn. reflexivity.
  Qed.
  Lemma drows_reset sel d t : drows (reset_sel sel d) t = drows d t.
  Proof. unfold drows. rewrite reset_tables_lookup. destruct (d_tables d !! t); reflexivity. Qed.

  Lemma replay_backs (E : list (name * name * gmap rowid (val * val))) : forall d,
    NoDup E.*1 -> (forall e, e ∈ E -> entry_ok d e.1.1 e.1.2 e.2) ->
    replay ord d (rev (flat_map (fun e => back1 e.1.1 e.1.2 e.2) E)) = Some (reset_sel E.*1 d).
  Proof.
    induction E as [|[[t c] m] E IH] using rev_ind; intros d Hnd Hok.
    - simpl. f_equal. apply doc_ext; [reflexivity|]. intros t. rewrite reset_tables_lookup.
      destruct (d_tables d !! t) as [tb|]; simpl; [|reflexivity]. f_equal. symmetry. apply table_ext; [reflexivity|].
      intros c. rewrite reset_cols_lookup. destruct (t_cols tb !! c); simpl; [|reflexivity]. rewrite reset_col_nil. reflexivity.
    - rewrite flat_map_app, rev_app_distr, replay_app. simpl. rewrite app_nil_r.
      rewrite (replay_back1 d t c m) by (apply (Hok (t, c, m)); apply elem_of_app; right; left). simpl.
      rewrite fmap_app in Hnd. apply NoDup_app in Hnd as (Hnd' & Hdisj & _).
      rewrite IH; [rewrite reset_reset, fmap_app; reflexivity|exact Hnd'|].
      intros [[t' c'] m'] Hin. destruct (Hok _ (proj2 (elem_of_app _ _ _) (or_introl Hin))) as (rws & cl & cl0 & H1 & H2 & H3).
      exists rws, cl, cl0. simpl in *. rewrite drows_reset, dcol_reset_other; [auto|].
      intros Hx. apply elem_of_list_singleton in Hx. injection Hx as -> ->.
      apply (Hdisj (t, c)); [apply elem_of_list_fmap; exists (t, c, m'); auto|left].
  Qed.

  Lemma JM_flush st log : JM st log -> rollback_flush ord st log = Some s.
  Proof.
    intros (Hsv & Hw & Hwr & Hrep & Hpl & HK1 & HK2).
    unfold rollback_flush, restore_schema, flush_undo. rewrite Hsv, (flush_plain _ Hpl). cbn [fst snd app].
    rewrite rev_app_distr, replay_app, backs_entries. set (d := ms_doc st) in *. set (sm := summary_of log) in *.
    rewrite (replay_backs (entries sm) d (entries_nodup sm Hpl)).
    2: { intros [[t c] m] Hin. simpl. apply (entries_get sm t c m Hpl) in Hin. exact (proj2 (HK1 t c m Hin)). }
    simpl. replace (reset_sel (entries sm).*1 d) with (reset_sel CC d); [exact Hrep|].
    apply doc_ext; [reflexivity|]. intros t. rewrite !reset_tables_lookup. destruct (d_tables d !! t) as [tb|] eqn:Ht; simpl; [|reflexivity].
    f_equal. apply table_ext; [reflexivity|]. intros c. rewrite !reset_cols_lookup. destruct (t_cols tb !! c) as [col|] eqn:Hc; simpl; [|reflexivity].
    f_equal. unfold reset_col.
    assert (Hdc : dcol d t c = Some col) by (unfold dcol; rewrite Ht; exact Hc).
    destruct (decide ((t, c) ∈ (entries sm).*1)) as [Hin|Hnin].
    - apply elem_of_list_fmap in Hin as ([[t' c'] m] & [= <- <-] & Hin). apply (entries_get sm t c m Hpl) in Hin.
      rewrite decide_True by exact (proj1 (HK1 t c m Hin)). reflexivity.
    - destruct (decide ((t, c) ∈ CC)) as [Hcc|]; [|reflexivity].
      destruct (sm_get sm t c) as [m|] eqn:Eg.
      + exfalso. apply Hnin. apply elem_of_list_fmap. exists (t, c, m). split; [reflexivity|]. apply (entries_get sm t c m Hpl). exact Eg.
      + rewrite (HK2 t c col Hcc Eg Hdc). reflexivity.
  Qed.

  Lemma JM_event st log e st' :
    JM st log -> ev_okm e -> exec_all st (event_steps ord (ms_doc st) e) = Some st' ->
    JM st' (log ++ sum_log (event_steps ord (ms_doc st) e)).
  Proof.
    intros HJ Hok Hex. destruct e as [a|t c cells].
    - destruct (JM_update st log a st' HJ Hok Hex) as [HJ' ->]. rewrite app_nil_r. exact HJ'.
    - apply JM_calc; assumption.
  Qed.

  Lemma run_calc_m es : forall st k st_k cur log,
    JM st log -> Forall ev_okm es ->
    run_until_crash ord st es k = Crashed st_k cur [] ->
    rollback_flush ord st_k (log ++ sum_log (run_log ord st es k)) = Some s.
  Proof.
    induction es as [|e es IH]; intros st k st_k cur log HJ Hok H; simpl in *.
    - destruct k; [|discriminate]. injection H as <- <-. rewrite app_nil_r. apply JM_flush. exact HJ.
    - inversion Hok as [|? ? Hok1 Hok2]; subst.
      destruct (exec_upto st (event_steps ord (ms_doc st) e) k []) as [[st' dn] r] eqn:E.
      destruct (exec_upto_spec _ _ _ _ _ _ _ E) as (l & rest & Hdn & Hsteps & Hex & Hrest). simpl in Hdn. subst dn.
      destruct r as [k'|].
      + rewrite (Hrest (ltac:(eauto))), app_nil_r in Hsteps. subst l.
        rewrite sum_log_app, app_assoc. eapply IH; [eapply JM_event; eauto|exact Hok2|exact H].
      + injection H as <- <- ->. simpl in Hex. injection Hex as <-. simpl. rewrite app_nil_r. apply JM_flush. exact HJ.
  Qed.

  Lemma reset_sel_id sel d : (forall t c col, (t, c) ∈ sel -> dcol d t c = Some col -> dcol s t c = Some col) -> reset_sel sel d = d.
  Proof.
    intros H. apply doc_ext; [reflexivity|]. intros t. rewrite reset_tables_lookup. destruct (d_tables d !! t) as [tb|] eqn:Ht; simpl; [|reflexivity].
    f_equal. apply table_ext; [reflexivity|]. intros c. rewrite reset_cols_lookup. destruct (t_cols tb !! c) as [col|] eqn:Hc; simpl; [|reflexivity].
    f_equal. unfold reset_col. destruct (decide ((t, c) ∈ sel)) as [Hin|]; [|reflexivity].
    rewrite (H t c col Hin); [reflexivity|]. unfold dcol. rewrite Ht. exact Hc.
  Qed.

  Lemma JM_init : JM (init_state s []) [].
  Proof.
    assert (Hid : reset_sel CC s = s) by (apply reset_sel_id; auto).
    split; [reflexivity|]. split; [exact Hwfs|]. simpl. rewrite Hid. split; [exact Hwfs|]. split; [reflexivity|].
    split; [apply sm_empty_plain|]. split; [intros t c m H; discriminate H|auto].
  Qed.

  Theorem pending_calc_rolled_back_m es k st cur :
    Forall ev_okm es ->
    run_until_crash ord (init_state s []) es k = Crashed st cur [] ->
    rollback_flush ord st (sum_log (run_log ord (init_state s []) es k)) = Some s.
  Proof. intros Hok H. exact (run_calc_m es _ _ _ _ [] JM_init Hok H). Qed.
End ManyCalcColumns.

(* bundles of record updates and recalculations of the columns CC, none of which an update of the bundle writes *)
Definition upd_or_calc_in (CC : list (name * name)) (e : event) : Prop :=
  match e with
  | EDoc a => match normalize a with
              | BulkUpdateRecord t _ vals => forall c, c ∈ vals.*1 -> (t, c) ∉ CC
              | _ => False end
  | ECalc t c _ => (t, c) ∈ CC
  end.

Theorem pending_calcs_rolled_back ord (s : doc) (CC : list (name * name)) (es : list event) (k : nat) st cur :
  wf s -> Forall (upd_or_calc_in CC) es ->
  run_until_crash ord (init_state s []) es k = Crashed st cur [] ->
  rollback_flush ord st (sum_log (run_log ord (init_state s []) es k)) = Some s.
Proof. intros Hw Hok H. exact (pending_calc_rolled_back_m ord s Hw CC es k st cur Hok H). Qed.
