(* Deps meets the scheduler: the engine's update loop, seen abstractly as "repeatedly pick a dirty formula cell
   whose reads are all clean and evaluate it" (every resolution of Engine._update_loop / _recompute_step does
   that; the order of the picks is left completely open), always terminates, can only stop at quiescence, and
   then every formula cell holds the value recalculation from scratch gives. *)
From Coq Require Import ZArith List Bool Lia Wf_nat.
Import ListNotations.
Require Import Grist.Model.Deps Grist.Model.DepsSpec.
Require Import Grist.Proofs.DepsSpec_proofs.
Open Scope Z_scope.

Definition reads_clean (s : state) (t : itree) : Prop :=
  Forall (fun a => fml s (acell a) <> None -> dirty s (acell a) = false) (trace (val s) t).

(* a cell the update loop may evaluate now *)
Definition ready (s : state) (c : cell) : Prop :=
  exists t, fml s c = Some t /\ dirty s c = true /\ reads_clean s t.

Lemma reads_clean_dec s t : reads_clean s t \/ exists a, In a (trace (val s) t) /\ fml s (acell a) <> None /\ dirty s (acell a) = true.
Proof.
  unfold reads_clean. induction (trace (val s) t) as [| a l IH].
  - left. constructor.
  - destruct IH as [IH | (b & Hb & H1 & H2)]; [| right; exists b; split; [right |]; auto].
    destruct (fml s (acell a)) eqn:F.
    + destruct (dirty s (acell a)) eqn:D.
      * right. exists a. split; [left; reflexivity |]. rewrite F. split; [discriminate | exact D].
      * left. constructor; auto.
    + left. constructor; auto. intros H. contradiction.
Qed.

(* progress: while some formula cell is dirty, some cell is ready (acyclic programs) *)
Theorem progress s rank :
  acyclic (fml s) rank ->
  forall c, fml s c <> None -> dirty s c = true -> exists c', ready s c'.
Proof.
  intros Hac c. remember (rank c) as k eqn:Hk. revert c Hk.
  induction k as [k IH] using lt_wf_ind. intros c Hk Hf Hd.
  destruct (fml s c) as [t |] eqn:F; [| contradiction].
  destruct (reads_clean_dec s t) as [Hc | (a & Ha & H1 & H2)].
  - exists c, t. auto.
  - pose proof (Hac c t F (val s)) as Hr. rewrite Forall_forall in Hr. specialize (Hr a Ha).
    apply (IH (rank (acell a))) with (c := acell a); auto. lia.
Qed.

Section Sched.
Variable guarded : state -> cell -> cell -> (Z -> Z) -> Prop.

(* one pick of the update loop: the evaluation meets the kernel's guarantee (eval_ok) and, as in
   Engine._recompute_step, only removes the cell from recompute_map *)
Definition pick (s s' : state) : Prop :=
  exists c t, eval_ok guarded s c t s' /\ dirty s' c = false /\ (forall x, dirty s' x = true -> dirty s x = true).

Inductive run : nat -> state -> state -> Prop :=
| run_0 s : run 0 s s
| run_S k s s1 s2 : pick s s1 -> run k s1 s2 -> run (S k) s s2.

Lemma pick_step s s' : pick s s' -> step guarded s s'.
Proof. intros (c & t & E & _). eapply st_eval. exact E. Qed.

Lemma run_steps k s s' : run k s s' -> steps guarded s s'.
Proof. induction 1; [apply steps_refl | eapply steps_cons; [apply pick_step |]; eauto]. Qed.

Lemma run_fml k s s' : run k s s' -> forall x, fml s' x = fml s x.
Proof.
  induction 1 as [| k s s1 s2 (c & t & E & _) _ IH]; auto.
  intros x. rewrite IH. apply (v_fmls _ _ _ _ _ E).
Qed.

(* the dirty formula cells all lie in the finite list U (rows of the document x formula columns) *)
Definition within (U : list cell) (s : state) : Prop :=
  forall c, fml s c <> None -> dirty s c = true -> In c U.

Definition ndirty (U : list cell) (s : state) : nat :=
  length (filter (fun c => dirty s c && match fml s c with Some _ => true | None => false end) U).

Lemma pick_decreases U s s' : within U s -> pick s s' -> (ndirty U s' < ndirty U s)%nat /\ within U s'.
Proof.
  intros HU (c & t & E & Hc & Hmono). split.
  - unfold ndirty.
    assert (Hin : In c U).
    { apply HU; [rewrite (v_fml _ _ _ _ _ E); discriminate | apply (v_dirty _ _ _ _ _ E)]. }
    assert (G : forall (p p' : cell -> bool) l a, (forall x, p' x = true -> p x = true) -> In a l -> p a = true ->
                p' a = false -> (length (filter p' l) < length (filter p l))%nat).
    { intros p p' l a H. induction l as [| b l IH]; intros Ha Hp Hp'; [destruct Ha |].
      assert (Le : forall l0, (length (filter p' l0) <= length (filter p l0))%nat).
      { induction l0 as [| z l0 IH0]; cbn; auto. destruct (p' z) eqn:E1; destruct (p z) eqn:E2; cbn; try lia.
        apply H in E1. congruence. }
      destruct Ha as [-> | Ha]; cbn.
      - rewrite Hp, Hp'. cbn. pose proof (Le l). lia.
      - specialize (IH Ha Hp Hp'). destruct (p' b) eqn:E1; destruct (p b) eqn:E2; cbn; try lia.
        apply H in E1. congruence. }
    apply (G _ _ U c).
    + intros x Hx. apply andb_true_iff in Hx. destruct Hx as [H1 H2].
      rewrite (v_fmls _ _ _ _ _ E) in H2. rewrite (Hmono x H1), H2. reflexivity.
    + exact Hin.
    + rewrite (v_dirty _ _ _ _ _ E), (v_fml _ _ _ _ _ E). reflexivity.
    + rewrite Hc. reflexivity.
  - intros x Hf Hd. apply HU; [rewrite <- (v_fmls _ _ _ _ _ E); exact Hf | apply Hmono; exact Hd].
Qed.

(* every interleaving is finite: at most as many picks as there are dirty formula cells *)
Theorem run_bounded U k s s' : within U s -> run k s s' -> (k + ndirty U s' <= ndirty U s)%nat /\ within U s'.
Proof.
  intros HU H. revert HU. induction H as [| k s s1 s2 Hp _ IH]; intros HU; [split; auto; lia |].
  destruct (pick_decreases U s s1 HU Hp) as [Hlt HU1]. destruct (IH HU1) as [Hle HU2]. split; auto. lia.
Qed.

(* it can only stop at quiescence, and then the values are the scratch values *)
Theorem any_interleaving_reaches_scratch U k s s' rank :
  consistent guarded s -> acyclic (fml s) rank -> within U s -> run k s s' ->
  (forall c, ~ ready s' c) ->
  (k <= ndirty U s)%nat /\ quiescent s' /\
  forall c fuel, (rank c < fuel)%nat -> val s' c = scratch fuel (fml s') (val s') c.
Proof.
  intros C Hac HU Hr Hstuck.
  assert (Hac' : acyclic (fml s') rank).
  { intros c t Hf v. apply (Hac c t). rewrite <- (run_fml _ _ _ Hr c). exact Hf. }
  assert (Q : quiescent s').
  { intros c Hf. destruct (dirty s' c) eqn:D; auto.
    destruct (progress s' rank Hac' c Hf D) as [c' Hc']. exfalso. apply (Hstuck c'). exact Hc'. }
  split; [| split; [exact Q |]].
  - destruct (run_bounded U k s s' HU Hr) as [H _]. lia.
  - intros c fuel Hlt. apply (incremental_eq_scratch guarded s s' rank C (run_steps _ _ _ Hr) Q Hac' c fuel Hlt).
Qed.

End Sched.
