(* C28 -- lemmas about Model/Upsert.v. *)
From Coq Require Import ZArith List Bool Lia Arith.
Import ListNotations.
Require Import Grist.Model.Upsert.
Open Scope Z_scope.

(* ---------- equality tests ---------- *)
Lemma list_eqb_spec {A} (eqb : A -> A -> bool) :
  (forall x y, eqb x y = true <-> x = y) -> forall l m, list_eqb eqb l m = true <-> l = m.
Proof.
  intros H l; induction l as [|x l IH]; intros [|y m]; simpl; try (split; [discriminate|congruence]).
  - tauto.
  - rewrite andb_true_iff, H, IH. split; [intros [-> ->]; reflexivity | intros E; inversion E; auto].
Qed.

Lemma val_eqb_spec : forall a b, val_eqb a b = true <-> a = b.
Proof.
  intros [|x|s] [|y|t]; simpl; try (split; [discriminate|congruence]); try tauto.
  - rewrite Z.eqb_eq. split; congruence.
  - rewrite (list_eqb_spec Z.eqb Z.eqb_eq). split; congruence.
Qed.

Lemma cell_eqb_spec : forall a b, cell_eqb a b = true <-> a = b.
Proof.
  intros [k v] [k' v']; unfold cell_eqb; simpl. rewrite andb_true_iff, Z.eqb_eq, val_eqb_spec.
  split; [intros [-> ->]; reflexivity | intros E; inversion E; auto].
Qed.

Lemma row_eqb_spec : forall a b, row_eqb a b = true <-> a = b.
Proof.
  intros [i c] [i' c']; unfold row_eqb; simpl.
  rewrite andb_true_iff, Z.eqb_eq, (list_eqb_spec cell_eqb cell_eqb_spec).
  split; [intros [-> ->]; reflexivity | intros E; inversion E; auto].
Qed.

Lemma table_eqb_spec : forall a b, table_eqb a b = true <-> a = b.
Proof. exact (list_eqb_spec row_eqb row_eqb_spec). Qed.

Lemma memz_In : forall x l, memz x l = true <-> In x l.
Proof.
  intros x l; induction l as [|y t IH]; simpl.
  - split; [discriminate|tauto].
  - unfold memz in *; simpl. rewrite orb_true_iff, Z.eqb_eq, IH. split; intros [H|H]; auto.
Qed.

Lemma memz_app : forall x l m, memz x (l ++ m) = memz x l || memz x m.
Proof. intros x l m; induction l as [|y t IH]; simpl; auto. unfold memz in *; simpl. rewrite IH, orb_assoc; reflexivity. Qed.

Lemma insert_z_In : forall x y l, In y (insert_z x l) <-> y = x \/ In y l.
Proof.
  intros x y l; induction l as [|z t IH]; simpl.
  - intuition.
  - destruct (x <=? z); simpl; [intuition | rewrite IH; intuition].
Qed.

Lemma isort_In : forall y l, In y (isort l) <-> In y l.
Proof. intros y l; induction l as [|x t IH]; simpl; [tauto|]. rewrite insert_z_In, IH. intuition. Qed.

Lemma lookup_In : forall e t req i, In i (lookup e t req) -> In i (ids_of t).
Proof.
  intros e t req i H. unfold lookup in H. rewrite isort_In in H. unfold ids_of in *.
  rewrite in_map_iff in *. destruct H as [r [Hr Hin]]. rewrite filter_In in Hin. exists r; tauto.
Qed.

(* ---------- updates ---------- *)
Lemma apply_upd_ids : forall e t u, ids_of (apply_upd e t u) = ids_of t.
Proof.
  intros e t u; unfold ids_of, apply_upd. rewrite map_map. apply map_ext.
  intros r. destruct (fst r =? fst u); reflexivity.
Qed.

Lemma apply_upds_ids : forall e us t, ids_of (apply_upds e us t) = ids_of t.
Proof.
  intros e us; induction us as [|u us IH]; intros t; simpl; [reflexivity|].
  unfold apply_upds in *; simpl. rewrite IH. apply apply_upd_ids.
Qed.

(* per-row view of a sequence of updates *)
Definition upd_row (e : env) (r : row) (u : upd) : row :=
  if fst r =? fst u then (fst r, set_cells e (snd r) (snd u)) else r.

Lemma upd_row_id : forall e (r : row) (u : upd), fst (upd_row e r u) = fst r.
Proof. intros; unfold upd_row; destruct (fst r =? fst u); reflexivity. Qed.

Lemma fold_upd_row_id : forall e us r, fst (fold_left (upd_row e) us r) = fst r.
Proof. intros e us; induction us as [|u us IH]; intros r; simpl; [reflexivity|]. rewrite IH. apply upd_row_id. Qed.

Lemma apply_upds_rows : forall e us t, apply_upds e us t = map (fun r => fold_left (upd_row e) us r) t.
Proof.
  intros e us; induction us as [|u us IH]; intros t; unfold apply_upds in *; simpl.
  - symmetry; apply map_id.
  - rewrite IH. unfold apply_upd. rewrite map_map. reflexivity.
Qed.

Lemma apply_upds_app : forall e us t t', apply_upds e us (t ++ t') = apply_upds e us t ++ apply_upds e us t'.
Proof. intros. rewrite !apply_upds_rows. apply map_app. Qed.

Lemma map_fix_In {A} (f : A -> A) : forall l x, map f l = l -> In x l -> f x = x.
Proof.
  induction l as [|y t IH]; intros x E Hin; [destruct Hin|].
  simpl in E. injection E as E1 E2. destruct Hin as [<-|Hin]; [exact E1|]. apply IH; assumption.
Qed.

Lemma changed_false_fix : forall e t (u : upd) (r : row), changed e t u = false -> In r t -> upd_row e r u = r.
Proof.
  intros e t u r H Hin. unfold changed in H. apply negb_false_iff in H. apply table_eqb_spec in H.
  unfold apply_upd in H. apply (map_fix_In (fun r => upd_row e r u) t r H Hin).
Qed.

(* an update that does not concern the row *)
Lemma upd_row_other : forall e (r : row) (u : upd), fst r <> fst u -> upd_row e r u = r.
Proof. intros e r u H. unfold upd_row. destruct (Z.eqb_spec (fst r) (fst u)); [contradiction|reflexivity]. Qed.

(* dget only depends on the key list for being defined *)
Lemma dget_none_keys : forall c vs ws, map fst vs = map fst ws -> dget c vs = None -> dget c ws = None.
Proof.
  intros c vs; induction vs as [|[k v] vs IH]; intros [|[k' w] ws] E H; simpl in *; try discriminate; auto.
  inversion E; subst. destruct (dget c vs) eqn:D; [discriminate|]. rewrite (IH ws H2 eq_refl).
  destruct (k' =? c); [discriminate|reflexivity].
Qed.

(* a later update with the same columns overwrites an earlier one completely *)
Lemma set_cells_overwrite : forall e cs vs ws, map fst vs = map fst ws ->
  set_cells e (set_cells e cs vs) ws = set_cells e cs ws.
Proof.
  intros e cs vs ws E. unfold set_cells. rewrite map_map. apply map_ext. intros [k old]; simpl.
  destruct (dget k ws) eqn:D; [reflexivity|].
  assert (dget k vs = None) as ->; [|reflexivity].
  apply (dget_none_keys k ws vs); [symmetry; exact E | exact D].
Qed.

Lemma upd_row_overwrite : forall e (r : row) (u w : upd), fst u = fst w -> map fst (snd u) = map fst (snd w) ->
  upd_row e (upd_row e r u) w = upd_row e r w.
Proof.
  intros e r u w Hi Hk. unfold upd_row.
  destruct (Z.eqb_spec (fst r) (fst u)) as [E|NE]; cbn [fst snd].
  - destruct (Z.eqb_spec (fst r) (fst w)) as [E'|NE']; [|congruence].
    rewrite set_cells_overwrite by exact Hk. reflexivity.
  - destruct (Z.eqb_spec (fst r) (fst w)) as [E'|NE']; [congruence|reflexivity].
Qed.

Lemma last_for_In : forall i (us : list upd) (l : upd), last_for i us = Some l -> In l us /\ fst l = i.
Proof.
  intros i us; induction us as [|x us IH]; intros l; simpl; [discriminate|].
  destruct (last_for i us) eqn:L.
  - intros H; inversion H; subst. destruct (IH l eq_refl); auto.
  - destruct (Z.eqb_spec (fst x) i); [|discriminate]. intros H; inversion H; subst. auto.
Qed.

Lemma last_for_none : forall i (us : list upd), last_for i us = None -> forall u : upd, In u us -> fst u <> i.
Proof.
  intros i us; induction us as [|x us IH]; simpl; intros H u Hin; [destruct Hin|].
  destruct (last_for i us) eqn:L; [discriminate|]. destruct (Z.eqb_spec (fst x) i); [discriminate|].
  destruct Hin as [<-|Hin]; auto.
Qed.

(* folding updates with common columns over one row: only the last one for that row counts *)
Lemma fold_upd_row_last : forall e K (us : list upd) (r : row), Forall (fun u => map fst (snd u) = K) us ->
  fold_left (upd_row e) us r = match last_for (fst r) us with Some l => upd_row e r l | None => r end.
Proof.
  intros e K us; induction us as [|u us IH]; intros r HK; simpl; [reflexivity|].
  inversion HK as [|? ? Hu HK']; subst. rewrite (IH _ HK'). rewrite upd_row_id.
  destruct (last_for (fst r) us) as [l|] eqn:L.
  - destruct (Z.eqb_spec (fst r) (fst u)) as [E|NE].
    + destruct (last_for_In _ _ _ L) as [Hin Hid]. apply upd_row_overwrite.
      * congruence.
      * symmetry. rewrite Forall_forall in HK'. apply HK'. exact Hin.
    + rewrite (upd_row_other e r u NE). reflexivity.
  - destruct (Z.eqb_spec (fst u) (fst r)) as [E|NE].
    + reflexivity.
    + apply upd_row_other. congruence.
Qed.

Lemma last_for_filter : forall (f : upd -> bool) i (us : list upd) (l : upd),
  last_for i us = Some l -> f l = true -> last_for i (filter f us) = Some l.
Proof.
  intros f i us; induction us as [|x us IH]; intros l; simpl; [discriminate|].
  destruct (last_for i us) as [l'|] eqn:L.
  - intros H Hf; inversion H; subst. destruct (f x); simpl; rewrite (IH l eq_refl Hf); reflexivity.
  - destruct (Z.eqb_spec (fst x) i) as [E|NE]; [|discriminate]. intros H Hf; inversion H; subst.
    rewrite Hf. simpl. destruct (last_for (fst l) (filter f us)) eqn:L2.
    + apply last_for_In in L2. destruct L2 as [Hin Hid]. apply filter_In in Hin.
      exfalso. apply (last_for_none _ _ L u); tauto.
    + rewrite Z.eqb_refl. reflexivity.
Qed.

Lemma last_for_filter_none : forall (f : upd -> bool) i (us : list upd),
  (forall u, In u us -> fst u = i -> f u = false) -> last_for i (filter f us) = None.
Proof.
  intros f i us H. destruct (last_for i (filter f us)) eqn:L; [|reflexivity].
  apply last_for_In in L. destruct L as [Hin Hid]. apply filter_In in Hin. destruct Hin as [Hin Hf].
  rewrite (H _ Hin Hid) in Hf. discriminate.
Qed.

(* trimming the unchanged entries does not alter the result when no stale last entry exists *)
Lemma trim_all : forall e K t (us : list upd),
  Forall (fun u => map fst (snd u) = K) us -> stale_free e t us = true ->
  apply_upds e (filter (changed e t) us) t = apply_upds e us t.
Proof.
  intros e K t us HK Hs. rewrite !apply_upds_rows. apply map_ext_in. intros r Hr.
  assert (HK' : Forall (fun u => map fst (snd u) = K) (filter (changed e t) us)).
  { rewrite Forall_forall in *. intros u Hu. apply filter_In in Hu. apply HK; tauto. }
  rewrite (fold_upd_row_last e K _ r HK'), (fold_upd_row_last e K _ r HK).
  unfold stale_free in Hs. rewrite forallb_forall in Hs.
  destruct (last_for (fst r) us) as [l|] eqn:L.
  - destruct (changed e t l) eqn:C.
    + rewrite (last_for_filter _ _ _ _ L C). reflexivity.
    + rewrite last_for_filter_none.
      * symmetry. apply (changed_false_fix e t l r C Hr).
      * intros u Hu Hid. destruct (changed e t u) eqn:Cu; [|reflexivity].
        specialize (Hs u Hu). rewrite Cu, Hid, L, C in Hs. discriminate.
  - rewrite last_for_filter_none; [reflexivity|].
    intros u Hu Hid. exfalso. apply (last_for_none _ _ L u Hu Hid).
Qed.

(* entries with pairwise different row ids are never stale *)
Lemma last_for_unique : forall (us : list upd) (u : upd),
  NoDup (map fst us) -> In u us -> last_for (fst u) us = Some u.
Proof.
  induction us as [|x us IH]; intros u Hnd Hin; [destruct Hin|].
  simpl in Hnd. inversion Hnd as [|? ? Hx Hnd']; subst. simpl.
  destruct Hin as [->|Hin].
  - destruct (last_for (fst u) us) as [l|] eqn:L.
    + destruct (last_for_In _ _ _ L) as [Hl Hid]. exfalso. apply Hx. rewrite <- Hid. apply in_map; exact Hl.
    + rewrite Z.eqb_refl. reflexivity.
  - rewrite (IH u Hnd' Hin). reflexivity.
Qed.

Lemma stale_free_distinct : forall e t (us : list upd), NoDup (map fst us) -> stale_free e t us = true.
Proof.
  intros e t us Hnd. unfold stale_free. apply forallb_forall. intros u Hu.
  rewrite (last_for_unique us u Hnd Hu). destruct (changed e t u); reflexivity.
Qed.

(* ---------- keeping the last occurrence of every row id ---------- *)
Lemma keep_last_In : forall (us : list upd) u, In u (keep_last us) -> In u us.
Proof.
  induction us as [|x us IH]; intros u H; simpl in *; [exact H|].
  destruct (memz (fst x) (map fst us)); [right; auto|]. destruct H as [<-|H]; [left; reflexivity|right; auto].
Qed.

Lemma keep_last_nodup : forall us : list upd, NoDup (map fst (keep_last us)).
Proof.
  induction us as [|x us IH]; simpl; [constructor|].
  destruct (memz (fst x) (map fst us)) eqn:M; [exact IH|]. simpl. constructor; [|exact IH].
  intros H. apply in_map_iff in H. destruct H as [u [E Hu]]. apply keep_last_In in Hu.
  assert (memz (fst x) (map fst us) = true); [|congruence].
  apply memz_In. rewrite <- E. apply in_map. exact Hu.
Qed.

Lemma last_for_keep_last : forall i (us : list upd), last_for i (keep_last us) = last_for i us.
Proof.
  intros i us; induction us as [|x us IH]; simpl; [reflexivity|].
  destruct (memz (fst x) (map fst us)) eqn:M.
  - rewrite IH. destruct (last_for i us) eqn:L; [reflexivity|].
    destruct (Z.eqb_spec (fst x) i) as [E|_]; [|reflexivity].
    exfalso. apply memz_In in M. apply in_map_iff in M. destruct M as [u [Eu Hu]].
    apply (last_for_none _ _ L u Hu). congruence.
  - simpl. rewrite IH. reflexivity.
Qed.

Lemma bulk_update_all : forall e K t (us : list upd),
  Forall (fun u => map fst (snd u) = K) us -> bulk_update e t us = apply_upds e us t.
Proof.
  intros e K t us HK. unfold bulk_update.
  assert (HK' : Forall (fun u => map fst (snd u) = K) (keep_last us)).
  { rewrite Forall_forall in *. intros u Hu. apply HK. apply keep_last_In; exact Hu. }
  rewrite (trim_all e K t _ HK' (stale_free_distinct e t _ (keep_last_nodup us))).
  rewrite !apply_upds_rows. apply map_ext. intros r.
  rewrite (fold_upd_row_last e K _ r HK'), (fold_upd_row_last e K _ r HK), last_for_keep_last. reflexivity.
Qed.

(* ---------- adding records ---------- *)
Lemma doc_add_fresh : forall ids (cs : list cells) t,
  forallb (fun i => 0 <? i) ids = true -> nodupb ids = true ->
  (forall i, In i ids -> ~ In i (ids_of t)) ->
  fold_left doc_add_row (combine ids cs) t = t ++ combine ids cs.
Proof.
  induction ids as [|i ids IH]; intros cs t Hpos Hnd Hfresh; simpl.
  - rewrite app_nil_r; reflexivity.
  - destruct cs as [|c cs]; simpl; [rewrite app_nil_r; reflexivity|].
    simpl in Hpos, Hnd. apply andb_true_iff in Hpos. destruct Hpos as [Hi Hpos].
    apply andb_true_iff in Hnd. destruct Hnd as [Hni Hnd]. apply negb_true_iff in Hni.
    unfold doc_add_row at 2; cbn [fst snd].
    destruct (Z.eqb_spec i 0) as [->|_]; [discriminate|].
    destruct (memz i (ids_of t)) eqn:M.
    { apply memz_In in M. exfalso. apply (Hfresh i); [left; reflexivity | exact M]. }
    rewrite IH; auto.
    + rewrite <- app_assoc. reflexivity.
    + intros j Hj Hin. unfold ids_of in Hin. rewrite map_app in Hin. apply in_app_or in Hin.
      destruct Hin as [Hin|[Hin|[]]].
      * apply (Hfresh j); [right; exact Hj | exact Hin].
      * simpl in Hin. subst j. apply memz_In in Hj. congruence.
Qed.

(* ---------- the accumulating loop ---------- *)
Lemma row_at_filter : forall (p : col -> bool) i d,
  row_at i (filter (fun q => p (fst q)) d) = filter (fun q => p (fst q)) (row_at i d).
Proof.
  intros p i d; induction d as [|[k vs] d IH]; simpl; [reflexivity|].
  destruct (p k); simpl; rewrite IH; reflexivity.
Qed.

Definition mk_row (require col_values : kv) (i : nat) : inrow := (row_at i require, row_at i col_values).

Definition step (e : env) (st : lstate) (i : nat) (r : inrow) (out : outcome) : lstate :=
  match out with
  | ONothing => st
  | OAdd => {| s_adds := s_adds st ++ [(dget id_col (add_values e r), drop_id (add_values e r))];
               s_new_idx := s_new_idx st ++ [i];
               s_upds := s_upds st; s_rec_ids := s_rec_ids st; s_upd_ids := s_upd_ids st |}
  | OUpdate ids => {| s_adds := s_adds st; s_new_idx := s_new_idx st;
                      s_upds := s_upds st ++ map (fun x => (x, snd r)) ids;
                      s_rec_ids := set_nth i ids (s_rec_ids st);
                      s_upd_ids := s_upd_ids st ++ [ids] |}
  end.

Lemma loop_body_step : forall e t o require col_values st i,
  o_on_many o <> OnBad ->
  loop_body e t o require (filter (fun p => settable e (fst p)) require) col_values st i
  = step e st i (mk_row require col_values i) (ref_outcome e t o (row_at i require)).
Proof.
  intros e t o require col_values st i Hbad. unfold loop_body, ref_outcome, mk_row, step, add_values.
  rewrite row_at_filter. cbn [fst snd].
  destruct (lookup e t (row_at i require)) as [|r [|r' rest]]; cbn [isnil negb andb length Nat.ltb Nat.leb firstn].
  - destruct (o_add o); reflexivity.
  - destruct (o_update o); [|reflexivity]. destruct (o_on_many o); reflexivity.
  - destruct (o_update o); [|reflexivity]. destruct (o_on_many o); try reflexivity. contradiction.
Qed.

Lemma set_nth_app {A} : forall (pre : list A) x y rest, set_nth (length pre) x (pre ++ y :: rest) = pre ++ x :: rest.
Proof. induction pre as [|a pre IH]; intros; simpl; [reflexivity|]. rewrite IH; reflexivity. Qed.

(* what the loop accumulates, read off the per-row outcomes *)
Definition spec_adds (e : env) (t : table) (o : options) (rows : list inrow) : list add_req :=
  flat_map (fun r => match ref_outcome e t o (fst r) with
                     | OAdd => [(dget id_col (add_values e r), drop_id (add_values e r))] | _ => [] end) rows.
Definition spec_place (e : env) (t : table) (o : options) (rows : list inrow) : list (list Z) :=
  map (fun r => match ref_outcome e t o (fst r) with OUpdate ids => ids | _ => [] end) rows.
Definition spec_upd_ids (e : env) (t : table) (o : options) (rows : list inrow) : list (list Z) :=
  flat_map (fun r => match ref_outcome e t o (fst r) with OUpdate ids => [ids] | _ => [] end) rows.
Fixpoint add_pos (e : env) (t : table) (o : options) (s : nat) (rows : list inrow) : list nat :=
  match rows with
  | [] => []
  | r :: rest => match ref_outcome e t o (fst r) with
                 | OAdd => s :: add_pos e t o (S s) rest | _ => add_pos e t o (S s) rest end
  end.

Lemma loop_spec : forall e t o require col_values, o_on_many o <> OnBad ->
  forall n s st pre, length pre = s -> s_rec_ids st = pre ++ repeat [] n ->
  let rows := map (mk_row require col_values) (seq s n) in
  fold_left (loop_body e t o require (filter (fun p => settable e (fst p)) require) col_values) (seq s n) st
  = {| s_adds := s_adds st ++ spec_adds e t o rows;
       s_new_idx := s_new_idx st ++ add_pos e t o s rows;
       s_upds := s_upds st ++ ref_upds e t o rows;
       s_rec_ids := pre ++ spec_place e t o rows;
       s_upd_ids := s_upd_ids st ++ spec_upd_ids e t o rows |}.
Proof.
  intros e t o require col_values Hbad. induction n as [|n IH]; intros s st pre Hlen Hrec; cbn zeta.
  - simpl. rewrite !app_nil_r. simpl in Hrec. rewrite app_nil_r in Hrec. rewrite <- Hrec. destruct st; reflexivity.
  - cbn [seq fold_left map]. rewrite loop_body_step by exact Hbad.
    unfold spec_adds, ref_upds, spec_place, spec_upd_ids. cbn [flat_map map add_pos].
    fold (spec_adds e t o (map (mk_row require col_values) (seq (S s) n))).
    fold (ref_upds e t o (map (mk_row require col_values) (seq (S s) n))).
    fold (spec_place e t o (map (mk_row require col_values) (seq (S s) n))).
    fold (spec_upd_ids e t o (map (mk_row require col_values) (seq (S s) n))).
    change (fst (mk_row require col_values s)) with (row_at s require).
    destruct (ref_outcome e t o (row_at s require)) as [| |ids] eqn:Out; cbn [step].
    + rewrite (IH (S s) st (pre ++ [[]])).
      * rewrite <- app_assoc. reflexivity.
      * rewrite app_length; simpl; lia.
      * rewrite Hrec. simpl. rewrite <- app_assoc. reflexivity.
    + rewrite (IH (S s) _ (pre ++ [[]])); cbn [s_adds s_new_idx s_upds s_rec_ids s_upd_ids].
      * rewrite <- !app_assoc. reflexivity.
      * rewrite app_length; simpl; lia.
      * rewrite Hrec. simpl. rewrite <- app_assoc. reflexivity.
    + rewrite (IH (S s) _ (pre ++ [ids])); cbn [s_adds s_new_idx s_upds s_rec_ids s_upd_ids].
      * rewrite <- !app_assoc. reflexivity.
      * rewrite app_length; simpl; lia.
      * rewrite Hrec. simpl. rewrite <- Hlen. rewrite set_nth_app. rewrite <- app_assoc. reflexivity.
Qed.

(* ---------- the returned id lists ---------- *)
Fixpoint resolve (e : env) (t : table) (o : options) (rows : list inrow) (ids : list Z) : list resolved :=
  match rows with
  | [] => []
  | r :: rest =>
      match ref_outcome e t o (fst r) with
      | ONothing => RNothing :: resolve e t o rest ids
      | OUpdate m => RUpdate m :: resolve e t o rest ids
      | OAdd => match ids with
                | i :: ids' => RAdd i :: resolve e t o rest ids'
                | [] => RNothing :: resolve e t o rest []
                end
      end
  end.

Lemma combine_nil_r {A B} : forall l : list A, combine l (@nil B) = [].
Proof. destruct l; reflexivity. Qed.

Lemma app_cons_assoc {A} : forall (pre : list A) x l, pre ++ x :: l = (pre ++ [x]) ++ l.
Proof. intros. rewrite <- app_assoc. reflexivity. Qed.

Lemma spec_place_cons : forall e t o r rows,
  spec_place e t o (r :: rows)
  = (match ref_outcome e t o (fst r) with OUpdate ids => ids | _ => [] end) :: spec_place e t o rows.
Proof. reflexivity. Qed.

Lemma fill_spec : forall e t o rows s pre ids, length pre = s ->
  fold_left (fun acc (p : nat * Z) => set_nth (fst p) [snd p] acc) (combine (add_pos e t o s rows) ids)
            (pre ++ spec_place e t o rows)
  = pre ++ r_record_ids (ret_of (resolve e t o rows ids)).
Proof.
  intros e t o rows; induction rows as [|r rows IH]; intros s pre ids Hlen.
  - simpl. reflexivity.
  - assert (Hl : forall x : list Z, length (pre ++ [x]) = S s) by (intros; rewrite app_length; simpl; lia).
    rewrite spec_place_cons. cbn [add_pos resolve].
    destruct (ref_outcome e t o (fst r)) as [| |m] eqn:Out.
    + rewrite app_cons_assoc. rewrite (IH (S s) (pre ++ [[]]) ids (Hl [])). cbn [ret_of r_record_ids map].
      rewrite <- app_cons_assoc. reflexivity.
    + destruct ids as [|i ids].
      * rewrite combine_nil_r. cbn [fold_left].
        specialize (IH (S s) (pre ++ [[]]) [] (Hl [])). rewrite combine_nil_r in IH. cbn [fold_left] in IH.
        rewrite app_cons_assoc, IH. cbn [ret_of r_record_ids map]. rewrite <- app_cons_assoc. reflexivity.
      * cbn [combine fold_left fst snd]. subst s. rewrite set_nth_app.
        rewrite app_cons_assoc. rewrite (IH _ (pre ++ [[i]]) ids (Hl [i])). cbn [ret_of r_record_ids map].
        rewrite <- app_cons_assoc. reflexivity.
    + rewrite app_cons_assoc. rewrite (IH (S s) (pre ++ [m]) ids (Hl m)). cbn [ret_of r_record_ids map].
      rewrite <- app_cons_assoc. reflexivity.
Qed.

Lemma resolve_update_ids : forall e t o rows ids,
  r_update_ids (ret_of (resolve e t o rows ids)) = spec_upd_ids e t o rows.
Proof.
  intros e t o rows. unfold ret_of, spec_upd_ids. cbn [r_update_ids].
  induction rows as [|r rows IH]; intros ids; cbn [resolve flat_map]; [reflexivity|].
  destruct (ref_outcome e t o (fst r)); [| destruct ids |]; cbn [flat_map app]; rewrite IH; reflexivity.
Qed.

Lemma resolve_add_ids : forall e t o rows ids, length ids = length (spec_adds e t o rows) ->
  r_add_ids (ret_of (resolve e t o rows ids)) = ids.
Proof.
  intros e t o rows. unfold ret_of, spec_adds. cbn [r_add_ids].
  induction rows as [|r rows IH]; intros ids; cbn [resolve flat_map].
  - destruct ids; [reflexivity|discriminate].
  - destruct (ref_outcome e t o (fst r)); cbn [app length]; intros Hl.
    + cbn [flat_map app]. apply (IH ids Hl).
    + destruct ids as [|i ids]; [discriminate|]. cbn [flat_map app]. f_equal. apply IH. simpl in Hl; lia.
    + cbn [flat_map app]. apply (IH ids Hl).
Qed.

Lemma fill_length : forall xs s, length (fill s xs) = length xs.
Proof. induction xs as [|x xs IH]; intros s; simpl; [reflexivity|]. destruct (kind x); simpl; rewrite IH; reflexivity. Qed.

Lemma spec_adds_explicit : forall e t o rows, map fst (spec_adds e t o rows) = ref_explicit e t o rows.
Proof.
  intros e t o rows; induction rows as [|r rows IH]; [reflexivity|].
  unfold spec_adds, ref_explicit in *. cbn [flat_map]. rewrite map_app, IH.
  destruct (ref_outcome e t o (fst r)); reflexivity.
Qed.

(* ---------- the reference, row after row ---------- *)
Fixpoint good (seen : list Z) (ids : list Z) : bool :=
  match ids with
  | [] => true
  | i :: rest => (0 <? i) && negb (memz i seen) && good (seen ++ [i]) rest
  end.

Lemma ref_outcome_update_In : forall e t o req m i,
  ref_outcome e t o req = OUpdate m -> In i m -> In i (ids_of t).
Proof.
  intros e t o req m i H Hin. unfold ref_outcome in H.
  destruct (lookup e t req) as [|r [|r' rest]] eqn:L.
  - destruct (o_add o); discriminate.
  - destruct (o_update o); [|discriminate]. inversion H; subst. apply (lookup_In e t req). rewrite L. exact Hin.
  - destruct (o_update o); [|discriminate]. apply (lookup_In e t req). rewrite L.
    destruct (o_on_many o); inversion H; subst; [destruct Hin as [<-|[]]; left; reflexivity | exact Hin].
Qed.

Lemma ref_outcome_update_nonempty : forall e t o req, ref_outcome e t o req <> OUpdate [].
Proof.
  intros e t o req. unfold ref_outcome. destruct (lookup e t req) as [|r [|r' rest]].
  - destruct (o_add o); discriminate.
  - destruct (o_update o); discriminate.
  - destruct (o_update o); [|discriminate]. destruct (o_on_many o); discriminate.
Qed.

Lemma apply_upds_untouched : forall e (us : list upd) nr,
  (forall u, In u us -> ~ In (fst u) (ids_of nr)) -> apply_upds e us nr = nr.
Proof.
  intros e us nr H. rewrite apply_upds_rows. rewrite <- (map_id nr) at 2. apply map_ext_in. intros r Hr.
  clear - H Hr. induction us as [|u us IH]; simpl; [reflexivity|].
  rewrite upd_row_other.
  - apply IH. intros u' Hu'. apply H. right; exact Hu'.
  - intros E. apply (H u (or_introl eq_refl)). rewrite <- E. unfold ids_of. apply in_map. exact Hr.
Qed.

Lemma ids_of_app : forall a b, ids_of (a ++ b) = ids_of a ++ ids_of b.
Proof. intros; unfold ids_of; apply map_app. Qed.

Lemma ref_run_spec : forall e t0 o rows old nr next,
  ids_of old = ids_of t0 ->
  (forall i, In i (ids_of nr) -> ~ In i (ids_of t0)) ->
  ref_run e t0 o (old ++ nr) next rows =
    if existsb is_bad (ref_explicit e t0 o rows) then Err EEnv
    else let ids := fill next (ref_explicit e t0 o rows) in
      if good (ids_of (old ++ nr)) ids
      then Ok (apply_upds e (ref_upds e t0 o rows) old ++ nr
                 ++ combine ids (map (fun a => new_cells e (snd a)) (spec_adds e t0 o rows)),
               resolve e t0 o rows ids)
      else Err EEnv.
Proof.
  intros e t0 o rows; induction rows as [|r rows IH]; intros old nr next Hold Hnr; cbn zeta.
  - simpl. rewrite app_nil_r. reflexivity.
  - cbn [ref_run]. unfold ref_explicit, ref_upds, spec_adds. cbn [flat_map resolve].
    fold (ref_explicit e t0 o rows). fold (ref_upds e t0 o rows). fold (spec_adds e t0 o rows).
    destruct (ref_outcome e t0 o (fst r)) as [| |m] eqn:Out.
    + cbn [app]. rewrite (IH old nr next Hold Hnr). cbn zeta.
      destruct (existsb is_bad (ref_explicit e t0 o rows)); [reflexivity|].
      destruct (good (ids_of (old ++ nr)) (fill next (ref_explicit e t0 o rows))); reflexivity.
    + cbn [app existsb fill]. unfold is_bad at 1.
      destruct (kind (dget id_col (add_values e r))) as [|n|] eqn:K; [| |reflexivity]; cbn [orb].
      * (* automatic id *)
        destruct ((0 <? next) && negb (memz next (ids_of (old ++ nr)))) eqn:G.
        -- assert (Hi : ~ In next (ids_of t0)).
           { apply andb_true_iff in G. destruct G as [_ G]. apply negb_true_iff in G.
             intros Hin. rewrite <- Hold in Hin. rewrite ids_of_app, memz_app in G. apply orb_false_iff in G.
             destruct G as [G _]. apply memz_In in Hin. congruence. }
           rewrite <- app_assoc.
           rewrite (IH old (nr ++ [(next, new_cells e (drop_id (add_values e r)))]) (next + 1) Hold).
           2:{ intros j Hj. rewrite ids_of_app in Hj. apply in_app_or in Hj. destruct Hj as [Hj|[Hj|[]]].
               - apply Hnr; exact Hj.
               - simpl in Hj. subst j. exact Hi. }
           cbn zeta. destruct (existsb is_bad (ref_explicit e t0 o rows)); [reflexivity|].
           cbn [good]. rewrite G. cbn [andb].
           replace (ids_of (old ++ nr ++ [(next, new_cells e (drop_id (add_values e r)))]))
             with (ids_of (old ++ nr) ++ [next]) by (rewrite !ids_of_app; simpl; rewrite app_assoc; reflexivity).
           destruct (good (ids_of (old ++ nr) ++ [next]) (fill (next + 1) (ref_explicit e t0 o rows))); [|reflexivity].
           cbn [map combine snd]. rewrite <- !app_assoc. reflexivity.
        -- destruct (existsb is_bad (ref_explicit e t0 o rows)); [reflexivity|].
           cbn [good]. rewrite G. reflexivity.
      * (* explicit id *)
        destruct ((0 <? n) && negb (memz n (ids_of (old ++ nr)))) eqn:G.
        -- assert (Hi : ~ In n (ids_of t0)).
           { apply andb_true_iff in G. destruct G as [_ G]. apply negb_true_iff in G.
             intros Hin. rewrite <- Hold in Hin. rewrite ids_of_app, memz_app in G. apply orb_false_iff in G.
             destruct G as [G _]. apply memz_In in Hin. congruence. }
           rewrite <- app_assoc.
           rewrite (IH old (nr ++ [(n, new_cells e (drop_id (add_values e r)))]) next Hold).
           2:{ intros j Hj. rewrite ids_of_app in Hj. apply in_app_or in Hj. destruct Hj as [Hj|[Hj|[]]].
               - apply Hnr; exact Hj.
               - simpl in Hj. subst j. exact Hi. }
           cbn zeta. destruct (existsb is_bad (ref_explicit e t0 o rows)); [reflexivity|].
           cbn [good]. rewrite G. cbn [andb].
           replace (ids_of (old ++ nr ++ [(n, new_cells e (drop_id (add_values e r)))]))
             with (ids_of (old ++ nr) ++ [n]) by (rewrite !ids_of_app; simpl; rewrite app_assoc; reflexivity).
           destruct (good (ids_of (old ++ nr) ++ [n]) (fill next (ref_explicit e t0 o rows))); [|reflexivity].
           cbn [map combine snd]. rewrite <- !app_assoc. reflexivity.
        -- destruct (existsb is_bad (ref_explicit e t0 o rows)); [reflexivity|].
           cbn [good]. rewrite G. reflexivity.
    + cbn [app]. rewrite apply_upds_app.
      rewrite (apply_upds_untouched e _ nr).
      2:{ intros u Hu Hin. apply in_map_iff in Hu. destruct Hu as [x [<- Hx]]. cbn [fst] in Hin.
          apply (Hnr x Hin). apply (ref_outcome_update_In e t0 o (fst r) m x Out Hx). }
      rewrite (IH _ nr next); [| rewrite apply_upds_ids; exact Hold | exact Hnr]. cbn zeta.
      destruct (existsb is_bad (ref_explicit e t0 o rows)); [reflexivity|].
      rewrite !ids_of_app, apply_upds_ids.
      destruct (good (ids_of old ++ ids_of nr) (fill next (ref_explicit e t0 o rows))); [|reflexivity].
      unfold apply_upds. rewrite fold_left_app. reflexivity.
Qed.

Lemma existsb_mem_snoc : forall i seen ids, memz i ids = false ->
  existsb (fun j => memz j (seen ++ [i])) ids = existsb (fun j => memz j seen) ids.
Proof.
  intros i seen ids; induction ids as [|j ids IH]; simpl; [reflexivity|].
  unfold memz at 1; simpl. fold (memz i ids). intros H. apply orb_false_iff in H. destruct H as [Hij H].
  rewrite (IH H). f_equal. rewrite memz_app. unfold memz at 2; simpl.
  rewrite Z.eqb_sym, Hij. simpl. rewrite orb_false_r. reflexivity.
Qed.

Lemma good_clean : forall ids seen, forallb (fun i => 0 <? i) ids = true -> nodupb ids = true ->
  good seen ids = negb (existsb (fun i => memz i seen) ids).
Proof.
  induction ids as [|i ids IH]; intros seen Hpos Hnd; simpl; [reflexivity|].
  simpl in Hpos, Hnd. apply andb_true_iff in Hpos. destruct Hpos as [Hi Hpos].
  apply andb_true_iff in Hnd. destruct Hnd as [Hni Hnd]. apply negb_true_iff in Hni.
  rewrite Hi, (IH _ Hpos Hnd), (existsb_mem_snoc i seen ids Hni). cbn [andb].
  rewrite negb_orb. reflexivity.
Qed.

(* ---------- the id filling yields positive, pairwise different ids ---------- *)
Lemma validate_false_good : forall xs s seenv seeng,
  (forall n, In n seenv -> In n seeng) -> validate seenv xs = false -> good seeng (fill s xs) = false.
Proof.
  induction xs as [|x xs IH]; intros s seenv seeng Hsub Hv; simpl in *; [discriminate|].
  destruct (kind x) as [|n|] eqn:K; cbn [good].
  - rewrite (IH (s + 1) seenv (seeng ++ [s])); [apply andb_false_r | intros n Hn; apply in_or_app; left; auto | exact Hv].
  - destruct (Z.eqb_spec n 0) as [->|Hn0]; [reflexivity|]. cbn [negb andb] in Hv.
    destruct (memz n seenv) eqn:M.
    + apply memz_In in M. apply Hsub in M. apply memz_In in M. rewrite M. cbn [negb]. rewrite andb_false_r. reflexivity.
    + cbn [negb andb] in Hv. rewrite (IH s (n :: seenv) (seeng ++ [n])); [apply andb_false_r | | exact Hv].
      intros k [<-|Hk]; apply in_or_app; [right; left; reflexivity | left; auto].
  - rewrite (IH (s + 1) seenv (seeng ++ [s])); [apply andb_false_r | intros n Hn; apply in_or_app; left; auto | exact Hv].
Qed.

Definition explicit_below (s : Z) (xs : list (option val)) : Prop :=
  forall x n, In x xs -> kind x = IExplicit n -> n < s.

Lemma fill_bounds : forall xs s i, In i (fill s xs) ->
  s <= i \/ exists x, In x xs /\ kind x = IExplicit i.
Proof.
  induction xs as [|x xs IH]; intros s i Hin; simpl in Hin; [destruct Hin|].
  destruct (kind x) as [|n|] eqn:K; destruct Hin as [<-|Hin];
    try (left; lia); try (right; exists x; split; [left; reflexivity|exact K]);
    (destruct (IH _ i Hin) as [H|[y [Hy Ky]]]; [left; lia | right; exists y; split; [right; exact Hy|exact Ky]]).
Qed.

Lemma validate_seen_absent : forall n y zs sn,
  kind y = IExplicit n -> In n sn -> In y zs -> validate sn zs = true -> False.
Proof.
  intros n y zs; induction zs as [|z zs IHz]; intros sn Ky Hsn Hin V; [destruct Hin|].
  simpl in V. destruct Hin as [<-|Hz].
  - rewrite Ky in V. apply andb_true_iff in V. destruct V as [V _]. apply andb_true_iff in V. destruct V as [_ V].
    apply negb_true_iff in V. apply memz_In in Hsn. congruence.
  - destruct (kind z) as [|k|]; [apply (IHz sn Ky Hsn Hz V)| |apply (IHz sn Ky Hsn Hz V)].
    apply andb_true_iff in V. destruct V as [_ V]. apply (IHz (k :: sn)); [exact Ky|right; exact Hsn|exact Hz|exact V].
Qed.

Lemma fill_clean : forall xs s seen, 1 <= s -> explicit_below s xs ->
  (forall x n, In x xs -> kind x = IExplicit n -> ~ In n seen) ->
  validate seen xs = true ->
  forallb (fun i => 0 <? i) (fill s xs) = true /\ nodupb (fill s xs) = true.
Proof.
  induction xs as [|x xs IH]; intros s seen Hs Hb Hseen Hv; simpl in *; [split; reflexivity|].
  assert (Hb' : forall s', s <= s' -> explicit_below s' xs).
  { intros s' Hs' y n Hy Ky. specialize (Hb y n (or_intror Hy) Ky). lia. }
  destruct (kind x) as [|n|] eqn:K; cbn [forallb nodupb].
  - destruct (IH (s + 1) seen) as [P N]; [lia | apply Hb'; lia | intros y n Hy; apply Hseen; right; exact Hy | exact Hv |].
    rewrite P, N. replace (0 <? s) with true by (symmetry; apply Z.ltb_lt; lia).
    replace (memz s (fill (s + 1) xs)) with false; [split; reflexivity|].
    symmetry. apply not_true_is_false. intros M. apply memz_In in M.
    destruct (fill_bounds xs (s + 1) s M) as [H|[y [Hy Ky]]]; [lia|]. specialize (Hb y s (or_intror Hy) Ky). lia.
  - apply andb_true_iff in Hv. destruct Hv as [Hv Hv3]. apply andb_true_iff in Hv. destruct Hv as [Hn0 Hns].
    apply negb_true_iff in Hn0. apply Z.eqb_neq in Hn0.
    assert (Hn : 0 <= n).
    { unfold kind in K. destruct x as [[|z|]|]; try discriminate K.
      destruct (Z.ltb_spec z 0); [discriminate K|]. destruct (z >? row_limit); inversion K; subst; lia. }
    destruct (IH s (n :: seen)) as [P N]; [exact Hs | apply Hb'; lia | | exact Hv3 |].
    { intros y k Hy Ky [E|Hk]; [|apply (Hseen y k (or_intror Hy) Ky Hk)]. subst k.
      apply (validate_seen_absent n y xs (n :: seen) Ky (or_introl eq_refl) Hy Hv3). }
    rewrite P, N. replace (0 <? n) with true by (symmetry; apply Z.ltb_lt; lia).
    replace (memz n (fill s xs)) with false; [split; reflexivity|].
    symmetry. apply not_true_is_false. intros M. apply memz_In in M.
    destruct (fill_bounds xs s n M) as [H|[y [Hy Ky]]].
    + specialize (Hb x n (or_introl eq_refl) K). lia.
    + apply (validate_seen_absent n y xs (n :: seen) Ky (or_introl eq_refl) Hy Hv3).
  - destruct (IH (s + 1) seen) as [P N]; [lia | apply Hb'; lia | intros y n Hy; apply Hseen; right; exact Hy | exact Hv |].
    rewrite P, N. replace (0 <? s) with true by (symmetry; apply Z.ltb_lt; lia).
    replace (memz s (fill (s + 1) xs)) with false; [split; reflexivity|].
    symmetry. apply not_true_is_false. intros M. apply memz_In in M.
    destruct (fill_bounds xs (s + 1) s M) as [H|[y [Hy Ky]]]; [lia|]. specialize (Hb y s (or_intror Hy) Ky). lia.
Qed.

(* ---------- the argument checks ---------- *)
Lemma dedup_length_le {A} (eqb : A -> A -> bool) : forall l, (length (dedup eqb l) <= length l)%nat.
Proof. induction l as [|x l IH]; simpl; [lia|]. destruct (mem eqb x l); simpl; lia. Qed.

Lemma dedup_length_has_dup {A} (eqb : A -> A -> bool) : forall l,
  (length (dedup eqb l) <? length l)%nat = has_dup eqb l.
Proof.
  induction l as [|x l IH]; [reflexivity|]. cbn [dedup has_dup length].
  destruct (mem eqb x l); cbn [orb].
  - apply Nat.ltb_lt. pose proof (dedup_length_le eqb l). lia.
  - rewrite <- IH. cbn [length]. reflexivity.
Qed.

Lemma mem_nat_In : forall x l, mem Nat.eqb x l = true <-> In x l.
Proof.
  intros x l; induction l as [|y l IH]; simpl; [split; [discriminate|tauto]|].
  rewrite orb_true_iff, Nat.eqb_eq, IH. split; intros [H|H]; auto.
Qed.

Lemma dedup_nat_In : forall x l, In x (dedup Nat.eqb l) <-> In x l.
Proof.
  intros x l; induction l as [|y l IH]; simpl; [tauto|].
  destruct (mem Nat.eqb y l) eqn:M; simpl; rewrite IH; [|tauto].
  apply mem_nat_In in M. split; [auto|intros [<-|H]; auto].
Qed.

Lemma dedup_nat_single : forall l n, dedup Nat.eqb l = [n] <-> (l <> [] /\ Forall (eq n) l).
Proof.
  intros l n; split.
  - intros D. split.
    + intros ->. discriminate.
    + apply Forall_forall. intros x Hx. apply dedup_nat_In in Hx. rewrite D in Hx. destruct Hx as [H|[]]; auto.
  - intros [Hne Hall]. induction l as [|x l IH]; [contradiction|].
    inversion Hall as [|x' l' Hx Hl]. subst x' l' x. simpl. destruct l as [|y l]; [reflexivity|].
    assert (M : mem Nat.eqb n (y :: l) = true).
    { apply mem_nat_In. inversion Hl as [|y' l' Hy Hl']. left; symmetry; exact Hy. }
    rewrite M. apply IH; [discriminate|exact Hl].
Qed.

Lemma all_same_spec : forall l n, all_same l = Some n <-> (l <> [] /\ Forall (eq n) l).
Proof.
  intros [|x l] n; simpl.
  - split; [discriminate|intros [H _]; contradiction].
  - destruct (forallb (Nat.eqb x) l) eqn:F.
    + rewrite forallb_forall in F. split.
      * intros H; inversion H; subst. split; [discriminate|]. constructor; [reflexivity|].
        apply Forall_forall. intros y Hy. apply Nat.eqb_eq. apply F; exact Hy.
      * intros [_ H]. inversion H; subst. reflexivity.
    + split; [discriminate|]. intros [_ H]. inversion H as [|? ? Hx Hl]; subst.
      assert (forallb (Nat.eqb x) l = true); [|congruence].
      apply forallb_forall. intros y Hy. apply Nat.eqb_eq. rewrite Forall_forall in Hl. apply Hl; exact Hy.
Qed.

Lemma lens_match {T} : forall (A : nat -> T) (B : T) l,
  match dedup Nat.eqb l with [n] => A n | _ => B end = match all_same l with Some n => A n | None => B end.
Proof.
  intros A B l. destruct (all_same l) as [n|] eqn:S.
  - apply all_same_spec in S. apply dedup_nat_single in S. rewrite S. reflexivity.
  - destruct (dedup Nat.eqb l) as [|a [|b r]] eqn:D; try reflexivity.
    apply dedup_nat_single in D. apply all_same_spec in D. congruence.
Qed.

Lemma nothing_iff : forall e t o rows,
  negb (isnil (spec_adds e t o rows)) || negb (isnil (ref_upds e t o rows))
  = negb (forallb (fun r => is_nothing (ref_outcome e t o (fst r))) rows).
Proof.
  intros e t o rows; induction rows as [|r rows IH]; [reflexivity|].
  unfold spec_adds, ref_upds in *. cbn [flat_map forallb].
  destruct (ref_outcome e t o (fst r)) as [| |m] eqn:Out; cbn [app is_nothing andb].
  - exact IH.
  - reflexivity.
  - destruct m as [|x m]; [exfalso; apply (ref_outcome_update_nonempty e t o (fst r)); exact Out|].
    cbn [map app isnil negb]. apply orb_true_r.
Qed.

Lemma bulk_add_nil : forall e t adds, (if isnil adds then Ok (t, []) else bulk_add e t adds) = bulk_add e t adds.
Proof. intros e t [|a adds]; reflexivity. Qed.

Lemma ref_upds_ids_In : forall e t o rows u, In u (ref_upds e t o rows) -> In (fst u) (ids_of t).
Proof.
  intros e t o rows u H. unfold ref_upds in H. apply in_flat_map in H. destruct H as [r [_ H]].
  destruct (ref_outcome e t o (fst r)) as [| |m] eqn:Out; try (destruct H).
  apply in_map_iff in H. destruct H as [x [<- Hx]]. apply (ref_outcome_update_In e t o (fst r) m x Out Hx).
Qed.

Lemma row_at_keys : forall i d, map fst (row_at i d) = map fst d.
Proof. intros; unfold row_at; rewrite map_map; reflexivity. Qed.

Lemma ref_upds_keys : forall e t o require col_values l,
  Forall (fun u : upd => map fst (snd u) = map fst col_values)
         (ref_upds e t o (map (mk_row require col_values) l)).
Proof.
  intros. apply Forall_forall. intros u H. unfold ref_upds in H. apply in_flat_map in H.
  destruct H as [r [Hr H]]. apply in_map_iff in Hr. destruct Hr as [i [<- _]].
  destruct (ref_outcome e t o (fst (mk_row require col_values i))); try (destruct H).
  apply in_map_iff in H. destruct H as [x [<- _]]. unfold mk_row. cbn [snd]. apply row_at_keys.
Qed.

Lemma changed_app : forall e t nr (u : upd),
  (forall r, In r nr -> fst r <> fst u) -> changed e (t ++ nr) u = changed e t u.
Proof.
  intros e t nr u H. unfold changed. f_equal. apply eq_true_iff_eq. rewrite !table_eqb_spec.
  assert (E : apply_upd e nr u = nr).
  { unfold apply_upd. rewrite <- (map_id nr) at 2. apply map_ext_in. intros r Hr.
    destruct (Z.eqb_spec (fst r) (fst u)) as [E|_]; [exfalso; apply (H r Hr E)|reflexivity]. }
  assert (A : apply_upd e (t ++ nr) u = apply_upd e t u ++ apply_upd e nr u) by (unfold apply_upd; apply map_app).
  rewrite A, E. split; [apply app_inv_tail | intros ->; reflexivity].
Qed.

Lemma stale_free_ext : forall e t t' (us : list upd),
  (forall u, In u us -> changed e t' u = changed e t u) -> stale_free e t us = true -> stale_free e t' us = true.
Proof.
  intros e t t' us H S. unfold stale_free in *. rewrite forallb_forall in *. intros u Hu.
  specialize (S u Hu). rewrite (H u Hu).
  destruct (last_for (fst u) us) as [l|] eqn:L; [|exact S].
  destruct (last_for_In _ _ _ L) as [Hl _]. rewrite (H l Hl). exact S.
Qed.

Lemma existsb_row_exists : forall t ids, forallb (fun i => 0 <? i) ids = true ->
  existsb (row_exists t) ids = existsb (fun i => memz i (ids_of t)) ids.
Proof.
  intros t ids; induction ids as [|i ids IH]; simpl; [reflexivity|].
  intros H. apply andb_true_iff in H. destruct H as [Hi H]. rewrite (IH H). unfold row_exists. rewrite Hi. reflexivity.
Qed.

(* ---------- the core: accumulators + two bulk actions = row after row ---------- *)
Lemma rows_of_mk : forall len require col_values,
  rows_of len require col_values = map (mk_row require col_values) (seq 0 len).
Proof. reflexivity. Qed.

Lemma start_id_spec : forall xs a, a <= start_id a xs /\ explicit_below (start_id a xs) xs.
Proof.
  unfold start_id, explicit_below. induction xs as [|x xs IH]; intros a; simpl.
  - split; [lia|intros x n []].
  - destruct (kind x) as [|k|] eqn:K.
    + destruct (IH a) as [H1 H2]. split; [exact H1|]. intros y n [<-|Hy] Ky; [congruence|apply (H2 y n Hy Ky)].
    + destruct (IH (Z.max a (k + 1))) as [H1 H2]. split; [lia|].
      intros y n [<-|Hy] Ky; [|apply (H2 y n Hy Ky)]. rewrite K in Ky. inversion Ky; subst. lia.
    + destruct (IH a) as [H1 H2]. split; [exact H1|]. intros y n [<-|Hy] Ky; [congruence|apply (H2 y n Hy Ky)].
Qed.

Lemma fold_max_ge : forall l a, a <= fold_left Z.max l a.
Proof. induction l as [|x l IH]; intros a; simpl; [lia|]. specialize (IH (Z.max a x)). lia. Qed.

Lemma next_row_id_pos : forall t, 1 <= next_row_id t.
Proof. intros t. unfold next_row_id, max_id. pose proof (fold_max_ge (ids_of t) 0). lia. Qed.

Lemma ref_run_spec0 : forall e t o rows next,
  ref_run e t o t next rows =
    if existsb is_bad (ref_explicit e t o rows) then Err EEnv
    else let ids := fill next (ref_explicit e t o rows) in
      if good (ids_of t) ids
      then Ok (apply_upds e (ref_upds e t o rows) t
                 ++ combine ids (map (fun a => new_cells e (snd a)) (spec_adds e t o rows)),
               resolve e t o rows ids)
      else Err EEnv.
Proof.
  intros e t o rows next. pose proof (ref_run_spec e t o rows t [] next eq_refl) as H.
  rewrite !app_nil_r in H. apply H. intros i [].
Qed.

Lemma upd_after_add : forall e t o require col_values l nr,
  let rows := map (mk_row require col_values) l in
  (forall r : row, In r nr -> ~ In (fst r) (ids_of t)) ->
  (if isnil (ref_upds e t o rows) then t ++ nr else bulk_update e (t ++ nr) (ref_upds e t o rows))
  = apply_upds e (ref_upds e t o rows) t ++ nr.
Proof.
  intros e t o require col_values l nr rows Hnr.
  assert (E : bulk_update e (t ++ nr) (ref_upds e t o rows) = apply_upds e (ref_upds e t o rows) t ++ nr).
  { rewrite (bulk_update_all e (map fst col_values)).
    - rewrite apply_upds_app. f_equal. apply apply_upds_untouched.
      intros u Hu Hin. unfold ids_of in Hin. apply in_map_iff in Hin. destruct Hin as [r [Er Hr]].
      apply (Hnr r Hr). rewrite Er. apply (ref_upds_ids_In e t o rows u Hu).
    - apply ref_upds_keys. }
  destruct (ref_upds e t o rows) eqn:U; [reflexivity|]. cbn [isnil]. exact E.
Qed.

Lemma core_eq : forall e t require col_values o len,
  o_on_many o <> OnBad ->
  upsert_core e t require col_values o len = ref_core e t require col_values o len.
Proof.
  intros e t require col_values o len Hbad.
  unfold upsert_core, ref_core. cbn zeta.
  rewrite (loop_spec e t o require col_values Hbad len 0%nat
             {| s_adds := []; s_new_idx := []; s_upds := []; s_rec_ids := repeat [] len; s_upd_ids := [] |}
             [] eq_refl eq_refl).
  cbn [s_adds s_new_idx s_upds s_rec_ids s_upd_ids app].
  rewrite rows_of_mk in *. set (rows := map (mk_row require col_values) (seq 0 len)) in *.
  rewrite nothing_iff.
  destruct (negb (forallb (fun r => is_nothing (ref_outcome e t o (fst r))) rows)
            && negb (forallb (fun p => writable e (fst p)) col_values)); [reflexivity|].
  rewrite bulk_add_nil, ref_run_spec0. unfold bulk_add, alloc. rewrite spec_adds_explicit. cbn zeta.
  destruct (existsb is_bad (ref_explicit e t o rows)); [reflexivity|].
  set (start := start_id (next_row_id t) (ref_explicit e t o rows)).
  destruct (validate [] (ref_explicit e t o rows)) eqn:V.
  2:{ rewrite (validate_false_good _ start [] (ids_of t)); [reflexivity|intros n []|exact V]. }
  destruct (start_id_spec (ref_explicit e t o rows) (next_row_id t)) as [Hge Hbelow]. fold start in Hge, Hbelow.
  destruct (fill_clean (ref_explicit e t o rows) start [] ) as [Hpos Hnd];
    [pose proof (next_row_id_pos t); lia | exact Hbelow | intros x n _ _ [] | exact V |].
  set (ids := fill start (ref_explicit e t o rows)) in *.
  rewrite (good_clean ids (ids_of t) Hpos Hnd), (existsb_row_exists t ids Hpos).
  destruct (existsb (fun i => memz i (ids_of t)) ids) eqn:Ex; [reflexivity|]. cbn [negb].
  assert (Hfresh : forall i, In i ids -> ~ In i (ids_of t)).
  { intros i Hi Hin. apply memz_In in Hin.
    assert (existsb (fun i => memz i (ids_of t)) ids = true); [|congruence].
    apply existsb_exists. exists i; auto. }
  rewrite (doc_add_fresh ids _ t Hpos Hnd Hfresh).
  subst rows. f_equal. f_equal.
  { apply (upd_after_add e t o require col_values (seq 0 len)).
    intros [i c] Hr. apply in_combine_l in Hr. apply Hfresh; exact Hr. }
  pose proof (fill_spec e t o (map (mk_row require col_values) (seq 0 len)) 0%nat [] ids eq_refl) as F. cbn [app] in F. rewrite F.
  unfold ret_of at 2. f_equal.
  - symmetry. apply resolve_add_ids. unfold ids. rewrite fill_length.
    rewrite <- spec_adds_explicit. apply map_length.
  - symmetry. apply resolve_update_ids.
Qed.

Lemma keys_dup {A B} (eqb : B -> B -> bool) : forall (f : nat -> B) (len : nat) (_ : A),
  (length (dedup eqb (map f (seq 0 len))) <? len)%nat = has_dup eqb (map f (seq 0 len)).
Proof. intros f len _. rewrite <- dedup_length_has_dup, map_length, seq_length. reflexivity. Qed.

Lemma arg_error_upsert : forall e t require col_values o x,
  arg_error require col_values o = Some x -> upsert e t require col_values o = Err x.
Proof.
  intros e t require col_values o x. unfold arg_error, upsert, bad_on_many, empty_require_refused, common_length, duplicate_keys.
  rewrite lens_match.
  destruct (o_on_many o); try (intros H; inversion H; reflexivity);
  (destruct (isnil require && negb (o_allow_empty o)); [intros H; inversion H; reflexivity|];
   destruct (isnil require && isnil col_values); [discriminate|];
   destruct (all_same (map (@length val) (all_lists require col_values))) as [len|]; [|intros H; inversion H; reflexivity];
   rewrite (keys_dup (list_eqb val_eqb) _ len tt); unfold rows_of; rewrite map_map; cbn [fst];
   destruct (negb (isnil require) && has_dup (list_eqb val_eqb) (map (fun i => map snd (row_at i require)) (seq 0 len)));
   [intros H; inversion H; reflexivity | discriminate]).
Qed.

Lemma upsert_eq : forall e t require col_values o,
  upsert e t require col_values o = ref_upsert e t require col_values o.
Proof.
  intros e t require col_values o. unfold ref_upsert.
  destruct (arg_error require col_values o) as [x|] eqn:AE; [apply arg_error_upsert; exact AE|].
  unfold arg_error, empty_require_refused, duplicate_keys in AE.
  unfold upsert. unfold common_length in *.
  rewrite lens_match.
  assert (Hbad : o_on_many o <> OnBad).
  { intros E. unfold bad_on_many in AE. rewrite E in AE. discriminate AE. }
  assert (Hgo : (if isnil require && negb (o_allow_empty o) then Err EEmptyRequire else
                 if isnil require && isnil col_values then Ok (t, empty_ret) else
                 match all_same (map (@length val) (all_lists require col_values)) with
                 | Some len =>
                     if negb (isnil require) &&
                        (length (dedup (list_eqb val_eqb) (map (fun i => map snd (row_at i require)) (seq 0 len))) <? len)%nat
                     then Err EUnique
                     else if negb (forallb (fun p => known e (fst p)) require) then Err EEnv
                          else upsert_core e t require col_values o len
                 | None => Err ELengths
                 end) =
                (if isnil require && isnil col_values then Ok (t, empty_ret) else
                 match all_same (map (@length val) (all_lists require col_values)) with
                 | None => Err ELengths
                 | Some len => if negb (forallb (fun p => known e (fst p)) require) then Err EEnv
                               else ref_core e t require col_values o len
                 end)).
  { destruct (bad_on_many o); [discriminate AE|].
    destruct (isnil require && negb (o_allow_empty o)); [discriminate AE|].
    destruct (isnil require && isnil col_values); [reflexivity|].
    destruct (all_same (map (@length val) (all_lists require col_values))) as [len|]; [|discriminate AE].
    rewrite (keys_dup (list_eqb val_eqb) _ len tt).
    unfold rows_of in AE; rewrite map_map in AE; cbn [fst] in AE.
    destruct (negb (isnil require) && has_dup (list_eqb val_eqb) (map (fun i => map snd (row_at i require)) (seq 0 len)));
      [discriminate AE|].
    destruct (negb (forallb (fun p => known e (fst p)) require)); [reflexivity|].
    apply core_eq; assumption. }
  destruct (o_on_many o) eqn:OM; try exact Hgo. congruence.
Qed.

(* ---------- argument errors reject ---------- *)
Lemma arg_error_rejects : forall e t require col_values o x,
  arg_error require col_values o = Some x ->
  upsert e t require col_values o = Err x /\ table_after t (upsert e t require col_values o) = t.
Proof. intros e t require col_values o x H. rewrite (arg_error_upsert e t _ _ _ _ H). split; reflexivity. Qed.

Lemma err_unchanged : forall e t require col_values o x,
  upsert e t require col_values o = Err x -> table_after t (upsert e t require col_values o) = t.
Proof. intros e t require col_values o x H. rewrite H. reflexivity. Qed.

(* ---------- AddOrUpdateRecord ---------- *)
Lemma row_at_single : forall d, row_at 0 (single_kv d) = d.
Proof.
  intros d. unfold row_at, single_kv. rewrite map_map. rewrite <- (map_id d) at 2. apply map_ext.
  intros [k v]; reflexivity.
Qed.

Lemma single_lengths : forall d, Forall (eq 1%nat) (map (@length val) (map snd (single_kv d))).
Proof. intros d. apply Forall_forall. intros n H. unfold single_kv in H. rewrite !map_map in H.
  apply in_map_iff in H. destruct H as [p [<- _]]. reflexivity. Qed.

Lemma common_length_single : forall rq cv, isnil rq && isnil cv = false ->
  common_length (all_lists (single_kv rq) (single_kv cv)) = Some 1%nat.
Proof.
  intros rq cv H. unfold common_length. apply all_same_spec. split.
  - unfold all_lists, single_kv. destruct rq; [destruct cv; [discriminate H|]|]; discriminate.
  - unfold all_lists. rewrite map_app. apply Forall_app. split; apply single_lengths.
Qed.

Lemma isnil_single : forall d, isnil (single_kv d) = isnil d.
Proof. intros [|p d]; reflexivity. Qed.

Lemma stale_free_one_row : forall e t (us : list upd) v,
  (forall u, In u us -> snd u = v) -> stale_free e t us = true.
Proof.
  intros e t us v H. unfold stale_free. apply forallb_forall. intros u Hu.
  destruct (last_for (fst u) us) as [l|] eqn:L; [|apply implb_true_r].
  destruct (last_for_In _ _ _ L) as [Hl Hid].
  assert (l = u) as ->.
  { destruct l as [i a], u as [j b]. cbn [fst] in Hid. rewrite (H _ Hl : a = v), (H _ Hu : b = v), Hid. reflexivity. }
  destruct (changed e t u); reflexivity.
Qed.

Lemma single_eq : forall e t rq cv o,
  upsert_single e t rq cv o = ref_single e t rq cv o.
Proof.
  intros e t rq cv o. unfold upsert_single, ref_single.
  destruct (isnil rq && isnil cv) eqn:E; [reflexivity|].
  rewrite (upsert_eq e t _ _ o).
  unfold ref_upsert. destruct (arg_error (single_kv rq) (single_kv cv) o); [reflexivity|].
  rewrite !isnil_single, E, (common_length_single rq cv E).
  destruct (negb (forallb (fun p => known e (fst p)) (single_kv rq))); [reflexivity|].
  unfold ref_core. cbn [rows_of seq map forallb fst snd]. rewrite !row_at_single.
  destruct (negb (is_nothing (ref_outcome e t o rq) && true)
            && negb (forallb (fun p => writable e (fst p)) (single_kv cv))); [reflexivity|].
  cbn [ref_run fst snd].
  destruct (ref_outcome e t o rq) as [| |m] eqn:Out.
  - reflexivity.
  - cbn [ref_explicit flat_map fst]. rewrite Out.
    destruct (kind (dget id_col (add_values e (rq, cv)))) as [|n|]; [| |reflexivity].
    + destruct ((0 <? _) && negb (memz _ (ids_of t))); reflexivity.
    + destruct ((0 <? n) && negb (memz n (ids_of t))); reflexivity.
  - cbn [ret_of map flat_map app r_record_ids r_update_ids isnil negb]. reflexivity.
Qed.

(* ---------- errors other than EEnv only come from the argument checks ---------- *)
Lemma upsert_core_err : forall e t require col_values o len x,
  upsert_core e t require col_values o len = Err x -> x = EEnv.
Proof.
  intros e t require col_values o len x. unfold upsert_core. cbn zeta.
  match goal with |- context [fold_left ?f ?l ?i] => generalize (fold_left f l i) end. intros st.
  destruct ((negb (isnil (s_adds st)) || negb (isnil (s_upds st))) && negb (forallb (fun p => writable e (fst p)) col_values)).
  - intros H; inversion H; reflexivity.
  - rewrite bulk_add_nil. unfold bulk_add.
    destruct (alloc (next_row_id t) (map fst (s_adds st))) as [ids|]; [|intros H; inversion H; reflexivity].
    destruct (existsb (row_exists t) ids); [intros H; inversion H; reflexivity|discriminate].
Qed.

Lemma upsert_err_arg : forall e t require col_values o x,
  upsert e t require col_values o = Err x -> x <> EEnv -> arg_error require col_values o = Some x.
Proof.
  intros e t require col_values o x H Hx.
  destruct (arg_error require col_values o) as [y|] eqn:AE.
  - rewrite (arg_error_upsert e t _ _ _ _ AE) in H. inversion H; reflexivity.
  - exfalso. revert H. unfold upsert. unfold arg_error, bad_on_many, empty_require_refused, duplicate_keys, common_length in AE.
    rewrite lens_match.
    destruct (o_on_many o); try discriminate AE;
    (destruct (isnil require && negb (o_allow_empty o)); [discriminate AE|];
     destruct (isnil require && isnil col_values); [discriminate|];
     destruct (all_same (map (@length val) (all_lists require col_values))) as [len|]; [|discriminate AE];
     rewrite (keys_dup (list_eqb val_eqb) _ len tt);
     unfold rows_of in AE; rewrite map_map in AE; cbn [fst] in AE;
     destruct (negb (isnil require) && has_dup (list_eqb val_eqb) (map (fun i => map snd (row_at i require)) (seq 0 len)));
     [discriminate AE|];
     destruct (negb (forallb (fun p => known e (fst p)) require)); [intros H; inversion H; congruence|];
     intros H; apply upsert_core_err in H; contradiction).
Qed.

