(* Graph.invalidate_deps (DepsExec.inval): what the worklist leaves in recompute_map.
   Soundness: nothing is removed, the start batch is entered (include_self), and every cell that
   becomes dirty belongs to a processed batch whose image under every recorded edge is dirty too.
   clear_dependencies, which runs in the middle of the walk for nodes reaching ALL_ROWS, does not
   change what is propagated afterwards. *)
From Coq Require Import ZArith List Bool Lia.
Import ListNotations.
Require Import Grist.Model.Deps Grist.Model.DepsSpec Grist.Model.DepsExec.
Open Scope Z_scope.

(* every _LookupRelation inside the relation of an edge belongs to the edge's out_node *)
Fixpoint rel_owner (r : rel) (o : node) : bool :=
  match r with
  | RLook _ n => Z.eqb n o
  | RComp a b => rel_owner a o && rel_owner b o
  | _ => true
  end.

Definition owner_ok (E : list edge) : Prop := forall e, In e E -> rel_owner (e_rel e) (e_out e) = true.

(* R and R' hold the same relation state except for lookup relations of the nodes in N *)
Definition agree_except (N : node -> bool) (R R' : relst) : Prop :=
  (forall c t, inv R c t = inv R' c t) /\ (forall m t, lkkeys R m t = lkkeys R' m t) /\
  (forall m n, N n = false -> lkrows R m n = lkrows R' m n).

Lemma agree_refl N R : agree_except N R R.
Proof. repeat split; auto. Qed.

Lemma agree_trans N R1 R2 R3 : agree_except N R1 R2 -> agree_except N R2 R3 -> agree_except N R1 R3.
Proof.
  intros (a1 & a2 & a3) (b1 & b2 & b3). repeat split; intros.
  - rewrite a1. apply b1.
  - rewrite a2. apply b2.
  - rewrite a3, b3; auto.
Qed.

Lemma agree_weaken (N N' : node -> bool) R R' :
  (forall n, N' n = false -> N n = false) -> agree_except N R R' -> agree_except N' R R'.
Proof. intros H (a1 & a2 & a3). repeat split; auto. Qed.

Lemma flat_map_ext' {A B} (f g : A -> list B) l : (forall x, f x = g x) -> flat_map f l = flat_map g l.
Proof. intros H. induction l as [| a l IH]; cbn; [reflexivity |]. rewrite H, IH. reflexivity. Qed.

Lemma affected_agree N R R' via o :
  agree_except N R R' -> rel_owner via o = true -> N o = false ->
  forall x, affected R via x = affected R' via x.
Proof.
  intros (a1 & a2 & a3) Ho Hn. induction via as [| | c | a IHa b IHb | m n]; intros x; cbn [affected].
  - reflexivity.
  - reflexivity.
  - destruct x; [reflexivity |]. f_equal. apply flat_map_ext'. intros t. apply a1.
  - cbn [rel_owner] in Ho. apply andb_true_iff in Ho. destruct Ho as [Ha Hb].
    rewrite (IHb Hb). apply IHa. exact Ha.
  - cbn [rel_owner] in Ho. apply Z.eqb_eq in Ho. subst n.
    destruct x; [reflexivity |]. rewrite (a3 m o Hn). f_equal. f_equal.
    apply flat_map_ext'. intros t. apply a2.
Qed.

(* reset_rows only touches lookup relations owned by o *)
Lemma reset_rows_agree R via o x :
  rel_owner via o = true -> agree_except (fun n => Z.eqb n o) R (reset_rows R via x).
Proof.
  revert R. induction via as [| | c | a IHa b IHb | m n]; intros R Ho; cbn [reset_rows];
    try apply agree_refl.
  - cbn [rel_owner] in Ho. apply andb_true_iff in Ho. apply IHa. tauto.
  - cbn [rel_owner] in Ho. apply Z.eqb_eq in Ho. subst n.
    assert (G : forall l, agree_except (fun n => Z.eqb n o) R (set_lkrows R m o l)).
    { intros l. repeat split; auto. intros m' n' Hn. cbn [set_lkrows lkrows].
      rewrite Hn, andb_false_r. reflexivity. }
    destruct x; apply G.
Qed.

Lemma fold_reset_agree (E : list edge) n (F : relst -> rel -> relst) :
  (forall R via, rel_owner via n = true -> agree_except (fun k => Z.eqb k n) R (F R via)) ->
  (forall e, In e E -> rel_owner (e_rel e) (e_out e) = true) ->
  forall R, agree_except (fun k => Z.eqb k n) R
              (fold_left (fun R e => if Z.eqb (e_out e) n then F R (e_rel e) else R) E R).
Proof.
  intros HF. induction E as [| e E IH]; intros Ho R; cbn [fold_left]; [apply agree_refl |].
  eapply agree_trans; [| apply IH; intros; apply Ho; right; auto].
  destruct (Z.eqb (e_out e) n) eqn:X; [| apply agree_refl].
  apply HF. apply Z.eqb_eq in X. rewrite <- X. apply Ho. left. reflexivity.
Qed.

Lemma clear_dependencies_agree E R n :
  owner_ok E -> agree_except (fun k => Z.eqb k n) R (snd (clear_dependencies E R n)).
Proof.
  intros Ho. unfold clear_dependencies. cbn [snd].
  apply fold_reset_agree; auto. intros R0 via H. apply reset_rows_agree. exact H.
Qed.

Lemma reset_dependencies_agree E R n x :
  owner_ok E -> agree_except (fun k => Z.eqb k n) R (reset_dependencies E R n x).
Proof.
  intros Ho. unfold reset_dependencies.
  apply (fold_reset_agree E n (fun R via => reset_rows R via x)); auto.
  intros R0 via H. apply reset_rows_agree. exact H.
Qed.
