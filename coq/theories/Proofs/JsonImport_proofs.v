(* Lemmas about the model of import_json.py (C33).  Statements of the property are in Props/C33.v. *)
From Coq Require Import ZArith List Bool Arith Lia Permutation.
Import ListNotations.
Require Import Grist.Model.JsonImport.

(* ------------------------------------------------------------------ strings *)

Lemma str_eqb_refl a : str_eqb a a = true.
Proof. induction a as [|x a IH]; cbn; [reflexivity|]. rewrite Z.eqb_refl, IH. reflexivity. Qed.

Lemma str_eqb_eq a b : str_eqb a b = true <-> a = b.
Proof.
  split.
  - revert b. induction a as [|x a IH]; intros [|y b] H; cbn in H; try discriminate; [reflexivity|].
    apply andb_true_iff in H. destruct H as [H1 H2]. apply Z.eqb_eq in H1. apply IH in H2. congruence.
  - intros ->. apply str_eqb_refl.
Qed.

Lemma str_eqb_neq a b : str_eqb a b = false <-> a <> b.
Proof.
  split.
  - intros H E. apply str_eqb_eq in E. congruence.
  - intros H. destruct (str_eqb a b) eqn:E; [|reflexivity]. apply str_eqb_eq in E. contradiction.
Qed.

Lemma str_eqb_sym a b : str_eqb a b = str_eqb b a.
Proof.
  destruct (str_eqb a b) eqn:E.
  - apply str_eqb_eq in E. subst. symmetry. apply str_eqb_refl.
  - symmetry. apply str_eqb_neq. apply str_eqb_neq in E. congruence.
Qed.

Lemma scalar_eqb_eq a b : scalar_eqb a b = true <-> a = b.
Proof.
  split.
  - destruct a, b; cbn; intros H; try discriminate; try reflexivity.
    + apply eqb_prop in H. congruence.
    + apply Z.eqb_eq in H. congruence.
    + apply Z.eqb_eq in H. congruence.
    + apply str_eqb_eq in H. congruence.
  - intros ->. destruct b; cbn; auto using eqb_reflx, Z.eqb_refl, str_eqb_refl.
Qed.

Lemma cell_eqb_eq a b : cell_eqb a b = true <-> a = b.
Proof.
  split.
  - destruct a as [s|[t r]], b as [s'|[t' r']]; cbn; intros H; try discriminate.
    + apply scalar_eqb_eq in H. congruence.
    + apply andb_true_iff in H. destruct H as [H1 H2]. apply str_eqb_eq in H1. apply Nat.eqb_eq in H2. congruence.
  - intros ->. destruct b as [s|[t r]]; cbn.
    + apply scalar_eqb_eq. reflexivity.
    + rewrite str_eqb_refl, Nat.eqb_refl. reflexivity.
Qed.

(* ------------------------------------------------------------------ generic list facts *)

Lemma fold_left_flat_map {A B C} (f : A -> C -> A) (g : B -> list C) (l : list B) (a : A) :
  fold_left f (flat_map g l) a = fold_left (fun a x => fold_left f (g x) a) l a.
Proof.
  revert a. induction l as [|x l IH]; intros a; cbn; [reflexivity|].
  rewrite fold_left_app. apply IH.
Qed.

Lemma fold_left_map {A B C} (f : A -> C -> A) (g : B -> C) (l : list B) (a : A) :
  fold_left f (map g l) a = fold_left (fun a x => f a (g x)) l a.
Proof. revert a. induction l as [|x l IH]; intros a; cbn; [reflexivity|apply IH]. Qed.

Lemma fold_left_ext {A B} (f g : A -> B -> A) (l : list B) (a : A) :
  (forall a x, f a x = g a x) -> fold_left f l a = fold_left g l a.
Proof. intros H. revert a. induction l as [|x l IH]; intros a; cbn; [reflexivity|]. rewrite H. apply IH. Qed.

Lemma count_if_app {A} (f : A -> bool) (a b : list A) : count_if f (a ++ b) = count_if f a + count_if f b.
Proof. unfold count_if. rewrite filter_app, app_length. reflexivity. Qed.

Lemma count_if_cons {A} (f : A -> bool) (x : A) (l : list A) :
  count_if f (x :: l) = (if f x then 1 else 0) + count_if f l.
Proof. unfold count_if. cbn. destruct (f x); reflexivity. Qed.

Lemma count_if_flat_map {A B} (f : B -> bool) (g : A -> list B) (l : list A) :
  count_if f (flat_map g l) = list_sum (map (fun x => count_if f (g x)) l).
Proof. induction l as [|x l IH]; [reflexivity|]. cbn [flat_map map list_sum]. rewrite count_if_app, IH. reflexivity. Qed.

Lemma count_if_map {A B} (f : B -> bool) (g : A -> B) (l : list A) :
  count_if f (map g l) = count_if (fun x => f (g x)) l.
Proof. induction l as [|x l IH]; [reflexivity|]. cbn [map]. rewrite !count_if_cons, IH. reflexivity. Qed.

Lemma count_if_ext {A} (f g : A -> bool) (l : list A) :
  (forall x, In x l -> f x = g x) -> count_if f l = count_if g l.
Proof.
  induction l as [|x l IH]; intros H; [reflexivity|]. rewrite !count_if_cons, (H x (or_introl eq_refl)), IH; [reflexivity|].
  intros y Hy. apply H. right. exact Hy.
Qed.

Lemma count_if_perm {A} (f : A -> bool) (a b : list A) : Permutation a b -> count_if f a = count_if f b.
Proof.
  induction 1 as [|x a b _ IH|x y a|a b c _ IH1 _ IH2]; [reflexivity| | |congruence].
  - rewrite !count_if_cons, IH. reflexivity.
  - rewrite !count_if_cons. lia.
Qed.

Lemma count_if_false {A} (f : A -> bool) (l : list A) : (forall x, In x l -> f x = false) -> count_if f l = 0.
Proof.
  induction l as [|x l IH]; intros H; [reflexivity|]. rewrite count_if_cons, (H x (or_introl eq_refl)), IH; [reflexivity|].
  intros y Hy. apply H. right. exact Hy.
Qed.

Lemma nodup_app_r {A} (a b : list A) : NoDup (a ++ b) -> NoDup b.
Proof. induction a as [|x a IH]; cbn; [auto|]. intros H. inversion H; auto. Qed.

Lemma nodup_app_disj {A} (a b : list A) x : NoDup (a ++ b) -> In x a -> In x b -> False.
Proof.
  induction a as [|y a IH]; cbn; [intros _ []|]. intros H [->|Ha] Hb; inversion H; subst.
  - apply H2. apply in_or_app. auto.
  - auto.
Qed.

(* ------------------------------------------------------------------ induction on JSON values *)

Section JsonInd.
Variable P : json -> Prop.
Hypothesis HS : forall s, P (JS s).
Hypothesis HA : forall l, Forall P l -> P (JArr l).
Hypothesis HO : forall kvs, Forall (fun kv => P (snd kv)) kvs -> P (JObj kvs).

Fixpoint json_ind2 (v : json) : P v :=
  match v with
  | JS s => HS s
  | JArr l => HA l ((fix go (l : list json) : Forall P l :=
                       match l with [] => Forall_nil _ | e :: t => Forall_cons _ (json_ind2 e) (go t) end) l)
  | JObj kvs => HO kvs ((fix go (l : list (str * json)) : Forall (fun kv => P (snd kv)) l :=
                           match l with
                           | [] => Forall_nil _
                           | kv :: t => Forall_cons _ (json_ind2 (snd kv)) (go t)
                           end) kvs)
  end.
End JsonInd.

Definition child (a : action) : list json :=
  match a with AScalar _ _ => [] | AObj _ x => [x] | AElem _ e => [e] end.
Definition children (v : json) : list json := flat_map child (plan v).

Lemma children_arr l : children (JArr l) = l.
Proof.
  unfold children, plan. cbn. rewrite app_nil_r. induction l as [|e l IH]; cbn; [reflexivity|]. rewrite IH. reflexivity.
Qed.

Lemma in_children_field k x kvs c :
  In (k, x) kvs -> In c (flat_map child (field_plan k x)) -> In c (children (JObj kvs)).
Proof.
  intros Hin Hc. unfold children, plan. cbn [fields]. apply in_flat_map in Hc. destruct Hc as [a [Ha Hc]].
  apply in_flat_map. exists a. split; [|exact Hc]. apply in_flat_map. exists (k, x). split; [exact Hin|exact Ha].
Qed.

(* the induction used everywhere: a value after all the items it directly contains (nested objects,
   elements of its arrays) *)
Lemma json_children_ind (P : json -> Prop) :
  (forall v, (forall c, In c (children v) -> P c) -> P v) -> forall v, P v.
Proof.
  intros H.
  assert (Q : forall v c, In c (children v) -> P c).
  { induction v as [s|l IH|kvs IH] using json_ind2; intros c Hc.
    - cbn in Hc. contradiction.
    - rewrite children_arr in Hc. rewrite Forall_forall in IH. apply H. apply IH. exact Hc.
    - unfold children, plan in Hc. cbn [fields] in Hc. apply in_flat_map in Hc. destruct Hc as [a [Ha Hc]].
      apply in_flat_map in Ha. destruct Ha as [[k x] [Hkx Ha]]. cbn [fst snd] in Ha.
      rewrite Forall_forall in IH. specialize (IH (k, x) Hkx). cbn [snd] in IH.
      destruct x as [s|l|o]; cbn in Ha.
      + destruct Ha as [<-|[]]. cbn in Hc. contradiction.
      + apply in_map_iff in Ha. destruct Ha as [e [<- He]]. cbn in Hc. destruct Hc as [<-|[]].
        apply IH. rewrite children_arr. exact He.
      + destruct Ha as [<-|[]]. cbn in Hc. destruct Hc as [<-|[]]. apply H. exact IH. }
  intros v. apply H. apply Q.
Qed.

(* ------------------------------------------------------------------ add_row as a fold over the plan *)

Section Proofs.
Variable inc : str -> bool.

Definition row_for (T : str) (pre : list event) : option nat :=
  if inc T then Some (S (count T pre)) else None.
Definition e0_for (T : str) (p : option ref) : list event := if inc T then [ERow T p] else [].

(* the events of one action, and of a list of actions, when the events so far are pre *)
Definition act_evs (T : str) (row : option nat) (pre : list event) (a : action) : list event :=
  match a with
  | AScalar k s => scalar_evs inc T row k s
  | AObj k x => match add_row inc x (sub T k) None pre with (ev, res) => ev ++ link_evs T row k res end
  | AElem k e => fst (add_row inc e (sub T k) (myref T row) pre)
  end.

Fixpoint acts_evs (T : str) (row : option nat) (pre : list event) (acts : list action) : list event :=
  match acts with
  | [] => []
  | a :: rest => act_evs T row pre a ++ acts_evs T row (pre ++ act_evs T row pre a) rest
  end.

Lemma step_act_evs T row pre acc a : step inc T row pre acc a = acc ++ act_evs T row (pre ++ acc) a.
Proof.
  destruct a as [k s|k x|k e]; cbn; try reflexivity.
  destruct (add_row inc x (sub T k) None (pre ++ acc)) as [ev res]. reflexivity.
Qed.

Lemma run_acts_evs T row pre acts : forall acc,
  fold_left (step inc T row pre) acts acc = acc ++ acts_evs T row (pre ++ acc) acts.
Proof.
  induction acts as [|a rest IH]; intros acc; cbn [fold_left acts_evs]; [rewrite app_nil_r; reflexivity|].
  rewrite IH, step_act_evs, <- !app_assoc. reflexivity.
Qed.

Lemma add_row_plan v T p pre :
  add_row inc v T p pre =
  (e0_for T p ++ acts_evs T (row_for T pre) (pre ++ e0_for T p) (plan v), row_for T pre).
Proof.
  rewrite <- run_acts_evs. unfold plan.
  destruct v as [s|l|kvs]; cbn [add_row fields flat_map fst snd field_plan]; fold (row_for T pre); fold (e0_for T p).
  - reflexivity.
  - rewrite app_nil_r, fold_left_map. f_equal.
  - rewrite fold_left_flat_map. f_equal. apply fold_left_ext. intros acc [k x]. cbn [fst snd].
    destruct x as [s|l|o]; cbn [field_plan fold_left step].
    + reflexivity.
    + rewrite fold_left_map. reflexivity.
    + reflexivity.
Qed.


(* ------------------------------------------------------------------ the log: counts, cells, parents *)

Lemma count_app T a b : count T (a ++ b) = count T a + count T b.
Proof. unfold count. rewrite filter_app, app_length. reflexivity. Qed.

Lemma count_row_same T p : count T [ERow T p] = 1.
Proof. unfold count. cbn. rewrite str_eqb_refl. reflexivity. Qed.

Lemma count_cell T T' r k c : count T [ECell T' r k c] = 0.
Proof. reflexivity. Qed.

Lemma count_e0 T T' p : count T (e0_for T' p) <= 1.
Proof. unfold e0_for, count. destruct (inc T'); cbn; [destruct (str_eqb T' T); cbn; lia|lia]. Qed.

Lemma in_e0_not_cell T p T' r k c : ~ In (ECell T' r k c) (e0_for T p).
Proof. unfold e0_for. destruct (inc T); cbn; [intros [H|[]]; discriminate|intros []]. Qed.

Definition untouched (T : str) (r : nat) (k : str) (lg : list event) : Prop :=
  forall c, ~ In (ECell T r k c) lg.

Lemma untouched_app T r k a b : untouched T r k (a ++ b) <-> untouched T r k a /\ untouched T r k b.
Proof.
  unfold untouched. split.
  - intros H. split; intros c Hc; apply (H c); apply in_or_app; auto.
  - intros [H1 H2] c Hc. apply in_app_or in Hc. destruct Hc; [eapply H1|eapply H2]; eauto.
Qed.

Lemma dict_find_set k k' c d :
  dict_find k (dict_set k' c d) = if str_eqb k' k then Some c else dict_find k d.
Proof.
  induction d as [|[k0 c0] d IH]; cbn.
  - destruct (str_eqb k' k); reflexivity.
  - destruct (str_eqb k0 k') eqn:E0; cbn.
    + apply str_eqb_eq in E0. subst k0. destruct (str_eqb k' k); reflexivity.
    + destruct (str_eqb k0 k) eqn:E1.
      * apply str_eqb_eq in E1. subst k0. rewrite str_eqb_sym, E0. reflexivity.
      * exact IH.
Qed.

Definition cell_at (lg : list event) (T : str) (r : nat) (k : str) : option cell :=
  dict_find k (row_values lg T r).

Lemma row_values_app lg1 lg2 T r :
  row_values (lg1 ++ lg2) T r = fold_left (apply_cell T r) lg2 (row_values lg1 T r).
Proof. unfold row_values. apply fold_left_app. Qed.

Lemma fold_apply_untouched T r k lg : forall d,
  untouched T r k lg -> dict_find k (fold_left (apply_cell T r) lg d) = dict_find k d.
Proof.
  induction lg as [|e lg IH]; intros d H; cbn [fold_left]; [reflexivity|].
  rewrite IH.
  - destruct e as [T' p|T' r' k' c]; cbn; [reflexivity|].
    destruct (str_eqb T' T && Nat.eqb r' r) eqn:E; [|reflexivity].
    rewrite dict_find_set. destruct (str_eqb k' k) eqn:Ek; [|reflexivity].
    exfalso. apply andb_true_iff in E. destruct E as [E1 E2].
    apply str_eqb_eq in E1. apply Nat.eqb_eq in E2. apply str_eqb_eq in Ek. subst.
    apply (H c). left. reflexivity.
  - intros c Hc. apply (H c). right. exact Hc.
Qed.

Lemma cell_at_app_untouched lg1 lg2 T r k :
  untouched T r k lg2 -> cell_at (lg1 ++ lg2) T r k = cell_at lg1 T r k.
Proof. intros H. unfold cell_at. rewrite row_values_app. apply fold_apply_untouched. exact H. Qed.

Lemma cell_at_untouched lg T r k : untouched T r k lg -> cell_at lg T r k = None.
Proof. intros H. unfold cell_at, row_values. rewrite fold_apply_untouched; [reflexivity|exact H]. Qed.

Lemma cell_at_written lg1 lg2 T r k c :
  untouched T r k lg2 -> cell_at (lg1 ++ ECell T r k c :: lg2) T r k = Some c.
Proof.
  intros H. change (ECell T r k c :: lg2) with ([ECell T r k c] ++ lg2).
  rewrite app_assoc, cell_at_app_untouched by exact H.
  unfold cell_at. rewrite row_values_app. cbn. rewrite str_eqb_refl, Nat.eqb_refl. cbn.
  rewrite dict_find_set, str_eqb_refl. reflexivity.
Qed.

Lemma parents_of_app T a b : parents_of T (a ++ b) = parents_of T a ++ parents_of T b.
Proof.
  induction a as [|e a IH]; cbn; [reflexivity|]. destruct e as [T' p|]; [|exact IH].
  destruct (str_eqb T' T); cbn; rewrite IH; reflexivity.
Qed.

Lemma parents_of_length T lg : length (parents_of T lg) = count T lg.
Proof.
  unfold count. induction lg as [|e lg IH]; cbn; [reflexivity|]. destruct e as [T' p|]; cbn; [|exact IH].
  destruct (str_eqb T' T); cbn; rewrite IH; reflexivity.
Qed.

Lemma parent_of_new pre T p post : parent_of (pre ++ ERow T p :: post) T (S (count T pre)) = p.
Proof.
  unfold parent_of. cbn [pred]. rewrite parents_of_app. cbn. rewrite str_eqb_refl.
  rewrite app_nth2; rewrite parents_of_length; [|lia]. rewrite Nat.sub_diag. reflexivity.
Qed.

(* ------------------------------------------------------------------ cells are written to rows of the call only *)

Definition own_key (a : action) : list str :=
  match a with AScalar k _ => [k] | AObj k _ => [k] | AElem _ _ => [] end.
Definition own_keys (acts : list action) : list str := flat_map own_key acts.

(* every cell written by the call goes to a row made by the call *)
Definition fresh (pre evs : list event) : Prop :=
  forall T r k c, In (ECell T r k c) evs -> count T pre < r.
Definition Fresh (v : json) : Prop := forall T p pre, fresh pre (fst (add_row inc v T p pre)).

(* events of a list of actions: cells of the own row under the own keys of these actions, or cells of
   rows made later *)
Definition own_or_fresh (T : str) (row : option nat) (pre : list event) (acts : list action)
  (tail : list event) : Prop :=
  forall T' r' k' c, In (ECell T' r' k' c) tail ->
    (T' = T /\ row = Some r' /\ In k' (own_keys acts)) \/ count T' pre < r'.

Lemma act_evs_own_or_fresh T row pre a :
  (forall x, In x (child a) -> Fresh x) -> own_or_fresh T row pre [a] (act_evs T row pre a).
Proof.
  intros HF T' r' k' c Hin. destruct a as [k s|k x|k e]; cbn [act_evs] in Hin.
  - left. unfold scalar_evs in Hin. destruct row as [r|]; [|contradiction].
    destruct (inc (sub T k)); [|contradiction]. destruct Hin as [Hin|[]]. inversion Hin; subst.
    cbn. auto.
  - specialize (HF x (or_introl eq_refl) (sub T k) None pre).
    destruct (add_row inc x (sub T k) None pre) as [ev res]. cbn [fst] in HF.
    apply in_app_or in Hin. destruct Hin as [Hin|Hin].
    + right. eapply HF. exact Hin.
    + left. unfold link_evs in Hin. destruct row as [r|]; [|contradiction]. destruct res as [r2|]; [|contradiction].
      destruct Hin as [Hin|[]]. inversion Hin; subst. cbn. auto.
  - right. eapply (HF e (or_introl eq_refl)). exact Hin.
Qed.

Lemma acts_evs_own_or_fresh T row acts : forall pre,
  (forall a x, In a acts -> In x (child a) -> Fresh x) ->
  own_or_fresh T row pre acts (acts_evs T row pre acts).
Proof.
  induction acts as [|a rest IH]; intros pre HF T' r' k' c Hin; cbn [acts_evs] in Hin; [contradiction|].
  apply in_app_or in Hin. destruct Hin as [Hin|Hin].
  - destruct (act_evs_own_or_fresh T row pre a (fun x Hx => HF a x (or_introl eq_refl) Hx) T' r' k' c Hin)
      as [[H1 [H2 H3]]|H]; [left|right; exact H].
    repeat split; auto. unfold own_keys in *. cbn [flat_map] in *. rewrite app_nil_r in H3. apply in_or_app. auto.
  - destruct (IH (pre ++ act_evs T row pre a) (fun a' x Ha Hx => HF a' x (or_intror Ha) Hx) T' r' k' c Hin)
      as [[H1 [H2 H3]]|H]; [left|right].
    + repeat split; auto. unfold own_keys. cbn [flat_map]. apply in_or_app. auto.
    + rewrite count_app in H. lia.
Qed.

Lemma in_children_plan v a x : In a (plan v) -> In x (child a) -> In x (children v).
Proof. intros Ha Hx. unfold children. apply in_flat_map. exists a. auto. Qed.

Lemma Fresh_all : forall v, Fresh v.
Proof.
  induction v as [v IH] using json_children_ind. intros T p pre T' r' k' c Hin.
  rewrite add_row_plan in Hin. cbn [fst] in Hin. apply in_app_or in Hin. destruct Hin as [Hin|Hin].
  - exfalso. eapply in_e0_not_cell. exact Hin.
  - destruct (acts_evs_own_or_fresh T (row_for T pre) (plan v) (pre ++ e0_for T p)
                (fun a x Ha Hx => IH x (in_children_plan v a x Ha Hx)) T' r' k' c Hin) as [[H1 [H2 H3]]|H].
    + subst T'. unfold row_for in H2. destruct (inc T); [|discriminate]. inversion H2. lia.
    + rewrite count_app in H. lia.
Qed.

(* ------------------------------------------------------------------ every cell is written once, to an existing row *)

Definition ev_ok (pre : list event) (e : event) : Prop :=
  match e with
  | ERow _ _ => True
  | ECell T r k c => 1 <= r <= count T pre /\ untouched T r k pre
  end.

Fixpoint ok (pre evs : list event) : Prop :=
  match evs with
  | [] => True
  | e :: rest => ev_ok pre e /\ ok (pre ++ [e]) rest
  end.

Lemma ok_app pre a : forall b, ok pre (a ++ b) <-> ok pre a /\ ok (pre ++ a) b.
Proof.
  revert pre. induction a as [|e a IH]; intros pre b; cbn [ok app].
  - rewrite app_nil_r. tauto.
  - rewrite IH, <- app_assoc. cbn [app]. tauto.
Qed.

Definition bounded (lg : list event) : Prop :=
  forall T r k c, In (ECell T r k c) lg -> r <= count T lg.

Lemma bounded_ok evs : forall pre, bounded pre -> ok pre evs -> bounded (pre ++ evs).
Proof.
  induction evs as [|e evs IH]; intros pre Hb Hok; [rewrite app_nil_r; exact Hb|].
  cbn [ok] in Hok. destruct Hok as [He Hok].
  change (e :: evs) with ([e] ++ evs). rewrite app_assoc. apply IH; [|exact Hok].
  intros T r k c Hin. apply in_app_or in Hin. rewrite count_app. destruct Hin as [Hin|[Hin|[]]].
  - specialize (Hb T r k c Hin). lia.
  - subst e. cbn in He. lia.
Qed.

Lemma bounded_untouched lg T r k : bounded lg -> count T lg < r -> untouched T r k lg.
Proof. intros Hb Hr c Hin. specialize (Hb T r k c Hin). lia. Qed.

Lemma bounded_e0 pre T p : bounded pre -> bounded (pre ++ e0_for T p).
Proof.
  intros Hb T' r k c Hin. apply in_app_or in Hin. destruct Hin as [Hin|Hin].
  - specialize (Hb T' r k c Hin). rewrite count_app. lia.
  - exfalso. eapply in_e0_not_cell. exact Hin.
Qed.

Lemma ok_e0 pre T p : ok pre (e0_for T p).
Proof. unfold e0_for. destruct (inc T); cbn; auto. Qed.

(* wf_json seen through the plan *)
Definition wf_acts (acts : list action) : Prop :=
  NoDup (own_keys acts) /\ forall a x, In a acts -> In x (child a) -> wf_json x.

Lemma wf_arr_all l : wf_json (JArr l) <-> forall e, In e l -> wf_json e.
Proof.
  cbn. induction l as [|e l IH]; [split; [intros _ e []|auto]|]. rewrite IH. split.
  - intros [H1 H2] x [<-|Hx]; auto.
  - intros H. split; [apply H; left; reflexivity|intros x Hx; apply H; right; exact Hx].
Qed.

Lemma wf_obj_all kvs : wf_json (JObj kvs) <-> NoDup (map fst kvs) /\ forall kv, In kv kvs -> wf_json (snd kv).
Proof.
  cbn. apply and_iff_compat_l. induction kvs as [|kv l IH]; [split; [intros _ e []|auto]|]. rewrite IH. split.
  - intros [H1 H2] x [<-|Hx]; auto.
  - intros H. split; [apply H; left; reflexivity|intros x Hx; apply H; right; exact Hx].
Qed.

Lemma own_keys_app a b : own_keys (a ++ b) = own_keys a ++ own_keys b.
Proof. unfold own_keys. apply flat_map_app. Qed.

Lemma own_keys_field_incl k x : incl (own_keys (field_plan k x)) [k].
Proof.
  destruct x as [s|l|o]; cbn; try (intros y Hy; exact Hy).
  intros y Hy. exfalso. induction l as [|e l IH]; cbn in Hy; auto.
Qed.

Lemma own_keys_field_nodup k x : NoDup (own_keys (field_plan k x)).
Proof.
  destruct x as [s|l|o]; cbn; try (constructor; [intros []|constructor]).
  induction l as [|e l IH]; cbn; [constructor|exact IH].
Qed.

Lemma own_keys_obj_nodup kvs : NoDup (map fst kvs) ->
  NoDup (own_keys (flat_map (fun kv => field_plan (fst kv) (snd kv)) kvs)).
Proof.
  induction kvs as [|[k x] kvs IH]; intros H; cbn [flat_map map fst snd] in *; [constructor|].
  inversion H as [|? ? Hnotin Hnd]; subst. rewrite own_keys_app.
  assert (Hincl : forall y, In y (own_keys (flat_map (fun kv => field_plan (fst kv) (snd kv)) kvs)) ->
                            In y (map fst kvs)).
  { clear. induction kvs as [|[k x] kvs IH]; cbn [flat_map map fst snd]; intros y Hy; [exact Hy|].
    rewrite own_keys_app in Hy. apply in_app_or in Hy. destruct Hy as [Hy|Hy].
    - apply own_keys_field_incl in Hy. destruct Hy as [<-|[]]. left. reflexivity.
    - right. apply IH. exact Hy. }
  clear H. revert Hnotin. generalize (own_keys_field_incl k x). generalize (own_keys_field_nodup k x).
  generalize (own_keys (field_plan k x)). intros l Hl Hi Hnotin.
  induction l as [|y l IHl]; cbn [app]; [apply IH; exact Hnd|].
  inversion Hl; subst. constructor.
  - intros Hy. apply in_app_or in Hy. destruct Hy as [Hy|Hy]; [contradiction|].
    apply Hincl in Hy. destruct (Hi y (or_introl eq_refl)) as [<-|[]]. contradiction.
  - apply IHl; [assumption|]. intros z Hz. apply Hi. right. exact Hz.
Qed.

Lemma wf_plan v : wf_json v -> wf_acts (plan v).
Proof.
  intros H. split.
  - destruct v as [s|l|kvs]; unfold plan; cbn [fields].
    + cbn. constructor; [intros []|constructor].
    + cbn [flat_map fst snd]. rewrite app_nil_r. apply own_keys_field_nodup.
    + apply own_keys_obj_nodup. apply wf_obj_all in H. tauto.
  - intros a x Ha Hx. destruct v as [s|l|kvs]; unfold plan in Ha; cbn [fields flat_map fst snd] in Ha.
    + destruct Ha as [<-|[]]. contradiction.
    + rewrite app_nil_r in Ha. cbn in Ha. apply in_map_iff in Ha. destruct Ha as [e [<- He]].
      destruct Hx as [<-|[]]. rewrite wf_arr_all in H. auto.
    + apply wf_obj_all in H. destruct H as [_ H]. apply in_flat_map in Ha. destruct Ha as [[k y] [Hky Ha]].
      specialize (H _ Hky). cbn [fst snd] in *. destruct y as [s|l|o]; cbn in Ha.
      * destruct Ha as [<-|[]]. contradiction.
      * apply in_map_iff in Ha. destruct Ha as [e [<- He]]. destruct Hx as [<-|[]].
        rewrite wf_arr_all in H. auto.
      * destruct Ha as [<-|[]]. destruct Hx as [<-|[]]. exact H.
Qed.

Definition Ok (v : json) : Prop :=
  forall T p pre, wf_json v -> bounded pre -> ok pre (fst (add_row inc v T p pre)).

(* the own row: exists already, and its cells so far are not under keys still to come *)
Definition own_row_ready (T : str) (row : option nat) (pre : list event) (acts : list action) : Prop :=
  forall r, row = Some r -> 1 <= r <= count T pre /\ forall k, In k (own_keys acts) -> untouched T r k pre.

Lemma own_ready_step T row pre a rest ea :
  NoDup (own_keys (a :: rest)) ->
  own_row_ready T row pre (a :: rest) ->
  own_or_fresh T row pre [a] ea ->
  own_row_ready T row (pre ++ ea) rest.
Proof.
  intros Hnd Hr Hea r Hrow. destruct (Hr r Hrow) as [Hrange Hunt]. split; [rewrite count_app; lia|].
  intros k Hk. apply untouched_app. split.
  - apply Hunt. unfold own_keys. cbn [flat_map]. apply in_or_app. right. exact Hk.
  - intros c Hin. destruct (Hea _ _ _ _ Hin) as [[_ [_ H3]]|H]; [|lia].
    unfold own_keys in Hnd, H3, Hk. cbn [flat_map] in Hnd, H3. rewrite app_nil_r in H3.
    exact (nodup_app_disj _ _ _ Hnd H3 Hk).
Qed.

Lemma act_evs_ok T row pre a rest :
  (forall x, In x (child a) -> Fresh x /\ Ok x /\ wf_json x) ->
  bounded pre -> own_row_ready T row pre (a :: rest) ->
  ok pre (act_evs T row pre a).
Proof.
  intros HC Hb Hr. destruct a as [k s|k x|k e]; cbn [act_evs].
  - unfold scalar_evs. destruct row as [r|]; [|exact I]. destruct (inc (sub T k)); [|exact I].
    destruct (Hr r eq_refl) as [Hrange Hunt]. cbn. split; [|exact I]. split; [exact Hrange|].
    apply Hunt. cbn. left. reflexivity.
  - destruct (HC x (or_introl eq_refl)) as [HF [HO Hwf]].
    specialize (HO (sub T k) None pre Hwf Hb). specialize (HF (sub T k) None pre).
    destruct (add_row inc x (sub T k) None pre) as [ev res]. cbn [fst] in *.
    apply ok_app. split; [exact HO|].
    unfold link_evs. destruct row as [r|]; [|exact I]. destruct res as [r2|]; [|exact I].
    destruct (Hr r eq_refl) as [Hrange Hunt]. cbn. split; [|exact I]. split; [rewrite count_app; lia|].
    apply untouched_app. split; [apply Hunt; cbn; left; reflexivity|].
    intros c Hin. specialize (HF _ _ _ _ Hin). lia.
  - destruct (HC e (or_introl eq_refl)) as [HF [HO Hwf]]. apply HO; assumption.
Qed.

Lemma acts_evs_ok T row acts : forall pre,
  (forall a x, In a acts -> In x (child a) -> Fresh x /\ Ok x /\ wf_json x) ->
  NoDup (own_keys acts) -> bounded pre -> own_row_ready T row pre acts ->
  ok pre (acts_evs T row pre acts).
Proof.
  induction acts as [|a rest IH]; intros pre HC Hnd Hb Hr; cbn [acts_evs]; [exact I|].
  assert (Hok : ok pre (act_evs T row pre a)).
  { eapply act_evs_ok; eauto. intros x Hx. apply (HC a x (or_introl eq_refl) Hx). }
  apply ok_app. split; [exact Hok|]. apply IH.
  - intros a' x Ha Hx. apply (HC a' x (or_intror Ha) Hx).
  - unfold own_keys in *. cbn [flat_map] in Hnd. apply nodup_app_r in Hnd. exact Hnd.
  - apply bounded_ok; assumption.
  - eapply own_ready_step; eauto. apply act_evs_own_or_fresh. intros x Hx. apply (HC a x (or_introl eq_refl) Hx).
Qed.

Lemma own_row_ready_start T p pre acts :
  bounded pre -> own_row_ready T (row_for T pre) (pre ++ e0_for T p) acts.
Proof.
  intros Hb r Hrow. unfold row_for, e0_for in *. destruct (inc T); [|discriminate]. inversion Hrow; subst r.
  rewrite count_app, count_row_same. split; [lia|]. intros k _. apply untouched_app. split.
  - apply bounded_untouched; [exact Hb|lia].
  - intros c [H|[]]. discriminate.
Qed.

Lemma Ok_all : forall v, Ok v.
Proof.
  induction v as [v IH] using json_children_ind. intros T p pre Hwf Hb.
  rewrite add_row_plan. cbn [fst]. apply ok_app. split; [apply ok_e0|].
  destruct (wf_plan v Hwf) as [Hnd Hch].
  apply acts_evs_ok.
  - intros a x Ha Hx. split; [apply Fresh_all|]. split; [|eapply Hch; eauto].
    apply IH. eapply in_children_plan; eauto.
  - exact Hnd.
  - apply bounded_e0. exact Hb.
  - apply own_row_ready_start. exact Hb.
Qed.

End Proofs.
