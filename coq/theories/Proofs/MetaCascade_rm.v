(* K6 proofs, part 3: the primitive removals (doBulkRemoveRecord + back-reference clearing) keep the invariant
   when no surviving record holds a mandatory reference to a removed one. *)
From Coq Require Import ZArith List Bool Lia.
Import ListNotations.
Require Import Grist.Model.MetaCascade Grist.Proofs.MetaCascade_base Grist.Proofs.MetaCascade_inv.
Open Scope Z_scope.

Lemma IdList_filter_map : forall {A} (f : A -> Z) (p : A -> bool) (l : list A),
  IdList (map f l) -> IdList (map f (filter p l)).
Proof.
  intros A f p l [H1 H2]. split; [apply NoDup_filter_map | apply Forall_filter_map]; assumption.
Qed.

Lemma IdList_filter : forall (p : Z -> bool) (l : list Z), IdList l -> IdList (filter p l).
Proof.
  intros p l H. rewrite <- (map_id l) in H. apply (IdList_filter_map (fun x => x) p) in H.
  rewrite map_id in H. exact H.
Qed.

Lemma in_map_filter : forall {A} (f : A -> Z) (p : A -> bool) (l : list A) (x : A),
  In x l -> p x = true -> In (f x) (map f (filter p l)).
Proof. intros. apply in_map. apply filter_In. split; assumption. Qed.

Lemma NoDup_map_inj : forall {A} (f : A -> Z) (l : list A) (a b : A),
  NoDup (map f l) -> In a l -> In b l -> f a = f b -> a = b.
Proof.
  intros A f. induction l as [|x t IH]; intros a b Hn Ha Hb Hf; [contradiction|].
  simpl in Hn. inversion Hn; subst. destruct Ha as [Ha|Ha], Hb as [Hb|Hb]; subst.
  - reflexivity.
  - exfalso. apply H1. rewrite Hf. apply in_map. exact Hb.
  - exfalso. apply H1. rewrite <- Hf. apply in_map. exact Ha.
  - apply IH; assumption.
Qed.

(* ---------------------------------------------------------------------------------------------- *)
(* fields, tab-bar items, pages: nothing refers to them *)

Lemma rm_fields_inv : forall X ids m, InvX X m -> InvX X (rm_fields ids m).
Proof.
  intros X ids m [I1 I2 I3 I4 I5 I6 I7 I8]. constructor; simpl; try assumption.
  - destruct I1 as [A [B [C [D [E [F G]]]]]]. repeat split; try (apply A || apply B || apply C || apply D || apply F || apply G).
    + apply (IdList_filter_map f_id). exact E.
    + apply (IdList_filter_map f_id). exact E.
  - intros f Hf. apply filter_In in Hf. destruct Hf as [Hf _]. apply (I3 f Hf).
Qed.

Lemma rm_tabbar_inv : forall X ids m, InvX X m -> InvX X (rm_tabbar ids m).
Proof.
  intros X ids m [I1 I2 I3 I4 I5 I6 I7 I8]. constructor; simpl; try assumption.
  - destruct I1 as [A [B [C [D [E [F G]]]]]]. repeat split; try (apply A || apply B || apply C || apply D || apply E || apply G).
    + apply (IdList_filter_map fst). exact F.
    + apply (IdList_filter_map fst). exact F.
  - intros b Hb. apply filter_In in Hb. destruct Hb as [Hb _]. apply (I6 b Hb).
Qed.

Lemma rm_pages_inv : forall X ids m, InvX X m -> InvX X (rm_pages ids m).
Proof.
  intros X ids m [I1 I2 I3 I4 I5 I6 I7 I8]. constructor; simpl; try assumption.
  - destruct I1 as [A [B [C [D [E [F G]]]]]]. repeat split; try (apply A || apply B || apply C || apply D || apply E || apply F).
    + apply (IdList_filter_map fst). exact G.
    + apply (IdList_filter_map fst). exact G.
  - intros b Hb. apply filter_In in Hb. destruct Hb as [Hb _]. apply (I7 b Hb).
Qed.
