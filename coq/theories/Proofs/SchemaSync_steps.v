(* C08, part 3: one schema change together with the matching metadata change keeps Sync. *)
From Coq Require Import ZArith List Bool Lia Permutation.
Import ListNotations.
Require Import Grist.Model.SchemaSync Grist.Proofs.SchemaSync_build Grist.Proofs.SchemaSync_spec.
Open Scope Z_scope.

Definition base_disjoint (base : schema) (ts : list trec) : Prop :=
  forall t, In t ts -> od_get (t_tableId t) base = None.

(* sch' is sch with the entry of tid replaced by v (None: removed) -- only lookups matter *)
Definition sch_upd (sch sch' : schema) (tid : str) (v : option scols) : Prop :=
  forall tid', od_get tid' sch' = if str_eqb tid tid' then v else od_get tid' sch.

Lemma find_map_same : forall {A} (p : A -> bool) (h : A -> A) l,
  (forall x, In x l -> p (h x) = p x) -> (forall x, In x l -> p x = true -> h x = x) ->
  find p (map h l) = find p l.
Proof.
  intros A p h l H1 H2. induction l as [|x t IH]; [reflexivity|]. cbn.
  rewrite (H1 x (or_introl eq_refl)). destruct (p x) eqn:E.
  - rewrite (H2 x (or_introl eq_refl) E). reflexivity.
  - apply IH; intros y Hy; [apply H1 | apply H2]; right; exact Hy.
Qed.

Definition repl (k : Z) (r' : crec) (cs : list crec) : list crec :=
  map (fun r => if c_id r =? k then r' else r) cs.

Lemma repl_in : forall k r' cs x, In x (repl k r' cs) -> x = r' \/ (In x cs /\ c_id x <> k).
Proof.
  intros k r' cs x H. unfold repl in H. apply in_map_iff in H. destruct H as [y [Hy Hin]].
  destruct (Z.eqb_spec (c_id y) k); [left; congruence | right; subst; tauto].
Qed.

Lemma repl_in_old : forall k r' cs x, In x cs -> c_id x <> k -> In x (repl k r' cs).
Proof.
  intros k r' cs x Hin Hne. unfold repl. apply in_map_iff. exists x. split; [|exact Hin].
  destruct (Z.eqb_spec (c_id x) k); [contradiction | reflexivity].
Qed.

Lemma repl_in_new : forall k r' cs rk, In rk cs -> c_id rk = k -> In r' (repl k r' cs).
Proof.
  intros k r' cs rk Hin Hk. unfold repl. apply in_map_iff. exists rk. split; [|exact Hin].
  rewrite Hk, Z.eqb_refl. reflexivity.
Qed.

Lemma repl_ids : forall k r' cs, c_id r' = k -> map c_id (repl k r' cs) = map c_id cs.
Proof.
  intros k r' cs Hk. unfold repl. rewrite map_map. apply map_ext. intro r.
  destruct (Z.eqb_spec (c_id r) k); congruence.
Qed.

Lemma sync_col_entry : forall base sch ts cs rho t r cols, wf_t ts -> wf_c cs ->
  Sync base sch ts cs rho -> In t ts -> In r cs -> c_parent r = t_id t -> od_get (t_tableId t) sch = Some cols ->
  od_get (c_colId r) cols = Some (info_rho rho r).
Proof.
  intros base sch ts cs rho t r cols Hwt Hwc Hs Ht Hr Hp Hc. specialize (Hs (t_tableId t)). rewrite Hc in Hs.
  unfold target in Hs. rewrite (mtable_intro ts _ t Hwt Ht eq_refl) in Hs. rewrite Hs. unfold spec_col.
  rewrite (mcol_intro cs (t_id t) (c_colId r) r Hwc Hr Hp eq_refl). reflexivity.
Qed.

Lemma sync_table_entry : forall base sch ts cs rho t, wf_t ts -> Sync base sch ts cs rho -> In t ts ->
  exists cols, od_get (t_tableId t) sch = Some cols /\ forall c, od_get c cols = spec_col cs rho (t_id t) c.
Proof.
  intros base sch ts cs rho t Hwt Hs Ht. specialize (Hs (t_tableId t)). unfold target in Hs.
  rewrite (mtable_intro ts _ t Hwt Ht eq_refl) in Hs.
  destruct (od_get (t_tableId t) sch) as [cols|]; [|contradiction]. exists cols. split; [reflexivity | exact Hs].
Qed.

Lemma other_table_id : forall ts t t2, wf_t ts -> In t ts -> In t2 ts -> t_tableId t2 <> t_tableId t -> t_id t2 <> t_id t.
Proof.
  intros ts t t2 Hwt Ht Ht2 Hne Heq. apply Hne. f_equal.
  apply (nodup_map_unique t_id ts); try assumption. apply Hwt.
Qed.

(* one column record is replaced by r' (same row, same table); the schema entry moves from the old colId to the
   new one with the new attributes *)
Lemma sync_replace_col : forall base sch sch' ts cs rho rho' t rk r' cols cols',
  wf_t ts -> wf_c cs -> Sync base sch ts cs rho ->
  In t ts -> In rk cs -> c_parent rk = t_id t ->
  c_id r' = c_id rk -> c_parent r' = c_parent rk ->
  (forall k, k <> c_id rk -> rho' k = rho k) ->
  od_get (t_tableId t) sch = Some cols ->
  (c_colId r' = c_colId rk \/ od_get (c_colId r') cols = None) ->
  (forall c, od_get c cols' = if str_eqb (c_colId r') c then Some (info_rho rho' r')
                              else if str_eqb (c_colId rk) c then None else od_get c cols) ->
  sch_upd sch sch' (t_tableId t) (Some cols') ->
  wf_c (repl (c_id rk) r' cs) /\ Sync base sch' ts (repl (c_id rk) r' cs) rho'.
Proof.
  intros base sch sch' ts cs rho rho' t rk r' cols cols' Hwt Hwc Hs Ht Hrk Hp Hid Hpar Hrho Hcols Hfree Hcols' Hupd.
  set (k := c_id rk) in *. set (cs' := repl k r' cs).
  assert (Hentry : forall c, od_get c cols = spec_col cs rho (t_id t) c).
  { destruct (sync_table_entry base sch ts cs rho t Hwt Hs Ht) as [cols0 [H0 H1]]. rewrite Hcols in H0.
    inversion H0; subst. exact H1. }
  assert (Hwc' : wf_c cs').
  { constructor.
    - unfold cs'. rewrite repl_ids by exact Hid. apply Hwc.
    - intros r Hr. apply repl_in in Hr. destruct Hr as [->|[Hr _]]; [rewrite Hid; apply (wc_pos cs Hwc); exact Hrk|].
      apply (wc_pos cs Hwc); exact Hr.
    - assert (Hclash : forall r2, In r2 cs -> c_id r2 <> k -> c_parent r' = c_parent r2 -> c_colId r' = c_colId r2 -> False).
      { intros r2 Hr2 Hne Hpp Hcc. destruct Hfree as [Hsame|Hnone].
        - apply Hne. unfold k. f_equal. apply (wc_keys cs Hwc); try assumption; congruence.
        - rewrite Hentry in Hnone. unfold spec_col in Hnone.
          rewrite (mcol_intro cs (t_id t) (c_colId r') r2 Hwc Hr2) in Hnone; [discriminate | congruence | congruence]. }
      intros r1 r2 H1 H2 Hpp Hcc. apply repl_in in H1. apply repl_in in H2.
      destruct H1 as [->|[H1 N1]], H2 as [->|[H2 N2]]; try reflexivity.
      + exfalso. exact (Hclash r2 H2 N2 Hpp Hcc).
      + exfalso. apply (Hclash r1 H1 N1); congruence.
      + apply (wc_keys cs Hwc); assumption. }
  split; [exact Hwc'|].
  intro tid'. rewrite (Hupd tid'). unfold target.
  destruct (str_eqb (t_tableId t) tid') eqn:Etid.
  - apply str_eqb_eq in Etid. subst tid'. rewrite (mtable_intro ts _ t Hwt Ht eq_refl).
    intro c. rewrite Hcols'. unfold spec_col.
    destruct (str_eqb (c_colId r') c) eqn:E1.
    + apply str_eqb_eq in E1. subst c.
      rewrite (mcol_intro cs' (t_id t) (c_colId r') r' Hwc'); [reflexivity | | congruence | reflexivity].
      apply (repl_in_new k r' cs rk Hrk eq_refl).
    + destruct (str_eqb (c_colId rk) c) eqn:E2.
      * apply str_eqb_eq in E2. subst c. rewrite mcol_none_intro; [reflexivity|].
        intros r Hr Hpr Hcr. apply repl_in in Hr. destruct Hr as [->|[Hr Hne]].
        -- rewrite Hcr, str_eqb_refl in E1. discriminate.
        -- apply Hne. unfold k. f_equal. apply (wc_keys cs Hwc); try assumption; congruence.
      * rewrite Hentry. unfold spec_col.
        destruct (mcol cs (t_id t) c) as [r|] eqn:Em.
        -- apply mcol_some in Em. destruct Em as [Hr [Hpr Hcr]].
           assert (Hne : c_id r <> k).
           { intro Heq. assert (r = rk) by (apply (nodup_ids_unique cs); try assumption; try apply Hwc; try exact Heq).
             subst r. rewrite Hcr, str_eqb_refl in E2. discriminate. }
           rewrite (mcol_intro cs' (t_id t) c r Hwc' (repl_in_old k r' cs r Hr Hne) Hpr Hcr). cbn.
           unfold info_rho. rewrite (Hrho (c_id r) Hne). reflexivity.
        -- rewrite mcol_none_intro; [reflexivity|]. intros r Hr Hpr Hcr. apply repl_in in Hr.
           destruct Hr as [->|[Hr Hne]]; [rewrite Hcr, str_eqb_refl in E1; discriminate|].
           exact (mcol_none cs (t_id t) c Em r Hr Hpr Hcr).
  - specialize (Hs tid'). unfold target in Hs.
    destruct (mtable ts tid') as [t2|] eqn:Em; [|exact Hs].
    destruct (od_get tid' sch) as [cols2|]; [|exact Hs]. intro c. rewrite (Hs c). unfold spec_col.
    apply mtable_some in Em. destruct Em as [Ht2 Hn2].
    assert (Hid2 : t_id t2 <> t_id t).
    { apply (other_table_id ts t t2 Hwt Ht Ht2). rewrite Hn2. intro Heq. rewrite Heq, str_eqb_refl in Etid. discriminate. }
    assert (Hfind : mcol cs' (t_id t2) c = mcol cs (t_id t2) c).
    { unfold mcol, cs', repl. apply find_map_same.
      - intros x Hx. destruct (Z.eqb_spec (c_id x) k) as [Hk|Hk]; [|reflexivity].
        assert (x = rk) by (apply (nodup_ids_unique cs); try assumption; try apply Hwc; try exact Hk). subst x.
        rewrite Hpar. destruct (Z.eqb_spec (c_parent rk) (t_id t2)); [congruence | reflexivity].
      - intros x Hx Hpx. destruct (Z.eqb_spec (c_id x) k) as [Hk|Hk]; [|reflexivity].
        assert (x = rk) by (apply (nodup_ids_unique cs); try assumption; try apply Hwc; try exact Hk). subst x.
        apply andb_true_iff in Hpx. destruct Hpx as [Hpx _]. apply Z.eqb_eq in Hpx. congruence. }
    rewrite Hfind. destruct (mcol cs (t_id t2) c) as [r|] eqn:Em2; [|reflexivity]. cbn.
    apply mcol_some in Em2. destruct Em2 as [Hr [Hpr _]].
    unfold info_rho. rewrite Hrho; [reflexivity|]. intro Heq.
    assert (r = rk) by (apply (nodup_ids_unique cs); try assumption; try apply Hwc; try exact Heq). subst r. congruence.
Qed.

(* ---------------------------------------------------------------- adding / removing one column record *)
Lemma ins_c_in : forall r cs x, In x (ins_c r cs) <-> x = r \/ In x cs.
Proof.
  intros r cs x. induction cs as [|y t IH]; cbn; [intuition congruence|].
  destruct (c_id r <? c_id y); cbn; [intuition congruence|]. rewrite IH. intuition congruence.
Qed.

Lemma ins_c_perm : forall r cs, Permutation (ins_c r cs) (r :: cs).
Proof.
  intros r cs. induction cs as [|y t IH]; cbn; [apply Permutation_refl|].
  destruct (c_id r <? c_id y); [apply Permutation_refl|].
  eapply Permutation_trans; [apply perm_skip; exact IH | apply perm_swap].
Qed.

Lemma spec_col_other_ins : forall cs rho rho' r p c, wf_c cs -> c_parent r <> p ->
  (forall x, In x cs -> c_id x <> c_id r) -> (forall k, k <> c_id r -> rho' k = rho k) ->
  spec_col (ins_c r cs) rho' p c = spec_col cs rho p c.
Proof.
  intros cs rho rho' r p c Hwc Hp Hfresh Hrho. unfold spec_col.
  assert (Hm : mcol (ins_c r cs) p c = mcol cs p c).
  { unfold mcol. induction cs as [|y t IH]; cbn.
    - destruct (Z.eqb_spec (c_parent r) p); [contradiction | reflexivity].
    - destruct (c_id r <? c_id y); cbn.
      + destruct (Z.eqb_spec (c_parent r) p); [contradiction | reflexivity].
      + destruct ((c_parent y =? p) && str_eqb (c_colId y) c); [reflexivity|].
        apply IH.
        * constructor; [pose proof (wc_ids _ Hwc) as H; cbn in H; inversion H; assumption | |].
          -- intros x Hx. apply (wc_pos _ Hwc). right. exact Hx.
          -- intros r1 r2 H1 H2. apply (wc_keys _ Hwc); right; assumption.
        * intros x Hx. apply Hfresh. right. exact Hx. }
  rewrite Hm. destruct (mcol cs p c) as [x|] eqn:E; [|reflexivity]. cbn. apply mcol_some in E.
  unfold info_rho. rewrite Hrho; [reflexivity|]. apply Hfresh. tauto.
Qed.

Lemma sync_add_col : forall base sch sch' ts cs rho rho' t r cols cols',
  wf_t ts -> wf_c cs -> Sync base sch ts cs rho ->
  In t ts -> c_parent r = t_id t -> 0 < c_id r -> (forall x, In x cs -> c_id x <> c_id r) ->
  od_get (t_tableId t) sch = Some cols -> od_get (c_colId r) cols = None ->
  (forall k, k <> c_id r -> rho' k = rho k) ->
  (forall c, od_get c cols' = if str_eqb (c_colId r) c then Some (info_rho rho' r) else od_get c cols) ->
  sch_upd sch sch' (t_tableId t) (Some cols') ->
  wf_c (ins_c r cs) /\ Sync base sch' ts (ins_c r cs) rho'.
Proof.
  intros base sch sch' ts cs rho rho' t r cols cols' Hwt Hwc Hs Ht Hp Hpos Hfresh Hcols Hfree Hrho Hcols' Hupd.
  assert (Hentry : forall c, od_get c cols = spec_col cs rho (t_id t) c).
  { destruct (sync_table_entry base sch ts cs rho t Hwt Hs Ht) as [cols0 [H0 H1]]. rewrite Hcols in H0.
    inversion H0; subst. exact H1. }
  assert (Hnoclash : forall x, In x cs -> c_parent x = t_id t -> c_colId x <> c_colId r).
  { intros x Hx Hpx Hcx. rewrite Hentry in Hfree. unfold spec_col in Hfree.
    rewrite (mcol_intro cs (t_id t) (c_colId r) x Hwc Hx Hpx Hcx) in Hfree. discriminate. }
  assert (Hwc' : wf_c (ins_c r cs)).
  { constructor.
    - eapply Permutation_NoDup; [apply Permutation_sym; apply Permutation_map; apply ins_c_perm|]. cbn.
      constructor; [|apply Hwc]. intro Hin. apply in_map_iff in Hin. destruct Hin as [x [Hx1 Hx2]]. exact (Hfresh x Hx2 Hx1).
    - intros x Hx. apply ins_c_in in Hx. destruct Hx as [->|Hx]; [exact Hpos | apply (wc_pos _ Hwc); exact Hx].
    - intros r1 r2 H1 H2 Hpp Hcc. apply ins_c_in in H1. apply ins_c_in in H2.
      destruct H1 as [->|H1], H2 as [->|H2]; try reflexivity.
      + exfalso. apply (Hnoclash r2 H2); congruence.
      + exfalso. apply (Hnoclash r1 H1); congruence.
      + apply (wc_keys _ Hwc); assumption. }
  split; [exact Hwc'|].
  intro tid'. rewrite (Hupd tid'). unfold target.
  destruct (str_eqb (t_tableId t) tid') eqn:Etid.
  - apply str_eqb_eq in Etid. subst tid'. rewrite (mtable_intro ts _ t Hwt Ht eq_refl).
    intro c. rewrite Hcols'. unfold spec_col. destruct (str_eqb (c_colId r) c) eqn:E1.
    + apply str_eqb_eq in E1. subst c.
      rewrite (mcol_intro (ins_c r cs) (t_id t) (c_colId r) r Hwc'); [reflexivity | apply ins_c_in; tauto | exact Hp | reflexivity].
    + rewrite Hentry. unfold spec_col. destruct (mcol cs (t_id t) c) as [x|] eqn:Em.
      * apply mcol_some in Em. destruct Em as [Hx [Hpx Hcx]].
        rewrite (mcol_intro (ins_c r cs) (t_id t) c x Hwc'); [|apply ins_c_in; tauto | exact Hpx | exact Hcx].
        cbn. unfold info_rho. rewrite Hrho; [reflexivity | apply Hfresh; exact Hx].
      * rewrite mcol_none_intro; [reflexivity|]. intros x Hx Hpx Hcx. apply ins_c_in in Hx.
        destruct Hx as [->|Hx]; [rewrite Hcx, str_eqb_refl in E1; discriminate|].
        exact (mcol_none cs (t_id t) c Em x Hx Hpx Hcx).
  - specialize (Hs tid'). unfold target in Hs.
    destruct (mtable ts tid') as [t2|] eqn:Em; [|exact Hs].
    destruct (od_get tid' sch) as [cols2|]; [|exact Hs]. intro c. rewrite (Hs c).
    apply mtable_some in Em. destruct Em as [Ht2 Hn2]. symmetry. apply spec_col_other_ins; try assumption.
    rewrite Hp. intro Heq. symmetry in Heq. revert Heq. apply (other_table_id ts t t2 Hwt Ht Ht2).
    rewrite Hn2. intro Heq. rewrite Heq, str_eqb_refl in Etid. discriminate.
Qed.

Definition drop (k : Z) (cs : list crec) : list crec := filter (fun r => negb (c_id r =? k)) cs.

Lemma drop_in : forall k cs x, In x (drop k cs) <-> In x cs /\ c_id x <> k.
Proof. intros k cs x. unfold drop. rewrite filter_In, negb_true_iff, Z.eqb_neq. tauto. Qed.

Lemma wf_c_sub : forall cs cs', wf_c cs -> NoDup (map c_id cs') -> (forall x, In x cs' -> In x cs) -> wf_c cs'.
Proof.
  intros cs cs' Hwc Hnd Hsub. constructor; [exact Hnd | |].
  - intros r Hr. apply (wc_pos _ Hwc). apply Hsub. exact Hr.
  - intros r1 r2 H1 H2. apply (wc_keys _ Hwc); apply Hsub; assumption.
Qed.

Lemma nodup_map_filter : forall {A B} (f : A -> B) p l, NoDup (map f l) -> NoDup (map f (filter p l)).
Proof.
  intros A B f p l H. induction l as [|x t IH]; cbn; [constructor|]. cbn in H. inversion H as [|x0 t0 Hnin Hnd]; subst.
  destruct (p x); cbn; [|apply IH; exact Hnd]. constructor; [|apply IH; exact Hnd].
  intro Hin. apply Hnin. apply in_map_iff in Hin. destruct Hin as [y [Hy1 Hy2]]. apply filter_In in Hy2.
  apply in_map_iff. exists y. tauto.
Qed.

Lemma sync_remove_col : forall base sch sch' ts cs rho t rk cols cols',
  wf_t ts -> wf_c cs -> Sync base sch ts cs rho ->
  In t ts -> In rk cs -> c_parent rk = t_id t ->
  od_get (t_tableId t) sch = Some cols ->
  (forall c, od_get c cols' = if str_eqb (c_colId rk) c then None else od_get c cols) ->
  sch_upd sch sch' (t_tableId t) (Some cols') ->
  wf_c (drop (c_id rk) cs) /\ Sync base sch' ts (drop (c_id rk) cs) rho.
Proof.
  intros base sch sch' ts cs rho t rk cols cols' Hwt Hwc Hs Ht Hrk Hp Hcols Hcols' Hupd.
  assert (Hentry : forall c, od_get c cols = spec_col cs rho (t_id t) c).
  { destruct (sync_table_entry base sch ts cs rho t Hwt Hs Ht) as [cols0 [H0 H1]]. rewrite Hcols in H0.
    inversion H0; subst. exact H1. }
  assert (Hwc' : wf_c (drop (c_id rk) cs)).
  { apply (wf_c_sub cs); [exact Hwc | apply nodup_map_filter; apply Hwc | intros x Hx; apply drop_in in Hx; tauto]. }
  split; [exact Hwc'|].
  assert (Hspec : forall p c, (p <> t_id t \/ c <> c_colId rk) ->
                              spec_col (drop (c_id rk) cs) rho p c = spec_col cs rho p c).
  { intros p c Hdiff. unfold spec_col. destruct (mcol cs p c) as [x|] eqn:Em.
    - apply mcol_some in Em. destruct Em as [Hx [Hpx Hcx]].
      rewrite (mcol_intro (drop (c_id rk) cs) p c x Hwc'); [reflexivity | | exact Hpx | exact Hcx].
      apply drop_in. split; [exact Hx|]. intro Heq.
      assert (x = rk) by (apply (nodup_ids_unique cs); try assumption; apply Hwc). subst x.
      destruct Hdiff as [Hd|Hd]; [apply Hd; congruence | apply Hd; congruence].
    - rewrite mcol_none_intro; [reflexivity|]. intros x Hx. apply drop_in in Hx. destruct Hx as [Hx _].
      exact (mcol_none cs p c Em x Hx). }
  intro tid'. rewrite (Hupd tid'). unfold target.
  destruct (str_eqb (t_tableId t) tid') eqn:Etid.
  - apply str_eqb_eq in Etid. subst tid'. rewrite (mtable_intro ts _ t Hwt Ht eq_refl).
    intro c. rewrite Hcols'. destruct (str_eqb (c_colId rk) c) eqn:E1.
    + apply str_eqb_eq in E1. subst c. unfold spec_col. rewrite mcol_none_intro; [reflexivity|].
      intros x Hx Hpx Hcx. apply drop_in in Hx. destruct Hx as [Hx Hne]. apply Hne. f_equal.
      apply (wc_keys _ Hwc); try assumption; congruence.
    + rewrite Hentry. symmetry. apply Hspec. right. intro Heq. rewrite Heq, str_eqb_refl in E1. discriminate.
  - specialize (Hs tid'). unfold target in Hs.
    destruct (mtable ts tid') as [t2|] eqn:Em; [|exact Hs].
    destruct (od_get tid' sch) as [cols2|]; [|exact Hs]. intro c. rewrite (Hs c).
    apply mtable_some in Em. destruct Em as [Ht2 Hn2]. symmetry. apply Hspec. left.
    apply (other_table_id ts t t2 Hwt Ht Ht2). rewrite Hn2. intro Heq. rewrite Heq, str_eqb_refl in Etid. discriminate.
Qed.

(* ---------------------------------------------------------------- table records *)
Lemma ins_t_in : forall r ts x, In x (ins_t r ts) <-> x = r \/ In x ts.
Proof.
  intros r ts x. induction ts as [|y t IH]; cbn; [intuition congruence|].
  destruct (t_id r <? t_id y); cbn; [intuition congruence|]. rewrite IH. intuition congruence.
Qed.

Lemma ins_t_perm : forall r ts, Permutation (ins_t r ts) (r :: ts).
Proof.
  intros r ts. induction ts as [|y t IH]; cbn; [apply Permutation_refl|].
  destruct (t_id r <? t_id y); [apply Permutation_refl|].
  eapply Permutation_trans; [apply perm_skip; exact IH | apply perm_swap].
Qed.

Lemma sync_none_entry : forall base sch ts cs rho tid, Sync base sch ts cs rho -> od_get tid sch = None ->
  mtable ts tid = None /\ od_get tid base = None.
Proof.
  intros base sch ts cs rho tid Hs Hn. specialize (Hs tid). rewrite Hn in Hs. unfold target in Hs.
  destruct (mtable ts tid); [contradiction|]. destruct (od_get tid base); [contradiction | tauto].
Qed.

Lemma sync_add_table : forall base sch sch' ts cs rho t,
  wf_t ts -> Sync base sch ts cs rho -> base_disjoint base ts ->
  od_get (t_tableId t) sch = None -> (forall x, In x ts -> t_id x <> t_id t) ->
  (forall c, In c cs -> c_parent c <> t_id t) ->
  sch_upd sch sch' (t_tableId t) (Some []) ->
  wf_t (ins_t t ts) /\ Sync base sch' (ins_t t ts) cs rho /\ base_disjoint base (ins_t t ts).
Proof.
  intros base sch sch' ts cs rho t Hwt Hs Hbd Hnone Hfresh Hnocol Hupd.
  destruct (sync_none_entry base sch ts cs rho _ Hs Hnone) as [Hmt Hbase].
  assert (Hwt' : wf_t (ins_t t ts)).
  { constructor.
    - eapply Permutation_NoDup; [apply Permutation_sym; apply Permutation_map; apply ins_t_perm|]. cbn.
      constructor; [|apply Hwt]. intro Hin. apply in_map_iff in Hin. destruct Hin as [x [H1 H2]]. exact (Hfresh x H2 H1).
    - eapply Permutation_NoDup; [apply Permutation_sym; apply Permutation_map; apply ins_t_perm|]. cbn.
      constructor; [|apply Hwt]. intro Hin. apply in_map_iff in Hin. destruct Hin as [x [H1 H2]].
      exact (mtable_none ts _ Hmt x H2 H1). }
  split; [exact Hwt'|]. split.
  - intro tid'. rewrite (Hupd tid'). unfold target. destruct (str_eqb (t_tableId t) tid') eqn:E.
    + apply str_eqb_eq in E. subst tid'.
      rewrite (mtable_intro (ins_t t ts) _ t Hwt'); [|apply ins_t_in; tauto | reflexivity].
      intro c. cbn. unfold spec_col. rewrite mcol_none_intro; [reflexivity|].
      intros x Hx Hpx. exfalso. exact (Hnocol x Hx Hpx).
    + specialize (Hs tid'). unfold target in Hs.
      assert (Hm : mtable (ins_t t ts) tid' = mtable ts tid').
      { destruct (mtable ts tid') as [t2|] eqn:Em.
        - apply mtable_some in Em. destruct Em as [H1 H2]. apply mtable_intro; [exact Hwt' | apply ins_t_in; tauto | exact H2].
        - apply mtable_none_intro. intros x Hx. apply ins_t_in in Hx. destruct Hx as [->|Hx].
          + intro Heq. rewrite Heq, str_eqb_refl in E. discriminate.
          + exact (mtable_none ts tid' Em x Hx). }
      rewrite Hm. exact Hs.
  - intros x Hx. apply ins_t_in in Hx. destruct Hx as [->|Hx]; [exact Hbase | apply Hbd; exact Hx].
Qed.

Definition dropt (k : Z) (ts : list trec) : list trec := filter (fun t => negb (t_id t =? k)) ts.

Lemma dropt_in : forall k ts x, In x (dropt k ts) <-> In x ts /\ t_id x <> k.
Proof. intros k ts x. unfold dropt. rewrite filter_In, negb_true_iff, Z.eqb_neq. tauto. Qed.

Lemma sync_remove_table : forall base sch sch' ts cs rho t,
  wf_t ts -> Sync base sch ts cs rho -> base_disjoint base ts -> In t ts ->
  sch_upd sch sch' (t_tableId t) None ->
  wf_t (dropt (t_id t) ts) /\ Sync base sch' (dropt (t_id t) ts) cs rho /\ base_disjoint base (dropt (t_id t) ts).
Proof.
  intros base sch sch' ts cs rho t Hwt Hs Hbd Ht Hupd.
  assert (Hwt' : wf_t (dropt (t_id t) ts)).
  { constructor; apply nodup_map_filter; apply Hwt. }
  split; [exact Hwt'|]. split.
  - intro tid'. rewrite (Hupd tid'). unfold target. destruct (str_eqb (t_tableId t) tid') eqn:E.
    + apply str_eqb_eq in E. subst tid'. rewrite mtable_none_intro.
      * rewrite (Hbd t Ht). exact I.
      * intros x Hx Hn. apply dropt_in in Hx. destruct Hx as [Hx Hne]. apply Hne. f_equal.
        apply (nodup_map_unique t_tableId ts); try assumption. apply Hwt.
    + specialize (Hs tid'). unfold target in Hs.
      assert (Hm : mtable (dropt (t_id t) ts) tid' = mtable ts tid').
      { destruct (mtable ts tid') as [t2|] eqn:Em.
        - apply mtable_some in Em. destruct Em as [H1 H2]. apply mtable_intro; [exact Hwt' | | exact H2].
          apply dropt_in. split; [exact H1|]. intro Heq.
          assert (t2 = t) by (apply (nodup_map_unique t_id ts); try assumption; apply Hwt). subst t2.
          rewrite H2, str_eqb_refl in E. discriminate.
        - apply mtable_none_intro. intros x Hx. apply dropt_in in Hx. exact (mtable_none ts tid' Em x (proj1 Hx)). }
      rewrite Hm. exact Hs.
  - intros x Hx. apply dropt_in in Hx. apply Hbd. tauto.
Qed.

Lemma upd_table_in : forall k n ts x, In x (upd_table k n ts) ->
  (In x ts /\ t_id x <> k) \/ (exists y, In y ts /\ t_id y = k /\ x = {| t_id := t_id y; t_tableId := match n with Some s => s | None => t_tableId y end |}).
Proof.
  intros k n ts x H. unfold upd_table in H. apply in_map_iff in H. destruct H as [y [Hy Hin]].
  destruct (Z.eqb_spec (t_id y) k) as [Hk|Hk]; [right; exists y; subst x; tauto | left; subst x; tauto].
Qed.

Lemma upd_table_ids : forall k n ts, map t_id (upd_table k n ts) = map t_id ts.
Proof.
  intros k n ts. unfold upd_table. rewrite map_map. apply map_ext. intro t. destruct (t_id t =? k); reflexivity.
Qed.

Lemma sync_rename_table : forall base sch sch' ts cs rho t n cols,
  wf_t ts -> Sync base sch ts cs rho -> base_disjoint base ts -> In t ts ->
  od_get (t_tableId t) sch = Some cols -> od_get n sch = None ->
  (forall x, od_get x sch' = if str_eqb n x then Some cols else if str_eqb (t_tableId t) x then None else od_get x sch) ->
  let ts' := upd_table (t_id t) (Some n) ts in
  wf_t ts' /\ Sync base sch' ts' cs rho /\ base_disjoint base ts'.
Proof.
  intros base sch sch' ts cs rho t n cols Hwt Hs Hbd Ht Hcols Hnone Hupd ts'.
  destruct (sync_none_entry base sch ts cs rho n Hs Hnone) as [Hmn Hbn].
  set (t' := {| t_id := t_id t; t_tableId := n |}).
  assert (Hin' : forall x, In x ts' <-> (In x ts /\ t_id x <> t_id t) \/ x = t').
  { intro x. split.
    - intro H. apply upd_table_in in H. destruct H as [H|[y [Hy [Hk Hx]]]]; [left; exact H|]. right.
      assert (y = t) by (apply (nodup_map_unique t_id ts); try assumption; apply Hwt). subst y. exact Hx.
    - intros [[H1 H2]| ->]; unfold ts', upd_table; apply in_map_iff.
      + exists x. split; [|exact H1]. destruct (Z.eqb_spec (t_id x) (t_id t)); [contradiction | reflexivity].
      + exists t. split; [|exact Ht]. rewrite Z.eqb_refl. reflexivity. }
  assert (Hwt' : wf_t ts').
  { constructor.
    - unfold ts'. rewrite upd_table_ids. apply Hwt.
    - unfold ts', upd_table. clear Hin'. pose proof (wt_names _ Hwt) as Hnd. pose proof (wt_ids _ Hwt) as Hid.
      assert (Hfree : forall x, In x ts -> t_tableId x <> n) by (intros x Hx; exact (mtable_none ts n Hmn x Hx)).
      clear - Hnd Hid Hfree. induction ts as [|y r IH]; cbn; [constructor|].
      cbn in Hnd, Hid. inversion Hnd as [|a b Hnin Hnd']; subst. inversion Hid as [|a b Hnin2 Hid']; subst.
      constructor; [|apply IH; try assumption; intros x Hx; apply Hfree; right; exact Hx].
      intro Hin. apply in_map_iff in Hin. destruct Hin as [z [Hz1 Hz2]]. apply in_map_iff in Hz2.
      destruct Hz2 as [w [Hw1 Hw2]]. subst z.
      destruct (Z.eqb_spec (t_id y) (t_id t)) as [Ey|Ey]; destruct (Z.eqb_spec (t_id w) (t_id t)) as [Ew|Ew]; cbn in Hz1.
      + apply Hnin2. rewrite Ey, <- Ew. apply in_map. exact Hw2.
      + apply (Hfree w); [right; exact Hw2 | exact Hz1].
      + apply (Hfree y); [left; reflexivity | congruence].
      + apply Hnin. rewrite <- Hz1. apply in_map. exact Hw2. }
  split; [exact Hwt'|]. split.
  - intro x. rewrite (Hupd x). unfold target. destruct (str_eqb n x) eqn:En.
    + apply str_eqb_eq in En. subst x.
      rewrite (mtable_intro ts' n t' Hwt'); [|apply Hin'; right; reflexivity | reflexivity]. cbn [t_id t'].
      destruct (sync_table_entry base sch ts cs rho t Hwt Hs Ht) as [cols0 [H0 H1]]. rewrite Hcols in H0.
      inversion H0; subst. exact H1.
    + destruct (str_eqb (t_tableId t) x) eqn:Et.
      * apply str_eqb_eq in Et. subst x. rewrite mtable_none_intro; [rewrite (Hbd t Ht); exact I|].
        intros y Hy Hn. apply Hin' in Hy. destruct Hy as [[Hy1 Hy2]| ->].
        -- apply Hy2. f_equal. apply (nodup_map_unique t_tableId ts); try assumption. apply Hwt.
        -- cbn in Hn. rewrite Hn, str_eqb_refl in En. discriminate.
      * specialize (Hs x). unfold target in Hs.
        assert (Hm : mtable ts' x = mtable ts x).
        { destruct (mtable ts x) as [t2|] eqn:Em.
          - apply mtable_some in Em. destruct Em as [H1 H2]. apply mtable_intro; [exact Hwt' | | exact H2].
            apply Hin'. left. split; [exact H1|]. intro Heq.
            assert (t2 = t) by (apply (nodup_map_unique t_id ts); try assumption; apply Hwt). subst t2.
            rewrite H2, str_eqb_refl in Et. discriminate.
          - apply mtable_none_intro. intros y Hy. apply Hin' in Hy. destruct Hy as [[Hy _]| ->].
            + exact (mtable_none ts x Em y Hy).
            + cbn. intro Heq. rewrite Heq, str_eqb_refl in En. discriminate. }
        rewrite Hm. exact Hs.
  - intros y Hy. apply Hin' in Hy. destruct Hy as [[Hy _]| ->]; [apply Hbd; exact Hy | exact Hbn].
Qed.
