(* C20: soundness of the result checker [check] w.r.t. [Spec]; distinct finite positions are preserved by
   every step whose result satisfies Spec, hence over any history. *)
From Coq Require Import ZArith List Bool Lia Sorted Permutation.
Import ListNotations.
Require Import Grist.Lib.Fl64 Grist.Proofs.Fl64_proofs Grist.Model.Relabel.
Open Scope Z_scope.

(* ---------------------------------------------------------------------------------------------- *)
(* set_nth / apply_adj *)

Lemma set_nth_length i v l : length (set_nth i v l) = length l.
Proof. revert i; induction l as [|x t IH]; intros [|i]; cbn; auto. Qed.

Lemma apply_adj_length adj : forall orig, length (apply_adj orig adj) = length orig.
Proof.
  unfold apply_adj. induction adj as [|p t IH]; intros orig; cbn; [reflexivity|].
  rewrite IH. apply set_nth_length.
Qed.

Lemma set_nth_In i v l x : In x (set_nth i v l) -> x = v \/ In x l.
Proof.
  revert i; induction l as [|y t IH]; intros [|i]; cbn; try tauto.
  - intros [H|H]; auto.
  - intros [H|H]; auto. destruct (IH _ H); auto.
Qed.

Lemma apply_adj_In adj : forall orig x, In x (apply_adj orig adj) -> In x orig \/ In x (map snd adj).
Proof.
  unfold apply_adj. induction adj as [|p t IH]; intros orig x H; cbn in *; [auto|].
  destruct (IH _ _ H) as [H1|H1]; [|auto].
  destruct (set_nth_In _ _ _ _ H1); auto.
Qed.

(* ---------------------------------------------------------------------------------------------- *)
(* the individual checks *)

Section Sortedb.
Variable le : fl -> fl -> bool.
Hypothesis le_trans : forall a b c, le a b = true -> le b c = true -> le a c = true.

Lemma sortedb_tail x t : sortedb le (x :: t) = true -> sortedb le t = true.
Proof. destruct t; cbn; [auto|]. intros H. apply andb_prop in H. tauto. Qed.

Lemma sortedb_head t : forall x, sortedb le (x :: t) = true ->
  forall j, (j < length t)%nat -> le x (nth j t FNaN) = true.
Proof.
  induction t as [|y t IH]; intros x H j Hj; cbn in Hj; [lia|].
  cbn in H. apply andb_prop in H. destruct H as [Hxy Ht].
  destruct j as [|j]; cbn; [assumption|].
  eapply le_trans; [exact Hxy|]. apply IH; [exact Ht | lia].
Qed.

Lemma sortedb_nth l : sortedb le l = true ->
  forall i j, (i < j < length l)%nat -> le (nth i l FNaN) (nth j l FNaN) = true.
Proof.
  induction l as [|x t IH]; intros H i j Hij; cbn in Hij; [lia|].
  destruct j as [|j]; [lia|]. destruct i as [|i]; cbn.
  - apply sortedb_head; [assumption | lia].
  - apply IH; [eapply sortedb_tail; eassumption | lia].
Qed.
End Sortedb.

Lemma no_nanb_Forall l : no_nanb l = true -> Forall (fun x => is_nan x = false) l.
Proof.
  unfold no_nanb. rewrite forallb_forall, Forall_forall. intros H x Hx.
  specialize (H x Hx). destruct (is_nan x); [discriminate | reflexivity].
Qed.

Lemma check_pre_sound orig keys : check_pre orig keys = true -> Pre orig keys.
Proof.
  unfold check_pre. intros H. apply andb_prop in H. destruct H as [H Hk].
  apply andb_prop in H. destruct H as [Hs Ho].
  split; [|split; apply no_nanb_Forall; assumption].
  intros i j Hij. apply (sortedb_nth fle fle_trans); assumption.
Qed.

Lemma adj_wfb_spec n : forall adj prev, adj_wfb n prev adj = true ->
  forall a, (a < length adj)%nat ->
    prev < fst (nth a adj (0, FNaN)) < n /\ is_finite (snd (nth a adj (0, FNaN))) = true /\
    forall b, (a < b < length adj)%nat -> fst (nth a adj (0, FNaN)) < fst (nth b adj (0, FNaN)).
Proof.
  induction adj as [|[i v] t IH]; intros prev H a Ha; cbn in Ha; [lia|].
  cbn in H. apply andb_prop in H. destruct H as [H Ht].
  apply andb_prop in H. destruct H as [H Hv].
  apply andb_prop in H. destruct H as [Hp Hn].
  apply Z.ltb_lt in Hp. apply Z.ltb_lt in Hn.
  destruct a as [|a]; cbn.
  - split; [lia|]. split; [assumption|]. intros b Hb. destruct b as [|b]; [lia|]. cbn.
    destruct (IH i Ht b) as [Hb1 _]; [cbn in Hb; lia | lia].
  - destruct (IH i Ht a) as [H1 [H2 H3]]; [lia|]. split; [lia|]. split; [assumption|].
    intros b Hb. destruct b as [|b]; [lia|]. cbn. apply H3. cbn in Hb. lia.
Qed.

Lemma order_keptb_adj : forall orig new, order_keptb orig new = true -> length new = length orig ->
  forall i, (S i < length orig)%nat ->
    fle (nth i new FNaN) (nth (S i) new FNaN) = true /\
    (flt (nth i orig FNaN) (nth (S i) orig FNaN) = true -> flt (nth i new FNaN) (nth (S i) new FNaN) = true).
Proof.
  induction orig as [|o1 ot IH]; intros new H Hlen i Hi; cbn in Hi; [lia|].
  destruct ot as [|o2 ot]; [cbn in Hi; lia|].
  destruct new as [|n1 [|n2 nt]]; try (cbn in Hlen; lia).
  cbn [order_keptb] in H. apply andb_prop in H. destruct H as [H Hrest].
  apply andb_prop in H. destruct H as [Hle Hlt].
  destruct i as [|i].
  - cbn. split; [assumption|]. intros Ho. rewrite Ho in Hlt. assumption.
  - change (nth (S i) (n1 :: n2 :: nt) FNaN) with (nth i (n2 :: nt) FNaN).
    change (nth (S (S i)) (n1 :: n2 :: nt) FNaN) with (nth (S i) (n2 :: nt) FNaN).
    change (nth (S i) (o1 :: o2 :: ot) FNaN) with (nth i (o2 :: ot) FNaN).
    change (nth (S (S i)) (o1 :: o2 :: ot) FNaN) with (nth (S i) (o2 :: ot) FNaN).
    apply IH; [assumption | cbn in *; lia | cbn in *; lia].
Qed.

Lemma order_from_adjacent (f g : nat -> fl) (n : nat) :
  (forall i j, (i < j < n)%nat -> fle (f i) (f j) = true) ->
  (forall i, (S i < n)%nat -> fle (g i) (g (S i)) = true /\
                              (flt (f i) (f (S i)) = true -> flt (g i) (g (S i)) = true)) ->
  forall i j, (i < j < n)%nat ->
    fle (g i) (g j) = true /\ (flt (f i) (f j) = true -> flt (g i) (g j) = true).
Proof.
  intros Hf Hadj i j. induction j as [|j IH]; intros Hij; [lia|].
  destruct (Nat.eq_dec i j) as [->|Hne]; [apply Hadj; lia|].
  destruct IH as [IH1 IH2]; [lia|]. destruct (Hadj j) as [A1 A2]; [lia|].
  split; [eapply fle_trans; eassumption|].
  intros Hlt. destruct (flt (f j) (f (S j))) eqn:E.
  - eapply fle_flt_trans; [exact IH1 | apply A2; reflexivity].
  - assert (Hjj : fle (f j) (f (S j)) = true) by (apply Hf; lia).
    apply fle_iff in Hjj. destruct Hjj as (Nj & NSj & _).
    pose proof (flt_false _ _ Nj NSj E) as Hge.
    apply flt_iff in Hlt. destruct Hlt as (Ni & _ & Hlt).
    assert (Hij' : flt (f i) (f j) = true) by (apply flt_iff; repeat split; auto; lia).
    eapply flt_fle_trans; [apply IH2; exact Hij' | exact A1].
Qed.

Lemma place_oneb_spec : forall orig new key v, place_oneb orig new key v = true ->
  length new = length orig /\
  forall i, (i < length orig)%nat ->
    if flt (nth i orig FNaN) key then flt (nth i new FNaN) v = true else flt v (nth i new FNaN) = true.
Proof.
  induction orig as [|o ot IH]; intros new key v H; destruct new as [|n nt]; cbn in H; try discriminate.
  - split; [reflexivity|]. intros i Hi. cbn in Hi. lia.
  - apply andb_prop in H. destruct H as [H0 Ht]. destruct (IH _ _ _ Ht) as [Hl Hi].
    split; [cbn; lia|]. intros [|i] Hlt; cbn.
    + destruct (flt o key); assumption.
    + apply Hi. cbn in Hlt. lia.
Qed.

Lemma placeb_spec orig new : forall keys ins, placeb orig new keys ins = true ->
  length ins = length keys /\
  forall k, (k < length keys)%nat -> place_oneb orig new (nth k keys FNaN) (nth k ins FNaN) = true.
Proof.
  induction keys as [|k kt IH]; intros ins H; destruct ins as [|v vt]; cbn in H; try discriminate.
  - split; [reflexivity|]. intros k Hk. cbn in Hk. lia.
  - apply andb_prop in H. destruct H as [H0 Ht]. destruct (IH _ Ht) as [Hl Hk].
    split; [cbn; lia|]. intros [|j] Hj; cbn; [assumption|]. apply Hk. cbn in Hj. lia.
Qed.

Lemma req_one_spec k1 v1 : forall keys ins, req_one k1 v1 keys ins = true -> length ins = length keys ->
  forall j, (j < length keys)%nat ->
    (flt k1 (nth j keys FNaN) || feq k1 (nth j keys FNaN) = true -> flt v1 (nth j ins FNaN) = true) /\
    (flt (nth j keys FNaN) k1 = true -> flt (nth j ins FNaN) v1 = true).
Proof.
  induction keys as [|k kt IH]; intros ins H Hlen j Hj; cbn in Hj; [lia|].
  destruct ins as [|v vt]; [cbn in Hlen; lia|].
  cbn [req_one] in H. apply andb_prop in H. destruct H as [H Ht].
  apply andb_prop in H. destruct H as [Ha Hb].
  destruct j as [|j]; cbn.
  - split; intros Hc; [rewrite Hc in Ha | rewrite Hc in Hb]; assumption.
  - apply IH; [assumption | cbn in Hlen; lia | lia].
Qed.

Lemma req_orderb_spec : forall keys ins, req_orderb keys ins = true -> length ins = length keys ->
  forall a b, (a < b < length keys)%nat ->
    (flt (nth a keys FNaN) (nth b keys FNaN) || feq (nth a keys FNaN) (nth b keys FNaN) = true ->
     flt (nth a ins FNaN) (nth b ins FNaN) = true) /\
    (flt (nth b keys FNaN) (nth a keys FNaN) = true -> flt (nth b ins FNaN) (nth a ins FNaN) = true).
Proof.
  induction keys as [|k kt IH]; intros ins H Hlen a b Hab; cbn in Hab; [lia|].
  destruct ins as [|v vt]; [cbn in Hlen; lia|].
  cbn [req_orderb] in H. apply andb_prop in H. destruct H as [H1 Ht].
  destruct b as [|b]; [lia|]. destruct a as [|a]; cbn.
  - apply (req_one_spec k v kt vt H1); [cbn in Hlen; lia | lia].
  - apply IH; [assumption | cbn in Hlen; lia | lia].
Qed.

(* ---------------------------------------------------------------------------------------------- *)

Theorem checker_sound orig keys adj ins :
  check orig keys adj ins = true -> Pre orig keys /\ Spec orig keys adj ins.
Proof.
  unfold check. intros H.
  apply andb_prop in H; destruct H as [H Creq].
  apply andb_prop in H; destruct H as [H Cplace].
  apply andb_prop in H; destruct H as [H Cfin].
  apply andb_prop in H; destruct H as [H Clen].
  apply andb_prop in H; destruct H as [H Cord].
  apply andb_prop in H; destruct H as [Cpre Cwf].
  pose proof (check_pre_sound _ _ Cpre) as HPre. split; [assumption|].
  destruct HPre as (Hsorted & Hnn_o & Hnn_k).
  pose proof (apply_adj_length adj orig) as Hlen.
  apply Nat.eqb_eq in Clen.
  destruct (placeb_spec _ _ _ _ Cplace) as [_ Hplace].
  constructor.
  - intros a Ha. destruct (adj_wfb_spec _ _ _ Cwf a Ha) as (H1 & H2 & H3).
    split; [lia|]. split; assumption.
  - apply (order_from_adjacent (fun i => nth i orig FNaN) (fun i => nth i (apply_adj orig adj) FNaN) (length orig)).
    + exact Hsorted.
    + intros i Hi. apply order_keptb_adj; assumption.
  - assumption.
  - rewrite Forall_forall. rewrite forallb_forall in Cfin. exact Cfin.
  - intros k i Hk Hi. specialize (Hplace k Hk).
    destruct (place_oneb_spec _ _ _ _ Hplace) as [_ Hp]. apply Hp. assumption.
  - intros k1 k2 Hk1 Hk2 Hreq.
    pose proof (req_orderb_spec _ _ Creq Clen) as Hro.
    destruct (Nat.lt_trichotomy k1 k2) as [Hlt|[Heq|Hgt]].
    + destruct (Hro k1 k2) as [Hr _]; [lia|]. apply Hr.
      destruct Hreq as [Hreq|[Hreq _]]; unfold Flt in *; rewrite Hreq; [reflexivity | apply orb_true_r].
    + subst k2. destruct Hreq as [Hreq|[_ Hreq]]; [|lia].
      unfold Flt in Hreq. rewrite flt_irrefl in Hreq. discriminate.
    + destruct (Hro k2 k1) as [_ Hr]; [lia|].
      destruct Hreq as [Hreq|[_ Hreq]]; [|lia]. apply Hr. exact Hreq.
Qed.

(* ---------------------------------------------------------------------------------------------- *)
(* distinct finite positions are preserved *)

Require Import Grist.Proofs.Sort_by_proofs.

Lemma trichotomy_nonnan a b : is_nan a = false -> is_nan b = false ->
  flt a b = true \/ feq a b = true \/ flt b a = true.
Proof.
  intros Ha Hb. destruct (Z.lt_trichotomy (ford a) (ford b)) as [H|[H|H]].
  - left. apply flt_iff. auto.
  - right; left. apply feq_iff. auto.
  - right; right. apply flt_iff. auto.
Qed.

Theorem apply_preserves_distinct orig keys adj ins :
  Forall (fun x => is_nan x = false) keys -> strictly_sorted orig -> Spec orig keys adj ins ->
  strictly_sorted (positions_after orig adj ins).
Proof.
  intros Hnn Hs HS. unfold strictly_sorted, positions_after.
  apply (sort_by_sorted flt flt_trans).
  pose proof (apply_adj_length adj orig) as Hlen.
  apply FOP_app.
  - apply (FOP_of_nth _ FNaN). intros i j Hij. left.
    destruct (sp_order _ _ _ _ HS i j) as [_ H]; [lia|]. apply H.
    apply (StronglySorted_nth _ FNaN _ Hs). lia.
  - apply (FOP_of_nth _ FNaN). intros k1 k2 Hk. rewrite (sp_len _ _ _ _ HS) in Hk.
    rewrite Forall_forall in Hnn.
    assert (N1 : is_nan (nth k1 keys FNaN) = false) by (apply Hnn, nth_In; lia).
    assert (N2 : is_nan (nth k2 keys FNaN) = false) by (apply Hnn, nth_In; lia).
    destruct (trichotomy_nonnan _ _ N1 N2) as [H|[H|H]].
    + left. apply (sp_req_order _ _ _ _ HS); [lia | lia | left; exact H].
    + left. apply (sp_req_order _ _ _ _ HS); [lia | lia | right; split; [exact H | lia]].
    + right. apply (sp_req_order _ _ _ _ HS); [lia | lia | left; exact H].
  - intros x y Hx Hy.
    destruct (In_nth _ _ FNaN Hx) as (i & Hi & <-). destruct (In_nth _ _ FNaN Hy) as (k & Hk & <-).
    rewrite (sp_len _ _ _ _ HS) in Hk. rewrite Hlen in Hi.
    pose proof (sp_place _ _ _ _ HS k i Hk Hi) as Hp.
    destruct (flt (nth i orig FNaN) (nth k keys FNaN)); [left | right]; exact Hp.
Qed.

Theorem apply_preserves_finite orig keys adj ins :
  all_finite orig -> Spec orig keys adj ins -> all_finite (positions_after orig adj ins).
Proof.
  intros Hf HS. unfold all_finite, positions_after in *. rewrite Forall_forall in *.
  intros x Hx. apply sort_by_In in Hx. apply in_app_or in Hx. destruct Hx as [Hx|Hx].
  - apply apply_adj_In in Hx. destruct Hx as [Hx|Hx]; [apply Hf; exact Hx|].
    apply in_map_iff in Hx. destruct Hx as (p & <- & Hp).
    destruct (In_nth _ _ (0, FNaN) Hp) as (a & Ha & <-).
    destruct (sp_adj_wf _ _ _ _ HS a Ha) as (_ & H & _). exact H.
  - pose proof (sp_finite _ _ _ _ HS) as H. rewrite Forall_forall in H. apply H. exact Hx.
Qed.

Lemma remove_nth_sorted i : forall l, strictly_sorted l -> strictly_sorted (remove_nth i l).
Proof.
  unfold strictly_sorted. induction i as [|i IH]; intros l H; destruct l as [|x t]; cbn; try assumption.
  - inversion H; assumption.
  - inversion H as [|? ? Ht Hx]; subst. constructor; [apply IH; assumption|].
    rewrite Forall_forall in *. intros y Hy. apply Hx.
    clear - Hy. revert i Hy. induction t as [|z t IHt]; intros [|i] Hy; cbn in *; try tauto.
    destruct Hy as [Hy|Hy]; [auto | right; eapply IHt; eassumption].
Qed.

Lemma remove_nth_finite i : forall l, all_finite l -> all_finite (remove_nth i l).
Proof.
  unfold all_finite. induction i as [|i IH]; intros l H; destruct l as [|x t]; cbn; try assumption.
  - inversion H; assumption.
  - inversion H; subst. constructor; [assumption | apply IH; assumption].
Qed.

(* after any history: positions are distinct (strictly increasing in row order) and finite *)
Theorem history_invariant s : reachable s -> strictly_sorted s /\ all_finite s.
Proof.
  induction 1 as [|s s' Hr [IH1 IH2] Hstep].
  - split; constructor.
  - destruct Hstep as [s keys adj ins Hnn HS | s i].
    + split; [eapply apply_preserves_distinct; eassumption | eapply apply_preserves_finite; eassumption].
    + split; [apply remove_nth_sorted | apply remove_nth_finite]; assumption.
Qed.

Lemma model_add_step s keys s' : model_add s keys = Some s' -> step s s'.
Proof.
  unfold model_add. destruct (prepare_inserts_model s keys) as [[adj ins]|c]; [|discriminate].
  destruct (check s keys adj ins) eqn:E; [|discriminate]. intros H. inversion H; subst.
  destruct (checker_sound _ _ _ _ E) as [(_ & _ & Hk) HS]. apply (step_add s keys); assumption.
Qed.

Theorem model_run_invariant batches : forall s s', reachable s -> model_run s batches = Some s' -> reachable s'.
Proof.
  induction batches as [|keys rest IH]; intros s s' Hr H; cbn in H.
  - inversion H; subst; assumption.
  - destruct (model_add s keys) as [s1|] eqn:E; [|discriminate].
    eapply IH; [|exact H]. econstructor; [exact Hr | apply (model_add_step s keys); exact E].
Qed.
