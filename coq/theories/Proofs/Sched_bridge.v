(* K2: the scheduler code regenerated from /repo (GristGen.Sched_gen) is, pointwise, the hand-written model code
   (Model/SchedCode.v), and that model code is what Model/Sched.v's transition system does. *)
From Coq Require Import ZArith List Bool Lia.
Import ListNotations.
Require Import Grist.Model.Sched Grist.Model.SchedCode GristGen.Sched_gen Grist.Proofs.Sched_proofs.
Open Scope Z_scope.

(* ---- Engine._make_sorted_work_items + pop: lookup nodes are processed first -------------------------------------- *)
Lemma gen_key_first_is_model : forall lk, gen_key_first lk = model_key_first lk.
Proof. intros []; reflexivity. Qed.

Lemma gen_order_lookups_first :
  processed_before gen_key_first gen_sort_reverse gen_pop_last true false = true /\
  processed_before gen_key_first gen_sort_reverse gen_pop_last false true = false.
Proof. split; reflexivity. Qed.

Lemma find_app {A} (f : A -> bool) l1 l2 :
  find f (l1 ++ l2) = match find f l1 with Some x => Some x | None => find f l2 end.
Proof. induction l1 as [|a l IH]; cbn [find app]; [reflexivity|]. destruct (f a); [reflexivity | exact IH]. Qed.

(* an order that lists the index cells first satisfies the side condition of engine_order_is_lookups_first *)
Lemma idx_first_of_split isidx idxs rest s c :
  (forall x, In x idxs -> isidx (fst x) = true) -> (forall x, In x rest -> isidx (fst x) = false) ->
  (forall x, In x (dirty s) -> In x (idxs ++ rest)) ->
  first_dirty (idxs ++ rest) s = Some c -> idx_dirty isidx s = true -> isidx (fst c) = true.
Proof.
  intros Hi Hr Hd Hf Hdirty. unfold first_dirty in Hf. rewrite find_app in Hf.
  destruct (find (fun x => mem x (dirty s)) idxs) as [y|] eqn:E.
  - inversion Hf; subst. apply find_some in E. apply Hi. apply E.
  - exfalso. unfold idx_dirty in Hdirty. apply existsb_exists in Hdirty. destruct Hdirty as [x [Hx Hix]].
    pose proof (Hd x Hx) as Hin. apply in_app_or in Hin. destruct Hin as [Hin|Hin].
    + pose proof (find_none _ _ E x Hin) as Hn. cbn beta in Hn. apply mem_In in Hx. congruence.
    + rewrite (Hr x Hin) in Hix. discriminate.
Qed.

(* ---- Engine._recompute_step: the row loop ------------------------------------------------------------------------ *)
Lemma gen_required_is_model : forall a b, gen_required a b = model_required a b.
Proof. intros [] []; reflexivity. Qed.

Lemma gen_row_action_is_model : forall i_lt_count count_zero in_dirty in_table in_exclude allow locked,
  gen_row_action i_lt_count count_zero in_dirty in_table in_exclude allow locked =
  model_row_action i_lt_count count_zero in_dirty in_table in_exclude allow locked.
Proof. intros [] [] [] [] [] [] []; reflexivity. Qed.

Lemma gen_on_order_is_model : forall r, gen_on_order r = model_on_order r.
Proof. intros []; reflexivity. Qed.

(* a nested access that requires the rows rs (i < require_count, rows exist, not computed yet, no evaluation allowed) *)
Definition gen_nested_required (in_dirty : bool) : row_action := gen_row_action true false in_dirty true false false false.

(* the generated row loop IS phase one of the model's multi-row access: clean required rows are skipped, the first
   dirty one raises OrderError, and only when all are clean the formula goes on *)
Theorem gen_scan_is_require_rows : forall col rs k vl isd,
  eval vl isd (require_rows col rs k) =
  match scan_required gen_nested_required rs (fun r => isd (col, r)) with
  | Some r => ONeed (col, r)
  | None => eval vl isd k
  end.
Proof.
  intros col rs k vl isd. induction rs as [|r t IH]; cbn [require_rows scan_required eval]; [reflexivity|].
  destruct (isd (col, r)); cbn; [reflexivity | exact IH].
Qed.

(* a single-row read is the special case *)
Corollary gen_scan_single_read : forall c k vl isd,
  eval vl isd (Read c k) =
  match scan_required gen_nested_required [snd c] (fun r => isd (fst c, r)) with
  | Some r => ONeed (fst c, r)
  | None => eval vl isd (k (vl c))
  end.
Proof. intros [n r] k vl isd. cbn. destruct (isd (n, r)); reflexivity. Qed.

(* with an EMPTY list of required rows (require_count = 0) every dirty row counts as required: the source of the
   known finding C18-empty-recordset-requires-whole-column, which the model reproduces with [required_of] *)
Lemma gen_empty_requirement_means_all_rows : gen_row_action false true true true false false false = ROrder.
Proof. reflexivity. Qed.

(* a required cell that is locked is evaluated with cycle = True; an opportunistic one never *)
Lemma gen_cycle_flag : forall locked,
  gen_row_action true false true true false true locked = REval locked /\
  gen_row_action false false true true false true locked = REval false.
Proof. intros []; split; reflexivity. Qed.

(* an OrderError of an opportunistic evaluation is dropped, of a required one propagated (model: no transition / need) *)
Lemma gen_on_order_cases : gen_on_order false = OAbandon /\ gen_on_order true = OPropagate.
Proof. split; reflexivity. Qed.

(* ---- BaseColumn.get_cell_value ----------------------------------------------------------------------------------- *)
Lemma gen_cell_read_is_model : forall restore has_input is_cre,
  gen_cell_read restore has_input is_cre = model_cell_read restore has_input is_cre.
Proof. intros [] [] []; reflexivity. Qed.

(* what the grammar's handlers [h] rely on: a formula (restore = False) that reads an error cell gets the stored
   CircularRefError itself, any other error wrapped; a trigger cell re-evaluated with restore = True sees its previous
   input even when that cell holds a CircularRefError *)
Lemma gen_cell_read_cases : forall hi,
  gen_cell_read false hi true = RRaiseStored /\ gen_cell_read false hi false = RRaiseCellError /\
  gen_cell_read true true true = RUserInput.
Proof. intros []; repeat split; reflexivity. Qed.

(* ---- Engine._use_node -------------------------------------------------------------------------------------------- *)
Lemma gen_use_node_is_model : gen_use_node = model_use_node.
Proof. reflexivity. Qed.

(* the edge is recorded before the accessed node is brought up to date, so an abandoned read leaves its edge
   (what [check_edges] / [replay_edges] assume) *)
Lemma gen_edge_before_recompute : edge_before_recompute gen_use_node = true.
Proof. reflexivity. Qed.

(* ---- Engine._update_loop: except OrderError ------------------------------------------------------------------------ *)
Lemma gen_on_order_error_is_model : gen_on_order_error = model_on_order_error.
Proof. reflexivity. Qed.

(* the model's [need] transition does exactly these: the requiring cell c is locked, the interrupted frame stays below
   the new frame (d, Some c) *)
Lemma model_need_matches_ops P s c d s' :
  exec P (LNeed c d) s = Some s' ->
  locked s' = c :: locked s /\ stack s' = (d, Some c) :: stack s /\ dirty s' = dirty s.
Proof.
  cbn [exec]. destruct (stack s) as [|[c' l] rest]; [discriminate|].
  destruct (cell_eqb c c' && mem c (dirty s) && negb (mem c (locked s))); [|discriminate].
  destruct (run_formula P s c) as [[v|d']|]; try discriminate.
  destruct (cell_eqb d d'); [|discriminate]. intros H. inversion H; subst. cbn. auto.
Qed.

(* ---- Engine._recompute_one_cell(cycle=True) ------------------------------------------------------------------------ *)
Lemma gen_cycle_value_is_model : gen_cycle_value = model_cycle_value.
Proof. reflexivity. Qed.

Lemma model_cycle_stores_gen_value P s c s' : exec P (LCycle c) s = Some s' -> val s' c = gen_cycle_value.
Proof.
  cbn [exec]. destruct (stack s) as [|[c' l] rest]; [discriminate|].
  destruct (cell_eqb c c' && mem c (dirty s) && mem c (locked s)); [|discriminate].
  intros H. inversion H; subst. cbn [finish val]. apply upd_same.
Qed.

(* ---- Engine._recompute_step: changes are accumulated per node over the whole loop ------------------------------- *)
Lemma gen_changes_acquire_is_model : gen_changes_acquire = model_changes_acquire.
Proof. reflexivity. Qed.

(* ---- Engine._recompute_one_cell: a swallowed OrderError still ends the evaluation, for every kind of cell ----------- *)
Lemma gen_pending_reraise_is_model : gen_pending_reraise = model_pending_reraise.
Proof. reflexivity. Qed.

(* the model counterpart: a handler cannot intercept the read of a dirty cell *)
Lemma model_dirty_read_cannot_be_handled vl isd c k : isd c = true -> eval vl isd (Read c k) = ONeed c.
Proof. intros H. cbn [eval]. rewrite H. reflexivity. Qed.
