(* K1: the effect programs of docactions.py as the ActionLog model was written from them (model_effects, hand-kept), the
   bridge to what harness/da2v.py regenerates from /repo on every run (gen_effects), and the proof that Model.ActionLog.apply_doc
   produces, for every doc action, undo actions and summary ops along one of the paths of its effect program. *)
From Coq Require Import String List Bool ZArith.
Import ListNotations.
Require Import Grist.Model.ActionLog Grist.Model.DocEffects GristGen.DocActions_gen Grist.Proofs.ActionLog_proofs
  Grist.Proofs.ActionLog_calc.
Open Scope string_scope.

Definition model_effects : list (string * list eff) :=
  [ ("AddRecord", [(ECall "BulkAddRecord")]);
    ("BulkAddRecord", [(EUndo "BulkRemoveRecord" ["v0"; "v1"]); (ESum "add_records" ["v0"; "v1"]); (EMut "self._engine.add_records")]);
    ("RemoveRecord", [(ECall "BulkRemoveRecord")]);
    ("BulkRemoveRecord", [(EIf "not v1" [ERet] []); (EFor "v2.all_columns.values()" [(EFor "v1" [(EMut "v5.unset")])]); (EUndo "BulkAddRecord" ["v0"; "v1"; "v4"]); (ESum "remove_records" ["v0"; "v1"])]);
    ("UpdateRecord", [(ECall "BulkUpdateRecord")]);
    ("BulkUpdateRecord", [(EUndo "BulkUpdateRecord" ["v0"; "v1"; "v5"]); (EFor "v6" [(EFor "zip(v1, v8)" [(EMut "v9.set")])])]);
    ("ReplaceTableData", [(EUndo "ReplaceTableData" ["*v3"]); (ESum "remove_records" ["v0"; "v3[1]"]); (ESum "add_records" ["v0"; "v1"]); (EMut "self._engine.load_table")]);
    ("AddColumn", [(EMut "self._engine.rebuild_usercode"); (EMut "self._engine.new_column_name"); (EUndo "RemoveColumn" ["v0"; "v1"]); (ESum "add_column" ["v0"; "v1"])]);
    ("RemoveColumn", [(EMut "self._engine.schema[v0].columns.pop"); (EMut "self._engine.rebuild_usercode"); (EIf "v6" [(EIf "v4.is_formula()" [(ESum "add_changes" ["v0"; "v1"; "v9"])] [(EUndo "BulkUpdateRecord" ["v0"; "v11"; "{v1: v12}"])])] []); (EUndo "AddColumn" ["v0"; "v1"; "schema.col_to_dict(v8, include_id=False)"]); (ESum "remove_column" ["v0"; "v1"])]);
    ("RenameColumn", [(EMut "v5.columns.pop"); (EMut "self._engine.rebuild_usercode"); (EMut "self._engine.new_column_name"); (EMut "v7.copy_from_column"); (EUndo "RenameColumn" ["v0"; "v2"; "v1"]); (ESum "rename_column" ["v0"; "v1"; "v2"])]);
    ("ModifyColumn", [(EIf "v7 == v6" [ERet] []); (EMut "v5.columns.pop"); (EMut "self._engine.rebuild_usercode"); (EMut "self._engine.rebuild_usercode"); (EFor "v3.row_ids" [(EMut "v11.set")]); (EUndo "ModifyColumn" ["v0"; "v1"; "v8"])]);
    ("AddTable", [(EMut "self._engine.rebuild_usercode"); (EUndo "RemoveTable" ["v0"]); (ESum "add_table" ["v0"])]);
    ("RemoveTable", [(EIf "v2" [(EUndo "BulkAddRecord" ["*v1"])] []); (EMut "self._engine.schema.pop"); (EMut "self._engine.rebuild_usercode"); (EUndo "AddTable" ["v0"; "schema.cols_to_dict_list(v3.columns)"]); (ESum "remove_table" ["v0"])]);
    ("RenameTable", [(EMut "self._engine.schema.pop"); (EMut "self._engine.rebuild_usercode"); (EFor "v4.all_columns.values()" [(EIf "not v5.is_private()" [(EMut "v5.copy_from_column")] [])]); (EMut "v4.grow_to_max"); (EUndo "RenameTable" ["v1"; "v0"]); (ESum "rename_table" ["v0"; "v1"])]) ].

(* the glue that event traces cannot see, statement by statement, as the model was written from it:
   ActionSummary._changes_to_actions (Model.ActionLog.changes_to_actions: which rows get a stored update, an appended restore
   or a restore inserted at the FRONT of the undo list, and under which names -- the front restore uses the ORIGINAL names
   v12 / v13 resolved before root_name()), Engine._get_undo_checkpoint / _undo_to_checkpoint (one length PER LIST: calc, stored,
   undo, retValues; each list is trimmed at its own length), UserActions.doModifyColumn (the conversion loop, the hand-off
   `if changes: summary.add_changes`, the per-column flush under `if not to_formula` with the ModifyColumn undo popped and
   pushed back) *)
Definition model_skeletons : list (string * list sk) :=
  [ ("ActionSummary._changes_to_actions(self, v0, v1, v2, v3, v4)", [(SIf "not v2" [(SRet "")] []); (SStmt "v5 = sorted((v6 for v6, (v7, v8) in v2.items() if not equal_encoding(v7, v8)))"); (SStmt "v9 = is_defunct(v0) or is_defunct(v1)"); (SStmt "v10 = self._tables[v0]"); (SStmt "v11 = v0"); (SStmt "v12 = self._table_renames.original_name(v0)"); (SStmt "v13 = v10.column_renames.original_name(v1)"); (SStmt "v0 = root_name(v0)"); (SStmt "v1 = root_name(v1)"); (SDef "update_action(v14, v15, v16=None, v17=None)" [(SStmt "v18 = [v2[v6][v15] for v6 in v14]"); (SRet "actions.BulkUpdateRecord(v16 if v16 is not None else v0, v14, {v17 if v17 is not None else v1: v18}).simplify()")]); (SIf "not v9" [(SStmt "v19 = self.filter_out_gone_rows(v0, v5)"); (SIf "v19" [(SStmt "v3.append(v20(v19, 1))")] [])] []); (SIf "self.is_created(v0, v1) and (not v9)" [(SRet "")] []); (SStmt "v21 = self.filter_out_new_rows(v11, v5)"); (SIf "v9" [(SStmt "v22 = []")] [(SStmt "v22 = self.filter_out_gone_rows(v0, v21)")]); (SStmt "v23 = set(v22)"); (SStmt "v24 = [v6 for v6 in v21 if v6 not in v23]"); (SIf "v22" [(SStmt "v4.append(v20(v22, 0))")] []); (SIf "v24" [(SStmt "v4.insert(0, v20(v24, 0, v12, v13))")] [])]);
    ("Engine._get_undo_checkpoint(self)", [(SStmt "v0 = self.out_actions"); (SRet "(len(v0.calc), len(v0.stored), len(v0.undo), len(v0.retValues))")]);
    ("Engine._undo_to_checkpoint(self, v0)", [(SStmt "v1 = self._get_undo_checkpoint()"); (SIf "v1 != v0" [(SStmt "v2, v3, v4, v5 = v0"); (SStmt "v6 = self.out_actions.undo[v4:]"); (SStmt "log.info('Reverting %d doc actions', len(v6))"); (SStmt "self.user_actions.ApplyUndoActions([actions.get_action_repr(v7) for v7 in v6])"); (SStmt "del self.out_actions.calc[v2:]"); (SStmt "del self.out_actions.stored[v3:]"); (SStmt "del self.out_actions.direct[v3:]"); (SStmt "del self.out_actions.undo[v4:]"); (SStmt "del self.out_actions.retValues[v5:]")] [])]);
    ("UserActions.doModifyColumn(self, v0, v1, v2)", [(SStmt "v3 = self._engine.tables[v0]"); (SStmt "v4 = v3.get_column(v1)"); (SStmt "v5 = v4.is_formula()"); (SStmt "v6 = bool(v2.get('isFormula', v5))"); (SStmt "v7 = schema.col_to_dict(self._engine.schema[v0].columns[v1], include_id=False, include_default=True)"); (SStmt "v2 = {v8: v9 for v8, v9 in v2.items() if v7.get(v8, v9) != v9}"); (SIf "not v2" [(SStmt "log.info('useractions.ModifyColumn is a noop')"); (SRet "")] []); (SIf "v5 and (not v6)" [(SStmt "self._engine.bring_col_up_to_date(v4)")] []); (SStmt "v10 = list(v3.row_ids)"); (SStmt "v11 = {v12: v4.raw_get(v12) for v12 in v10}"); (SStmt "self._do_doc_action(actions.ModifyColumn(v0, v1, v2))"); (SStmt "v4 = None"); (SStmt "v13 = v3.get_column(v1)"); (SStmt "assert v6 == v13.is_formula(), 'Wrongly interpreted isFormula conversion'"); (SStmt "v14 = []"); (SFor "v15 in v10" [(SStmt "v16 = v11[v15]"); (SStmt "v17 = v13.convert(v16)"); (SIf "not strict_equal(v16, v17)" [(SStmt "v13.set(v15, v17)"); (SStmt "v14.append((v15, v16, v13.raw_get(v15)))")] [])]); (SIf "v14" [(SStmt "self._engine.out_actions.summary.add_changes(v0, v1, v14)")] []); (SIf "not v6" [(SStmt "assert isinstance(self._engine.out_actions.undo[-1], actions.ModifyColumn), 'ModifyColumn not where expected in undo list'"); (SStmt "v18 = self._engine.out_actions.undo.pop()"); (STry [(SStmt "self._engine.out_actions.flush_calc_changes_for_column(v0, v1)")] [(SStmt "self._engine.out_actions.undo.append(v18)")])] []); (SIf "'type' in v2" [(SStmt "v19 = v13.recalc_from_reverse_values()"); (SStmt "self._do_doc_action(v19)")] [])]) ].

Lemma gen_skeletons_bridge : gen_skeletons = model_skeletons.
Proof. reflexivity. Qed.

(* pointwise bridge: the regenerated table is the one the model was written from *)
Lemma gen_effects_bridge : gen_effects = model_effects.
Proof. reflexivity. Qed.

Section Bridge.
Variable O : ValOps.

(* the names docactions.py uses for what the model calls ... *)
Definition kind_of (a : action O) : string :=
  match a with
  | BulkAddRecord _ _ _ _ => "BulkAddRecord" | BulkRemoveRecord _ _ _ => "BulkRemoveRecord"
  | BulkUpdateRecord _ _ _ _ => "BulkUpdateRecord" | ReplaceTableData _ _ _ _ => "ReplaceTableData"
  | AddColumn _ _ _ _ => "AddColumn" | RemoveColumn _ _ _ => "RemoveColumn" | RenameColumn _ _ _ _ => "RenameColumn"
  | ModifyColumn _ _ _ _ => "ModifyColumn" | AddTable _ _ _ => "AddTable" | RemoveTable _ _ => "RemoveTable"
  | RenameTable _ _ _ => "RenameTable"
  end.

Definition okind (op : sumop O) : string :=
  match op with
  | SAddRecords _ _ _ => "add_records"
  | SRemoveRecords _ _ _ => "remove_records"
  | SRenameColumn _ _ None _ => "add_column"
  | SRenameColumn _ _ (Some o) n => if is_defunct n then "remove_column" else "rename_column"
  | SRenameTable _ None _ => "add_table"
  | SRenameTable _ (Some o) n => if is_defunct n then "remove_table" else "rename_table"
  | SAddChanges _ _ _ _ => "add_changes"
  end.

Definition effects_of (a : action O) : list eff := lookup_eff (kind_of a) gen_effects.

Ltac in_paths := vm_compute; repeat (first [left; reflexivity | right]); fail.

(* every successful doc action of the model appends undo actions and makes summary calls along one path of the effect
   program that is regenerated from docactions.py *)
Theorem apply_doc_paths : forall a s s' u ops,
  apply_doc O a s = Ok (s', (u, ops)) -> act_names_ok O a ->
  In (map kind_of u, map okind ops) (paths (effects_of a)).
Proof.
  intros a s s' u ops H Hn. unfold effects_of. rewrite gen_effects_bridge.
  destruct a; unfold apply_doc in H; cbn [act_names_ok] in Hn.
  - destruct (find_table O s t) as [T|]; [|discriminate]. destruct (_ || _); [discriminate|].
    destruct (negb _); [discriminate|]. destruct (add_records O T rows cols); cbn in H; [|discriminate].
    inversion H; subst. in_paths.
  - destruct (find_table O s t) as [T|]; [|discriminate].
    destruct (filter (fun r => zmem r (t_rows O T)) rows); inversion H; subst; in_paths.
  - destruct (find_table O s t) as [T|]; [|discriminate]. destruct (_ || _); [discriminate|].
    destruct (negb _); [discriminate|]. destruct (old_values O (t_cols O T) rows cols); cbn in H; [|discriminate].
    destruct (set_columns O (t_cols O T) rows cols); cbn in H; [|discriminate]. inversion H; subst. in_paths.
  - destruct (find_table O s t) as [T|]; [|discriminate]. destruct (negb _); [discriminate|].
    match type of H with context [add_records O ?T0 rows ?cs] => destruct (add_records O T0 rows cs) end; cbn in H; [|discriminate].
    inversion H; subst. in_paths.
  - destruct (find_table O s t) as [T|]; [|discriminate]. destruct (has_column O T c); [discriminate|].
    inversion H; subst. in_paths.
  - destruct (find_table O s t) as [T|]; [|discriminate]. destruct (find_col O (t_cols O T) c) as [C|]; [|discriminate].
    match type of H with context [match ?l with [] => _ | _ => _ end] => destruct l end;
      [|destruct (ci_isformula (c_info O C))]; inversion H; subst; cbn [map kind_of okind]; in_paths.
  - destruct (find_table O s t) as [T|]; [|discriminate]. destruct (find_col O (t_cols O T) old) as [C|]; [|discriminate].
    destruct (has_column O T new); [discriminate|]. inversion H; subst. cbn [map kind_of okind]. rewrite Hn. in_paths.
  - destruct (find_table O s t) as [T|]; [|discriminate]. destruct (find_col O (t_cols O T) c) as [C|]; [|discriminate].
    destruct (colinfo_eqb _ _); inversion H; subst; in_paths.
  - destruct (find_table O s t); [discriminate|]. destruct (_ || _); [discriminate|]. inversion H; subst. in_paths.
  - destruct (find_table O s t) as [T|]; [|discriminate].
    destruct (t_rows O T); inversion H; subst; cbn [map kind_of okind]; in_paths.
  - destruct (find_table O s old) as [T|]; [|discriminate]. destruct (find_table O s new); [discriminate|].
    inversion H; subst. cbn [map kind_of okind]. rewrite Hn. in_paths.
Qed.

End Bridge.
