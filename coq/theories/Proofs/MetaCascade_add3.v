(* K6 proofs, part 10: new columns (doAddColumn, AddColumn with its raw and record-card fields), direct fields. *)
From Coq Require Import ZArith List Bool Lia.
Import ListNotations.
Require Import Grist.Model.MetaCascade Grist.Proofs.MetaCascade_base Grist.Proofs.MetaCascade_inv
  Grist.Proofs.MetaCascade_add Grist.Proofs.MetaCascade_add2.
Open Scope Z_scope.

Lemma add_fields_frame : forall sec cols m,
  m_tables (add_fields sec cols m) = m_tables m /\ m_columns (add_fields sec cols m) = m_columns m /\
  m_sections (add_fields sec cols m) = m_sections m /\ m_views (add_fields sec cols m) = m_views m.
Proof. intros. destruct m. unfold add_fields, set_fields. simpl. tauto. Qed.

Lemma do_add_column_extend : forall t kind reft m,
  fst (do_add_column t kind reft m) = extend m [] [mkC (next_id (cids m)) t kind 0 0 0 [] reft] [] [] [] [] [] [] /\
  snd (do_add_column t kind reft m) = next_id (cids m).
Proof. intros. destruct m. unfold do_add_column, set_columns, extend. simpl. rewrite !app_nil_r. split; reflexivity. Qed.

Lemma do_add_column_inv : forall X t kind reft m,
  InvX X m -> In t (tids m) -> InvX X (fst (do_add_column t kind reft m)).
Proof.
  intros X t kind reft m HI Ht. destruct (do_add_column_extend t kind reft m) as [E _]. rewrite E.
  destruct (inv_ids X m HI) as [A [B [C [D [E' [F G]]]]]].
  apply inv_extend; try (intros ? Hnil; exact (False_ind _ Hnil)); try exact HI.
  - apply IdsOk_extend; try (apply IdList_nil; assumption). simpl. apply IdList_snoc. exact B.
  - apply NamesOk_extend_same. apply (inv_names X m HI).
  - intros c [Hc|[]]. subst c. unfold ColOk, tids, cids, extend. simpl. rewrite !app_nil_r.
    split; [exact Ht|]. split; [left; reflexivity|]. split; [left; reflexivity|]. split; [left; reflexivity | intros x []].
Qed.

Lemma do_add_column_frame : forall t kind reft m,
  m_tables (fst (do_add_column t kind reft m)) = m_tables m /\
  m_sections (fst (do_add_column t kind reft m)) = m_sections m /\
  m_views (fst (do_add_column t kind reft m)) = m_views m /\
  In (mkC (snd (do_add_column t kind reft m)) t kind 0 0 0 [] reft) (m_columns (fst (do_add_column t kind reft m))).
Proof.
  intros. destruct m. unfold do_add_column, set_columns. simpl. repeat split; try reflexivity.
  apply in_app_iff. right. left. reflexivity.
Qed.

Lemma add_hidden_column_inv : forall X t kind reft m m' c,
  InvX X m -> add_hidden_column t kind reft m = Ok (m', c) -> InvX X m'.
Proof.
  intros X t kind reft m m' c HI H. unfold add_hidden_column in H.
  destruct (mem t (tids m)) eqn:E; [|discriminate]. apply mem_In in E.
  pose proof (do_add_column_inv X t kind reft m HI E) as J. destruct (do_add_column t kind reft m) as [m1 c1].
  inversion H; subst. exact J.
Qed.

Lemma find_table_some : forall m t tr, find_table m t = Some tr -> In tr (m_tables m) /\ t_id tr = t.
Proof. intros m t tr H. apply find_some in H. destruct H as [H1 H2]. apply Z.eqb_eq in H2. tauto. Qed.
Lemma find_column_some : forall m i c, find_column m i = Some c -> In c (m_columns m) /\ c_id c = i.
Proof. intros m i c H. apply find_some in H. destruct H as [H1 H2]. apply Z.eqb_eq in H2. tauto. Qed.
Lemma find_section_some : forall m i s, find_section m i = Some s -> In s (m_sections m) /\ s_id s = i.
Proof. intros m i s H. apply find_some in H. destruct H as [H1 H2]. apply Z.eqb_eq in H2. tauto. Qed.
Lemma find_field_some : forall m i f, find_field m i = Some f -> In f (m_fields m) /\ f_id f = i.
Proof. intros m i f H. apply find_some in H. destruct H as [H1 H2]. apply Z.eqb_eq in H2. tauto. Qed.

Lemma add_column_inv : forall t kind reft m m', Inv m -> add_column t kind reft m = Ok m' -> Inv m'.
Proof.
  intros t kind reft m m' HI H. unfold add_column in H.
  destruct (find_table m t) as [tr|] eqn:Ef; [|discriminate].
  apply find_table_some in Ef. destruct Ef as [Htr Eid].
  assert (Ht : In t (tids m)) by (rewrite <- Eid; unfold tids; apply in_map; exact Htr).
  assert (Hnil : ~ In (t_id tr) []) by (intros []).
  destruct (inv_tab [] m HI tr Htr Hnil) as [Jraw [Jcard _]].
  pose proof (do_add_column_inv [] t kind reft m HI Ht) as HI1.
  destruct (do_add_column_frame t kind reft m) as [T1 [S1 [V1 C1]]].
  destruct (do_add_column t kind reft m) as [m1 c]. simpl in *.
  assert (Hcs : forall sid, SecOfTable m sid t -> ColOfSection m1 sid c).
  { intros sid [s [Hs [H1 H2]]]. exists s. eexists. split; [rewrite S1; exact Hs|]. split; [exact H1|].
    split; [exact C1|]. simpl. split; [reflexivity | congruence]. }
  set (m2 := if t_raw tr =? 0 then m1 else add_fields (t_raw tr) [c] m1) in *.
  assert (HI2 : InvX [] m2 /\ m_sections m2 = m_sections m1 /\ m_columns m2 = m_columns m1).
  { unfold m2. destruct (t_raw tr =? 0).
    - split; [exact HI1 | split; reflexivity].
    - destruct (add_fields_frame (t_raw tr) [c] m1) as [_ [F2 [F3 _]]]. split; [|split; assumption].
      apply add_fields_inv; [exact HI1|]. intros c0 [Hc0|[]]. subst c0. apply Hcs. rewrite <- Eid. exact Jraw. }
  destruct HI2 as [HI2 [S2 C2]].
  destruct ((t_card tr =? 0) || section_modified m2 (t_card tr)) eqn:Ec.
  - inversion H; subst m'. exact HI2.
  - inversion H; subst m'. apply orb_false_iff in Ec. destruct Ec as [Ec _]. apply Z.eqb_neq in Ec.
    destruct Jcard as [Jcard|Jcard]; [contradiction|].
    apply add_fields_inv; [exact HI2|]. intros c0 [Hc0|[]]. subst c0.
    rewrite <- Eid in Hcs. specialize (Hcs _ Jcard). destruct Hcs as [sr [cr [A [B [C [D E]]]]]].
    exists sr, cr. rewrite S2, C2. tauto.
Qed.

Lemma add_field_inv : forall X s c m m', InvX X m -> add_field s c m = Ok m' -> InvX X m'.
Proof.
  intros X s c m m' HI H. unfold add_field in H. destruct (col_of_section m s c) eqn:E; [|discriminate].
  inversion H; subst m'. apply add_fields_inv; [exact HI|]. intros c0 [Hc0|[]]. subst c0.
  apply col_of_section_iff. exact E.
Qed.
