(* Lemmas about Model/StoredLog.v (C02, C31). *)
From Coq Require Import ZArith List Bool Lia.
Import ListNotations.
Require Import Grist.Model.StoredLog.
Open Scope Z_scope.

(* ------------------------------------------------------------------------------------------------ *)
(* strings, membership *)

Lemma str_eqb_eq : forall a b, str_eqb a b = true <-> a = b.
Proof.
  induction a as [|x a IH]; destruct b as [|y b]; cbn; split; intro H; try reflexivity; try discriminate.
  - apply andb_true_iff in H. destruct H as [H1 H2]. apply Z.eqb_eq in H1. apply IH in H2. congruence.
  - inversion H; subst. rewrite Z.eqb_refl. cbn. apply IH. reflexivity.
Qed.

Lemma str_eqb_refl : forall a, str_eqb a a = true.
Proof. intro a. apply str_eqb_eq. reflexivity. Qed.

Lemma str_eqb_neq : forall a b, str_eqb a b = false <-> a <> b.
Proof.
  intros a b. split; intro H.
  - intro E. apply str_eqb_eq in E. congruence.
  - destruct (str_eqb a b) eqn:E; [|reflexivity]. apply str_eqb_eq in E. contradiction.
Qed.

Lemma str_eqb_sym : forall a b, str_eqb a b = str_eqb b a.
Proof.
  intros a b. destruct (str_eqb a b) eqn:E.
  - apply str_eqb_eq in E. subst. symmetry. apply str_eqb_refl.
  - symmetry. apply str_eqb_neq. apply str_eqb_neq in E. congruence.
Qed.

Lemma zmem_In : forall r l, zmem r l = true <-> In r l.
Proof.
  intros r l. unfold zmem. rewrite existsb_exists. split.
  - intros [x [Hx E]]. apply Z.eqb_eq in E. subst. exact Hx.
  - intro H. exists r. split; [exact H|apply Z.eqb_refl].
Qed.

Lemma zmem_false : forall r l, zmem r l = false <-> ~ In r l.
Proof.
  intros r l. split; intro H.
  - intro Hin. apply zmem_In in Hin. congruence.
  - destruct (zmem r l) eqn:E; [|reflexivity]. apply zmem_In in E. contradiction.
Qed.

Lemma smem_In : forall s l, smem s l = true <-> In s l.
Proof.
  intros s l. unfold smem. rewrite existsb_exists. split.
  - intros [x [Hx E]]. apply str_eqb_eq in E. subst. exact Hx.
  - intro H. exists s. split; [exact H|apply str_eqb_refl].
Qed.

Lemma nodupb_z : forall l, nodupb zmem l = true -> NoDup l.
Proof.
  induction l as [|x l IH]; cbn; intro H; [constructor|].
  apply andb_true_iff in H. destruct H as [H1 H2]. constructor; [|apply IH; exact H2].
  apply negb_true_iff in H1. apply zmem_false in H1. exact H1.
Qed.

Lemma nodupb_s : forall l, nodupb smem l = true -> NoDup l.
Proof.
  induction l as [|x l IH]; cbn; intro H; [constructor|].
  apply andb_true_iff in H. destruct H as [H1 H2]. constructor; [|apply IH; exact H2].
  apply negb_true_iff in H1. intro Hin. apply smem_In in Hin. congruence.
Qed.

(* ------------------------------------------------------------------------------------------------ *)
(* association lists *)

Section AssocLemmas.
  Context {K A : Type} (eqb : K -> K -> bool).
  Hypothesis eqb_eq : forall a b, eqb a b = true <-> a = b.

  Lemma eqb_refl' : forall a, eqb a a = true.
  Proof. intro a. apply eqb_eq. reflexivity. Qed.

  Lemma eqb_neq' : forall a b, eqb a b = false <-> a <> b.
  Proof.
    intros a b. split; intro H.
    - intro E. apply eqb_eq in E. congruence.
    - destruct (eqb a b) eqn:E; [|reflexivity]. apply eqb_eq in E. contradiction.
  Qed.

  Lemma aget_In : forall k (l : list (K * A)) v, aget eqb k l = Some v -> In (k, v) l.
  Proof.
    induction l as [|p l IH]; cbn; intros v H; [discriminate|].
    destruct (eqb (fst p) k) eqn:E.
    - apply eqb_eq in E. inversion H; subst. left. destruct p; reflexivity.
    - right. apply IH. exact H.
  Qed.

  Lemma aget_None : forall k (l : list (K * A)), aget eqb k l = None <-> ~ In k (map fst l).
  Proof.
    induction l as [|p l IH]; cbn.
    - split; [intros _ []|reflexivity].
    - destruct (eqb (fst p) k) eqn:E.
      + apply eqb_eq in E. split; [discriminate|]. intro H. exfalso. apply H. left. exact E.
      + apply eqb_neq' in E. rewrite IH. split.
        * intros H [H1|H1]; [contradiction|]. apply H. exact H1.
        * intros H H1. apply H. right. exact H1.
  Qed.

  Lemma amem_In : forall k (l : list (K * A)), amem eqb k l = true <-> In k (map fst l).
  Proof.
    intros k l. unfold amem. destruct (aget eqb k l) eqn:E.
    - split; [|reflexivity]. intros _. apply aget_In in E. apply in_map_iff. exists (k, a). split; [reflexivity|exact E].
    - split; [discriminate|]. intro H. apply aget_None in E. contradiction.
  Qed.

  Lemma amem_false : forall k (l : list (K * A)), amem eqb k l = false <-> ~ In k (map fst l).
  Proof.
    intros k l. split; intro H.
    - intro Hin. apply amem_In in Hin. congruence.
    - destruct (amem eqb k l) eqn:E; [|reflexivity]. apply amem_In in E. contradiction.
  Qed.

  Lemma aget_nodup : forall k v (l : list (K * A)), NoDup (map fst l) -> In (k, v) l -> aget eqb k l = Some v.
  Proof.
    induction l as [|p l IH]; cbn; intros Hnd Hin; [contradiction|].
    inversion Hnd as [|x xs Hx Hnd']; subst.
    destruct Hin as [Hin|Hin].
    - subst p. cbn. rewrite eqb_refl'. reflexivity.
    - destruct (eqb (fst p) k) eqn:E.
      + apply eqb_eq in E. exfalso. apply Hx. rewrite E. apply in_map_iff. exists (k, v). split; [reflexivity|exact Hin].
      + apply IH; assumption.
  Qed.

  Lemma adel_In : forall k p (l : list (K * A)), In p (adel eqb k l) <-> In p l /\ fst p <> k.
  Proof.
    intros k p l. unfold adel. rewrite filter_In. rewrite negb_true_iff. rewrite eqb_neq'. reflexivity.
  Qed.

  Lemma adel_notin : forall k (l : list (K * A)), ~ In k (map fst l) -> adel eqb k l = l.
  Proof.
    induction l as [|p l IH]; cbn; intro H; [reflexivity|].
    destruct (eqb (fst p) k) eqn:E.
    - apply eqb_eq in E. exfalso. apply H. left. exact E.
    - cbn. f_equal. apply IH. intro H1. apply H. right. exact H1.
  Qed.

  Lemma aget_adel_same : forall k (l : list (K * A)), aget eqb k (adel eqb k l) = None.
  Proof.
    induction l as [|p l IH]; cbn; [reflexivity|].
    destruct (eqb (fst p) k) eqn:E; cbn; [exact IH|]. rewrite E. exact IH.
  Qed.

  Lemma aget_adel_other : forall k k' (l : list (K * A)), k' <> k -> aget eqb k' (adel eqb k l) = aget eqb k' l.
  Proof.
    induction l as [|p l IH]; cbn; intro H; [reflexivity|].
    destruct (eqb (fst p) k) eqn:E; cbn.
    - apply eqb_eq in E. destruct (eqb (fst p) k') eqn:E'.
      + apply eqb_eq in E'. congruence.
      + apply IH. exact H.
    - destruct (eqb (fst p) k'); [reflexivity|]. apply IH. exact H.
  Qed.

  Lemma aget_aset_same : forall k v (l : list (K * A)), aget eqb k (aset eqb k v l) = Some v.
  Proof. intros. unfold aset. cbn. rewrite eqb_refl'. reflexivity. Qed.

  Lemma aget_aset_other : forall k k' v (l : list (K * A)), k' <> k -> aget eqb k' (aset eqb k v l) = aget eqb k' l.
  Proof.
    intros k k' v l H. unfold aset. cbn. destruct (eqb k k') eqn:E.
    - apply eqb_eq in E. congruence.
    - apply aget_adel_other. exact H.
  Qed.

  Lemma aget_aset : forall k k' v (l : list (K * A)),
    aget eqb k' (aset eqb k v l) = if eqb k k' then Some v else aget eqb k' l.
  Proof.
    intros. destruct (eqb k k') eqn:E.
    - apply eqb_eq in E. subst. apply aget_aset_same.
    - apply aget_aset_other. apply eqb_neq' in E. congruence.
  Qed.

  Lemma aget_app : forall k (l1 l2 : list (K * A)),
    aget eqb k (l1 ++ l2) = match aget eqb k l1 with Some v => Some v | None => aget eqb k l2 end.
  Proof.
    induction l1 as [|p l1 IH]; cbn; intros; [reflexivity|].
    destruct (eqb (fst p) k); [reflexivity|apply IH].
  Qed.
End AssocLemmas.

Definition sget_In {A} := @aget_In str A str_eqb str_eqb_eq.
Definition zget_In {A} := @aget_In Z A Z.eqb Z.eqb_eq.

(* insertion sort keeps the elements *)
Lemma insert_by_In : forall {A} (ltb : A -> A -> bool) x y l, In y (insert_by ltb x l) <-> y = x \/ In y l.
Proof.
  intros A ltb x y. induction l as [|z l IH]; cbn.
  - intuition.
  - destruct (ltb x z); cbn; [intuition|]. rewrite IH. intuition.
Qed.

Lemma sort_by_In : forall {A} (ltb : A -> A -> bool) y l, In y (sort_by ltb l) <-> In y l.
Proof.
  intros A ltb y. induction l as [|x l IH]; cbn; [reflexivity|].
  rewrite insert_by_In. rewrite IH. intuition.
Qed.

(* ------------------------------------------------------------------------------------------------ *)
(* cell-wise maps over a document: the relation between the engine's document and the replayed one *)

Definition map_ccells (g : Z -> V -> V) (co : col) : col :=
  mkCol (c_type co) (map (fun x => (fst x, g (fst x) (snd x))) (c_cells co)).
Definition map_tcells (g : str -> Z -> V -> V) (tb : table) : table :=
  mkTable (t_rows tb) (map (fun q => (fst q, map_ccells (g (fst q)) (snd q))) (t_cols tb)).
Definition map_cells (f : str -> str -> Z -> V -> V) (d : doc) : doc :=
  map (fun p => (fst p, map_tcells (f (fst p)) (snd p))) d.

Definition TCell (tb : table) (c : str) (r : Z) (v : V) : Prop :=
  exists co, In (c, co) (t_cols tb) /\ In (r, v) (c_cells co).
Definition InCell (d : doc) (t c : str) (r : Z) (v : V) : Prop :=
  exists tb, In (t, tb) d /\ TCell tb c r v.
Definition InRow (d : doc) (t : str) (r : Z) : Prop :=
  exists tb, In (t, tb) d /\ In r (t_rows tb).

Lemma map_ccells_ext : forall g g' co,
  (forall r v, In (r, v) (c_cells co) -> g r v = g' r v) -> map_ccells g co = map_ccells g' co.
Proof.
  intros g g' co H. unfold map_ccells. f_equal. apply map_ext_in. intros [r v] Hin. cbn. f_equal. apply H. exact Hin.
Qed.

Lemma map_tcells_ext : forall g g' tb,
  (forall c r v, TCell tb c r v -> g c r v = g' c r v) -> map_tcells g tb = map_tcells g' tb.
Proof.
  intros g g' tb H. unfold map_tcells. f_equal. apply map_ext_in. intros [c co] Hin. cbn. f_equal.
  apply map_ccells_ext. intros r v Hrv. apply H. exists co. split; assumption.
Qed.

Lemma map_cells_ext_in : forall f f' d,
  (forall t c r v, InCell d t c r v -> f t c r v = f' t c r v) -> map_cells f d = map_cells f' d.
Proof.
  intros f f' d H. unfold map_cells. apply map_ext_in. intros [t tb] Hin. cbn. f_equal.
  apply map_tcells_ext. intros c r v Hc. apply H. exists tb. split; assumption.
Qed.

Lemma map_ccells_id : forall g co, (forall r v, In (r, v) (c_cells co) -> g r v = v) -> map_ccells g co = co.
Proof.
  intros g co H. unfold map_ccells. destruct co as [ty cells]. cbn in *. f_equal.
  rewrite <- (map_id cells) at 2. apply map_ext_in. intros [r v] Hin. cbn. f_equal. apply H. exact Hin.
Qed.

Lemma map_tcells_id : forall g tb, (forall c r v, TCell tb c r v -> g c r v = v) -> map_tcells g tb = tb.
Proof.
  intros g tb H. unfold map_tcells. destruct tb as [rows cols]. cbn in *. f_equal.
  rewrite <- (map_id cols) at 2. apply map_ext_in. intros [c co] Hin. cbn. f_equal.
  apply map_ccells_id. intros r v Hrv. apply H. exists co. split; assumption.
Qed.

Lemma map_cells_id : forall f d, (forall t c r v, InCell d t c r v -> f t c r v = v) -> map_cells f d = d.
Proof.
  intros f d H. unfold map_cells. rewrite <- (map_id d) at 2. apply map_ext_in. intros [t tb] Hin. cbn. f_equal.
  apply map_tcells_id. intros c r v Hc. apply H. exists tb. split; assumption.
Qed.

Lemma map_ccells_fuse : forall g h co, map_ccells g (map_ccells h co) = map_ccells (fun r v => g r (h r v)) co.
Proof. intros. unfold map_ccells. cbn. f_equal. rewrite map_map. reflexivity. Qed.

Lemma map_tcells_fuse : forall g h tb,
  map_tcells g (map_tcells h tb) = map_tcells (fun c r v => g c r (h c r v)) tb.
Proof.
  intros. unfold map_tcells. cbn. f_equal. rewrite map_map. apply map_ext. intros [c co]. cbn. f_equal.
  apply map_ccells_fuse.
Qed.

Lemma map_cells_fuse : forall f h d,
  map_cells f (map_cells h d) = map_cells (fun t c r v => f t c r (h t c r v)) d.
Proof.
  intros. unfold map_cells. rewrite map_map. apply map_ext. intros [t tb]. cbn. f_equal. apply map_tcells_fuse.
Qed.

(* observations are preserved *)
Lemma map_cells_fst : forall f d, map fst (map_cells f d) = map fst d.
Proof. intros. unfold map_cells. rewrite map_map. reflexivity. Qed.

Lemma aget_map_cells : forall f t d,
  aget str_eqb t (map_cells f d) = option_map (map_tcells (f t)) (aget str_eqb t d).
Proof.
  intros f t. induction d as [|p d IH]; cbn; [reflexivity|].
  destruct (str_eqb (fst p) t) eqn:E; [|exact IH]. apply str_eqb_eq in E. subst. reflexivity.
Qed.

Lemma amem_map_cells : forall f t d, amem str_eqb t (map_cells f d) = amem str_eqb t d.
Proof. intros. unfold amem. rewrite aget_map_cells. destruct (aget str_eqb t d); reflexivity. Qed.

Lemma rows_of_map_cells : forall f t d, rows_of t (map_cells f d) = rows_of t d.
Proof. intros. unfold rows_of. rewrite aget_map_cells. destruct (aget str_eqb t d); reflexivity. Qed.

Lemma map_tcells_cols_fst : forall g tb, map fst (t_cols (map_tcells g tb)) = map fst (t_cols tb).
Proof. intros. unfold map_tcells. cbn. rewrite map_map. reflexivity. Qed.

Lemma amem_map_tcells : forall g c tb, amem str_eqb c (t_cols (map_tcells g tb)) = amem str_eqb c (t_cols tb).
Proof.
  intros. destruct (amem str_eqb c (t_cols tb)) eqn:E.
  - apply (amem_In str_eqb str_eqb_eq). rewrite map_tcells_cols_fst. apply (amem_In str_eqb str_eqb_eq). exact E.
  - apply (amem_false str_eqb str_eqb_eq). rewrite map_tcells_cols_fst. apply (amem_false str_eqb str_eqb_eq). exact E.
Qed.

Lemma has_col_map_cells : forall f t c d, has_col t c (map_cells f d) = has_col t c d.
Proof.
  intros. unfold has_col. rewrite aget_map_cells. destruct (aget str_eqb t d); cbn; [|reflexivity].
  apply amem_map_tcells.
Qed.

Lemma InRow_map_cells : forall f d t r, InRow (map_cells f d) t r <-> InRow d t r.
Proof.
  intros f d t r. unfold InRow, map_cells. split.
  - intros [tb [Hin Hr]]. apply in_map_iff in Hin. destruct Hin as [[t' tb'] [E Hin]]. cbn in E. inversion E; subst.
    exists tb'. split; [exact Hin|exact Hr].
  - intros [tb [Hin Hr]]. exists (map_tcells (f t) tb). split; [|exact Hr].
    apply in_map_iff. exists (t, tb). split; [reflexivity|exact Hin].
Qed.

(* upd_table against map_cells *)
Lemma upd_table_map_cells : forall t F f d,
  (forall tb, In (t, tb) d -> F (map_tcells (f t) tb) = map_tcells (f t) (F tb)) ->
  upd_table t F (map_cells f d) = map_cells f (upd_table t F d).
Proof.
  intros t F f d H. unfold upd_table, map_cells. rewrite !map_map. apply map_ext_in. intros [t2 tb] Hin. cbn.
  destruct (str_eqb t2 t) eqn:E; cbn; [|reflexivity]. apply str_eqb_eq in E. subst. f_equal. apply H. exact Hin.
Qed.

Lemma upd_table_ext_in : forall t F G d,
  (forall tb, In (t, tb) d -> F tb = G tb) -> upd_table t F d = upd_table t G d.
Proof.
  intros t F G d H. unfold upd_table. apply map_ext_in. intros [t2 tb] Hin. cbn.
  destruct (str_eqb t2 t) eqn:E; [|reflexivity]. apply str_eqb_eq in E. subst. f_equal. apply H. exact Hin.
Qed.

Lemma upd_table_fst : forall t F d, map fst (upd_table t F d) = map fst d.
Proof.
  intros. unfold upd_table. rewrite map_map. apply map_ext. intros [t2 tb]. cbn. destruct (str_eqb t2 t); reflexivity.
Qed.

Lemma In_upd_table : forall t F d t2 tb2,
  In (t2, tb2) (upd_table t F d) <->
  (t2 <> t /\ In (t2, tb2) d) \/ (t2 = t /\ exists tb, In (t, tb) d /\ tb2 = F tb).
Proof.
  intros t F d t2 tb2. unfold upd_table. rewrite in_map_iff. split.
  - intros [[t3 tb3] [E Hin]]. cbn in E. destruct (str_eqb t3 t) eqn:E3.
    + apply str_eqb_eq in E3. subst t3. inversion E; subst. right. split; [reflexivity|]. exists tb3. split; [exact Hin|reflexivity].
    + apply str_eqb_neq in E3. inversion E; subst. left. split; assumption.
  - intros [[Hne Hin]|[E [tb [Hin E2]]]].
    + exists (t2, tb2). cbn. apply str_eqb_neq in Hne. rewrite Hne. split; [reflexivity|exact Hin].
    + subst. exists (t, tb). cbn. rewrite str_eqb_refl. split; [reflexivity|exact Hin].
Qed.

(* ------------------------------------------------------------------------------------------------ *)
(* the table transformers of the interpreters: commutation with cell maps, and what cells they leave *)

Lemma filter_map_fst : forall {A B} (p : A -> bool) (h : A * B -> A * B) (l : list (A * B)),
  (forall x, fst (h x) = fst x) ->
  filter (fun q => p (fst q)) (map h l) = map h (filter (fun q => p (fst q)) l).
Proof.
  intros A B p h l Hh. induction l as [|x l IH]; cbn; [reflexivity|].
  rewrite Hh. destruct (p (fst x)); cbn; [f_equal|]; exact IH.
Qed.

Lemma in_combine_fst : forall {A B} (l : list A) (l' : list B) x y, In (x, y) (combine l l') -> In x l.
Proof. intros. eapply in_combine_l. eassumption. Qed.

Lemma zget_last_In : forall {A} r (ups : list (Z * A)) v, zget_last r ups = Some v -> In (r, v) ups.
Proof.
  intros A r ups v H. unfold zget_last in H. apply (aget_In Z.eqb Z.eqb_eq) in H. apply in_rev. exact H.
Qed.

Lemma zget_last_None : forall {A} r (ups : list (Z * A)), zget_last r ups = None <-> ~ In r (map fst ups).
Proof.
  intros A r ups. unfold zget_last. rewrite (aget_None Z.eqb Z.eqb_eq). rewrite map_rev. rewrite <- in_rev. reflexivity.
Qed.

Section Transformers.
  Variable td : str -> V.

  (* --- add rows (TableDataSet form) *)
  Lemma tds_add_rows_comm : forall g rs cols tb,
    (forall c r v, In r rs -> g c r v = v) ->
    tds_add_rows td rs cols (map_tcells g tb) = map_tcells g (tds_add_rows td rs cols tb).
  Proof.
    intros g rs cols tb H. unfold tds_add_rows, map_tcells. cbn. f_equal. rewrite !map_map.
    apply map_ext. intros [c co]. cbn. f_equal. unfold map_ccells. cbn. f_equal. rewrite map_app. f_equal.
    symmetry. rewrite <- (map_id (match aget str_eqb c cols with Some vs => combine rs vs | None => _ end)) at 2.
    apply map_ext_in. intros [r v] Hin. cbn. f_equal. apply H.
    destruct (aget str_eqb c cols).
    - eapply in_combine_fst. exact Hin.
    - apply in_map_iff in Hin. destruct Hin as [r' [E Hr]]. inversion E; subst. exact Hr.
  Qed.

  Lemma tds_add_rows_cell : forall rs cols tb c r v,
    TCell (tds_add_rows td rs cols tb) c r v -> TCell tb c r v \/ In r rs.
  Proof.
    intros rs cols tb c r v [co [Hc Hr]]. unfold tds_add_rows in Hc. cbn in Hc.
    apply in_map_iff in Hc. destruct Hc as [[c0 co0] [E Hc]]. cbn in E. inversion E; subst. cbn in Hr.
    apply in_app_or in Hr. destruct Hr as [Hr|Hr].
    - left. exists co0. split; assumption.
    - right. destruct (aget str_eqb c cols).
      + eapply in_combine_fst. exact Hr.
      + apply in_map_iff in Hr. destruct Hr as [r' [E' Hr]]. inversion E'; subst. exact Hr.
  Qed.

  Lemma tds_add_rows_colnames : forall rs cols tb,
    map fst (t_cols (tds_add_rows td rs cols tb)) = map fst (t_cols tb).
  Proof. intros. unfold tds_add_rows. cbn. rewrite map_map. reflexivity. Qed.

  (* --- remove rows *)
  Lemma tb_remove_rows_comm : forall g rs tb,
    tb_remove_rows rs (map_tcells g tb) = map_tcells g (tb_remove_rows rs tb).
  Proof.
    intros g rs tb. unfold tb_remove_rows, map_tcells. cbn. f_equal. rewrite !map_map.
    apply map_ext. intros [c co]. cbn. f_equal. unfold map_ccells. cbn. f_equal.
    apply (filter_map_fst (fun r => negb (zmem r rs))). intros x. reflexivity.
  Qed.

  Lemma tb_remove_rows_cell : forall rs tb c r v,
    TCell (tb_remove_rows rs tb) c r v <-> TCell tb c r v /\ ~ In r rs.
  Proof.
    intros rs tb c r v. unfold TCell, tb_remove_rows. cbn. split.
    - intros [co [Hc Hr]]. apply in_map_iff in Hc. destruct Hc as [[c0 co0] [E Hc]]. cbn in E. inversion E; subst.
      cbn in Hr. apply filter_In in Hr. destruct Hr as [Hr Hn]. cbn in Hn. apply negb_true_iff in Hn.
      apply zmem_false in Hn. split; [|exact Hn]. exists co0. split; assumption.
    - intros [[co [Hc Hr]] Hn].
      exists (mkCol (c_type co) (filter (fun q => negb (zmem (fst q) rs)) (c_cells co))). split.
      + apply in_map_iff. exists (c, co). split; [reflexivity|exact Hc].
      + cbn. apply filter_In. split; [exact Hr|]. cbn. apply negb_true_iff. apply zmem_false. exact Hn.
  Qed.

  Lemma tb_remove_rows_rows : forall rs tb r, In r (t_rows (tb_remove_rows rs tb)) <-> In r (t_rows tb) /\ ~ In r rs.
  Proof.
    intros. unfold tb_remove_rows. cbn. rewrite filter_In. rewrite negb_true_iff. rewrite zmem_false. reflexivity.
  Qed.

  Lemma tb_remove_rows_colnames : forall rs tb, map fst (t_cols (tb_remove_rows rs tb)) = map fst (t_cols tb).
  Proof. intros. unfold tb_remove_rows. cbn. rewrite map_map. reflexivity. Qed.

  (* --- set cells of one column *)
  Lemma set_cells_comm : forall (g : Z -> V -> V) ups co,
    (forall r v, In r (map fst ups) -> g r v = v) ->
    set_cells ups (map_ccells g co) = map_ccells g (set_cells ups co).
  Proof.
    intros g ups co H. unfold set_cells, map_ccells. cbn. f_equal. rewrite !map_map. apply map_ext.
    intros [r v]. cbn. f_equal. destruct (zget_last r ups) eqn:E; [|reflexivity].
    symmetry. apply H. apply zget_last_In in E. apply in_map_iff. exists (r, v0). split; [reflexivity|exact E].
  Qed.

  Lemma upd_col_comm : forall g c F tb,
    (forall co, F (map_ccells (g c) co) = map_ccells (g c) (F co)) ->
    upd_col c F (map_tcells g tb) = map_tcells g (upd_col c F tb).
  Proof.
    intros g c F tb H. unfold upd_col, map_tcells. cbn. f_equal. rewrite !map_map. apply map_ext.
    intros [c2 co]. cbn. destruct (str_eqb c2 c) eqn:E; cbn; [|reflexivity].
    apply str_eqb_eq in E. subst. f_equal. apply H.
  Qed.

  Lemma upd_col_cell : forall c F tb c2 r v,
    TCell (upd_col c F tb) c2 r v <->
    (c2 <> c /\ TCell tb c2 r v) \/ (c2 = c /\ exists co, In (c, co) (t_cols tb) /\ In (r, v) (c_cells (F co))).
  Proof.
    intros c F tb c2 r v. unfold TCell, upd_col. cbn. split.
    - intros [co [Hc Hr]]. apply in_map_iff in Hc. destruct Hc as [[c0 co0] [E Hc]]. cbn in E.
      destruct (str_eqb c0 c) eqn:E0.
      + apply str_eqb_eq in E0. subst c0. inversion E; subst. right. split; [reflexivity|].
        exists co0. split; assumption.
      + apply str_eqb_neq in E0. inversion E; subst. left. split; [exact E0|]. exists co. split; assumption.
    - intros [[Hne [co [Hc Hr]]]|[E [co [Hc Hr]]]].
      + exists co. split; [|exact Hr]. apply in_map_iff. exists (c2, co). cbn. apply str_eqb_neq in Hne. rewrite Hne.
        split; [reflexivity|exact Hc].
      + subst. exists (F co). split; [|exact Hr]. apply in_map_iff. exists (c, co). cbn. rewrite str_eqb_refl.
        split; [reflexivity|exact Hc].
  Qed.

  Lemma upd_col_colnames : forall c F tb, map fst (t_cols (upd_col c F tb)) = map fst (t_cols tb).
  Proof.
    intros. unfold upd_col. cbn. rewrite map_map. apply map_ext. intros [c2 co]. cbn. destruct (str_eqb c2 c); reflexivity.
  Qed.

  Lemma set_cells_In : forall ups co r v,
    In (r, v) (c_cells (set_cells ups co)) ->
    (In (r, v) ups) \/ (In (r, v) (c_cells co) /\ ~ In r (map fst ups)).
  Proof.
    intros ups co r v H. unfold set_cells in H. cbn in H. apply in_map_iff in H. destruct H as [[r0 v0] [E Hin]].
    cbn in E. destruct (zget_last r0 ups) eqn:E1; inversion E; subst.
    - left. apply zget_last_In. exact E1.
    - right. split; [exact Hin|]. apply zget_last_None. exact E1.
  Qed.

  (* --- BulkUpdateRecord *)
  Lemma tb_update_comm : forall g rs cols tb,
    (forall c vs r v, In (c, vs) cols -> In r rs -> g c r v = v) ->
    tb_update rs cols (map_tcells g tb) = map_tcells g (tb_update rs cols tb).
  Proof.
    intros g rs cols. unfold tb_update. induction cols as [|[c vs] cols IH]; intros tb H; cbn; [reflexivity|].
    rewrite upd_col_comm.
    - apply IH. intros c' vs' r v Hin Hr. apply (H c' vs' r v); [right; exact Hin|exact Hr].
    - intro co. apply set_cells_comm. intros r v Hr. apply (H c vs r v); [left; reflexivity|].
      apply in_map_iff in Hr. destruct Hr as [[r' v'] [E Hr]]. cbn in E. subst. eapply in_combine_fst. exact Hr.
  Qed.

  Lemma tb_update_rows : forall rs cols tb, t_rows (tb_update rs cols tb) = t_rows tb.
  Proof.
    intros rs cols. unfold tb_update. induction cols as [|[c vs] cols IH]; intros tb; cbn; [reflexivity|].
    rewrite IH. reflexivity.
  Qed.

  Lemma tb_update_colnames : forall rs cols tb, map fst (t_cols (tb_update rs cols tb)) = map fst (t_cols tb).
  Proof.
    intros rs cols. unfold tb_update. induction cols as [|[c vs] cols IH]; intros tb; cbn; [reflexivity|].
    rewrite IH. apply upd_col_colnames.
  Qed.

  Lemma tb_update_cell : forall rs cols tb c r v,
    TCell (tb_update rs cols tb) c r v ->
    TCell tb c r v \/ (In c (map fst cols) /\ In r rs /\ exists v0, TCell tb c r v0).
  Proof.
    intros rs cols. unfold tb_update. induction cols as [|[c0 vs] cols IH]; intros tb c r v H; cbn in *; [left; exact H|].
    apply IH in H. clear IH.
    assert (Hstep : forall v1, TCell (upd_col c0 (set_cells (combine rs vs)) tb) c r v1 ->
                     TCell tb c r v1 \/ (c = c0 /\ In r rs /\ exists v0, TCell tb c r v0)).
    { intros v1 H1. apply upd_col_cell in H1. destruct H1 as [[Hne H1]|[E [co [Hc Hr]]]].
      - left. exact H1.
      - subst. unfold set_cells in Hr. cbn in Hr. apply in_map_iff in Hr. destruct Hr as [[r0 v0] [E Hin]].
        cbn in E. destruct (zget_last r0 (combine rs vs)) eqn:E1; inversion E; subst.
        + right. split; [reflexivity|]. split.
          * apply zget_last_In in E1. eapply in_combine_fst. exact E1.
          * exists v0. exists co. split; assumption.
        + left. exists co. split; assumption. }
    destruct H as [H|[Hc [Hr [v0 H]]]].
    - apply Hstep in H. destruct H as [H|[E [Hr Hv]]]; [left; exact H|]. right. split; [left; symmetry; exact E|]. split; assumption.
    - right. split; [right; exact Hc|]. split; [exact Hr|].
      apply Hstep in H. destruct H as [H|[_ [_ Hv]]]; [exists v0; exact H|exact Hv].
  Qed.

  (* --- clear *)
  Lemma tb_clear_map : forall g tb, tb_clear (map_tcells g tb) = tb_clear tb.
  Proof. intros. unfold tb_clear, map_tcells. cbn. f_equal. rewrite map_map. reflexivity. Qed.

  Lemma map_tb_clear : forall g tb, map_tcells g (tb_clear tb) = tb_clear tb.
  Proof. intros. unfold tb_clear, map_tcells. cbn. f_equal. rewrite map_map. reflexivity. Qed.

  Lemma tb_clear_cell : forall tb c r v, ~ TCell (tb_clear tb) c r v.
  Proof.
    intros tb c r v [co [Hc Hr]]. unfold tb_clear in Hc. cbn in Hc. apply in_map_iff in Hc.
    destruct Hc as [[c0 co0] [E Hc]]. cbn in E. inversion E; subst. cbn in Hr. contradiction.
  Qed.

  Lemma tb_clear_colnames : forall tb, map fst (t_cols (tb_clear tb)) = map fst (t_cols tb).
  Proof. intros. unfold tb_clear. cbn. rewrite map_map. reflexivity. Qed.

  (* --- columns *)
  Lemma map_adel_cols : forall (g : str -> Z -> V -> V) c (cols : list (str * col)),
    adel str_eqb c (map (fun q => (fst q, map_ccells (g (fst q)) (snd q))) cols) =
    map (fun q => (fst q, map_ccells (g (fst q)) (snd q))) (adel str_eqb c cols).
  Proof.
    intros. unfold adel.
    apply (filter_map_fst (fun k => negb (str_eqb k c)) (fun q => (fst q, map_ccells (g (fst q)) (snd q)))).
    intro x. reflexivity.
  Qed.

  Lemma new_col_fixed : forall (g : Z -> V -> V) ty rows,
    (forall r v, g r v = v) -> map_ccells g (new_col td ty rows) = new_col td ty rows.
  Proof. intros g ty rows H. apply map_ccells_id. intros r v _. apply H. Qed.

  Lemma addcol_tds_comm : forall g c ty tb,
    (forall r v, g c r v = v) ->
    (fun tb => mkTable (t_rows tb) (adel str_eqb c (t_cols tb) ++ [(c, new_col td ty (t_rows tb))])) (map_tcells g tb)
    = map_tcells g (mkTable (t_rows tb) (adel str_eqb c (t_cols tb) ++ [(c, new_col td ty (t_rows tb))])).
  Proof.
    intros g c ty tb H. unfold map_tcells. cbn [t_rows t_cols]. f_equal. rewrite map_app. cbn [map fst snd].
    rewrite map_adel_cols. f_equal. f_equal. f_equal. symmetry. apply new_col_fixed. apply H.
  Qed.

  Lemma delcol_comm : forall g c tb,
    mkTable (t_rows (map_tcells g tb)) (adel str_eqb c (t_cols (map_tcells g tb)))
    = map_tcells g (mkTable (t_rows tb) (adel str_eqb c (t_cols tb))).
  Proof. intros. unfold map_tcells. cbn [t_rows t_cols]. f_equal. apply map_adel_cols. Qed.

  Lemma rename_key_cols_comm : forall (g g' : str -> Z -> V -> V) c c' tb,
    (forall r v, g' c' r v = g c r v) ->
    (forall c2 r v, c2 <> c' -> c2 <> c -> g' c2 r v = g c2 r v) ->
    mkTable (t_rows (map_tcells g tb)) (rename_key c c' (t_cols (map_tcells g tb)))
    = map_tcells g' (mkTable (t_rows tb) (rename_key c c' (t_cols tb))).
  Proof.
    intros g g' c c' tb H1 H2. unfold map_tcells, rename_key. cbn [t_rows t_cols]. f_equal. rewrite map_adel_cols.
    rewrite !map_map.
    apply map_ext_in. intros [c2 co] Hin. cbn. apply (adel_In str_eqb str_eqb_eq) in Hin. destruct Hin as [_ Hne]. cbn in Hne.
    destruct (str_eqb c2 c) eqn:E; cbn.
    - apply str_eqb_eq in E. subst. f_equal. apply map_ccells_ext. intros r v _. symmetry. apply H1.
    - apply str_eqb_neq in E. f_equal. apply map_ccells_ext. intros r v _. symmetry. apply H2; assumption.
  Qed.

  Lemma set_type_comm : forall (g : Z -> V -> V) ty co, set_type ty (map_ccells g co) = map_ccells g (set_type ty co).
  Proof. intros. destruct ty; reflexivity. Qed.

  Lemma rename_key_In : forall {A} c c' (l : list (str * A)) k x,
    In (k, x) (rename_key c c' l) <-> (k = c' /\ In (c, x) l /\ c <> c') \/ (k <> c' /\ k <> c /\ In (k, x) l).
  Proof.
    intros A c c' l k x. unfold rename_key. rewrite in_map_iff. split.
    - intros [[k0 x0] [E Hin]]. apply (adel_In str_eqb str_eqb_eq) in Hin. destruct Hin as [Hin Hne]. cbn in *.
      destruct (str_eqb k0 c) eqn:E0.
      + apply str_eqb_eq in E0. subst k0. inversion E; subst. left. split; [reflexivity|]. split; assumption.
      + apply str_eqb_neq in E0. inversion E; subst. right. split; [exact Hne|]. split; assumption.
    - intros [[E [Hin Hne]]|[H1 [H2 Hin]]].
      + subst. exists (c, x). cbn. rewrite str_eqb_refl. split; [reflexivity|].
        apply (adel_In str_eqb str_eqb_eq). split; assumption.
      + exists (k, x). cbn. apply str_eqb_neq in H2. rewrite H2. split; [reflexivity|].
        apply (adel_In str_eqb str_eqb_eq). split; assumption.
  Qed.
End Transformers.

(* ------------------------------------------------------------------------------------------------ *)
(* well-formed documents *)

Definition wf_table (tb : table) : Prop :=
  forall c co, In (c, co) (t_cols tb) ->
    is_defunct c = false /\ forall r v, In (r, v) (c_cells co) -> In r (t_rows tb).
Definition wf_doc (d : doc) : Prop :=
  NoDup (map fst d) /\ forall t tb, In (t, tb) d -> is_defunct t = false /\ wf_table tb.

Lemma wf_table_b_ok : forall tb, wf_table_b tb = true -> wf_table tb.
Proof.
  intros tb H c co Hin. unfold wf_table_b in H. rewrite forallb_forall in H. specialize (H _ Hin). cbn in H.
  apply andb_true_iff in H. destruct H as [H1 H2]. apply negb_true_iff in H1. split; [exact H1|].
  intros r v Hrv. rewrite forallb_forall in H2. specialize (H2 _ Hrv). cbn in H2. apply zmem_In. exact H2.
Qed.

Lemma wf_doc_b_ok : forall d, wf_doc_b d = true -> wf_doc d.
Proof.
  intros d H. unfold wf_doc_b in H. apply andb_true_iff in H. destruct H as [H1 H2]. split.
  - apply nodupb_s. exact H1.
  - intros t tb Hin. rewrite forallb_forall in H2. specialize (H2 _ Hin). cbn in H2.
    apply andb_true_iff in H2. destruct H2 as [H2 H3]. apply negb_true_iff in H2. split; [exact H2|].
    apply wf_table_b_ok. exact H3.
Qed.

Lemma nodup_unique : forall (d : doc) t tb tb', NoDup (map fst d) -> In (t, tb) d -> In (t, tb') d -> tb = tb'.
Proof.
  intros d t tb tb' Hnd H1 H2.
  apply (aget_nodup str_eqb str_eqb_eq _ _ _ Hnd) in H1. apply (aget_nodup str_eqb str_eqb_eq _ _ _ Hnd) in H2.
  congruence.
Qed.

Lemma aget_unique : forall (d : doc) t tb tb', NoDup (map fst d) -> aget str_eqb t d = Some tb -> In (t, tb') d -> tb' = tb.
Proof.
  intros d t tb tb' Hnd H1 H2. apply sget_In in H1. eapply nodup_unique; eassumption.
Qed.

Lemma InRow_rows_of : forall d t r, NoDup (map fst d) -> (InRow d t r <-> In r (rows_of t d)).
Proof.
  intros d t r Hnd. unfold InRow, rows_of. split.
  - intros [tb [Hin Hr]]. rewrite (aget_nodup str_eqb str_eqb_eq _ _ _ Hnd Hin). exact Hr.
  - destruct (aget str_eqb t d) eqn:E; [|intros []]. intro Hr. exists t0. split; [apply sget_In; exact E|exact Hr].
Qed.

Lemma amem_tab : forall (d : doc) t, amem str_eqb t d = true <-> exists tb, In (t, tb) d.
Proof.
  intros d t. rewrite (amem_In str_eqb str_eqb_eq). rewrite in_map_iff. split.
  - intros [[t' tb] [E Hin]]. cbn in E. subst. exists tb. exact Hin.
  - intros [tb Hin]. exists (t, tb). split; [reflexivity|exact Hin].
Qed.

Lemma has_col_false : forall d t c tb,
  NoDup (map fst d) -> has_col t c d = false -> In (t, tb) d -> ~ In c (map fst (t_cols tb)).
Proof.
  intros d t c tb Hnd H Hin. unfold has_col in H. rewrite (aget_nodup str_eqb str_eqb_eq _ _ _ Hnd Hin) in H.
  apply (amem_false str_eqb str_eqb_eq). exact H.
Qed.

Lemma has_col_true : forall d t c tb,
  NoDup (map fst d) -> has_col t c d = true -> In (t, tb) d -> In c (map fst (t_cols tb)).
Proof.
  intros d t c tb Hnd H Hin. unfold has_col in H. rewrite (aget_nodup str_eqb str_eqb_eq _ _ _ Hnd Hin) in H.
  apply (amem_In str_eqb str_eqb_eq). exact H.
Qed.

(* ------------------------------------------------------------------------------------------------ *)
(* stage 1: on documents, DocActions and TableDataSet agree whenever DocActions succeeds *)

Lemma aget_rev_nodup : forall {A} k (l : list (Z * A)), NoDup (map fst l) -> aget Z.eqb k (rev l) = aget Z.eqb k l.
Proof.
  intros A k l Hnd. destruct (aget Z.eqb k (rev l)) eqn:E.
  - apply zget_In in E. apply in_rev in E. symmetry. apply (aget_nodup Z.eqb Z.eqb_eq); assumption.
  - apply (aget_None Z.eqb Z.eqb_eq) in E. symmetry. apply (aget_None Z.eqb Z.eqb_eq).
    intro H. apply E. rewrite map_rev. apply in_rev. rewrite rev_involutive. exact H.
Qed.

Lemma combine_fst_nodup : forall {A} (rs : list Z) (vs : list A), NoDup rs -> NoDup (map fst (combine rs vs)).
Proof.
  intros A rs. induction rs as [|r rs IH]; intros vs Hnd; cbn; [constructor|].
  destruct vs as [|v vs]; cbn; [constructor|]. inversion Hnd; subst. constructor.
  - intro H. apply in_map_iff in H. destruct H as [[r' v'] [E Hin]]. cbn in E. subst. apply in_combine_fst in Hin. contradiction.
  - apply IH. assumption.
Qed.

Lemma map_lookup_combine : forall (dflt : V) rs vs,
  NoDup rs -> length vs = length rs ->
  map (fun r => (r, match zget_last r (combine rs vs) with Some v => v | None => dflt end)) rs = combine rs vs.
Proof.
  intros dflt rs vs Hnd Hlen.
  assert (H : forall r, zget_last r (combine rs vs) = aget Z.eqb r (combine rs vs)).
  { intro r. unfold zget_last. apply aget_rev_nodup. apply combine_fst_nodup. exact Hnd. }
  erewrite map_ext; [|intro r; rewrite H; reflexivity]. clear H.
  revert vs Hlen. induction rs as [|r0 rs IH]; intros vs Hlen; [reflexivity|].
  destruct vs as [|v0 vs]; [discriminate|]. cbn in Hlen. inversion Hlen as [Hlen']. inversion Hnd; subst.
  cbn [map combine aget fst snd]. rewrite Z.eqb_refl. f_equal.
  transitivity (map (fun r => (r, match aget Z.eqb r (combine rs vs) with Some v => v | None => dflt end)) rs).
  - apply map_ext_in. intros r Hr.
    destruct (Z.eqb r0 r) eqn:E; [|reflexivity]. apply Z.eqb_eq in E. subst. contradiction.
  - apply IH; assumption.
Qed.

Lemma zdedup_nodup : forall l, NoDup l -> zdedup l = l.
Proof.
  induction l as [|x l IH]; intro H; [reflexivity|]. inversion H; subst. cbn. f_equal. rewrite IH by assumption.
  rewrite <- (filter_ext_in (fun _ => true)).
  - clear. induction l; cbn; [reflexivity|f_equal; assumption].
  - intros y Hy. symmetry. apply negb_true_iff. apply Z.eqb_neq. intro E. subst. contradiction.
Qed.

Lemma eff_rows_fresh : forall rs, rows_fresh rs = true -> eff_rows rs = rs.
Proof.
  intros rs H. unfold rows_fresh in H. apply andb_true_iff in H. destruct H as [H1 H2]. unfold eff_rows.
  assert (E : filter (fun r => 0 <? r) rs = rs).
  { clear H2. induction rs as [|r rs IH]; [reflexivity|]. cbn in *. apply andb_true_iff in H1. destruct H1 as [Hr H1].
    rewrite Hr. f_equal. apply IH. exact H1. }
  rewrite E. apply zdedup_nodup. apply nodupb_z. exact H2.
Qed.

Lemma colvals_ok_len : forall rs cols c vs,
  colvals_ok rs cols = true -> aget str_eqb c cols = Some vs -> length vs = length rs.
Proof.
  intros rs cols c vs H Hc. unfold colvals_ok in H. apply andb_true_iff in H. destruct H as [H _].
  rewrite forallb_forall in H. apply sget_In in Hc. specialize (H _ Hc). cbn in H. apply Nat.eqb_eq in H. exact H.
Qed.

Section Agreement.
  Variable td : str -> V.

  Lemma eng_add_rows_tds : forall rs cols tb,
    rows_fresh rs = true -> colvals_ok rs cols = true -> eng_add_rows td rs cols tb = tds_add_rows td rs cols tb.
  Proof.
    intros rs cols tb Hf Hok. unfold eng_add_rows, tds_add_rows. rewrite (eff_rows_fresh _ Hf). f_equal.
    apply map_ext. intros [c co]. cbn. f_equal. f_equal. f_equal.
    destruct (aget str_eqb c cols) eqn:E; [|reflexivity].
    apply map_lookup_combine.
    - unfold rows_fresh in Hf. apply andb_true_iff in Hf. apply nodupb_z. apply Hf.
    - eapply colvals_ok_len; eassumption.
  Qed.

  (* the hypotheses under which the two interpreters are compared: the part of SC1 that concerns row ids *)
  Definition rows_cond (a : action) : bool :=
    match a with
    | BulkAddRecord _ rs _ | ReplaceTableData _ rs _ => rows_fresh rs
    | _ => true
    end.

  Lemma eng_tds_bulk : forall a d d',
    NoDup (map fst d) -> action_ok a = true -> bulk_of a = a -> rows_cond a = true ->
    eng_bulk td a d = Ok d' -> tds_bulk td a d = Ok d'.
  Proof.
    intros a d d' Hnd Hok Hb Hrc H. destruct a; cbn in Hb; try discriminate; cbn [eng_bulk tds_bulk] in *.
    - (* BulkAddRecord *)
      destruct (amem str_eqb t d) eqn:Et; cbn in H; [|discriminate].
      destruct (existsb _ rs); [discriminate|]. destruct (forallb _ cols); cbn in H; [|discriminate].
      destruct (existsb (fun r => r <? 0) rs); [discriminate|]. inversion H; subst. f_equal.
      apply upd_table_ext_in. intros tb _. symmetry. apply eng_add_rows_tds; assumption.
    - (* BulkRemoveRecord *) exact H.
    - (* BulkUpdateRecord *)
      destruct (amem str_eqb t d) eqn:Et; cbn in H; [|discriminate].
      destruct (forallb (fun r => zmem r (rows_of t d)) rs) eqn:Er; cbn in H; [|discriminate].
      destruct (forallb _ cols); cbn in H; [|discriminate]. exact H.
    - (* ReplaceTableData *)
      destruct (amem str_eqb t d) eqn:Et; cbn in H; [|discriminate].
      destruct (existsb (fun r => r <? 0) rs); [discriminate|]. inversion H; subst. f_equal.
      apply upd_table_ext_in. intros tb _. symmetry. apply eng_add_rows_tds; assumption.
    - (* AddColumn *)
      destruct ty as [ty|]; [|discriminate].
      destruct (amem str_eqb t d) eqn:Et; cbn in H; [|discriminate].
      destruct (has_col t c d) eqn:Ec; [discriminate|]. inversion H; subst. f_equal.
      apply upd_table_ext_in. intros tb Hin. f_equal. f_equal.
      apply (adel_notin str_eqb str_eqb_eq). eapply has_col_false; eassumption.
    - (* RemoveColumn *)
      destruct (amem str_eqb t d) eqn:Et; cbn in H; [|discriminate].
      destruct (has_col t c d) eqn:Ec; cbn in H; [|discriminate]. exact H.
    - (* RenameColumn *)
      destruct (amem str_eqb t d) eqn:Et; cbn in H; [|discriminate].
      destruct (has_col t c d) eqn:Ec; cbn in H; [|discriminate].
      destruct (has_col t c' d) eqn:Ec'; [discriminate|]. inversion H; subst. f_equal.
      destruct (str_eqb c c') eqn:E; [apply str_eqb_eq in E; subst; congruence|].
      apply upd_table_ext_in. intros tb Hin. f_equal. unfold rename_key.
      rewrite (adel_notin str_eqb str_eqb_eq); [reflexivity|]. eapply has_col_false; eassumption.
    - (* ModifyColumn *)
      destruct (amem str_eqb t d) eqn:Et; cbn in H; [|discriminate].
      destruct (has_col t c d) eqn:Ec; cbn in H; [|discriminate]. exact H.
    - (* AddTable *)
      destruct (amem str_eqb t d) eqn:Et; [discriminate|]. inversion H; subst. f_equal. f_equal.
      apply (adel_notin str_eqb str_eqb_eq). apply (amem_false str_eqb str_eqb_eq). exact Et.
    - (* RemoveTable *)
      destruct (amem str_eqb t d) eqn:Et; [exact H|discriminate].
    - (* RenameTable *)
      destruct (amem str_eqb t d) eqn:Et; cbn in H; [|discriminate].
      destruct (amem str_eqb t' d) eqn:Et'; [discriminate|]. inversion H; subst. f_equal.
      destruct (str_eqb t t') eqn:E; [apply str_eqb_eq in E; subst; congruence|].
      unfold rename_key. rewrite (adel_notin str_eqb str_eqb_eq); [reflexivity|].
      apply (amem_false str_eqb str_eqb_eq). exact Et'.
  Qed.

  Lemma bulk_of_idem : forall a, bulk_of (bulk_of a) = bulk_of a.
  Proof. destruct a; reflexivity. Qed.

  Lemma action_ok_bulk : forall a, action_ok (bulk_of a) = action_ok a.
  Proof. intro a. unfold action_ok. rewrite bulk_of_idem. reflexivity. Qed.

  Lemma eng_tds_apply : forall a d d',
    NoDup (map fst d) -> rows_cond (bulk_of a) = true -> eng_apply td a d = Ok d' -> tds_apply td a d = Ok d'.
  Proof.
    intros a d d' Hnd Hrc H. unfold eng_apply, tds_apply in *. destruct (action_ok a) eqn:Hok; [|discriminate].
    apply eng_tds_bulk; try assumption.
    - rewrite action_ok_bulk. exact Hok.
    - apply bulk_of_idem.
  Qed.
End Agreement.

(* ------------------------------------------------------------------------------------------------ *)
(* the summary: pending deltas and presence flags after each operation *)

Definition pa_get (S : summary) (t : str) (r : Z) : option bool :=
  match aget str_eqb t (sm_tables S) with Some td => aget Z.eqb r (td_pa td) | None => None end.

(* the engine's value of a cell, given the replayed one: the `after` of its pending delta, if any *)
Definition ov (S : summary) (t c : str) (r : Z) (v : V) : V :=
  match sdelta S t c r with Some p => snd p | None => v end.

Definition dl_get (deltas : list (str * rowdeltas)) (c : str) (r : Z) : option (V * V) :=
  match aget str_eqb c deltas with Some dl => aget Z.eqb r dl | None => None end.

Lemma sdelta_dl : forall S t c r,
  sdelta S t c r = match aget str_eqb t (sm_tables S) with Some td => dl_get (td_deltas td) c r | None => None end.
Proof. reflexivity. Qed.

Lemma sdelta_for_table : forall S t c r, dl_get (td_deltas (for_table t S)) c r = sdelta S t c r.
Proof. intros. unfold for_table. rewrite sdelta_dl. destruct (aget str_eqb t (sm_tables S)); reflexivity. Qed.

Lemma pa_for_table : forall S t r, aget Z.eqb r (td_pa (for_table t S)) = pa_get S t r.
Proof. intros. unfold for_table, pa_get. destruct (aget str_eqb t (sm_tables S)); reflexivity. Qed.

Lemma sdelta_set_table : forall S t td' t2 c r,
  sdelta (set_table t td' S) t2 c r = if str_eqb t t2 then dl_get (td_deltas td') c r else sdelta S t2 c r.
Proof.
  intros. rewrite !sdelta_dl. unfold set_table. cbn [sm_tables]. rewrite (aget_aset str_eqb str_eqb_eq).
  destruct (str_eqb t t2); reflexivity.
Qed.

Lemma pa_get_set_table : forall S t td' t2 r,
  pa_get (set_table t td' S) t2 r = if str_eqb t t2 then aget Z.eqb r (td_pa td') else pa_get S t2 r.
Proof.
  intros. unfold pa_get, set_table. cbn [sm_tables]. rewrite (aget_aset str_eqb str_eqb_eq).
  destruct (str_eqb t t2); reflexivity.
Qed.

Lemma fold_aset_get : forall (b : bool) rs m0 r,
  aget Z.eqb r (fold_left (fun m x => aset Z.eqb x b m) rs m0) = if zmem r rs then Some b else aget Z.eqb r m0.
Proof.
  intros b rs. induction rs as [|x rs IH]; intros m0 r; cbn [fold_left]; [reflexivity|].
  rewrite IH. unfold zmem. cbn [existsb]. fold (zmem r rs). destruct (zmem r rs); [rewrite orb_true_r; reflexivity|].
  rewrite orb_false_r. rewrite (aget_aset Z.eqb Z.eqb_eq). rewrite Z.eqb_sym. reflexivity.
Qed.

(* add_records / remove_records *)
Lemma sdelta_add_records : forall S t rs t2 c r, sdelta (add_records t rs S) t2 c r = sdelta S t2 c r.
Proof.
  intros. unfold add_records. rewrite sdelta_set_table. cbn [td_deltas]. destruct (str_eqb t t2) eqn:E; [|reflexivity].
  apply str_eqb_eq in E. subst. apply sdelta_for_table.
Qed.

Lemma sdelta_remove_records : forall S t rs t2 c r, sdelta (remove_records t rs S) t2 c r = sdelta S t2 c r.
Proof.
  intros. unfold remove_records. rewrite sdelta_set_table. cbn [td_deltas]. destruct (str_eqb t t2) eqn:E; [|reflexivity].
  apply str_eqb_eq in E. subst. apply sdelta_for_table.
Qed.

Lemma pa_get_add_records : forall S t rs t2 r,
  pa_get (add_records t rs S) t2 r = if str_eqb t t2 && zmem r rs then Some true else pa_get S t2 r.
Proof.
  intros. unfold add_records. rewrite pa_get_set_table. cbn [td_pa]. destruct (str_eqb t t2) eqn:E; [|reflexivity].
  apply str_eqb_eq in E. subst. rewrite fold_aset_get. rewrite pa_for_table. reflexivity.
Qed.

Lemma pa_get_remove_records : forall S t rs t2 r,
  pa_get (remove_records t rs S) t2 r = if str_eqb t t2 && zmem r rs then Some false else pa_get S t2 r.
Proof.
  intros. unfold remove_records. rewrite pa_get_set_table. cbn [td_pa]. destruct (str_eqb t t2) eqn:E; [|reflexivity].
  apply str_eqb_eq in E. subst. rewrite fold_aset_get. rewrite pa_for_table. reflexivity.
Qed.

(* rename_column *)
Lemma pa_get_rename_column : forall S t old new t2 r, pa_get (rename_column t old new S) t2 r = pa_get S t2 r.
Proof.
  intros. unfold rename_column. rewrite pa_get_set_table. cbn [td_pa]. destruct (str_eqb t t2) eqn:E; [|reflexivity].
  apply str_eqb_eq in E. subst. apply pa_for_table.
Qed.

Lemma sdelta_rename_column_other_table : forall S t old new t2 c r,
  t2 <> t -> sdelta (rename_column t old new S) t2 c r = sdelta S t2 c r.
Proof.
  intros. unfold rename_column. rewrite sdelta_set_table. destruct (str_eqb t t2) eqn:E; [|reflexivity].
  apply str_eqb_eq in E. congruence.
Qed.

Lemma sdelta_add_column : forall S t new t2 c r, sdelta (rename_column t None new S) t2 c r = sdelta S t2 c r.
Proof.
  intros. unfold rename_column. rewrite sdelta_set_table. cbn [td_deltas]. destruct (str_eqb t t2) eqn:E; [|reflexivity].
  apply str_eqb_eq in E. subst. apply sdelta_for_table.
Qed.

(* moving a dict entry: d[n] = d.pop(o) when o is present *)
Lemma aget_move : forall {A} o n (l : list (str * A)) k,
  aget str_eqb k (match aget str_eqb o l with Some x => aset str_eqb n x (adel str_eqb o l) | None => l end) =
  match aget str_eqb o l with
  | Some x => if str_eqb n k then Some x else if str_eqb o k then None else aget str_eqb k l
  | None => aget str_eqb k l
  end.
Proof.
  intros A o n l k. destruct (aget str_eqb o l) eqn:E; [|reflexivity].
  rewrite (aget_aset str_eqb str_eqb_eq). destruct (str_eqb n k); [reflexivity|].
  destruct (str_eqb o k) eqn:E2.
  - apply str_eqb_eq in E2. subst. apply (aget_adel_same str_eqb).
  - apply (aget_adel_other str_eqb str_eqb_eq). apply str_eqb_neq in E2. congruence.
Qed.

Lemma key_clear_sdelta : forall S t c r, key_clear S t c = true -> sdelta S t c r = None.
Proof.
  intros S t c r H. unfold key_clear in H. rewrite sdelta_dl. destruct (aget str_eqb t (sm_tables S)); [|reflexivity].
  unfold dl_get. destruct (aget str_eqb c (td_deltas t0)) as [[|x l]|]; [reflexivity|discriminate|reflexivity].
Qed.

Lemma sdelta_rename_column : forall S t o n c r,
  sdelta (rename_column t (Some o) n S) t c r =
  match aget str_eqb o (td_deltas (for_table t S)) with
  | Some _ => if str_eqb n c then sdelta S t o r else if str_eqb o c then None else sdelta S t c r
  | None => sdelta S t c r
  end.
Proof.
  intros. unfold rename_column. rewrite sdelta_set_table. rewrite str_eqb_refl. cbn [td_deltas]. unfold dl_get at 1.
  rewrite aget_move. rewrite <- !sdelta_for_table. unfold dl_get.
  destruct (aget str_eqb o (td_deltas (for_table t S))) eqn:E; [|reflexivity].
  destruct (str_eqb n c); [reflexivity|]. destruct (str_eqb o c); reflexivity.
Qed.

Lemma sdelta_rename_column_other : forall S t o n c r,
  c <> n -> c <> o -> sdelta (rename_column t (Some o) n S) t c r = sdelta S t c r.
Proof.
  intros S t o n c r H1 H2. rewrite sdelta_rename_column. destruct (aget str_eqb o _); [|reflexivity].
  assert (E1 : str_eqb n c = false) by (apply str_eqb_neq; congruence).
  assert (E2 : str_eqb o c = false) by (apply str_eqb_neq; congruence).
  rewrite E1, E2. reflexivity.
Qed.

Lemma sdelta_rename_column_new : forall S t o n r,
  key_clear S t n = true -> sdelta (rename_column t (Some o) n S) t n r = sdelta S t o r.
Proof.
  intros S t o n r H. rewrite sdelta_rename_column. rewrite str_eqb_refl.
  destruct (aget str_eqb o (td_deltas (for_table t S))) eqn:E; [reflexivity|].
  rewrite (key_clear_sdelta _ _ _ _ H). rewrite <- sdelta_for_table. unfold dl_get. rewrite E. reflexivity.
Qed.

(* rename_table *)
Lemma sdelta_rename_table : forall S o n t2 c r,
  sdelta (rename_table (Some o) n S) t2 c r =
  match aget str_eqb o (sm_tables S) with
  | Some _ => if str_eqb n t2 then sdelta S o c r else if str_eqb o t2 then None else sdelta S t2 c r
  | None => sdelta S t2 c r
  end.
Proof.
  intros. rewrite !sdelta_dl. unfold rename_table. cbn [sm_tables]. rewrite aget_move.
  destruct (aget str_eqb o (sm_tables S)) eqn:E; [|reflexivity].
  destruct (str_eqb n t2); [reflexivity|]. destruct (str_eqb o t2); reflexivity.
Qed.

Lemma pa_get_rename_table : forall S o n t2 r,
  pa_get (rename_table (Some o) n S) t2 r =
  match aget str_eqb o (sm_tables S) with
  | Some _ => if str_eqb n t2 then pa_get S o r else if str_eqb o t2 then None else pa_get S t2 r
  | None => pa_get S t2 r
  end.
Proof.
  intros. unfold pa_get, rename_table. cbn [sm_tables]. rewrite aget_move.
  destruct (aget str_eqb o (sm_tables S)) eqn:E; [|reflexivity].
  destruct (str_eqb n t2); [reflexivity|]. destruct (str_eqb o t2); reflexivity.
Qed.

Lemma table_clear_none : forall S t, table_clear S t = true -> aget str_eqb t (sm_tables S) = None.
Proof.
  intros S t H. unfold table_clear in H. apply negb_true_iff in H. unfold amem in H.
  destruct (aget str_eqb t (sm_tables S)); [discriminate|reflexivity].
Qed.

Lemma sdelta_add_table : forall S n t2 c r, sdelta (rename_table None n S) t2 c r = sdelta S t2 c r.
Proof. reflexivity. Qed.

Lemma pa_get_add_table : forall S n t2 r, pa_get (rename_table None n S) t2 r = pa_get S t2 r.
Proof. reflexivity. Qed.

(* add_changes, one change at a time *)
Lemma adel_adel : forall {A} k (l : list (str * A)), adel str_eqb k (adel str_eqb k l) = adel str_eqb k l.
Proof.
  intros A k l. unfold adel. induction l as [|p l IH]; cbn; [reflexivity|].
  destruct (str_eqb (fst p) k) eqn:E; cbn; [exact IH|]. rewrite E. cbn. f_equal. exact IH.
Qed.

Lemma aset_aset : forall {A} k (v1 v2 : A) l, aset str_eqb k v2 (aset str_eqb k v1 l) = aset str_eqb k v2 l.
Proof.
  intros. unfold aset. f_equal. cbn [adel filter fst]. rewrite str_eqb_refl. cbn [negb]. apply adel_adel.
Qed.

Lemma for_table_set_table : forall t td' S, for_table t (set_table t td' S) = td'.
Proof. intros. unfold for_table, set_table. cbn [sm_tables]. rewrite (aget_aset_same str_eqb str_eqb_eq). reflexivity. Qed.

Lemma set_table_set_table : forall t td1 td2 S, set_table t td2 (set_table t td1 S) = set_table t td2 S.
Proof. intros. unfold set_table. cbn [sm_tables sm_tren]. f_equal. apply aset_aset. Qed.

Lemma add_changes_cons : forall t c ch chs S,
  add_changes t c (ch :: chs) S = add_changes t c chs (add_changes t c [ch] S).
Proof.
  intros. unfold add_changes. cbn [fold_left]. rewrite for_table_set_table. cbn [td_pb td_pa td_cren td_deltas].
  rewrite (aget_aset_same str_eqb str_eqb_eq). rewrite set_table_set_table. rewrite aset_aset. reflexivity.
Qed.

Lemma sdelta_add_change : forall S t c r b a t2 c2 r2,
  sdelta (add_changes t c [(r, (b, a))] S) t2 c2 r2 =
  if str_eqb t t2 && str_eqb c c2 && Z.eqb r r2
  then Some (match sdelta S t c r with Some p => fst p | None => b end, a)
  else sdelta S t2 c2 r2.
Proof.
  intros. unfold add_changes. rewrite sdelta_set_table. cbn [td_deltas fold_left].
  destruct (str_eqb t t2) eqn:Et; cbn [andb]; [|reflexivity]. apply str_eqb_eq in Et. subst t2.
  unfold dl_get at 1. rewrite (aget_aset str_eqb str_eqb_eq).
  destruct (str_eqb c c2) eqn:Ec; cbn [andb].
  - apply str_eqb_eq in Ec. subst c2. unfold merge_change. cbn [fst snd]. rewrite (aget_aset Z.eqb Z.eqb_eq).
    rewrite <- !sdelta_for_table. unfold dl_get.
    destruct (aget str_eqb c (td_deltas (for_table t S))) eqn:E; destruct (Z.eqb r r2); reflexivity.
  - apply sdelta_for_table.
Qed.

Lemma pa_get_add_changes : forall S t c chs t2 r, pa_get (add_changes t c chs S) t2 r = pa_get S t2 r.
Proof.
  intros. unfold add_changes. rewrite pa_get_set_table. cbn [td_pa]. destruct (str_eqb t t2) eqn:E; [|reflexivity].
  apply str_eqb_eq in E. subst. apply pa_for_table.
Qed.

(* ------------------------------------------------------------------------------------------------ *)
(* more about cell maps *)

Definition hset (t c : str) (ups : list (Z * V)) : str -> str -> Z -> V -> V :=
  fun t2 c2 r2 v =>
    if str_eqb t2 t && str_eqb c2 c then match zget_last r2 ups with Some v' => v' | None => v end else v.

Lemma set_cells_as_map : forall t c ups d,
  upd_table t (upd_col c (set_cells ups)) d = map_cells (hset t c ups) d.
Proof.
  intros t c ups d. unfold upd_table, map_cells. apply map_ext. intros [t2 tb]. cbn [fst snd].
  destruct (str_eqb t2 t) eqn:Et.
  - f_equal. unfold upd_col, map_tcells. f_equal. apply map_ext. intros [c2 co]. cbn [fst snd].
    destruct (str_eqb c2 c) eqn:Ec.
    + f_equal. unfold set_cells, map_ccells. f_equal. apply map_ext. intros [r v]. cbn [fst snd].
      unfold hset. rewrite Et, Ec. reflexivity.
    + f_equal. symmetry. apply map_ccells_id. intros r v _. unfold hset. rewrite Et, Ec. reflexivity.
  - f_equal. symmetry. apply map_tcells_id. intros c2 r v _. unfold hset. rewrite Et. reflexivity.
Qed.

Lemma InCell_map_cells : forall f d t c r v',
  InCell (map_cells f d) t c r v' <-> exists v, InCell d t c r v /\ v' = f t c r v.
Proof.
  intros f d t c r v'. unfold InCell, TCell, map_cells. split.
  - intros [tb [Hin [co [Hc Hr]]]]. apply in_map_iff in Hin. destruct Hin as [[t0 tb0] [E Hin]]. cbn in E.
    inversion E; subst. unfold map_tcells in Hc. cbn in Hc. apply in_map_iff in Hc.
    destruct Hc as [[c0 co0] [E2 Hc]]. cbn in E2. inversion E2; subst. unfold map_ccells in Hr. cbn in Hr.
    apply in_map_iff in Hr. destruct Hr as [[r0 v0] [E3 Hr]]. cbn in E3. inversion E3; subst.
    exists v0. split; [|reflexivity]. exists tb0. split; [exact Hin|]. exists co0. split; assumption.
  - intros [v [[tb [Hin [co [Hc Hr]]]] E]]. subst. exists (map_tcells (f t) tb). split.
    + apply in_map_iff. exists (t, tb). split; [reflexivity|exact Hin].
    + exists (map_ccells (f t c) co). split.
      * unfold map_tcells. cbn. apply in_map_iff. exists (c, co). split; [reflexivity|exact Hc].
      * unfold map_ccells. cbn. apply in_map_iff. exists (r, v). split; [reflexivity|exact Hr].
Qed.

Lemma wf_map_cells : forall f d, wf_doc d -> wf_doc (map_cells f d).
Proof.
  intros f d [Hnd H]. split; [rewrite map_cells_fst; exact Hnd|].
  intros t tb Hin. unfold map_cells in Hin. apply in_map_iff in Hin. destruct Hin as [[t0 tb0] [E Hin]]. cbn in E.
  inversion E; subst. destruct (H _ _ Hin) as [H1 H2]. split; [exact H1|].
  intros c co Hc. unfold map_tcells in Hc. cbn in Hc. apply in_map_iff in Hc. destruct Hc as [[c0 co0] [E2 Hc]].
  cbn in E2. inversion E2; subst. destruct (H2 _ _ Hc) as [H3 H4]. split; [exact H3|].
  intros r v Hr. unfold map_ccells in Hr. cbn in Hr. apply in_map_iff in Hr. destruct Hr as [[r0 v0] [E3 Hr]].
  cbn in E3. inversion E3; subst. cbn. eapply H4. exact Hr.
Qed.

Lemma cell_values_In : forall d t c r v, InCell d t c r v -> In v (cell_values d t c r).
Proof.
  intros d t c r v [tb [Hin [co [Hc Hr]]]]. unfold cell_values. apply in_flat_map. exists (t, tb). split; [exact Hin|].
  cbn. rewrite str_eqb_refl. apply in_flat_map. exists (c, co). split; [exact Hc|]. cbn. rewrite str_eqb_refl.
  apply in_map_iff. exists (r, v). split; [reflexivity|]. apply filter_In. split; [exact Hr|]. cbn. apply Z.eqb_refl.
Qed.

Lemma zget_last_single : forall (r r2 : Z) (a : V), zget_last r2 [(r, a)] = if Z.eqb r r2 then Some a else None.
Proof. intros. unfold zget_last. cbn. reflexivity. Qed.

Lemma combine_map_fst : forall {A} (rs : list Z) (f : Z -> A), map fst (combine rs (map f rs)) = rs.
Proof. intros A rs f. induction rs as [|r rs IH]; cbn; [reflexivity|f_equal; exact IH]. Qed.

Lemma in_combine_map : forall {A} (rs : list Z) (f : Z -> A) r v, In (r, v) (combine rs (map f rs)) -> v = f r.
Proof.
  intros A rs f r v. induction rs as [|r0 rs IH]; cbn; [intros []|].
  intros [E|H]; [inversion E; reflexivity|apply IH; exact H].
Qed.

Lemma zget_last_combine_map : forall {A} (rs : list Z) (f : Z -> A) r,
  zget_last r (combine rs (map f rs)) = if zmem r rs then Some (f r) else None.
Proof.
  intros A rs f r. destruct (zget_last r (combine rs (map f rs))) eqn:E.
  - apply zget_last_In in E. assert (Hr : In r rs) by (eapply in_combine_fst; exact E).
    apply in_combine_map in E. subst. apply zmem_In in Hr. rewrite Hr. reflexivity.
  - apply zget_last_None in E. rewrite combine_map_fst in E. apply zmem_false in E. rewrite E. reflexivity.
Qed.

(* ------------------------------------------------------------------------------------------------ *)
(* the simulation invariant between the replayed document dt, the summary S and the engine's document de *)

Record Inv (dt : doc) (S : summary) (de : doc) : Prop := mkInv {
  inv_eq : de = map_cells (ov S) dt;
  (* a cell with a pending delta still holds, in the replayed document, the delta's first `before` *)
  inv_lag : forall t c r ba v, sdelta S t c r = Some ba -> InCell dt t c r v -> v = fst ba;
  (* rows flagged as gone are gone; rows with a pending delta that are gone are flagged *)
  inv_gone : forall t r, pa_get S t r = Some false -> ~ InRow dt t r;
  inv_there : forall t c r ba, is_defunct t = false -> sdelta S t c r = Some ba -> ~ InRow dt t r ->
                               pa_get S t r = Some false;
  inv_wf : wf_doc dt
}.

Lemma inv_init : forall d, wf_doc d -> Inv d sum_empty d.
Proof.
  intros d Hwf. constructor.
  - symmetry. apply map_cells_id. intros. reflexivity.
  - intros t c r ba v H. discriminate.
  - intros t r H. discriminate.
  - intros t c r ba _ H. discriminate.
  - exact Hwf.
Qed.

Lemma InCell_InRow : forall d t c r v, wf_doc d -> InCell d t c r v -> InRow d t r.
Proof.
  intros d t c r v [_ Hwf] [tb [Hin [co [Hc Hr]]]]. exists tb. split; [exact Hin|].
  destruct (Hwf _ _ Hin) as [_ Ht]. destruct (Ht _ _ Hc) as [_ Hrows]. eapply Hrows. exact Hr.
Qed.

Lemma InCell_names : forall d t c r v, wf_doc d -> InCell d t c r v -> is_defunct t = false /\ is_defunct c = false.
Proof.
  intros d t c r v [_ Hwf] [tb [Hin [co [Hc Hr]]]]. destruct (Hwf _ _ Hin) as [H1 Ht]. split; [exact H1|].
  destruct (Ht _ _ Hc) as [H2 _]. exact H2.
Qed.

(* --- ECalc *)
Lemma inv_calc1 : forall dt S de t c r b a,
  Inv dt S de -> sc2 de S t c [(r, (b, a))] = true ->
  Inv dt (add_changes t c [(r, (b, a))] S) (set_changes t c [(r, (b, a))] de).
Proof.
  intros dt S de t c r b a HI Hsc. destruct HI as [Heq Hlag Hgone Hthere Hwf].
  cbn [sc2 fst snd] in Hsc. rewrite andb_true_r in Hsc. apply andb_true_iff in Hsc. destruct Hsc as [Hrow Hbefore].
  constructor.
  - unfold set_changes. cbn [map fst snd]. rewrite set_cells_as_map. rewrite Heq. rewrite map_cells_fuse.
    apply map_cells_ext_in. intros t2 c2 r2 v _. unfold ov at 2. rewrite sdelta_add_change. unfold hset.
    rewrite zget_last_single. rewrite (str_eqb_sym t2 t), (str_eqb_sym c2 c).
    destruct (str_eqb t t2 && str_eqb c c2) eqn:E1; cbn [andb]; [|reflexivity].
    destruct (Z.eqb r r2); reflexivity.
  - intros t2 c2 r2 ba v Hsd Hc. rewrite sdelta_add_change in Hsd.
    destruct (str_eqb t t2 && str_eqb c c2 && Z.eqb r r2) eqn:E1.
    + apply andb_true_iff in E1. destruct E1 as [E1 E3]. apply andb_true_iff in E1. destruct E1 as [E1 E2].
      apply str_eqb_eq in E1. apply str_eqb_eq in E2. apply Z.eqb_eq in E3. subst t2 c2 r2.
      inversion Hsd; subst ba. cbn [fst]. destruct (sdelta S t c r) eqn:Es.
      * eapply Hlag; eassumption.
      * rewrite forallb_forall in Hbefore. symmetry. apply Z.eqb_eq. apply Hbefore. apply cell_values_In.
        rewrite Heq. apply InCell_map_cells. exists v. split; [exact Hc|]. unfold ov. rewrite Es. reflexivity.
    + eapply Hlag; eassumption.
  - intros t2 r2 Hpa. rewrite pa_get_add_changes in Hpa. apply Hgone. exact Hpa.
  - intros t2 c2 r2 ba Hdef Hsd Hnr. rewrite pa_get_add_changes. rewrite sdelta_add_change in Hsd.
    destruct (str_eqb t t2 && str_eqb c c2 && Z.eqb r r2) eqn:E1.
    + apply andb_true_iff in E1. destruct E1 as [E1 E3]. apply andb_true_iff in E1. destruct E1 as [E1 E2].
      apply str_eqb_eq in E1. apply str_eqb_eq in E2. apply Z.eqb_eq in E3. subst t2 c2 r2.
      exfalso. apply Hnr. apply (InRow_rows_of _ _ _ (proj1 Hwf)). apply zmem_In in Hrow.
      rewrite Heq in Hrow. rewrite rows_of_map_cells in Hrow. exact Hrow.
    + eapply Hthere; eassumption.
  - exact Hwf.
Qed.

Lemma upd_table_compose : forall t F G d, upd_table t F (upd_table t G d) = upd_table t (fun tb => F (G tb)) d.
Proof.
  intros. unfold upd_table. rewrite map_map. apply map_ext. intros [t2 tb]. cbn [fst snd].
  destruct (str_eqb t2 t) eqn:E; cbn [fst snd]; rewrite E; reflexivity.
Qed.

Lemma upd_col_compose : forall c F G tb, upd_col c F (upd_col c G tb) = upd_col c (fun co => F (G co)) tb.
Proof.
  intros. unfold upd_col. cbn [t_rows t_cols]. f_equal. rewrite map_map. apply map_ext. intros [c2 co]. cbn [fst snd].
  destruct (str_eqb c2 c) eqn:E; cbn [fst snd]; rewrite E; reflexivity.
Qed.

Lemma set_changes_cons : forall t c ch chs d,
  set_changes t c (ch :: chs) d = set_changes t c chs (set_changes t c [ch] d).
Proof.
  intros. unfold set_changes. rewrite upd_table_compose. apply upd_table_ext_in. intros tb _.
  rewrite upd_col_compose. unfold upd_col. f_equal. apply map_ext. intros [c2 co]. cbn [fst snd].
  destruct (str_eqb c2 c); [|reflexivity]. f_equal. unfold set_cells. cbn [c_type c_cells]. f_equal. rewrite map_map.
  apply map_ext. intros [r v]. cbn [fst snd map]. f_equal.
  unfold zget_last. cbn [rev map fst snd]. rewrite (aget_app Z.eqb).
  destruct (aget Z.eqb r (rev (map (fun ch0 : change => (fst ch0, snd (snd ch0))) chs))); [reflexivity|].
  cbn. destruct (Z.eqb (fst ch) r); reflexivity.
Qed.

Lemma inv_calc : forall chs dt S de t c,
  Inv dt S de -> sc2 de S t c chs = true -> Inv dt (add_changes t c chs S) (set_changes t c chs de).
Proof.
  induction chs as [|[r [b a]] chs IH]; intros dt S de t c HI Hsc.
  - (* no change: add_changes only creates an empty entry *)
    destruct HI as [Heq Hlag Hgone Hthere Hwf].
    assert (Hsd : forall t2 c2 r2, sdelta (add_changes t c [] S) t2 c2 r2 = sdelta S t2 c2 r2).
    { intros. unfold add_changes. rewrite sdelta_set_table. cbn [td_deltas fold_left].
      destruct (str_eqb t t2) eqn:Et; [|reflexivity]. apply str_eqb_eq in Et. subst t2.
      unfold dl_get at 1. rewrite (aget_aset str_eqb str_eqb_eq). destruct (str_eqb c c2) eqn:Ec.
      - apply str_eqb_eq in Ec. subst c2. rewrite <- sdelta_for_table. unfold dl_get.
        destruct (aget str_eqb c (td_deltas (for_table t S))); reflexivity.
      - apply sdelta_for_table. }
    constructor.
    + unfold set_changes. cbn [map]. rewrite set_cells_as_map. rewrite Heq. rewrite map_cells_fuse.
      apply map_cells_ext_in. intros t2 c2 r2 v _. unfold ov. rewrite Hsd. unfold hset.
      destruct (str_eqb t2 t && str_eqb c2 c); reflexivity.
    + intros t2 c2 r2 ba v H1 H2. rewrite Hsd in H1. eapply Hlag; eassumption.
    + intros t2 r2 H1. rewrite pa_get_add_changes in H1. apply Hgone. exact H1.
    + intros t2 c2 r2 ba Hd H1 H2. rewrite Hsd in H1. rewrite pa_get_add_changes. eapply Hthere; eassumption.
    + exact Hwf.
  - rewrite add_changes_cons, set_changes_cons.
    cbn [sc2] in Hsc. apply andb_true_iff in Hsc. destruct Hsc as [Hsc1 Hsc2].
    apply IH; [|exact Hsc2]. apply inv_calc1; [exact HI|]. cbn [sc2]. rewrite Hsc1. reflexivity.
Qed.
