(* Lemmas about Model/StoredLog.v (C02, C31). *)
From Coq Require Import ZArith List Bool Lia.
Import ListNotations.
Require Import Grist.Model.StoredLog.
Open Scope Z_scope.

(* ------------------------------------------------------------------------------------------------ *)
(* strings, membership *)

Lemma str_eqb_eq : forall a b, str_eqb a b = true <-> a = b.
Proof.
  induction a as [|x a IH]; destruct b as [|y b]; cbn; split; intro H; try reflexivity; try discriminate.
  - apply andb_true_iff in H. destruct H as [H1 H2]. apply Z.eqb_eq in H1. apply IH in H2. congruence.
  - inversion H; subst. rewrite Z.eqb_refl. cbn. apply IH. reflexivity.
Qed.

Lemma str_eqb_refl : forall a, str_eqb a a = true.
Proof. intro a. apply str_eqb_eq. reflexivity. Qed.

Lemma str_eqb_neq : forall a b, str_eqb a b = false <-> a <> b.
Proof.
  intros a b. split; intro H.
  - intro E. apply str_eqb_eq in E. congruence.
  - destruct (str_eqb a b) eqn:E; [|reflexivity]. apply str_eqb_eq in E. contradiction.
Qed.

Lemma str_eqb_sym : forall a b, str_eqb a b = str_eqb b a.
Proof.
  intros a b. destruct (str_eqb a b) eqn:E.
  - apply str_eqb_eq in E. subst. symmetry. apply str_eqb_refl.
  - symmetry. apply str_eqb_neq. apply str_eqb_neq in E. congruence.
Qed.

Lemma zmem_In : forall r l, zmem r l = true <-> In r l.
Proof.
  intros r l. unfold zmem. rewrite existsb_exists. split.
  - intros [x [Hx E]]. apply Z.eqb_eq in E. subst. exact Hx.
  - intro H. exists r. split; [exact H|apply Z.eqb_refl].
Qed.

Lemma zmem_false : forall r l, zmem r l = false <-> ~ In r l.
Proof.
  intros r l. split; intro H.
  - intro Hin. apply zmem_In in Hin. congruence.
  - destruct (zmem r l) eqn:E; [|reflexivity]. apply zmem_In in E. contradiction.
Qed.

Lemma smem_In : forall s l, smem s l = true <-> In s l.
Proof.
  intros s l. unfold smem. rewrite existsb_exists. split.
  - intros [x [Hx E]]. apply str_eqb_eq in E. subst. exact Hx.
  - intro H. exists s. split; [exact H|apply str_eqb_refl].
Qed.

Lemma nodupb_z : forall l, nodupb zmem l = true -> NoDup l.
Proof.
  induction l as [|x l IH]; cbn; intro H; [constructor|].
  apply andb_true_iff in H. destruct H as [H1 H2]. constructor; [|apply IH; exact H2].
  apply negb_true_iff in H1. apply zmem_false in H1. exact H1.
Qed.

Lemma nodupb_s : forall l, nodupb smem l = true -> NoDup l.
Proof.
  induction l as [|x l IH]; cbn; intro H; [constructor|].
  apply andb_true_iff in H. destruct H as [H1 H2]. constructor; [|apply IH; exact H2].
  apply negb_true_iff in H1. intro Hin. apply smem_In in Hin. congruence.
Qed.

(* ------------------------------------------------------------------------------------------------ *)
(* association lists *)

Section AssocLemmas.
  Context {K A : Type} (eqb : K -> K -> bool).
  Hypothesis eqb_eq : forall a b, eqb a b = true <-> a = b.

  Lemma eqb_refl' : forall a, eqb a a = true.
  Proof. intro a. apply eqb_eq. reflexivity. Qed.

  Lemma eqb_neq' : forall a b, eqb a b = false <-> a <> b.
  Proof.
    intros a b. split; intro H.
    - intro E. apply eqb_eq in E. congruence.
    - destruct (eqb a b) eqn:E; [|reflexivity]. apply eqb_eq in E. contradiction.
  Qed.

  Lemma aget_In : forall k (l : list (K * A)) v, aget eqb k l = Some v -> In (k, v) l.
  Proof.
    induction l as [|p l IH]; cbn; intros v H; [discriminate|].
    destruct (eqb (fst p) k) eqn:E.
    - apply eqb_eq in E. inversion H; subst. left. destruct p; reflexivity.
    - right. apply IH. exact H.
  Qed.

  Lemma aget_None : forall k (l : list (K * A)), aget eqb k l = None <-> ~ In k (map fst l).
  Proof.
    induction l as [|p l IH]; cbn.
    - split; [intros _ []|reflexivity].
    - destruct (eqb (fst p) k) eqn:E.
      + apply eqb_eq in E. split; [discriminate|]. intro H. exfalso. apply H. left. exact E.
      + apply eqb_neq' in E. rewrite IH. split.
        * intros H [H1|H1]; [contradiction|]. apply H. exact H1.
        * intros H H1. apply H. right. exact H1.
  Qed.

  Lemma amem_In : forall k (l : list (K * A)), amem eqb k l = true <-> In k (map fst l).
  Proof.
    intros k l. unfold amem. destruct (aget eqb k l) eqn:E.
    - split; [|reflexivity]. intros _. apply aget_In in E. apply in_map_iff. exists (k, a). split; [reflexivity|exact E].
    - split; [discriminate|]. intro H. apply aget_None in E. contradiction.
  Qed.

  Lemma amem_false : forall k (l : list (K * A)), amem eqb k l = false <-> ~ In k (map fst l).
  Proof.
    intros k l. split; intro H.
    - intro Hin. apply amem_In in Hin. congruence.
    - destruct (amem eqb k l) eqn:E; [|reflexivity]. apply amem_In in E. contradiction.
  Qed.

  Lemma aget_nodup : forall k v (l : list (K * A)), NoDup (map fst l) -> In (k, v) l -> aget eqb k l = Some v.
  Proof.
    induction l as [|p l IH]; cbn; intros Hnd Hin; [contradiction|].
    inversion Hnd as [|x xs Hx Hnd']; subst.
    destruct Hin as [Hin|Hin].
    - subst p. cbn. rewrite eqb_refl'. reflexivity.
    - destruct (eqb (fst p) k) eqn:E.
      + apply eqb_eq in E. exfalso. apply Hx. rewrite E. apply in_map_iff. exists (k, v). split; [reflexivity|exact Hin].
      + apply IH; assumption.
  Qed.

  Lemma adel_In : forall k p (l : list (K * A)), In p (adel eqb k l) <-> In p l /\ fst p <> k.
  Proof.
    intros k p l. unfold adel. rewrite filter_In. rewrite negb_true_iff. rewrite eqb_neq'. reflexivity.
  Qed.

  Lemma adel_notin : forall k (l : list (K * A)), ~ In k (map fst l) -> adel eqb k l = l.
  Proof.
    induction l as [|p l IH]; cbn; intro H; [reflexivity|].
    destruct (eqb (fst p) k) eqn:E.
    - apply eqb_eq in E. exfalso. apply H. left. exact E.
    - cbn. f_equal. apply IH. intro H1. apply H. right. exact H1.
  Qed.

  Lemma aget_adel_same : forall k (l : list (K * A)), aget eqb k (adel eqb k l) = None.
  Proof.
    induction l as [|p l IH]; cbn; [reflexivity|].
    destruct (eqb (fst p) k) eqn:E; cbn; [exact IH|]. rewrite E. exact IH.
  Qed.

  Lemma aget_adel_other : forall k k' (l : list (K * A)), k' <> k -> aget eqb k' (adel eqb k l) = aget eqb k' l.
  Proof.
    induction l as [|p l IH]; cbn; intro H; [reflexivity|].
    destruct (eqb (fst p) k) eqn:E; cbn.
    - apply eqb_eq in E. destruct (eqb (fst p) k') eqn:E'.
      + apply eqb_eq in E'. congruence.
      + apply IH. exact H.
    - destruct (eqb (fst p) k'); [reflexivity|]. apply IH. exact H.
  Qed.

  Lemma aget_aset_same : forall k v (l : list (K * A)), aget eqb k (aset eqb k v l) = Some v.
  Proof. intros. unfold aset. cbn. rewrite eqb_refl'. reflexivity. Qed.

  Lemma aget_aset_other : forall k k' v (l : list (K * A)), k' <> k -> aget eqb k' (aset eqb k v l) = aget eqb k' l.
  Proof.
    intros k k' v l H. unfold aset. cbn. destruct (eqb k k') eqn:E.
    - apply eqb_eq in E. congruence.
    - apply aget_adel_other. exact H.
  Qed.

  Lemma aget_aset : forall k k' v (l : list (K * A)),
    aget eqb k' (aset eqb k v l) = if eqb k k' then Some v else aget eqb k' l.
  Proof.
    intros. destruct (eqb k k') eqn:E.
    - apply eqb_eq in E. subst. apply aget_aset_same.
    - apply aget_aset_other. apply eqb_neq' in E. congruence.
  Qed.

  Lemma aget_app : forall k (l1 l2 : list (K * A)),
    aget eqb k (l1 ++ l2) = match aget eqb k l1 with Some v => Some v | None => aget eqb k l2 end.
  Proof.
    induction l1 as [|p l1 IH]; cbn; intros; [reflexivity|].
    destruct (eqb (fst p) k); [reflexivity|apply IH].
  Qed.
End AssocLemmas.

Definition sget_In {A} := @aget_In str A str_eqb str_eqb_eq.
Definition zget_In {A} := @aget_In Z A Z.eqb Z.eqb_eq.

(* insertion sort keeps the elements *)
Lemma insert_by_In : forall {A} (ltb : A -> A -> bool) x y l, In y (insert_by ltb x l) <-> y = x \/ In y l.
Proof.
  intros A ltb x y. induction l as [|z l IH]; cbn.
  - intuition.
  - destruct (ltb x z); cbn; [intuition|]. rewrite IH. intuition.
Qed.

Lemma sort_by_In : forall {A} (ltb : A -> A -> bool) y l, In y (sort_by ltb l) <-> In y l.
Proof.
  intros A ltb y. induction l as [|x l IH]; cbn; [reflexivity|].
  rewrite insert_by_In. rewrite IH. intuition.
Qed.

(* ------------------------------------------------------------------------------------------------ *)
(* cell-wise maps over a document: the relation between the engine's document and the replayed one *)

Definition map_ccells (g : Z -> V -> V) (co : col) : col :=
  mkCol (c_type co) (map (fun x => (fst x, g (fst x) (snd x))) (c_cells co)).
Definition map_tcells (g : str -> Z -> V -> V) (tb : table) : table :=
  mkTable (t_rows tb) (map (fun q => (fst q, map_ccells (g (fst q)) (snd q))) (t_cols tb)).
Definition map_cells (f : str -> str -> Z -> V -> V) (d : doc) : doc :=
  map (fun p => (fst p, map_tcells (f (fst p)) (snd p))) d.

Definition TCell (tb : table) (c : str) (r : Z) (v : V) : Prop :=
  exists co, In (c, co) (t_cols tb) /\ In (r, v) (c_cells co).
Definition InCell (d : doc) (t c : str) (r : Z) (v : V) : Prop :=
  exists tb, In (t, tb) d /\ TCell tb c r v.
Definition InRow (d : doc) (t : str) (r : Z) : Prop :=
  exists tb, In (t, tb) d /\ In r (t_rows tb).

Lemma map_ccells_ext : forall g g' co,
  (forall r v, In (r, v) (c_cells co) -> g r v = g' r v) -> map_ccells g co = map_ccells g' co.
Proof.
  intros g g' co H. unfold map_ccells. f_equal. apply map_ext_in. intros [r v] Hin. cbn. f_equal. apply H. exact Hin.
Qed.

Lemma map_tcells_ext : forall g g' tb,
  (forall c r v, TCell tb c r v -> g c r v = g' c r v) -> map_tcells g tb = map_tcells g' tb.
Proof.
  intros g g' tb H. unfold map_tcells. f_equal. apply map_ext_in. intros [c co] Hin. cbn. f_equal.
  apply map_ccells_ext. intros r v Hrv. apply H. exists co. split; assumption.
Qed.

Lemma map_cells_ext_in : forall f f' d,
  (forall t c r v, InCell d t c r v -> f t c r v = f' t c r v) -> map_cells f d = map_cells f' d.
Proof.
  intros f f' d H. unfold map_cells. apply map_ext_in. intros [t tb] Hin. cbn. f_equal.
  apply map_tcells_ext. intros c r v Hc. apply H. exists tb. split; assumption.
Qed.

Lemma map_ccells_id : forall g co, (forall r v, In (r, v) (c_cells co) -> g r v = v) -> map_ccells g co = co.
Proof.
  intros g co H. unfold map_ccells. destruct co as [ty cells]. cbn in *. f_equal.
  rewrite <- (map_id cells) at 2. apply map_ext_in. intros [r v] Hin. cbn. f_equal. apply H. exact Hin.
Qed.

Lemma map_tcells_id : forall g tb, (forall c r v, TCell tb c r v -> g c r v = v) -> map_tcells g tb = tb.
Proof.
  intros g tb H. unfold map_tcells. destruct tb as [rows cols]. cbn in *. f_equal.
  rewrite <- (map_id cols) at 2. apply map_ext_in. intros [c co] Hin. cbn. f_equal.
  apply map_ccells_id. intros r v Hrv. apply H. exists co. split; assumption.
Qed.

Lemma map_cells_id : forall f d, (forall t c r v, InCell d t c r v -> f t c r v = v) -> map_cells f d = d.
Proof.
  intros f d H. unfold map_cells. rewrite <- (map_id d) at 2. apply map_ext_in. intros [t tb] Hin. cbn. f_equal.
  apply map_tcells_id. intros c r v Hc. apply H. exists tb. split; assumption.
Qed.

Lemma map_ccells_fuse : forall g h co, map_ccells g (map_ccells h co) = map_ccells (fun r v => g r (h r v)) co.
Proof. intros. unfold map_ccells. cbn. f_equal. rewrite map_map. reflexivity. Qed.

Lemma map_tcells_fuse : forall g h tb,
  map_tcells g (map_tcells h tb) = map_tcells (fun c r v => g c r (h c r v)) tb.
Proof.
  intros. unfold map_tcells. cbn. f_equal. rewrite map_map. apply map_ext. intros [c co]. cbn. f_equal.
  apply map_ccells_fuse.
Qed.

Lemma map_cells_fuse : forall f h d,
  map_cells f (map_cells h d) = map_cells (fun t c r v => f t c r (h t c r v)) d.
Proof.
  intros. unfold map_cells. rewrite map_map. apply map_ext. intros [t tb]. cbn. f_equal. apply map_tcells_fuse.
Qed.

(* observations are preserved *)
Lemma map_cells_fst : forall f d, map fst (map_cells f d) = map fst d.
Proof. intros. unfold map_cells. rewrite map_map. reflexivity. Qed.

Lemma aget_map_cells : forall f t d,
  aget str_eqb t (map_cells f d) = option_map (map_tcells (f t)) (aget str_eqb t d).
Proof.
  intros f t. induction d as [|p d IH]; cbn; [reflexivity|].
  destruct (str_eqb (fst p) t) eqn:E; [|exact IH]. apply str_eqb_eq in E. subst. reflexivity.
Qed.

Lemma amem_map_cells : forall f t d, amem str_eqb t (map_cells f d) = amem str_eqb t d.
Proof. intros. unfold amem. rewrite aget_map_cells. destruct (aget str_eqb t d); reflexivity. Qed.

Lemma rows_of_map_cells : forall f t d, rows_of t (map_cells f d) = rows_of t d.
Proof. intros. unfold rows_of. rewrite aget_map_cells. destruct (aget str_eqb t d); reflexivity. Qed.

Lemma map_tcells_cols_fst : forall g tb, map fst (t_cols (map_tcells g tb)) = map fst (t_cols tb).
Proof. intros. unfold map_tcells. cbn. rewrite map_map. reflexivity. Qed.

Lemma amem_map_tcells : forall g c tb, amem str_eqb c (t_cols (map_tcells g tb)) = amem str_eqb c (t_cols tb).
Proof.
  intros. destruct (amem str_eqb c (t_cols tb)) eqn:E.
  - apply (amem_In str_eqb str_eqb_eq). rewrite map_tcells_cols_fst. apply (amem_In str_eqb str_eqb_eq). exact E.
  - apply (amem_false str_eqb str_eqb_eq). rewrite map_tcells_cols_fst. apply (amem_false str_eqb str_eqb_eq). exact E.
Qed.

Lemma has_col_map_cells : forall f t c d, has_col t c (map_cells f d) = has_col t c d.
Proof.
  intros. unfold has_col. rewrite aget_map_cells. destruct (aget str_eqb t d); cbn; [|reflexivity].
  apply amem_map_tcells.
Qed.

Lemma InRow_map_cells : forall f d t r, InRow (map_cells f d) t r <-> InRow d t r.
Proof.
  intros f d t r. unfold InRow, map_cells. split.
  - intros [tb [Hin Hr]]. apply in_map_iff in Hin. destruct Hin as [[t' tb'] [E Hin]]. cbn in E. inversion E; subst.
    exists tb'. split; [exact Hin|exact Hr].
  - intros [tb [Hin Hr]]. exists (map_tcells (f t) tb). split; [|exact Hr].
    apply in_map_iff. exists (t, tb). split; [reflexivity|exact Hin].
Qed.

(* upd_table against map_cells *)
Lemma upd_table_map_cells : forall t F f d,
  (forall tb, In (t, tb) d -> F (map_tcells (f t) tb) = map_tcells (f t) (F tb)) ->
  upd_table t F (map_cells f d) = map_cells f (upd_table t F d).
Proof.
  intros t F f d H. unfold upd_table, map_cells. rewrite !map_map. apply map_ext_in. intros [t2 tb] Hin. cbn.
  destruct (str_eqb t2 t) eqn:E; cbn; [|reflexivity]. apply str_eqb_eq in E. subst. f_equal. apply H. exact Hin.
Qed.

Lemma upd_table_ext_in : forall t F G d,
  (forall tb, In (t, tb) d -> F tb = G tb) -> upd_table t F d = upd_table t G d.
Proof.
  intros t F G d H. unfold upd_table. apply map_ext_in. intros [t2 tb] Hin. cbn.
  destruct (str_eqb t2 t) eqn:E; [|reflexivity]. apply str_eqb_eq in E. subst. f_equal. apply H. exact Hin.
Qed.

Lemma upd_table_fst : forall t F d, map fst (upd_table t F d) = map fst d.
Proof.
  intros. unfold upd_table. rewrite map_map. apply map_ext. intros [t2 tb]. cbn. destruct (str_eqb t2 t); reflexivity.
Qed.

Lemma In_upd_table : forall t F d t2 tb2,
  In (t2, tb2) (upd_table t F d) <->
  (t2 <> t /\ In (t2, tb2) d) \/ (t2 = t /\ exists tb, In (t, tb) d /\ tb2 = F tb).
Proof.
  intros t F d t2 tb2. unfold upd_table. rewrite in_map_iff. split.
  - intros [[t3 tb3] [E Hin]]. cbn in E. destruct (str_eqb t3 t) eqn:E3.
    + apply str_eqb_eq in E3. subst t3. inversion E; subst. right. split; [reflexivity|]. exists tb3. split; [exact Hin|reflexivity].
    + apply str_eqb_neq in E3. inversion E; subst. left. split; assumption.
  - intros [[Hne Hin]|[E [tb [Hin E2]]]].
    + exists (t2, tb2). cbn. apply str_eqb_neq in Hne. rewrite Hne. split; [reflexivity|exact Hin].
    + subst. exists (t, tb). cbn. rewrite str_eqb_refl. split; [reflexivity|exact Hin].
Qed.

(* ------------------------------------------------------------------------------------------------ *)
(* the table transformers of the interpreters: commutation with cell maps, and what cells they leave *)

Lemma filter_map_fst : forall {A B} (p : A -> bool) (h : A * B -> A * B) (l : list (A * B)),
  (forall x, fst (h x) = fst x) ->
  filter (fun q => p (fst q)) (map h l) = map h (filter (fun q => p (fst q)) l).
Proof.
  intros A B p h l Hh. induction l as [|x l IH]; cbn; [reflexivity|].
  rewrite Hh. destruct (p (fst x)); cbn; [f_equal|]; exact IH.
Qed.

Lemma in_combine_fst : forall {A B} (l : list A) (l' : list B) x y, In (x, y) (combine l l') -> In x l.
Proof. intros. eapply in_combine_l. eassumption. Qed.

Lemma zget_last_In : forall {A} r (ups : list (Z * A)) v, zget_last r ups = Some v -> In (r, v) ups.
Proof.
  intros A r ups v H. unfold zget_last in H. apply (aget_In Z.eqb Z.eqb_eq) in H. apply in_rev. exact H.
Qed.

Lemma zget_last_None : forall {A} r (ups : list (Z * A)), zget_last r ups = None <-> ~ In r (map fst ups).
Proof.
  intros A r ups. unfold zget_last. rewrite (aget_None Z.eqb Z.eqb_eq). rewrite map_rev. rewrite <- in_rev. reflexivity.
Qed.

Section Transformers.
  Variable td : str -> V.

  (* --- add rows (TableDataSet form) *)
  Lemma tds_add_rows_comm : forall g rs cols tb,
    (forall c r v, In r rs -> g c r v = v) ->
    tds_add_rows td rs cols (map_tcells g tb) = map_tcells g (tds_add_rows td rs cols tb).
  Proof.
    intros g rs cols tb H. unfold tds_add_rows, map_tcells. cbn. f_equal. rewrite !map_map.
    apply map_ext. intros [c co]. cbn. f_equal. unfold map_ccells. cbn. f_equal. rewrite map_app. f_equal.
    symmetry. rewrite <- (map_id (match aget str_eqb c cols with Some vs => combine rs vs | None => _ end)) at 2.
    apply map_ext_in. intros [r v] Hin. cbn. f_equal. apply H.
    destruct (aget str_eqb c cols).
    - eapply in_combine_fst. exact Hin.
    - apply in_map_iff in Hin. destruct Hin as [r' [E Hr]]. inversion E; subst. exact Hr.
  Qed.

  Lemma tds_add_rows_cell : forall rs cols tb c r v,
    TCell (tds_add_rows td rs cols tb) c r v -> TCell tb c r v \/ In r rs.
  Proof.
    intros rs cols tb c r v [co [Hc Hr]]. unfold tds_add_rows in Hc. cbn in Hc.
    apply in_map_iff in Hc. destruct Hc as [[c0 co0] [E Hc]]. cbn in E. inversion E; subst. cbn in Hr.
    apply in_app_or in Hr. destruct Hr as [Hr|Hr].
    - left. exists co0. split; assumption.
    - right. destruct (aget str_eqb c cols).
      + eapply in_combine_fst. exact Hr.
      + apply in_map_iff in Hr. destruct Hr as [r' [E' Hr]]. inversion E'; subst. exact Hr.
  Qed.

  Lemma tds_add_rows_colnames : forall rs cols tb,
    map fst (t_cols (tds_add_rows td rs cols tb)) = map fst (t_cols tb).
  Proof. intros. unfold tds_add_rows. cbn. rewrite map_map. reflexivity. Qed.

  (* --- remove rows *)
  Lemma tb_remove_rows_comm : forall g rs tb,
    tb_remove_rows rs (map_tcells g tb) = map_tcells g (tb_remove_rows rs tb).
  Proof.
    intros g rs tb. unfold tb_remove_rows, map_tcells. cbn. f_equal. rewrite !map_map.
    apply map_ext. intros [c co]. cbn. f_equal. unfold map_ccells. cbn. f_equal.
    apply (filter_map_fst (fun r => negb (zmem r rs))). intros x. reflexivity.
  Qed.

  Lemma tb_remove_rows_cell : forall rs tb c r v,
    TCell (tb_remove_rows rs tb) c r v <-> TCell tb c r v /\ ~ In r rs.
  Proof.
    intros rs tb c r v. unfold TCell, tb_remove_rows. cbn. split.
    - intros [co [Hc Hr]]. apply in_map_iff in Hc. destruct Hc as [[c0 co0] [E Hc]]. cbn in E. inversion E; subst.
      cbn in Hr. apply filter_In in Hr. destruct Hr as [Hr Hn]. cbn in Hn. apply negb_true_iff in Hn.
      apply zmem_false in Hn. split; [|exact Hn]. exists co0. split; assumption.
    - intros [[co [Hc Hr]] Hn].
      exists (mkCol (c_type co) (filter (fun q => negb (zmem (fst q) rs)) (c_cells co))). split.
      + apply in_map_iff. exists (c, co). split; [reflexivity|exact Hc].
      + cbn. apply filter_In. split; [exact Hr|]. cbn. apply negb_true_iff. apply zmem_false. exact Hn.
  Qed.

  Lemma tb_remove_rows_rows : forall rs tb r, In r (t_rows (tb_remove_rows rs tb)) <-> In r (t_rows tb) /\ ~ In r rs.
  Proof.
    intros. unfold tb_remove_rows. cbn. rewrite filter_In. rewrite negb_true_iff. rewrite zmem_false. reflexivity.
  Qed.

  Lemma tb_remove_rows_colnames : forall rs tb, map fst (t_cols (tb_remove_rows rs tb)) = map fst (t_cols tb).
  Proof. intros. unfold tb_remove_rows. cbn. rewrite map_map. reflexivity. Qed.

  (* --- set cells of one column *)
  Lemma set_cells_comm : forall (g : Z -> V -> V) ups co,
    (forall r v, In r (map fst ups) -> g r v = v) ->
    set_cells ups (map_ccells g co) = map_ccells g (set_cells ups co).
  Proof.
    intros g ups co H. unfold set_cells, map_ccells. cbn. f_equal. rewrite !map_map. apply map_ext.
    intros [r v]. cbn. f_equal. destruct (zget_last r ups) eqn:E; [|reflexivity].
    symmetry. apply H. apply zget_last_In in E. apply in_map_iff. exists (r, v0). split; [reflexivity|exact E].
  Qed.

  Lemma upd_col_comm : forall g c F tb,
    (forall co, F (map_ccells (g c) co) = map_ccells (g c) (F co)) ->
    upd_col c F (map_tcells g tb) = map_tcells g (upd_col c F tb).
  Proof.
    intros g c F tb H. unfold upd_col, map_tcells. cbn. f_equal. rewrite !map_map. apply map_ext.
    intros [c2 co]. cbn. destruct (str_eqb c2 c) eqn:E; cbn; [|reflexivity].
    apply str_eqb_eq in E. subst. f_equal. apply H.
  Qed.

  Lemma upd_col_cell : forall c F tb c2 r v,
    TCell (upd_col c F tb) c2 r v <->
    (c2 <> c /\ TCell tb c2 r v) \/ (c2 = c /\ exists co, In (c, co) (t_cols tb) /\ In (r, v) (c_cells (F co))).
  Proof.
    intros c F tb c2 r v. unfold TCell, upd_col. cbn. split.
    - intros [co [Hc Hr]]. apply in_map_iff in Hc. destruct Hc as [[c0 co0] [E Hc]]. cbn in E.
      destruct (str_eqb c0 c) eqn:E0.
      + apply str_eqb_eq in E0. subst c0. inversion E; subst. right. split; [reflexivity|].
        exists co0. split; assumption.
      + apply str_eqb_neq in E0. inversion E; subst. left. split; [exact E0|]. exists co. split; assumption.
    - intros [[Hne [co [Hc Hr]]]|[E [co [Hc Hr]]]].
      + exists co. split; [|exact Hr]. apply in_map_iff. exists (c2, co). cbn. apply str_eqb_neq in Hne. rewrite Hne.
        split; [reflexivity|exact Hc].
      + subst. exists (F co). split; [|exact Hr]. apply in_map_iff. exists (c, co). cbn. rewrite str_eqb_refl.
        split; [reflexivity|exact Hc].
  Qed.

  Lemma upd_col_colnames : forall c F tb, map fst (t_cols (upd_col c F tb)) = map fst (t_cols tb).
  Proof.
    intros. unfold upd_col. cbn. rewrite map_map. apply map_ext. intros [c2 co]. cbn. destruct (str_eqb c2 c); reflexivity.
  Qed.

  Lemma set_cells_In : forall ups co r v,
    In (r, v) (c_cells (set_cells ups co)) ->
    (In (r, v) ups) \/ (In (r, v) (c_cells co) /\ ~ In r (map fst ups)).
  Proof.
    intros ups co r v H. unfold set_cells in H. cbn in H. apply in_map_iff in H. destruct H as [[r0 v0] [E Hin]].
    cbn in E. destruct (zget_last r0 ups) eqn:E1; inversion E; subst.
    - left. apply zget_last_In. exact E1.
    - right. split; [exact Hin|]. apply zget_last_None. exact E1.
  Qed.

  (* --- BulkUpdateRecord *)
  Lemma tb_update_comm : forall g rs cols tb,
    (forall c vs r v, In (c, vs) cols -> In r rs -> g c r v = v) ->
    tb_update rs cols (map_tcells g tb) = map_tcells g (tb_update rs cols tb).
  Proof.
    intros g rs cols. unfold tb_update. induction cols as [|[c vs] cols IH]; intros tb H; cbn; [reflexivity|].
    rewrite upd_col_comm.
    - apply IH. intros c' vs' r v Hin Hr. apply (H c' vs' r v); [right; exact Hin|exact Hr].
    - intro co. apply set_cells_comm. intros r v Hr. apply (H c vs r v); [left; reflexivity|].
      apply in_map_iff in Hr. destruct Hr as [[r' v'] [E Hr]]. cbn in E. subst. eapply in_combine_fst. exact Hr.
  Qed.

  Lemma tb_update_rows : forall rs cols tb, t_rows (tb_update rs cols tb) = t_rows tb.
  Proof.
    intros rs cols. unfold tb_update. induction cols as [|[c vs] cols IH]; intros tb; cbn; [reflexivity|].
    rewrite IH. reflexivity.
  Qed.

  Lemma tb_update_colnames : forall rs cols tb, map fst (t_cols (tb_update rs cols tb)) = map fst (t_cols tb).
  Proof.
    intros rs cols. unfold tb_update. induction cols as [|[c vs] cols IH]; intros tb; cbn; [reflexivity|].
    rewrite IH. apply upd_col_colnames.
  Qed.

  Lemma tb_update_cell : forall rs cols tb c r v,
    TCell (tb_update rs cols tb) c r v ->
    TCell tb c r v \/ (In c (map fst cols) /\ In r rs /\ exists v0, TCell tb c r v0).
  Proof.
    intros rs cols. unfold tb_update. induction cols as [|[c0 vs] cols IH]; intros tb c r v H; cbn in *; [left; exact H|].
    apply IH in H. clear IH.
    assert (Hstep : forall v1, TCell (upd_col c0 (set_cells (combine rs vs)) tb) c r v1 ->
                     TCell tb c r v1 \/ (c = c0 /\ In r rs /\ exists v0, TCell tb c r v0)).
    { intros v1 H1. apply upd_col_cell in H1. destruct H1 as [[Hne H1]|[E [co [Hc Hr]]]].
      - left. exact H1.
      - subst. unfold set_cells in Hr. cbn in Hr. apply in_map_iff in Hr. destruct Hr as [[r0 v0] [E Hin]].
        cbn in E. destruct (zget_last r0 (combine rs vs)) eqn:E1; inversion E; subst.
        + right. split; [reflexivity|]. split.
          * apply zget_last_In in E1. eapply in_combine_fst. exact E1.
          * exists v0. exists co. split; assumption.
        + left. exists co. split; assumption. }
    destruct H as [H|[Hc [Hr [v0 H]]]].
    - apply Hstep in H. destruct H as [H|[E [Hr Hv]]]; [left; exact H|]. right. split; [left; symmetry; exact E|]. split; assumption.
    - right. split; [right; exact Hc|]. split; [exact Hr|].
      apply Hstep in H. destruct H as [H|[_ [_ Hv]]]; [exists v0; exact H|exact Hv].
  Qed.

  (* --- clear *)
  Lemma tb_clear_map : forall g tb, tb_clear (map_tcells g tb) = tb_clear tb.
  Proof. intros. unfold tb_clear, map_tcells. cbn. f_equal. rewrite map_map. reflexivity. Qed.

  Lemma map_tb_clear : forall g tb, map_tcells g (tb_clear tb) = tb_clear tb.
  Proof. intros. unfold tb_clear, map_tcells. cbn. f_equal. rewrite map_map. reflexivity. Qed.

  Lemma tb_clear_cell : forall tb c r v, ~ TCell (tb_clear tb) c r v.
  Proof.
    intros tb c r v [co [Hc Hr]]. unfold tb_clear in Hc. cbn in Hc. apply in_map_iff in Hc.
    destruct Hc as [[c0 co0] [E Hc]]. cbn in E. inversion E; subst. cbn in Hr. contradiction.
  Qed.

  Lemma tb_clear_colnames : forall tb, map fst (t_cols (tb_clear tb)) = map fst (t_cols tb).
  Proof. intros. unfold tb_clear. cbn. rewrite map_map. reflexivity. Qed.

  (* --- columns *)
  Lemma map_adel_cols : forall (g : str -> Z -> V -> V) c (cols : list (str * col)),
    adel str_eqb c (map (fun q => (fst q, map_ccells (g (fst q)) (snd q))) cols) =
    map (fun q => (fst q, map_ccells (g (fst q)) (snd q))) (adel str_eqb c cols).
  Proof.
    intros. unfold adel.
    apply (filter_map_fst (fun k => negb (str_eqb k c)) (fun q => (fst q, map_ccells (g (fst q)) (snd q)))).
    intro x. reflexivity.
  Qed.

  Lemma new_col_fixed : forall (g : Z -> V -> V) ty rows,
    (forall r v, g r v = v) -> map_ccells g (new_col td ty rows) = new_col td ty rows.
  Proof. intros g ty rows H. apply map_ccells_id. intros r v _. apply H. Qed.

  Lemma addcol_tds_comm : forall g c ty tb,
    (forall r v, g c r v = v) ->
    (fun tb => mkTable (t_rows tb) (adel str_eqb c (t_cols tb) ++ [(c, new_col td ty (t_rows tb))])) (map_tcells g tb)
    = map_tcells g (mkTable (t_rows tb) (adel str_eqb c (t_cols tb) ++ [(c, new_col td ty (t_rows tb))])).
  Proof.
    intros g c ty tb H. unfold map_tcells. cbn [t_rows t_cols]. f_equal. rewrite map_app. cbn [map fst snd].
    rewrite map_adel_cols. f_equal. f_equal. f_equal. symmetry. apply new_col_fixed. apply H.
  Qed.

  Lemma delcol_comm : forall g c tb,
    mkTable (t_rows (map_tcells g tb)) (adel str_eqb c (t_cols (map_tcells g tb)))
    = map_tcells g (mkTable (t_rows tb) (adel str_eqb c (t_cols tb))).
  Proof. intros. unfold map_tcells. cbn [t_rows t_cols]. f_equal. apply map_adel_cols. Qed.

  Lemma rename_key_cols_comm : forall (g g' : str -> Z -> V -> V) c c' tb,
    (forall r v, g' c' r v = g c r v) ->
    (forall c2 r v, c2 <> c' -> c2 <> c -> g' c2 r v = g c2 r v) ->
    mkTable (t_rows (map_tcells g tb)) (rename_key c c' (t_cols (map_tcells g tb)))
    = map_tcells g' (mkTable (t_rows tb) (rename_key c c' (t_cols tb))).
  Proof.
    intros g g' c c' tb H1 H2. unfold map_tcells, rename_key. cbn [t_rows t_cols]. f_equal. rewrite map_adel_cols.
    rewrite !map_map.
    apply map_ext_in. intros [c2 co] Hin. cbn. apply (adel_In str_eqb str_eqb_eq) in Hin. destruct Hin as [_ Hne]. cbn in Hne.
    destruct (str_eqb c2 c) eqn:E; cbn.
    - apply str_eqb_eq in E. subst. f_equal. apply map_ccells_ext. intros r v _. symmetry. apply H1.
    - apply str_eqb_neq in E. f_equal. apply map_ccells_ext. intros r v _. symmetry. apply H2; assumption.
  Qed.

  Lemma set_type_comm : forall (g : Z -> V -> V) ty co, set_type ty (map_ccells g co) = map_ccells g (set_type ty co).
  Proof. intros. destruct ty; reflexivity. Qed.

  Lemma rename_key_In : forall {A} c c' (l : list (str * A)) k x,
    In (k, x) (rename_key c c' l) <-> (k = c' /\ In (c, x) l /\ c <> c') \/ (k <> c' /\ k <> c /\ In (k, x) l).
  Proof.
    intros A c c' l k x. unfold rename_key. rewrite in_map_iff. split.
    - intros [[k0 x0] [E Hin]]. apply (adel_In str_eqb str_eqb_eq) in Hin. destruct Hin as [Hin Hne]. cbn in *.
      destruct (str_eqb k0 c) eqn:E0.
      + apply str_eqb_eq in E0. subst k0. inversion E; subst. left. split; [reflexivity|]. split; assumption.
      + apply str_eqb_neq in E0. inversion E; subst. right. split; [exact Hne|]. split; assumption.
    - intros [[E [Hin Hne]]|[H1 [H2 Hin]]].
      + subst. exists (c, x). cbn. rewrite str_eqb_refl. split; [reflexivity|].
        apply (adel_In str_eqb str_eqb_eq). split; assumption.
      + exists (k, x). cbn. apply str_eqb_neq in H2. rewrite H2. split; [reflexivity|].
        apply (adel_In str_eqb str_eqb_eq). split; assumption.
  Qed.
End Transformers.

(* ------------------------------------------------------------------------------------------------ *)
(* well-formed documents *)

Definition wf_table (tb : table) : Prop :=
  forall c co, In (c, co) (t_cols tb) ->
    is_defunct c = false /\ forall r v, In (r, v) (c_cells co) -> In r (t_rows tb).
Definition wf_doc (d : doc) : Prop :=
  NoDup (map fst d) /\ forall t tb, In (t, tb) d -> is_defunct t = false /\ wf_table tb.

Lemma wf_table_b_ok : forall tb, wf_table_b tb = true -> wf_table tb.
Proof.
  intros tb H c co Hin. unfold wf_table_b in H. rewrite forallb_forall in H. specialize (H _ Hin). cbn in H.
  apply andb_true_iff in H. destruct H as [H1 H2]. apply negb_true_iff in H1. split; [exact H1|].
  intros r v Hrv. rewrite forallb_forall in H2. specialize (H2 _ Hrv). cbn in H2. apply zmem_In. exact H2.
Qed.

Lemma wf_doc_b_ok : forall d, wf_doc_b d = true -> wf_doc d.
Proof.
  intros d H. unfold wf_doc_b in H. apply andb_true_iff in H. destruct H as [H1 H2]. split.
  - apply nodupb_s. exact H1.
  - intros t tb Hin. rewrite forallb_forall in H2. specialize (H2 _ Hin). cbn in H2.
    apply andb_true_iff in H2. destruct H2 as [H2 H3]. apply negb_true_iff in H2. split; [exact H2|].
    apply wf_table_b_ok. exact H3.
Qed.

Lemma nodup_unique : forall (d : doc) t tb tb', NoDup (map fst d) -> In (t, tb) d -> In (t, tb') d -> tb = tb'.
Proof.
  intros d t tb tb' Hnd H1 H2.
  apply (aget_nodup str_eqb str_eqb_eq _ _ _ Hnd) in H1. apply (aget_nodup str_eqb str_eqb_eq _ _ _ Hnd) in H2.
  congruence.
Qed.

Lemma aget_unique : forall (d : doc) t tb tb', NoDup (map fst d) -> aget str_eqb t d = Some tb -> In (t, tb') d -> tb' = tb.
Proof.
  intros d t tb tb' Hnd H1 H2. apply sget_In in H1. eapply nodup_unique; eassumption.
Qed.

Lemma InRow_rows_of : forall d t r, NoDup (map fst d) -> (InRow d t r <-> In r (rows_of t d)).
Proof.
  intros d t r Hnd. unfold InRow, rows_of. split.
  - intros [tb [Hin Hr]]. rewrite (aget_nodup str_eqb str_eqb_eq _ _ _ Hnd Hin). exact Hr.
  - destruct (aget str_eqb t d) eqn:E; [|intros []]. intro Hr. exists t0. split; [apply sget_In; exact E|exact Hr].
Qed.

Lemma amem_tab : forall (d : doc) t, amem str_eqb t d = true <-> exists tb, In (t, tb) d.
Proof.
  intros d t. rewrite (amem_In str_eqb str_eqb_eq). rewrite in_map_iff. split.
  - intros [[t' tb] [E Hin]]. cbn in E. subst. exists tb. exact Hin.
  - intros [tb Hin]. exists (t, tb). split; [reflexivity|exact Hin].
Qed.

Lemma has_col_false : forall d t c tb,
  NoDup (map fst d) -> has_col t c d = false -> In (t, tb) d -> ~ In c (map fst (t_cols tb)).
Proof.
  intros d t c tb Hnd H Hin. unfold has_col in H. rewrite (aget_nodup str_eqb str_eqb_eq _ _ _ Hnd Hin) in H.
  apply (amem_false str_eqb str_eqb_eq). exact H.
Qed.

Lemma has_col_true : forall d t c tb,
  NoDup (map fst d) -> has_col t c d = true -> In (t, tb) d -> In c (map fst (t_cols tb)).
Proof.
  intros d t c tb Hnd H Hin. unfold has_col in H. rewrite (aget_nodup str_eqb str_eqb_eq _ _ _ Hnd Hin) in H.
  apply (amem_In str_eqb str_eqb_eq). exact H.
Qed.

(* ------------------------------------------------------------------------------------------------ *)
(* stage 1: on documents, DocActions and TableDataSet agree whenever DocActions succeeds *)

Lemma aget_rev_nodup : forall {A} k (l : list (Z * A)), NoDup (map fst l) -> aget Z.eqb k (rev l) = aget Z.eqb k l.
Proof.
  intros A k l Hnd. destruct (aget Z.eqb k (rev l)) eqn:E.
  - apply zget_In in E. apply in_rev in E. symmetry. apply (aget_nodup Z.eqb Z.eqb_eq); assumption.
  - apply (aget_None Z.eqb Z.eqb_eq) in E. symmetry. apply (aget_None Z.eqb Z.eqb_eq).
    intro H. apply E. rewrite map_rev. apply in_rev. rewrite rev_involutive. exact H.
Qed.

Lemma combine_fst_nodup : forall {A} (rs : list Z) (vs : list A), NoDup rs -> NoDup (map fst (combine rs vs)).
Proof.
  intros A rs. induction rs as [|r rs IH]; intros vs Hnd; cbn; [constructor|].
  destruct vs as [|v vs]; cbn; [constructor|]. inversion Hnd; subst. constructor.
  - intro H. apply in_map_iff in H. destruct H as [[r' v'] [E Hin]]. cbn in E. subst. apply in_combine_fst in Hin. contradiction.
  - apply IH. assumption.
Qed.

Lemma map_lookup_combine : forall (dflt : V) rs vs,
  NoDup rs -> length vs = length rs ->
  map (fun r => (r, match zget_last r (combine rs vs) with Some v => v | None => dflt end)) rs = combine rs vs.
Proof.
  intros dflt rs vs Hnd Hlen.
  assert (H : forall r, zget_last r (combine rs vs) = aget Z.eqb r (combine rs vs)).
  { intro r. unfold zget_last. apply aget_rev_nodup. apply combine_fst_nodup. exact Hnd. }
  erewrite map_ext; [|intro r; rewrite H; reflexivity]. clear H.
  revert vs Hlen. induction rs as [|r0 rs IH]; intros vs Hlen; [reflexivity|].
  destruct vs as [|v0 vs]; [discriminate|]. cbn in Hlen. inversion Hlen as [Hlen']. inversion Hnd; subst.
  cbn [map combine aget fst snd]. rewrite Z.eqb_refl. f_equal.
  transitivity (map (fun r => (r, match aget Z.eqb r (combine rs vs) with Some v => v | None => dflt end)) rs).
  - apply map_ext_in. intros r Hr.
    destruct (Z.eqb r0 r) eqn:E; [|reflexivity]. apply Z.eqb_eq in E. subst. contradiction.
  - apply IH; assumption.
Qed.

Lemma zdedup_nodup : forall l, NoDup l -> zdedup l = l.
Proof.
  induction l as [|x l IH]; intro H; [reflexivity|]. inversion H; subst. cbn. f_equal. rewrite IH by assumption.
  rewrite <- (filter_ext_in (fun _ => true)).
  - clear. induction l; cbn; [reflexivity|f_equal; assumption].
  - intros y Hy. symmetry. apply negb_true_iff. apply Z.eqb_neq. intro E. subst. contradiction.
Qed.

Lemma eff_rows_fresh : forall rs, rows_fresh rs = true -> eff_rows rs = rs.
Proof.
  intros rs H. unfold rows_fresh in H. apply andb_true_iff in H. destruct H as [H1 H2]. unfold eff_rows.
  assert (E : filter (fun r => 0 <? r) rs = rs).
  { clear H2. induction rs as [|r rs IH]; [reflexivity|]. cbn in *. apply andb_true_iff in H1. destruct H1 as [Hr H1].
    rewrite Hr. f_equal. apply IH. exact H1. }
  rewrite E. apply zdedup_nodup. apply nodupb_z. exact H2.
Qed.

Lemma colvals_ok_len : forall rs cols c vs,
  colvals_ok rs cols = true -> aget str_eqb c cols = Some vs -> length vs = length rs.
Proof.
  intros rs cols c vs H Hc. unfold colvals_ok in H. apply andb_true_iff in H. destruct H as [H _].
  rewrite forallb_forall in H. apply sget_In in Hc. specialize (H _ Hc). cbn in H. apply Nat.eqb_eq in H. exact H.
Qed.

Section Agreement.
  Variable td : str -> V.

  Lemma eng_add_rows_tds : forall rs cols tb,
    rows_fresh rs = true -> colvals_ok rs cols = true -> eng_add_rows td rs cols tb = tds_add_rows td rs cols tb.
  Proof.
    intros rs cols tb Hf Hok. unfold eng_add_rows, tds_add_rows. rewrite (eff_rows_fresh _ Hf). f_equal.
    apply map_ext. intros [c co]. cbn. f_equal. f_equal. f_equal.
    destruct (aget str_eqb c cols) eqn:E; [|reflexivity].
    apply map_lookup_combine.
    - unfold rows_fresh in Hf. apply andb_true_iff in Hf. apply nodupb_z. apply Hf.
    - eapply colvals_ok_len; eassumption.
  Qed.

  (* the hypotheses under which the two interpreters are compared: the part of SC1 that concerns row ids *)
  Definition rows_cond (a : action) : bool :=
    match a with
    | BulkAddRecord _ rs _ | ReplaceTableData _ rs _ => rows_fresh rs
    | _ => true
    end.

  Lemma eng_tds_bulk : forall a d d',
    NoDup (map fst d) -> action_ok a = true -> bulk_of a = a -> rows_cond a = true ->
    eng_bulk td a d = Ok d' -> tds_bulk td a d = Ok d'.
  Proof.
    intros a d d' Hnd Hok Hb Hrc H. destruct a; cbn in Hb; try discriminate; cbn [eng_bulk tds_bulk] in *.
    - (* BulkAddRecord *)
      destruct (amem str_eqb t d) eqn:Et; cbn in H; [|discriminate].
      destruct (existsb _ rs); [discriminate|]. destruct (forallb _ cols); cbn in H; [|discriminate].
      destruct (existsb (fun r => r <? 0) rs); [discriminate|]. inversion H; subst. f_equal.
      apply upd_table_ext_in. intros tb _. symmetry. apply eng_add_rows_tds; assumption.
    - (* BulkRemoveRecord *) exact H.
    - (* BulkUpdateRecord *)
      destruct (amem str_eqb t d) eqn:Et; cbn in H; [|discriminate].
      destruct (forallb (fun r => zmem r (rows_of t d)) rs) eqn:Er; cbn in H; [|discriminate].
      destruct (forallb _ cols); cbn in H; [|discriminate]. exact H.
    - (* ReplaceTableData *)
      destruct (amem str_eqb t d) eqn:Et; cbn in H; [|discriminate].
      destruct (existsb (fun r => r <? 0) rs); [discriminate|]. inversion H; subst. f_equal.
      apply upd_table_ext_in. intros tb _. symmetry. apply eng_add_rows_tds; assumption.
    - (* AddColumn *)
      destruct ty as [ty|]; [|discriminate].
      destruct (amem str_eqb t d) eqn:Et; cbn in H; [|discriminate].
      destruct (has_col t c d) eqn:Ec; [discriminate|]. inversion H; subst. f_equal.
      apply upd_table_ext_in. intros tb Hin. f_equal. f_equal.
      apply (adel_notin str_eqb str_eqb_eq). eapply has_col_false; eassumption.
    - (* RemoveColumn *)
      destruct (amem str_eqb t d) eqn:Et; cbn in H; [|discriminate].
      destruct (has_col t c d) eqn:Ec; cbn in H; [|discriminate]. exact H.
    - (* RenameColumn *)
      destruct (amem str_eqb t d) eqn:Et; cbn in H; [|discriminate].
      destruct (has_col t c d) eqn:Ec; cbn in H; [|discriminate].
      destruct (has_col t c' d) eqn:Ec'; [discriminate|]. inversion H; subst. f_equal.
      destruct (str_eqb c c') eqn:E; [apply str_eqb_eq in E; subst; congruence|].
      apply upd_table_ext_in. intros tb Hin. f_equal. unfold rename_key.
      rewrite (adel_notin str_eqb str_eqb_eq); [reflexivity|]. eapply has_col_false; eassumption.
    - (* ModifyColumn *)
      destruct (amem str_eqb t d) eqn:Et; cbn in H; [|discriminate].
      destruct (has_col t c d) eqn:Ec; cbn in H; [|discriminate]. exact H.
    - (* AddTable *)
      destruct (amem str_eqb t d) eqn:Et; [discriminate|]. inversion H; subst. f_equal. f_equal.
      apply (adel_notin str_eqb str_eqb_eq). apply (amem_false str_eqb str_eqb_eq). exact Et.
    - (* RemoveTable *)
      destruct (amem str_eqb t d) eqn:Et; [exact H|discriminate].
    - (* RenameTable *)
      destruct (amem str_eqb t d) eqn:Et; cbn in H; [|discriminate].
      destruct (amem str_eqb t' d) eqn:Et'; [discriminate|]. inversion H; subst. f_equal.
      destruct (str_eqb t t') eqn:E; [apply str_eqb_eq in E; subst; congruence|].
      unfold rename_key. rewrite (adel_notin str_eqb str_eqb_eq); [reflexivity|].
      apply (amem_false str_eqb str_eqb_eq). exact Et'.
  Qed.

  Lemma bulk_of_idem : forall a, bulk_of (bulk_of a) = bulk_of a.
  Proof. destruct a; reflexivity. Qed.

  Lemma action_ok_bulk : forall a, action_ok (bulk_of a) = action_ok a.
  Proof. intro a. unfold action_ok. rewrite bulk_of_idem. reflexivity. Qed.

  Lemma eng_tds_apply : forall a d d',
    NoDup (map fst d) -> rows_cond (bulk_of a) = true -> eng_apply td a d = Ok d' -> tds_apply td a d = Ok d'.
  Proof.
    intros a d d' Hnd Hrc H. unfold eng_apply, tds_apply in *. destruct (action_ok a) eqn:Hok; [|discriminate].
    apply eng_tds_bulk; try assumption.
    - rewrite action_ok_bulk. exact Hok.
    - apply bulk_of_idem.
  Qed.
End Agreement.

(* ------------------------------------------------------------------------------------------------ *)
(* the summary: pending deltas and presence flags after each operation *)

Definition pa_get (S : summary) (t : str) (r : Z) : option bool :=
  match aget str_eqb t (sm_tables S) with Some td => aget Z.eqb r (td_pa td) | None => None end.

(* the engine's value of a cell, given the replayed one: the `after` of its pending delta, if any *)
Definition ov (S : summary) (t c : str) (r : Z) (v : V) : V :=
  match sdelta S t c r with Some p => snd p | None => v end.

Definition dl_get (deltas : list (str * rowdeltas)) (c : str) (r : Z) : option (V * V) :=
  match aget str_eqb c deltas with Some dl => aget Z.eqb r dl | None => None end.

Lemma sdelta_dl : forall S t c r,
  sdelta S t c r = match aget str_eqb t (sm_tables S) with Some td => dl_get (td_deltas td) c r | None => None end.
Proof. reflexivity. Qed.

Lemma sdelta_for_table : forall S t c r, dl_get (td_deltas (for_table t S)) c r = sdelta S t c r.
Proof. intros. unfold for_table. rewrite sdelta_dl. destruct (aget str_eqb t (sm_tables S)); reflexivity. Qed.

Lemma pa_for_table : forall S t r, aget Z.eqb r (td_pa (for_table t S)) = pa_get S t r.
Proof. intros. unfold for_table, pa_get. destruct (aget str_eqb t (sm_tables S)); reflexivity. Qed.

Lemma sdelta_set_table : forall S t td' t2 c r,
  sdelta (set_table t td' S) t2 c r = if str_eqb t t2 then dl_get (td_deltas td') c r else sdelta S t2 c r.
Proof.
  intros. rewrite !sdelta_dl. unfold set_table. cbn [sm_tables]. rewrite (aget_aset str_eqb str_eqb_eq).
  destruct (str_eqb t t2); reflexivity.
Qed.

Lemma pa_get_set_table : forall S t td' t2 r,
  pa_get (set_table t td' S) t2 r = if str_eqb t t2 then aget Z.eqb r (td_pa td') else pa_get S t2 r.
Proof.
  intros. unfold pa_get, set_table. cbn [sm_tables]. rewrite (aget_aset str_eqb str_eqb_eq).
  destruct (str_eqb t t2); reflexivity.
Qed.

Lemma fold_aset_get : forall (b : bool) rs m0 r,
  aget Z.eqb r (fold_left (fun m x => aset Z.eqb x b m) rs m0) = if zmem r rs then Some b else aget Z.eqb r m0.
Proof.
  intros b rs. induction rs as [|x rs IH]; intros m0 r; cbn [fold_left]; [reflexivity|].
  rewrite IH. unfold zmem. cbn [existsb]. fold (zmem r rs). destruct (zmem r rs); [rewrite orb_true_r; reflexivity|].
  rewrite orb_false_r. rewrite (aget_aset Z.eqb Z.eqb_eq). rewrite Z.eqb_sym. reflexivity.
Qed.

(* add_records / remove_records *)
Lemma sdelta_add_records : forall S t rs t2 c r, sdelta (add_records t rs S) t2 c r = sdelta S t2 c r.
Proof.
  intros. unfold add_records. rewrite sdelta_set_table. cbn [td_deltas]. destruct (str_eqb t t2) eqn:E; [|reflexivity].
  apply str_eqb_eq in E. subst. apply sdelta_for_table.
Qed.

Lemma sdelta_remove_records : forall S t rs t2 c r, sdelta (remove_records t rs S) t2 c r = sdelta S t2 c r.
Proof.
  intros. unfold remove_records. rewrite sdelta_set_table. cbn [td_deltas]. destruct (str_eqb t t2) eqn:E; [|reflexivity].
  apply str_eqb_eq in E. subst. apply sdelta_for_table.
Qed.

Lemma pa_get_add_records : forall S t rs t2 r,
  pa_get (add_records t rs S) t2 r = if str_eqb t t2 && zmem r rs then Some true else pa_get S t2 r.
Proof.
  intros. unfold add_records. rewrite pa_get_set_table. cbn [td_pa]. destruct (str_eqb t t2) eqn:E; [|reflexivity].
  apply str_eqb_eq in E. subst. rewrite fold_aset_get. rewrite pa_for_table. reflexivity.
Qed.

Lemma pa_get_remove_records : forall S t rs t2 r,
  pa_get (remove_records t rs S) t2 r = if str_eqb t t2 && zmem r rs then Some false else pa_get S t2 r.
Proof.
  intros. unfold remove_records. rewrite pa_get_set_table. cbn [td_pa]. destruct (str_eqb t t2) eqn:E; [|reflexivity].
  apply str_eqb_eq in E. subst. rewrite fold_aset_get. rewrite pa_for_table. reflexivity.
Qed.

(* rename_column *)
Lemma pa_get_rename_column : forall S t old new t2 r, pa_get (rename_column t old new S) t2 r = pa_get S t2 r.
Proof.
  intros. unfold rename_column. rewrite pa_get_set_table. cbn [td_pa]. destruct (str_eqb t t2) eqn:E; [|reflexivity].
  apply str_eqb_eq in E. subst. apply pa_for_table.
Qed.

Lemma sdelta_rename_column_other_table : forall S t old new t2 c r,
  t2 <> t -> sdelta (rename_column t old new S) t2 c r = sdelta S t2 c r.
Proof.
  intros. unfold rename_column. rewrite sdelta_set_table. destruct (str_eqb t t2) eqn:E; [|reflexivity].
  apply str_eqb_eq in E. congruence.
Qed.

Lemma sdelta_add_column : forall S t new t2 c r, sdelta (rename_column t None new S) t2 c r = sdelta S t2 c r.
Proof.
  intros. unfold rename_column. rewrite sdelta_set_table. cbn [td_deltas]. destruct (str_eqb t t2) eqn:E; [|reflexivity].
  apply str_eqb_eq in E. subst. apply sdelta_for_table.
Qed.

(* moving a dict entry: d[n] = d.pop(o) when o is present *)
Lemma aget_move : forall {A} o n (l : list (str * A)) k,
  aget str_eqb k (match aget str_eqb o l with Some x => aset str_eqb n x (adel str_eqb o l) | None => l end) =
  match aget str_eqb o l with
  | Some x => if str_eqb n k then Some x else if str_eqb o k then None else aget str_eqb k l
  | None => aget str_eqb k l
  end.
Proof.
  intros A o n l k. destruct (aget str_eqb o l) eqn:E; [|reflexivity].
  rewrite (aget_aset str_eqb str_eqb_eq). destruct (str_eqb n k); [reflexivity|].
  destruct (str_eqb o k) eqn:E2.
  - apply str_eqb_eq in E2. subst. apply (aget_adel_same str_eqb).
  - apply (aget_adel_other str_eqb str_eqb_eq). apply str_eqb_neq in E2. congruence.
Qed.

Lemma key_clear_sdelta : forall S t c r, key_clear S t c = true -> sdelta S t c r = None.
Proof.
  intros S t c r H. unfold key_clear in H. rewrite sdelta_dl. destruct (aget str_eqb t (sm_tables S)); [|reflexivity].
  unfold dl_get. destruct (aget str_eqb c (td_deltas t0)) as [[|x l]|]; [reflexivity|discriminate|reflexivity].
Qed.

Lemma sdelta_rename_column : forall S t o n c r,
  sdelta (rename_column t (Some o) n S) t c r =
  match aget str_eqb o (td_deltas (for_table t S)) with
  | Some _ => if str_eqb n c then sdelta S t o r else if str_eqb o c then None else sdelta S t c r
  | None => sdelta S t c r
  end.
Proof.
  intros. unfold rename_column. rewrite sdelta_set_table. rewrite str_eqb_refl. cbn [td_deltas]. unfold dl_get at 1.
  rewrite aget_move. rewrite <- !sdelta_for_table. unfold dl_get.
  destruct (aget str_eqb o (td_deltas (for_table t S))) eqn:E; [|reflexivity].
  destruct (str_eqb n c); [reflexivity|]. destruct (str_eqb o c); reflexivity.
Qed.

Lemma sdelta_rename_column_other : forall S t o n c r,
  c <> n -> c <> o -> sdelta (rename_column t (Some o) n S) t c r = sdelta S t c r.
Proof.
  intros S t o n c r H1 H2. rewrite sdelta_rename_column. destruct (aget str_eqb o _); [|reflexivity].
  assert (E1 : str_eqb n c = false) by (apply str_eqb_neq; congruence).
  assert (E2 : str_eqb o c = false) by (apply str_eqb_neq; congruence).
  rewrite E1, E2. reflexivity.
Qed.

Lemma sdelta_rename_column_new : forall S t o n r,
  key_clear S t n = true -> sdelta (rename_column t (Some o) n S) t n r = sdelta S t o r.
Proof.
  intros S t o n r H. rewrite sdelta_rename_column. rewrite str_eqb_refl.
  destruct (aget str_eqb o (td_deltas (for_table t S))) eqn:E; [reflexivity|].
  rewrite (key_clear_sdelta _ _ _ _ H). rewrite <- sdelta_for_table. unfold dl_get. rewrite E. reflexivity.
Qed.

(* rename_table *)
Lemma sdelta_rename_table : forall S o n t2 c r,
  sdelta (rename_table (Some o) n S) t2 c r =
  match aget str_eqb o (sm_tables S) with
  | Some _ => if str_eqb n t2 then sdelta S o c r else if str_eqb o t2 then None else sdelta S t2 c r
  | None => sdelta S t2 c r
  end.
Proof.
  intros. rewrite !sdelta_dl. unfold rename_table. cbn [sm_tables]. rewrite aget_move.
  destruct (aget str_eqb o (sm_tables S)) eqn:E; [|reflexivity].
  destruct (str_eqb n t2); [reflexivity|]. destruct (str_eqb o t2); reflexivity.
Qed.

Lemma pa_get_rename_table : forall S o n t2 r,
  pa_get (rename_table (Some o) n S) t2 r =
  match aget str_eqb o (sm_tables S) with
  | Some _ => if str_eqb n t2 then pa_get S o r else if str_eqb o t2 then None else pa_get S t2 r
  | None => pa_get S t2 r
  end.
Proof.
  intros. unfold pa_get, rename_table. cbn [sm_tables]. rewrite aget_move.
  destruct (aget str_eqb o (sm_tables S)) eqn:E; [|reflexivity].
  destruct (str_eqb n t2); [reflexivity|]. destruct (str_eqb o t2); reflexivity.
Qed.

Lemma table_clear_none : forall S t, table_clear S t = true -> aget str_eqb t (sm_tables S) = None.
Proof.
  intros S t H. unfold table_clear in H. apply negb_true_iff in H. unfold amem in H.
  destruct (aget str_eqb t (sm_tables S)); [discriminate|reflexivity].
Qed.

Lemma sdelta_add_table : forall S n t2 c r, sdelta (rename_table None n S) t2 c r = sdelta S t2 c r.
Proof. reflexivity. Qed.

Lemma pa_get_add_table : forall S n t2 r, pa_get (rename_table None n S) t2 r = pa_get S t2 r.
Proof. reflexivity. Qed.

(* add_changes, one change at a time *)
Lemma adel_adel : forall {A} k (l : list (str * A)), adel str_eqb k (adel str_eqb k l) = adel str_eqb k l.
Proof.
  intros A k l. unfold adel. induction l as [|p l IH]; cbn; [reflexivity|].
  destruct (str_eqb (fst p) k) eqn:E; cbn; [exact IH|]. rewrite E. cbn. f_equal. exact IH.
Qed.

Lemma aset_aset : forall {A} k (v1 v2 : A) l, aset str_eqb k v2 (aset str_eqb k v1 l) = aset str_eqb k v2 l.
Proof.
  intros. unfold aset. f_equal. cbn [adel filter fst]. rewrite str_eqb_refl. cbn [negb]. apply adel_adel.
Qed.

Lemma for_table_set_table : forall t td' S, for_table t (set_table t td' S) = td'.
Proof. intros. unfold for_table, set_table. cbn [sm_tables]. rewrite (aget_aset_same str_eqb str_eqb_eq). reflexivity. Qed.

Lemma set_table_set_table : forall t td1 td2 S, set_table t td2 (set_table t td1 S) = set_table t td2 S.
Proof. intros. unfold set_table. cbn [sm_tables sm_tren]. f_equal. apply aset_aset. Qed.

Lemma add_changes_cons : forall t c ch chs S,
  add_changes t c (ch :: chs) S = add_changes t c chs (add_changes t c [ch] S).
Proof.
  intros. unfold add_changes. cbn [fold_left]. rewrite for_table_set_table. cbn [td_pb td_pa td_cren td_deltas].
  rewrite (aget_aset_same str_eqb str_eqb_eq). rewrite set_table_set_table. rewrite aset_aset. reflexivity.
Qed.

Lemma sdelta_add_change : forall S t c r b a t2 c2 r2,
  sdelta (add_changes t c [(r, (b, a))] S) t2 c2 r2 =
  if str_eqb t t2 && str_eqb c c2 && Z.eqb r r2
  then Some (match sdelta S t c r with Some p => fst p | None => b end, a)
  else sdelta S t2 c2 r2.
Proof.
  intros. unfold add_changes. rewrite sdelta_set_table. cbn [td_deltas fold_left].
  destruct (str_eqb t t2) eqn:Et; cbn [andb]; [|reflexivity]. apply str_eqb_eq in Et. subst t2.
  unfold dl_get at 1. rewrite (aget_aset str_eqb str_eqb_eq).
  destruct (str_eqb c c2) eqn:Ec; cbn [andb].
  - apply str_eqb_eq in Ec. subst c2. unfold merge_change. cbn [fst snd]. rewrite (aget_aset Z.eqb Z.eqb_eq).
    rewrite <- !sdelta_for_table. unfold dl_get.
    destruct (aget str_eqb c (td_deltas (for_table t S))) eqn:E; destruct (Z.eqb r r2); reflexivity.
  - apply sdelta_for_table.
Qed.

Lemma pa_get_add_changes : forall S t c chs t2 r, pa_get (add_changes t c chs S) t2 r = pa_get S t2 r.
Proof.
  intros. unfold add_changes. rewrite pa_get_set_table. cbn [td_pa]. destruct (str_eqb t t2) eqn:E; [|reflexivity].
  apply str_eqb_eq in E. subst. apply pa_for_table.
Qed.

(* ------------------------------------------------------------------------------------------------ *)
(* more about cell maps *)

Definition hset (t c : str) (ups : list (Z * V)) : str -> str -> Z -> V -> V :=
  fun t2 c2 r2 v =>
    if str_eqb t2 t && str_eqb c2 c then match zget_last r2 ups with Some v' => v' | None => v end else v.

Lemma set_cells_as_map : forall t c ups d,
  upd_table t (upd_col c (set_cells ups)) d = map_cells (hset t c ups) d.
Proof.
  intros t c ups d. unfold upd_table, map_cells. apply map_ext. intros [t2 tb]. cbn [fst snd].
  destruct (str_eqb t2 t) eqn:Et.
  - f_equal. unfold upd_col, map_tcells. f_equal. apply map_ext. intros [c2 co]. cbn [fst snd].
    destruct (str_eqb c2 c) eqn:Ec.
    + f_equal. unfold set_cells, map_ccells. f_equal. apply map_ext. intros [r v]. cbn [fst snd].
      unfold hset. rewrite Et, Ec. reflexivity.
    + f_equal. symmetry. apply map_ccells_id. intros r v _. unfold hset. rewrite Et, Ec. reflexivity.
  - f_equal. symmetry. apply map_tcells_id. intros c2 r v _. unfold hset. rewrite Et. reflexivity.
Qed.

Lemma InCell_map_cells : forall f d t c r v',
  InCell (map_cells f d) t c r v' <-> exists v, InCell d t c r v /\ v' = f t c r v.
Proof.
  intros f d t c r v'. unfold InCell, TCell, map_cells. split.
  - intros [tb [Hin [co [Hc Hr]]]]. apply in_map_iff in Hin. destruct Hin as [[t0 tb0] [E Hin]]. cbn in E.
    inversion E; subst. unfold map_tcells in Hc. cbn in Hc. apply in_map_iff in Hc.
    destruct Hc as [[c0 co0] [E2 Hc]]. cbn in E2. inversion E2; subst. unfold map_ccells in Hr. cbn in Hr.
    apply in_map_iff in Hr. destruct Hr as [[r0 v0] [E3 Hr]]. cbn in E3. inversion E3; subst.
    exists v0. split; [|reflexivity]. exists tb0. split; [exact Hin|]. exists co0. split; assumption.
  - intros [v [[tb [Hin [co [Hc Hr]]]] E]]. subst. exists (map_tcells (f t) tb). split.
    + apply in_map_iff. exists (t, tb). split; [reflexivity|exact Hin].
    + exists (map_ccells (f t c) co). split.
      * unfold map_tcells. cbn. apply in_map_iff. exists (c, co). split; [reflexivity|exact Hc].
      * unfold map_ccells. cbn. apply in_map_iff. exists (r, v). split; [reflexivity|exact Hr].
Qed.

Lemma wf_map_cells : forall f d, wf_doc d -> wf_doc (map_cells f d).
Proof.
  intros f d [Hnd H]. split; [rewrite map_cells_fst; exact Hnd|].
  intros t tb Hin. unfold map_cells in Hin. apply in_map_iff in Hin. destruct Hin as [[t0 tb0] [E Hin]]. cbn in E.
  inversion E; subst. destruct (H _ _ Hin) as [H1 H2]. split; [exact H1|].
  intros c co Hc. unfold map_tcells in Hc. cbn in Hc. apply in_map_iff in Hc. destruct Hc as [[c0 co0] [E2 Hc]].
  cbn in E2. inversion E2; subst. destruct (H2 _ _ Hc) as [H3 H4]. split; [exact H3|].
  intros r v Hr. unfold map_ccells in Hr. cbn in Hr. apply in_map_iff in Hr. destruct Hr as [[r0 v0] [E3 Hr]].
  cbn in E3. inversion E3; subst. cbn. eapply H4. exact Hr.
Qed.

Lemma cell_values_In : forall d t c r v, InCell d t c r v -> In v (cell_values d t c r).
Proof.
  intros d t c r v [tb [Hin [co [Hc Hr]]]]. unfold cell_values. apply in_flat_map. exists (t, tb). split; [exact Hin|].
  cbn. rewrite str_eqb_refl. apply in_flat_map. exists (c, co). split; [exact Hc|]. cbn. rewrite str_eqb_refl.
  apply in_map_iff. exists (r, v). split; [reflexivity|]. apply filter_In. split; [exact Hr|]. cbn. apply Z.eqb_refl.
Qed.

Lemma zget_last_single : forall (r r2 : Z) (a : V), zget_last r2 [(r, a)] = if Z.eqb r r2 then Some a else None.
Proof. intros. unfold zget_last. cbn. reflexivity. Qed.

Lemma combine_map_fst : forall {A} (rs : list Z) (f : Z -> A), map fst (combine rs (map f rs)) = rs.
Proof. intros A rs f. induction rs as [|r rs IH]; cbn; [reflexivity|f_equal; exact IH]. Qed.

Lemma in_combine_map : forall {A} (rs : list Z) (f : Z -> A) r v, In (r, v) (combine rs (map f rs)) -> v = f r.
Proof.
  intros A rs f r v. induction rs as [|r0 rs IH]; cbn; [intros []|].
  intros [E|H]; [inversion E; reflexivity|apply IH; exact H].
Qed.

Lemma zget_last_combine_map : forall {A} (rs : list Z) (f : Z -> A) r,
  zget_last r (combine rs (map f rs)) = if zmem r rs then Some (f r) else None.
Proof.
  intros A rs f r. destruct (zget_last r (combine rs (map f rs))) eqn:E.
  - apply zget_last_In in E. assert (Hr : In r rs) by (eapply in_combine_fst; exact E).
    apply in_combine_map in E. subst. apply zmem_In in Hr. rewrite Hr. reflexivity.
  - apply zget_last_None in E. rewrite combine_map_fst in E. apply zmem_false in E. rewrite E. reflexivity.
Qed.

(* ------------------------------------------------------------------------------------------------ *)
(* the simulation invariant between the replayed document dt, the summary S and the engine's document de *)

(* rep = false: the code as it is; rep = true: the repaired variant (see Model/StoredLog.v, `repaired`).  Everything
   below is proved for both. *)
Definition pb_get (S : summary) (t : str) (r : Z) : option bool :=
  match aget str_eqb t (sm_tables S) with Some td => aget Z.eqb r (td_pb td) | None => None end.
Definition readded (S : summary) (t : str) (r : Z) : bool := readded_b (sm_tables S) t r.

Lemma readded_spec : forall S t r, readded S t r = true <-> pb_get S t r = Some true /\ pa_get S t r = Some true.
Proof.
  intros S t r. unfold readded, readded_b, pb_get, pa_get. destruct (aget str_eqb t (sm_tables S)) as [tdl|].
  - destruct (aget Z.eqb r (td_pb tdl)) as [[|]|]; destruct (aget Z.eqb r (td_pa tdl)) as [[|]|]; split;
      try discriminate; try (intros [H1 H2]; discriminate); intros; try reflexivity; split; reflexivity.
  - split; [discriminate|intros [H _]; discriminate].
Qed.

Lemma pb_for_table : forall S t r, aget Z.eqb r (td_pb (for_table t S)) = pb_get S t r.
Proof. intros. unfold for_table, pb_get. destruct (aget str_eqb t (sm_tables S)); reflexivity. Qed.

Lemma pb_get_set_table : forall S t td' t2 r,
  pb_get (set_table t td' S) t2 r = if str_eqb t t2 then aget Z.eqb r (td_pb td') else pb_get S t2 r.
Proof.
  intros. unfold pb_get, set_table. cbn [sm_tables]. rewrite (aget_aset str_eqb str_eqb_eq).
  destruct (str_eqb t t2); reflexivity.
Qed.

Lemma setdefault_get : forall (b : bool) x m r,
  aget Z.eqb r (setdefault x b m) = match aget Z.eqb r m with Some v => Some v | None => if Z.eqb x r then Some b else None end.
Proof.
  intros b x m r. unfold setdefault, amem. destruct (aget Z.eqb x m) eqn:E.
  - destruct (aget Z.eqb r m) eqn:E2; [reflexivity|]. destruct (Z.eqb_spec x r); [subst; congruence|reflexivity].
  - rewrite (aget_aset Z.eqb Z.eqb_eq). destruct (Z.eqb_spec x r).
    + subst. rewrite E. reflexivity.
    + destruct (aget Z.eqb r m); reflexivity.
Qed.

Lemma fold_setdefault_get : forall (b : bool) rs m0 r,
  aget Z.eqb r (fold_left (fun m x => setdefault x b m) rs m0) =
  match aget Z.eqb r m0 with Some v => Some v | None => if zmem r rs then Some b else None end.
Proof.
  intros b rs. induction rs as [|x rs IH]; intros m0 r; cbn [fold_left].
  - destruct (aget Z.eqb r m0); reflexivity.
  - rewrite IH. rewrite setdefault_get. unfold zmem. cbn [existsb]. fold (zmem r rs). rewrite (Z.eqb_sym r x).
    destruct (aget Z.eqb r m0); [reflexivity|]. destruct (Z.eqb x r); reflexivity.
Qed.

Lemma pb_get_add_records : forall S t rs t2 r,
  pb_get (add_records t rs S) t2 r =
  if str_eqb t t2 then match pb_get S t r with Some v => Some v | None => if zmem r rs then Some false else None end
  else pb_get S t2 r.
Proof.
  intros. unfold add_records. rewrite pb_get_set_table. cbn [td_pb]. destruct (str_eqb t t2); [|reflexivity].
  rewrite fold_setdefault_get. rewrite pb_for_table. reflexivity.
Qed.

Lemma pb_get_remove_records : forall S t rs t2 r,
  pb_get (remove_records t rs S) t2 r =
  if str_eqb t t2 then match pb_get S t r with Some v => Some v | None => if zmem r rs then Some true else None end
  else pb_get S t2 r.
Proof.
  intros. unfold remove_records. rewrite pb_get_set_table. cbn [td_pb]. destruct (str_eqb t t2); [|reflexivity].
  rewrite fold_setdefault_get. rewrite pb_for_table. reflexivity.
Qed.

Lemma pb_get_add_changes : forall S t c chs t2 r, pb_get (add_changes t c chs S) t2 r = pb_get S t2 r.
Proof.
  intros. unfold add_changes. rewrite pb_get_set_table. cbn [td_pb]. destruct (str_eqb t t2) eqn:E; [|reflexivity].
  apply str_eqb_eq in E. subst. apply pb_for_table.
Qed.

Lemma pb_get_rename_column : forall S t old new t2 r, pb_get (rename_column t old new S) t2 r = pb_get S t2 r.
Proof.
  intros. unfold rename_column. rewrite pb_get_set_table. cbn [td_pb]. destruct (str_eqb t t2) eqn:E; [|reflexivity].
  apply str_eqb_eq in E. subst. apply pb_for_table.
Qed.

Lemma pb_get_rename_table : forall S o n t2 r,
  pb_get (rename_table (Some o) n S) t2 r =
  match aget str_eqb o (sm_tables S) with
  | Some _ => if str_eqb n t2 then pb_get S o r else if str_eqb o t2 then None else pb_get S t2 r
  | None => pb_get S t2 r
  end.
Proof.
  intros. unfold pb_get, rename_table. cbn [sm_tables]. rewrite aget_move.
  destruct (aget str_eqb o (sm_tables S)) eqn:E; [|reflexivity].
  destruct (str_eqb n t2); [reflexivity|]. destruct (str_eqb o t2); reflexivity.
Qed.

(* the flags of a row being equal, so is `readded` *)
Lemma readded_same : forall S S' t t' r,
  pb_get S' t' r = pb_get S t r -> pa_get S' t' r = pa_get S t r -> readded S' t' r = readded S t r.
Proof.
  intros S S' t t' r H1 H2. destruct (readded S t r) eqn:E.
  - apply readded_spec in E. apply readded_spec. rewrite H1, H2. exact E.
  - destruct (readded S' t' r) eqn:E'; [|reflexivity]. apply readded_spec in E'. rewrite H1, H2 in E'.
    apply readded_spec in E'. congruence.
Qed.

Section Rep.
Variable rep : bool.

Record Inv (dt : doc) (S : summary) (de : doc) : Prop := mkInv {
  inv_eq : de = map_cells (ov S) dt;
  (* a cell with a pending delta still holds, in the replayed document, the delta's first `before` *)
  inv_lag : forall t c r ba v, sdelta S t c r = Some ba -> InCell dt t c r v ->
                               v = fst ba \/ (rep = true /\ readded S t r = true);
  (* rows flagged as gone are gone; rows with a pending delta that are gone are flagged *)
  inv_gone : forall t r, pa_get S t r = Some false -> ~ InRow dt t r;
  inv_there : forall t c r ba, is_defunct t = false -> is_defunct c = false -> sdelta S t c r = Some ba ->
                               ~ InRow dt t r -> pa_get S t r = Some false;
  inv_wf : wf_doc dt
}.

Lemma inv_init : forall d, wf_doc d -> Inv d sum_empty d.
Proof.
  intros d Hwf. constructor.
  - symmetry. apply map_cells_id. intros. reflexivity.
  - intros t c r ba v H. discriminate.
  - intros t r H. discriminate.
  - intros t c r ba _ _ H. discriminate.
  - exact Hwf.
Qed.

Lemma InCell_InRow : forall d t c r v, wf_doc d -> InCell d t c r v -> InRow d t r.
Proof.
  intros d t c r v [_ Hwf] [tb [Hin [co [Hc Hr]]]]. exists tb. split; [exact Hin|].
  destruct (Hwf _ _ Hin) as [_ Ht]. destruct (Ht _ _ Hc) as [_ Hrows]. eapply Hrows. exact Hr.
Qed.

Lemma InCell_names : forall d t c r v, wf_doc d -> InCell d t c r v -> is_defunct t = false /\ is_defunct c = false.
Proof.
  intros d t c r v [_ Hwf] [tb [Hin [co [Hc Hr]]]]. destruct (Hwf _ _ Hin) as [H1 Ht]. split; [exact H1|].
  destruct (Ht _ _ Hc) as [H2 _]. exact H2.
Qed.

Lemma lag_mono : forall S S' t t' r (v x : V),
  (v = x \/ (rep = true /\ readded S t r = true)) -> readded S' t' r = readded S t r ->
  v = x \/ (rep = true /\ readded S' t' r = true).
Proof. intros S S' t t' r v x [H|[H1 H2]] E; [left; exact H|right; split; [exact H1|congruence]]. Qed.

Lemma readded_add_changes : forall S t c chs t2 r, readded (add_changes t c chs S) t2 r = readded S t2 r.
Proof. intros. apply readded_same; [apply pb_get_add_changes|apply pa_get_add_changes]. Qed.

(* --- ECalc *)
Lemma inv_calc1 : forall dt S de t c r b a,
  Inv dt S de -> sc2 de S t c [(r, (b, a))] = true ->
  Inv dt (add_changes t c [(r, (b, a))] S) (set_changes t c [(r, (b, a))] de).
Proof.
  intros dt S de t c r b a HI Hsc. destruct HI as [Heq Hlag Hgone Hthere Hwf].
  cbn [sc2 fst snd] in Hsc. rewrite andb_true_r in Hsc. apply andb_true_iff in Hsc. destruct Hsc as [Hrow Hbefore].
  constructor.
  - unfold set_changes. cbn [map fst snd]. rewrite set_cells_as_map. rewrite Heq. rewrite map_cells_fuse.
    apply map_cells_ext_in. intros t2 c2 r2 v _. unfold ov at 2. rewrite sdelta_add_change. unfold hset.
    rewrite zget_last_single. rewrite (str_eqb_sym t2 t), (str_eqb_sym c2 c).
    destruct (str_eqb t t2 && str_eqb c c2) eqn:E1; cbn [andb]; [|reflexivity].
    destruct (Z.eqb r r2); reflexivity.
  - intros t2 c2 r2 ba v Hsd Hc. rewrite sdelta_add_change in Hsd.
    destruct (str_eqb t t2 && str_eqb c c2 && Z.eqb r r2) eqn:E1.
    + apply andb_true_iff in E1. destruct E1 as [E1 E3]. apply andb_true_iff in E1. destruct E1 as [E1 E2].
      apply str_eqb_eq in E1. apply str_eqb_eq in E2. apply Z.eqb_eq in E3. subst t2 c2 r2.
      inversion Hsd; subst ba. cbn [fst]. destruct (sdelta S t c r) eqn:Es.
      * eapply lag_mono; [eapply Hlag; eassumption|apply readded_add_changes].
      * left. rewrite forallb_forall in Hbefore. symmetry. apply Z.eqb_eq. apply Hbefore. apply cell_values_In.
        rewrite Heq. apply InCell_map_cells. exists v. split; [exact Hc|]. unfold ov. rewrite Es. reflexivity.
    + eapply lag_mono; [eapply Hlag; eassumption|apply readded_add_changes].
  - intros t2 r2 Hpa. rewrite pa_get_add_changes in Hpa. apply Hgone. exact Hpa.
  - intros t2 c2 r2 ba Hdef Hdefc Hsd Hnr. rewrite pa_get_add_changes. rewrite sdelta_add_change in Hsd.
    destruct (str_eqb t t2 && str_eqb c c2 && Z.eqb r r2) eqn:E1.
    + apply andb_true_iff in E1. destruct E1 as [E1 E3]. apply andb_true_iff in E1. destruct E1 as [E1 E2].
      apply str_eqb_eq in E1. apply str_eqb_eq in E2. apply Z.eqb_eq in E3. subst t2 c2 r2.
      exfalso. apply Hnr. apply (InRow_rows_of _ _ _ (proj1 Hwf)). apply zmem_In in Hrow.
      rewrite Heq in Hrow. rewrite rows_of_map_cells in Hrow. exact Hrow.
    + eapply Hthere; eassumption.
  - exact Hwf.
Qed.

Lemma upd_table_compose : forall t F G d, upd_table t F (upd_table t G d) = upd_table t (fun tb => F (G tb)) d.
Proof.
  intros. unfold upd_table. rewrite map_map. apply map_ext. intros [t2 tb]. cbn [fst snd].
  destruct (str_eqb t2 t) eqn:E; cbn [fst snd]; rewrite E; reflexivity.
Qed.

Lemma upd_col_compose : forall c F G tb, upd_col c F (upd_col c G tb) = upd_col c (fun co => F (G co)) tb.
Proof.
  intros. unfold upd_col. cbn [t_rows t_cols]. f_equal. rewrite map_map. apply map_ext. intros [c2 co]. cbn [fst snd].
  destruct (str_eqb c2 c) eqn:E; cbn [fst snd]; rewrite E; reflexivity.
Qed.

Lemma set_changes_cons : forall t c ch chs d,
  set_changes t c (ch :: chs) d = set_changes t c chs (set_changes t c [ch] d).
Proof.
  intros. unfold set_changes. rewrite upd_table_compose. apply upd_table_ext_in. intros tb _.
  rewrite upd_col_compose. unfold upd_col. f_equal. apply map_ext. intros [c2 co]. cbn [fst snd].
  destruct (str_eqb c2 c); [|reflexivity]. f_equal. unfold set_cells. cbn [c_type c_cells]. f_equal. rewrite map_map.
  apply map_ext. intros [r v]. cbn [fst snd map]. f_equal.
  unfold zget_last. cbn [rev map fst snd app]. rewrite (aget_app Z.eqb).
  destruct (aget Z.eqb r (rev _)); reflexivity.
Qed.

Lemma inv_calc : forall chs dt S de t c,
  Inv dt S de -> sc2 de S t c chs = true -> Inv dt (add_changes t c chs S) (set_changes t c chs de).
Proof.
  induction chs as [|[r [b a]] chs IH]; intros dt S de t c HI Hsc.
  - (* no change: add_changes only creates an empty entry *)
    destruct HI as [Heq Hlag Hgone Hthere Hwf].
    assert (Hsd : forall t2 c2 r2, sdelta (add_changes t c [] S) t2 c2 r2 = sdelta S t2 c2 r2).
    { intros. unfold add_changes. rewrite sdelta_set_table. cbn [td_deltas fold_left].
      destruct (str_eqb t t2) eqn:Et; [|reflexivity]. apply str_eqb_eq in Et. subst t2.
      unfold dl_get at 1. rewrite (aget_aset str_eqb str_eqb_eq). destruct (str_eqb c c2) eqn:Ec.
      - apply str_eqb_eq in Ec. subst c2. rewrite <- sdelta_for_table. unfold dl_get.
        destruct (aget str_eqb c (td_deltas (for_table t S))); reflexivity.
      - apply sdelta_for_table. }
    constructor.
    + unfold set_changes. cbn [map]. rewrite set_cells_as_map. rewrite Heq. rewrite map_cells_fuse.
      apply map_cells_ext_in. intros t2 c2 r2 v _. unfold ov. rewrite Hsd. unfold hset.
      destruct (str_eqb t2 t && str_eqb c2 c); reflexivity.
    + intros t2 c2 r2 ba v H1 H2. rewrite Hsd in H1. eapply lag_mono; [eapply Hlag; eassumption|apply readded_add_changes].
    + intros t2 r2 H1. rewrite pa_get_add_changes in H1. apply Hgone. exact H1.
    + intros t2 c2 r2 ba Hd Hdc H1 H2. rewrite Hsd in H1. rewrite pa_get_add_changes. eapply Hthere; eassumption.
    + exact Hwf.
  - rewrite add_changes_cons, set_changes_cons.
    cbn [sc2] in Hsc. apply andb_true_iff in Hsc. destruct Hsc as [Hsc1 Hsc2].
    apply IH; [|exact Hsc2]. apply inv_calc1; [exact HI|]. cbn [sc2]. rewrite Hsc1. reflexivity.
Qed.

(* --- EFlushCol *)
Lemma simplify_update_some : forall t rs c vs act,
  simplify_update t rs c vs = Some act -> length vs = length rs ->
  bulk_of act = BulkUpdateRecord t rs [(c, vs)] /\ action_ok act = true /\ rs <> [].
Proof.
  intros t rs c vs act H Hlen. unfold simplify_update in H.
  assert (Hok : action_ok (BulkUpdateRecord t rs [(c, vs)]) = true).
  { unfold action_ok, colvals_ok. cbn. rewrite Hlen. rewrite Nat.eqb_refl. reflexivity. }
  destruct rs as [|r [|r2 rs]].
  - discriminate.
  - destruct vs as [|v [|v2 vs]]; try discriminate. inversion H; subst. split; [reflexivity|].
    split; [|discriminate]. unfold action_ok. cbn. reflexivity.
  - inversion H; subst. split; [reflexivity|]. split; [exact Hok|discriminate].
Qed.

Lemma simplify_update_none : forall t rs c vs, simplify_update t rs c vs = None -> rs = [].
Proof.
  intros t rs c vs H. unfold simplify_update in H. destruct rs as [|r [|r2 rs]]; [reflexivity| |discriminate].
  destruct vs as [|v [|v2 vs]]; discriminate.
Qed.

Lemma root_name_alive : forall n, is_defunct n = false -> root_name n = n.
Proof.
  intros n H. destruct n as [|x n]; [reflexivity|]. unfold is_defunct in H. unfold root_name.
  destruct x; try reflexivity. destruct p; try reflexivity. destruct p; try reflexivity.
  destruct p; try reflexivity. destruct p; try reflexivity. destruct p; try reflexivity. destruct p; try reflexivity.
  discriminate.
Qed.

Section Flush.
  Variable td : str -> V.

  Lemma tds_apply_all_app : forall l1 l2 d,
    tds_apply_all td (l1 ++ l2) d =
    match tds_apply_all td l1 d with Ok d' => tds_apply_all td l2 d' | Err e => Err e end.
  Proof.
    induction l1 as [|a l1 IH]; intros l2 d; cbn; [reflexivity|].
    destruct (tds_apply td a d); [apply IH|reflexivity].
  Qed.

  Lemma inv_pop_column : forall dt S de t c oa S',
    Inv dt S de -> pop_column rep S t c = (oa, S') ->
    match oa with
    | None => Inv dt S' de
    | Some act => exists dt', tds_apply td act dt = Ok dt' /\ Inv dt' S' de
    end.
  Proof.
    intros dt S de t c oa S' HI Hpop. unfold pop_column in Hpop.
    destruct (aget str_eqb t (sm_tables S)) as [tdl|] eqn:Et; [|inversion Hpop; subst; exact HI].
    destruct (aget str_eqb c (td_deltas tdl)) as [dl|] eqn:Ec; [|inversion Hpop; subst; exact HI].
    injection Hpop as Hoa HS'.
    set (S1 := set_table t (mkTD (td_pb tdl) (td_pa tdl) (td_cren tdl) (adel str_eqb c (td_deltas tdl))) S) in *.
    subst S'.
    destruct HI as [Heq Hlag Hgone Hthere Hwf].
    assert (F1 : forall r, sdelta S t c r = aget Z.eqb r dl).
    { intro r. rewrite sdelta_dl, Et. unfold dl_get. rewrite Ec. reflexivity. }
    assert (F2 : forall t2 c2 r2, sdelta S1 t2 c2 r2 =
                                  if str_eqb t t2 && str_eqb c c2 then None else sdelta S t2 c2 r2).
    { intros. unfold S1. rewrite sdelta_set_table. cbn [td_deltas]. destruct (str_eqb t t2) eqn:E1; cbn [andb]; [|reflexivity].
      apply str_eqb_eq in E1. subst t2. unfold dl_get. destruct (str_eqb c c2) eqn:E2.
      - apply str_eqb_eq in E2. subst c2. rewrite (aget_adel_same str_eqb). reflexivity.
      - rewrite (aget_adel_other str_eqb str_eqb_eq); [|apply str_eqb_neq in E2; congruence].
        rewrite sdelta_dl, Et. reflexivity. }
    assert (F3 : forall t2 r2, pa_get S1 t2 r2 = pa_get S t2 r2).
    { intros. unfold S1. rewrite pa_get_set_table. cbn [td_pa]. destruct (str_eqb t t2) eqn:E1; [|reflexivity].
      apply str_eqb_eq in E1. subst t2. unfold pa_get. rewrite Et. reflexivity. }
    assert (F4 : forall t2 r2, pb_get S1 t2 r2 = pb_get S t2 r2).
    { intros. unfold S1. rewrite pb_get_set_table. cbn [td_pb]. destruct (str_eqb t t2) eqn:E1; [|reflexivity].
      apply str_eqb_eq in E1. subst t2. unfold pb_get. rewrite Et. reflexivity. }
    assert (F5 : forall t2 r2, readded S1 t2 r2 = readded S t2 r2) by (intros; apply readded_same; [apply F4|apply F3]).
    assert (Hsub : forall t2 c2 r2 ba, sdelta S1 t2 c2 r2 = Some ba -> sdelta S t2 c2 r2 = Some ba).
    { intros t2 c2 r2 ba H. rewrite F2 in H. destruct (str_eqb t t2 && str_eqb c c2); [discriminate|exact H]. }
    (* the invariant for the unchanged document, whenever the popped deltas change no physical cell *)
    assert (Hsame : (forall r v ba, InCell dt t c r v -> aget Z.eqb r dl = Some ba -> snd ba = v) -> Inv dt S1 de).
    { intro Hnochange. constructor.
      - rewrite Heq. apply map_cells_ext_in. intros t2 c2 r2 v Hc. unfold ov. rewrite F2.
        destruct (str_eqb t t2 && str_eqb c c2) eqn:E; [|reflexivity].
        apply andb_true_iff in E. destruct E as [E1 E2]. apply str_eqb_eq in E1. apply str_eqb_eq in E2. subst t2 c2.
        rewrite F1. destruct (aget Z.eqb r2 dl) eqn:Ea; [|reflexivity]. eapply Hnochange; eassumption.
      - intros t2 c2 r2 ba v H1 H2. apply Hsub in H1. eapply lag_mono; [eapply Hlag; eassumption|apply F5].
      - intros t2 r2 H1. rewrite F3 in H1. apply Hgone. exact H1.
      - intros t2 c2 r2 ba Hd Hdc H1 H2. rewrite F3. apply Hsub in H1. eapply Hthere; eassumption.
      - exact Hwf. }
    unfold changes_to_stored in Hoa.
    destruct dl as [|e0 dl0] eqn:Edl.
    { subst oa. apply Hsame. intros r v ba _ H. discriminate. }
    rewrite <- Edl in *. clear Edl e0 dl0.
    destruct (is_defunct t || is_defunct c) eqn:Edef.
    { subst oa. apply Hsame. intros r v ba Hc _. exfalso. destruct (InCell_names _ _ _ _ _ Hwf Hc) as [H1 H2].
      rewrite H1, H2 in Edef. discriminate. }
    apply orb_false_iff in Edef. destruct Edef as [Edt Edc].
    rewrite (root_name_alive _ Edt), (root_name_alive _ Edc) in Hoa.
    assert (Eg : aget str_eqb t (sm_tables S1) =
                 Some (mkTD (td_pb tdl) (td_pa tdl) (td_cren tdl) (adel str_eqb c (td_deltas tdl)))).
    { unfold S1, set_table. cbn [sm_tables]. apply (aget_aset_same str_eqb str_eqb_eq). }
    assert (Hrd : forall r, readded_b (sm_tables S1) t r = readded S t r).
    { intro r. unfold readded, readded_b. rewrite Eg, Et. reflexivity. }
    set (full := if rep then full_rows_rep (sm_tables S1) t dl else full_rows dl) in Hoa.
    assert (Hfull : forall r, In r full <->
              exists ba, aget Z.eqb r dl = Some ba /\ (fst ba <> snd ba \/ (rep = true /\ readded S t r = true))).
    { intro r. unfold full. destruct rep; unfold full_rows_rep, full_rows; rewrite sort_by_In, filter_In; split.
      - intros [_ H1]. destruct (aget Z.eqb r dl) as [ba|]; [|discriminate]. exists ba. split; [reflexivity|].
        apply orb_true_iff in H1. destruct H1 as [H1|H1].
        + left. apply negb_true_iff in H1. apply Z.eqb_neq in H1. exact H1.
        + right. split; [reflexivity|]. rewrite <- Hrd. exact H1.
      - intros [ba [H1 H2]]. split.
        + apply zget_In in H1. apply in_map_iff. exists (r, ba). split; [reflexivity|exact H1].
        + rewrite H1. apply orb_true_iff. destruct H2 as [H2|[_ H2]].
          * left. apply negb_true_iff. apply Z.eqb_neq. exact H2.
          * right. rewrite Hrd. exact H2.
      - intros [_ H1]. destruct (aget Z.eqb r dl) as [ba|]; [|discriminate]. exists ba. split; [reflexivity|].
        left. apply negb_true_iff in H1. apply Z.eqb_neq in H1. exact H1.
      - intros [ba [H1 H2]]. split.
        + apply zget_In in H1. apply in_map_iff. exists (r, ba). split; [reflexivity|exact H1].
        + rewrite H1. destruct H2 as [H2|[H2 _]]; [|discriminate]. apply negb_true_iff. apply Z.eqb_neq. exact H2. }
    unfold filter_out_gone_rows in Hoa. rewrite Eg in Hoa. cbn [td_pa] in Hoa.
    set (rows_after := filter (fun r => match aget Z.eqb r (td_pa tdl) with Some false => false | _ => true end) full) in *.
    assert (Hra : forall r, In r rows_after <->
                            (exists ba, aget Z.eqb r dl = Some ba /\
                                        (fst ba <> snd ba \/ (rep = true /\ readded S t r = true))) /\
                            pa_get S t r <> Some false).
    { intro r. unfold rows_after. rewrite filter_In. rewrite Hfull. unfold pa_get. rewrite Et. split.
      - intros [H1 H2]. split; [exact H1|]. intro E. rewrite E in H2. discriminate.
      - intros [H1 H3]. split; [exact H1|].
        destruct (aget Z.eqb r (td_pa tdl)) as [[|]|]; try reflexivity. exfalso. apply H3. reflexivity. }
    (* a physical cell whose row is not emitted keeps its value *)
    assert (Hdrop : forall r v ba, InCell dt t c r v -> aget Z.eqb r dl = Some ba -> ~ In r rows_after -> snd ba = v).
    { intros r v ba Hc Ha Hnot.
      assert (Hkeep : (fst ba <> snd ba \/ (rep = true /\ readded S t r = true)) -> False).
      { intro Hk. destruct (pa_get S t r) as [[|]|] eqn:Epa.
        - apply Hnot. apply Hra. split; [exists ba; split; assumption|congruence].
        - apply (Hgone t r Epa). eapply InCell_InRow; eassumption.
        - apply Hnot. apply Hra. split; [exists ba; split; assumption|congruence]. }
      destruct (Hlag t c r ba v) as [Hv|Hex]; [rewrite F1; exact Ha|exact Hc| |exfalso; apply Hkeep; right; exact Hex].
      destruct (Z.eq_dec (fst ba) (snd ba)) as [Eba|Nba]; [congruence|exfalso; apply Hkeep; left; exact Nba]. }
    destruct oa as [act|].
    - (* an update is emitted *)
      apply simplify_update_some in Hoa; [|apply map_length]. destruct Hoa as [Hb [Hok Hne]].
      assert (Hrows : forall r, In r rows_after -> InRow dt t r).
      { intros r Hr. apply Hra in Hr. destruct Hr as [[ba [H1 _]] H2].
        destruct (zmem r (rows_of t dt)) eqn:Ez.
        - apply (InRow_rows_of _ _ _ (proj1 Hwf)). apply zmem_In. exact Ez.
        - exfalso. apply H2. apply (Hthere t c r ba Edt Edc); [rewrite F1; exact H1|].
          intro Hin. apply (InRow_rows_of _ _ _ (proj1 Hwf)) in Hin. apply zmem_In in Hin. congruence. }
      assert (Hamem : amem str_eqb t dt = true).
      { destruct rows_after as [|r0 rest] eqn:Er; [contradiction|].
        destruct (Hrows r0 (or_introl eq_refl)) as [tb [Hin _]]. apply amem_tab. exists tb. exact Hin. }
      assert (Hall : forallb (fun r => zmem r (rows_of t dt)) rows_after = true).
      { apply forallb_forall. intros r Hr. apply zmem_In. apply (InRow_rows_of _ _ _ (proj1 Hwf)). apply Hrows. exact Hr. }
      exists (map_cells (hset t c (combine rows_after (map (after_of dl) rows_after))) dt). split.
      + unfold tds_apply. rewrite Hok. rewrite Hb. cbn [tds_bulk]. rewrite Hamem, Hall. f_equal.
        unfold tb_update. cbn [fold_left fst snd]. apply set_cells_as_map.
      + set (h := hset t c (combine rows_after (map (after_of dl) rows_after))).
        assert (Hh : forall t2 c2 r2 v, h t2 c2 r2 v =
                       if str_eqb t2 t && str_eqb c2 c then (if zmem r2 rows_after then after_of dl r2 else v) else v).
        { intros. unfold h, hset. rewrite zget_last_combine_map. destruct (zmem r2 rows_after); reflexivity. }
        constructor.
        * rewrite Heq. rewrite map_cells_fuse. apply map_cells_ext_in. intros t2 c2 r2 v Hc. unfold ov. rewrite F2, Hh.
          rewrite (str_eqb_sym t2 t), (str_eqb_sym c2 c).
          destruct (str_eqb t t2 && str_eqb c c2) eqn:E; [|reflexivity].
          apply andb_true_iff in E. destruct E as [E1 E2]. apply str_eqb_eq in E1. apply str_eqb_eq in E2. subst t2 c2.
          rewrite F1. destruct (zmem r2 rows_after) eqn:Ez.
          -- apply zmem_In in Ez. apply Hra in Ez. destruct Ez as [[ba [H1 _]] _]. rewrite H1.
             unfold after_of. rewrite H1. reflexivity.
          -- apply zmem_false in Ez. destruct (aget Z.eqb r2 dl) as [ba|] eqn:Ea; [|reflexivity].
             apply (Hdrop r2 v ba Hc Ea Ez).
        * intros t2 c2 r2 ba v' H1 H2. apply InCell_map_cells in H2. destruct H2 as [v [H2 E]]. subst v'.
          rewrite F2 in H1. rewrite Hh. rewrite (str_eqb_sym t2 t), (str_eqb_sym c2 c).
          destruct (str_eqb t t2 && str_eqb c c2); [discriminate|]. eapply lag_mono; [eapply Hlag; eassumption|apply F5].
        * intros t2 r2 H1 H2. rewrite F3 in H1. apply (Hgone t2 r2 H1). apply (InRow_map_cells h dt t2 r2). exact H2.
        * intros t2 c2 r2 ba Hd Hdc H1 H2. rewrite F3. apply Hsub in H1. apply (Hthere t2 c2 r2 ba Hd Hdc H1).
          intro H3. apply H2. apply InRow_map_cells. exact H3.
        * apply wf_map_cells. exact Hwf.
    - (* nothing emitted: every changed row is gone *)
      apply simplify_update_none in Hoa.
      apply Hsame. intros r v ba Hc Ha. apply (Hdrop r v ba Hc Ha). rewrite Hoa. intros [].
  Qed.
End Flush.

(* ------------------------------------------------------------------------------------------------ *)
(* EDoc: one doc action applied to both documents *)

Lemma InCell_upd_table : forall t F d t2 c r v,
  InCell (upd_table t F d) t2 c r v <->
  (t2 <> t /\ InCell d t2 c r v) \/ (t2 = t /\ exists tb, In (t, tb) d /\ TCell (F tb) c r v).
Proof.
  intros t F d t2 c r v. unfold InCell. split.
  - intros [tb2 [Hin Hc]]. apply In_upd_table in Hin. destruct Hin as [[Hne Hin]|[E [tb [Hin E2]]]].
    + left. split; [exact Hne|]. exists tb2. split; assumption.
    + subst. right. split; [reflexivity|]. exists tb. split; assumption.
  - intros [[Hne [tb [Hin Hc]]]|[E [tb [Hin Hc]]]].
    + exists tb. split; [|exact Hc]. apply In_upd_table. left. split; assumption.
    + subst. exists (F tb). split; [|exact Hc]. apply In_upd_table. right. split; [reflexivity|]. exists tb. split; [exact Hin|reflexivity].
Qed.

Lemma InRow_upd_table : forall t F d t2 r,
  InRow (upd_table t F d) t2 r <->
  (t2 <> t /\ InRow d t2 r) \/ (t2 = t /\ exists tb, In (t, tb) d /\ In r (t_rows (F tb))).
Proof.
  intros t F d t2 r. unfold InRow. split.
  - intros [tb2 [Hin Hc]]. apply In_upd_table in Hin. destruct Hin as [[Hne Hin]|[E [tb [Hin E2]]]].
    + left. split; [exact Hne|]. exists tb2. split; assumption.
    + subst. right. split; [reflexivity|]. exists tb. split; assumption.
  - intros [[Hne [tb [Hin Hc]]]|[E [tb [Hin Hc]]]].
    + exists tb. split; [|exact Hc]. apply In_upd_table. left. split; assumption.
    + subst. exists (F tb). split; [|exact Hc]. apply In_upd_table. right. split; [reflexivity|]. exists tb. split; [exact Hin|reflexivity].
Qed.

Lemma InRow_upd_table_same : forall t F d,
  (forall tb, In (t, tb) d -> t_rows (F tb) = t_rows tb) ->
  forall t2 r, InRow (upd_table t F d) t2 r <-> InRow d t2 r.
Proof.
  intros t F d H t2 r. rewrite InRow_upd_table. split.
  - intros [[_ H1]|[E [tb [Hin Hr]]]]; [exact H1|]. subst. rewrite (H _ Hin) in Hr. exists tb. split; assumption.
  - intros [tb [Hin Hr]]. destruct (str_eqb t2 t) eqn:E.
    + apply str_eqb_eq in E. subst. right. split; [reflexivity|]. exists tb. split; [exact Hin|]. rewrite (H _ Hin). exact Hr.
    + apply str_eqb_neq in E. left. split; [exact E|]. exists tb. split; assumption.
Qed.

Lemma wf_upd_table : forall t F d,
  wf_doc d -> (forall tb, In (t, tb) d -> wf_table tb -> wf_table (F tb)) -> wf_doc (upd_table t F d).
Proof.
  intros t F d [Hnd Hwf] HF. split; [rewrite upd_table_fst; exact Hnd|].
  intros t2 tb2 Hin. apply In_upd_table in Hin. destruct Hin as [[Hne Hin]|[E [tb [Hin E2]]]].
  - apply Hwf. exact Hin.
  - subst. destruct (Hwf _ _ Hin) as [H1 H2]. split; [exact H1|]. apply HF; assumption.
Qed.

Lemma upd_table_map_cells2 : forall t F f f' d,
  (forall tb, In (t, tb) d -> F (map_tcells (f t) tb) = map_tcells (f' t) (F tb)) ->
  (forall t2 tb, In (t2, tb) d -> t2 <> t -> map_tcells (f t2) tb = map_tcells (f' t2) tb) ->
  upd_table t F (map_cells f d) = map_cells f' (upd_table t F d).
Proof.
  intros t F f f' d H1 H2. unfold upd_table, map_cells. rewrite !map_map. apply map_ext_in. intros [t2 tb] Hin. cbn.
  destruct (str_eqb t2 t) eqn:E; cbn.
  - apply str_eqb_eq in E. subst. f_equal. apply H1. exact Hin.
  - apply str_eqb_neq in E. f_equal. apply H2; assumption.
Qed.

(* the generic step for an action that transforms one table without renaming anything *)
Lemma inv_upd_table : forall dt S de S' t F,
  Inv dt S de ->
  (forall tb, In (t, tb) dt -> wf_table tb -> wf_table (F tb)) ->
  (forall tb, In (t, tb) dt -> F (map_tcells (ov S t) tb) = map_tcells (ov S t) (F tb)) ->
  (forall tb c r v, In (t, tb) dt -> TCell (F tb) c r v -> TCell tb c r v \/ sdelta S' t c r = None) ->
  (forall t2 c r v, InCell (upd_table t F dt) t2 c r v -> sdelta S' t2 c r = sdelta S t2 c r) ->
  (forall t2 c r v, InCell (upd_table t F dt) t2 c r v -> readded S t2 r = true -> readded S' t2 r = true) ->
  (forall t2 r, pa_get S' t2 r = Some false -> ~ InRow (upd_table t F dt) t2 r) ->
  (forall t2 c r ba, is_defunct t2 = false -> is_defunct c = false -> sdelta S' t2 c r = Some ba ->
                     ~ InRow (upd_table t F dt) t2 r -> pa_get S' t2 r = Some false) ->
  Inv (upd_table t F dt) S' (upd_table t F de).
Proof.
  intros dt S de S' t F HI Hwf' Hcomm Hcells Hsd Hrd Hgone' Hthere'. destruct HI as [Heq Hlag Hgone Hthere Hwf].
  assert (Hmono : forall t2 c r v (x : V), InCell (upd_table t F dt) t2 c r v ->
                    (v = x \/ (rep = true /\ readded S t2 r = true)) -> v = x \/ (rep = true /\ readded S' t2 r = true)).
  { intros t2 c r v x Hc [H|[H1 H2]]; [left; exact H|right; split; [exact H1|eapply Hrd; eassumption]]. }
  constructor.
  - rewrite Heq. rewrite upd_table_map_cells by exact Hcomm. apply map_cells_ext_in.
    intros t2 c r v Hc. unfold ov. rewrite (Hsd _ _ _ _ Hc). reflexivity.
  - intros t2 c r ba v Hs Hc. rewrite (Hsd _ _ _ _ Hc) in Hs. pose proof Hc as Hc0.
    apply InCell_upd_table in Hc. destruct Hc as [[Hne Hc]|[E [tb [Hin Hc]]]].
    + apply (Hmono _ _ _ _ _ Hc0). eapply Hlag; eassumption.
    + subst t2. destruct (Hcells _ _ _ _ Hin Hc) as [Hold|Hnew].
      * apply (Hmono _ _ _ _ _ Hc0). apply (Hlag t c r ba v Hs). exists tb. split; assumption.
      * rewrite (Hsd _ _ _ _ Hc0) in Hnew. congruence.
  - exact Hgone'.
  - exact Hthere'.
  - apply wf_upd_table; assumption.
Qed.

(* rows, flags and pending keys unchanged *)
Lemma gone_there_same : forall dt S S' Y,
  (forall t r, pa_get S t r = Some false -> ~ InRow dt t r) ->
  (forall t c r ba, is_defunct t = false -> is_defunct c = false -> sdelta S t c r = Some ba -> ~ InRow dt t r ->
                    pa_get S t r = Some false) ->
  (forall t r, InRow Y t r <-> InRow dt t r) ->
  (forall t r, pa_get S' t r = pa_get S t r) ->
  (forall t c r ba, is_defunct t = false -> is_defunct c = false -> sdelta S' t c r = Some ba ->
                    exists ba', sdelta S t c r = Some ba') ->
  (forall t r, pa_get S' t r = Some false -> ~ InRow Y t r) /\
  (forall t c r ba, is_defunct t = false -> is_defunct c = false -> sdelta S' t c r = Some ba -> ~ InRow Y t r ->
                    pa_get S' t r = Some false).
Proof.
  intros dt S S' Y Hgone Hthere Hrows Hpa Hsd. split.
  - intros t r H1 H2. rewrite Hpa in H1. apply Hrows in H2. eapply Hgone; eassumption.
  - intros t c r ba Hd Hdc H1 H2. rewrite Hpa. destruct (Hsd _ _ _ _ Hd Hdc H1) as [ba' H3].
    apply (Hthere t c r ba' Hd Hdc H3). intro H4. apply H2. apply Hrows. exact H4.
Qed.

Lemma row_clear_sdelta : forall S t r c, row_clear S t r = true -> sdelta S t c r = None.
Proof.
  intros S t r c H. unfold row_clear in H. rewrite sdelta_dl. destruct (aget str_eqb t (sm_tables S)) as [tdl|]; [|reflexivity].
  unfold dl_get. destruct (aget str_eqb c (td_deltas tdl)) as [dl|] eqn:E; [|reflexivity].
  rewrite forallb_forall in H. apply sget_In in E. specialize (H _ E). cbn in H. apply negb_true_iff in H.
  unfold amem in H. destruct (aget Z.eqb r dl); [discriminate|reflexivity].
Qed.

Lemma wf_table_names : forall tb tb', wf_table tb ->
  (forall c, In c (map fst (t_cols tb')) -> In c (map fst (t_cols tb))) ->
  (forall c r v, TCell tb' c r v -> In r (t_rows tb')) -> wf_table tb'.
Proof.
  intros tb tb' Hwf Hn Hc c co Hin. split.
  - assert (H : In c (map fst (t_cols tb))).
    { apply Hn. apply in_map_iff. exists (c, co). split; [reflexivity|exact Hin]. }
    apply in_map_iff in H. destruct H as [[c0 co0] [E H]]. cbn in E. subst. apply (Hwf _ _ H).
  - intros r v Hr. apply (Hc c r v). exists co. split; assumption.
Qed.

Lemma TCell_row : forall tb c r v, wf_table tb -> TCell tb c r v -> In r (t_rows tb).
Proof. intros tb c r v Hwf [co [Hc Hr]]. destruct (Hwf _ _ Hc) as [_ H]. eapply H. exact Hr. Qed.

Section DocKinds.
  Variable td : str -> V.

  Lemma tab_of_amem : forall (d : doc) t, amem str_eqb t d = true -> exists tb, In (t, tb) d.
  Proof. intros d t H. apply amem_tab. exact H. Qed.

  (* --- BulkAddRecord *)
  Lemma inv_add_rows : forall dt S de t rs cols,
    Inv dt S de -> amem str_eqb t dt = true -> forallb (row_clear S t) rs = true ->
    Inv (upd_table t (tds_add_rows td rs cols) dt) (add_records t rs S) (upd_table t (tds_add_rows td rs cols) de).
  Proof.
    intros dt S de t rs cols HI Ht Hclear.
    assert (Hc : forall c r, In r rs -> sdelta S t c r = None).
    { intros c r Hr. apply row_clear_sdelta. rewrite forallb_forall in Hclear. apply Hclear. exact Hr. }
    pose proof HI as [Heq Hlag Hgone Hthere Hwf].
    destruct (tab_of_amem _ _ Ht) as [tb0 Htb0].
    apply (inv_upd_table dt S de); try assumption.
    - intros tb Hin Hwt. apply (wf_table_names tb).
      + exact Hwt.
      + intros c Hc'. rewrite tds_add_rows_colnames in Hc'. exact Hc'.
      + intros c r v Hcell. cbn. apply in_or_app. apply tds_add_rows_cell in Hcell. destruct Hcell as [Ho|Hn].
        * left. eapply TCell_row; eassumption.
        * right. exact Hn.
    - intros tb Hin. apply tds_add_rows_comm. intros c r v Hr. unfold ov. rewrite (Hc c r Hr). reflexivity.
    - intros tb c r v Hin Hcell. apply tds_add_rows_cell in Hcell. destruct Hcell as [Ho|Hn]; [left; exact Ho|].
      right. rewrite sdelta_add_records. apply Hc. exact Hn.
    - intros. apply sdelta_add_records.
    - intros t2 c r v _ H. apply readded_spec in H. destruct H as [H1 H2]. apply readded_spec.
      rewrite pb_get_add_records, pa_get_add_records. destruct (str_eqb t t2) eqn:E; cbn [andb].
      + apply str_eqb_eq in E. subst t2. rewrite H1. split; [reflexivity|]. destruct (zmem r rs); [reflexivity|exact H2].
      + split; assumption.
    - intros t2 r Hpa Hrow. rewrite pa_get_add_records in Hpa.
      destruct (str_eqb t t2 && zmem r rs) eqn:E; [discriminate|].
      apply InRow_upd_table in Hrow. destruct Hrow as [[Hne Hrow]|[E2 [tb [Hin Hr]]]].
      + eapply Hgone; eassumption.
      + subst t2. rewrite str_eqb_refl in E. cbn in E. apply zmem_false in E. cbn in Hr. apply in_app_or in Hr.
        destruct Hr as [Hr|Hr]; [|contradiction]. apply (Hgone t r Hpa). exists tb. split; assumption.
    - intros t2 c r ba Hd Hdc Hs Hrow. rewrite sdelta_add_records in Hs. rewrite pa_get_add_records.
      assert (Hnr : ~ InRow dt t2 r).
      { intro H. apply Hrow. apply InRow_upd_table. destruct H as [tb [Hin Hr]]. destruct (str_eqb t2 t) eqn:E.
        - apply str_eqb_eq in E. subst. right. split; [reflexivity|]. exists tb. split; [exact Hin|]. cbn. apply in_or_app. left. exact Hr.
        - apply str_eqb_neq in E. left. split; [exact E|]. exists tb. split; assumption. }
      destruct (str_eqb t t2 && zmem r rs) eqn:E.
      + exfalso. apply andb_true_iff in E. destruct E as [E1 E2]. apply str_eqb_eq in E1. subst t2. apply zmem_In in E2.
        apply Hrow. apply InRow_upd_table. right. split; [reflexivity|]. exists tb0. split; [exact Htb0|].
        cbn. apply in_or_app. right. exact E2.
      + eapply Hthere; eassumption.
  Qed.

  (* --- BulkRemoveRecord *)
  Definition removed_sum (t : str) (rs' : list Z) (S : summary) : summary :=
    match rs' with [] => S | _ => remove_records t rs' S end.

  Lemma sdelta_removed_sum : forall t rs' S t2 c r, sdelta (removed_sum t rs' S) t2 c r = sdelta S t2 c r.
  Proof. intros. unfold removed_sum. destruct rs'; [reflexivity|apply sdelta_remove_records]. Qed.

  Lemma pa_get_removed_sum : forall t rs' S t2 r,
    pa_get (removed_sum t rs' S) t2 r = if str_eqb t t2 && zmem r rs' then Some false else pa_get S t2 r.
  Proof.
    intros. unfold removed_sum. destruct rs' as [|x rs'].
    - cbn. rewrite andb_false_r. reflexivity.
    - apply pa_get_remove_records.
  Qed.

  Lemma pb_get_removed_sum : forall t rs' S t2 r,
    pb_get (removed_sum t rs' S) t2 r =
    if str_eqb t t2 then match pb_get S t r with Some v => Some v | None => if zmem r rs' then Some true else None end
    else pb_get S t2 r.
  Proof.
    intros. unfold removed_sum. destruct rs' as [|x rs'].
    - destruct (str_eqb t t2) eqn:E; [|reflexivity]. apply str_eqb_eq in E. subst t2. destruct (pb_get S t r); reflexivity.
    - apply pb_get_remove_records.
  Qed.

  Lemma inv_remove_rows : forall dt S de t rs,
    Inv dt S de ->
    Inv (upd_table t (tb_remove_rows rs) dt)
        (removed_sum t (filter (fun r => zmem r (rows_of t dt)) rs) S)
        (upd_table t (tb_remove_rows rs) de).
  Proof.
    intros dt S de t rs HI. pose proof HI as [Heq Hlag Hgone Hthere Hwf].
    set (rs' := filter (fun r => zmem r (rows_of t dt)) rs).
    apply (inv_upd_table dt S de); try assumption.
    - intros tb Hin Hwt. apply (wf_table_names tb).
      + exact Hwt.
      + intros c Hc. rewrite tb_remove_rows_colnames in Hc. exact Hc.
      + intros c r v Hcell. apply tb_remove_rows_cell in Hcell. destruct Hcell as [Hcell Hn].
        apply tb_remove_rows_rows. split; [eapply TCell_row; eassumption|exact Hn].
    - intros tb Hin. apply tb_remove_rows_comm.
    - intros tb c r v Hin Hcell. left. apply tb_remove_rows_cell in Hcell. apply Hcell.
    - intros. apply sdelta_removed_sum.
    - intros t2 c r v Hc H. apply readded_spec in H. destruct H as [H1 H2]. apply readded_spec.
      rewrite pb_get_removed_sum, pa_get_removed_sum. destruct (str_eqb t t2) eqn:E; cbn [andb].
      + apply str_eqb_eq in E. subst t2. rewrite H1. split; [reflexivity|].
        destruct (zmem r rs') eqn:Ez; [|exact H2]. exfalso. apply zmem_In in Ez. unfold rs' in Ez. apply filter_In in Ez.
        apply InCell_upd_table in Hc. destruct Hc as [[Hne _]|[_ [tb [Hin Hcell]]]]; [congruence|].
        apply tb_remove_rows_cell in Hcell. apply Hcell. apply Ez.
      + split; assumption.
    - intros t2 r Hpa Hrow. rewrite pa_get_removed_sum in Hpa. apply InRow_upd_table in Hrow.
      destruct (str_eqb t t2 && zmem r rs') eqn:E.
      + apply andb_true_iff in E. destruct E as [E1 E2]. apply str_eqb_eq in E1. subst t2. apply zmem_In in E2.
        unfold rs' in E2. apply filter_In in E2. destruct E2 as [E2 _].
        destruct Hrow as [[Hne _]|[_ [tb [Hin Hr]]]]; [congruence|]. apply tb_remove_rows_rows in Hr. apply Hr. exact E2.
      + destruct Hrow as [[Hne Hrow]|[E2 [tb [Hin Hr]]]].
        * eapply Hgone; eassumption.
        * subst t2. apply tb_remove_rows_rows in Hr. apply (Hgone t r Hpa). exists tb. split; [exact Hin|apply Hr].
    - intros t2 c r ba Hd Hdc Hs Hrow. rewrite sdelta_removed_sum in Hs. rewrite pa_get_removed_sum.
      destruct (str_eqb t t2 && zmem r rs') eqn:E; [reflexivity|].
      apply (Hthere t2 c r ba Hd Hdc Hs). intro H. apply Hrow. apply InRow_upd_table. destruct H as [tb [Hin Hr]].
      destruct (str_eqb t2 t) eqn:E2.
      + apply str_eqb_eq in E2. subst t2. right. split; [reflexivity|]. exists tb. split; [exact Hin|].
        apply tb_remove_rows_rows. split; [exact Hr|]. intro Hrs. rewrite str_eqb_refl in E. cbn in E. apply zmem_false in E.
        apply E. unfold rs'. apply filter_In. split; [exact Hrs|]. apply zmem_In.
        apply (InRow_rows_of _ _ _ (proj1 Hwf)). exists tb. split; assumption.
      + apply str_eqb_neq in E2. left. split; [exact E2|]. exists tb. split; assumption.
  Qed.

  (* --- BulkUpdateRecord *)
  Lemma inv_update : forall dt S de t rs cols,
    Inv dt S de ->
    forallb (fun p => forallb (fun r => match sdelta S t (fst p) r with None => true | Some _ => false end) rs) cols = true ->
    Inv (upd_table t (tb_update rs cols) dt) S (upd_table t (tb_update rs cols) de).
  Proof.
    intros dt S de t rs cols HI Hsc. pose proof HI as [Heq Hlag Hgone Hthere Hwf].
    assert (Hc : forall c r, In c (map fst cols) -> In r rs -> sdelta S t c r = None).
    { intros c r Hc Hr. apply in_map_iff in Hc. destruct Hc as [[c0 vs] [E Hc]]. cbn in E. subst c0.
      rewrite forallb_forall in Hsc. specialize (Hsc _ Hc). cbn in Hsc. rewrite forallb_forall in Hsc.
      specialize (Hsc _ Hr). destruct (sdelta S t c r); [discriminate|reflexivity]. }
    destruct (gone_there_same dt S S (upd_table t (tb_update rs cols) dt) Hgone Hthere) as [G1 G2].
    { apply InRow_upd_table_same. intros tb _. apply tb_update_rows. }
    { reflexivity. }
    { intros t2 c r ba _ _ H. exists ba. exact H. }
    apply (inv_upd_table dt S de); try assumption.
    - intros tb Hin Hwt. apply (wf_table_names tb).
      + exact Hwt.
      + intros c Hc'. rewrite tb_update_colnames in Hc'. exact Hc'.
      + intros c r v Hcell. rewrite tb_update_rows. apply tb_update_cell in Hcell.
        destruct Hcell as [Ho|[_ [_ [v0 Ho]]]]; eapply TCell_row; eassumption.
    - intros tb Hin. apply tb_update_comm. intros c vs r v Hcv Hr. unfold ov. rewrite (Hc c r); [reflexivity| |exact Hr].
      apply in_map_iff. exists (c, vs). split; [reflexivity|exact Hcv].
    - intros tb c r v Hin Hcell. apply tb_update_cell in Hcell. destruct Hcell as [Ho|[H1 [H2 _]]]; [left; exact Ho|].
      right. apply Hc; assumption.
    - reflexivity.
    - intros t2 c r v _ H. exact H.
  Qed.

  (* --- ReplaceTableData *)
  Lemma inv_replace : forall dt S de t rs cols,
    Inv dt S de -> amem str_eqb t dt = true -> forallb (row_clear S t) rs = true ->
    Inv (upd_table t (fun tb => tds_add_rows td rs cols (tb_clear tb)) dt)
        (add_records t rs (remove_records t (rows_of t dt) S))
        (upd_table t (fun tb => tds_add_rows td rs cols (tb_clear tb)) de).
  Proof.
    intros dt S de t rs cols HI Ht Hclear.
    assert (Hc : forall c r, In r rs -> sdelta S t c r = None).
    { intros c r Hr. apply row_clear_sdelta. rewrite forallb_forall in Hclear. apply Hclear. exact Hr. }
    pose proof HI as [Heq Hlag Hgone Hthere Hwf].
    destruct (tab_of_amem _ _ Ht) as [tb0 Htb0].
    assert (Hsd : forall t2 c r, sdelta (add_records t rs (remove_records t (rows_of t dt) S)) t2 c r = sdelta S t2 c r).
    { intros. rewrite sdelta_add_records. apply sdelta_remove_records. }
    assert (Hpa : forall t2 r, pa_get (add_records t rs (remove_records t (rows_of t dt) S)) t2 r =
                               if str_eqb t t2 && zmem r rs then Some true
                               else if str_eqb t t2 && zmem r (rows_of t dt) then Some false else pa_get S t2 r).
    { intros. rewrite pa_get_add_records. rewrite pa_get_remove_records. reflexivity. }
    assert (Hrows : forall tb, t_rows (tds_add_rows td rs cols (tb_clear tb)) = rs) by reflexivity.
    apply (inv_upd_table dt S de); try assumption.
    - intros tb Hin Hwt. apply (wf_table_names tb).
      + exact Hwt.
      + intros c Hc'. rewrite tds_add_rows_colnames, tb_clear_colnames in Hc'. exact Hc'.
      + intros c r v Hcell. rewrite Hrows. apply tds_add_rows_cell in Hcell. destruct Hcell as [Ho|Hn]; [|exact Hn].
        exfalso. eapply tb_clear_cell. exact Ho.
    - intros tb Hin. rewrite tb_clear_map. rewrite <- (map_tb_clear (ov S t) tb) at 1.
      apply tds_add_rows_comm. intros c r v Hr. unfold ov. rewrite (Hc c r Hr). reflexivity.
    - intros tb c r v Hin Hcell. apply tds_add_rows_cell in Hcell. destruct Hcell as [Ho|Hn].
      + exfalso. eapply tb_clear_cell. exact Ho.
      + right. rewrite Hsd. apply Hc. exact Hn.
    - intros. apply Hsd.
    - intros t2 c r v Hcell H. apply readded_spec in H. destruct H as [H1 H2]. apply readded_spec.
      destruct (str_eqb t t2) eqn:E.
      2:{ rewrite pb_get_add_records, E, pb_get_remove_records, E, Hpa, E. cbn [andb]. split; assumption. }
      apply str_eqb_eq in E. subst t2. rewrite pb_get_add_records, pb_get_remove_records, Hpa, !str_eqb_refl. rewrite H1.
      cbn [andb]. split; [reflexivity|].
      apply InCell_upd_table in Hcell. destruct Hcell as [[Hne _]|[_ [tb [Hin Hcell]]]]; [congruence|].
      apply tds_add_rows_cell in Hcell. destruct Hcell as [Ho|Hn]; [exfalso; eapply tb_clear_cell; exact Ho|].
      apply zmem_In in Hn. rewrite Hn. reflexivity.
    - intros t2 r Hp Hrow. rewrite Hpa in Hp. apply InRow_upd_table in Hrow.
      destruct (str_eqb t t2) eqn:E; cbn [andb] in Hp.
      + apply str_eqb_eq in E. subst t2. destruct Hrow as [[Hne _]|[_ [tb [Hin Hr]]]]; [congruence|].
        rewrite Hrows in Hr. apply zmem_In in Hr. rewrite Hr in Hp. discriminate.
      + apply str_eqb_neq in E. destruct Hrow as [[Hne Hrow]|[E2 _]]; [|congruence]. eapply Hgone; eassumption.
    - intros t2 c r ba Hd Hdc Hs Hrow. rewrite Hsd in Hs. rewrite Hpa.
      destruct (str_eqb t t2) eqn:E; cbn [andb].
      + apply str_eqb_eq in E. subst t2. destruct (zmem r rs) eqn:Er.
        * exfalso. apply Hrow. apply InRow_upd_table. right. split; [reflexivity|]. exists tb0. split; [exact Htb0|].
          rewrite Hrows. apply zmem_In. exact Er.
        * destruct (zmem r (rows_of t dt)) eqn:Eo; [reflexivity|].
          apply (Hthere t c r ba Hd Hdc Hs). intro H. apply (InRow_rows_of _ _ _ (proj1 Hwf)) in H. apply zmem_In in H. congruence.
      + apply str_eqb_neq in E. apply (Hthere t2 c r ba Hd Hdc Hs). intro H. apply Hrow. apply InRow_upd_table.
        left. split; [congruence|exact H].
  Qed.
End DocKinds.

Lemma defunct_name_neq : forall c, c <> defunct_name c.
Proof. intros c E. apply (f_equal (@length Z)) in E. unfold defunct_name in E. cbn in E. lia. Qed.

Lemma alive_not_defunct_name : forall c c2, is_defunct c2 = false -> c2 <> defunct_name c.
Proof. intros c c2 H E. subst. discriminate. Qed.

Lemma sdelta_rename_column_old : forall S t o n r,
  o <> n -> sdelta (rename_column t (Some o) n S) t o r = None.
Proof.
  intros S t o n r H. rewrite sdelta_rename_column.
  destruct (aget str_eqb o (td_deltas (for_table t S))) eqn:E.
  - assert (E1 : str_eqb n o = false) by (apply str_eqb_neq; congruence). rewrite E1. rewrite str_eqb_refl. reflexivity.
  - rewrite <- sdelta_for_table. unfold dl_get. rewrite E. reflexivity.
Qed.

Lemma gone_there_same2 : forall dt S S' Y,
  (forall t r, pa_get S t r = Some false -> ~ InRow dt t r) ->
  (forall t c r ba, is_defunct t = false -> is_defunct c = false -> sdelta S t c r = Some ba -> ~ InRow dt t r ->
                    pa_get S t r = Some false) ->
  (forall t r, InRow Y t r <-> InRow dt t r) ->
  (forall t r, pa_get S' t r = pa_get S t r) ->
  (forall t c r ba, is_defunct t = false -> is_defunct c = false -> sdelta S' t c r = Some ba ->
                    exists c0 ba', is_defunct c0 = false /\ sdelta S t c0 r = Some ba') ->
  (forall t r, pa_get S' t r = Some false -> ~ InRow Y t r) /\
  (forall t c r ba, is_defunct t = false -> is_defunct c = false -> sdelta S' t c r = Some ba -> ~ InRow Y t r ->
                    pa_get S' t r = Some false).
Proof.
  intros dt S S' Y Hgone Hthere Hrows Hpa Hsd. split.
  - intros t r H1 H2. rewrite Hpa in H1. apply Hrows in H2. eapply Hgone; eassumption.
  - intros t c r ba Hd Hdc H1 H2. rewrite Hpa. destruct (Hsd _ _ _ _ Hd Hdc H1) as [c0 [ba' [H0 H3]]].
    apply (Hthere t c0 r ba' Hd H0 H3). intro H4. apply H2. apply Hrows. exact H4.
Qed.

Section ColumnKinds.
  Variable td : str -> V.

  Definition addcol_tds (c ty : str) (tb : table) : table :=
    mkTable (t_rows tb) (adel str_eqb c (t_cols tb) ++ [(c, new_col td ty (t_rows tb))]).
  Definition delcol (c : str) (tb : table) : table := mkTable (t_rows tb) (adel str_eqb c (t_cols tb)).
  Definition rencol (c c' : str) (tb : table) : table := mkTable (t_rows tb) (rename_key c c' (t_cols tb)).

  (* --- AddColumn *)
  Lemma inv_addcol : forall dt S de t c ty,
    Inv dt S de -> is_defunct c = false -> key_clear S t c = true ->
    Inv (upd_table t (addcol_tds c ty) dt) (rename_column t None c S) (upd_table t (addcol_tds c ty) de).
  Proof.
    intros dt S de t c ty HI Hdc Hkc. pose proof HI as [Heq Hlag Hgone Hthere Hwf].
    destruct (gone_there_same dt S (rename_column t None c S) (upd_table t (addcol_tds c ty) dt) Hgone Hthere) as [G1 G2].
    { apply InRow_upd_table_same. intros tb _. reflexivity. }
    { intros. apply pa_get_rename_column. }
    { intros t2 c2 r ba _ _ H. rewrite sdelta_add_column in H. exists ba. exact H. }
    apply (inv_upd_table dt S de); try assumption.
    - intros tb Hin Hwt c2 co Hc. unfold addcol_tds in Hc. cbn [t_cols t_rows] in *. apply in_app_or in Hc.
      destruct Hc as [Hc|[Hc|[]]].
      + apply (adel_In str_eqb str_eqb_eq) in Hc. destruct Hc as [Hc _]. apply (Hwt _ _ Hc).
      + inversion Hc; subst. split; [exact Hdc|]. intros r v Hr. unfold new_col in Hr. cbn in Hr.
        apply in_map_iff in Hr. destruct Hr as [r0 [E Hr]]. inversion E; subst. exact Hr.
    - intros tb Hin. unfold addcol_tds. apply (addcol_tds_comm td (ov S t) c ty tb).
      intros r v. unfold ov. rewrite (key_clear_sdelta _ _ _ _ Hkc). reflexivity.
    - intros tb c2 r v Hin [co [Hc Hr]]. unfold addcol_tds in Hc. cbn [t_cols] in Hc. apply in_app_or in Hc.
      destruct Hc as [Hc|[Hc|[]]].
      + left. apply (adel_In str_eqb str_eqb_eq) in Hc. destruct Hc as [Hc _]. exists co. split; assumption.
      + inversion Hc; subst. right. rewrite sdelta_add_column. apply key_clear_sdelta. exact Hkc.
    - intros. apply sdelta_add_column.
    - intros t2 c2 r v _ H. erewrite readded_same; [exact H|apply pb_get_rename_column|apply pa_get_rename_column].
  Qed.

  (* --- RemoveColumn *)
  Lemma sdelta_add_changes_other : forall S t c chs t2 c2 r,
    (t2 <> t \/ c2 <> c) -> sdelta (add_changes t c chs S) t2 c2 r = sdelta S t2 c2 r.
  Proof.
    intros S t c chs t2 c2 r H. unfold add_changes. rewrite sdelta_set_table. cbn [td_deltas].
    destruct (str_eqb t t2) eqn:Et; [|reflexivity]. apply str_eqb_eq in Et. subst t2.
    unfold dl_get at 1. rewrite (aget_aset_other str_eqb str_eqb_eq).
    - apply sdelta_for_table.
    - destruct H as [H|H]; congruence.
  Qed.

  Lemma inv_delcol : forall dt S de t c pre,
    Inv dt S de ->
    Inv (upd_table t (delcol c) dt)
        (rename_column t (Some c) (defunct_name c) (match pre with [] => S | _ => add_changes t c pre S end))
        (upd_table t (delcol c) de).
  Proof.
    intros dt S de t c pre HI. pose proof HI as [Heq Hlag Hgone Hthere Hwf].
    set (S0 := match pre with [] => S | _ => add_changes t c pre S end).
    set (S' := rename_column t (Some c) (defunct_name c) S0).
    assert (A : forall t2 c2 r, (t2 <> t \/ c2 <> c) -> sdelta S0 t2 c2 r = sdelta S t2 c2 r).
    { intros. unfold S0. destruct pre; [reflexivity|]. apply sdelta_add_changes_other. assumption. }
    assert (B : forall t2 r, pa_get S' t2 r = pa_get S t2 r).
    { intros. unfold S'. rewrite pa_get_rename_column. unfold S0. destruct pre; [reflexivity|]. apply pa_get_add_changes. }
    assert (B2 : forall t2 r, pb_get S' t2 r = pb_get S t2 r).
    { intros. unfold S'. rewrite pb_get_rename_column. unfold S0. destruct pre; [reflexivity|]. apply pb_get_add_changes. }
    assert (C : forall t2 c2 r, is_defunct c2 = false -> (t2 <> t \/ c2 <> c) -> sdelta S' t2 c2 r = sdelta S t2 c2 r).
    { intros t2 c2 r Hd H. unfold S'. destruct (str_eqb t2 t) eqn:Et.
      - apply str_eqb_eq in Et. subst t2. destruct H as [H|H]; [congruence|].
        rewrite sdelta_rename_column_other; [apply A; right; exact H| |exact H].
        apply alive_not_defunct_name. exact Hd.
      - apply str_eqb_neq in Et. rewrite sdelta_rename_column_other_table by exact Et. apply A. left. exact Et. }
    assert (D : forall r, sdelta S' t c r = None).
    { intro r. unfold S'. apply sdelta_rename_column_old. apply defunct_name_neq. }
    destruct (gone_there_same dt S S' (upd_table t (delcol c) dt) Hgone Hthere) as [G1 G2].
    { apply InRow_upd_table_same. intros tb _. reflexivity. }
    { exact B. }
    { intros t2 c2 r ba _ Hd H. destruct (str_eqb t2 t) eqn:Et; [destruct (str_eqb c2 c) eqn:Ec|].
      - apply str_eqb_eq in Et. apply str_eqb_eq in Ec. subst. rewrite D in H. discriminate.
      - apply str_eqb_neq in Ec. rewrite C in H; [exists ba; exact H|exact Hd|right; exact Ec].
      - apply str_eqb_neq in Et. rewrite C in H; [exists ba; exact H|exact Hd|left; exact Et]. }
    apply (inv_upd_table dt S de); try assumption.
    - intros tb Hin Hwt. apply (wf_table_names tb).
      + exact Hwt.
      + intros c2 Hc. unfold delcol in Hc. cbn [t_cols] in Hc. apply in_map_iff in Hc. destruct Hc as [[c3 co] [E Hc]].
        cbn in E. subst. apply (adel_In str_eqb str_eqb_eq) in Hc. apply in_map_iff. exists (c2, co). split; [reflexivity|apply Hc].
      + intros c2 r v [co [Hc Hr]]. unfold delcol in *. cbn [t_cols t_rows] in *.
        apply (adel_In str_eqb str_eqb_eq) in Hc. eapply TCell_row; [exact Hwt|]. exists co. split; [apply Hc|exact Hr].
    - intros tb Hin. unfold delcol. apply delcol_comm.
    - intros tb c2 r v Hin [co [Hc Hr]]. left. unfold delcol in Hc. cbn [t_cols] in Hc.
      apply (adel_In str_eqb str_eqb_eq) in Hc. exists co. split; [apply Hc|exact Hr].
    - intros t2 c2 r v Hc. apply InCell_upd_table in Hc. destruct Hc as [[Hne Hc]|[E [tb [Hin [co [Hc Hr]]]]]].
      + apply C; [|left; exact Hne]. eapply InCell_names; eassumption.
      + subst t2. unfold delcol in Hc. cbn [t_cols] in Hc. apply (adel_In str_eqb str_eqb_eq) in Hc. destruct Hc as [Hc Hne].
        cbn in Hne. apply C; [|right; exact Hne]. destruct Hwf as [_ Hwf]. destruct (Hwf _ _ Hin) as [_ Hwt]. apply (Hwt _ _ Hc).
    - intros t2 c2 r v _ H. erewrite readded_same; [exact H|apply B2|apply B].
  Qed.

  (* --- RenameColumn *)
  Lemma inv_rencol : forall dt S de t c c',
    Inv dt S de -> c <> c' -> is_defunct c = false -> is_defunct c' = false -> key_clear S t c' = true ->
    Inv (upd_table t (rencol c c') dt) (rename_column t (Some c) c' S) (upd_table t (rencol c c') de).
  Proof.
    intros dt S de t c c' HI Hne Hdc Hdc' Hkc. pose proof HI as [Heq Hlag Hgone Hthere Hwf].
    set (S' := rename_column t (Some c) c' S).
    assert (E1 : forall r, sdelta S' t c' r = sdelta S t c r) by (intro r; apply sdelta_rename_column_new; exact Hkc).
    assert (E2 : forall c2 r, c2 <> c' -> c2 <> c -> sdelta S' t c2 r = sdelta S t c2 r)
      by (intros; apply sdelta_rename_column_other; assumption).
    assert (E3 : forall t2 c2 r, t2 <> t -> sdelta S' t2 c2 r = sdelta S t2 c2 r)
      by (intros; apply sdelta_rename_column_other_table; assumption).
    assert (E4 : forall r, sdelta S' t c r = None) by (intro r; apply sdelta_rename_column_old; exact Hne).
    assert (Hrd : forall t2 r, readded S' t2 r = readded S t2 r)
      by (intros; apply readded_same; [apply pb_get_rename_column|apply pa_get_rename_column]).
    destruct (gone_there_same2 dt S S' (upd_table t (rencol c c') dt) Hgone Hthere) as [G1 G2].
    { apply InRow_upd_table_same. intros tb _. reflexivity. }
    { intros. apply pa_get_rename_column. }
    { intros t2 c2 r ba _ Hd H. destruct (str_eqb t2 t) eqn:Et.
      - apply str_eqb_eq in Et. subst t2. destruct (str_eqb c2 c') eqn:Ec'.
        + apply str_eqb_eq in Ec'. subst c2. rewrite E1 in H. exists c, ba. split; assumption.
        + apply str_eqb_neq in Ec'. destruct (str_eqb c2 c) eqn:Ec.
          * apply str_eqb_eq in Ec. subst c2. rewrite E4 in H. discriminate.
          * apply str_eqb_neq in Ec. rewrite E2 in H by assumption. exists c2, ba. split; assumption.
      - apply str_eqb_neq in Et. rewrite E3 in H by exact Et. exists c2, ba. split; assumption. }
    constructor.
    - rewrite Heq. apply (upd_table_map_cells2 t (rencol c c') (ov S) (ov S')).
      + intros tb Hin. unfold rencol. apply rename_key_cols_comm.
        * intros r v. unfold ov. rewrite E1. reflexivity.
        * intros c2 r v H1 H2. unfold ov. rewrite E2 by assumption. reflexivity.
      + intros t2 tb Hin Ht. apply map_tcells_ext. intros c2 r v _. unfold ov. rewrite E3 by exact Ht. reflexivity.
    - intros t2 c2 r ba v Hs Hc. apply InCell_upd_table in Hc. destruct Hc as [[Ht Hc]|[E [tb [Hin [co [Hc Hr]]]]]].
      + rewrite E3 in Hs by exact Ht. eapply lag_mono; [eapply Hlag; eassumption|apply Hrd].
      + subst t2. unfold rencol in Hc. cbn [t_cols] in Hc. apply rename_key_In in Hc.
        destruct Hc as [[E [Hc _]]|[H1 [H2 Hc]]].
        * subst c2. rewrite E1 in Hs. eapply lag_mono; [|apply Hrd]. apply (Hlag t c r ba v Hs). exists tb. split; [exact Hin|]. exists co. split; assumption.
        * rewrite E2 in Hs by assumption. eapply lag_mono; [|apply Hrd]. apply (Hlag t c2 r ba v Hs). exists tb. split; [exact Hin|]. exists co. split; assumption.
    - exact G1.
    - exact G2.
    - apply wf_upd_table; [exact Hwf|]. intros tb Hin Hwt c2 co Hc. unfold rencol in *. cbn [t_cols t_rows] in *.
      apply rename_key_In in Hc. destruct Hc as [[E [Hc _]]|[H1 [H2 Hc]]].
      + subst c2. split; [exact Hdc'|]. apply (Hwt _ _ Hc).
      + apply (Hwt _ _ Hc).
  Qed.

  (* --- ModifyColumn *)
  Lemma inv_modcol : forall dt S de t c ty,
    Inv dt S de -> Inv (upd_table t (upd_col c (set_type ty)) dt) S (upd_table t (upd_col c (set_type ty)) de).
  Proof.
    intros dt S de t c ty HI. pose proof HI as [Heq Hlag Hgone Hthere Hwf].
    assert (Hcells : forall co, c_cells (set_type ty co) = c_cells co) by (intro co; destruct ty; reflexivity).
    destruct (gone_there_same dt S S (upd_table t (upd_col c (set_type ty)) dt) Hgone Hthere) as [G1 G2].
    { apply InRow_upd_table_same. intros tb _. reflexivity. }
    { reflexivity. }
    { intros t2 c2 r ba _ _ H. exists ba. exact H. }
    assert (Hold : forall tb c2 r v, TCell (upd_col c (set_type ty) tb) c2 r v -> TCell tb c2 r v).
    { intros tb c2 r v H. apply upd_col_cell in H. destruct H as [[_ H]|[E [co [Hc Hr]]]]; [exact H|].
      subst. rewrite Hcells in Hr. exists co. split; assumption. }
    apply (inv_upd_table dt S de); try assumption.
    - intros tb Hin Hwt. apply (wf_table_names tb).
      + exact Hwt.
      + intros c2 Hc. rewrite upd_col_colnames in Hc. exact Hc.
      + intros c2 r v Hc. apply Hold in Hc. unfold upd_col. cbn [t_rows]. eapply TCell_row; eassumption.
    - intros tb Hin. apply upd_col_comm. intro co. apply set_type_comm.
    - intros tb c2 r v Hin Hc. left. apply Hold. exact Hc.
    - reflexivity.
    - intros t2 c2 r v _ H. exact H.
  Qed.
End ColumnKinds.

(* --- tables *)
Lemma NoDup_snoc : forall {A} (l : list A) x, NoDup l -> ~ In x l -> NoDup (l ++ [x]).
Proof.
  intros A l x Hnd Hx. induction l as [|y l IH]; cbn.
  - constructor; [intros []|constructor].
  - inversion Hnd; subst. constructor.
    + intro H. apply in_app_or in H. destruct H as [H|[H|[]]]; [contradiction|]. subst. apply Hx. left. reflexivity.
    + apply IH; [assumption|]. intro H. apply Hx. right. exact H.
Qed.

Lemma adel_fst_nodup : forall {A} t (d : list (str * A)), NoDup (map fst d) -> NoDup (map fst (adel str_eqb t d)).
Proof.
  intros A t d. induction d as [|p d IH]; cbn; intro H; [constructor|]. inversion H; subst.
  destruct (str_eqb (fst p) t); cbn; [apply IH; assumption|]. constructor; [|apply IH; assumption].
  intro Hin. apply H2. apply in_map_iff in Hin. destruct Hin as [q [E Hq]]. apply (adel_In str_eqb str_eqb_eq) in Hq.
  apply in_map_iff. exists q. split; [exact E|apply Hq].
Qed.

Lemma map_cells_adel : forall f t d, adel str_eqb t (map_cells f d) = map_cells f (adel str_eqb t d).
Proof.
  intros. unfold adel, map_cells.
  apply (filter_map_fst (fun k => negb (str_eqb k t)) (fun p => (fst p, map_tcells (f (fst p)) (snd p)))).
  intro x. reflexivity.
Qed.

Lemma new_table_no_cells : forall cols c r v, ~ TCell (new_table cols) c r v.
Proof.
  intros cols c r v [co [Hc Hr]]. unfold new_table in Hc. cbn in Hc. apply in_map_iff in Hc.
  destruct Hc as [[c0 ty] [E Hc]]. cbn in E. inversion E; subst. cbn in Hr. contradiction.
Qed.

Definition ren_tab (t t' : str) (p : str * table) : str * table := if str_eqb (fst p) t then (t', snd p) else p.

Lemma In_ren_tab : forall t t' d t2 tb,
  In (t2, tb) (map (ren_tab t t') d) <-> (t2 = t' /\ In (t, tb) d) \/ (t2 <> t /\ In (t2, tb) d).
Proof.
  intros t t' d t2 tb. rewrite in_map_iff. unfold ren_tab. split.
  - intros [[k x] [E Hin]]. cbn in E. destruct (str_eqb k t) eqn:Ek.
    + apply str_eqb_eq in Ek. subst k. inversion E; subst. left. split; [reflexivity|exact Hin].
    + apply str_eqb_neq in Ek. inversion E; subst. right. split; assumption.
  - intros [[E Hin]|[Hne Hin]].
    + subst. exists (t, tb). cbn. rewrite str_eqb_refl. split; [reflexivity|exact Hin].
    + exists (t2, tb). cbn. apply str_eqb_neq in Hne. rewrite Hne. split; [reflexivity|exact Hin].
Qed.

Lemma ren_tab_nodup : forall t t' (d : doc), NoDup (map fst d) -> ~ In t' (map fst d) -> NoDup (map fst (map (ren_tab t t') d)).
Proof.
  intros t t' d. induction d as [|[k x] d IH]; cbn; intros Hnd Hn; [constructor|]. inversion Hnd; subst.
  assert (Hn' : ~ In t' (map fst d)) by (intro H; apply Hn; right; exact H).
  assert (Hk : k <> t') by (intro H; apply Hn; left; exact H).
  constructor; [|apply IH; assumption].
  intro Hin. apply in_map_iff in Hin. destruct Hin as [[k2 x2] [E Hin]]. apply In_ren_tab in Hin. cbn in E.
  unfold ren_tab in E. cbn in E. destruct (str_eqb k t) eqn:Ek; cbn in E.
  - apply str_eqb_eq in Ek. subst k. subst k2. destruct Hin as [[_ Hin]|[Hne Hin]].
    + apply H1. apply in_map_iff. exists (t, x2). split; [reflexivity|exact Hin].
    + apply Hn'. apply in_map_iff. exists (t', x2). split; [reflexivity|exact Hin].
  - subst k2. destruct Hin as [[E _]|[_ Hin]]; [congruence|].
    apply H1. apply in_map_iff. exists (k, x2). split; [reflexivity|exact Hin].
Qed.

Section TableKinds.
  Variable td : str -> V.

  Lemma inv_addtable : forall dt S de t cols,
    Inv dt S de -> amem str_eqb t dt = false -> is_defunct t = false ->
    forallb (fun p => negb (is_defunct (fst p))) cols = true ->
    Inv (dt ++ [(t, new_table cols)]) (rename_table None t S) (de ++ [(t, new_table cols)]).
  Proof.
    intros dt S de t cols HI Ht Hdt Hdc. destruct HI as [Heq Hlag Hgone Hthere Hwf].
    assert (Hcell : forall t2 c r v, InCell (dt ++ [(t, new_table cols)]) t2 c r v -> InCell dt t2 c r v).
    { intros t2 c r v [tb [Hin Hc]]. apply in_app_or in Hin. destruct Hin as [Hin|[Hin|[]]].
      - exists tb. split; assumption.
      - inversion Hin; subst. exfalso. eapply new_table_no_cells. exact Hc. }
    assert (Hrow : forall t2 r, InRow (dt ++ [(t, new_table cols)]) t2 r <-> InRow dt t2 r).
    { intros t2 r. split.
      - intros [tb [Hin Hr]]. apply in_app_or in Hin. destruct Hin as [Hin|[Hin|[]]].
        + exists tb. split; assumption.
        + inversion Hin; subst. cbn in Hr. contradiction.
      - intros [tb [Hin Hr]]. exists tb. split; [apply in_or_app; left; exact Hin|exact Hr]. }
    constructor.
    - rewrite Heq. unfold map_cells. rewrite map_app. cbn [map fst snd]. f_equal. f_equal. f_equal.
      symmetry. apply map_tcells_id. intros c r v Hc. exfalso. eapply new_table_no_cells. exact Hc.
    - intros t2 c r ba v Hs Hc. rewrite sdelta_add_table in Hs. apply Hcell in Hc. eapply Hlag; eassumption.
    - intros t2 r Hp Hr. rewrite pa_get_add_table in Hp. apply Hrow in Hr. eapply Hgone; eassumption.
    - intros t2 c r ba Hd Hdc2 Hs Hr. rewrite sdelta_add_table in Hs. rewrite pa_get_add_table.
      apply (Hthere t2 c r ba Hd Hdc2 Hs). intro H. apply Hr. apply Hrow. exact H.
    - destruct Hwf as [Hnd Hwf]. split.
      + rewrite map_app. cbn. apply NoDup_snoc; [exact Hnd|]. apply (amem_false str_eqb str_eqb_eq). exact Ht.
      + intros t2 tb Hin. apply in_app_or in Hin. destruct Hin as [Hin|[Hin|[]]]; [apply Hwf; exact Hin|].
        inversion Hin; subst. split; [exact Hdt|]. intros c co Hc. unfold new_table in Hc. cbn in Hc.
        apply in_map_iff in Hc. destruct Hc as [[c0 ty] [E Hc]]. cbn in E. inversion E; subst. split.
        * rewrite forallb_forall in Hdc. specialize (Hdc _ Hc). cbn in Hdc. apply negb_true_iff in Hdc. exact Hdc.
        * cbn. intros r v [].
  Qed.

  Lemma inv_deltable : forall dt S de t,
    Inv dt S de ->
    Inv (adel str_eqb t dt) (rename_table (Some t) (defunct_name t) S) (adel str_eqb t de).
  Proof.
    intros dt S de t HI. destruct HI as [Heq Hlag Hgone Hthere Hwf].
    set (S' := rename_table (Some t) (defunct_name t) S).
    assert (A : forall t2 c r, is_defunct t2 = false -> t2 <> t -> sdelta S' t2 c r = sdelta S t2 c r).
    { intros t2 c r Hd Hne. unfold S'. rewrite sdelta_rename_table. destruct (aget str_eqb t (sm_tables S)); [|reflexivity].
      assert (E1 : str_eqb (defunct_name t) t2 = false) by (apply str_eqb_neq; intro E; subst; discriminate).
      assert (E2 : str_eqb t t2 = false) by (apply str_eqb_neq; congruence). rewrite E1, E2. reflexivity. }
    assert (B : forall t2 r, is_defunct t2 = false -> t2 <> t -> pa_get S' t2 r = pa_get S t2 r).
    { intros t2 r Hd Hne. unfold S'. rewrite pa_get_rename_table. destruct (aget str_eqb t (sm_tables S)); [|reflexivity].
      assert (E1 : str_eqb (defunct_name t) t2 = false) by (apply str_eqb_neq; intro E; subst; discriminate).
      assert (E2 : str_eqb t t2 = false) by (apply str_eqb_neq; congruence). rewrite E1, E2. reflexivity. }
    assert (B2 : forall t2 r, is_defunct t2 = false -> t2 <> t -> pb_get S' t2 r = pb_get S t2 r).
    { intros t2 r Hd Hne. unfold S'. rewrite pb_get_rename_table. destruct (aget str_eqb t (sm_tables S)); [|reflexivity].
      assert (E1 : str_eqb (defunct_name t) t2 = false) by (apply str_eqb_neq; intro E; subst; discriminate).
      assert (E2 : str_eqb t t2 = false) by (apply str_eqb_neq; congruence). rewrite E1, E2. reflexivity. }
    assert (D : forall c r, sdelta S' t c r = None).
    { intros c r. unfold S'. rewrite sdelta_rename_table. destruct (aget str_eqb t (sm_tables S)) eqn:E.
      - assert (E1 : str_eqb (defunct_name t) t = false) by (apply str_eqb_neq; intro H; symmetry in H; exact (defunct_name_neq _ H)).
        rewrite E1, str_eqb_refl. reflexivity.
      - rewrite sdelta_dl, E. reflexivity. }
    assert (Hcell : forall t2 c r v, InCell (adel str_eqb t dt) t2 c r v -> InCell dt t2 c r v /\ t2 <> t).
    { intros t2 c r v [tb [Hin Hc]]. apply (adel_In str_eqb str_eqb_eq) in Hin. destruct Hin as [Hin Hne]. cbn in Hne.
      split; [|exact Hne]. exists tb. split; assumption. }
    assert (Hrow : forall t2 r, InRow (adel str_eqb t dt) t2 r <-> InRow dt t2 r /\ t2 <> t).
    { intros t2 r. split.
      - intros [tb [Hin Hr]]. apply (adel_In str_eqb str_eqb_eq) in Hin. destruct Hin as [Hin Hne]. cbn in Hne.
        split; [|exact Hne]. exists tb. split; assumption.
      - intros [[tb [Hin Hr]] Hne]. exists tb. split; [|exact Hr]. apply (adel_In str_eqb str_eqb_eq). split; assumption. }
    constructor.
    - rewrite Heq. rewrite map_cells_adel. apply map_cells_ext_in. intros t2 c r v Hc. apply Hcell in Hc.
      destruct Hc as [Hc Hne]. unfold ov. rewrite A; [reflexivity| |exact Hne]. apply (InCell_names _ _ _ _ _ Hwf Hc).
    - intros t2 c r ba v Hs Hc. apply Hcell in Hc. destruct Hc as [Hc Hne].
      pose proof (proj1 (InCell_names _ _ _ _ _ Hwf Hc)) as Hd2.
      rewrite A in Hs; [|exact Hd2|exact Hne]. eapply lag_mono; [eapply Hlag; eassumption|].
      apply readded_same; [apply B2; assumption|apply B; assumption].
    - intros t2 r Hp Hr. apply Hrow in Hr. destruct Hr as [Hr Hne].
      assert (Hd : is_defunct t2 = false).
      { destruct Hr as [tb [Hin _]]. destruct Hwf as [_ Hwf]. apply (Hwf _ _ Hin). }
      rewrite B in Hp by assumption. eapply Hgone; eassumption.
    - intros t2 c r ba Hd Hdc Hs Hr. destruct (str_eqb t2 t) eqn:E.
      + apply str_eqb_eq in E. subst. rewrite D in Hs. discriminate.
      + apply str_eqb_neq in E. rewrite A in Hs by assumption. rewrite B by assumption.
        apply (Hthere t2 c r ba Hd Hdc Hs). intro H. apply Hr. apply Hrow. split; assumption.
    - destruct Hwf as [Hnd Hwf]. split; [apply adel_fst_nodup; exact Hnd|].
      intros t2 tb Hin. apply (adel_In str_eqb str_eqb_eq) in Hin. apply Hwf. apply Hin.
  Qed.

  Lemma inv_rentable : forall dt S de t t',
    Inv dt S de -> t <> t' -> amem str_eqb t' dt = false -> is_defunct t = false -> is_defunct t' = false ->
    table_clear S t' = true ->
    Inv (map (ren_tab t t') dt) (rename_table (Some t) t' S) (map (ren_tab t t') de).
  Proof.
    intros dt S de t t' HI Hne Ht' Hdt Hdt' Hclear. destruct HI as [Heq Hlag Hgone Hthere Hwf].
    set (S' := rename_table (Some t) t' S).
    pose proof (table_clear_none _ _ Hclear) as Hnone.
    assert (Hnt : forall t2 tb, In (t2, tb) dt -> t2 <> t').
    { intros t2 tb Hin E. subst. apply (amem_false str_eqb str_eqb_eq) in Ht'. apply Ht'. apply in_map_iff.
      exists (t', tb). split; [reflexivity|exact Hin]. }
    assert (N1 : str_eqb t' t = false) by (apply str_eqb_neq; congruence).
    assert (E1 : forall c r, sdelta S' t' c r = sdelta S t c r).
    { intros. unfold S'. rewrite sdelta_rename_table. rewrite str_eqb_refl.
      destruct (aget str_eqb t (sm_tables S)) eqn:E; [reflexivity|]. rewrite !sdelta_dl. rewrite Hnone, E. reflexivity. }
    assert (E2 : forall t2 c r, t2 <> t -> t2 <> t' -> sdelta S' t2 c r = sdelta S t2 c r).
    { intros t2 c r H1 H2. unfold S'. rewrite sdelta_rename_table. destruct (aget str_eqb t (sm_tables S)); [|reflexivity].
      assert (X1 : str_eqb t' t2 = false) by (apply str_eqb_neq; congruence).
      assert (X2 : str_eqb t t2 = false) by (apply str_eqb_neq; congruence). rewrite X1, X2. reflexivity. }
    assert (E4 : forall c r, sdelta S' t c r = None).
    { intros. unfold S'. rewrite sdelta_rename_table. destruct (aget str_eqb t (sm_tables S)) eqn:E.
      - rewrite N1, str_eqb_refl. reflexivity.
      - rewrite sdelta_dl, E. reflexivity. }
    assert (P1 : forall r, pa_get S' t' r = pa_get S t r).
    { intros. unfold S'. rewrite pa_get_rename_table. rewrite str_eqb_refl.
      destruct (aget str_eqb t (sm_tables S)) eqn:E; [reflexivity|]. unfold pa_get. rewrite Hnone, E. reflexivity. }
    assert (Q1 : forall r, pb_get S' t' r = pb_get S t r).
    { intros. unfold S'. rewrite pb_get_rename_table. rewrite str_eqb_refl.
      destruct (aget str_eqb t (sm_tables S)) eqn:E; [reflexivity|]. unfold pb_get. rewrite Hnone, E. reflexivity. }
    assert (Q2 : forall t2 r, t2 <> t -> t2 <> t' -> pb_get S' t2 r = pb_get S t2 r).
    { intros t2 r H1 H2. unfold S'. rewrite pb_get_rename_table. destruct (aget str_eqb t (sm_tables S)); [|reflexivity].
      assert (X1 : str_eqb t' t2 = false) by (apply str_eqb_neq; congruence).
      assert (X2 : str_eqb t t2 = false) by (apply str_eqb_neq; congruence). rewrite X1, X2. reflexivity. }
    assert (P2 : forall t2 r, t2 <> t -> t2 <> t' -> pa_get S' t2 r = pa_get S t2 r).
    { intros t2 r H1 H2. unfold S'. rewrite pa_get_rename_table. destruct (aget str_eqb t (sm_tables S)); [|reflexivity].
      assert (X1 : str_eqb t' t2 = false) by (apply str_eqb_neq; congruence).
      assert (X2 : str_eqb t t2 = false) by (apply str_eqb_neq; congruence). rewrite X1, X2. reflexivity. }
    assert (Hcell : forall t2 c r v, InCell (map (ren_tab t t') dt) t2 c r v ->
                      (t2 = t' /\ InCell dt t c r v) \/ (t2 <> t /\ t2 <> t' /\ InCell dt t2 c r v)).
    { intros t2 c r v [tb [Hin Hc]]. apply In_ren_tab in Hin. destruct Hin as [[E Hin]|[H1 Hin]].
      - left. split; [exact E|]. exists tb. split; assumption.
      - right. split; [exact H1|]. split; [eapply Hnt; exact Hin|]. exists tb. split; assumption. }
    assert (Hrow : forall t2 r, InRow (map (ren_tab t t') dt) t2 r <->
                      (t2 = t' /\ InRow dt t r) \/ (t2 <> t /\ InRow dt t2 r)).
    { intros t2 r. split.
      - intros [tb [Hin Hr]]. apply In_ren_tab in Hin. destruct Hin as [[E Hin]|[H1 Hin]].
        + left. split; [exact E|]. exists tb. split; assumption.
        + right. split; [exact H1|]. exists tb. split; assumption.
      - intros [[E [tb [Hin Hr]]]|[H1 [tb [Hin Hr]]]]; exists tb; (split; [|exact Hr]); apply In_ren_tab.
        + left. split; assumption.
        + right. split; assumption. }
    constructor.
    - rewrite Heq. unfold map_cells. rewrite !map_map. apply map_ext_in. intros [t2 tb] Hin. unfold ren_tab. cbn [fst snd].
      destruct (str_eqb t2 t) eqn:E; cbn [fst snd].
      + apply str_eqb_eq in E. subst t2. f_equal. apply map_tcells_ext. intros c r v _. unfold ov. rewrite E1. reflexivity.
      + apply str_eqb_neq in E. f_equal. apply map_tcells_ext. intros c r v _. unfold ov. rewrite E2; [reflexivity|exact E|].
        eapply Hnt. exact Hin.
    - intros t2 c r ba v Hs Hc. apply Hcell in Hc. destruct Hc as [[E Hc]|[H1 [H2 Hc]]].
      + subst t2. rewrite E1 in Hs. eapply lag_mono; [eapply Hlag; eassumption|]. apply readded_same; [apply Q1|apply P1].
      + rewrite E2 in Hs by assumption. eapply lag_mono; [eapply Hlag; eassumption|].
        apply readded_same; [apply Q2; assumption|apply P2; assumption].
    - intros t2 r Hp Hr. apply Hrow in Hr. destruct Hr as [[E Hr]|[H1 Hr]].
      + subst t2. rewrite P1 in Hp. eapply Hgone; eassumption.
      + assert (H2 : t2 <> t') by (destruct Hr as [tb [Hin _]]; eapply Hnt; exact Hin).
        rewrite P2 in Hp by assumption. eapply Hgone; eassumption.
    - intros t2 c r ba Hd Hdc Hs Hr. destruct (str_eqb t2 t') eqn:Et'.
      + apply str_eqb_eq in Et'. subst t2. rewrite E1 in Hs. rewrite P1. apply (Hthere t c r ba Hdt Hdc Hs).
        intro H. apply Hr. apply Hrow. left. split; [reflexivity|exact H].
      + apply str_eqb_neq in Et'. destruct (str_eqb t2 t) eqn:Et.
        * apply str_eqb_eq in Et. subst t2. rewrite E4 in Hs. discriminate.
        * apply str_eqb_neq in Et. rewrite E2 in Hs by assumption. rewrite P2 by assumption.
          apply (Hthere t2 c r ba Hd Hdc Hs). intro H. apply Hr. apply Hrow. right. split; assumption.
    - destruct Hwf as [Hnd Hwf]. split.
      + apply ren_tab_nodup; [exact Hnd|]. apply (amem_false str_eqb str_eqb_eq). exact Ht'.
      + intros t2 tb Hin. apply In_ren_tab in Hin. destruct Hin as [[E Hin]|[H1 Hin]].
        * subst. split; [exact Hdt'|]. apply (Hwf _ _ Hin).
        * apply (Hwf _ _ Hin).
  Qed.
End TableKinds.

(* ------------------------------------------------------------------------------------------------ *)
(* EDoc, assembled *)

Lemma has_col_alive : forall d t c, wf_doc d -> has_col t c d = true -> is_defunct t = false /\ is_defunct c = false.
Proof.
  intros d t c [Hnd Hwf] H. unfold has_col in H. destruct (aget str_eqb t d) as [tb|] eqn:E; [|discriminate].
  apply sget_In in E. destruct (Hwf _ _ E) as [H1 H2]. split; [exact H1|].
  apply (amem_In str_eqb str_eqb_eq) in H. apply in_map_iff in H. destruct H as [[c0 co] [E0 Hc]]. cbn in E0. subst.
  apply (H2 _ _ Hc).
Qed.

Lemma amem_alive : forall (d : doc) t, wf_doc d -> amem str_eqb t d = true -> is_defunct t = false.
Proof.
  intros d t [_ Hwf] H. apply amem_tab in H. destruct H as [tb Hin]. apply (Hwf _ _ Hin).
Qed.

(* ------------------------------------------------------------------------------------------------ *)
(* the repaired variant: restart_rows *)

Lemma aget_restart_dl : forall pb start rs dl r,
  aget Z.eqb r (restart_dl pb start rs dl) =
  match aget Z.eqb r dl with
  | Some ba => if zmem r rs
               then Some (match aget Z.eqb r pb with Some false => start r | _ => fst ba end, start r)
               else Some ba
  | None => None
  end.
Proof.
  intros pb start rs dl r. unfold restart_dl. induction dl as [|q dl IH]; cbn [map aget]; [reflexivity|].
  destruct (zmem (fst q) rs) eqn:Ez; cbn [fst snd].
  - destruct (Z.eqb (fst q) r) eqn:E; [|exact IH]. apply Z.eqb_eq in E. subst r. rewrite Ez. reflexivity.
  - destruct (Z.eqb (fst q) r) eqn:E; [|exact IH]. apply Z.eqb_eq in E. subst r. rewrite Ez. reflexivity.
Qed.

Lemma aget_map_cols : forall (G : str -> rowdeltas -> rowdeltas) (deltas : list (str * rowdeltas)) c,
  aget str_eqb c (map (fun p => if is_defunct (fst p) then p else (fst p, G (fst p) (snd p))) deltas) =
  match aget str_eqb c deltas with
  | Some dl => Some (if is_defunct c then dl else G c dl)
  | None => None
  end.
Proof.
  intros G deltas c. induction deltas as [|p deltas IH]; cbn [map aget]; [reflexivity|].
  destruct (is_defunct (fst p)) eqn:Ed; cbn [fst snd].
  - destruct (str_eqb (fst p) c) eqn:E; [|exact IH]. apply str_eqb_eq in E. subst c. rewrite Ed. reflexivity.
  - destruct (str_eqb (fst p) c) eqn:E; [|exact IH]. apply str_eqb_eq in E. subst c. rewrite Ed. reflexivity.
Qed.

Lemma sdelta_restart_rows : forall S t rs d' t2 c r,
  sdelta (restart_rows t rs d' S) t2 c r =
  if str_eqb t t2 && negb (is_defunct c) && zmem r rs
  then match sdelta S t c r with
       | Some ba => Some (match pb_get S t r with Some false => hd 0 (cell_values d' t c r) | _ => fst ba end,
                          hd 0 (cell_values d' t c r))
       | None => None
       end
  else sdelta S t2 c r.
Proof.
  intros. unfold restart_rows. destruct (aget str_eqb t (sm_tables S)) as [tdl|] eqn:Et.
  - rewrite sdelta_set_table. cbn [td_deltas]. destruct (str_eqb t t2) eqn:E; cbn [andb]; [|reflexivity].
    apply str_eqb_eq in E. subst t2. unfold dl_get.
    rewrite (aget_map_cols (fun c0 dl0 => restart_dl (td_pb tdl) (fun r0 => hd 0 (cell_values d' t c0 r0)) rs dl0)).
    rewrite !sdelta_dl, Et. unfold dl_get, pb_get. rewrite Et.
    destruct (aget str_eqb c (td_deltas tdl)) as [dl|]; [|destruct (negb (is_defunct c) && zmem r rs); reflexivity].
    destruct (is_defunct c); cbn [negb andb]; [reflexivity|]. rewrite aget_restart_dl.
    destruct (aget Z.eqb r dl); destruct (zmem r rs); reflexivity.
  - destruct (str_eqb t t2 && negb (is_defunct c) && zmem r rs) eqn:E; [|reflexivity].
    apply andb_true_iff in E. destruct E as [E _]. apply andb_true_iff in E. destruct E as [E _]. apply str_eqb_eq in E. subst.
    rewrite sdelta_dl, Et. reflexivity.
Qed.

Lemma pa_get_restart_rows : forall S t rs d' t2 r, pa_get (restart_rows t rs d' S) t2 r = pa_get S t2 r.
Proof.
  intros. unfold restart_rows. destruct (aget str_eqb t (sm_tables S)) as [tdl|] eqn:Et; [|reflexivity].
  rewrite pa_get_set_table. cbn [td_pa]. destruct (str_eqb t t2) eqn:E; [|reflexivity].
  apply str_eqb_eq in E. subst. unfold pa_get. rewrite Et. reflexivity.
Qed.

Lemma pb_get_restart_rows : forall S t rs d' t2 r, pb_get (restart_rows t rs d' S) t2 r = pb_get S t2 r.
Proof.
  intros. unfold restart_rows. destruct (aget str_eqb t (sm_tables S)) as [tdl|] eqn:Et; [|reflexivity].
  rewrite pb_get_set_table. cbn [td_pb]. destruct (str_eqb t t2) eqn:E; [|reflexivity].
  apply str_eqb_eq in E. subst. unfold pb_get. rewrite Et. reflexivity.
Qed.

Lemma all_equal_hd : forall l v, all_equal l = true -> In v l -> hd 0 l = v.
Proof.
  intros [|x l] v H Hin; [contradiction|]. cbn in *. destruct Hin as [E|Hin]; [exact E|].
  rewrite forallb_forall in H. apply Z.eqb_eq. apply H. exact Hin.
Qed.

Lemma uniform_starts_spec : forall S t rs d' c r ba,
  uniform_starts S t rs d' = true -> In r rs -> sdelta S t c r = Some ba -> all_equal (cell_values d' t c r) = true.
Proof.
  intros S t rs d' c r ba H Hr Hs. unfold uniform_starts in H. rewrite sdelta_dl in Hs.
  destruct (aget str_eqb t (sm_tables S)) as [tdl|]; [|discriminate]. unfold dl_get in Hs.
  destruct (aget str_eqb c (td_deltas tdl)) as [dl|] eqn:Ec; [|discriminate].
  rewrite forallb_forall in H. apply sget_In in Ec. specialize (H _ Ec). cbn [fst snd] in H.
  rewrite forallb_forall in H. specialize (H _ Hr). apply orb_true_iff in H. destruct H as [H|H]; [|exact H].
  apply negb_true_iff in H. unfold amem in H. rewrite Hs in H. discriminate.
Qed.

Section AddRowsRep.
  Variable td : str -> V.

  Lemma tds_add_rows_comm2 : forall (g g' : str -> Z -> V -> V) rs cols tb,
    (forall c r v, TCell tb c r v -> g' c r v = g c r v) ->
    (forall c r v, TCell (tds_add_rows td rs cols tb) c r v -> In r rs -> ~ In r (t_rows tb) -> g' c r v = v) ->
    wf_table tb -> (forall r, In r rs -> ~ In r (t_rows tb)) ->
    tds_add_rows td rs cols (map_tcells g tb) = map_tcells g' (tds_add_rows td rs cols tb).
  Proof.
    intros g g' rs cols tb Hold Hnew Hwf Hfresh. unfold tds_add_rows, map_tcells. cbn [t_rows t_cols]. f_equal.
    rewrite !map_map. apply map_ext_in. intros [c co] Hc. cbn [fst snd]. f_equal. unfold map_ccells. cbn [c_type c_cells].
    f_equal. rewrite map_app. f_equal.
    - apply map_ext_in. intros [r v] Hr. cbn [fst snd]. f_equal. symmetry. apply Hold. exists co. split; assumption.
    - set (new := match aget str_eqb c cols with Some vs => combine rs vs
                                               | None => map (fun r => (r, td (c_type co))) rs end).
      rewrite <- (map_id new) at 1. apply map_ext_in. intros [r v] Hr. cbn [fst snd]. f_equal. symmetry.
      assert (Hrs : In r rs).
      { unfold new in Hr. destruct (aget str_eqb c cols).
        - eapply in_combine_fst. exact Hr.
        - apply in_map_iff in Hr. destruct Hr as [r' [E Hr]]. inversion E; subst. exact Hr. }
      apply Hnew; [|exact Hrs|apply Hfresh; exact Hrs].
      exists (mkCol (c_type co) (c_cells co ++ new)). split.
      + unfold tds_add_rows. cbn [t_cols]. apply in_map_iff. exists (c, co). split; [reflexivity|exact Hc].
      + cbn [c_cells]. apply in_or_app. right. exact Hr.
  Qed.
End AddRowsRep.

Lemma sum_apply_bulk : forall a pre d S, sum_apply a pre d S = sum_apply (bulk_of a) pre d S.
Proof. intros. unfold sum_apply. rewrite bulk_of_idem. reflexivity. Qed.

Lemma sc1_bulk : forall S a, sc1 rep S a = sc1 rep S (bulk_of a).
Proof. intros. unfold sc1. rewrite bulk_of_idem. reflexivity. Qed.

Section AddRowsRepaired.
  Variable td : str -> V.

  (* BulkAddRecord in the repaired variant: no condition on pending deltas of the added rows *)
  Lemma inv_add_rows_rep : forall dt S de t rs cols,
    rep = true -> Inv dt S de -> amem str_eqb t dt = true -> rows_fresh rs = true ->
    (forall r, In r rs -> ~ InRow dt t r) ->
    uniform_starts S t rs (upd_table t (tds_add_rows td rs cols) de) = true ->
    Inv (upd_table t (tds_add_rows td rs cols) dt)
        (restart_rows t rs (upd_table t (tds_add_rows td rs cols) de) (add_records t rs S))
        (upd_table t (tds_add_rows td rs cols) de).
  Proof.
    intros dt S de t rs cols Hrep HI Ht Hfresh Hnew Hunif. pose proof HI as [Heq Hlag Hgone Hthere Hwf].
    set (F := tds_add_rows td rs cols). set (Y := upd_table t F dt). set (de' := upd_table t F de).
    set (S1 := add_records t rs S). set (S2 := restart_rows t rs de' S1).
    destruct (tab_of_amem _ _ Ht) as [tb0 Htb0].
    assert (Hrowsfresh : forall tb, In (t, tb) dt -> forall r, In r rs -> ~ In r (t_rows tb)).
    { intros tb Hin r Hr Hrow. apply (Hnew r Hr). exists tb. split; assumption. }
    assert (A1 : forall t2 c r, sdelta S1 t2 c r = sdelta S t2 c r) by (intros; apply sdelta_add_records).
    assert (A2 : forall t2 c r, (t2 <> t \/ ~ In r rs) -> sdelta S2 t2 c r = sdelta S t2 c r).
    { intros t2 c r H. unfold S2. rewrite sdelta_restart_rows. rewrite <- A1.
      destruct (str_eqb t t2 && negb (is_defunct c) && zmem r rs) eqn:E; [|reflexivity].
      exfalso. apply andb_true_iff in E. destruct E as [E E3]. apply andb_true_iff in E. destruct E as [E1 _].
      apply str_eqb_eq in E1. apply zmem_In in E3. destruct H as [H|H]; [congruence|contradiction]. }
    assert (P1 : forall t2 r, pa_get S2 t2 r = if str_eqb t t2 && zmem r rs then Some true else pa_get S t2 r).
    { intros. unfold S2. rewrite pa_get_restart_rows. apply pa_get_add_records. }
    assert (Q1 : forall t2 r, pb_get S2 t2 r =
                   if str_eqb t t2 then match pb_get S t r with Some v => Some v
                                                           | None => if zmem r rs then Some false else None end
                   else pb_get S t2 r).
    { intros. unfold S2. rewrite pb_get_restart_rows. apply pb_get_add_records. }
    assert (Hrdmono : forall t2 r, readded S t2 r = true -> readded S2 t2 r = true).
    { intros t2 r H. apply readded_spec in H. destruct H as [H1 H2]. apply readded_spec. rewrite Q1, P1.
      destruct (str_eqb t t2) eqn:E; cbn [andb].
      - apply str_eqb_eq in E. subst t2. rewrite H1. split; [reflexivity|]. destruct (zmem r rs); [reflexivity|exact H2].
      - split; assumption. }
    (* a new cell of the replayed document is the same new cell of the engine's document *)
    assert (Hnewcell : forall tb c r v, In (t, tb) dt -> TCell (F tb) c r v -> In r rs -> InCell de' t c r v).
    { intros tb c r v Hin [co [Hc Hr]] Hrs. unfold F, tds_add_rows in Hc. cbn [t_cols] in Hc. apply in_map_iff in Hc.
      destruct Hc as [[c0 co0] [E Hc]]. cbn [fst snd] in E. inversion E; subst c0 co. clear E. cbn [c_cells] in Hr.
      apply in_app_or in Hr. destruct Hr as [Hr|Hr].
      - exfalso. destruct Hwf as [_ Hwf]. destruct (Hwf _ _ Hin) as [_ Hwt]. destruct (Hwt _ _ Hc) as [_ Hrows].
        apply (Hrowsfresh tb Hin r Hrs). eapply Hrows. exact Hr.
      - exists (F (map_tcells (ov S t) tb)). split.
        + unfold de'. apply In_upd_table. right. split; [reflexivity|]. exists (map_tcells (ov S t) tb). split; [|reflexivity].
          rewrite Heq. unfold map_cells. apply in_map_iff. exists (t, tb). split; [reflexivity|exact Hin].
        + unfold F, tds_add_rows, map_tcells. cbn [t_cols t_rows].
          exists (mkCol (c_type co0) (c_cells (map_ccells (ov S t c) co0) ++
                                       match aget str_eqb c cols with
                                       | Some vs => combine rs vs
                                       | None => map (fun r0 => (r0, td (c_type co0))) rs end)). split.
          * rewrite map_map. apply in_map_iff. exists (c, co0). split; [reflexivity|exact Hc].
          * cbn [c_cells]. apply in_or_app. right. exact Hr. }
    assert (Hstart : forall tb c r v ba, In (t, tb) dt -> TCell (F tb) c r v -> In r rs -> sdelta S t c r = Some ba ->
                       hd 0 (cell_values de' t c r) = v).
    { intros tb c r v ba Hin Hc Hrs Hs. apply all_equal_hd.
      - eapply uniform_starts_spec; eassumption.
      - apply cell_values_In. eapply Hnewcell; eassumption. }
    assert (Hwf' : wf_doc Y).
    { apply wf_upd_table; [exact Hwf|]. intros tb Hin Hwt. apply (wf_table_names tb).
      - exact Hwt.
      - intros c Hc'. unfold F in Hc'. rewrite tds_add_rows_colnames in Hc'. exact Hc'.
      - intros c r v Hcell. cbn. apply in_or_app. apply tds_add_rows_cell in Hcell. destruct Hcell as [Ho|Hn].
        + left. eapply TCell_row; eassumption.
        + right. exact Hn. }
    constructor.
    - (* engine document = overlay of the replayed one *)
      unfold de'. rewrite Heq. apply (upd_table_map_cells2 t F (ov S) (ov S2)).
      + intros tb Hin. unfold F. destruct Hwf as [_ Hwfd]. destruct (Hwfd _ _ Hin) as [_ Hwt].
        apply tds_add_rows_comm2; [| |exact Hwt|apply Hrowsfresh; exact Hin].
        * intros c r v Hc. unfold ov. rewrite A2; [reflexivity|]. right. intro Hr.
          apply (Hrowsfresh tb Hin r Hr). eapply TCell_row; eassumption.
        * intros c r v Hc Hr _. unfold ov. unfold S2. rewrite sdelta_restart_rows. rewrite A1.
          destruct (str_eqb t t && negb (is_defunct c) && zmem r rs) eqn:E.
          -- destruct (sdelta S t c r) as [ba|] eqn:Es; [|reflexivity]. cbn [snd]. eapply Hstart; eassumption.
          -- apply zmem_In in Hr. rewrite str_eqb_refl, Hr in E. cbn in E. rewrite andb_true_r in E.
             apply negb_false_iff in E.
             (* a defunct column name: no physical cell has it *)
             exfalso. assert (Hcy : InCell Y t c r v).
             { exists (F tb). split; [|exact Hc]. unfold Y. apply In_upd_table. right. split; [reflexivity|]. exists tb. split; [exact Hin|reflexivity]. }
             destruct (InCell_names _ _ _ _ _ Hwf' Hcy) as [_ Hd]. congruence.
      + intros t2 tb Hin Hne. apply map_tcells_ext. intros c r v _. unfold ov. rewrite A2; [reflexivity|left; exact Hne].
    - (* lag *)
      intros t2 c r ba v Hs Hc. pose proof Hc as Hc0. apply InCell_upd_table in Hc.
      destruct Hc as [[Hne Hc]|[E [tb [Hin Hc]]]].
      + rewrite A2 in Hs by (left; exact Hne). destruct (Hlag _ _ _ _ _ Hs Hc) as [H|[H1 H2]]; [left; exact H|].
        right. split; [exact H1|apply Hrdmono; exact H2].
      + subst t2. destruct (zmem r rs) eqn:Er.
        * apply zmem_In in Er. unfold S2 in Hs. rewrite sdelta_restart_rows in Hs. rewrite A1 in Hs.
          destruct (InCell_names _ _ _ _ _ Hwf' Hc0) as [_ Hd].
          rewrite str_eqb_refl, Hd in Hs. cbn [negb andb] in Hs. apply zmem_In in Er. rewrite Er in Hs. apply zmem_In in Er.
          destruct (sdelta S t c r) as [ba0|] eqn:Es; [|discriminate]. inversion Hs; subst ba. clear Hs. cbn [fst].
          rewrite (Hstart tb c r v ba0 Hin Hc Er Es).
          fold S1. assert (Hpb : pb_get S1 t r = match pb_get S t r with Some x => Some x | None => Some false end).
          { unfold S1. rewrite pb_get_add_records, str_eqb_refl. apply zmem_In in Er. rewrite Er. reflexivity. }
          rewrite Hpb. destruct (pb_get S t r) as [[|]|] eqn:Ep.
          -- right. split; [exact Hrep|]. apply readded_spec. rewrite Q1, P1, str_eqb_refl, Ep. apply zmem_In in Er. rewrite Er.
             split; reflexivity.
          -- left. reflexivity.
          -- left. reflexivity.
        * apply zmem_false in Er. rewrite A2 in Hs by (right; exact Er).
          apply tds_add_rows_cell in Hc. destruct Hc as [Ho|Hn]; [|contradiction].
          destruct (Hlag t c r ba v Hs) as [H|[H1 H2]]; [exists tb; split; assumption|left; exact H|].
          right. split; [exact H1|apply Hrdmono; exact H2].
    - (* gone *)
      intros t2 r Hpa Hrow. rewrite P1 in Hpa.
      destruct (str_eqb t t2 && zmem r rs) eqn:E; [discriminate|].
      apply InRow_upd_table in Hrow. destruct Hrow as [[Hne Hrow]|[E2 [tb [Hin Hr]]]].
      + eapply Hgone; eassumption.
      + subst t2. rewrite str_eqb_refl in E. cbn in E. apply zmem_false in E. cbn in Hr. apply in_app_or in Hr.
        destruct Hr as [Hr|Hr]; [|contradiction]. apply (Hgone t r Hpa). exists tb. split; assumption.
    - (* there *)
      intros t2 c r ba Hd Hdc Hs Hrow. rewrite P1.
      assert (Hnr : ~ InRow dt t2 r).
      { intro H. apply Hrow. apply InRow_upd_table. destruct H as [tb [Hin Hr]]. destruct (str_eqb t2 t) eqn:E.
        - apply str_eqb_eq in E. subst. right. split; [reflexivity|]. exists tb. split; [exact Hin|]. cbn. apply in_or_app. left. exact Hr.
        - apply str_eqb_neq in E. left. split; [exact E|]. exists tb. split; assumption. }
      destruct (str_eqb t t2 && zmem r rs) eqn:E.
      + exfalso. apply andb_true_iff in E. destruct E as [E1 E2]. apply str_eqb_eq in E1. subst t2. apply zmem_In in E2.
        apply Hrow. apply InRow_upd_table. right. split; [reflexivity|]. exists tb0. split; [exact Htb0|].
        cbn. apply in_or_app. right. exact E2.
      + assert (Hs' : exists ba', sdelta S t2 c r = Some ba').
        { unfold S2 in Hs. rewrite sdelta_restart_rows in Hs. rewrite A1 in Hs.
          destruct (str_eqb t t2 && negb (is_defunct c) && zmem r rs) eqn:E3.
          - apply andb_true_iff in E3. destruct E3 as [E3 _]. apply andb_true_iff in E3. destruct E3 as [E3 _].
            apply str_eqb_eq in E3. subst t2. destruct (sdelta S t c r) as [ba0|]; [exists ba0; reflexivity|discriminate].
          - exists ba. rewrite <- A1. exact Hs. }
        destruct Hs' as [ba' Hs']. eapply Hthere; eassumption.
    - exact Hwf'.
  Qed.
End AddRowsRepaired.

Section DocStep.
  Variable td : str -> V.

  Definition final_sum (b : action) (d' : doc) (S1 : summary) : summary :=
    if rep then restart_for b d' S1 else S1.

  Lemma final_sum_other : forall b d' S1,
    match bulk_of b with BulkAddRecord _ _ _ => False | _ => True end -> final_sum b d' S1 = S1.
  Proof.
    intros b d' S1 H. unfold final_sum, restart_for. destruct rep; [|reflexivity].
    destruct (bulk_of b); try reflexivity. contradiction.
  Qed.

  Lemma inv_doc_bulk : forall b pre dt S de de',
    Inv dt S de -> bulk_of b = b -> action_ok b = true -> sc1 rep S b = true ->
    (rep = true -> forall t rs cols, b = BulkAddRecord t rs cols -> uniform_starts S t rs de' = true) ->
    eng_bulk td b de = Ok de' ->
    exists dt', tds_bulk td b dt = Ok dt' /\ Inv dt' (final_sum b de' (sum_apply b pre de S)) de'.
  Proof.
    intros b pre dt S de de' HI Hb Hok Hsc Hun H. revert Hun.
    pose proof HI as [Heq Hlag Hgone Hthere Hwf].
    assert (Hnd : NoDup (map fst de)) by (rewrite Heq, map_cells_fst; apply Hwf).
    assert (Ea : forall t, amem str_eqb t de = amem str_eqb t dt) by (intro; rewrite Heq; apply amem_map_cells).
    assert (Er : forall t, rows_of t de = rows_of t dt) by (intro; rewrite Heq; apply rows_of_map_cells).
    assert (Eh : forall t c, has_col t c de = has_col t c dt) by (intros; rewrite Heq; apply has_col_map_cells).
    assert (Hrc : rows_cond b = true).
    { unfold sc1 in Hsc. rewrite Hb in Hsc. destruct b; try reflexivity; cbn in *; apply andb_true_iff in Hsc; apply Hsc. }
    pose proof (eng_tds_bulk td b de de' Hnd Hok Hb Hrc H) as Htds.
    unfold sc1 in Hsc. unfold sum_apply. rewrite Hb in *.
    destruct b; cbn [bulk_of] in Hb; try discriminate; cbn [tds_bulk] in *; intro Hun.
    - (* BulkAddRecord *)
      rewrite Ea in Htds. destruct (amem str_eqb t dt) eqn:Et; [|discriminate]. inversion Htds; subst de'.
      eexists. split; [reflexivity|]. apply andb_true_iff in Hsc. destruct Hsc as [Hfr Hsc].
      unfold final_sum, restart_for. cbn [bulk_of]. destruct rep eqn:Erep.
      + apply (inv_add_rows_rep td); try assumption; try reflexivity.
        * intros r Hr Hrow. cbn [eng_bulk] in H. rewrite Ea, Et in H. cbn [negb] in H.
          destruct (existsb (fun r0 => zmem r0 (rows_of t de)) rs) eqn:Ex; [discriminate|].
          assert (Hz : zmem r (rows_of t de) = true).
          { rewrite Er. apply zmem_In. apply (InRow_rows_of _ _ _ (proj1 Hwf)). exact Hrow. }
          assert (Hex : existsb (fun r0 => zmem r0 (rows_of t de)) rs = true)
            by (apply existsb_exists; exists r; split; assumption).
          congruence.
        * apply (Hun eq_refl t rs cols eq_refl).
      + cbn [orb] in Hsc. apply inv_add_rows; assumption.
    - (* BulkRemoveRecord *)
      rewrite final_sum_other by exact I.
      rewrite Ea in Htds. destruct (amem str_eqb t dt) eqn:Et; [|discriminate]. inversion Htds; subst de'.
      eexists. split; [reflexivity|]. rewrite Er.
      replace (match filter (fun r => zmem r (rows_of t dt)) rs with [] => S | _ :: _ => _ end)
        with (removed_sum t (filter (fun r => zmem r (rows_of t dt)) rs) S)
        by (unfold removed_sum; destruct (filter (fun r => zmem r (rows_of t dt)) rs); reflexivity).
      apply inv_remove_rows. exact HI.
    - (* BulkUpdateRecord *)
      rewrite final_sum_other by exact I.
      rewrite Ea, Er in Htds. destruct (amem str_eqb t dt) eqn:Et; [|discriminate].
      destruct (forallb (fun r => zmem r (rows_of t dt)) rs) eqn:Ef; [|discriminate]. inversion Htds; subst de'.
      eexists. split; [reflexivity|]. apply inv_update; assumption.
    - (* ReplaceTableData *)
      rewrite final_sum_other by exact I.
      rewrite Ea in Htds. destruct (amem str_eqb t dt) eqn:Et; [|discriminate]. inversion Htds; subst de'.
      eexists. split; [reflexivity|]. rewrite Er. apply andb_true_iff in Hsc. destruct Hsc as [_ Hsc].
      apply inv_replace; assumption.
    - (* AddColumn *)
      rewrite final_sum_other by exact I.
      destruct ty as [ty|]; [|discriminate].
      rewrite Ea in Htds. destruct (amem str_eqb t dt) eqn:Et; [|discriminate]. inversion Htds; subst de'.
      eexists. split; [reflexivity|]. apply andb_true_iff in Hsc. destruct Hsc as [Hd Hk]. apply negb_true_iff in Hd.
      apply (inv_addcol td); assumption.
    - (* RemoveColumn *)
      rewrite final_sum_other by exact I.
      rewrite Ea in Htds. destruct (amem str_eqb t dt) eqn:Et; [|discriminate]. inversion Htds; subst de'.
      eexists. split; [reflexivity|]. apply (inv_delcol dt S de t c pre). exact HI.
    - (* RenameColumn *)
      rewrite final_sum_other by exact I.
      cbn [eng_bulk] in H. destruct (amem str_eqb t de); cbn in H; [|discriminate].
      destruct (has_col t c de) eqn:Hc; cbn in H; [|discriminate].
      destruct (has_col t c' de) eqn:Hc'; [discriminate|].
      assert (Hne : c <> c') by (intro E; subst; congruence).
      assert (Es : str_eqb c c' = false) by (apply str_eqb_neq; exact Hne).
      rewrite Es in Htds. inversion Htds; subst de'. rewrite Eh in Hc. rewrite Hc, Es.
      eexists. split; [reflexivity|]. apply andb_true_iff in Hsc. destruct Hsc as [Hd Hk]. apply negb_true_iff in Hd.
      apply (inv_rencol dt S de t c c'); try assumption. apply (has_col_alive dt t c Hwf Hc).
    - (* ModifyColumn *)
      rewrite final_sum_other by exact I.
      rewrite Eh in Htds. destruct (has_col t c dt) eqn:Hc; [|discriminate]. inversion Htds; subst de'.
      eexists. split; [reflexivity|]. apply inv_modcol. exact HI.
    - (* AddTable *)
      rewrite final_sum_other by exact I.
      cbn [eng_bulk] in H. destruct (amem str_eqb t de) eqn:Et; [discriminate|]. inversion H; subst de'.
      rewrite Ea in Et. eexists. split; [reflexivity|].
      rewrite (adel_notin str_eqb str_eqb_eq) by (apply (amem_false str_eqb str_eqb_eq); exact Et).
      apply andb_true_iff in Hsc. destruct Hsc as [Hsc Hcols]. apply andb_true_iff in Hsc. destruct Hsc as [Hd _].
      apply negb_true_iff in Hd. apply inv_addtable; assumption.
    - (* RemoveTable *)
      rewrite final_sum_other by exact I.
      rewrite Ea in Htds. destruct (amem str_eqb t dt) eqn:Et; [|discriminate]. inversion Htds; subst de'.
      eexists. split; [reflexivity|]. apply inv_deltable. exact HI.
    - (* RenameTable *)
      rewrite final_sum_other by exact I.
      cbn [eng_bulk] in H. destruct (amem str_eqb t de) eqn:Et; cbn in H; [|discriminate].
      destruct (amem str_eqb t' de) eqn:Et'; [discriminate|]. inversion H; subst de'.
      rewrite Ea in Et, Et'. rewrite Et.
      assert (Hne : t <> t') by (intro E; subst; congruence).
      assert (Es : str_eqb t t' = false) by (apply str_eqb_neq; exact Hne). rewrite Es.
      eexists. split; [reflexivity|]. unfold rename_key.
      rewrite (adel_notin str_eqb str_eqb_eq) by (apply (amem_false str_eqb str_eqb_eq); exact Et').
      apply andb_true_iff in Hsc. destruct Hsc as [Hd Hk]. apply negb_true_iff in Hd.
      apply (inv_rentable dt S de t t'); try assumption. apply (amem_alive dt t Hwf Et).
  Qed.

  Lemma inv_doc : forall a pre dt S de de',
    Inv dt S de -> sc1 rep S a = true ->
    (rep = true -> forall t rs cols, bulk_of a = BulkAddRecord t rs cols -> uniform_starts S t rs de' = true) ->
    eng_apply td a de = Ok de' ->
    exists dt', tds_apply td a dt = Ok dt' /\ Inv dt' (final_sum a de' (sum_apply a pre de S)) de'.
  Proof.
    intros a pre dt S de de' HI Hsc Hun H. unfold eng_apply in H. unfold tds_apply.
    destruct (action_ok a) eqn:Hok; [|discriminate]. rewrite sum_apply_bulk.
    replace (final_sum a de') with (final_sum (bulk_of a) de')
      by (unfold final_sum, restart_for; rewrite bulk_of_idem; reflexivity).
    apply inv_doc_bulk; try assumption.
    - apply bulk_of_idem.
    - rewrite action_ok_bulk. exact Hok.
    - rewrite <- sc1_bulk. exact Hsc.
  Qed.
End DocStep.

(* ------------------------------------------------------------------------------------------------ *)
(* the state-level invariant and the main theorem *)

Lemma sdelta_pop_column : forall S t c t2 c2 r2,
  sdelta (snd (pop_column rep S t c)) t2 c2 r2 = if str_eqb t t2 && str_eqb c c2 then None else sdelta S t2 c2 r2.
Proof.
  intros. unfold pop_column.
  destruct (aget str_eqb t (sm_tables S)) as [tdl|] eqn:Et.
  - destruct (aget str_eqb c (td_deltas tdl)) as [dl|] eqn:Ec; cbn [snd].
    + rewrite sdelta_set_table. cbn [td_deltas]. destruct (str_eqb t t2) eqn:E1; cbn [andb]; [|reflexivity].
      apply str_eqb_eq in E1. subst t2. unfold dl_get. destruct (str_eqb c c2) eqn:E2.
      * apply str_eqb_eq in E2. subst c2. rewrite (aget_adel_same str_eqb). reflexivity.
      * rewrite (aget_adel_other str_eqb str_eqb_eq); [|apply str_eqb_neq in E2; congruence].
        rewrite sdelta_dl, Et. reflexivity.
    + destruct (str_eqb t t2 && str_eqb c c2) eqn:E; [|reflexivity].
      apply andb_true_iff in E. destruct E as [E1 E2]. apply str_eqb_eq in E1. apply str_eqb_eq in E2. subst.
      rewrite sdelta_dl, Et. unfold dl_get. rewrite Ec. reflexivity.
  - cbn [snd]. destruct (str_eqb t t2 && str_eqb c c2) eqn:E; [|reflexivity].
    apply andb_true_iff in E. destruct E as [E1 _]. apply str_eqb_eq in E1. subst. rewrite sdelta_dl, Et. reflexivity.
Qed.

Lemma sdelta_sorted_keys : forall S t c r ba, sdelta S t c r = Some ba -> In (t, c) (sorted_keys S).
Proof.
  intros S t c r ba H. rewrite sdelta_dl in H. destruct (aget str_eqb t (sm_tables S)) as [tdl|] eqn:Et; [|discriminate].
  unfold dl_get in H. destruct (aget str_eqb c (td_deltas tdl)) as [dl|] eqn:Ec; [|discriminate].
  unfold sorted_keys. apply in_flat_map. exists t. split.
  - apply sort_by_In. apply in_map_iff. exists (t, tdl). split; [reflexivity|]. apply sget_In. exact Et.
  - apply in_map_iff. exists c. split; [reflexivity|]. apply sort_by_In. unfold for_table. rewrite Et.
    apply in_map_iff. exists (c, dl). split; [reflexivity|]. apply sget_In. exact Ec.
Qed.

Lemma inv_drop_sum : forall dt S de, Inv dt S de -> (forall t c r, sdelta S t c r = None) -> Inv dt sum_empty de.
Proof.
  intros dt S de [Heq Hlag Hgone Hthere Hwf] Hnone. constructor.
  - rewrite Heq. apply map_cells_ext_in. intros t c r v _. unfold ov. rewrite Hnone. reflexivity.
  - intros t c r ba v H. discriminate.
  - intros t r H. discriminate.
  - intros t c r ba _ _ H. discriminate.
  - exact Hwf.
Qed.

(* ------------------------------------------------------------------------------------------------ *)
(* undo exactness for the doc actions that occur inside a rolled-back segment: a record addition followed by the
   removal that docactions.BulkAddRecord registers as its undo restores the document exactly *)

Lemma filter_all : forall {A} (p : A -> bool) l, (forall x, In x l -> p x = true) -> filter p l = l.
Proof.
  intros A p l H. induction l as [|x l IH]; [reflexivity|]. cbn. rewrite (H x (or_introl eq_refl)). f_equal.
  apply IH. intros y Hy. apply H. right. exact Hy.
Qed.

Lemma filter_none : forall {A} (p : A -> bool) l, (forall x, In x l -> p x = false) -> filter p l = [].
Proof.
  intros A p l H. induction l as [|x l IH]; [reflexivity|]. cbn. rewrite (H x (or_introl eq_refl)).
  apply IH. intros y Hy. apply H. right. exact Hy.
Qed.

Lemma upd_table_id : forall t F d, (forall tb, In (t, tb) d -> F tb = tb) -> upd_table t F d = d.
Proof.
  intros t F d H. unfold upd_table. rewrite <- (map_id d) at 2. apply map_ext_in. intros [t2 tb] Hin. cbn [fst snd].
  destruct (str_eqb t2 t) eqn:E; [|reflexivity]. apply str_eqb_eq in E. subst. rewrite (H _ Hin). reflexivity.
Qed.

Lemma remove_add_id : forall td rs cols tb,
  wf_table tb -> (forall r, In r rs -> ~ In r (t_rows tb)) -> tb_remove_rows rs (tds_add_rows td rs cols tb) = tb.
Proof.
  intros td rs cols tb Hwf Hfresh. destruct tb as [rows colsl]. unfold tb_remove_rows, tds_add_rows. cbn [t_rows t_cols] in *.
  f_equal.
  - rewrite filter_app. rewrite filter_all, filter_none, app_nil_r; [reflexivity| |].
    + intros r Hr. apply negb_false_iff. apply zmem_In. exact Hr.
    + intros r Hr. apply negb_true_iff. apply zmem_false. intro H. exact (Hfresh r H Hr).
  - rewrite map_map. rewrite <- (map_id colsl) at 2. apply map_ext_in. intros [c co] Hc. cbn [fst snd c_type c_cells].
    f_equal. destruct co as [ty cells]. cbn [c_type c_cells]. f_equal. rewrite filter_app.
    rewrite filter_all, filter_none, app_nil_r; [reflexivity| |].
    + intros [r v] Hr. cbn [fst]. apply negb_false_iff. apply zmem_In. destruct (aget str_eqb c cols).
      * eapply in_combine_fst. exact Hr.
      * apply in_map_iff in Hr. destruct Hr as [r' [E Hr]]. inversion E; subst. exact Hr.
    + intros [r v] Hr. cbn [fst]. apply negb_true_iff. apply zmem_false. intro H. apply (Hfresh r H).
      destruct (Hwf _ _ Hc) as [_ Hrows]. cbn in Hrows. eapply Hrows. exact Hr.
Qed.

Lemma action_eqb_bulk_eq : forall a b, action_eqb_bulk a b = true -> a = b /\ exists t rs, b = BulkRemoveRecord t rs.
Proof.
  intros a b H. destruct a; destruct b; cbn in H; try discriminate.
  apply andb_true_iff in H. destruct H as [H H3]. apply andb_true_iff in H. destruct H as [H1 H2].
  apply str_eqb_eq in H1. subst. apply Nat.eqb_eq in H2. split; [|eexists; eexists; reflexivity]. f_equal.
  revert rs0 H2 H3. induction rs as [|x rs IH]; intros [|y rs0] H2 H3; try discriminate; [reflexivity|].
  cbn in *. apply andb_true_iff in H3. destruct H3 as [H3 H4]. apply Z.eqb_eq in H3. subst. f_equal. apply IH; [lia|exact H4].
Qed.

Lemma wf_add_rows : forall td t rs cols d, wf_doc d -> wf_doc (upd_table t (tds_add_rows td rs cols) d).
Proof.
  intros td t rs cols d Hwf. apply wf_upd_table; [exact Hwf|]. intros tb Hin Hwt. apply (wf_table_names tb).
  - exact Hwt.
  - intros c Hc'. rewrite tds_add_rows_colnames in Hc'. exact Hc'.
  - intros c r v Hcell. cbn. apply in_or_app. apply tds_add_rows_cell in Hcell. destruct Hcell as [Ho|Hn].
    + left. eapply TCell_row; eassumption.
    + right. exact Hn.
Qed.

Lemma wf_remove_rows : forall t rs d, wf_doc d -> wf_doc (upd_table t (tb_remove_rows rs) d).
Proof.
  intros t rs d Hwf. apply wf_upd_table; [exact Hwf|]. intros tb Hin Hwt. apply (wf_table_names tb).
  - exact Hwt.
  - intros c Hc. rewrite tb_remove_rows_colnames in Hc. exact Hc.
  - intros c r v Hcell. apply tb_remove_rows_cell in Hcell. destruct Hcell as [Hcell Hn].
    apply tb_remove_rows_rows. split; [eapply TCell_row; eassumption|exact Hn].
Qed.

Section UndoExact.
  Variable td : str -> V.

  Theorem add_remove_exact : forall t rs cols d d1,
    wf_doc d -> rows_fresh rs = true -> colvals_ok rs cols = true ->
    eng_bulk td (BulkAddRecord t rs cols) d = Ok d1 -> eng_bulk td (BulkRemoveRecord t rs) d1 = Ok d.
  Proof.
    intros t rs cols d d1 Hwf Hfr Hok H. cbn [eng_bulk] in *.
    destruct (amem str_eqb t d) eqn:Et; cbn [negb] in H; [|discriminate].
    destruct (existsb (fun r => zmem r (rows_of t d)) rs) eqn:Ex; [discriminate|].
    destruct (forallb (fun p => has_col t (fst p) d) cols); cbn [negb] in H; [|discriminate].
    destruct (existsb (fun r => r <? 0) rs); [discriminate|]. inversion H; subst d1. clear H.
    assert (Ea : amem str_eqb t (upd_table t (eng_add_rows td rs cols) d) = true).
    { apply (amem_In str_eqb str_eqb_eq). rewrite upd_table_fst. apply (amem_In str_eqb str_eqb_eq). exact Et. }
    rewrite Ea. f_equal. rewrite upd_table_compose. apply upd_table_id. intros tb Hin.
    rewrite eng_add_rows_tds by assumption. apply remove_add_id.
    - destruct Hwf as [_ Hwf]. apply (Hwf _ _ Hin).
    - intros r Hr Hrow. assert (Hz : zmem r (rows_of t d) = true).
      { apply zmem_In. apply (InRow_rows_of _ _ _ (proj1 Hwf)). exists tb. split; assumption. }
      assert (Hex : existsb (fun r0 => zmem r0 (rows_of t d)) rs = true) by (apply existsb_exists; exists r; split; assumption).
      congruence.
  Qed.
End UndoExact.

Section Main.
  Variable td : str -> V.

  Definition SInv (d0 : doc) (s : st) : Prop :=
    exists dt, tds_apply_all td (s_stored s) d0 = Ok dt /\ Inv dt (s_sum s) (s_doc s).

  Lemma sum_flush_col : forall t c s, s_sum (flush_col rep t c s) = snd (pop_column rep (s_sum s) t c).
  Proof. intros. unfold flush_col, push_flush. destruct (fst (pop_column rep (s_sum s) t c)); reflexivity. Qed.

  Lemma doc_flush_col : forall t c s, s_doc (flush_col rep t c s) = s_doc s.
  Proof. intros. unfold flush_col, push_flush. destruct (fst (pop_column rep (s_sum s) t c)); reflexivity. Qed.

  Lemma sinv_flush_col : forall d0 t c s, SInv d0 s -> SInv d0 (flush_col rep t c s).
  Proof.
    intros d0 t c s [dt [Hst HI]]. unfold flush_col.
    destruct (pop_column rep (s_sum s) t c) as [oa S'] eqn:Hpop. cbn [fst snd].
    pose proof (inv_pop_column td dt (s_sum s) (s_doc s) t c oa S' HI Hpop) as H.
    destruct oa as [act|]; cbn [push_flush].
    - destruct H as [dt' [Ha HI']]. exists dt'. cbn [s_stored s_sum s_doc]. split; [|exact HI'].
      rewrite tds_apply_all_app. rewrite Hst. cbn. rewrite Ha. reflexivity.
    - exists dt. cbn [s_stored s_sum s_doc]. split; assumption.
  Qed.

  Lemma sinv_flush_fold : forall d0 keys s,
    SInv d0 s -> SInv d0 (fold_left (fun s1 k => flush_col rep (fst k) (snd k) s1) keys s).
  Proof.
    intros d0 keys. induction keys as [|k keys IH]; intros s H; cbn [fold_left]; [exact H|].
    apply IH. apply sinv_flush_col. exact H.
  Qed.

  Lemma fold_flush_mono : forall keys s t c r ba,
    sdelta (s_sum (fold_left (fun s1 k => flush_col rep (fst k) (snd k) s1) keys s)) t c r = Some ba ->
    sdelta (s_sum s) t c r = Some ba.
  Proof.
    induction keys as [|k keys IH]; intros s t c r ba H; cbn [fold_left] in H; [exact H|].
    apply IH in H. rewrite sum_flush_col in H. rewrite sdelta_pop_column in H.
    destruct (str_eqb (fst k) t && str_eqb (snd k) c); [discriminate|exact H].
  Qed.

  Lemma fold_flush_none : forall keys s t c r,
    In (t, c) keys -> sdelta (s_sum (fold_left (fun s1 k => flush_col rep (fst k) (snd k) s1) keys s)) t c r = None.
  Proof.
    induction keys as [|k keys IH]; intros s t c r Hin; [contradiction|]. cbn [fold_left].
    destruct Hin as [E|Hin]; [|apply IH; exact Hin]. subst k. cbn [fst snd].
    destruct (sdelta (s_sum (fold_left _ keys (flush_col rep t c s))) t c r) as [ba|] eqn:E; [|reflexivity].
    apply fold_flush_mono in E. rewrite sum_flush_col in E. rewrite sdelta_pop_column in E.
    rewrite !str_eqb_refl in E. discriminate.
  Qed.

  Lemma sinv_flush_all : forall d0 s, SInv d0 s -> SInv d0 (flush_all rep s).
  Proof.
    intros d0 s H. unfold flush_all.
    set (s' := fold_left (fun s1 k => flush_col rep (fst k) (snd k) s1) (sorted_keys (s_sum s)) s).
    destruct (sinv_flush_fold d0 (sorted_keys (s_sum s)) s H) as [dt [Hst HI]]. fold s' in Hst, HI.
    exists dt. cbn [s_stored s_sum s_doc]. split; [exact Hst|].
    apply (inv_drop_sum dt (s_sum s')); [exact HI|].
    intros t c r. destruct (sdelta (s_sum s') t c r) as [ba|] eqn:E; [|reflexivity].
    pose proof E as E0. apply fold_flush_mono in E0. apply sdelta_sorted_keys in E0.
    unfold s' in E. rewrite (fold_flush_none _ _ _ _ _ E0) in E. discriminate.
  Qed.

  Lemma sinv_step : forall d0 e s s',
    SInv d0 s -> wf_event_b td rep s e = true -> step td rep e s = Ok s' -> SInv d0 s'.
  Proof.
    intros d0 e s s' HS Hwf Hstep. destruct e; cbn [wf_event_b] in Hwf; try discriminate; cbn [step] in Hstep.
    - (* EDoc *)
      destruct (eng_apply td a (s_doc s)) as [d'|] eqn:Ea; [|discriminate]. inversion Hstep; subst s'. clear Hstep.
      destruct HS as [dt [Hst HI]]. apply andb_true_iff in Hwf. destruct Hwf as [Hsc Hscr].
      assert (Hun : rep = true -> forall t rs cols, bulk_of a = BulkAddRecord t rs cols ->
                                  uniform_starts (s_sum s) t rs d' = true).
      { intros Hr t rs cols Hb. rewrite Hr in Hscr. cbn [negb orb] in Hscr. unfold sc1r in Hscr. rewrite Hb, Ea in Hscr.
        exact Hscr. }
      destruct (inv_doc td a pre dt (s_sum s) (s_doc s) d' HI Hsc Hun Ea) as [dt' [Ha HI']].
      exists dt'. cbn [s_stored s_sum s_doc push]. split; [|exact HI'].
      rewrite tds_apply_all_app. rewrite Hst. cbn. rewrite Ha. reflexivity.
    - (* ECalc *)
      inversion Hstep; subst s'. destruct HS as [dt [Hst HI]]. exists dt. cbn [s_stored s_sum s_doc].
      split; [exact Hst|]. apply inv_calc; assumption.
    - inversion Hstep; subst s'. apply sinv_flush_col. exact HS.
    - inversion Hstep; subst s'. apply sinv_flush_all. exact HS.
    - destruct (prune_actions (s_calc s) t c); [|discriminate]. inversion Hstep; subst s'. exact HS.
  Qed.

  (* --- rolled-back segments *)
  Definition pend_rows (pend : list action) : list (str * Z) :=
    flat_map (fun u => match u with BulkRemoveRecord t rs => map (pair t) rs | _ => [] end) pend.

  Fixpoint undo_all (pend : list action) (d : doc) : res doc :=
    match pend with
    | [] => Ok d
    | u :: p => match eng_bulk td u d with Ok d' => undo_all p d' | Err c => Err c end
    end.

  Definition SegInv (d0 : doc) (n : nat) (pend : list action) (popping : bool) (s : st) : Prop :=
    exists s0, SInv d0 s0 /\
      n = length (s_stored s0) /\ firstn n (s_stored s) = s_stored s0 /\ (n <= length (s_stored s))%nat /\
      undo_all pend (s_doc s) = Ok (s_doc s0) /\ wf_doc (s_doc s) /\
      (forall t c r, sdelta (s_sum s) t c r = sdelta (s_sum s0) t c r) /\
      (forall t r, InRow (s_doc s0) t r ->
                   pa_get (s_sum s) t r = pa_get (s_sum s0) t r /\ pb_get (s_sum s) t r = pb_get (s_sum s0) t r) /\
      (forall t r, ~ InRow (s_doc s0) t r ->
                   pa_get (s_sum s) t r = pa_get (s_sum s0) t r \/ pa_get (s_sum s) t r = Some false \/
                   In (t, r) (pend_rows pend)) /\
      (forall t r, In (t, r) (pend_rows pend) -> InRow (s_doc s) t r /\ ~ InRow (s_doc s0) t r) /\
      NoDup (pend_rows pend) /\
      (popping = false -> forall t r, InRow (s_doc s0) t r -> InRow (s_doc s) t r).

  Definition MInv (d0 : doc) (m : wmode) (s : st) : Prop :=
    match m with WNormal => SInv d0 s | WSeg n pend popping => SegInv d0 n pend popping s end.

  Lemma sinv_wf_doc : forall d0 s, SInv d0 s -> wf_doc (s_doc s).
  Proof. intros d0 s [dt [_ HI]]. destruct HI as [Heq _ _ _ Hwf]. rewrite Heq. apply wf_map_cells. exact Hwf. Qed.

  Lemma seg_enter : forall d0 s, SInv d0 s -> SegInv d0 (length (s_stored s)) [] false s.
  Proof.
    intros d0 s HS. exists s. split; [exact HS|]. split; [reflexivity|]. split; [apply firstn_all|]. split; [lia|].
    split; [reflexivity|]. split; [eapply sinv_wf_doc; exact HS|]. split; [reflexivity|]. split; [intros; split; reflexivity|].
    split; [intros; left; reflexivity|]. split; [intros t r []|]. split; [constructor|]. intros _ t r H. exact H.
  Qed.

  Lemma firstn_snoc : forall {A} n (l : list A) x, (n <= length l)%nat -> firstn n (l ++ [x]) = firstn n l.
  Proof. intros A n l x H. rewrite firstn_app. replace (n - length l)%nat with 0%nat by lia. cbn. apply app_nil_r. Qed.

  Lemma NoDup_app' : forall {A} (l1 l2 : list A),
    NoDup l1 -> NoDup l2 -> (forall x, In x l1 -> ~ In x l2) -> NoDup (l1 ++ l2).
  Proof.
    intros A l1 l2 H1 H2 Hd. induction l1 as [|x l1 IH]; [exact H2|]. cbn. inversion H1; subst. constructor.
    - intro H. apply in_app_or in H. destruct H as [H|H]; [contradiction|]. exact (Hd x (or_introl eq_refl) H).
    - apply IH; [assumption|]. intros y Hy. apply Hd. right. exact Hy.
  Qed.

  Lemma NoDup_app_tail : forall {A} (l1 l2 : list A), NoDup (l1 ++ l2) -> NoDup l2.
  Proof. intros A l1 l2 H. induction l1 as [|x l1 IH]; [exact H|]. cbn in H. inversion H; subst. apply IH. assumption. Qed.

  Lemma NoDup_map_pair : forall (t : str) (rs : list Z), NoDup rs -> NoDup (map (pair t) rs).
  Proof.
    intros t rs H. induction H as [|x l Hx Hnd IH]; cbn; constructor; [|exact IH].
    intro Hin. apply in_map_iff in Hin. destruct Hin as [y [E Hy]]. inversion E; subst. contradiction.
  Qed.

  Lemma sums_final_add : forall t rs cols d' S,
    forallb (row_clear S t) rs = true ->
    let S' := final_sum (BulkAddRecord t rs cols) d' (add_records t rs S) in
    (forall t2 c r, sdelta S' t2 c r = sdelta S t2 c r) /\
    (forall t2 r, pa_get S' t2 r = if str_eqb t t2 && zmem r rs then Some true else pa_get S t2 r) /\
    (forall t2 r, pb_get S' t2 r =
       if str_eqb t t2 then match pb_get S t r with Some v => Some v | None => if zmem r rs then Some false else None end
       else pb_get S t2 r).
  Proof.
    intros t rs cols d' S Hclear. unfold final_sum, restart_for. cbn [bulk_of]. destruct rep.
    - cbv zeta. split; [|split].
      + intros t2 c r. rewrite sdelta_restart_rows. rewrite !sdelta_add_records.
        destruct (str_eqb t t2 && negb (is_defunct c) && zmem r rs) eqn:E; [|reflexivity].
        apply andb_true_iff in E. destruct E as [E E3]. apply andb_true_iff in E. destruct E as [E1 _].
        apply str_eqb_eq in E1. subst t2. apply zmem_In in E3. rewrite forallb_forall in Hclear.
        rewrite (row_clear_sdelta _ _ _ c (Hclear _ E3)). reflexivity.
      + intros. rewrite pa_get_restart_rows. apply pa_get_add_records.
      + intros. rewrite pb_get_restart_rows. apply pb_get_add_records.
    - cbv zeta. split; [|split]; intros; [apply sdelta_add_records|apply pa_get_add_records|apply pb_get_add_records].
  Qed.

  Lemma seg_add : forall d0 n pend s a lvl u' s',
    SegInv d0 n pend false s -> seg_add_ok (s_sum s) a = Some u' -> step td rep (EDoc a lvl []) s = Ok s' ->
    SegInv d0 n (u' :: pend) false s'.
  Proof.
    intros d0 n pend s a lvl u' s' HS Hok Hstep.
    destruct HS as [s0 [HS0 [Hn [Hfirst [Hle [Hundo [Hwf [C4 [C5 [C6 [C7 [C8 C9]]]]]]]]]]]].
    unfold seg_add_ok in Hok. destruct (bulk_of a) as [| t rs cols | | | | | | | | | | | |] eqn:Hb; try discriminate.
    destruct (rows_fresh rs && forallb (row_clear (s_sum s) t) rs) eqn:Hc; [|discriminate]. inversion Hok; subst u'. clear Hok.
    apply andb_true_iff in Hc. destruct Hc as [Hfr Hclear].
    cbn [step] in Hstep. destruct (eng_apply td a (s_doc s)) as [D1|] eqn:Ea; [|discriminate]. inversion Hstep; subst s'. clear Hstep.
    cbn [s_doc s_sum s_stored push].
    change (if rep then restart_for a D1 (sum_apply a [] (s_doc s) (s_sum s)) else sum_apply a [] (s_doc s) (s_sum s))
      with (final_sum a D1 (sum_apply a [] (s_doc s) (s_sum s))).
    unfold eng_apply in Ea. destruct (action_ok a) eqn:Haok; [|discriminate]. rewrite Hb in Ea.
    assert (Hcok : colvals_ok rs cols = true) by (unfold action_ok in Haok; rewrite Hb in Haok; exact Haok).
    assert (Htds : tds_bulk td (BulkAddRecord t rs cols) (s_doc s) = Ok D1).
    { apply eng_tds_bulk; try assumption; try reflexivity. apply Hwf. }
    cbn [tds_bulk] in Htds. destruct (amem str_eqb t (s_doc s)) eqn:Et; [|discriminate].
    assert (HD1 : upd_table t (tds_add_rows td rs cols) (s_doc s) = D1) by (inversion Htds; reflexivity). clear Htds.
    destruct (tab_of_amem _ _ Et) as [tb0 Htb0].
    assert (Hnotin : forall r, In r rs -> ~ InRow (s_doc s) t r).
    { intros r Hr Hrow. cbn [eng_bulk] in Ea. rewrite Et in Ea. cbn [negb] in Ea.
      destruct (existsb (fun r0 => zmem r0 (rows_of t (s_doc s))) rs) eqn:Ex; [discriminate|].
      assert (Hz : zmem r (rows_of t (s_doc s)) = true) by (apply zmem_In; apply (InRow_rows_of _ _ _ (proj1 Hwf)); exact Hrow).
      assert (Hex : existsb (fun r0 => zmem r0 (rows_of t (s_doc s))) rs = true) by (apply existsb_exists; exists r; split; assumption).
      congruence. }
    assert (Hgrow : forall t2 r, InRow (s_doc s) t2 r -> InRow D1 t2 r).
    { intros t2 r [tb [Hin Hr]]. rewrite <- HD1. apply InRow_upd_table. destruct (str_eqb t2 t) eqn:E.
      - apply str_eqb_eq in E. subst. right. split; [reflexivity|]. exists tb. split; [exact Hin|]. cbn. apply in_or_app. left. exact Hr.
      - apply str_eqb_neq in E. left. split; [exact E|]. exists tb. split; assumption. }
    replace (final_sum a D1 (sum_apply a [] (s_doc s) (s_sum s)))
      with (final_sum (BulkAddRecord t rs cols) D1 (add_records t rs (s_sum s)))
      by (unfold final_sum, restart_for, sum_apply; rewrite Hb; reflexivity).
    destruct (sums_final_add t rs cols D1 (s_sum s) Hclear) as [A4 [A5 A6]].
    exists s0. cbn [s_doc s_sum s_stored]. split; [exact HS0|]. split; [exact Hn|].
    split; [rewrite firstn_snoc by exact Hle; exact Hfirst|]. split; [rewrite app_length; cbn; lia|].
    split.
    { cbn [undo_all]. rewrite (add_remove_exact td t rs cols (s_doc s) D1 Hwf Hfr Hcok Ea). exact Hundo. }
    split; [rewrite <- HD1; apply wf_add_rows; exact Hwf|].
    split; [intros; rewrite A4; apply C4|].
    split.
    { intros t2 r Hr0. rewrite A5, A6. destruct (C5 _ _ Hr0) as [H1 H2].
      destruct (str_eqb t t2) eqn:E; cbn [andb]; [|split; assumption].
      apply str_eqb_eq in E. subst t2. assert (Hz : zmem r rs = false).
      { apply zmem_false. intro Hr. apply (Hnotin r Hr). apply C9; [reflexivity|exact Hr0]. }
      rewrite Hz. split; [exact H1|]. rewrite H2. destruct (pb_get (s_sum s0) t r); reflexivity. }
    split.
    { intros t2 r Hr0. rewrite A5. destruct (str_eqb t t2 && zmem r rs) eqn:E.
      - right. right. apply andb_true_iff in E. destruct E as [E1 E2]. apply str_eqb_eq in E1. subst t2. apply zmem_In in E2.
        cbn [pend_rows flat_map]. apply in_or_app. left. apply in_map. exact E2.
      - destruct (C6 _ _ Hr0) as [H|[H|H]]; [left; exact H|right; left; exact H|].
        right. right. cbn [pend_rows flat_map]. apply in_or_app. right. exact H. }
    split.
    { intros t2 r Hin. cbn [pend_rows flat_map] in Hin. apply in_app_or in Hin. destruct Hin as [Hin|Hin].
      - apply in_map_iff in Hin. destruct Hin as [r' [E Hr]]. inversion E; subst t2 r'. split.
        + rewrite <- HD1. apply InRow_upd_table. right. split; [reflexivity|]. exists tb0. split; [exact Htb0|].
          cbn. apply in_or_app. right. exact Hr.
        + intro H0. apply (Hnotin r Hr). apply C9; [reflexivity|exact H0].
      - destruct (C7 _ _ Hin) as [H1 H2]. split; [apply Hgrow; exact H1|exact H2]. }
    split.
    { cbn [pend_rows flat_map]. apply NoDup_app'.
      - apply NoDup_map_pair. unfold rows_fresh in Hfr. apply andb_true_iff in Hfr. apply nodupb_z. apply Hfr.
      - exact C8.
      - intros [t2 r] Hin Hin2. apply in_map_iff in Hin. destruct Hin as [r' [E Hr]]. inversion E; subst t2 r'.
        destruct (C7 _ _ Hin2) as [H1 _]. exact (Hnotin r Hr H1). }
    intros _ t2 r H0. apply Hgrow. apply C9; [reflexivity|exact H0].
  Qed.

  Lemma seg_pop : forall d0 n u pend popping s a lvl pre s',
    SegInv d0 n (u :: pend) popping s -> action_eqb_bulk (bulk_of a) u = true ->
    step td rep (EDoc a lvl pre) s = Ok s' -> SegInv d0 n pend true s'.
  Proof.
    intros d0 n u pend popping s a lvl pre s' HS Heq Hstep.
    destruct HS as [s0 [HS0 [Hn [Hfirst [Hle [Hundo [Hwf [C4 [C5 [C6 [C7 [C8 C9]]]]]]]]]]]].
    apply action_eqb_bulk_eq in Heq. destruct Heq as [Hb [t [rs Hu]]]. rewrite Hu in *. clear Hu u.
    cbn [step] in Hstep. destruct (eng_apply td a (s_doc s)) as [D1|] eqn:Ea; [|discriminate]. inversion Hstep; subst s'. clear Hstep.
    cbn [s_doc s_sum s_stored push].
    change (if rep then restart_for a D1 (sum_apply a pre (s_doc s) (s_sum s)) else sum_apply a pre (s_doc s) (s_sum s))
      with (final_sum a D1 (sum_apply a pre (s_doc s) (s_sum s))).
    unfold eng_apply in Ea. destruct (action_ok a) eqn:Haok; [|discriminate]. rewrite Hb in Ea.
    cbn [undo_all] in Hundo. rewrite Ea in Hundo.
    cbn [eng_bulk] in Ea. destruct (amem str_eqb t (s_doc s)) eqn:Et; [|discriminate].
    assert (HD1 : upd_table t (tb_remove_rows rs) (s_doc s) = D1) by (inversion Ea; reflexivity). clear Ea.
    assert (Hall : forall r, In r rs -> InRow (s_doc s) t r).
    { intros r Hr. apply C7. cbn [pend_rows flat_map]. apply in_or_app. left. apply in_map. exact Hr. }
    assert (Hfil : filter (fun r => zmem r (rows_of t (s_doc s))) rs = rs).
    { apply filter_all. intros r Hr. apply zmem_In. apply (InRow_rows_of _ _ _ (proj1 Hwf)). apply Hall. exact Hr. }
    replace (final_sum a D1 (sum_apply a pre (s_doc s) (s_sum s))) with (removed_sum t rs (s_sum s)).
    2:{ rewrite final_sum_other by (rewrite Hb; exact I). unfold sum_apply. rewrite Hb. rewrite Hfil. unfold removed_sum.
        destruct rs; reflexivity. }
    exists s0. cbn [s_doc s_sum s_stored]. split; [exact HS0|]. split; [exact Hn|].
    split; [rewrite firstn_snoc by exact Hle; exact Hfirst|]. split; [rewrite app_length; cbn; lia|].
    split; [exact Hundo|]. split; [rewrite <- HD1; apply wf_remove_rows; exact Hwf|].
    split; [intros; rewrite sdelta_removed_sum; apply C4|].
    assert (Hpend0 : forall r, In r rs -> ~ InRow (s_doc s0) t r).
    { intros r Hr. apply C7. cbn [pend_rows flat_map]. apply in_or_app. left. apply in_map. exact Hr. }
    split.
    { intros t2 r Hr0. rewrite pa_get_removed_sum, pb_get_removed_sum. destruct (C5 _ _ Hr0) as [H1 H2].
      destruct (str_eqb t t2) eqn:E; cbn [andb]; [|split; assumption].
      apply str_eqb_eq in E. subst t2. assert (Hz : zmem r rs = false).
      { apply zmem_false. intro Hr. exact (Hpend0 r Hr Hr0). }
      rewrite Hz. split; [exact H1|]. rewrite H2. destruct (pb_get (s_sum s0) t r); reflexivity. }
    split.
    { intros t2 r Hr0. rewrite pa_get_removed_sum. destruct (str_eqb t t2 && zmem r rs) eqn:E; [right; left; reflexivity|].
      destruct (C6 _ _ Hr0) as [H|[H|H]]; [left; exact H|right; left; exact H|].
      cbn [pend_rows flat_map] in H. apply in_app_or in H. destruct H as [H|H]; [|right; right; exact H].
      exfalso. apply in_map_iff in H. destruct H as [r' [E2 Hr]]. inversion E2; subst t2 r'.
      rewrite str_eqb_refl in E. cbn in E. apply zmem_false in E. contradiction. }
    cbn [pend_rows flat_map] in C8.
    split.
    { intros t2 r Hin. destruct (C7 t2 r) as [H1 H2]; [cbn [pend_rows flat_map]; apply in_or_app; right; exact Hin|].
      split; [|exact H2]. rewrite <- HD1. apply InRow_upd_table. destruct H1 as [tb [Hintb Hr]].
      destruct (str_eqb t2 t) eqn:E.
      - apply str_eqb_eq in E. subst t2. right. split; [reflexivity|]. exists tb. split; [exact Hintb|].
        apply tb_remove_rows_rows. split; [exact Hr|]. intro Hrs.
        (* (t, r) would occur twice among the pending rows *)
        clear - C8 Hin Hrs. induction rs as [|x rs IH]; [contradiction|]. cbn in C8. inversion C8; subst.
        destruct Hrs as [E|Hrs].
        + subst x. apply H1. apply in_or_app. right. exact Hin.
        + apply IH; assumption.
      - apply str_eqb_neq in E. left. split; [exact E|]. exists tb. split; assumption. }
    split; [eapply NoDup_app_tail; exact C8|]. intro H. discriminate.
  Qed.

  (* the summary may have gained presence flags for rows that are not in the document: the invariant does not see them *)
  Lemma inv_sum_equiv : forall dt S0 S de,
    Inv dt S0 de ->
    (forall t c r, sdelta S t c r = sdelta S0 t c r) ->
    (forall t r, InRow de t r -> pa_get S t r = pa_get S0 t r /\ pb_get S t r = pb_get S0 t r) ->
    (forall t r, ~ InRow de t r -> pa_get S t r = pa_get S0 t r \/ pa_get S t r = Some false) ->
    Inv dt S de.
  Proof.
    intros dt S0 S de [Heq Hlag Hgone Hthere Hwf] C4 C5 C6.
    assert (Hrow : forall t r, InRow dt t r <-> InRow de t r) by (intros; rewrite Heq; symmetry; apply InRow_map_cells).
    constructor.
    - rewrite Heq. apply map_cells_ext_in. intros t c r v _. unfold ov. rewrite C4. reflexivity.
    - intros t c r ba v Hs Hc. rewrite C4 in Hs. destruct (Hlag _ _ _ _ _ Hs Hc) as [H|[H1 H2]]; [left; exact H|].
      right. split; [exact H1|]. rewrite <- H2. apply readded_same; apply C5; apply Hrow; eapply InCell_InRow; eassumption.
    - intros t r Hp Hr. destruct (C5 t r (proj1 (Hrow t r) Hr)) as [H _]. rewrite H in Hp. eapply Hgone; eassumption.
    - intros t c r ba Hd Hdc Hs Hr. rewrite C4 in Hs. pose proof (Hthere t c r ba Hd Hdc Hs Hr) as H0.
      assert (Hnr : ~ InRow de t r) by (intro H; apply Hr; apply Hrow; exact H).
      destruct (C6 t r Hnr) as [H|H]; [rewrite H; exact H0|exact H].
    - exact Hwf.
  Qed.

  Lemma seg_rollback : forall d0 n popping s k s',
    SegInv d0 n [] popping s -> Z.to_nat k = n -> step td rep (ERollback k) s = Ok s' -> SInv d0 s'.
  Proof.
    intros d0 n popping s k s' HS Hk Hstep.
    destruct HS as [s0 [HS0 [Hn [Hfirst [Hle [Hundo [Hwf [C4 [C5 [C6 [C7 [C8 C9]]]]]]]]]]]].
    cbn [step] in Hstep. inversion Hstep; subst s'. clear Hstep. cbn [undo_all] in Hundo. inversion Hundo as [HD].
    destruct HS0 as [dt0 [Hst0 HI0]]. exists dt0. cbn [s_stored s_sum s_doc]. rewrite Hk, Hfirst. split; [exact Hst0|].
    rewrite HD. apply (inv_sum_equiv dt0 (s_sum s0)); [exact HI0|exact C4|exact C5|].
    intros t r Hr. destruct (C6 t r Hr) as [H|[H|[]]]; [left; exact H|right; exact H].
  Qed.

  Lemma minv_step : forall d0 m m' e s s',
    MInv d0 m s -> wf_next td rep m s e = Some m' -> step td rep e s = Ok s' -> MInv d0 m' s'.
  Proof.
    intros d0 m m' e s s' HM Hw Hstep. destruct m as [|n pend popping]; cbn [MInv wf_next] in *.
    - destruct e; try (destruct (wf_event_b td rep s _) eqn:Hwe in Hw; [|discriminate]; inversion Hw; subst m';
                       cbn [MInv]; eapply sinv_step; eassumption).
      inversion Hw; subst m'. cbn [step] in Hstep. inversion Hstep; subst s'. cbn [MInv]. apply seg_enter. exact HM.
    - destruct e; try discriminate.
      + (* EDoc *)
        destruct pend as [|u pend'].
        * destruct popping; [discriminate|]. destruct pre; [|discriminate].
          destruct (seg_add_ok (s_sum s) a) as [u'|] eqn:Hadd; [|discriminate]. inversion Hw; subst m'. cbn [MInv].
          eapply seg_add; eassumption.
        * destruct (action_eqb_bulk (bulk_of a) u) eqn:Heq.
          -- inversion Hw; subst m'. cbn [MInv]. eapply seg_pop; eassumption.
          -- destruct popping; [discriminate|]. destruct pre; [|discriminate].
             destruct (seg_add_ok (s_sum s) a) as [u'|] eqn:Hadd; [|discriminate]. inversion Hw; subst m'. cbn [MInv].
             eapply seg_add; eassumption.
      + (* ERollback *)
        destruct pend; [|discriminate]. destruct (Nat.eqb (Z.to_nat n0) n) eqn:En; [|discriminate]. inversion Hw; subst m'.
        cbn [MInv]. apply Nat.eqb_eq in En. eapply seg_rollback; eassumption.
  Qed.

  Lemma minv_run : forall d0 es m s s',
    MInv d0 m s -> wf_run_b td rep m s es = true -> run td rep s es = Ok s' -> SInv d0 s'.
  Proof.
    intros d0 es. induction es as [|e es IH]; intros m s s' HM Hwf Hrun; cbn in *.
    - inversion Hrun; subst. destruct m; [exact HM|discriminate].
    - destruct (wf_next td rep m s e) as [m'|] eqn:Hw; [|discriminate].
      destruct (step td rep e s) as [s1|] eqn:Es; [|discriminate].
      apply (IH m' s1 s'); [|exact Hwf|exact Hrun]. eapply minv_step; eassumption.
  Qed.

  Lemma sinv_run : forall d0 es s s',
    SInv d0 s -> wf_run_b td rep WNormal s es = true -> run td rep s es = Ok s' -> SInv d0 s'.
  Proof. intros d0 es s s' HS. apply (minv_run d0 es WNormal). exact HS. Qed.

  Lemma run_app : forall es1 es2 s,
    run td rep s (es1 ++ es2) = match run td rep s es1 with Ok s1 => run td rep s1 es2 | Err e => Err e end.
  Proof.
    induction es1 as [|e es1 IH]; intros es2 s; cbn; [reflexivity|].
    destruct (step td rep e s); [apply IH|reflexivity].
  Qed.

  Lemma sinv_init : forall d, wf_doc d -> SInv d (init_st d).
  Proof. intros d H. exists d. split; [reflexivity|]. apply inv_init. exact H. Qed.

  (* C02 for one bundle *)
  Theorem stored_is_delta : forall d es d' o,
    wf_doc d -> wf_events_b td rep d es = true -> run_bundle td rep d es = Ok (d', o) ->
    tds_apply_all td (o_stored o) d = Ok d' /\ wf_doc d'.
  Proof.
    intros d es d' o Hwf Hev Hrun. unfold run_bundle in Hrun. unfold wf_events_b in Hev.
    destruct (run td rep (init_st d) (es ++ [EFlushAll])) as [s|] eqn:Er; [|discriminate]. inversion Hrun; subst. clear Hrun.
    pose proof (sinv_run d _ _ _ (sinv_init d Hwf) Hev Er) as [dt [Hst HI]].
    assert (Hsum : s_sum s = sum_empty).
    { rewrite run_app in Er. destruct (run td rep (init_st d) es) as [s1|]; [|discriminate]. cbn in Er. inversion Er. reflexivity. }
    rewrite Hsum in HI. destruct HI as [Heq _ _ _ Hwf'].
    assert (E : s_doc s = dt).
    { rewrite Heq. apply map_cells_id. intros. reflexivity. }
    cbn [o_stored]. rewrite E. split; assumption.
  Qed.

  (* ... and for whole histories *)
  Theorem history_is_delta : forall bs d d' os,
    wf_doc d -> wf_history_b td rep d bs = true -> run_history td rep d bs = Ok (d', os) ->
    tds_apply_all td (flat_map o_stored os) d = Ok d' /\ wf_doc d'.
  Proof.
    induction bs as [|es bs IH]; intros d d' os Hwf Hh Hrun; cbn in *.
    - inversion Hrun; subst. split; [reflexivity|exact Hwf].
    - apply andb_true_iff in Hh. destruct Hh as [Hev Hh].
      destruct (run_bundle td rep d es) as [[d1 o]|] eqn:Eb; [|discriminate].
      destruct (run_history td rep d1 bs) as [[d2 os']|] eqn:Eh; [|discriminate]. inversion Hrun; subst. clear Hrun.
      destruct (stored_is_delta d es d1 o Hwf Hev Eb) as [H1 Hwf1].
      destruct (IH d1 d' os' Hwf1 Hh Eh) as [H2 Hwf2]. split; [|exact Hwf2].
      cbn [flat_map]. rewrite tds_apply_all_app. rewrite H1. exact H2.
  Qed.
End Main.

(* ------------------------------------------------------------------------------------------------ *)
(* C31: stored and direct stay parallel; what flushes and indirect contexts append *)

Definition parallel (s : st) : Prop := length (s_stored s) = length (s_direct s).

Lemma flush_col_appends : forall t c s,
  exists acts, s_stored (flush_col rep t c s) = s_stored s ++ acts /\
               s_direct (flush_col rep t c s) = s_direct s ++ repeat false (length acts) /\
               s_calc (flush_col rep t c s) = s_calc s.
Proof.
  intros. unfold flush_col, push_flush. destruct (fst (pop_column rep (s_sum s) t c)) as [a|]; cbn.
  - exists [a]. repeat split; reflexivity.
  - exists []. rewrite !app_nil_r. repeat split; reflexivity.
Qed.

Lemma flush_fold_appends : forall keys s,
  exists acts, s_stored (fold_left (fun s1 k => flush_col rep (fst k) (snd k) s1) keys s) = s_stored s ++ acts /\
               s_direct (fold_left (fun s1 k => flush_col rep (fst k) (snd k) s1) keys s) = s_direct s ++ repeat false (length acts) /\
               s_calc (fold_left (fun s1 k => flush_col rep (fst k) (snd k) s1) keys s) = s_calc s.
Proof.
  induction keys as [|k keys IH]; intros s; cbn [fold_left].
  - exists []. rewrite !app_nil_r. repeat split; reflexivity.
  - destruct (IH (flush_col rep (fst k) (snd k) s)) as [acts2 [H1 [H2 H3]]].
    destruct (flush_col_appends (fst k) (snd k) s) as [acts1 [G1 [G2 G3]]].
    exists (acts1 ++ acts2). rewrite H1, H2, H3, G1, G2, G3. rewrite <- !app_assoc. rewrite app_length. rewrite repeat_app.
    repeat split; reflexivity.
Qed.

Lemma flush_all_appends : forall s,
  exists acts, s_stored (flush_all rep s) = s_stored s ++ acts /\
               s_direct (flush_all rep s) = s_direct s ++ repeat false (length acts).
Proof.
  intros s. unfold flush_all. destruct (flush_fold_appends (sorted_keys (s_sum s)) s) as [acts [H1 [H2 _]]].
  exists acts. cbn [s_stored s_direct]. split; assumption.
Qed.

Section C31.
  Variable td : str -> V.

  (* every step acts on (stored, direct) as one of the four list operations *)
  Lemma step_log : forall e s s',
    step td rep e s = Ok s' ->
    (s_stored s', s_direct s') = (s_stored s, s_direct s) \/
    exists le, lstep le (s_stored s, s_direct s) = (s_stored s', s_direct s') /\
      match e with
      | EDoc a lvl _ | EDocFail a lvl => le = LAppend a lvl
      | ECreate a => le = LCreate a
      | EFlushCol _ _ | EFlushAll => exists acts, le = LFlush acts
      | ERollback n => le = LTrim n
      | _ => False
      end.
  Proof.
    intros e s s' H. destruct e; cbn [step] in H.
    - destruct (eng_apply td a (s_doc s)); [|discriminate]. inversion H; subst. right. exists (LAppend a lvl). split; reflexivity.
    - inversion H; subst. right. exists (LAppend a lvl). split; reflexivity.
    - inversion H; subst. right. exists (LCreate a). split; reflexivity.
    - inversion H; subst. left. reflexivity.
    - inversion H; subst. right. destruct (flush_col_appends t c s) as [acts [H1 [H2 _]]].
      exists (LFlush acts). cbn [lstep fst snd]. rewrite H1, H2. split; [reflexivity|]. exists acts. reflexivity.
    - inversion H; subst. right. destruct (flush_all_appends s) as [acts [H1 H2]].
      exists (LFlush acts). cbn [lstep fst snd]. rewrite H1, H2. split; [reflexivity|]. exists acts. reflexivity.
    - destruct (prune_actions (s_calc s) t c); [|discriminate]. inversion H; subst. left. reflexivity.
    - inversion H; subst. right. exists (LTrim n). split; reflexivity.
    - inversion H; subst. left. reflexivity.
  Qed.

  Lemma lstep_parallel : forall le p, length (fst p) = length (snd p) -> length (fst (lstep le p)) = length (snd (lstep le p)).
  Proof.
    intros le [st di] H. cbn [fst snd] in H. destruct le; cbn [lstep fst snd].
    - rewrite !app_length. cbn. lia.
    - rewrite !app_length. cbn. lia.
    - rewrite !app_length, repeat_length. lia.
    - rewrite !firstn_length. lia.
  Qed.

  Lemma lrun_parallel : forall es p, length (fst p) = length (snd p) -> length (fst (lrun es p)) = length (snd (lrun es p)).
  Proof.
    induction es as [|e es IH]; intros p H; cbn; [exact H|]. apply IH. apply lstep_parallel. exact H.
  Qed.

  Lemma step_parallel : forall e s s', parallel s -> step td rep e s = Ok s' -> parallel s'.
  Proof.
    intros e s s' Hp H. unfold parallel in *. apply step_log in H. destruct H as [H|[le [H _]]].
    - inversion H. congruence.
    - pose proof (lstep_parallel le (s_stored s, s_direct s) Hp) as Hl. rewrite H in Hl. exact Hl.
  Qed.

  Lemma run_parallel : forall es s s', parallel s -> run td rep s es = Ok s' -> parallel s'.
  Proof.
    induction es as [|e es IH]; intros s s' Hp H; cbn in H.
    - inversion H; subst. exact Hp.
    - destruct (step td rep e s) as [s1|] eqn:E; [|discriminate]. apply (IH s1); [|exact H]. eapply step_parallel; eassumption.
  Qed.

  (* at every point of every event sequence, also after flushes and rollback trimming *)
  Theorem direct_parallel : forall d es1 es2 s,
    run td rep (init_st d) (es1 ++ es2) = Ok s ->
    exists s1, run td rep (init_st d) es1 = Ok s1 /\ parallel s1 /\ parallel s.
  Proof.
    intros d es1 es2 s H. rewrite run_app in H. destruct (run td rep (init_st d) es1) as [s1|] eqn:E; [|discriminate].
    exists s1. split; [reflexivity|]. assert (Hp : parallel s1) by (eapply run_parallel; [|exact E]; reflexivity).
    split; [exact Hp|]. eapply run_parallel; eassumption.
  Qed.

  Theorem calc_flush_nondirect : forall e s s',
    (e = EFlushAll \/ exists t c, e = EFlushCol t c) -> step td rep e s = Ok s' ->
    exists acts, s_stored s' = s_stored s ++ acts /\ s_direct s' = s_direct s ++ repeat false (length acts).
  Proof.
    intros e s s' He H. destruct He as [He|[t [c He]]]; subst e; cbn [step] in H; inversion H; subst.
    - apply flush_all_appends.
    - destruct (flush_col_appends t c s) as [acts [H1 [H2 _]]]. exists acts. split; assumption.
  Qed.

  Theorem doc_event_flag : forall a lvl pre s s',
    step td rep (EDoc a lvl pre) s = Ok s' ->
    s_stored s' = s_stored s ++ [a] /\ s_direct s' = s_direct s ++ [lvl =? 0].
  Proof.
    intros a lvl pre s s' H. cbn [step] in H. destruct (eng_apply td a (s_doc s)); [|discriminate].
    inversion H; subst. split; reflexivity.
  Qed.

  Theorem indirect_context_nondirect : forall a lvl pre s s',
    0 < lvl -> step td rep (EDoc a lvl pre) s = Ok s' ->
    s_stored s' = s_stored s ++ [a] /\ s_direct s' = s_direct s ++ [false].
  Proof.
    intros a lvl pre s s' Hl H. apply doc_event_flag in H. destruct H as [H1 H2]. split; [exact H1|].
    rewrite H2. replace (lvl =? 0) with false; [reflexivity|]. symmetry. apply Z.eqb_neq. lia.
  Qed.
End C31.

(* ------------------------------------------------------------------------------------------------ *)
(* C31: a class of actions (e.g. those on summary tables) that is only ever issued in an indirect context is
   never marked direct *)

Definition flags_ok (P : action -> bool) (p : list action * list bool) : Prop :=
  Forall (fun q => P (fst q) = true -> snd q = false) (combine (fst p) (snd p)).

Definition levent_ok (P : action -> bool) (le : levent) : Prop :=
  match le with
  | LAppend a lvl => P a = true -> 0 < lvl
  | LCreate a => P a = false
  | LFlush _ | LTrim _ => True
  end.

Lemma combine_app_same : forall {A B} (l1 l1' : list A) (l2 l2' : list B),
  length l1 = length l2 -> combine (l1 ++ l1') (l2 ++ l2') = combine l1 l2 ++ combine l1' l2'.
Proof.
  intros A B l1. induction l1 as [|x l1 IH]; intros l1' l2 l2' H; destruct l2 as [|y l2]; try discriminate; cbn.
  - reflexivity.
  - f_equal. apply IH. cbn in H. lia.
Qed.

Lemma combine_firstn' : forall {A B} n (l1 : list A) (l2 : list B),
  combine (firstn n l1) (firstn n l2) = firstn n (combine l1 l2).
Proof.
  intros A B n. induction n as [|n IH]; intros l1 l2; [reflexivity|].
  destruct l1 as [|x l1]; [reflexivity|]. destruct l2 as [|y l2]; [reflexivity|]. cbn. f_equal. apply IH.
Qed.

Lemma Forall_firstn' : forall {A} (Q : A -> Prop) n l, Forall Q l -> Forall Q (firstn n l).
Proof.
  intros A Q n. induction n as [|n IH]; intros l H; [constructor|]. destruct l as [|x l]; [constructor|].
  inversion H; subst. cbn. constructor; [assumption|]. apply IH. assumption.
Qed.

Lemma lstep_flags : forall P le p,
  length (fst p) = length (snd p) -> flags_ok P p -> levent_ok P le -> flags_ok P (lstep le p).
Proof.
  intros P le [st di] Hlen Hf Hok. unfold flags_ok in *. cbn [fst snd] in *. destruct le; cbn [lstep fst snd levent_ok] in *.
  - rewrite combine_app_same by exact Hlen. apply Forall_app. split; [exact Hf|]. cbn. constructor; [|constructor].
    cbn. intro HP. apply Hok in HP. apply Z.eqb_neq. lia.
  - rewrite combine_app_same by exact Hlen. apply Forall_app. split; [exact Hf|]. cbn. constructor; [|constructor].
    cbn. intro HP. congruence.
  - rewrite combine_app_same by exact Hlen. apply Forall_app. split; [exact Hf|].
    apply Forall_forall. intros [a d] Hin. cbn. intros _. apply in_combine_r in Hin. eapply repeat_spec. exact Hin.
  - rewrite combine_firstn'. apply Forall_firstn'. exact Hf.
Qed.

Section C31b.
  Variable td : str -> V.

  Definition event_ok (P : action -> bool) (e : event) : Prop :=
    match e with
    | EDoc a lvl _ | EDocFail a lvl => P a = true -> 0 < lvl
    | ECreate a => P a = false
    | _ => True
    end.

  Lemma step_flags : forall P e s s',
    parallel s -> flags_ok P (s_stored s, s_direct s) -> event_ok P e -> step td rep e s = Ok s' ->
    flags_ok P (s_stored s', s_direct s').
  Proof.
    intros P e s s' Hp Hf Hok H. apply step_log in H. destruct H as [H|[le [H Hshape]]].
    - rewrite H. exact Hf.
    - rewrite <- H. apply lstep_flags; [exact Hp|exact Hf|].
      destruct e; cbn [event_ok] in Hok; try contradiction.
      + subst le. exact Hok.
      + subst le. exact Hok.
      + subst le. exact Hok.
      + destruct Hshape as [acts E]. subst le. exact I.
      + destruct Hshape as [acts E]. subst le. exact I.
      + subst le. exact I.
  Qed.

  Theorem class_nondirect : forall P es s s',
    parallel s -> flags_ok P (s_stored s, s_direct s) -> Forall (event_ok P) es -> run td rep s es = Ok s' ->
    flags_ok P (s_stored s', s_direct s').
  Proof.
    intros P es. induction es as [|e es IH]; intros s s' Hp Hf Hok H; cbn in H.
    - inversion H; subst. exact Hf.
    - destruct (step td rep e s) as [s1|] eqn:E; [|discriminate]. inversion Hok; subst.
      apply (IH s1 s'); try assumption.
      + eapply step_parallel; eassumption.
      + eapply step_flags; eassumption.
  Qed.
End C31b.
End Rep.
