(* C20: the functions regenerated from /repo/sandbox/grist/relabeling.py on every run (coq/gen/Relabel_gen.v, written by
   harness/relabel2v.py) are, pointwise, the hand-written model functions of Model/Relabel.v.  Every generated function
   calls the MODEL versions of its callees, so the lemmas compose: an edit of one Python function breaks exactly the lemma
   of that function. *)
From Coq Require Import ZArith List Bool Lia.
Import ListNotations.
Require Import Grist.Lib.Fl64 Grist.Model.Relabel.
Require Import GristGen.Relabel_gen.
Open Scope Z_scope.

Lemma gen_get_range_eq : forall s e n, gen_get_range s e n = get_range s e n.
Proof. timeout 60 reflexivity. Qed.

Lemma gen_adj_bisect_key_left_eq : forall orig w key,
  gen_adj_bisect_key_left orig w key = adj_bisect_key_left orig w key.
Proof. timeout 60 reflexivity. Qed.

Lemma gen_adj_get_key_eq : forall orig w index, gen_adj_get_key orig w index = adj_get_key orig w index.
Proof. timeout 60 reflexivity. Qed.

Lemma gen_count_range_eq : forall orig w b e, gen_count_range orig w b e = count_range orig w b e.
Proof. timeout 60 reflexivity. Qed.

Lemma gen_adjust_range_eq : forall orig w b e, gen_adjust_range orig w b e = adjust_range orig w b e.
Proof. timeout 60 reflexivity. Qed.

Lemma gen_adjust_all_eq : forall orig w, gen_adjust_all orig w = adjust_all orig w.
Proof. timeout 60 reflexivity. Qed.

(* the doubling loop of _find_sparse_enough_range *)
Lemma gen_sparse_loop_eq : forall orig w b e frac is thresh,
  gen_find_sparse_enough_range_loop1 orig w b e frac thresh is = sparse_loop orig w b e frac thresh is.
Proof.
  intros orig w b e frac is. induction is as [|i rest IH]; intro thresh; [reflexivity|].
  cbn [gen_find_sparse_enough_range_loop1 sparse_loop].
  destruct (range_around_float b i) as [[rb re]|c]; [|reflexivity].
  cbn [bind fst snd].
  rewrite Z.leb_antisym.
  destruct (0 <? count_range orig w rb re); cbn [negb]; [|reflexivity].
  destruct (fle e re && flt (of_Z (count_range orig w rb re)) thresh); [reflexivity|].
  apply IH.
Qed.

(* the two thresholds: the float literals of the source are the model's constants *)
Lemma gen_find_sparse_enough_range_eq : forall orig w b e,
  gen_find_sparse_enough_range orig w b e = find_sparse_enough_range orig w b e.
Proof.
  intros. unfold gen_find_sparse_enough_range, find_sparse_enough_range.
  cbv zeta. rewrite !gen_sparse_loop_eq.
  (* the float literals first (evaluated, so that a changed literal fails at once), then the shape *)
  repeat match goal with
         | |- context [sparse_loop orig w b e ?c] =>
             lazymatch c with f114 => fail | f130 => fail | _ => idtac end;
             first [ replace c with f114 by (vm_compute; reflexivity) | replace c with f130 by (vm_compute; reflexivity) ]
         end.
  lazymatch goal with
  | |- context [decode _] => fail "a float literal of _find_sparse_enough_range is not the model's 1.14 / 1.3"
  | _ => idtac
  end.
  timeout 60 reflexivity.
Qed.

Lemma bind_ok_r : forall (A : Type) (r : res A), bind r (fun x => Ok x) = r.
Proof. intros A [a|c]; reflexivity. Qed.

Lemma gen_prep_inserts_at_index_eq : forall orig w index count,
  gen_prep_inserts_at_index orig w index count = prep_inserts_at_index orig w index count.
Proof.
  intros. unfold gen_prep_inserts_at_index, prep_inserts_at_index.
  rewrite (Z.leb_antisym 0 count).
  destruct (0 <? count); cbn [negb]; [|reflexivity].
  cbv zeta.
  match goal with |- (if ?c then _ else _) = (if ?d then _ else _) => change d with c; destruct c end.
  - apply bind_ok_r.
  - match goal with |- (if ?c then _ else _) = _ => destruct c end; [reflexivity|].
    match goal with |- context [0 <? ?n] => rewrite (Z.leb_antisym 0 n); destruct (0 <? n) end; cbn [negb]; reflexivity.
Qed.

Lemma gen_prepare_inserts_eq : forall orig keys, gen_prepare_inserts orig keys = prepare_inserts_model orig keys.
Proof. timeout 60 reflexivity. Qed.

(* the same, for the whole chain: replacing every model function by its generated counterpart changes nothing *)
Definition gen_prepare_inserts_code (orig keys : list fl) : res (list (Z * fl) * list fl) :=
  bind (fold_left (fun r g => bind r (fun w => gen_prep_inserts_at_index orig w (fst g) (snd g)))
                  (ins_groups orig keys) (Ok (mkwl [] [])))
       (fun w => Ok (adjs w, ungroup keys (inss w))).

Lemma fold_left_ext : forall (A B : Type) (f g : A -> B -> A) (l : list B) (a : A),
  (forall x y, f x y = g x y) -> fold_left f l a = fold_left g l a.
Proof. intros A B f g l. induction l as [|y l IH]; intros a H; [reflexivity|]. cbn. rewrite H. apply IH, H. Qed.

Lemma gen_prepare_inserts_code_eq : forall orig keys, gen_prepare_inserts_code orig keys = prepare_inserts_model orig keys.
Proof.
  intros. unfold gen_prepare_inserts_code, prepare_inserts_model. f_equal.
  apply fold_left_ext. intros [w|c] g; [|reflexivity]. cbn [bind]. apply gen_prep_inserts_at_index_eq.
Qed.
