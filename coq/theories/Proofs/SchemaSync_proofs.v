(* C08, part 4b: the invariant and the coupled steps that add things. *)
From Coq Require Import ZArith List Bool Lia Permutation.
Import ListNotations.
Require Import Grist.Model.SchemaSync Grist.Proofs.SchemaSync_build Grist.Proofs.SchemaSync_spec
               Grist.Proofs.SchemaSync_steps Grist.Proofs.SchemaSync_aux.
Open Scope Z_scope.

Record InvD (base : schema) (s : state) : Prop :=
  { id_wt : wf_t (m_tables (st_meta s));
    id_wc : wf_c (m_cols (st_meta s));
    id_nd : no_dangling (m_cols (st_meta s));
    id_ns : no_stray (m_tables (st_meta s)) (m_cols (st_meta s));
    id_all : all_have_cols (m_tables (st_meta s)) (m_cols (st_meta s));
    id_bd : base_disjoint base (m_tables (st_meta s));
    id_sync : Sync base (st_schema s) (m_tables (st_meta s)) (m_cols (st_meta s)) (rho_of (m_cols (st_meta s))) }.

(* the statement in terms of build_schema *)
Definition Inv (base : schema) (s : state) : Prop :=
  wf_t (m_tables (st_meta s)) /\ wf_c (m_cols (st_meta s)) /\ no_dangling (m_cols (st_meta s)) /\
  base_disjoint base (m_tables (st_meta s)) /\
  no_stray (m_tables (st_meta s)) (m_cols (st_meta s)) /\
  exists sch, build_schema base (st_meta s) = Ok sch /\ schema_equiv (st_schema s) sch.

Lemma meta_eta : forall m, m = {| m_tables := m_tables m; m_cols := m_cols m |}.
Proof. intros [a b]. reflexivity. Qed.

Lemma Inv_InvD : forall base s, Inv base s <-> InvD base s.
Proof.
  intros base s. split.
  - intros [Hwt [Hwc [Hnd [Hbd [Hns [sch [Hb He]]]]]]].
    pose proof (build_ok_all_have_cols _ _ _ Hb) as Hall.
    destruct (build_char base _ _ Hwt Hwc Hall) as [sch2 [Hb2 Hs2]]. rewrite <- meta_eta in Hb2.
    rewrite Hb in Hb2. inversion Hb2; subst sch2.
    constructor; try assumption. exact (sync_transfer _ _ _ _ _ _ He Hs2).
  - intros [Hwt Hwc Hnd Hns Hall Hbd Hs].
    split; [exact Hwt|]. split; [exact Hwc|]. split; [exact Hnd|]. split; [exact Hbd|]. split; [exact Hns|].
    destruct (build_char base _ _ Hwt Hwc Hall) as [sch2 [Hb2 Hs2]]. rewrite <- meta_eta in Hb2.
    exists sch2. split; [exact Hb2 | exact (sync_equiv _ _ _ _ _ _ Hs Hs2)].
Qed.

(* ---------------------------------------------------------------- reverse names after a change of the column list *)
Lemma find_col_ins_other : forall r cs k, k <> c_id r -> find_col k (ins_c r cs) = find_col k cs.
Proof.
  intros r cs k Hne. unfold find_col. induction cs as [|y t IH]; cbn.
  - destruct (Z.eqb_spec (c_id r) k); [congruence | reflexivity].
  - destruct (c_id r <? c_id y); cbn.
    + destruct (Z.eqb_spec (c_id r) k); [congruence | reflexivity].
    + destruct (c_id y =? k); [reflexivity | exact IH].
Qed.

Lemma rho_of_agree : forall cs cs' k,
  find_col k cs' = find_col k cs ->
  (forall x, find_col k cs = Some x -> find_col (c_rev x) cs' = find_col (c_rev x) cs) ->
  rho_of cs' k = rho_of cs k.
Proof.
  intros cs cs' k H1 H2. unfold rho_of. rewrite H1. destruct (find_col k cs) as [x|]; [|reflexivity].
  rewrite (H2 x eq_refl). reflexivity.
Qed.

Lemma rev_target_ne : forall cs x k, no_dangling cs -> wf_c cs -> In x cs -> 0 < k ->
  (forall y, In y cs -> c_id y <> k) -> c_rev x <> k.
Proof.
  intros cs x k Hnd Hwc Hx Hk Hfresh Heq. destruct (Hnd x Hx) as [H0|[y [Hy Hid]]]; [lia|].
  apply (Hfresh y Hy). congruence.
Qed.

Lemma find_col_zero : forall cs, wf_c cs -> find_col 0 cs = None.
Proof.
  intros cs Hwc. unfold find_col. apply find_none_all. intros x Hx. apply Z.eqb_neq.
  pose proof (wc_pos _ Hwc x Hx). lia.
Qed.

(* ---------------------------------------------------------------- CAddColumn *)
Lemma add_cols_single : forall r cs cs', add_cols [r] cs = Ok cs' -> find_col (c_id r) cs = None /\ cs' = ins_c r cs.
Proof.
  intros r cs cs' H. cbn in H. destruct (find_col (c_id r) cs); [discriminate|]. inversion H. tauto.
Qed.

Lemma rho_after_ins : forall cs r, wf_c cs -> no_dangling cs -> 0 < c_id r -> find_col (c_id r) cs = None ->
  forall k, k <> c_id r -> rho_of (ins_c r cs) k = rho_of cs k.
Proof.
  intros cs r Hwc Hnd Hpos Hfresh k Hk. apply rho_of_agree; [apply find_col_ins_other; exact Hk|].
  intros x Hx. apply find_col_in in Hx. destruct Hx as [Hx _]. apply find_col_ins_other.
  apply (rev_target_ne cs x (c_id r) Hnd Hwc Hx Hpos). intros y Hy. exact (find_col_none _ _ Hfresh y Hy).
Qed.

Lemma rho_new_none : forall cs r, wf_c (ins_c r cs) -> c_rev r = 0 -> rho_of (ins_c r cs) (c_id r) = None.
Proof.
  intros cs r Hwc Hrev. unfold rho_of.
  rewrite (find_col_some (c_id r) (ins_c r cs) r); [|apply Hwc | apply ins_c_in; tauto | reflexivity].
  rewrite Hrev, (find_col_zero _ Hwc). reflexivity.
Qed.

Lemma add_one_col : forall base sch sch' ts cs t r,
  wf_t ts -> wf_c cs -> no_dangling cs -> Sync base sch ts cs (rho_of cs) ->
  In t ts -> c_parent r = t_id t -> 0 < c_id r -> c_rev r = 0 -> find_col (c_id r) cs = None ->
  apply_s (SAddColumn (t_tableId t) (c_colId r) (info_of_rec r)) sch = Ok sch' ->
  wf_c (ins_c r cs) /\ no_dangling (ins_c r cs) /\ Sync base sch' ts (ins_c r cs) (rho_of (ins_c r cs)).
Proof.
  intros base sch sch' ts cs t r Hwt Hwc Hnd Hs Ht Hp Hpos Hrev Hfresh Ha.
  cbn in Ha. destruct (od_get (t_tableId t) sch) as [cols|] eqn:Et; [|discriminate].
  destruct (od_get (c_colId r) cols) eqn:Ec; [discriminate|]. inversion Ha; subst sch'; clear Ha.
  assert (Hfr : forall x, In x cs -> c_id x <> c_id r) by (intros x Hx; exact (find_col_none _ _ Hfresh x Hx)).
  (* first with rho' := rho_of cs overridden at the new id, then switch *)
  set (rho' := fun k => if k =? c_id r then None else rho_of cs k).
  destruct (sync_add_col base sch (od_set (t_tableId t) (od_set (c_colId r) (info_of_rec r) cols) sch) ts cs
              (rho_of cs) rho' t r cols (od_set (c_colId r) (info_of_rec r) cols)) as [Hwc' Hs']; try assumption.
  - intros k Hk. unfold rho'. destruct (Z.eqb_spec k (c_id r)); [contradiction | reflexivity].
  - intro c. rewrite od_get_set. destruct (str_eqb (c_colId r) c); [|reflexivity].
    unfold info_rho, info_of_rec, rho'. rewrite Z.eqb_refl. reflexivity.
  - apply sch_upd_set.
  - split; [exact Hwc'|]. split.
    + intros x Hx. apply ins_c_in in Hx. destruct Hx as [->|Hx]; [left; exact Hrev|].
      destruct (Hnd x Hx) as [H0|[y [Hy Hid]]]; [left; exact H0 | right; exists y; split; [apply ins_c_in; tauto | exact Hid]].
    + apply (sync_rho_ext _ _ _ _ rho'); [exact Hs'|]. intros x Hx. unfold rho'.
      destruct (Z.eqb_spec (c_id x) (c_id r)) as [E|E].
      * rewrite E. apply rho_new_none; assumption.
      * apply rho_after_ins; assumption.
Qed.

Lemma coupled_add_column : forall base id parent pos colId type isf formula s s' log,
  InvD base s -> coupled (CAddColumn id parent pos colId type isf formula) s = Ok (s', log) -> InvD base s'.
Proof.
  intros base id parent pos colId type isf formula s s' log [Hwt Hwc Hnd Hns Hall Hbd Hs] H.
  unfold coupled in H. destruct (0 <? id) eqn:Hpos; [|discriminate]. cbn [negb] in H. apply Z.ltb_lt in Hpos.
  destruct (find_table parent (m_tables (st_meta s))) as [t|] eqn:Ef; [|discriminate].
  apply find_table_some in Ef. destruct Ef as [Ht Hid].
  set (r := {| c_id := id; c_parent := parent; c_pos := pos; c_colId := colId; c_type := type; c_isf := isf;
               c_formula := formula; c_rev := 0 |}) in *.
  destruct (apply_s (SAddColumn (t_tableId t) colId (info_of_rec r)) (st_schema s)) as [sch'|] eqn:Ea; [|discriminate].
  destruct (apply_m (MAddCols [r]) (st_meta s)) as [m'|] eqn:Em; [|discriminate].
  inversion H; subst s'; clear H. cbn [apply_m] in Em.
  destruct (add_cols [r] (m_cols (st_meta s))) as [cs'|] eqn:Eadd; [|discriminate]. inversion Em; subst m'; clear Em.
  apply add_cols_single in Eadd. destruct Eadd as [Hfresh ->].
  destruct (add_one_col base (st_schema s) sch' _ _ t r Hwt Hwc Hnd Hs Ht) as [Hwc' [Hnd' Hs']]; try assumption; try reflexivity.
  - cbn. symmetry. exact Hid.
  - constructor; cbn [st_meta st_schema m_tables m_cols]; try assumption.
    + intros c Hc. apply ins_c_in in Hc. destruct Hc as [->|Hc]; [exists t; cbn; tauto | apply Hns; exact Hc].
    + intros t0 Ht0. destruct (Hall t0 Ht0) as [c [Hc1 Hc2]]. exists c. split; [apply ins_c_in; tauto | exact Hc2].
Qed.

(* ---------------------------------------------------------------- CAddTable *)
Lemma sync_get_ext : forall base s1 s2 ts cs rho, (forall x, od_get x s1 = od_get x s2) ->
  Sync base s1 ts cs rho -> Sync base s2 ts cs rho.
Proof. intros base s1 s2 ts cs rho He Hs tid. specialize (Hs tid). rewrite <- (He tid). exact Hs. Qed.

Lemma add_one_col_gen : forall base sch sch' ts cs t r cols,
  wf_t ts -> wf_c cs -> no_dangling cs -> Sync base sch ts cs (rho_of cs) ->
  In t ts -> c_parent r = t_id t -> 0 < c_id r -> c_rev r = 0 -> find_col (c_id r) cs = None ->
  od_get (t_tableId t) sch = Some cols -> od_get (c_colId r) cols = None ->
  sch_upd sch sch' (t_tableId t) (Some (od_set (c_colId r) (info_of_rec r) cols)) ->
  wf_c (ins_c r cs) /\ no_dangling (ins_c r cs) /\ Sync base sch' ts (ins_c r cs) (rho_of (ins_c r cs)).
Proof.
  intros base sch sch' ts cs t r cols Hwt Hwc Hnd Hs Ht Hp Hpos Hrev Hfresh Et Ec Hupd.
  assert (Ha : apply_s (SAddColumn (t_tableId t) (c_colId r) (info_of_rec r)) sch =
               Ok (od_set (t_tableId t) (od_set (c_colId r) (info_of_rec r) cols) sch)).
  { cbn. rewrite Et, Ec. reflexivity. }
  destruct (add_one_col base sch _ ts cs t r Hwt Hwc Hnd Hs Ht Hp Hpos Hrev Hfresh Ha) as [H1 [H2 H3]].
  split; [exact H1|]. split; [exact H2|]. apply (sync_get_ext _ _ _ _ _ _ (fun x => eq_trans (od_get_set _ _ _ x) (eq_sym (Hupd x))) H3).
Qed.

Definition col_ok (tref : Z) (c : crec) : Prop := 0 < c_id c /\ c_parent c = tref /\ c_rev c = 0.

Lemma add_cols_loop : forall base ts t cols cs cs' sch colsd,
  wf_t ts -> In t ts -> wf_c cs -> no_dangling cs -> Sync base sch ts cs (rho_of cs) ->
  od_get (t_tableId t) sch = Some colsd ->
  Forall (col_ok (t_id t)) cols -> NoDup (map c_colId cols) ->
  (forall c, In c cols -> od_get (c_colId c) colsd = None) ->
  add_cols cols cs = Ok cs' ->
  wf_c cs' /\ no_dangling cs' /\ (forall x, In x cs' <-> In x cols \/ In x cs) /\
  Sync base (od_set (t_tableId t) (fold_left (fun d c => od_set (c_colId c) (info_of_rec c) d) cols colsd) sch)
       ts cs' (rho_of cs').
Proof.
  intros base ts t cols. induction cols as [|c rest IH]; intros cs cs' sch colsd Hwt Ht Hwc Hnd Hs Hd Hok Hdist Hfree Hadd.
  - cbn in Hadd. inversion Hadd; subst cs'. cbn [fold_left]. split; [exact Hwc|]. split; [exact Hnd|]. split; [intro x; cbn; tauto|].
    apply (sync_get_ext base sch); [|exact Hs]. intro x. rewrite od_get_set.
    destruct (str_eqb (t_tableId t) x) eqn:E; [apply str_eqb_eq in E; subst x; exact Hd | reflexivity].
  - cbn [add_cols] in Hadd. destruct (find_col (c_id c) cs) eqn:Ef; [discriminate|].
    inversion Hok as [|c0 r0 [Hpos [Hpar Hrev]] Hok']; subst.
    cbn [map] in Hdist. inversion Hdist as [|a b Hnin Hdist']; subst.
    set (colsd1 := od_set (c_colId c) (info_of_rec c) colsd).
    destruct (add_one_col_gen base sch (od_set (t_tableId t) colsd1 sch) ts cs t c colsd) as [Hwc1 [Hnd1 Hs1]];
      try assumption; [apply Hfree; left; reflexivity | apply sch_upd_set|].
    specialize (IH (ins_c c cs) cs' (od_set (t_tableId t) colsd1 sch) colsd1 Hwt Ht Hwc1 Hnd1 Hs1).
    destruct IH as [Hwc' [Hnd' [Hin' Hs']]]; try assumption.
    + apply od_get_set_same.
    + intros c' Hc'. unfold colsd1. rewrite od_get_set.
      destruct (str_eqb (c_colId c) (c_colId c')) eqn:E; [|apply Hfree; right; exact Hc'].
      exfalso. apply Hnin. apply str_eqb_eq in E. rewrite E. apply in_map. exact Hc'.
    + split; [exact Hwc'|]. split; [exact Hnd'|]. split.
      * intro x. rewrite Hin', ins_c_in. cbn [In]. intuition congruence.
      * cbn [fold_left]. fold colsd1. apply (sync_get_ext base _ _ ts cs' (rho_of cs')) with (2 := Hs').
        intro x. rewrite !od_get_set. destruct (str_eqb (t_tableId t) x); reflexivity.
Qed.

Lemma nodupb_str : forall l, nodupb str_eqb l = true -> NoDup l.
Proof.
  induction l as [|x t IH]; intro H; [constructor|]. cbn in H. apply andb_true_iff in H. destruct H as [H1 H2].
  constructor; [|apply IH; exact H2]. intro Hin. apply negb_true_iff in H1.
  assert (existsb (str_eqb x) t = true) by (apply existsb_exists; exists x; split; [exact Hin | apply str_eqb_refl]).
  congruence.
Qed.

Lemma fold_left_map : forall {A B C} (f : A -> B -> A) (g : C -> B) l a,
  fold_left f (map g l) a = fold_left (fun acc c => f acc (g c)) l a.
Proof. intros A B C f g l. induction l as [|x t IH]; intro a; cbn; [reflexivity | apply IH]. Qed.

Lemma coupled_add_table : forall base t cols s s' log,
  InvD base s -> cop_pre (CAddTable t cols) s = true -> coupled (CAddTable t cols) s = Ok (s', log) -> InvD base s'.
Proof.
  intros base t cols s s' log [Hwt Hwc Hnd Hns Hall Hbd Hs] Hpre H.
  cbn [cop_pre] in Hpre. apply nodupb_str in Hpre.
  unfold coupled in H. destruct (0 <? t_id t) eqn:Hpos; [|discriminate]. cbn [negb] in H.
  destruct (forallb (fun c => (0 <? c_id c) && (c_parent c =? t_id t) && (c_rev c =? 0)) cols) eqn:Hok; [|discriminate].
  cbn [negb] in H. destruct cols as [|c0 crest] eqn:Ecols; [discriminate|]. rewrite <- Ecols in *.
  set (pairs := map (fun c => (c_colId c, info_of_rec c)) cols) in *.
  destruct (apply_s (SAddTable (t_tableId t) pairs) (st_schema s)) as [sch'|] eqn:Ea; [|discriminate].
  destruct (apply_m (MAddTables [t]) (st_meta s)) as [m1|] eqn:Em1; [|discriminate].
  destruct (apply_m (MAddCols cols) m1) as [m2|] eqn:Em2; [|discriminate].
  inversion H; subst s'; clear H.
  cbn in Ea. destruct (od_get (t_tableId t) (st_schema s)) eqn:Enone; [discriminate|]. inversion Ea; subst sch'; clear Ea.
  cbn in Em1. destruct (find_table (t_id t) (m_tables (st_meta s))) eqn:Eft; [discriminate|]. inversion Em1; subst m1; clear Em1.
  cbn [apply_m m_cols m_tables] in Em2.
  destruct (add_cols cols (m_cols (st_meta s))) as [cs'|] eqn:Eadd; [|discriminate]. inversion Em2; subst m2; clear Em2.
  assert (Hfresh : forall x, In x (m_tables (st_meta s)) -> t_id x <> t_id t) by (intros x Hx; exact (find_table_none _ _ Eft x Hx)).
  assert (Hnocol : forall c, In c (m_cols (st_meta s)) -> c_parent c <> t_id t).
  { intros c Hc Heq. destruct (Hns c Hc) as [t2 [Ht2 Hid2]]. apply (Hfresh t2 Ht2). congruence. }
  destruct (sync_add_table base (st_schema s) (od_set (t_tableId t) [] (st_schema s)) _ _ _ t Hwt Hs Hbd Enone Hfresh Hnocol
              (sch_upd_set _ _ _)) as [Hwt' [Hs0 Hbd']].
  assert (Hcolok : Forall (col_ok (t_id t)) cols).
  { apply Forall_forall. intros c Hc. apply (proj1 (forallb_forall _ _) Hok) in Hc.
    apply andb_true_iff in Hc. destruct Hc as [Hc Hq3]. apply andb_true_iff in Hc. destruct Hc as [Hq1 Hq2].
    unfold col_ok. lia. }
  destruct (add_cols_loop base (ins_t t (m_tables (st_meta s))) t cols (m_cols (st_meta s)) cs'
              (od_set (t_tableId t) [] (st_schema s)) [] Hwt') as [Hwc' [Hnd' [Hin' Hs']]]; try assumption.
  - apply ins_t_in. tauto.
  - apply od_get_set_same.
  - reflexivity.
  - constructor; cbn [st_meta st_schema m_tables m_cols]; try assumption.
    + intros c Hc. apply Hin' in Hc. destruct Hc as [Hc|Hc].
      * exists t. split; [apply ins_t_in; tauto|]. pose proof (proj1 (Forall_forall _ _) Hcolok c Hc) as [_ [Hp _]]. congruence.
      * destruct (Hns c Hc) as [t2 [Ht2 Hid2]]. exists t2. split; [apply ins_t_in; tauto | exact Hid2].
    + intros t0 Ht0. apply ins_t_in in Ht0. destruct Ht0 as [->|Ht0].
      * exists c0. split; [apply Hin'; left; rewrite Ecols; left; reflexivity|].
        assert (Hc0 : In c0 cols) by (rewrite Ecols; left; reflexivity).
        pose proof (proj1 (Forall_forall _ _) Hcolok c0 Hc0) as [_ [Hp _]]. exact Hp.
      * destruct (Hall t0 Ht0) as [c [Hc1 Hc2]]. exists c. split; [apply Hin'; tauto | exact Hc2].
    + apply (sync_get_ext base _ _ _ _ _) with (2 := Hs'). intro x. unfold pairs, od_of_list.
      rewrite fold_left_map. cbn [fst snd]. rewrite !od_get_set. destruct (str_eqb (t_tableId t) x); reflexivity.
Qed.
