(* C20, partial renumbering path: _adj_bisect_key_left counts exactly the rows of the adjusted list below the key,
   unless the last adjusted row below the key crossed it downwards and is not followed by another adjusted row. *)
From Coq Require Import ZArith List Bool Lia.
Import ListNotations.
Require Import Grist.Lib.Fl64 Grist.Proofs.Fl64_proofs Grist.Model.Relabel Grist.Proofs.Relabel_plain2_proofs.
Open Scope Z_scope.

(* bisect_key_left is characterised by "everything before is below the key, the element there is not" *)
Lemma bkl_char l q p : 0 <= p <= lenZ l ->
  (forall j, 0 <= j < p -> flt (nthZ l j FNaN) q = true) ->
  (p < lenZ l -> flt (nthZ l p FNaN) q = false) -> bkl l q = p.
Proof.
  intros Hp Hbelow Hstop. pose proof (bkl_range l q) as Hr.
  destruct (Z.lt_trichotomy (bkl l q) p) as [H|[H|H]]; [|exact H|].
  - pose proof (bkl_stop l q ltac:(lia)) as Hs. rewrite (Hbelow (bkl l q) ltac:(lia)) in Hs. discriminate.
  - pose proof (bkl_prefix l q p ltac:(lia)) as Hs. rewrite Hstop in Hs by lia. discriminate.
Qed.

Section AdjBisect.
Variables (orig V : list fl) (al : list (Z * fl)) (inss : list fl) (q : fl).
Let n := lenZ orig.
Let w := mkwl al inss.
Let m := lenZ al.
Let idx (pos : Z) : Z := fst (nthZ al pos (0, FNaN)).
Let key (pos : Z) : fl := snd (nthZ al pos (0, FNaN)).

(* the existing keys and the adjusted list are sorted, no NaN *)
Hypothesis Horig_sorted : forall i j, 0 <= i <= j -> j < n -> fle (nthZ orig i FNaN) (nthZ orig j FNaN) = true.
Hypothesis HV_len : lenZ V = n.
Hypothesis HV_sorted : forall i j, 0 <= i <= j -> j < n -> fle (nthZ V i FNaN) (nthZ V j FNaN) = true.
Hypothesis Hq : is_nan q = false.
(* the adjustments: indexes strictly increasing along the list and in range; V is orig with them applied *)
Hypothesis Hidx_range : forall pos, 0 <= pos < m -> 0 <= idx pos < n.
Hypothesis Hidx_incr : forall pos pos', 0 <= pos < pos' -> pos' < m -> idx pos < idx pos'.
Hypothesis HV_adj : forall pos, 0 <= pos < m -> nthZ V (idx pos) FNaN = key pos.
Hypothesis HV_unadj : forall j, 0 <= j < n -> (forall pos, 0 <= pos < m -> idx pos <> j) -> nthZ V j FNaN = nthZ orig j FNaN.

Let a := bkl (map snd al) q.
Let adj_next := if a <? m then idx a else n.
Let adj_prev := if 0 <? a then idx (a - 1) else -1.

(* the only bad case: the last adjusted row below the key had an original key >= the key, and the next row is
   not adjusted *)
Hypothesis Hcross : 0 < a -> flt (nthZ orig (idx (a - 1)) FNaN) q = false -> adj_next = idx (a - 1) + 1.

Lemma a_range : 0 <= a <= m.
Proof. unfold a, m. pose proof (bkl_range (map snd al) q) as H. unfold lenZ in *. rewrite map_length in H. exact H. Qed.

Lemma key_nth pos : nthZ (map snd al) pos FNaN = key pos.
Proof. unfold key, nthZ. change FNaN with (snd ((0, FNaN) : Z * fl)) at 1. apply map_nth. Qed.

Lemma keys_below pos : 0 <= pos < a -> flt (key pos) q = true.
Proof. intros H. rewrite <- key_nth. apply bkl_prefix. fold a. exact H. Qed.

Lemma key_stop : a < m -> flt (key a) q = false.
Proof.
  intros H. rewrite <- key_nth. apply bkl_stop. fold a. unfold m, lenZ in *. rewrite map_length. exact H.
Qed.

Lemma V_nn j : 0 <= j < n -> is_nan (nthZ V j FNaN) = false.
Proof. intros Hj. pose proof (HV_sorted j j ltac:(lia) ltac:(lia)) as H. apply fle_iff in H. tauto. Qed.

Lemma prev_next : adj_prev < adj_next /\ -1 <= adj_prev /\ adj_next <= n.
Proof.
  pose proof a_range as Ha. unfold adj_prev, adj_next.
  destruct (Z.ltb_spec 0 a), (Z.ltb_spec a m).
  - pose proof (Hidx_incr (a - 1) a ltac:(lia) ltac:(lia)). pose proof (Hidx_range (a - 1) ltac:(lia)).
    pose proof (Hidx_range a ltac:(lia)). lia.
  - pose proof (Hidx_range (a - 1) ltac:(lia)). lia.
  - pose proof (Hidx_range a ltac:(lia)). lia.
  - unfold n, lenZ. lia.
Qed.

(* rows strictly between the two adjusted rows are not adjusted *)
Lemma between_unadjusted j : adj_prev < j < adj_next -> 0 <= j < n -> nthZ V j FNaN = nthZ orig j FNaN.
Proof.
  intros Hj Hjn. apply HV_unadj; [exact Hjn|]. intros pos Hpos Heq. pose proof a_range as Ha.
  unfold adj_prev, adj_next in Hj.
  destruct (Z.lt_ge_cases pos a) as [Hlt|Hge].
  - (* pos <= a-1: idx pos <= idx (a-1) = adj_prev *)
    destruct (Z.ltb_spec 0 a) as [H0|H0]; [|lia].
    destruct (Z.eq_dec pos (a - 1)) as [->|Hne]; [lia|].
    pose proof (Hidx_incr pos (a - 1) ltac:(lia) ltac:(lia)). lia.
  - destruct (Z.ltb_spec a m) as [H0|H0]; [|lia].
    destruct (Z.eq_dec pos a) as [->|Hne]; [lia|].
    pose proof (Hidx_incr a pos ltac:(lia) ltac:(lia)). lia.
Qed.

(* everything up to adj_prev is below the key; the row at adj_next is not *)
Lemma upto_prev j : 0 <= j <= adj_prev -> flt (nthZ V j FNaN) q = true.
Proof.
  intros Hj. pose proof a_range as Ha. unfold adj_prev in *. destruct (Z.ltb_spec 0 a) as [H0|H0]; [|lia].
  pose proof (Hidx_range (a - 1) ltac:(lia)) as Hr.
  pose proof (keys_below (a - 1) ltac:(lia)) as Hk. rewrite <- (HV_adj (a - 1)) in Hk by lia.
  apply (fle_flt_trans _ (nthZ V (idx (a - 1)) FNaN)); [apply HV_sorted; lia | exact Hk].
Qed.

Lemma at_next : adj_next < n -> flt (nthZ V adj_next FNaN) q = false.
Proof.
  intros H. pose proof a_range as Ha. unfold adj_next in *. destruct (Z.ltb_spec a m) as [H0|H0]; [|lia].
  rewrite (HV_adj a) by lia. apply key_stop. exact H0.
Qed.

Lemma orig_lt_iff j : 0 <= j < n -> (flt (nthZ orig j FNaN) q = true <-> j < bkl orig q).
Proof.
  intros Hj. pose proof (bkl_range orig q) as Hr. fold n in Hr. split.
  - intros Hlt. destruct (Z.lt_ge_cases j (bkl orig q)) as [H|H]; [exact H|]. exfalso.
    pose proof (bkl_stop orig q ltac:(fold n; lia)) as Hs.
    pose proof (Horig_sorted (bkl orig q) j ltac:(lia) ltac:(lia)) as Hle.
    apply fle_iff in Hle. destruct Hle as (N1 & N2 & Hle). apply flt_iff in Hlt. destruct Hlt as (_ & _ & Hlt).
    apply flt_false in Hs; auto. lia.
  - intros H. apply bkl_prefix. lia.
Qed.

Theorem adj_bisect_exact : adj_bisect_key_left orig w q = bkl V q.
Proof.
  pose proof prev_next as (Hpn & Hp0 & Hnn). pose proof a_range as Ha. pose proof (bkl_range orig q) as Hoi. fold n in Hoi.
  unfold adj_bisect_key_left, w. cbn [Relabel.adjs]. fold a. fold m. fold n.
  change (if a <? m then fst (nthZ al a (0, FNaN)) else n) with adj_next.
  change (if 0 <? a then fst (nthZ al (a - 1) (0, FNaN)) else -1) with adj_prev.
  set (oi := bkl orig q) in *. symmetry.
  destruct ((adj_prev <? oi) && (oi <? adj_next)) eqn:Ec.
  - apply andb_prop in Ec. destruct Ec as [E1 E2]. apply Z.ltb_lt in E1. apply Z.ltb_lt in E2.
    apply bkl_char; [rewrite HV_len; lia | |].
    + intros j Hj. destruct (Z.le_gt_cases j adj_prev) as [Hle|Hgt]; [apply upto_prev; lia|].
      rewrite between_unadjusted by lia. apply orig_lt_iff; [lia | fold oi; lia].
    + rewrite HV_len. intros Hlt. rewrite between_unadjusted by lia.
      destruct (flt (nthZ orig oi FNaN) q) eqn:E; [|reflexivity].
      apply orig_lt_iff in E; [fold oi in E; lia | lia].
  - apply bkl_char; [rewrite HV_len; lia | |].
    + intros j Hj. destruct (Z.le_gt_cases j adj_prev) as [Hle|Hgt]; [apply upto_prev; lia|].
      (* adj_prev < j < adj_next, so the test failed because oi <= adj_prev or adj_next <= oi *)
      apply andb_false_iff in Ec. destruct Ec as [E1|E1].
      * apply Z.ltb_ge in E1.
        (* crossed downwards: then adj_next = adj_prev + 1 and no such j exists *)
        exfalso. assert (H0 : 0 < a).
        { destruct (Z.lt_ge_cases 0 a) as [H|H]; [exact H|]. unfold adj_prev in E1, Hgt.
          replace (0 <? a) with false in E1, Hgt by (symmetry; apply Z.ltb_ge; lia). lia. }
        assert (Hap : adj_prev = idx (a - 1)).
        { unfold adj_prev. replace (0 <? a) with true by (symmetry; apply Z.ltb_lt; lia). reflexivity. }
        pose proof (Hidx_range (a - 1) ltac:(lia)) as Hr.
        assert (Hx : flt (nthZ orig (idx (a - 1)) FNaN) q = false).
        { destruct (flt (nthZ orig (idx (a - 1)) FNaN) q) eqn:E; [|reflexivity].
          apply orig_lt_iff in E; [fold oi in E; lia | lia]. }
        pose proof (Hcross H0 Hx). lia.
      * apply Z.ltb_ge in E1. rewrite between_unadjusted by lia. apply orig_lt_iff; [lia | fold oi; lia].
    + rewrite HV_len. apply at_next.
Qed.
End AdjBisect.
