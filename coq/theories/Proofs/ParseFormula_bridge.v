(* Bridge between predicate_formula.parse_predicate_formula as GENERATED from the source (GristGen.ParseFormula_gen,
   regenerated on every run by harness/pr2v.py) and parse_predicate of Model/Predicate.v. *)
From Coq Require Import ZArith List Bool String.
Import ListNotations.
Require Import Grist.Model.Predicate Grist.Model.PredicateRename Grist.Model.PredVisit.
Require Import GristGen.Predicate_gen GristGen.ParseFormula_gen Grist.Proofs.Predicate_bridge.
Open Scope Z_scope.
Open Scope list_scope.

(* the COMMENT tokens among all tokens (type == tokenize.COMMENT, string) *)
Definition comments_of (tokens : list (bool * str)) : list str := map snd (filter fst tokens).

Lemma find_comment tokens :
  option_map snd (find (fun part => fst part && match snd part with c_ :: _ => c_ =? 35 | [] => false end) tokens)
  = first_comment (comments_of tokens).
Proof.
  unfold first_comment, comments_of. induction tokens as [|[b s] t IH]; [reflexivity|].
  cbn [find filter fst snd]. destruct b; cbn [andb map find snd].
  - unfold starts_with_hash at 1. destruct s as [|c s']; [exact IH|]. destruct (c =? 35); [reflexivity | exact IH].
  - exact IH.
Qed.

Definition lift_parse (r : cres tree) : gres pyval :=
  match r with Ok t => GOk (to_py t) | Err e => GFail (GErr e) end.

Theorem gen_parse_bridge dollar_ok parsed tokens :
  match parsed with Some e => wf_expr e = true | None => True end ->
  gen_parse_predicate_formula dollar_ok parsed tokens
  = lift_parse (parse_predicate (if dollar_ok then parsed else None) (comments_of tokens)).
Proof.
  intros Hwf. unfold gen_parse_predicate_formula, parse_predicate. destruct dollar_ok; [|reflexivity].
  destruct parsed as [e|]; [|reflexivity]. rewrite (gen_convert_bridge e Hwf).
  destruct (convert e) as [t|err]; cbn [lift_tree bindc]; [|reflexivity].
  rewrite <- find_comment.
  destruct (find (fun part => fst part && match snd part with c_ :: _ => c_ =? 35 | [] => false end) tokens) as [[b s]|];
    cbn [option_map snd lift_parse to_py]; [|reflexivity].
  destruct s; reflexivity.
Qed.
