(* C25 -- more migration bodies proved total: the ones that add records or whole tables (25, 26, 30, 40, ...). *)
From Coq Require Import ZArith Bool String List Lia.
Import ListNotations.
Require Import Grist.Model.Migrate Grist.Model.MigrateSites Grist.Model.MigrateBodies.
Require Import Grist.Proofs.Migrate_proofs Grist.Proofs.MigrateBodies_proofs.
Open Scope Z_scope.
Local Arguments zs : simpl never.

(* ---------- BulkAddRecord as a step of the general frame ---------- *)
Lemma bulk_add_step : forall t rs acols s, J s -> typed_table t s ->
  Forall (fun cv : str * list val => length (snd cv) = length rs) acols ->
  exists s', bulk_add t rs acols s = Ok s' /\ J s' /\ shape2 s s'.
Proof.
  intros t rs acols s HJ [rows [cols [sc [Hd [Hs HF]]]]] Hlen.
  unfold bulk_add. rewrite Hd, Hs.
  destruct (add_cols_ok (length rs) sc acols cols HF) as [cols' [E [K W]]]. rewrite E. cbn [bind].
  destruct (HJ _ _ _ Hd) as [Hw _].
  eexists. split; [reflexivity|]. split; [|split; [|split]].
  - intros u rows0 cols0 H. cbn [t_data t_schema] in *. rewrite lookup_dset_cases in H. destruct (seqb u t) eqn:Q.
    + injection H as <- <-. apply seqb_eq in Q. subst u. split; [|eauto].
      rewrite app_length. apply W; [exact Hw|exact Hlen].
    + apply HJ. exact H.
  - intros u. unfold rows_of. cbn [t_data]. rewrite lookup_dset_cases. destruct (seqb u t) eqn:Q; [|apply incl_refl].
    apply seqb_eq in Q. subst u. rewrite Hd. cbn [fst]. apply incl_appl, incl_refl.
  - intros u [td Hu]. unfold has_table. cbn [t_data]. rewrite lookup_dset_cases. destruct (seqb u t); eauto.
  - intros u [rows1 [cols1 [sc1 [Hd1 [Hs1 HF1]]]]]. unfold typed_table. cbn [t_data t_schema]. rewrite lookup_dset_cases.
    destruct (seqb u t) eqn:Q.
    + apply seqb_eq in Q. subst u. rewrite Hd in Hd1. injection Hd1 as <- <-. rewrite Hs in Hs1. injection Hs1 as <-.
      eexists _, cols', sc. split; [reflexivity|]. split; [exact Hs|].
      eapply (forall_fst_map (fun k => exists ci, lookup k sc = Some ci /\ ci_typed ci)); eassumption.
    + exists rows1, cols1, sc1. repeat split; assumption.
Qed.

(* the frame with BulkAddRecord too *)
Definition good3 (s : tds) (a : action) : Prop :=
  match a with
  | BulkAddRecord t rs acols => typed_table t s /\ Forall (fun cv : str * list val => length (snd cv) = length rs) acols
  | _ => good2 s a
  end.

Lemma good3_step : forall a s, J s -> good3 s a -> exists s', tds_apply a s = Ok s' /\ J s' /\ shape2 s s'.
Proof.
  intros a s HJ Hg. destruct a; try (apply good2_step; assumption).
  destruct Hg as [Hty Hlen]. cbn [tds_apply]. apply bulk_add_step; assumption.
Qed.

Lemma good3_shape : forall a s s', shape2 s s' -> good3 s a -> good3 s' a.
Proof.
  intros a s s' Hsh Hg. destruct a; try (eapply good2_shape; eassumption).
  destruct Hg as [Hty Hlen]. split; [|exact Hlen]. destruct Hsh as [_ [_ Y]]. apply Y. exact Hty.
Qed.

Lemma good3_all : forall acts s, J s -> Forall (good3 s) acts ->
  exists s', tds_apply_all acts s = Ok s' /\ J s' /\ shape2 s s'.
Proof.
  induction acts as [|a acts IH]; intros s HJ HF; cbn.
  - exists s. split; [reflexivity|]. split; [exact HJ|]. split; [intros; apply incl_refl|split; auto].
  - inversion HF as [|? ? Ha Hrest]; subst.
    destruct (good3_step a s HJ Ha) as [s1 [E1 [HJ1 Hs1]]]. rewrite E1. cbn [bind].
    destruct (IH s1 HJ1) as [s2 [E2 [HJ2 Hs2]]].
    { eapply Forall_impl; [|exact Hrest]. intros b. apply good3_shape. exact Hs1. }
    exists s2. split; [exact E2|]. split; [exact HJ2|eapply shape2_trans; eassumption].
Qed.
