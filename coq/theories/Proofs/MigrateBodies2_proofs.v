(* C25 -- more migration bodies proved total: the ones that add records or whole tables (25, 26, 30, 40, ...). *)
From Coq Require Import ZArith Bool String List Lia.
Import ListNotations.
Require Import Grist.Model.Migrate Grist.Model.MigrateSites Grist.Model.MigrateBodies.
Require Import Grist.Proofs.Migrate_proofs Grist.Proofs.MigrateBodies_proofs.
Open Scope Z_scope.
Local Arguments zs : simpl never.

(* ---------- BulkAddRecord as a step of the general frame ---------- *)
Lemma bulk_add_step : forall t rs acols s, J s -> typed_table t s ->
  Forall (fun cv : str * list val => length (snd cv) = length rs) acols ->
  exists s', bulk_add t rs acols s = Ok s' /\ J s' /\ shape2 s s'.
Proof.
  intros t rs acols s HJ [rows [cols [sc [Hd [Hs HF]]]]] Hlen.
  unfold bulk_add. rewrite Hd, Hs.
  destruct (add_cols_ok (length rs) sc acols cols HF) as [cols' [E [K W]]]. rewrite E. cbn [bind].
  destruct (HJ _ _ _ Hd) as [Hw _].
  eexists. split; [reflexivity|]. split; [|split; [|split]].
  - intros u rows0 cols0 H. cbn [t_data t_schema] in *. rewrite lookup_dset_cases in H. destruct (seqb u t) eqn:Q.
    + injection H as <- <-. apply seqb_eq in Q. subst u. split; [|eauto].
      rewrite app_length. apply W; [exact Hw|exact Hlen].
    + apply HJ. exact H.
  - intros u. unfold rows_of. cbn [t_data]. rewrite lookup_dset_cases. destruct (seqb u t) eqn:Q; [|apply incl_refl].
    apply seqb_eq in Q. subst u. rewrite Hd. cbn [fst]. apply incl_appl, incl_refl.
  - intros u [td Hu]. unfold has_table. cbn [t_data]. rewrite lookup_dset_cases. destruct (seqb u t); eauto.
  - intros u [rows1 [cols1 [sc1 [Hd1 [Hs1 HF1]]]]]. unfold typed_table. cbn [t_data t_schema]. rewrite lookup_dset_cases.
    destruct (seqb u t) eqn:Q.
    + apply seqb_eq in Q. subst u. rewrite Hd in Hd1. injection Hd1 as <- <-. rewrite Hs in Hs1. injection Hs1 as <-.
      eexists _, cols', sc. split; [reflexivity|]. split; [exact Hs|].
      eapply (forall_fst_map (fun k => exists ci, lookup k sc = Some ci /\ ci_typed ci)); eassumption.
    + exists rows1, cols1, sc1. repeat split; assumption.
Qed.

(* the frame with BulkAddRecord too *)
Definition good3 (s : tds) (a : action) : Prop :=
  match a with
  | BulkAddRecord t rs acols => typed_table t s /\ Forall (fun cv : str * list val => length (snd cv) = length rs) acols
  | _ => good2 s a
  end.

Lemma good3_step : forall a s, J s -> good3 s a -> exists s', tds_apply a s = Ok s' /\ J s' /\ shape2 s s'.
Proof.
  intros a s HJ Hg. destruct a; try (apply good2_step; assumption).
  destruct Hg as [Hty Hlen]. cbn [tds_apply]. apply bulk_add_step; assumption.
Qed.

Lemma good3_shape : forall a s s', shape2 s s' -> good3 s a -> good3 s' a.
Proof.
  intros a s s' Hsh Hg. destruct a; try (eapply good2_shape; eassumption).
  destruct Hg as [Hty Hlen]. split; [|exact Hlen]. destruct Hsh as [_ [_ Y]]. apply Y. exact Hty.
Qed.

Lemma good3_all : forall acts s, J s -> Forall (good3 s) acts ->
  exists s', tds_apply_all acts s = Ok s' /\ J s' /\ shape2 s s'.
Proof.
  induction acts as [|a acts IH]; intros s HJ HF; cbn.
  - exists s. split; [reflexivity|]. split; [exact HJ|]. split; [intros; apply incl_refl|split; auto].
  - inversion HF as [|? ? Ha Hrest]; subst.
    destruct (good3_step a s HJ Ha) as [s1 [E1 [HJ1 Hs1]]]. rewrite E1. cbn [bind].
    destruct (IH s1 HJ1) as [s2 [E2 [HJ2 Hs2]]].
    { eapply Forall_impl; [|exact Hrest]. intros b. apply good3_shape. exact Hs1. }
    exists s2. split; [exact E2|]. split; [exact HJ2|eapply shape2_trans; eassumption].
Qed.

(* ---------- sorting keeps the elements ---------- *)
Lemma insert_by_in : forall {A K} (lt : K -> K -> bool) (x : K * A) l y, In y (insert_by lt x l) -> y = x \/ In y l.
Proof.
  intros A K lt x l. induction l as [|z l IH]; intros y H; cbn in H.
  - destruct H as [<-|[]]. left. reflexivity.
  - destruct (lt (fst z) (fst x)).
    + destruct H as [<-|H]; [right; left; reflexivity|]. destruct (IH y H) as [->|Hin]; [left; reflexivity|right; right; exact Hin].
    + destruct H as [<-|H]; [left; reflexivity|right; exact H].
Qed.

Lemma sort_by_in : forall {A K} (lt : K -> K -> bool) (l : list (K * A)) x, In x (sort_by lt l) -> In x (map snd l).
Proof.
  intros A K lt l x H. unfold sort_by in H. apply in_map_iff in H. destruct H as [y [<- Hy]].
  apply in_map. induction l as [|z l IH]; cbn in Hy; [contradiction|].
  destruct (insert_by_in lt z _ y Hy) as [->|Hin]; [left; reflexivity|right; apply IH; exact Hin].
Qed.

(* ---------- migrations 26, 30, 40 ---------- *)
Section Sections.
  Variable s : tds.
  Variable vr : sec_variant.
  Variable views : list (val * record).
  Hypothesis Hsec : typed_table T_SECTIONS s.
  Hypothesis Hfld : typed_table T_FIELDS s.
  Hypothesis Htab : has_table T_TABLES s.
  Hypothesis Hcols : forallb col_pre_sec (recs T_COLUMNS s) = true.

  Lemma col_filter_ok : forall table : record,
    exists tcols, filterM (fun col => bind (fld (zs "parentId") col) (fun p =>
                                      if negb (py_eq (rid_val (fst table)) p) then Ok false
                                      else bind (fld (zs "colId") col) is_visible_column)) (recs T_COLUMNS s) = Ok tcols /\
                  incl tcols (recs T_COLUMNS s).
  Proof.
    intros table. apply filterM_ok. apply Forall_forall. intros c Hc.
    pose proof (proj1 (forallb_forall _ _) Hcols c Hc) as Q. unfold col_pre_sec, has_fld in Q. split_pre Q.
    destruct (fld (zs "parentId") c) as [p|]; [|discriminate Q]. cbn [bind].
    destruct (negb (py_eq (rid_val (fst table)) p)); [eauto|].
    destruct (fld (zs "colId") c) as [ci|]; [|discriminate P0]. destruct ci; try discriminate P0. cbn. eauto.
  Qed.

  Lemma keyed_ok : forall tcols, incl tcols (recs T_COLUMNS s) ->
    exists keyed, mapM (fun col => bind (fld (zs "parentPos") col) (fun pp => bind (val_num pp) (fun k => Ok (k, (col, pp))))) tcols = Ok keyed.
  Proof.
    intros tcols I. destruct (mapM_ok (fun col => bind (fld (zs "parentPos") col) (fun pp => bind (val_num pp) (fun k => Ok (k, (col, pp))))) tcols) as [k [E _]]; [|eauto].
    apply Forall_forall. intros c Hc. pose proof (proj1 (forallb_forall _ _) Hcols c (I c Hc)) as Q.
    unfold col_pre_sec in Q. split_pre Q.
    destruct (fld (zs "parentPos") c) as [pp|]; [|discriminate P]. cbn [bind]. destruct (val_num pp); [|discriminate P]. cbn. eauto.
  Qed.

  Lemma sec_table_ok : forall st table,
    In table (recs T_TABLES s) -> (exists w, sv_wanted vr views table = Ok w) -> Forall (good3 s) (snd st) ->
    exists st', sec_table vr views (recs T_COLUMNS s) st table = Ok st' /\ Forall (good3 s) (snd st').
  Proof.
    intros [new_id acc] table Hin [w Hw] Hacc. unfold sec_table. rewrite Hw. cbn [bind].
    destruct w as [title|]; [|eexists; split; [reflexivity|exact Hacc]].
    destruct (col_filter_ok table) as [tcols [-> I]]. cbn [bind].
    destruct (keyed_ok tcols I) as [keyed ->]. cbn [bind].
    eexists. split; [reflexivity|]. cbn [snd]. apply Forall_app. split; [exact Hacc|].
    constructor; [exact Hsec|]. constructor; [split; [exact Htab|apply recs_ids_in_rows; exact Hin]|].
    constructor; [|constructor]. split; [exact Hfld|].
    repeat (constructor; [cbn [snd]; rewrite !map_length; reflexivity|]). constructor.
  Qed.

  Lemma sec_loop_ok : forall ts st,
    (forall t, In t ts -> In t (recs T_TABLES s)) ->
    Forall (fun t => exists w, sv_wanted vr views t = Ok w) ts -> Forall (good3 s) (snd st) ->
    exists st', sec_loop vr views (recs T_COLUMNS s) ts st = Ok st' /\ Forall (good3 s) (snd st').
  Proof.
    induction ts as [|t ts IH]; intros st Hsub Hw Hacc; cbn [sec_loop]; [eauto|].
    inversion Hw as [|? ? Hwt Hwrest]; subst. destruct (sec_table_ok st t (Hsub t (or_introl eq_refl)) Hwt Hacc) as [st1 [-> Hst1]].
    cbn [bind]. apply IH; auto. intros t' Ht'. apply Hsub. right. exact Ht'.
  Qed.
End Sections.

Ltac step_ok2 tac :=
  match goal with |- exists acts s', bind ?A _ = _ /\ _ =>
    let H := fresh "Hs" in assert (H : exists r, A = Ok r) by tac; destruct H as [? ->]; cbn [bind] end.

Lemma sections_total : forall s vr need_views,
  pre_sec_common s = true -> (need_views = true -> has_table T_VIEWS s) ->
  Forall (good3 s) (sv_pre vr) ->
  Forall (fun t => exists w, sv_wanted vr (fold_left (fun acc v => pd_set (rid_val (fst v)) v acc)
                                             (if need_views then recs T_VIEWS s else []) []) t = Ok w) (recs T_TABLES s) ->
  exists acts s', sections_migration vr need_views s = Ok acts /\ tds_apply_all acts s = Ok s' /\ J s'.
Proof.
  intros s vr need_views H Hv Hpre Hw. unfold pre_sec_common in H. split_pre H.
  pose proof (J_b_sound _ H) as HJ. pose proof (has_table_b_sound _ _ P5) as Ht. pose proof (has_table_b_sound _ _ P4) as Hc.
  pose proof (typed_table_b_sound _ _ P3) as Hsec. pose proof (typed_table_b_sound _ _ P2) as Hfld.
  unfold sections_migration. rewrite (table_records_ok _ _ Ht), (table_records_ok _ _ Hc). cbn [bind].
  assert (Hvr : (if need_views then table_records T_VIEWS s else Ok []) = Ok (if need_views then recs T_VIEWS s else [])).
  { destruct need_views; [apply table_records_ok; auto|reflexivity]. }
  rewrite Hvr. cbn [bind]. cbv zeta.
  destruct (next_id_ok _ P1) as [nid ->]. cbn [bind].
  match goal with |- exists acts s', bind ?A _ = _ /\ _ =>
    assert (Hk : exists keyed, A = Ok keyed /\ forall t, In t (map snd keyed) -> In t (recs T_TABLES s)) end.
  { assert (G : forall l, (forall t, In t l -> In t (recs T_TABLES s)) ->
                exists keyed, mapM (fun t : record => bind (fld (zs "tableId") t) (fun n => bind (as_str TypeErr n) (fun n0 => Ok (n0, t)))) l = Ok keyed /\
                              forall t, In t (map snd keyed) -> In t (recs T_TABLES s)).
    { induction l as [|t l IH]; intros Hsub; cbn [mapM]; [exists []; split; [reflexivity|intros ? []]|].
      pose proof (proj1 (forallb_forall _ _) P0 t (Hsub t (or_introl eq_refl))) as Q. cbv beta in Q.
      destruct (fld (zs "tableId") t) as [n|]; [|discriminate Q]. destruct n; try discriminate Q. cbn [bind as_str].
      destruct IH as [k [-> Hk]]; [intros; apply Hsub; right; assumption|]. cbn [bind].
      eexists. split; [reflexivity|]. intros t0 [<-|Hin]; [apply Hsub; left; reflexivity|apply Hk; exact Hin]. }
    apply G. auto. }
  destruct Hk as [keyed [-> Hkeyed]]. cbn [bind].
  match goal with |- exists acts s', bind ?A _ = _ /\ _ =>
    assert (Hl : exists st, A = Ok st /\ Forall (good3 s) (snd st)) end.
  { apply sec_loop_ok; auto.
    - intros t Hin. apply Hkeyed. eapply sort_by_in. exact Hin.
    - apply Forall_forall. intros t Hin. rewrite Forall_forall in Hw. apply Hw. apply Hkeyed. eapply sort_by_in. exact Hin. }
  destruct Hl as [st [-> Hacc]]. cbn [bind].
  destruct (good3_all (snd st) s HJ Hacc) as [s' [E [HJ' _]]]. eauto.
Qed.

Lemma pre26_sound : forall s, pre26 s = true -> exists acts s', m26 s = Ok acts /\ tds_apply_all acts s = Ok s' /\ J s'.
Proof.
  intros s H. unfold pre26 in H. split_pre H. pose proof H as Hc. unfold pre_sec_common in Hc. split_pre Hc.
  apply sections_total; [exact H|intros _; apply has_table_b_sound; exact P1| |].
  - cbn [v26 sv_pre]. constructor; [|constructor]. cbn [good3 good2 good add_column].
    split; [apply has_table_b_sound; exact P8|apply mkci_typed].
  - apply Forall_forall. intros t Hin. cbn [v26 sv_wanted].
    pose proof (proj1 (forallb_forall _ _) P0 t Hin) as Q. cbv beta in Q.
    destruct (fld (zs "primaryViewId") t) as [pv|]; [|discriminate Q]. cbn [bind]. unfold hash_key. rewrite Q. cbn [bind].
    match goal with |- context [match ?X with Some _ => _ | None => _ end] => destruct X as [ov|] eqn:G end; [|eauto].
    destruct (val_truthy pv); [|eauto].
    assert (Hn : has_fld (zs "name") ov = true).
    { eapply (pd_get_forall (fun r => has_fld (zs "name") r = true)); [|exact G].
      apply (by_id_forall (fun r => has_fld (zs "name") r = true)); [|constructor]. apply Forall_forall. intros v Hv2. exact (proj1 (forallb_forall _ _) P v Hv2). }
    unfold has_fld in Hn. destruct (fld (zs "name") ov); [|discriminate Hn]. cbn. eauto.
Qed.

Lemma pre30_sound : forall s, pre30 s = true -> exists acts s', m30 s = Ok acts /\ tds_apply_all acts s = Ok s' /\ J s'.
Proof.
  intros s H. unfold pre30 in H. split_pre H.
  apply sections_total; [exact H|discriminate|constructor|].
  apply Forall_forall. intros t Hin. cbn [v30 sv_wanted].
  pose proof (proj1 (forallb_forall _ _) P t Hin) as Q. cbv beta in Q. unfold has_fld in Q.
  destruct (fld (zs "summarySourceTable") t); [|discriminate Q]. cbn. eauto.
Qed.

Lemma pre40_sound : forall s, pre40 s = true -> exists acts s', m40 s = Ok acts /\ tds_apply_all acts s = Ok s' /\ J s'.
Proof.
  intros s H. unfold pre40 in H. split_pre H. pose proof H as Hc. unfold pre_sec_common in Hc. split_pre Hc.
  apply sections_total; [exact H|discriminate| |].
  - cbn [v40 sv_pre]. constructor; [|constructor]. cbn [good3 good2 good add_column].
    split; [apply has_table_b_sound; exact P6|apply mkci_typed].
  - apply Forall_forall. intros t Hin. cbn [v40 sv_wanted].
    pose proof (proj1 (forallb_forall _ _) P t Hin) as Q. cbv beta in Q. apply andb_prop in Q. destruct Q as [Q1 Q2]. unfold has_fld in Q1, Q2.
    destruct (fld (zs "rawViewSectionRef") t) as [raw|]; [|discriminate Q1]. cbn [bind].
    destruct (negb (val_truthy raw)); [eauto|].
    destruct (fld (zs "summarySourceTable") t); [|discriminate Q2]. cbn. eauto.
Qed.

(* ---------- a freshly added table is fully typed ---------- *)
Lemma in_lookup_some : forall {V} k (v : V) m, In (k, v) m -> exists v', lookup k m = Some v'.
Proof.
  intros V k v m. induction m as [|[k' x] m IH]; intros H; [contradiction|]. cbn.
  destruct (seqb k k') eqn:Q; [eauto|]. destruct H as [E|H]; [injection E as E1 E2; subst k'; rewrite seqb_refl in Q; discriminate Q|apply IH; exact H].
Qed.

Lemma schema_of_cols_typed : forall cols acc m,
  forallb ci_wf_b cols = true -> Forall (fun kv : str * colinfo => ci_typed (snd kv)) acc ->
  schema_of_cols cols acc = Ok m -> Forall (fun kv : str * colinfo => ci_typed (snd kv)) m.
Proof.
  induction cols as [|ci cols IH]; intros acc m Hwf Hacc H; cbn in H; [injection H as <-; exact Hacc|].
  cbn in Hwf. apply andb_prop in Hwf. destruct Hwf as [Hci Hrest]. unfold ci_wf_b in Hci. apply andb_prop in Hci. destruct Hci as [Hty _].
  destruct (lookup (zs "id") ci) as [v|]; [|discriminate]. destruct v; try discriminate.
  eapply IH; [exact Hrest| |exact H]. apply forall_dset; [exact Hacc|]. intros k'. cbn [snd]. apply ci_typed_b_sound. exact Hty.
Qed.

Lemma add_table_typed : forall t cols s s', forallb ci_wf_b cols = true ->
  tds_apply (AddTable t cols) s = Ok s' -> typed_table t s'.
Proof.
  intros t cols s s' Hwf H. cbn [tds_apply schema_step data_step] in H.
  destruct (schema_of_cols cols []) as [m|] eqn:Em; cbn [bind] in H; [|discriminate]. injection H as <-.
  unfold typed_table. cbn [t_data t_schema]. rewrite !lookup_dset_same.
  eexists _, _, m. split; [reflexivity|]. split; [reflexivity|].
  pose proof (schema_of_cols_typed cols [] m Hwf (Forall_nil _) Em) as Hty.
  apply Forall_forall. intros cv Hin. apply in_map_iff in Hin. destruct Hin as [[k ci] [<- Hk]]. cbn [fst].
  destruct (in_lookup_some k ci m Hk) as [ci' Hl]. exists ci'. split; [exact Hl|].
  rewrite Forall_forall in Hty. exact (Hty _ (lookup_in _ _ _ Hl)).
Qed.

(* ---------- migration 25 ---------- *)
Lemma pre25_sound : forall s, pre25 s = true -> exists acts s', m25 s = Ok acts /\ tds_apply_all acts s = Ok s' /\ J s'.
Proof.
  intros s H. unfold pre25 in H. split_pre H. pose proof (J_b_sound _ H) as HJ. pose proof (has_table_b_sound _ _ P2) as Hf.
  pose proof (col_ok_b_sound _ _ _ _ P1) as C1. pose proof (col_ok_b_sound _ _ _ _ P0) as C2. pose proof (col_ok_b_sound _ _ _ _ P) as C3.
  unfold m25. rewrite (table_records_ok _ _ Hf). cbn [bind].
  match goal with |- exists acts s', bind ?A _ = _ /\ _ => assert (Hr : exists rows, A = Ok rows) end.
  { apply mapM_some. unfold col_ok in *. rewrite Forall_forall in *. intros f Hin.
    destruct (C1 f Hin) as [fl [-> _]]. cbn [bind]. destruct (negb (val_truthy fl)); [eauto|].
    destruct (C2 f Hin) as [cr [-> _]]. destruct (C3 f Hin) as [p [-> _]]. cbn. eauto. }
  destruct Hr as [rows ->]. cbn [bind]. cbv zeta.
  match goal with |- context [AddTable T_FILTERS ?cols] =>
    destruct (add_table_step T_FILTERS cols s HJ eq_refl) as [s1 [E1 [HJ1 _]]];
    pose proof (add_table_typed T_FILTERS cols s s1 eq_refl E1) as Hty1 end.
  destruct (concat rows) as [|r0 rest].
  - eexists. exists s1. split; [reflexivity|]. cbn [tds_apply_all]. rewrite E1. cbn [bind]. auto.
  - edestruct (bulk_add_step T_FILTERS) as [s2 [E2 [HJ2 _]]]; [exact HJ1|exact Hty1| |].
    2: { eexists. exists s2. split; [reflexivity|]. cbn [tds_apply_all]. rewrite E1. cbn [bind tds_apply]. rewrite E2. cbn [bind]. auto. }
    repeat (constructor; [cbn [snd]; rewrite !map_length; reflexivity|]). constructor.
Qed.

(* ---------- migration 28: AddColumn, then ModifyColumn on columns the schema has ---------- *)
Definition modifies_known (s : tds) (a : action) : Prop :=
  exists t c ci, a = ModifyColumn t c ci /\ schema_has t c s = true.

Lemma has_dset : forall {V} u k (v : V) m, has u m = true -> has u (dset k v m) = true.
Proof.
  intros V u k v m H. unfold has in *. rewrite lookup_dset_cases. destruct (seqb u k); [reflexivity|exact H].
Qed.

Lemma modify_step : forall t c ci s, J s -> schema_has t c s = true ->
  exists s', tds_apply (ModifyColumn t c ci) s = Ok s' /\ J s' /\
             (forall t' c', schema_has t' c' s = true -> schema_has t' c' s' = true).
Proof.
  intros t c ci s HJ H. unfold schema_has in H.
  destruct (lookup t (t_schema s)) as [cols|] eqn:Es; [|discriminate]. unfold has in H.
  destruct (lookup c cols) as [old|] eqn:Ec; [|discriminate].
  cbn [tds_apply schema_step data_step]. rewrite Es, Ec. cbn [bind].
  eexists. split; [reflexivity|]. split.
  - intros u rows cols0 Hu. cbn [t_data t_schema] in *. destruct (HJ _ _ _ Hu) as [Hw [sc Hsc]]. split; [exact Hw|].
    rewrite lookup_dset_cases. destruct (seqb u t); eauto.
  - intros t' c' H'. unfold schema_has in *. cbn [t_schema]. rewrite lookup_dset_cases. destruct (seqb t' t) eqn:Q.
    + apply seqb_eq in Q. subst t'. rewrite Es in H'. apply has_dset. exact H'.
    + exact H'.
Qed.

Lemma modify_all : forall acts s, J s -> Forall (modifies_known s) acts -> exists s', tds_apply_all acts s = Ok s' /\ J s'.
Proof.
  induction acts as [|a acts IH]; intros s HJ HF; cbn [tds_apply_all]; [eauto|].
  inversion HF as [|? ? [t [c [ci [-> Hs]]]] Hrest]; subst.
  destruct (modify_step t c ci s HJ Hs) as [s1 [E1 [HJ1 Hp]]]. rewrite E1. cbn [bind].
  apply IH; [exact HJ1|]. eapply Forall_impl; [|exact Hrest]. cbn beta. intros a [t' [c' [ci' [-> Hs']]]].
  exists t', c', ci'. split; [reflexivity|apply Hp; exact Hs'].
Qed.

Lemma add_column_schema_has : forall t c ci s s' t' c',
  tds_apply (AddColumn t c ci) s = Ok s' -> schema_has t' c' s = true -> schema_has t' c' s' = true.
Proof.
  intros t c ci s s' t' c' H Hs. cbn [tds_apply schema_step data_step] in H.
  destruct (lookup t (t_schema s)) as [sc|] eqn:Es; [|discriminate].
  apply bind_ok in H. destruct H as [sch' [H1 H]]. apply bind_ok in H1. destruct H1 as [d [_ H1]]. injection H1 as <-.
  apply bind_ok in H. destruct H as [d' [_ H]]. injection H as <-.
  unfold schema_has in *. cbn [t_schema]. rewrite lookup_dset_cases. destruct (seqb t' t) eqn:Q; [|exact Hs].
  apply seqb_eq in Q. subst t'. rewrite Es in Hs. apply has_dset. exact Hs.
Qed.

Lemma pre28_sound : forall s, pre28 s = true -> exists acts s', m28 s = Ok acts /\ tds_apply_all acts s = Ok s' /\ J s'.
Proof.
  intros s H. unfold pre28 in H. split_pre H. pose proof (J_b_sound _ H) as HJ.
  pose proof (has_table_b_sound _ _ P2) as Ha. pose proof (has_table_b_sound _ _ P1) as Ht. pose proof (has_table_b_sound _ _ P0) as Hc.
  unfold m28. rewrite (table_records_ok _ _ Ht), (table_records_ok _ _ Hc). cbn [bind].
  match goal with |- exists acts s', bind ?A _ = _ /\ _ =>
    assert (Hl : exists l, A = Ok l /\ Forall (modifies_known s) (concat l)) end.
  { assert (Hpair : forall t c, pair_pre28 s t c = true -> exists r, m28_pair t c = Ok r /\ Forall (modifies_known s) r).
    { intros t c Q. unfold pair_pre28 in Q. unfold m28_pair.
      destruct (fld (zs "parentId") c) as [p|]; [|discriminate Q]. cbn [bind].
      destruct (negb (py_eq (rid_val (fst t)) p)); [exists []; split; [reflexivity|constructor]|].
      destruct (fld (zs "type") c) as [ty|]; [|discriminate Q]. cbn [bind].
      destruct (negb (py_eq ty (VStr (zs "Attachments")))); [exists []; split; [reflexivity|constructor]|].
      destruct (fld (zs "tableId") t) as [tn|]; [|discriminate Q]. destruct tn; try discriminate Q.
      destruct (fld (zs "colId") c) as [cn|]; [|discriminate Q]. destruct cn; try discriminate Q. cbn [bind as_str].
      eexists. split; [reflexivity|]. constructor; [|constructor]. eexists _, _, _. split; [reflexivity|exact Q]. }
    assert (G : forall ts, forallb (fun t => forallb (pair_pre28 s t) (recs T_COLUMNS s)) ts = true ->
                exists l, mapM (fun t => bind (mapM (m28_pair t) (recs T_COLUMNS s)) (fun l0 => Ok (concat l0))) ts = Ok l /\
                          Forall (modifies_known s) (concat l)).
    { induction ts as [|t ts IH]; intros Hts; cbn [mapM]; [exists []; split; [reflexivity|constructor]|].
      cbn in Hts. apply andb_prop in Hts. destruct Hts as [Hrow Hrest].
      assert (R : forall cs, forallb (pair_pre28 s t) cs = true ->
                  exists l0, mapM (m28_pair t) cs = Ok l0 /\ Forall (modifies_known s) (concat l0)).
      { induction cs as [|c cs IHc]; intros Hcs; cbn [mapM]; [exists []; split; [reflexivity|constructor]|].
        cbn in Hcs. apply andb_prop in Hcs. destruct Hcs as [Hc1 Hc2].
        destruct (Hpair t c Hc1) as [r [-> Hr]]. cbn [bind]. destruct (IHc Hc2) as [l0 [-> Hl0]]. cbn [bind].
        eexists. split; [reflexivity|]. cbn. apply Forall_app. split; assumption. }
      destruct (R _ Hrow) as [l0 [-> Hl0]]. cbn [bind]. destruct (IH Hrest) as [l [-> Hl]]. cbn [bind].
      eexists. split; [reflexivity|]. cbn. apply Forall_app. split; assumption. }
    apply G. exact P. }
  destruct Hl as [l [-> Hmods]]. cbn [bind].
  destruct (add_column_good T_ATTACHMENTS (zs "timeDeleted") (mkci (zs "timeDeleted") (zs "DateTime") false []) s HJ Ha (mkci_typed _ _ _ _))
    as [s1 [E1 [HJ1 _]]].
  destruct (modify_all (concat l) s1 HJ1) as [s2 [E2 HJ2]].
  { eapply Forall_impl; [|exact Hmods]. cbn beta. intros a [t [c [ci [-> Hs]]]]. exists t, c, ci. split; [reflexivity|].
    eapply add_column_schema_has; [exact E1|exact Hs]. }
  eexists. exists s2. split; [reflexivity|]. cbn [tds_apply_all]. unfold add_column. rewrite E1. cbn [bind]. auto.
Qed.
