(* K1, stage 3: a doc action leaves the cells it does not touch alone (frame), and so do its undo actions. *)
From Coq Require Import ZArith List Bool Lia.
Import ListNotations.
Require Import Grist.Model.ActionLog Grist.Proofs.ActionLog_proofs Grist.Proofs.ActionLog_calc Grist.Proofs.ActionLog_cells.
Open Scope Z_scope.

Ltac name_cases a b :=
  let E := fresh "E" in
  destruct (name_eqb a b) eqn:E;
  [apply name_eqb_eq in E | pose proof (proj1 (name_eqb_neq _ _) E)].

Section Frame.
Variable O : ValOps.
Hypothesis L : ValLaws O.
Notation V := (V O).
Notation state := (state O).
Notation table := (table O).
Notation column := (column O).
Notation action := (action O).
Notation summary := (summary O).

(* the cell (t, c, r): the info of its column and its value, if the table, the column and the row exist *)
Definition cellv (s : state) (t c : name) (r : Z) : option (colinfo * V) :=
  match find_table O s t with
  | Some T => match find_col O (t_cols O T) c with
              | Some C => if zmem r (t_rows O T) then Some (c_info O C, col_get O C r) else None
              | None => None
              end
  | None => None
  end.

(* the cells an action may write, create or destroy (an over-approximation that does not look at the document) *)
Definition touch (a : action) (t c : name) (r : Z) : Prop :=
  match a with
  | BulkAddRecord _ t' rows _ => t = t' /\ In r rows
  | BulkRemoveRecord _ t' rows => t = t' /\ In r rows
  | BulkUpdateRecord _ t' rows cols => t = t' /\ In r rows /\ In c (map fst cols)
  | ReplaceTableData _ t' _ _ => t = t'
  | AddColumn _ t' c' _ => t = t' /\ c = c'
  | RemoveColumn _ t' c' => t = t' /\ c = c'
  | RenameColumn _ t' old new => t = t' /\ (c = old \/ c = new)
  | ModifyColumn _ t' c' _ => t = t' /\ c = c'
  | AddTable _ t' _ => t = t'
  | RemoveTable _ t' => t = t'
  | RenameTable _ old new => t = old \/ t = new
  end.

Definition is_rename (a : action) : bool :=
  match a with RenameColumn _ _ _ _ => true | RenameTable _ _ _ => true | _ => false end.

Lemma zmem_iff : forall r l1 l2, (In r l1 <-> In r l2) -> zmem r l1 = zmem r l2.
Proof.
  intros r l1 l2 H. destruct (zmem r l1) eqn:E1, (zmem r l2) eqn:E2; try reflexivity.
  - apply zmem_In in E1. apply H in E1. apply zmem_In in E1. congruence.
  - apply zmem_In in E2. apply H in E2. apply zmem_In in E2. congruence.
Qed.

Lemma cellv_put_other : forall s t0 T' t c r, t_id O T' = t0 -> t <> t0 -> cellv (put_table O s t0 T') t c r = cellv s t c r.
Proof.
  intros s t0 T' t c r Hid Hne. unfold cellv. rewrite (find_put_table O) by exact Hid.
  assert (name_eqb t t0 = false) as -> by (apply name_eqb_neq; exact Hne). reflexivity.
Qed.

Lemma cellv_put_same : forall s t T T' c r, find_table O s t = Some T -> t_id O T' = t ->
  cellv (put_table O s t T') t c r =
  match find_col O (t_cols O T') c with
  | Some C => if zmem r (t_rows O T') then Some (c_info O C, col_get O C r) else None
  | None => None
  end.
Proof.
  intros s t T T' c r Hf Hid. unfold cellv. rewrite (find_put_table O) by exact Hid. rewrite name_eqb_refl, Hf. reflexivity.
Qed.

Lemma frame : forall a s s' o t c r,
  apply_doc O a s = Ok (s', o) -> is_rename a = false -> ~ touch a t c r -> cellv s' t c r = cellv s t c r.
Proof.
  intros a s s' o t c r H Hren Hnt. destruct a; try discriminate; unfold apply_doc in H; cbn [touch] in Hnt.
  - (* BulkAddRecord *)
    destruct (find_table O s t0) as [T|] eqn:Ef; [|discriminate].
    destruct (colvals_ok O rows cols) eqn:Eok; cbn [negb orb] in H; [|discriminate].
    destruct (match rows with [] => true | _ => false end); [discriminate|].
    destruct (negb (none_in rows (t_rows O T))); [discriminate|].
    destruct (add_records O T rows cols) as [T'|] eqn:Ea; cbn in H; [|discriminate]. inversion H; subst s' o; clear H.
    assert (Hnd : nodup_names (map fst cols) = true).
    { unfold colvals_ok in Eok. apply andb_true_iff in Eok. destruct Eok as [Eok _]. apply andb_true_iff in Eok. apply Eok. }
    destruct (add_records_spec O _ _ _ _ Hnd Ea) as [Hid [Hrows [_ Hcols]]].
    pose proof (find_table_id O _ _ _ Ef) as HidT.
    name_cases t t0; [|apply cellv_put_other; congruence].
    subst t. assert (Hr : ~ In r rows) by tauto.
    rewrite (cellv_put_same _ _ T) by congruence. unfold cellv. rewrite Ef. specialize (Hcols c).
    destruct (find_col O (t_cols O T) c) as [C|]; [|rewrite Hcols; reflexivity].
    destruct Hcols as [C' [Hf' [Hi' Hg']]]. rewrite Hf', Hi', Hg'.
    assert (zmem r (t_rows O T') = zmem r (t_rows O T)) as -> by (apply zmem_iff; rewrite Hrows; tauto).
    unfold cell_after, add_base. assert (zmem r rows = false) as Hz by (apply zmem_false; exact Hr).
    destruct (cols_get O cols (c_id O C)); [rewrite (set_val_notin O) by exact Hr|]; rewrite Hz; reflexivity.
  - (* BulkRemoveRecord *)
    destruct (find_table O s t0) as [T|] eqn:Ef; [|discriminate].
    pose proof (find_table_id O _ _ _ Ef) as HidT.
    remember (filter (fun r => zmem r (t_rows O T)) rows) as rows' eqn:Er.
    destruct (list_eq_dec Z.eq_dec rows' []) as [Hnil|Hne].
    + rewrite Hnil in H. inversion H; subst. reflexivity.
    + rewrite (match_nonnil _ _ rows' _ _ Hne) in H. inversion H; subst s' o; clear H.
      name_cases t t0; [|apply cellv_put_other; [exact HidT | congruence]].
      subst t. assert (Hr : ~ In r rows) by tauto.
      assert (Hz : zmem r rows' = false).
      { apply zmem_false. intro Hin. rewrite Er in Hin. apply filter_In in Hin. tauto. }
      rewrite (cellv_put_same _ _ T) by (try exact Ef; exact HidT). unfold cellv. rewrite Ef. cbn [t_cols t_rows].
      rewrite (find_map_col O) by (intro; apply (col_unset_many_id O)).
      destruct (find_col O (t_cols O T) c) as [C|]; cbn [option_map]; [|reflexivity].
      rewrite (col_unset_many_info O), (col_get_unset_many O), Hz.
      assert (zmem r (filter (fun r0 => negb (zmem r0 rows')) (t_rows O T)) = zmem r (t_rows O T)) as ->.
      { apply zmem_iff. rewrite filter_In, Hz. cbn. tauto. }
      reflexivity.
  - (* BulkUpdateRecord *)
    destruct (find_table O s t0) as [T|] eqn:Ef; [|discriminate].
    pose proof (find_table_id O _ _ _ Ef) as HidT.
    destruct (colvals_ok O rows cols) eqn:Eok; cbn [negb orb] in H; [|discriminate].
    destruct (match rows with [] => true | _ => false end); [discriminate|].
    destruct (negb (all_in rows (t_rows O T))); [discriminate|].
    destruct (old_values O (t_cols O T) rows cols) as [ov|]; cbn in H; [|discriminate].
    destruct (set_columns O (t_cols O T) rows cols) as [cs|] eqn:Ecs; cbn in H; [|discriminate]. inversion H; subst s' o; clear H.
    assert (Hnd : nodup_names (map fst cols) = true).
    { unfold colvals_ok in Eok. apply andb_true_iff in Eok. destruct Eok as [Eok _]. apply andb_true_iff in Eok. apply Eok. }
    destruct (set_columns_spec O _ _ _ _ Hnd Ecs) as [_ Hcols].
    name_cases t t0; [|apply cellv_put_other; [exact HidT | congruence]].
    subst t. rewrite (cellv_put_same _ _ T) by (try exact Ef; exact HidT). unfold cellv. rewrite Ef. cbn [t_cols t_rows].
    specialize (Hcols c). destruct (find_col O (t_cols O T) c) as [C|] eqn:Ec; [|rewrite Hcols; reflexivity].
    destruct Hcols as [C' [Hf' [Hi' Hg']]]. rewrite Hf', Hi', Hg'. unfold cell_after.
    rewrite (find_col_id O _ _ _ Ec).
    destruct (cols_get O cols c) as [vals|] eqn:Eg; [|reflexivity].
    assert (Hin : In c (map fst cols)).
    { destruct (in_dec name_eq_dec c (map fst cols)) as [Hi|Hi]; [exact Hi|]. apply (cols_get_none O) in Hi. congruence. }
    assert (Hr : ~ In r rows) by tauto. rewrite (set_val_notin O) by exact Hr. reflexivity.
  - (* ReplaceTableData *)
    destruct (find_table O s t0) as [T|] eqn:Ef; [|discriminate].
    pose proof (find_table_id O _ _ _ Ef) as HidT.
    destruct (negb (colvals_ok O rows cols)); [discriminate|].
    match type of H with context [add_records O ?T0 rows ?cs] => destruct (add_records O T0 rows cs) as [T'|] eqn:Ea end; cbn in H; [|discriminate].
    inversion H; subst s' o; clear H.
    apply cellv_put_other; [|exact Hnt].
    unfold add_records in Ea. match type of Ea with context [set_columns O ?a ?b ?c] => destruct (set_columns O a b c) end; cbn in Ea; [|discriminate].
    inversion Ea; subst T'. cbn. exact HidT.
  - (* AddColumn *)
    destruct (find_table O s t0) as [T|] eqn:Ef; [|discriminate].
    pose proof (find_table_id O _ _ _ Ef) as HidT.
    destruct (has_column O T c0) eqn:Eh; [discriminate|]. inversion H; subst s' o; clear H.
    name_cases t t0; [|apply cellv_put_other; [exact HidT | congruence]].
    subst t. assert (Hc : c <> c0) by tauto.
    rewrite (cellv_put_same _ _ T) by (try exact Ef; exact HidT). unfold cellv. rewrite Ef. cbn [t_cols t_rows].
    rewrite (find_app_col O). cbn [c_id]. assert (name_eqb c c0 = false) as -> by (apply name_eqb_neq; exact Hc).
    destruct (find_col O (t_cols O T) c); reflexivity.
  - (* RemoveColumn *)
    destruct (find_table O s t0) as [T|] eqn:Ef; [|discriminate].
    pose proof (find_table_id O _ _ _ Ef) as HidT.
    destruct (find_col O (t_cols O T) c0) as [C0|] eqn:Ec0; [|discriminate].
    assert (Hs' : s' = put_table O s t0 (mkTab O (t_id O T) (t_rows O T) (drop_col O (t_cols O T) c0))).
    { match type of H with context [match ?l with [] => _ | _ => _ end] => destruct l end;
        [|destruct (ci_isformula (c_info O C0))]; inversion H; reflexivity. }
    subst s'. clear H.
    name_cases t t0; [|apply cellv_put_other; [exact HidT | congruence]].
    subst t. assert (Hc : c <> c0) by tauto.
    rewrite (cellv_put_same _ _ T) by (try exact Ef; exact HidT). unfold cellv. rewrite Ef. cbn [t_cols t_rows].
    rewrite (find_drop_col O). assert (name_eqb c c0 = false) as -> by (apply name_eqb_neq; exact Hc). reflexivity.
  - (* ModifyColumn *)
    destruct (find_table O s t0) as [T|] eqn:Ef; [|discriminate].
    pose proof (find_table_id O _ _ _ Ef) as HidT.
    destruct (find_col O (t_cols O T) c0) as [C0|] eqn:Ec0; [|discriminate].
    destruct (colinfo_eqb (apply_modinfo m (c_info O C0)) (c_info O C0)); inversion H; subst s' o; clear H; [reflexivity|].
    name_cases t t0; [|apply cellv_put_other; [exact HidT | congruence]].
    subst t. assert (Hc : c <> c0) by tauto.
    rewrite (cellv_put_same _ _ T) by (try exact Ef; exact HidT). unfold cellv. rewrite Ef. cbn [t_cols t_rows].
    rewrite (find_app_col O), (find_drop_col O), (col_set_many_id O). cbn [c_id].
    assert (name_eqb c c0 = false) as -> by (apply name_eqb_neq; exact Hc).
    destruct (find_col O (t_cols O T) c); reflexivity.
  - (* AddTable *)
    destruct (find_table O s t0) as [T|] eqn:Ef; [discriminate|].
    destruct (_ || _); [discriminate|]. inversion H; subst s' o; clear H.
    unfold cellv. rewrite (find_app_table O). cbn [t_id].
    assert (name_eqb t t0 = false) as -> by (apply name_eqb_neq; exact Hnt).
    destruct (find_table O s t); reflexivity.
  - (* RemoveTable *)
    destruct (find_table O s t0) as [T|] eqn:Ef; [|discriminate].
    assert (Hs' : s' = drop_table O s t0) by (destruct (t_rows O T); inversion H; reflexivity).
    subst s'. unfold cellv. rewrite (find_drop_table O).
    assert (name_eqb t t0 = false) as -> by (apply name_eqb_neq; exact Hnt). reflexivity.
Qed.

Lemma replay_frame : forall acts s s' t c r,
  replay_doc O acts s = Ok s' ->
  (forall x, In x acts -> is_rename x = false /\ ~ touch x t c r) ->
  cellv s' t c r = cellv s t c r.
Proof.
  induction acts as [|a rest IH]; intros s s' t c r H Hall; cbn in H.
  - inversion H; subst. reflexivity.
  - destruct (apply_doc O a s) as [[s1 o1]|] eqn:Ea; cbn in H; [|discriminate].
    destruct (Hall a (or_introl eq_refl)) as [Hr Ht].
    rewrite (IH _ _ _ _ _ H) by (intros x Hx; apply Hall; right; exact Hx).
    eapply frame; eassumption.
Qed.

(* the undo actions of a doc action touch no more than the action itself, and are no renames *)
Lemma undo_touch : forall a s s' u ops,
  apply_doc O a s = Ok (s', (u, ops)) -> is_rename a = false ->
  forall x, In x u -> is_rename x = false /\ forall t c r, touch x t c r -> touch a t c r.
Proof.
  intros a s s' u ops H Hren x Hx. destruct a; try discriminate; unfold apply_doc in H.
  - destruct (find_table O s t) as [T|]; [|discriminate]. destruct (_ || _); [discriminate|].
    destruct (negb _); [discriminate|]. destruct (add_records O T rows cols); cbn in H; [|discriminate].
    inversion H; subst s' u ops. destruct Hx as [<-|[]]. split; [reflexivity|]. intros t0 c0 r0 Ht. exact Ht.
  - destruct (find_table O s t) as [T|]; [|discriminate].
    remember (filter (fun r => zmem r (t_rows O T)) rows) as rows' eqn:Er.
    destruct (list_eq_dec Z.eq_dec rows' []) as [Hnil|Hne].
    + rewrite Hnil in H. inversion H; subst. destruct Hx.
    + rewrite (match_nonnil _ _ rows' _ _ Hne) in H. inversion H; subst s' u ops. destruct Hx as [<-|[]].
      split; [reflexivity|]. intros t0 c0 r0 [Ht Hr]. split; [exact Ht|]. rewrite Er in Hr. apply filter_In in Hr. apply Hr.
  - destruct (find_table O s t) as [T|]; [|discriminate]. destruct (_ || _); [discriminate|].
    destruct (negb _); [discriminate|]. destruct (old_values O (t_cols O T) rows cols) as [ov|] eqn:Eo; cbn in H; [|discriminate].
    destruct (set_columns O (t_cols O T) rows cols); cbn in H; [|discriminate].
    inversion H; subst s' u ops. destruct Hx as [<-|[]]. split; [reflexivity|].
    intros t0 c0 r0 [Ht [Hr Hc]]. destruct (old_values_spec O _ _ _ _ Eo) as [Hk _]. rewrite Hk in Hc. cbn [touch]. auto.
  - destruct (find_table O s t) as [T|]; [|discriminate]. destruct (negb _); [discriminate|].
    match type of H with context [add_records O ?T0 rows ?cs] => destruct (add_records O T0 rows cs) end; cbn in H; [|discriminate].
    inversion H; subst s' u ops. destruct Hx as [<-|[]]. split; [reflexivity|]. intros t0 c0 r0 Ht. exact Ht.
  - destruct (find_table O s t) as [T|]; [|discriminate]. destruct (has_column O T c); [discriminate|].
    inversion H; subst s' u ops. destruct Hx as [<-|[]]. split; [reflexivity|]. intros t0 c0 r0 Ht. exact Ht.
  - destruct (find_table O s t) as [T|]; [|discriminate]. destruct (find_col O (t_cols O T) c) as [C|]; [|discriminate].
    match type of H with context [match ?l with [] => _ | _ => _ end] => destruct l as [|rv l'] end.
    + inversion H; subst s' u ops. destruct Hx as [<-|[]]. split; [reflexivity|]. intros t0 c0 r0 Ht. exact Ht.
    + destruct (ci_isformula (c_info O C)); inversion H; subst s' u ops.
      * destruct Hx as [<-|[]]. split; [reflexivity|]. intros t0 c0 r0 Ht. exact Ht.
      * destruct Hx as [<-|[<-|[]]]; (split; [reflexivity|]); intros t0 c0 r0 Ht; cbn [touch] in *.
        -- destruct Ht as [Ht [_ [Hc|[]]]]. cbn in Hc. split; congruence.
        -- exact Ht.
  - destruct (find_table O s t) as [T|]; [|discriminate]. destruct (find_col O (t_cols O T) c) as [C|]; [|discriminate].
    destruct (colinfo_eqb _ _); inversion H; subst s' u ops; [destruct Hx|].
    destruct Hx as [<-|[]]. split; [reflexivity|]. intros t0 c0 r0 Ht. exact Ht.
  - destruct (find_table O s t); [discriminate|]. destruct (_ || _); [discriminate|].
    inversion H; subst s' u ops. destruct Hx as [<-|[]]. split; [reflexivity|]. intros t0 c0 r0 Ht. exact Ht.
  - destruct (find_table O s t) as [T|]; [|discriminate].
    destruct (t_rows O T); inversion H; subst s' u ops.
    + destruct Hx as [<-|[]]. split; [reflexivity|]. intros t0 c0 r0 Ht. exact Ht.
    + destruct Hx as [<-|[<-|[]]]; (split; [reflexivity|]); intros t0 c0 r0 Ht; cbn [touch] in *; tauto.
Qed.

Lemma img_nonrename : forall a (X : cellset), is_rename a = false -> img O a X = X.
Proof. intros a X H. destruct a; try discriminate; reflexivity. Qed.

Lemma img_list_nonrename : forall acts (X : cellset),
  (forall x, In x acts -> is_rename x = false) -> img_list O acts X = X.
Proof.
  induction acts as [|a rest IH]; intros X H; cbn [img_list]; [reflexivity|].
  rewrite img_nonrename by (apply H; left; reflexivity). apply IH. intros x Hx. apply H. right. exact Hx.
Qed.

(* ------------------------------------------------------------------------------------------------ *)
(* document equivalence and calc_rel, cell by cell *)

Lemma cellv_some : forall s t c r i v,
  cellv s t c r = Some (i, v) <->
  exists T C, find_table O s t = Some T /\ find_col O (t_cols O T) c = Some C /\ In r (t_rows O T) /\
              i = c_info O C /\ v = col_get O C r.
Proof.
  intros s t c r i v. unfold cellv. split.
  - destruct (find_table O s t) as [T|] eqn:Ef; [|discriminate].
    destruct (find_col O (t_cols O T) c) as [C|] eqn:Ec; [|discriminate].
    destruct (zmem r (t_rows O T)) eqn:Ez; [|discriminate]. intro H. inversion H; subst.
    exists T, C. apply zmem_In in Ez. repeat split; try assumption; reflexivity.
  - intros [T [C [Hf [Hc [Hr [-> ->]]]]]]. rewrite Hf, Hc. apply zmem_In in Hr. rewrite Hr. reflexivity.
Qed.

Lemma cellv_existing : forall s t c r, cellv s t c r <> None <-> existing O s t c r.
Proof.
  intros s t c r. split.
  - intro H. destruct (cellv s t c r) as [[i v]|] eqn:E; [|congruence]. apply cellv_some in E.
    destruct E as [T [C [Hf [Hc [Hr _]]]]]. exists T, C. auto.
  - intros [T [C [Hf [Hc Hr]]]]. unfold cellv. rewrite Hf, Hc. apply zmem_In in Hr. rewrite Hr. discriminate.
Qed.

Lemma seq_ex_cellv : forall (X : cellset) s1 s2 t c r i v1,
  seq_ex O X s1 s2 -> cellv s1 t c r = Some (i, v1) ->
  exists v2, cellv s2 t c r = Some (i, v2) /\ (X t c r \/ venc O v1 v2 = true).
Proof.
  intros X s1 s2 t c r i v1 Hs H. apply cellv_some in H. destruct H as [T [C [Hf [Hc [Hr [-> ->]]]]]].
  specialize (Hs t). rewrite Hf in Hs. destruct (find_table O s2 t) as [T2|] eqn:Ef2; cbn in Hs; [|contradiction].
  destruct Hs as [Hrows Hcols]. specialize (Hcols c). rewrite Hc in Hcols.
  destruct (find_col O (t_cols O T2) c) as [C2|] eqn:Ec2; cbn in Hcols; [|contradiction].
  destruct Hcols as [Hi Hcells]. exists (col_get O C2 r). split; [|apply Hcells; exact Hr].
  apply cellv_some. exists T2, C2. repeat split; try assumption. apply Hrows. exact Hr.
Qed.

Lemma seq_ex_refine : forall (X P : cellset) s1 s2,
  seq_ex O (fun t c r => X t c r \/ P t c r) s1 s2 ->
  (forall t c r i1 v1 i2 v2, P t c r -> cellv s1 t c r = Some (i1, v1) -> cellv s2 t c r = Some (i2, v2) ->
                             X t c r \/ venc O v1 v2 = true) ->
  seq_ex O X s1 s2.
Proof.
  intros X P s1 s2 Hs HP t. specialize (Hs t).
  destruct (find_table O s1 t) as [T1|] eqn:Ef1, (find_table O s2 t) as [T2|] eqn:Ef2; cbn in *; try exact Hs.
  destruct Hs as [Hrows Hcols]. split; [exact Hrows|]. intro c. specialize (Hcols c).
  destruct (find_col O (t_cols O T1) c) as [C1|] eqn:Ec1, (find_col O (t_cols O T2) c) as [C2|] eqn:Ec2; cbn in *; try exact Hcols.
  destruct Hcols as [Hi Hcells]. split; [exact Hi|]. intros r Hr.
  destruct (Hcells r Hr) as [[Hx|Hp]|Hv]; [left; exact Hx | | right; exact Hv].
  eapply (HP t c r _ _ _ _ Hp); apply cellv_some.
  - exists T1, C1. repeat split; assumption.
  - exists T2, C2. repeat split; try assumption. apply Hrows. exact Hr.
Qed.

Definition pending (sm : summary) : cellset := fun t c r => delta_get O (delta_of O sm t c) r <> None.

Lemma calc_rel_seq_ex : forall g sm s, calc_rel O g sm s -> seq_ex O (pending sm) s g.
Proof.
  intros g sm s H t. specialize (H t).
  destruct (find_table O s t) as [T|], (find_table O g t) as [Tg|]; cbn; try exact H.
  destruct H as [Hrows Hcols]. split; [exact Hrows|]. intro c. specialize (Hcols c).
  destruct (find_col O (t_cols O T) c) as [C|], (find_col O (t_cols O Tg) c) as [Cg|]; cbn; try exact Hcols.
  destruct Hcols as [Hi Hcells]. split; [exact Hi|]. intros r Hr. specialize (Hcells r Hr). unfold pending.
  destruct (delta_get O (delta_of O sm t c) r); [left; discriminate | right; exact Hcells].
Qed.

Lemma calc_rel_cellv : forall g sm s t c r i v,
  calc_rel O g sm s -> cellv s t c r = Some (i, v) ->
  exists vg, cellv g t c r = Some (i, vg) /\
    match delta_get O (delta_of O sm t c) r with
    | Some (b, a) => venc O v (vnorm O (ci_type i) a) = true /\ venc O b vg = true
    | None => venc O v vg = true
    end.
Proof.
  intros g sm s t c r i v Hrel H. apply cellv_some in H. destruct H as [T [C [Hf [Hc [Hr [-> ->]]]]]].
  specialize (Hrel t). rewrite Hf in Hrel. destruct (find_table O g t) as [Tg|] eqn:Efg; [|contradiction].
  destruct Hrel as [Hrows Hcols]. specialize (Hcols c). rewrite Hc in Hcols.
  destruct (find_col O (t_cols O Tg) c) as [Cg|] eqn:Ecg; [|contradiction].
  destruct Hcols as [Hi Hcells]. exists (col_get O Cg r). split; [|apply Hcells; exact Hr].
  apply cellv_some. exists Tg, Cg. repeat split; try assumption. apply Hrows. exact Hr.
Qed.

Lemma calc_rel_of : forall g sm s,
  seq_ex O (pending sm) s g ->
  (forall t c r i v ig vg b a, cellv s t c r = Some (i, v) -> cellv g t c r = Some (ig, vg) ->
     delta_get O (delta_of O sm t c) r = Some (b, a) ->
     venc O v (vnorm O (ci_type i) a) = true /\ venc O b vg = true) ->
  calc_rel O g sm s.
Proof.
  intros g sm s Hs Hp t. specialize (Hs t).
  destruct (find_table O s t) as [T|] eqn:Ef, (find_table O g t) as [Tg|] eqn:Efg; cbn in Hs; try exact Hs.
  destruct Hs as [Hrows Hcols]. split; [exact Hrows|]. intro c. specialize (Hcols c).
  destruct (find_col O (t_cols O T) c) as [C|] eqn:Ec, (find_col O (t_cols O Tg) c) as [Cg|] eqn:Ecg; cbn in Hcols; try exact Hcols.
  destruct Hcols as [Hi Hcells]. split; [exact Hi|]. intros r Hr.
  destruct (delta_get O (delta_of O sm t c) r) as [[b a]|] eqn:Ed.
  - eapply (Hp t c r _ _ _ _ b a); [| |exact Ed]; apply cellv_some.
    + exists T, C. repeat split; assumption.
    + exists Tg, Cg. repeat split; try assumption. apply Hrows. exact Hr.
  - destruct (Hcells r Hr) as [Hx|Hv]; [|exact Hv]. unfold pending in Hx. congruence.
Qed.

(* struct_ok only looks at names and row sets *)
Lemma struct_ok_seq_ex : forall (X : cellset) g s sm, seq_ex O X s g -> struct_ok O g sm -> struct_ok O s sm.
Proof.
  intros X g s sm Hs [Hnames [Hkeys Hafter]]. split; [|split].
  - intros t T Hf. pose proof (Hs t) as Ht. rewrite Hf in Ht.
    destruct (find_table O g t) as [Tg|] eqn:Eg; [|contradiction]. destruct (Hnames _ _ Eg) as [Hdt Hdc].
    split; [exact Hdt|]. intros c C Hc. destruct Ht as [_ Hcols]. specialize (Hcols c). rewrite Hc in Hcols.
    destruct (find_col O (t_cols O Tg) c) as [Cg|] eqn:Ec; [|contradiction]. exact (Hdc _ _ Ec).
  - intros t Ht. destruct (Hkeys t Ht) as [Hk|Hk]; [|right; exact Hk]. left.
    pose proof (Hs t) as Hst. destruct (find_table O s t); [discriminate|].
    destruct (find_table O g t); [contradiction | congruence].
  - intros t T r Hf Hr. pose proof (Hs t) as Ht. rewrite Hf in Ht.
    destruct (find_table O g t) as [Tg|] eqn:Eg; [|contradiction]. destruct Ht as [Hrows _].
    eapply Hafter; [exact Eg | apply Hrows; exact Hr].
Qed.

(* ------------------------------------------------------------------------------------------------ *)
(* exception sets through action lists *)

Lemma img_mono : forall a (X Y : cellset), (forall t c r, X t c r -> Y t c r) -> forall t c r, img O a X t c r -> img O a Y t c r.
Proof. intros a X Y H t c r Hi. destruct a; cbn [img] in *; try (apply H; exact Hi); destruct Hi as [Hi|Hi]; [left | right | left | right]; intuition. Qed.

Lemma img_list_mono : forall acts (X Y : cellset),
  (forall t c r, X t c r -> Y t c r) -> forall t c r, img_list O acts X t c r -> img_list O acts Y t c r.
Proof.
  induction acts as [|a rest IH]; intros X Y H t c r Hi; cbn [img_list] in *; [apply H; exact Hi|].
  eapply IH; [|exact Hi]. apply img_mono. exact H.
Qed.

Lemma img_or : forall a (X Y : cellset) t c r,
  img O a (fun t c r => X t c r \/ Y t c r) t c r -> img O a X t c r \/ img O a Y t c r.
Proof. intros a X Y t c r H. destruct a; cbn [img] in *; try exact H; intuition. Qed.

Lemma img_list_or : forall acts (X Y : cellset) t c r,
  img_list O acts (fun t c r => X t c r \/ Y t c r) t c r -> img_list O acts X t c r \/ img_list O acts Y t c r.
Proof.
  induction acts as [|a rest IH]; intros X Y t c r H; cbn [img_list] in *; [exact H|].
  apply IH. eapply img_list_mono; [|exact H]. intros t1 c1 r1 H1. apply img_or. exact H1.
Qed.

Lemma img_list_app : forall l1 l2 (X : cellset), img_list O (l1 ++ l2) X = img_list O l2 (img_list O l1 X).
Proof. induction l1 as [|a l1 IH]; intros l2 X; cbn [app img_list]; [reflexivity | apply IH]. Qed.

(* ------------------------------------------------------------------------------------------------ *)
(* columns: an action leaves the columns it does not touch alone, whatever their rows *)

Definition colv (s : state) (t c : name) : option colinfo :=
  match find_table O s t with
  | Some T => match find_col O (t_cols O T) c with Some C => Some (c_info O C) | None => None end
  | None => None
  end.

Definition touchc (a : action) (t c : name) : Prop :=
  match a with
  | BulkAddRecord _ _ _ _ | BulkRemoveRecord _ _ _ | BulkUpdateRecord _ _ _ _ => False
  | ReplaceTableData _ t' _ _ => t = t'
  | AddColumn _ t' c' _ => t = t' /\ c = c'
  | RemoveColumn _ t' c' => t = t' /\ c = c'
  | RenameColumn _ t' old new => t = t' /\ (c = old \/ c = new)
  | ModifyColumn _ t' c' _ => t = t' /\ c = c'
  | AddTable _ t' _ => t = t'
  | RemoveTable _ t' => t = t'
  | RenameTable _ old new => t = old \/ t = new
  end.

Lemma colv_put_other : forall s t0 T' t c, t_id O T' = t0 -> t <> t0 -> colv (put_table O s t0 T') t c = colv s t c.
Proof.
  intros s t0 T' t c Hid Hne. unfold colv. rewrite (find_put_table O) by exact Hid.
  assert (name_eqb t t0 = false) as -> by (apply name_eqb_neq; exact Hne). reflexivity.
Qed.

Lemma colv_put_same : forall s t T T' c, find_table O s t = Some T -> t_id O T' = t ->
  colv (put_table O s t T') t c = match find_col O (t_cols O T') c with Some C => Some (c_info O C) | None => None end.
Proof.
  intros s t T T' c Hf Hid. unfold colv. rewrite (find_put_table O) by exact Hid. rewrite name_eqb_refl, Hf. reflexivity.
Qed.

Lemma frame_col : forall a s s' o t c,
  apply_doc O a s = Ok (s', o) -> is_rename a = false -> ~ touchc a t c -> colv s' t c = colv s t c.
Proof.
  intros a s s' o t c H Hren Hnt. destruct a; try discriminate; unfold apply_doc in H; cbn [touchc] in Hnt.
  - destruct (find_table O s t0) as [T|] eqn:Ef; [|discriminate].
    destruct (colvals_ok O rows cols) eqn:Eok; cbn [negb orb] in H; [|discriminate].
    destruct (match rows with [] => true | _ => false end); [discriminate|].
    destruct (negb (none_in rows (t_rows O T))); [discriminate|].
    destruct (add_records O T rows cols) as [T'|] eqn:Ea; cbn in H; [|discriminate]. inversion H; subst s' o; clear H.
    assert (Hnd : nodup_names (map fst cols) = true).
    { unfold colvals_ok in Eok. apply andb_true_iff in Eok. destruct Eok as [Eok _]. apply andb_true_iff in Eok. apply Eok. }
    destruct (add_records_spec O _ _ _ _ Hnd Ea) as [Hid [_ [_ Hcols]]].
    pose proof (find_table_id O _ _ _ Ef) as HidT.
    name_cases t t0; [|apply colv_put_other; congruence].
    subst t. rewrite (colv_put_same _ _ T) by congruence. unfold colv. rewrite Ef. specialize (Hcols c).
    destruct (find_col O (t_cols O T) c) as [C|]; [|rewrite Hcols; reflexivity].
    destruct Hcols as [C' [Hf' [Hi' _]]]. rewrite Hf', Hi'. reflexivity.
  - destruct (find_table O s t0) as [T|] eqn:Ef; [|discriminate].
    pose proof (find_table_id O _ _ _ Ef) as HidT.
    remember (filter (fun r => zmem r (t_rows O T)) rows) as rows' eqn:Er.
    destruct (list_eq_dec Z.eq_dec rows' []) as [Hnil|Hne].
    + rewrite Hnil in H. inversion H; subst. reflexivity.
    + rewrite (match_nonnil _ _ rows' _ _ Hne) in H. inversion H; subst s' o; clear H.
      name_cases t t0; [|apply colv_put_other; [exact HidT | congruence]].
      subst t. rewrite (colv_put_same _ _ T) by (try exact Ef; exact HidT). unfold colv. rewrite Ef. cbn [t_cols].
      rewrite (find_map_col O) by (intro; apply (col_unset_many_id O)).
      destruct (find_col O (t_cols O T) c) as [C|]; cbn [option_map]; [|reflexivity].
      rewrite (col_unset_many_info O). reflexivity.
  - destruct (find_table O s t0) as [T|] eqn:Ef; [|discriminate].
    pose proof (find_table_id O _ _ _ Ef) as HidT.
    destruct (colvals_ok O rows cols) eqn:Eok; cbn [negb orb] in H; [|discriminate].
    destruct (match rows with [] => true | _ => false end); [discriminate|].
    destruct (negb (all_in rows (t_rows O T))); [discriminate|].
    destruct (old_values O (t_cols O T) rows cols) as [ov|]; cbn in H; [|discriminate].
    destruct (set_columns O (t_cols O T) rows cols) as [cs|] eqn:Ecs; cbn in H; [|discriminate]. inversion H; subst s' o; clear H.
    assert (Hnd : nodup_names (map fst cols) = true).
    { unfold colvals_ok in Eok. apply andb_true_iff in Eok. destruct Eok as [Eok _]. apply andb_true_iff in Eok. apply Eok. }
    destruct (set_columns_spec O _ _ _ _ Hnd Ecs) as [_ Hcols].
    name_cases t t0; [|apply colv_put_other; [exact HidT | congruence]].
    subst t. rewrite (colv_put_same _ _ T) by (try exact Ef; exact HidT). unfold colv. rewrite Ef. cbn [t_cols].
    specialize (Hcols c). destruct (find_col O (t_cols O T) c) as [C|]; [|rewrite Hcols; reflexivity].
    destruct Hcols as [C' [Hf' [Hi' _]]]. rewrite Hf', Hi'. reflexivity.
  - destruct (find_table O s t0) as [T|] eqn:Ef; [|discriminate].
    pose proof (find_table_id O _ _ _ Ef) as HidT.
    destruct (negb (colvals_ok O rows cols)); [discriminate|].
    match type of H with context [add_records O ?T0 rows ?cs] => destruct (add_records O T0 rows cs) as [T'|] eqn:Ea end; cbn in H; [|discriminate].
    inversion H; subst s' o; clear H.
    apply colv_put_other; [|exact Hnt].
    unfold add_records in Ea. match type of Ea with context [set_columns O ?a ?b ?c] => destruct (set_columns O a b c) end; cbn in Ea; [|discriminate].
    inversion Ea; subst T'. cbn. exact HidT.
  - destruct (find_table O s t0) as [T|] eqn:Ef; [|discriminate].
    pose proof (find_table_id O _ _ _ Ef) as HidT.
    destruct (has_column O T c0) eqn:Eh; [discriminate|]. inversion H; subst s' o; clear H.
    name_cases t t0; [|apply colv_put_other; [exact HidT | congruence]].
    subst t. assert (Hc : c <> c0) by tauto.
    rewrite (colv_put_same _ _ T) by (try exact Ef; exact HidT). unfold colv. rewrite Ef. cbn [t_cols].
    rewrite (find_app_col O). cbn [c_id]. assert (name_eqb c c0 = false) as -> by (apply name_eqb_neq; exact Hc).
    destruct (find_col O (t_cols O T) c); reflexivity.
  - destruct (find_table O s t0) as [T|] eqn:Ef; [|discriminate].
    pose proof (find_table_id O _ _ _ Ef) as HidT.
    destruct (find_col O (t_cols O T) c0) as [C0|] eqn:Ec0; [|discriminate].
    assert (Hs' : s' = put_table O s t0 (mkTab O (t_id O T) (t_rows O T) (drop_col O (t_cols O T) c0))).
    { match type of H with context [match ?l with [] => _ | _ => _ end] => destruct l end;
        [|destruct (ci_isformula (c_info O C0))]; inversion H; reflexivity. }
    subst s'. clear H.
    name_cases t t0; [|apply colv_put_other; [exact HidT | congruence]].
    subst t. assert (Hc : c <> c0) by tauto.
    rewrite (colv_put_same _ _ T) by (try exact Ef; exact HidT). unfold colv. rewrite Ef. cbn [t_cols].
    rewrite (find_drop_col O). assert (name_eqb c c0 = false) as -> by (apply name_eqb_neq; exact Hc). reflexivity.
  - destruct (find_table O s t0) as [T|] eqn:Ef; [|discriminate].
    pose proof (find_table_id O _ _ _ Ef) as HidT.
    destruct (find_col O (t_cols O T) c0) as [C0|] eqn:Ec0; [|discriminate].
    destruct (colinfo_eqb (apply_modinfo m (c_info O C0)) (c_info O C0)); inversion H; subst s' o; clear H; [reflexivity|].
    name_cases t t0; [|apply colv_put_other; [exact HidT | congruence]].
    subst t. assert (Hc : c <> c0) by tauto.
    rewrite (colv_put_same _ _ T) by (try exact Ef; exact HidT). unfold colv. rewrite Ef. cbn [t_cols].
    rewrite (find_app_col O), (find_drop_col O), (col_set_many_id O). cbn [c_id].
    assert (name_eqb c c0 = false) as -> by (apply name_eqb_neq; exact Hc).
    destruct (find_col O (t_cols O T) c); reflexivity.
  - destruct (find_table O s t0) as [T|] eqn:Ef; [discriminate|].
    destruct (_ || _); [discriminate|]. inversion H; subst s' o; clear H.
    unfold colv. rewrite (find_app_table O). cbn [t_id].
    assert (name_eqb t t0 = false) as -> by (apply name_eqb_neq; exact Hnt).
    destruct (find_table O s t); reflexivity.
  - destruct (find_table O s t0) as [T|] eqn:Ef; [|discriminate].
    assert (Hs' : s' = drop_table O s t0) by (destruct (t_rows O T); inversion H; reflexivity).
    subst s'. unfold colv. rewrite (find_drop_table O).
    assert (name_eqb t t0 = false) as -> by (apply name_eqb_neq; exact Hnt). reflexivity.
Qed.

Lemma touchc_touch : forall a t c r, touchc a t c -> touch a t c r.
Proof. intros a t c r H. destruct a; cbn in *; try contradiction; exact H. Qed.

(* the rows a BulkRemoveRecord names are gone afterwards *)
Lemma rmrec_gone : forall s t rows s' o c r,
  apply_doc O (BulkRemoveRecord O t rows) s = Ok (s', o) -> In r rows -> cellv s' t c r = None.
Proof.
  intros s t rows s' o c r H Hr. unfold apply_doc in H.
  destruct (find_table O s t) as [T|] eqn:Ef; [|discriminate].
  pose proof (find_table_id O _ _ _ Ef) as HidT.
  remember (filter (fun r => zmem r (t_rows O T)) rows) as rows' eqn:Er.
  destruct (list_eq_dec Z.eq_dec rows' []) as [Hnil|Hne].
  - rewrite Hnil in H. inversion H; subst s' o. unfold cellv. rewrite Ef.
    destruct (find_col O (t_cols O T) c); [|reflexivity].
    destruct (zmem r (t_rows O T)) eqn:Ez; [|reflexivity]. exfalso.
    assert (In r rows') by (rewrite Er; apply filter_In; split; [exact Hr | exact Ez]). rewrite Hnil in H0. destruct H0.
  - rewrite (match_nonnil _ _ rows' _ _ Hne) in H. inversion H; subst s' o; clear H.
    rewrite (cellv_put_same _ _ T) by (try exact Ef; exact HidT). cbn [t_cols t_rows].
    destruct (find_col O _ c); [|reflexivity].
    destruct (zmem r (filter (fun r0 => negb (zmem r0 rows')) (t_rows O T))) eqn:Ez; [|reflexivity]. exfalso.
    apply zmem_In in Ez. apply filter_In in Ez. destruct Ez as [Hin Hz]. apply negb_true_iff in Hz. apply zmem_false in Hz.
    apply Hz. rewrite Er. apply filter_In. split; [exact Hr | apply zmem_In; exact Hin].
Qed.

(* what the removals remove is gone *)
Definition is_removal (a : action) : bool :=
  match a with BulkRemoveRecord _ _ _ | RemoveColumn _ _ _ | RemoveTable _ _ => true | _ => false end.

Lemma removed_gone : forall a s s' o t c r,
  apply_doc O a s = Ok (s', o) -> is_removal a = true -> touch a t c r -> cellv s' t c r = None.
Proof.
  intros a s s' o t c r H Hrm Ht. destruct a; try discriminate; cbn [touch] in Ht.
  - destruct Ht as [-> Hr]. eapply rmrec_gone; eassumption.
  - destruct Ht as [-> ->]. unfold apply_doc in H.
    destruct (find_table O s t0) as [T|] eqn:Ef; [|discriminate].
    pose proof (find_table_id O _ _ _ Ef) as HidT.
    destruct (find_col O (t_cols O T) c0) as [C0|] eqn:Ec0; [|discriminate].
    assert (Hs' : s' = put_table O s t0 (mkTab O (t_id O T) (t_rows O T) (drop_col O (t_cols O T) c0))).
    { match type of H with context [match ?l with [] => _ | _ => _ end] => destruct l end;
        [|destruct (ci_isformula (c_info O C0))]; inversion H; reflexivity. }
    subst s'. rewrite (cellv_put_same _ _ T) by (try exact Ef; exact HidT). cbn [t_cols].
    rewrite (find_drop_col O), name_eqb_refl. reflexivity.
  - subst t. unfold apply_doc in H. destruct (find_table O s t0) as [T|] eqn:Ef; [|discriminate].
    assert (Hs' : s' = drop_table O s t0) by (destruct (t_rows O T); inversion H; reflexivity).
    subst s'. unfold cellv. rewrite (find_drop_table O), name_eqb_refl. reflexivity.
Qed.

End Frame.
