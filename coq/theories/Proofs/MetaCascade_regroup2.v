(* K6 proofs, part 21: the field moves of update_summary_section and the regrouping actions. *)
From Coq Require Import ZArith List Bool Lia.
Import ListNotations.
Require Import Grist.Model.MetaCascade Grist.Proofs.MetaCascade_base Grist.Proofs.MetaCascade_inv
  Grist.Proofs.MetaCascade_rm Grist.Proofs.MetaCascade_rm4
  Grist.Proofs.MetaCascade_add Grist.Proofs.MetaCascade_add2 Grist.Proofs.MetaCascade_regroup.
Open Scope Z_scope.

Lemma regroup_fields_inv : forall r tgt m1,
  Inv m1 -> In tgt (tids m1) -> In (rg_sec r) (sids m1) ->
  sec_is_raw m1 (rg_sec r) = false -> sec_is_card m1 (rg_sec r) = false ->
  cols_of_table m1 (map snd (rg_remap r) ++ rg_new r) tgt = true ->
  Inv (regroup_fields r tgt m1).
Proof.
  intros r tgt m1 HI1 Ht Hsec Hraw Hcard Hcols.
  set (sec := rg_sec r) in *.
  assert (G1 : forall t, In t (m_tables m1) -> t_raw t <> sec /\ t_card t <> sec).
  { intros t Ht0. split; intro E.
    - assert (sec_is_raw m1 sec = true) by (apply existsb_exists; exists t; split; [exact Ht0 | apply Z.eqb_eq; exact E]).
      congruence.
    - assert (sec_is_card m1 sec = true) by (apply existsb_exists; exists t; split; [exact Ht0 | apply Z.eqb_eq; exact E]).
      congruence. }
  set (keepf := fun f => negb (f_section f =? sec) || moved r f).
  set (h := fun f => if f_section f =? sec
                     then match lookup (f_id f) (rg_remap r) with Some c => with_fcol c f | None => f end else f).
  set (g := fun s => if s_id s =? sec then with_stable tgt s else s).
  set (kept := filter keepf (m_fields m1)).
  set (m' := regroup_fields r tgt m1) in *.
  assert (Hh : forall f, f_id (h f) = f_id f /\ f_section (h f) = f_section f /\ f_display (h f) = f_display f /\
                         f_visible (h f) = f_visible f /\ f_rules (h f) = f_rules f).
  { intros f. unfold h. destruct (f_section f =? sec); [|tauto].
    destruct (lookup (f_id f) (rg_remap r)); simpl; tauto. }
  assert (Hgs : forall s, s_id (g s) = s_id s /\ s_view (g s) = s_view s /\ s_rules (g s) = s_rules s).
  { intros s. unfold g. destruct (s_id s =? sec); simpl; tauto. }
  set (nf := new_fields (next_id (map f_id (map h kept))) sec (rg_new r)).
  assert (EF : m_fields m' = map h kept ++ nf) by reflexivity.
  assert (ES : m_sections m' = map g (m_sections m1)) by reflexivity.
  assert (ET : m_tables m' = m_tables m1) by reflexivity.
  assert (EC : m_columns m' = m_columns m1) by reflexivity.
  assert (EV : m_views m' = m_views m1) by reflexivity.
  assert (Etid : tids m' = tids m1) by reflexivity.
  assert (Ecid : cids m' = cids m1) by reflexivity.
  assert (Efid0 : map f_id (map h kept) = map f_id kept) by (apply map_map_id; intros f; apply Hh).
  (* the regrouped section, now showing the target table *)
  assert (Hnewsec : forall c, In c (map snd (rg_remap r) ++ rg_new r) -> ColOfSection m' sec c).
  { intros c Hc. destruct (cols_of_table_spec m1 _ tgt c Hcols Hc) as [cr [Hcr [E1 E2]]].
    unfold sids in Hsec. apply in_map_iff in Hsec. destruct Hsec as [s0 [Es0 Hs0]].
    exists (g s0), cr. rewrite ES, EC. split; [apply in_map; exact Hs0|].
    destruct (Hgs s0) as [Hid _]. split; [rewrite Hid; exact Es0|]. split; [exact Hcr|]. split; [exact E1|].
    unfold g. apply Z.eqb_eq in Es0. rewrite Es0. simpl. exact E2. }
  destruct HI1 as [I1 I2 I3 I4 I5 I6 I7 I8].
  constructor.
  - destruct I1 as [A [B [C [D [E [F G]]]]]]. unfold IdsOk. rewrite Etid, Ecid, EV.
    split; [exact A|]. split; [exact B|]. split; [exact C|].
    split; [unfold sids; rewrite ES; rewrite map_map_id; [exact D | intros s; apply Hgs]|].
    split; [|split; assumption].
    unfold fids. rewrite EF, map_app. unfold nf. rewrite new_fields_ids, Efid0. apply IdList_zseq.
    unfold kept. apply (IdList_filter_map f_id). exact E.
  - intros c Hc. rewrite EC in Hc. specialize (I2 c Hc). unfold ColOk in *. rewrite Etid, Ecid. exact I2.
  - intros f Hf. rewrite EF in Hf. apply in_app_iff in Hf. destruct Hf as [Hf|Hf].
    + apply in_map_iff in Hf. destruct Hf as [f0 [E0 Hf0]]. unfold kept in Hf0. apply filter_In in Hf0.
      destruct Hf0 as [Hf0 Hk]. destruct (I3 f0 Hf0) as [J1 [J2 [J3 J4]]].
      destruct (Hh f0) as [_ [H2 [H3 [H4 H5]]]]. subst f. unfold FieldOk. rewrite H2, H3, H4, H5, Ecid.
      split; [|tauto].
      unfold h. destruct (f_section f0 =? sec) eqn:Es.
      * apply Z.eqb_eq in Es. unfold keepf in Hk. apply Z.eqb_eq in Es. rewrite Es in Hk. simpl in Hk.
        unfold moved in Hk. destruct (lookup (f_id f0) (rg_remap r)) as [c|] eqn:El; [|discriminate].
        simpl. apply Z.eqb_eq in Es. rewrite Es. apply Hnewsec. apply in_app_iff. left. apply (lookup_In _ _ _ El).
      * apply Z.eqb_neq in Es. destruct J1 as [sr [cr [Hs [H1 [Hc [H6 H7]]]]]].
        exists sr, cr. rewrite ES, EC. split; [|tauto].
        apply in_map_iff. exists sr. split; [|exact Hs]. unfold g. rewrite H1. apply Z.eqb_neq in Es. rewrite Es. reflexivity.
    + apply new_fields_In in Hf. destruct Hf as [H1 [H2 [H3 [H4 H5]]]].
      unfold FieldOk. rewrite H1, H3, H4, H5.
      split; [apply Hnewsec; apply in_app_iff; right; exact H2|].
      split; [left; reflexivity|]. split; [left; reflexivity | intros x []].
  - intros s' Hs'. rewrite ES in Hs'. apply in_map_iff in Hs'. destruct Hs' as [s [E Hs]]. subst s'.
    destruct (I4 s Hs) as [J1 [J2 J3]]. destruct (Hgs s) as [_ [H2 H3]].
    unfold SecOk. rewrite Etid, Ecid, EV, H2, H3. split; [|split; assumption].
    unfold g. destruct (s_id s =? sec); [simpl; exact Ht | exact J1].
  - intros t Ht0 Hx. rewrite ET in Ht0. destruct (I5 t Ht0 Hx) as [J1 [J2 [J3 J4]]].
    destruct (G1 t Ht0) as [Nr Nc].
    assert (Hst : forall sid, sid <> sec -> SecOfTable m1 sid (t_id t) -> SecOfTable m' sid (t_id t)).
    { intros sid Hn [s [Hs [H1 H2]]]. exists s. rewrite ES. split; [|tauto].
      apply in_map_iff. exists s. split; [|exact Hs]. unfold g. rewrite H1. apply Z.eqb_neq in Hn. rewrite Hn. reflexivity. }
    unfold TableOk. rewrite Etid, EV. split; [apply Hst; assumption|].
    split; [destruct J2 as [J2|J2]; [left; exact J2 | right; apply Hst; assumption] | split; assumption].
  - intros b Hb. apply (I6 b Hb).
  - intros b Hb. apply (I7 b Hb).
  - exact I8.
Qed.

(* regrouping a section that is not a raw section *)
Lemma apply_regroup_inv : forall r m m', Inv m -> apply_regroup r m = Ok m' -> Inv m'.
Proof.
  intros r m m' HI H. unfold apply_regroup in H.
  destruct (find_section m (rg_sec r)); [|discriminate].
  destruct (is_raw m s); [discriminate|].
  destruct (regroup_target r m) as [[m1 tgt]| |] eqn:Et; simpl in H; try discriminate.
  destruct (regroup_target_inv r m m1 tgt HI Et) as [HI1 [Ht Hs]].
  destruct (sec_is_card m1 (rg_sec r) || sec_is_raw m1 (rg_sec r)) eqn:Ec; [discriminate|].
  apply orb_false_iff in Ec. destruct Ec as [Ec Er].
  destruct (negb (cols_of_table m1 (map snd (rg_remap r) ++ rg_new r) tgt)) eqn:Eo; [discriminate|].
  apply negb_false_iff in Eo.
  inversion H; subst m'. apply regroup_fields_inv; assumption.
Qed.

Lemma apply_regroups_inv : forall rs m m', Inv m -> apply_regroups rs m = Ok m' -> Inv m'.
Proof.
  induction rs as [|r t IH]; intros m m' HI H; simpl in H.
  - inversion H; subst. exact HI.
  - destruct (apply_regroup r m) as [m1| |] eqn:E; simpl in H; try discriminate.
    apply (IH m1 m'); [apply (apply_regroup_inv r m m1 HI E) | exact H].
Qed.

(* RemoveColumn of group-by source columns: the repaired doRemoveColumns *)
Lemma remove_columns_regroup_inv : forall cols rs m m',
  Inv m -> remove_columns_regroup cols rs m = Ok m' -> Inv m'.
Proof.
  intros cols rs m m' HI H. unfold remove_columns_regroup in H.
  destruct (negb (all_in cols (cids m))); [discriminate|].
  destruct (negb (nodupb cols)); [discriminate|].
  destruct (existsb _ (m_columns m)); [discriminate|].
  destruct (negb (zlist_eqb (map rg_sec rs) (regroup_sections cols m))); [discriminate|].
  destruct (apply_regroups rs m) as [m1| |] eqn:E; simpl in H; try discriminate.
  apply (remove_columns_core_inv [] cols m1 m'); [apply (apply_regroups_inv rs m m1 HI E) | exact H].
Qed.

(* in a consistent document the engine's test (section.isRaw, through the section's own table) is the test the
   proof uses (no table has the section as its raw section) *)
Lemma is_raw_complete : forall m sec s,
  Inv m -> find_section m sec = Some s -> is_raw m s = false -> sec_is_raw m sec = false.
Proof.
  intros m sec s HI Hf Hr. apply find_some in Hf. destruct Hf as [Hs Es]. apply Z.eqb_eq in Es.
  destruct (sec_is_raw m sec) eqn:E; [|reflexivity]. exfalso.
  apply existsb_exists in E. destruct E as [t [Ht Et]]. apply Z.eqb_eq in Et.
  assert (Hnil : ~ In (t_id t) []) by (intros []).
  destruct (inv_tab [] m HI t Ht Hnil) as [[s' [Hs' [E1 E2]]] _].
  assert (s' = s).
  { apply (NoDup_map_inj s_id (m_sections m)); try assumption; [|congruence].
    destruct (inv_ids [] m HI) as [_ [_ [_ [[D _] _]]]]. exact D. }
  subst s'.
  assert (is_raw m s = true).
  { unfold is_raw. apply existsb_exists. exists t. split; [exact Ht|].
    apply andb_true_iff. split; apply Z.eqb_eq; congruence. }
  congruence.
Qed.
