(* C27 -- Row id allocation never collides or creates ghost rows.
   Statements only; proofs are in Proofs/RowIds_proofs.v; the model is Model/RowIds.v.
   [fill_row_ids] is GristGen.RowIds_gen.fill_row_ids: the validation loop and the id-filling loop of
   useractions.py UserActions.doBulkAddOrReplace, translated from /repo on every run.

   The full statements are [alloc_full f] and [rejects_full f] (Model/RowIds.v) for f replace rows request:
     alloc_full:   an accepted request returns distinct ids, none of which existed, explicit ids are
                   honoured, automatic ids exceed every existing id, rows afterwards = existing + returned
                   (for ReplaceTableData: with no existing rows);
     rejects_full: a request with an explicit id that is over 1,000,000, is 0, repeats, or (for adds)
                   already exists is rejected and the table is unchanged.
   Both hold with no hypothesis on the request since fix e346da4.  Before it the loop violated both
   (repeated explicit id, explicit 0, automatic id colliding with a later explicit id): those witnesses are
   kept below as regression Examples and are replayed on the implementation first by harness/props/c27.py. *)
From Coq Require Import ZArith List Bool Lia.
Import ListNotations.
Require Import Grist.Lib.PyPrelude Grist.Lib.PyMonad Grist.Model.RowIds GristGen.RowIds_gen
               Grist.Proofs.RowIds_proofs.
Open Scope Z_scope.

(* ---- tie: the model's loops ARE the source's loops ---------------------------------------------------- *)

Theorem C27_model_is_source_loop : forall (row_ids : list (option Z)) (next : Z),
  fill_row_ids row_ids next =
  match alloc next row_ids with PyOk l => PyOk (map Some l) | PyErr e => PyErr e end.
Proof. exact fill_row_ids_is_alloc. Qed.

(* ---- the property ------------------------------------------------------------------------------------- *)

Theorem C27_alloc : alloc_full do_bulk_add_or_replace.
Proof. exact alloc_full_fixed. Qed.

Theorem C27_rejects : rejects_full do_bulk_add_or_replace.
Proof. exact rejects_full_fixed. Qed.

(* the same, unfolded for BulkAddRecord/AddRecord, for reading *)
Theorem C27_alloc_add : forall rs req out rs', wf_rows rs ->
  do_bulk_add_or_replace false rs req = Accepted out rs' ->
  NoDup out /\
  (forall r, In r out -> ~ In r rs) /\
  Forall2 (fun r o => match explicit r with Some z => o = z | None => forall e, In e rs -> e < o end) req out /\
  (forall r, In r rs' <-> In r rs \/ In r out) /\
  wf_rows rs'.
Proof. intros rs req out rs' Hwf H. exact (alloc_fixed rs req Hwf out rs' H). Qed.

(* it does not over-reject: every request whose explicit ids are usable is accepted *)
Theorem C27_accepts : forall replace rs req, wf_rows rs ->
  (forall z, In z (explicit_ids req) -> 0 < z <= MAX_ROW_ID /\ (replace = false -> ~ In z rs)) ->
  NoDup (explicit_ids req) ->
  exists out rs', do_bulk_add_or_replace replace rs req = Accepted out rs'.
Proof. exact accepts_fixed. Qed.

(* ---- regression: the inputs that failed before fix e346da4 --------------------------------------------- *)

Example C27_regression_witnesses :
  do_bulk_add_or_replace false [] [Some 5; Some 5] = Rejected PyValueError /\
  do_bulk_add_or_replace false [] [Some 0] = Rejected PyValueError /\
  do_bulk_add_or_replace false [1; 2] [None; Some 3; None] = Accepted [4; 3; 5] [1; 2; 4; 3; 5] /\
  do_bulk_add_or_replace true [1; 2] [Some 5; Some 5] = Rejected PyValueError /\
  do_bulk_add_or_replace true [1; 2] [Some 0] = Rejected PyValueError /\
  do_bulk_add_or_replace true [1; 2] [None; Some 1; None] = Accepted [2; 1; 3] [2; 1; 3].
Proof. exact regression_witnesses. Qed.

Example C27_regression_statements :
  alloc_statement (do_bulk_add_or_replace false) [1; 2] [None; Some 3; None] /\
  rejects_statement (do_bulk_add_or_replace false) true [] [Some 5; Some 5] /\
  rejects_statement (do_bulk_add_or_replace false) true [] [Some 0].
Proof. exact regression_statements. Qed.

(* ---- non-vacuity --------------------------------------------------------------------------------------- *)

(* a mixed request on a non-empty table: explicit 7 and 9, a temporary id, a None; and the hypotheses of
   C27_accepts hold for it *)
Example C27_alloc_nonvacuous :
  let rs := [1; 2; 5] in let req := [Some 7; Some 9; Some (-1); None] in
  wf_rows rs /\ NoDup (explicit_ids req) /\
  (forall z, In z (explicit_ids req) -> 0 < z <= MAX_ROW_ID /\ ~ In z rs) /\
  do_bulk_add_or_replace false rs req = Accepted [7; 9; 10; 11] [1; 2; 5; 7; 9; 10; 11].
Proof.
  cbv zeta. split; [split; repeat constructor; cbn; intuition lia|].
  split; [repeat constructor; cbn; intuition lia|].
  split; [|vm_compute; reflexivity]. unfold MAX_ROW_ID. cbn. intuition lia.
Qed.

(* rejected requests of each kind, and the largest allowed id *)
Example C27_rejects_nonvacuous :
  do_bulk_add_or_replace false [1; 2] [None; Some 2] = Rejected PyAssertionError /\
  do_bulk_add_or_replace false [1; 2] [None; Some 1000001] = Rejected PyValueError /\
  do_bulk_add_or_replace false [1; 2] [Some 4; None; Some 4] = Rejected PyValueError /\
  do_bulk_add_or_replace false [1; 2] [None; Some 0] = Rejected PyValueError /\
  do_bulk_add_or_replace false [1; 2] [Some 1000000; None] = Accepted [1000000; 1000001] [1; 2; 1000000; 1000001].
Proof. repeat split; vm_compute; reflexivity. Qed.
