(* C27 -- Row id allocation never collides or creates ghost rows.
   Statements only; proofs are in Proofs/RowIds_proofs.v; the model is Model/RowIds.v.
   [fill_row_ids] is GristGen.RowIds_gen.fill_row_ids: the id-filling loop of
   useractions.py UserActions.doBulkAddOrReplace, translated from /repo on every run.

   The full statements are [alloc_full f] and [rejects_full f] (Model/RowIds.v) for an implementation
   f replace rows request:
     alloc_full:   an accepted request returns distinct ids, none of which existed, explicit ids are
                   honoured, automatic ids exceed every existing id, rows afterwards = existing + returned;
     rejects_full: a request with an explicit id that is over 1,000,000, is 0, repeats, or (for adds)
                   already exists is rejected and the table is unchanged.
   The unchanged code ([do_bulk_add_or_replace]) violates both: C27_refuted_* below, with the positive
   statements under the exact hypotheses that exclude the defects (C27_*_partial).  The repaired code of
   notes/proposed_fixes/C27-rowid-validation.diff ([do_bulk_add_or_replace_fixed]) satisfies both in full
   (C27_alloc, C27_rejects ... _fixed).  After the patch is applied: make the bridging lemma of
   Proofs/RowIds_proofs.v Part 1 target the repaired loop, drop the _refuted/_partial theorems and the
   known-findings entries, and set VARIANT = 'fixed' in harness/props/c27.py. *)
From Coq Require Import ZArith List Bool Lia.
Import ListNotations.
Require Import Grist.Lib.PyPrelude Grist.Lib.PyMonad Grist.Model.RowIds GristGen.RowIds_gen
               Grist.Proofs.RowIds_proofs.
Open Scope Z_scope.

(* ---- tie: the model's loop IS the source's loop ----------------------------------------------------- *)

Theorem C27_model_is_source_loop : forall (row_ids : list (option Z)) (next : Z),
  fill_row_ids row_ids next =
  match fill next row_ids with PyOk l => PyOk (map Some l) | PyErr e => PyErr e end.
Proof. exact fill_row_ids_is_fill. Qed.

(* ---- the unchanged code: refutations (each witness is replayed on the implementation by the check) --- *)

Theorem C27_refuted_repeat :
  do_bulk_add_or_replace false [] [Some 5; Some 5] = Accepted [5; 5] [5] /\
  ~ alloc_statement (do_bulk_add_or_replace false) [] [Some 5; Some 5] /\
  ~ rejects_statement (do_bulk_add_or_replace false) true [] [Some 5; Some 5].
Proof. exact refuted_repeat. Qed.

Theorem C27_refuted_zero :
  do_bulk_add_or_replace false [] [Some 0] = Accepted [0] [] /\
  ~ alloc_statement (do_bulk_add_or_replace false) [] [Some 0] /\
  ~ rejects_statement (do_bulk_add_or_replace false) true [] [Some 0].
Proof. exact refuted_zero. Qed.

Theorem C27_refuted_auto_collision :
  do_bulk_add_or_replace false [1; 2] [None; Some 3; None] = Accepted [3; 3; 5] [1; 2; 3; 5] /\
  ~ alloc_statement (do_bulk_add_or_replace false) [1; 2] [None; Some 3; None] /\
  ~ bad_request true [1; 2] [None; Some 3; None].
Proof. exact refuted_auto_collision. Qed.

Theorem C27_refuted_replace :
  do_bulk_add_or_replace true [1; 2] [Some 5; Some 5] = Accepted [5; 5] [5] /\
  do_bulk_add_or_replace true [1; 2] [Some 0] = Accepted [0] [] /\
  do_bulk_add_or_replace true [1; 2] [None; Some 1; None] = Accepted [1; 1; 3] [1; 3].
Proof. exact refuted_replace. Qed.

Theorem C27_alloc_refuted : ~ alloc_full do_bulk_add_or_replace.
Proof. exact alloc_full_refuted. Qed.

Theorem C27_rejects_refuted : ~ rejects_full do_bulk_add_or_replace.
Proof. exact rejects_full_refuted. Qed.

(* ---- the unchanged code: what does hold ------------------------------------------------------------- *)

(* BulkAddRecord/AddRecord: full conclusion when no explicit id is 0, explicit ids do not repeat, and no
   explicit id equals an automatic id handed out earlier in the same request. *)
Theorem C27_alloc_partial : forall rs req, wf_rows rs ->
  ~ In 0 (explicit_ids req) -> NoDup (explicit_ids req) -> clash_free (next_row_id rs) [] req = true ->
  alloc_statement (do_bulk_add_or_replace false) rs req.
Proof. exact alloc_partial. Qed.

(* ReplaceTableData: same, with no existing rows and ids starting at 1. *)
Theorem C27_alloc_replace_partial : forall old req,
  ~ In 0 (explicit_ids req) -> NoDup (explicit_ids req) -> clash_free 1 [] req = true ->
  alloc_statement (replace_as_add do_bulk_add_or_replace old) [] req.
Proof. exact alloc_partial_replace. Qed.

(* The three hypotheses are exact: they hold whenever the conclusion holds for an accepted request. *)
Theorem C27_alloc_partial_hypotheses_exact : forall rs req out rs', wf_rows rs ->
  do_bulk_add_or_replace false rs req = Accepted out rs' ->
  alloc_statement (do_bulk_add_or_replace false) rs req ->
  ~ In 0 (explicit_ids req) /\ NoDup (explicit_ids req) /\ clash_free (next_row_id rs) [] req = true.
Proof. exact alloc_partial_exact. Qed.

(* A shape that implies the third hypothesis: explicit ids first, automatic slots last. *)
Theorem C27_explicit_first_is_clash_free : forall req n,
  explicit_first req = true -> clash_free n [] req = true.
Proof. exact explicit_first_clash_free. Qed.

(* With no hypothesis on the request at all: returned ids never collide with EXISTING rows, explicit ids are
   honoured, automatic ids exceed every existing id, rows afterwards = existing + the positive returned ids. *)
Theorem C27_alloc_unconditional_part : forall rs req out rs', wf_rows rs ->
  do_bulk_add_or_replace false rs req = Accepted out rs' ->
  fill (next_row_id rs) req = PyOk out /\
  (forall r, In r out -> ~ In r rs) /\
  Forall2 (fun r o => match explicit r with Some z => o = z | None => forall e, In e rs -> e < o end) req out /\
  (forall r, In r rs' <-> In r rs \/ (In r out /\ 0 < r)) /\
  wf_rows rs'.
Proof. exact add_accepted_always. Qed.

(* Rejections the unchanged code performs: over the limit; already existing (adds). *)
Theorem C27_rejects_partial : forall rs req, wf_rows rs ->
  ((exists z, In z (explicit_ids req) /\ z > MAX_ROW_ID) \/ (exists z, In z (explicit_ids req) /\ In z rs)) ->
  (exists e, do_bulk_add_or_replace false rs req = Rejected e) /\
  rows_after rs (do_bulk_add_or_replace false rs req) = rs.
Proof. exact rejects_partial_add. Qed.

Theorem C27_rejects_replace_partial : forall old req,
  (exists z, In z (explicit_ids req) /\ z > MAX_ROW_ID) ->
  (exists e, do_bulk_add_or_replace true old req = Rejected e) /\
  rows_after old (do_bulk_add_or_replace true old req) = old.
Proof. exact rejects_partial_replace. Qed.

(* ---- the repaired code: both statements in full ------------------------------------------------------ *)

Theorem C27_alloc_fixed : alloc_full do_bulk_add_or_replace_fixed.
Proof. exact alloc_full_fixed. Qed.

Theorem C27_rejects_fixed : rejects_full do_bulk_add_or_replace_fixed.
Proof. exact rejects_full_fixed. Qed.

(* it does not over-reject *)
Theorem C27_accepts_fixed : forall replace rs req, wf_rows rs ->
  (forall z, In z (explicit_ids req) -> 0 < z <= MAX_ROW_ID /\ (replace = false -> ~ In z rs)) ->
  NoDup (explicit_ids req) ->
  exists out rs', do_bulk_add_or_replace_fixed replace rs req = Accepted out rs'.
Proof. exact accepts_fixed. Qed.

(* and changes nothing for purely automatic requests *)
Theorem C27_fixed_same_when_all_auto : forall replace rs req, explicit_ids req = [] ->
  do_bulk_add_or_replace_fixed replace rs req = do_bulk_add_or_replace replace rs req.
Proof. exact fixed_same_when_all_auto. Qed.

(* ---- non-vacuity -------------------------------------------------------------------------------------- *)

(* hypotheses of C27_alloc_partial on a mixed request: explicit 7 and 9, a temporary id, a None *)
Example C27_partial_nonvacuous :
  let rs := [1; 2; 5] in let req := [Some 7; Some 9; Some (-1); None] in
  wf_rows rs /\ ~ In 0 (explicit_ids req) /\ NoDup (explicit_ids req) /\
  clash_free (next_row_id rs) [] req = true /\
  do_bulk_add_or_replace false rs req = Accepted [7; 9; 10; 11] [1; 2; 5; 7; 9; 10; 11].
Proof.
  cbv zeta. split; [split; repeat constructor; cbn; intuition lia|].
  split; [cbn; intuition lia|]. split; [repeat constructor; cbn; intuition lia|].
  split; vm_compute; reflexivity.
Qed.

(* a request rejected by the unchanged code (existing id), and one over the limit *)
Example C27_rejects_nonvacuous :
  do_bulk_add_or_replace false [1; 2] [None; Some 2] = Rejected PyAssertionError /\
  do_bulk_add_or_replace false [1; 2] [None; Some 1000001] = Rejected PyValueError /\
  do_bulk_add_or_replace false [1; 2] [Some 1000000; None] = Accepted [1000000; 1000001] [1; 2; 1000000; 1000001].
Proof. repeat split; vm_compute; reflexivity. Qed.

(* the repaired code on the three witnesses: rejected, rejected, distinct ids *)
Example C27_fixed_on_witnesses :
  do_bulk_add_or_replace_fixed false [] [Some 5; Some 5] = Rejected PyValueError /\
  do_bulk_add_or_replace_fixed false [] [Some 0] = Rejected PyValueError /\
  do_bulk_add_or_replace_fixed false [1; 2] [None; Some 3; None] = Accepted [4; 3; 5] [1; 2; 4; 3; 5].
Proof. exact fixed_on_witnesses. Qed.
