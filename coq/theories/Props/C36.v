(* C36 -- Page-tree indentation fixes always yield a valid tree.
   fix_indents is GristGen.Treeview_gen.fix_indents: translated from /repo/sandbox/grist/treeview.py on
   every run.  Statements only; proofs are in Proofs/Treeview_proofs.v. *)
From Coq Require Import ZArith List Bool.
Import ListNotations.
Require Import Grist.Lib.PyPrelude Grist.Model.Treeview GristGen.Treeview_gen Grist.Proofs.Treeview_proofs.
Open Scope Z_scope.

(* For all page lists (distinct row ids, levels >= 0) and all removal sets, the remaining pages with the
   returned fixes applied form a valid tree. *)
Theorem C36_valid_tree : forall (items : list item) (deleted : list Z),
  NoDup (map fst items) -> Forall (fun it => 0 <= snd it) items ->
  valid_tree (apply_fixes items deleted (fix_indents items deleted)).
Proof. exact valid_tree_fix. Qed.

(* Every returned fix names a remaining page, makes it strictly shallower (never deeper, and a real
   change), and no page is fixed twice. *)
Theorem C36_never_deeper : forall items deleted i n,
  In (i, n) (fix_indents items deleted) ->
  (exists old, In (i, old) items /\ n < old) /\ py_mem Z.eqb i deleted = false.
Proof.
  intros items deleted i n H. rewrite fix_indents_is_ref in H. split.
  - eapply fix_ref_strictly_less; exact H.
  - eapply fix_ref_ids_subset; exact H.
Qed.

Theorem C36_one_fix_per_page : forall items deleted,
  NoDup (map fst items) -> NoDup (map fst (fix_indents items deleted)).
Proof. intros. rewrite fix_indents_is_ref. apply fix_ref_nodup. assumption. Qed.

(* Changes only pages that would otherwise violate: a remaining page is changed exactly when its level
   exceeds the allowed level (one more than the new level of the page before it; a removed page passes on
   its own level; 0 at the start), and then it is set to exactly that level. *)
Theorem C36_changed_only_if_violating : forall items deleted it a,
  NoDup (map fst items) ->
  In (it, a) (allowed_levels 0 items deleted) ->
  py_mem Z.eqb (fst it) deleted = false ->
  (snd it <= a -> lookup_fix (fst it) (fix_indents items deleted) = None) /\
  (a < snd it -> lookup_fix (fst it) (fix_indents items deleted) = Some a).
Proof. intros. rewrite fix_indents_is_ref. apply fix_ref_spec; assumption. Qed.

(* ... and every page has an allowed level, so the previous theorem speaks about every page. *)
Theorem C36_every_page_covered : forall items deleted it,
  In it items -> exists a, In (it, a) (allowed_levels 0 items deleted).
Proof. intros. apply allowed_levels_all. assumption. Qed.

(* A valid tree from which nothing is removed is left alone. *)
Theorem C36_valid_untouched : forall items, valid_tree items -> fix_indents items [] = [].
Proof. intros. rewrite fix_indents_is_ref. apply (fix_ref_valid_noop items 0 (-1)); [assumption|reflexivity]. Qed.

(* In an originally valid tree, a page that is not a descendant of a removed page keeps its level.
   (under_removed marks the descendants: it tracks the smallest level of a removed page whose subtree is
   still open; a page is below a removed page exactly when that level is smaller than its own.) *)
Theorem C36_outside_removed_subtrees_untouched : forall items deleted it,
  valid_tree items -> NoDup (map fst items) ->
  In (it, false) (under_removed None items deleted) ->
  lookup_fix (fst it) (fix_indents items deleted) = None.
Proof.
  intros items deleted it Hv Hnd Hin. rewrite fix_indents_is_ref.
  eapply (fix_ref_not_under items deleted 0 (-1) None); [exact Hv|exact Hnd|cbn; apply Z.le_refl|exact Hin].
Qed.

Example C36_under_removed_example :
  map snd (under_removed None [(1, 0); (2, 1); (3, 2); (4, 1); (5, 0)] [2]) = [false; false; true; false; false].
Proof. vm_compute. reflexivity. Qed.

(* Non-vacuity: the docstring's example ["A0","B1","C0","D1"] minus C gives [("D",0)]. *)
Example C36_nonvacuous :
  let items := [(1, 0); (2, 1); (3, 0); (4, 1)] in
  NoDup (map fst items) /\ Forall (fun it => 0 <= snd it) items /\
  fix_indents items [3] = [(4, 0)] /\
  apply_fixes items [3] (fix_indents items [3]) = [(1, 0); (2, 1); (4, 0)].
Proof.
  cbv zeta. repeat split; try (vm_compute; reflexivity).
  - repeat constructor; cbn; intuition discriminate.
  - repeat constructor; cbn; discriminate.
Qed.
