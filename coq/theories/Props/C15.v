(* C15 -- Trigger formulas recalculate exactly when configured.
   Statements only; the model is Model/Trigger.v (mechanism written from the four code sites, specification
   written from the property sentence, independently), proofs are in Proofs/Trigger_proofs.v.

   Vocabulary: g : cfg (recalcWhen, recalcDeps, formula columns), t : tbl (the table before the bundle),
   b : bundle (the user actions of one apply_user_actions call), [fired g t b] the rows for which the mechanism
   evaluates the trigger formula at the end of the bundle, [must]/[may] the two bounds the sentence gives,
   [spec] = must, [unconstrained] = may and not must (a dependency written with / recomputed to the value it
   already has, a formula column written by a replayed doc action), [regular g t b] = none of the five
   transitions named in Model/Trigger.v section 4 occurs in the bundle. *)
From Coq Require Import ZArith List Bool.
Import ListNotations.
Require Import Grist.Model.Trigger Grist.Proofs.Trigger_proofs.
Require Import Grist.Lib.TrigEff GristGen.Trigger_gen Grist.Proofs.Trigger_bridge Grist.Proofs.Trigger_bridge2.
Open Scope Z_scope.

(* The property at full strength: for all configurations, tables (hence all histories) and bundles, the
   mechanism evaluates the trigger formula for exactly the rows the sentence names, wherever it decides. *)
Definition C15_trigger_fires_iff : Prop := forall g t b r,
  In r (rows (step g t b)) -> unconstrained g t b r = false -> memz r (fired g t b) = spec g t b r.

(* What holds on the current source: the same, for every bundle in which none of the five transitions occurs
   (each of them is refuted separately below, with a witness that raises that flag only). *)
Theorem C15_trigger_fires_iff_partial : forall g t b r,
  regular g t b = true ->
  In r (rows (step g t b)) -> unconstrained g t b r = false -> memz r (fired g t b) = spec g t b r.
Proof. exact fires_iff_spec. Qed.

(* The same along histories: t is whatever table a history of bundles produced. *)
Theorem C15_trigger_fires_iff_history_partial : forall g (h : history) b r,
  regular g (mechanism g h) b = true ->
  In r (rows (mechanism g (h ++ [b]))) -> unconstrained g (mechanism g h) b r = false ->
  memz r (fired g (mechanism g h) b) = spec g (mechanism g h) b r.
Proof. intros g h b r. rewrite mechanism_snoc. apply fires_iff_spec. Qed.

(* Stronger form, also speaking about the unconstrained rows: never outside [may], always inside [must]. *)
Theorem C15_fired_between_bounds_partial : forall g t b r,
  regular g t b = true ->
  (must g t b r = true -> In r (rows (step g t b)) -> In r (fired g t b)) /\
  (In r (fired g t b) -> may g t b r = true /\ In r (rows (step g t b))).
Proof.
  intros g t b r H. destruct (fired_between_bounds g t b r H) as [A B]. rewrite rows_step. split; [exact A|].
  intros Hf. split; [apply B; exact Hf | apply fired_rows; exact Hf].
Qed.

(* "schema changes to dependencies never trigger recalculation": no side condition at all. *)
Theorem C15_schema_changes_never_fire : forall g t b,
  forallb is_schema_action b = true -> fired g t b = [].
Proof. exact schema_bundle_never_fires. Qed.

(* The everyday interactions need no side condition either: ONE user-level record update, or ONE user-level
   add, that carries no value for the trigger column is regular for every configuration and table. *)
Theorem C15_single_update_fires_iff : forall g t cols recs r,
  memz trc cols = false ->
  In r (rows (step g t [UUpd cols recs])) -> unconstrained g t [UUpd cols recs] r = false ->
  memz r (fired g t [UUpd cols recs]) = spec g t [UUpd cols recs] r.
Proof. intros g t cols recs r H. apply fires_iff_spec. apply regular_single_update. exact H. Qed.

Theorem C15_single_add_fires_iff : forall g t cols recs r,
  memz trc cols = false ->
  In r (rows (step g t [UAdd cols recs])) -> unconstrained g t [UAdd cols recs] r = false ->
  memz r (fired g t [UAdd cols recs]) = spec g t [UAdd cols recs] r.
Proof. intros g t cols recs r H. apply fires_iff_spec. apply regular_single_add. exact H. Qed.

(* The model carries switches for the repairs proposed in /verif/notes/proposed_fixes/C15-*.diff ([fx g]; the
   harness sets them by replaying the witnesses of the known findings on the source).  With the three repairs
   add-with-value, exemption-lost and explicit-value-trimmed in place, the property holds at full strength for
   every bundle of record actions (adds, updates, removals, replayed record actions) - what remains excluded is
   a record update after a schema change in the same bundle (the two stale-edge findings). *)
Theorem C15_repaired_fires_iff : forall g t b r,
  fx_add (fx g) = true -> fx_lost (fx g) = true -> fx_trim (fx g) = true ->
  forallb record_action b = true ->
  In r (rows (step g t b)) -> unconstrained g t b r = false -> memz r (fired g t b) = spec g t b r.
Proof. exact fires_iff_spec_repaired. Qed.

(* ---------------------------------------------------------------- the five refutations (columns: 0 = trigger
   column, 1..3 = data columns A B C, 4 = formula column F reading B, 5 = formula column G reading C) *)
Definition fc := [(4, 2); (5, 3)].
Definition flags_of (a l s f tr : bool) :=
  {| fl_add := a; fl_lost := l; fl_stale := s; fl_fstale := f; fl_trim := tr |}.
Definition only_add := flags_of true false false false false.
Definition only_lost := flags_of false true false false false.
Definition only_stale := flags_of false false true false false.
Definition only_fstale := flags_of false false false true false.
Definition only_trim := flags_of false false false false true.
Definition three_rows := [UAdd [1] [(1, [(1, 1)]); (2, [(1, 2)]); (3, [(1, 3)])]].

(* DEFAULT, recalcDeps = {A}: AddRecord {A: 3, Tr: 50} - the supplied 50 is recalculated over. *)
Theorem C15_refuted_add_with_value : exists g t b r,
  In r (rows (step g t b)) /\ unconstrained g t b r = false /\ bundle_flags g t b = only_add /\
  memz r (fired g t b) = true /\ spec g t b r = false.
Proof.
  exists {| when := DEFAULT; deps := [1]; fcols := fc; fx := no_fixes |}, empty_tbl, [UAdd [1; 0] [(1, [(1, 3); (0, 50)])]], 1.
  repeat split; try (vm_compute; reflexivity). vm_compute. left. reflexivity.
Qed.

(* DEFAULT, {A}: [UpdateRecord 1 {A: 5, Tr: 77}, UpdateRecord 2 {B: 1}] in one bundle - the exemption of row 1
   is dropped when the second user action starts; 77 is recalculated over. *)
Theorem C15_refuted_exemption_lost : exists g t b r,
  In r (rows (step g t b)) /\ unconstrained g t b r = false /\ bundle_flags g t b = only_lost /\
  memz r (fired g t b) = true /\ spec g t b r = false.
Proof.
  exists {| when := DEFAULT; deps := [1]; fcols := fc; fx := no_fixes |},
         (mechanism {| when := DEFAULT; deps := [1]; fcols := fc; fx := no_fixes |} [three_rows]),
         [UUpd [1; 0] [(1, [(1, 5); (0, 77)])]; UUpd [2] [(2, [(2, 1)])]], 1.
  repeat split; try (vm_compute; reflexivity). vm_compute. left. reflexivity.
Qed.

(* DEFAULT, {A}: [RenameColumn A, UpdateRecord 1 {A: 100}] in one bundle - the dependency cell changes value
   but the edge still names the old column id; no recalculation. *)
Theorem C15_refuted_stale_edge : exists g t b r,
  In r (rows (step g t b)) /\ unconstrained g t b r = false /\ bundle_flags g t b = only_stale /\
  memz r (fired g t b) = false /\ spec g t b r = true.
Proof.
  exists {| when := DEFAULT; deps := [1]; fcols := fc; fx := no_fixes |},
         (mechanism {| when := DEFAULT; deps := [1]; fcols := fc; fx := no_fixes |} [three_rows]),
         [UDocs [DRename 1]; UUpd [1] [(1, [(1, 100)])]], 1.
  repeat split; try (vm_compute; reflexivity). vm_compute. left. reflexivity.
Qed.

(* DEFAULT, {F}: [ModifyColumn B (type), UpdateRecord 1 {B: 9}] in one bundle - the type change invalidates F for
   ALL_ROWS, which clears F's own dependency edges until F is recomputed at the end of the bundle; the change
   of B (and so of F) in row 1 never reaches the trigger column. *)
Theorem C15_refuted_formula_edges_cleared : exists g t b r,
  In r (rows (step g t b)) /\ unconstrained g t b r = false /\ bundle_flags g t b = only_fstale /\
  memz r (fired g t b) = false /\ spec g t b r = true.
Proof.
  exists {| when := DEFAULT; deps := [4]; fcols := fc; fx := no_fixes |},
         (mechanism {| when := DEFAULT; deps := [4]; fcols := fc; fx := no_fixes |} [three_rows]),
         [UDocs [DModify 2]; UUpd [2] [(1, [(2, 9)])]], 1.
  repeat split; try (vm_compute; reflexivity). vm_compute. left. reflexivity.
Qed.

(* DEFAULT, {F}: UpdateRecord 1 {Tr: <the value it has>, B: 9} - the explicit value is trimmed away as
   unchanged, nothing exempts the row, F changes, the value is recalculated over. *)
Theorem C15_refuted_trimmed_value : exists g t b r,
  In r (rows (step g t b)) /\ unconstrained g t b r = false /\ bundle_flags g t b = only_trim /\
  memz r (fired g t b) = true /\ spec g t b r = false.
Proof.
  exists {| when := DEFAULT; deps := [4]; fcols := fc; fx := no_fixes |},
         (mechanism {| when := DEFAULT; deps := [4]; fcols := fc; fx := no_fixes |} [three_rows]),
         [UUpd [0; 2] [(1, [(0, 1); (2, 9)])]], 1.
  repeat split; try (vm_compute; reflexivity). vm_compute. left. reflexivity.
Qed.

(* The same witnesses on the repaired model: the first, second, third and fifth now agree with the sentence
   (the fourth, formula-edges-cleared, has no repair). *)
Definition all_fixes := {| fx_add := true; fx_lost := true; fx_stale := true; fx_trim := true |}.
Example C15_repaired_witnesses :
  let gA := {| when := DEFAULT; deps := [1]; fcols := fc; fx := all_fixes |} in
  let gF := {| when := DEFAULT; deps := [4]; fcols := fc; fx := all_fixes |} in
  (let b := [UAdd [1; 0] [(1, [(1, 3); (0, 50)])]] in
   regular gA empty_tbl b = true /\ fired gA empty_tbl b = []) /\
  (let t := mechanism gA [three_rows] in
   let b := [UUpd [1; 0] [(1, [(1, 5); (0, 77)])]; UUpd [2] [(2, [(2, 1)])]] in
   regular gA t b = true /\ fired gA t b = []) /\
  (let t := mechanism gA [three_rows] in
   let b := [UDocs [DRename 1]; UUpd [1] [(1, [(1, 100)])]] in
   regular gA t b = true /\ fired gA t b = [1]) /\
  (let t := mechanism gF [three_rows] in
   let b := [UUpd [0; 2] [(1, [(0, 1); (2, 9)])]] in
   regular gF t b = true /\ fired gF t b = []) /\
  (let t := mechanism gF [three_rows] in
   let b := [UDocs [DModify 2]; UUpd [2] [(1, [(2, 9)])]] in
   regular gF t b = false /\ fired gF t b = []).
Proof. vm_compute. repeat split; reflexivity. Qed.

Theorem C15_refuted : ~ C15_trigger_fires_iff.
Proof.
  intros H. destruct C15_refuted_add_with_value as [g [t [b [r [Hr [Hu [_ [Hf Hs]]]]]]]].
  specialize (H g t b r Hr Hu). congruence.
Qed.

(* ---------------------------------------------------------------- non-vacuity and the unconstrained zone *)
Definition gA := {| when := DEFAULT; deps := [1]; fcols := fc; fx := no_fixes |}.
Definition gF := {| when := DEFAULT; deps := [4]; fcols := fc; fx := no_fixes |}.
Definition gSelf := {| when := DEFAULT; deps := [1; 0]; fcols := fc; fx := no_fixes |}.
Definition gNever := {| when := NEVER; deps := [1]; fcols := fc; fx := no_fixes |}.
Definition gManual := {| when := MANUAL_UPDATES; deps := []; fcols := fc; fx := no_fixes |}.

(* regular bundles exist for every clause of the sentence, and the mechanism really fires / does not fire *)
Example C15_regular_examples :
  (* new records without a value fire (DEFAULT, MANUAL_UPDATES), not under NEVER *)
  (regular gA empty_tbl three_rows = true /\ fired gA empty_tbl three_rows = [1; 2; 3]) /\
  (regular gNever empty_tbl three_rows = true /\ fired gNever empty_tbl three_rows = []) /\
  (* DEFAULT: dependency A of row 1 changes, only the non-dependency B of row 2 is written: only row 1 *)
  (let t := mechanism gA [three_rows] in
   let b := [UUpd [1] [(1, [(1, 9)])]; UUpd [2] [(2, [(2, 5)])]] in
   regular gA t b = true /\ fired gA t b = [1] /\ unconstrained gA t b 2 = false /\ unconstrained gA t b 1 = false) /\
  (* explicit value together with a dependency change: kept; with self-dependency: recalculated *)
  (let t := mechanism gA [three_rows] in let b := [UUpd [1; 0] [(1, [(1, 9); (0, 77)])]] in
   regular gA t b = true /\ fired gA t b = [] /\ spec gA t b 1 = false) /\
  (let t := mechanism gSelf [three_rows] in let b := [UUpd [0] [(1, [(0, 77)])]] in
   regular gSelf t b = true /\ fired gSelf t b = [1] /\ spec gSelf t b 1 = true) /\
  (* a data-cleaning column also cleans the value a new record comes with; any other column keeps it
     (no dependencies here, so the first known finding does not interfere) *)
  (let b := [UAdd [1; 0] [(7, [(1, 3); (0, 50)])]] in
   regular gSelf empty_tbl b = true /\ fired gSelf empty_tbl b = [7] /\ spec gSelf empty_tbl b 7 = true /\
   regular gManual empty_tbl b = true /\ fired gManual empty_tbl b = [] /\ spec gManual empty_tbl b 7 = false) /\
  (* MANUAL_UPDATES: any user update that changes the row; a same-value update does not *)
  (let t := mechanism gManual [three_rows] in
   let b := [UUpd [3] [(1, [(3, 4)]); (2, [(3, 0)])]] in
   regular gManual t b = true /\ fired gManual t b = [1] /\ unconstrained gManual t b 2 = false) /\
  (* undo of an update (replayed doc actions carrying the old trigger value): nothing fires *)
  (let t := mechanism gA [three_rows; [UUpd [1] [(1, [(1, 9)])]]] in
   let b := [UDocs [DUpd [0] [(1, [(0, 1)])]; DUpd [1] [(1, [(1, 1)])]]] in
   regular gA t b = true /\ fired gA t b = [] /\ spec gA t b 1 = false).
Proof. vm_compute. repeat split; reflexivity. Qed.

(* What the sentence leaves open, and what the engine does there (recorded, not required):
   a dependency written with the value it has fires when another cell of the action keeps the row and the
   column in the trimmed action (row 2 below), and does not when the whole write is trimmed away;
   a formula dependency recomputed to the same value (B: 2 -> 3, F = B // 2 stays 1) fires. *)
Example C15_unconstrained_zone :
  (let t := mechanism gA [three_rows] in
   let b := [UUpd [1; 2] [(1, [(1, 9); (2, 0)]); (2, [(1, 2); (2, 5)])]] in
   unconstrained gA t b 2 = true /\ memz 2 (fired gA t b) = true) /\
  (let t := mechanism gA [three_rows] in
   let b := [UUpd [1] [(1, [(1, 9)]); (2, [(1, 2)])]] in
   unconstrained gA t b 2 = true /\ memz 2 (fired gA t b) = false) /\
  (let t := mechanism gF [three_rows; [UUpd [2] [(1, [(2, 2)])]]] in
   let b := [UUpd [2] [(1, [(2, 3)])]] in
   unconstrained gF t b 1 = true /\ memz 1 (fired gF t b) = true).
Proof. vm_compute. repeat split; reflexivity. Qed.

(* ================================================================ THE CODE (coq/gen/Trigger_gen.v)
   The functions gen_* are translated from /repo/sandbox/grist on every run (harness/tg2v.py): schema.RecalcWhen,
   docmodel recalcOnChangesToSelf, relation.SingleRowsIdentityRelation.get_affected_rows, column.is_formula,
   Engine.prevent_recalc / trim_update_action / invalidate_column / invalidate_records / add_records /
   _maybe_update_trigger_dependencies, DocActions.Bulk{Add,Update,Remove}Record and the trigger parts of
   UserActions.doBulkAddOrReplace / doBulkUpdateRecord (the rest of those functions is pinned statement by statement).
   The obligations below say, pointwise, that the generated code is the hand model; an edit of the translated code
   changes a gen_* definition and breaks one of them. *)
Theorem C15_bridge_recalc_when :
  RecalcWhen_DEFAULT = when_code DEFAULT /\ RecalcWhen_NEVER = when_code NEVER /\
  RecalcWhen_MANUAL_UPDATES = when_code MANUAL_UPDATES.
Proof. exact bridge_recalc_when. Qed.

Theorem C15_bridge_recalcOnChangesToSelf : forall g, gen_recalcOnChangesToSelf (trigger_col g) = selfdep g.
Proof. exact bridge_recalcOnChangesToSelf. Qed.

Theorem C15_bridge_get_affected_rows :
  gen_get_affected_rows AllRows = Rows [] /\ forall l, gen_get_affected_rows (Rows l) = Rows l.
Proof. exact bridge_get_affected_rows. Qed.

Theorem C15_bridge_is_formula : forall b, gen_is_formula b = b.
Proof. exact bridge_is_formula. Qed.

Theorem C15_bridge_prevent_recalc : forall r S rows b,
  zmem r (gen_prevent_recalc S rows b) = if b then zmem r S || zmem r rows else zmem r S && negb (zmem r rows).
Proof. exact bridge_prevent_recalc. Qed.

Theorem C15_bridge_trim_update_action : forall t cols0 recs,
  let a' := gen_trim_update_action (fun col r => cell t r col) (columnar cols0 recs) in
  act_rows a' = ids (trim_recs t (trim_cols t cols0 recs) recs) /\ keys (act_cols a') = trim_cols t cols0 recs.
Proof. exact bridge_trim_update_action. Qed.

Theorem C15_bridge_trigger_dependencies : forall g cols, cols_ok g cols ->
  edge_sources (gen_trigger_dependencies cols false) = (if is_default g then deps g else []) /\
  gen_trigger_dependencies cols true = [].
Proof. exact bridge_trigger_dependencies. Qed.

Theorem C15_bridge_doc_BulkAddRecord : forall g cols m c recs cv, cols_ok g cols -> fx_add (fx g) = false ->
  meq (run_effs g m (gen_doc_BulkAddRecord cols (ids recs) cv)) (mech_doc g m (DAdd c recs)).
Proof. exact bridge_doc_BulkAddRecord. Qed.

Theorem C15_bridge_doc_BulkUpdateRecord : forall g cols m columns recs, cols_ok g cols ->
  (forall c, In c (keys columns) -> In c (map ci_id cols)) ->
  meq (run_effs g m (gen_doc_BulkUpdateRecord cols (ids recs) columns)) (mech_doc g m (DUpd (keys columns) recs)).
Proof. exact bridge_doc_BulkUpdateRecord. Qed.

Theorem C15_bridge_doc_BulkRemoveRecord : forall g cols m rs, cols_ok g cols ->
  meq (run_effs g m (gen_doc_BulkRemoveRecord cols (fun l => l) rs)) (mech_doc g m (DRem rs)).
Proof. exact bridge_doc_BulkRemoveRecord. Qed.

Theorem C15_bridge_doBulkAddOrReplace : forall g cols t m cv recs, cols_ok g cols -> fx_add (fx g) = false ->
  meq (run_effs g m (gen_doBulkAddOrReplace cols false (ids recs) cv)) (mech_user g t m (UAdd (keys cv) recs)).
Proof. exact bridge_doBulkAddOrReplace. Qed.

Theorem C15_bridge_doBulkUpdateRecord : forall g cols t m cols0 recs, cols_ok g cols -> fx_trim (fx g) = false ->
  (forall c, In c cols0 -> In c (map ci_id cols)) ->
  meq (run_effs g m (gen_doBulkUpdateRecord cols (fun col r => cell t r col) (fun l => l) (fun a => a)
                                            (ids recs) (snd (columnar cols0 recs))))
      (mech_user g t m (UUpd cols0 recs)).
Proof. exact bridge_doBulkUpdateRecord. Qed.

(* the whole bundle: the rows for which the code-level mechanism evaluates the trigger formula *)
Theorem C15_bridge_code_fires : forall g cols t b, cols_ok g cols -> fx g = no_fixes -> Forall (act_cols_ok cols) b ->
  cfired g cols t b = fired g t b.
Proof. exact cfired_is_fired. Qed.

(* ---------------------------------------------------------------- the property, about the generated code *)
Theorem C15_code_trigger_fires_iff_partial : forall g cols t b r,
  cols_ok g cols -> fx g = no_fixes -> Forall (act_cols_ok cols) b -> regular g t b = true ->
  In r (rows (step g t b)) -> unconstrained g t b r = false -> memz r (cfired g cols t b) = spec g t b r.
Proof. intros g cols t b r Hok Hfx Hb. rewrite (cfired_is_fired g cols t b Hok Hfx Hb). apply fires_iff_spec. Qed.

Theorem C15_code_fired_between_bounds_partial : forall g cols t b r,
  cols_ok g cols -> fx g = no_fixes -> Forall (act_cols_ok cols) b -> regular g t b = true ->
  (must g t b r = true -> In r (rows (step g t b)) -> In r (cfired g cols t b)) /\
  (In r (cfired g cols t b) -> may g t b r = true /\ In r (rows (step g t b))).
Proof.
  intros g cols t b r Hok Hfx Hb. rewrite (cfired_is_fired g cols t b Hok Hfx Hb). apply C15_fired_between_bounds_partial.
Qed.

Theorem C15_code_single_update_fires_iff : forall g cols t cs recs r,
  cols_ok g cols -> fx g = no_fixes -> (forall x, In x cs -> In x (map ci_id cols)) -> memz trc cs = false ->
  In r (rows (step g t [UUpd cs recs])) -> unconstrained g t [UUpd cs recs] r = false ->
  memz r (cfired g cols t [UUpd cs recs]) = spec g t [UUpd cs recs] r.
Proof.
  intros g cols t cs recs r Hok Hfx Hc Ht. rewrite (cfired_is_fired g cols t _ Hok Hfx); [|repeat constructor; exact Hc].
  apply C15_single_update_fires_iff. exact Ht.
Qed.

Theorem C15_code_single_add_fires_iff : forall g cols t cs recs r,
  cols_ok g cols -> fx g = no_fixes -> memz trc cs = false ->
  In r (rows (step g t [UAdd cs recs])) -> unconstrained g t [UAdd cs recs] r = false ->
  memz r (cfired g cols t [UAdd cs recs]) = spec g t [UAdd cs recs] r.
Proof.
  intros g cols t cs recs r Hok Hfx Ht. rewrite (cfired_is_fired g cols t _ Hok Hfx); [|repeat constructor].
  apply C15_single_add_fires_iff. exact Ht.
Qed.

(* the table of the harness (columns 0 = trigger, 1..3 data, 4 and 5 formula) satisfies cols_ok, for each configuration
   used above; and on it the code-level mechanism computes the refuting witnesses too *)
Definition harness_cols (g : cfg) : list colinfo :=
  [plain_col 1; plain_col 2; plain_col 3; formula_col 4; formula_col 5; trigger_col g].
Example C15_cols_ok_examples :
  cols_ok gA (harness_cols gA) /\ cols_ok gF (harness_cols gF) /\ cols_ok gSelf (harness_cols gSelf) /\
  cols_ok gNever (harness_cols gNever) /\ cols_ok gManual (harness_cols gManual).
Proof. repeat match goal with |- _ /\ _ => split end; apply cols_okb_ok; vm_compute; reflexivity. Qed.

Example C15_code_witnesses :
  cfired gA (harness_cols gA) empty_tbl [UAdd [1; 0] [(1, [(1, 3); (0, 50)])]] = [1] /\
  cfired gA (harness_cols gA) (mechanism gA [three_rows]) [UUpd [1; 0] [(1, [(1, 5); (0, 77)])]; UUpd [2] [(2, [(2, 1)])]] = [1] /\
  cfired gA (harness_cols gA) (mechanism gA [three_rows]) [UDocs [DRename 1]; UUpd [1] [(1, [(1, 100)])]] = [] /\
  cfired gF (harness_cols gF) (mechanism gF [three_rows]) [UUpd [0; 2] [(1, [(0, 1); (2, 9)])]] = [1].
Proof. vm_compute. repeat split; reflexivity. Qed.
