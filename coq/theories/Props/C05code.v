(* C05, code level.  coq/gen/Deps_gen.v is REGENERATED from /repo's relation.py, lookup.py, depend.py and engine.py on
   every run (harness/dep2v*.py); coq/gen/K4_gen.v (ReferenceRelation) by harness/k4tr.py.  The bridging obligations
   say that each generated function is the hand model the C05 theorems are about; the C05_code_* theorems restate the
   main results about the generated functions themselves. *)
From Coq Require Import ZArith List Bool Lia.
Import ListNotations.
Require Import Grist.Model.Deps Grist.Model.DepsSpec Grist.Model.DepsExec Grist.Model.DepsEval Grist.Lib.DepsGenPrelude.
Require Import Grist.Proofs.DepsSpec_proofs Grist.Proofs.Deps_closure_proofs Grist.Proofs.Deps_inval_proofs
               Grist.Proofs.Deps_order_proofs Grist.Proofs.Deps_refine_proofs Grist.Proofs.Deps_term_proofs
               Grist.Proofs.Deps_bridge Grist.Proofs.Deps_bridge2 Grist.Proofs.Deps_bridge_ref.
Require Grist.Model.RefIndex Grist.Model.K4Support GristGen.K4_gen.
Require Import GristGen.Deps_gen.
Open Scope Z_scope.

(* ---- bridging obligations: generated = model ------------------------------------------------------------- *)
Theorem C05_bridge_identity : forall R x, gen_identity_affected x = affected R RId x.
Proof. exact bridge_identity. Qed.
Theorem C05_bridge_single_rows_identity : forall R x, gen_single_affected x = affected R RSingle x.
Proof. exact bridge_single. Qed.
Theorem C05_bridge_composed :
  forall R a b x, gen_composed_affected (affected R a) (affected R b) x = affected R (RComp a b) x.
Proof. exact bridge_composed. Qed.
Theorem C05_bridge_composed_reset_rows :
  forall R a b x, gen_composed_reset_rows (fun R y => reset_rows R a y) R x = reset_rows R (RComp a b) x.
Proof. exact bridge_composed_reset. Qed.
Theorem C05_bridge_reset_all : forall R r, gen_reset_all (fun R y => reset_rows R r y) R = reset_all R r.
Proof. exact bridge_reset_all. Qed.
Theorem C05_bridge_reference_all : forall m, K4_gen.gen_get_affected_rows m K4Support.AllRows = K4Support.ARAll.
Proof. exact bridge_reference_all. Qed.
Theorem C05_bridge_reference_rows :
  forall c m l r, In r (K4Support.ar_rows (K4_gen.gen_get_affected_rows m (K4Support.Rows l))) <->
                  In (Z.of_nat r) (aff_l (relst_of_inv c m) (RRef c) l).
Proof. exact bridge_reference_rows. Qed.
Theorem C05_bridge_lookup_all :
  forall R m n, gen_lookup_affected (lkkeys R m) (lk_right R m n) AllRows = affected R (RLook m n) AllRows.
Proof. exact bridge_lookup_all. Qed.
Theorem C05_bridge_lookup_rows :
  forall R m n l r, in_rowset r (gen_lookup_affected (lkkeys R m) (lk_right R m n) (Rows l)) =
                    in_rowset r (affected R (RLook m n) (Rows l)).
Proof. exact bridge_lookup_rows. Qed.
Theorem C05_bridge_add_lookup :
  forall R m n r k, gen_add_lookup (lkrows R m n) r k = lkrows (add_lookup R m n r k) m n.
Proof. exact bridge_add_lookup. Qed.
Theorem C05_bridge_add_edge : forall E o i r, gen_add_edge E o i r = add_edge E (o, i, r).
Proof. exact bridge_add_edge. Qed.
Theorem C05_bridge_clear_dependencies : forall E R n, gen_clear_dependencies E R n = clear_dependencies E R n.
Proof. exact bridge_clear_dependencies. Qed.
Theorem C05_bridge_reset_dependencies : forall E R n x, gen_reset_dependencies E R n x = reset_dependencies E R n x.
Proof. exact bridge_reset_dependencies. Qed.
Theorem C05_bridge_invalidate_deps :
  forall fuel g n x incl, gen_invalidate_deps fuel g n x incl = invalidate_deps fuel g n x incl.
Proof. exact bridge_invalidate_deps. Qed.
Theorem C05_bridge_use_node :
  forall cur E seen node relation, (forall e, In e seen -> In e E) ->
    let r := gen_use_node_record false true cur E seen node relation in
    fst r = add_edge E (cur, node, relation) /\ (forall e, In e (snd r) -> In e (fst r)).
Proof. exact bridge_use_node. Qed.
Theorem C05_bridge_use_node_off :
  forall cur E seen node relation,
    gen_use_node_record true true cur E seen node relation = (E, seen) /\
    gen_use_node_record false false cur E seen node relation = (E, seen).
Proof. exact bridge_use_node_off. Qed.
Theorem C05_bridge_record_reads :
  forall cur tr E seen, (forall e, In e seen -> In e E) -> fst (run_use cur tr E seen) = record_reads E cur tr.
Proof. exact bridge_record_reads. Qed.

(* ---- the main results, about the generated code ------------------------------------------------------------ *)
Theorem C05_code_invalidate_deps_spec :
  forall fuel g n x incl g',
    owner_ok (g_edges g) -> gen_invalidate_deps fuel g n x incl = Some g' ->
    mono (g_map g) (g_map g') /\
    (if incl then batch_in (g_map g') (n, x) else closed_batch (g_edges g) (g_rel g) (g_map g') n x) /\
    new_closed (g_edges g) (g_rel g) (RBi (g_edges g) (g_rel g) n x incl) (g_map g) (g_map g').
Proof. intros fuel g n x incl g' Ho H. rewrite bridge_invalidate_deps in H. exact (invalidate_deps_spec _ _ _ _ _ _ Ho H). Qed.

Theorem C05_code_invalidate_deps_terminates :
  forall g n x inc NS RS,
    (forall e, In e (g_edges g) -> In (e_out e) NS) -> In n NS ->
    (forall e q r, In e (g_edges g) -> In q RS -> In r (aff_l (g_rel g) (e_rel e) [q]) -> In r RS) ->
    (x = AllRows \/ exists l, x = Rows l /\ incl l RS) ->
    exists g', gen_invalidate_deps (fuel_bound (g_edges g) NS RS) g n x inc = Some g'.
Proof.
  intros g n x inc NS RS H1 H2 H3 H4. destruct (invalidate_deps_terminates g n x inc NS RS H1 H2 H3 H4) as [g' Hg].
  exists g'. rewrite bridge_invalidate_deps. exact Hg.
Qed.

(* a data edit followed by the GENERATED invalidate_deps is an edit the kernel accepts *)
Theorem C05_code_data_edit_refines :
  forall (guarded : state -> cell -> cell -> (Z -> Z) -> Prop) fuel v f g d x g',
    owner_ok (g_edges g) -> f d = None ->
    gen_invalidate_deps fuel g (fst d) (Rows [snd d]) false = Some g' ->
    (forall c d0 p, guarded (to_state v f g) c d0 p ->
       guarded (to_state (upd v d x) f g') c d0 p /\ p (upd v d x d0) = p (v d0)) ->
    edit_ok guarded (to_state v f g) (fun c => cell_eqb c d) (to_state (upd v d x) f g').
Proof. intros guarded fuel v f g d x g' Ho Hf H Hg. rewrite bridge_invalidate_deps in H. exact (data_edit_ok guarded fuel v f g d x g' Ho Hf H Hg). Qed.

Example C05_code_ex :
  gen_invalidate_deps 5 (mkG [(2, 1, RId)] (mkR (fun _ _ => []) (fun _ _ => []) (fun _ _ => [])) (fun _ => None) []) 1 (Rows [1]) false
  = invalidate_deps 5 (mkG [(2, 1, RId)] (mkR (fun _ _ => []) (fun _ _ => []) (fun _ _ => [])) (fun _ => None) []) 1 (Rows [1]) false.
Proof. reflexivity. Qed.
