(* C19 -- Invalid formulas are isolated and valid ones mean what they say.
   Line-level kernel: how a formula text is placed into the shared generated module
   (codebuilder._indent/_dedent/_create_syntax_error_code, the `$name` patches of _do_make_formula_body).
   Models: Model/Codegen.v, Model/Dollar.v (hand-written, compared with the running code on every run by
   harness/props/c19.py).  Statements only; proofs are in Proofs/Codegen_proofs.v and Proofs/Dollar_proofs.v.

   On the current source the full statements are FALSE: a bare "\r" ends a physical line for CPython's tokenizer
   but not for the `^` of the regular expressions (C19_refuted_cr).  They are proved under "no bare \r"
   (theorems named _partial), and in full for the repaired variants (..._fixed: line endings normalised first, as
   in notes/proposed_fixes/C19-carriage-return.diff). *)
From Coq Require Import ZArith List Bool Permutation.
Import ListNotations.
Require Import Grist.Model.Codegen Grist.Model.Dollar Grist.Proofs.Codegen_proofs Grist.Proofs.Dollar_proofs.
Open Scope Z_scope.

(* ---- the full statements about the code as it is (kept as definitions: they are refuted below) ---- *)
Definition comment_out_all_lines_stmt : Prop := forall t, all_commented (comment_re t).
Definition indent_all_lines_stmt : Prop :=
  forall ind t, ~ In NL ind -> ~ In CR ind -> all_indented ind (indent_re ind t).
Definition dedent_sound_stmt : Prop := forall t, dedent_ok t (dedent_re t).
Definition stub_is_wellformed_stmt : Prop :=
  forall ind printable name msg line col1 ltext t,
    ~ In NL ind -> ~ In CR ind -> Forall (fun c => c <> NL /\ c <> CR) name ->
    stub_wellformed ind (indent_re ind (stub_code printable name msg line col1 ltext t))
                    printable name msg line col1 ltext.
Definition indent_columns_stmt : Prop :=
  forall n t, all_indented_cols (repeat SP n) (indent_re (repeat SP n) t).

(* witnesses: "foo(\rbar", "x = 1\rreturn x", "  a\r  b" *)
Definition w_foo_cr_bar : text := [102; 111; 111; 40; 13; 98; 97; 114].
Definition w_assign_cr_return : text := [120; 32; 61; 32; 49; 13; 114; 101; 116; 117; 114; 110; 32; 120].
Definition w_indented_cr : text := [32; 32; 97; 13; 32; 32; 98].
Definition four_spaces : text := repeat SP 4.
Definition s_SyntaxError : text := [83; 121; 110; 116; 97; 120; 69; 114; 114; 111; 114].

(* The generated text for "foo(\rbar" is "# foo(\rbar": its second physical line is `bar`, live code. *)
Theorem C19_refuted_cr :
  ~ comment_out_all_lines_stmt /\ ~ indent_all_lines_stmt /\ ~ dedent_sound_stmt /\ ~ stub_is_wellformed_stmt.
Proof.
  split; [|split; [|split]].
  - intros H. specialize (H w_foo_cr_bar). unfold all_commented in H.
    assert (E : phys_lines (comment_re w_foo_cr_bar) = [[35; 32; 102; 111; 111; 40]; [98; 97; 114]])
      by (vm_compute; reflexivity).
    rewrite E in H. apply Forall_inv_tail, Forall_inv in H. vm_compute in H. discriminate H.
  - intros H. specialize (H four_spaces w_assign_cr_return). unfold all_indented in H.
    assert (E : phys_lines (indent_re four_spaces w_assign_cr_return)
                = [[32; 32; 32; 32; 120; 32; 61; 32; 49]; [114; 101; 116; 117; 114; 110; 32; 120]])
      by (vm_compute; reflexivity).
    rewrite E in H.
    assert (H' := H ltac:(vm_compute; intuition discriminate) ltac:(vm_compute; intuition discriminate)).
    apply Forall_inv_tail, Forall_inv in H'. specialize (H' eq_refl). vm_compute in H'. discriminate H'.
  - intros H. specialize (H w_indented_cr). destruct H as [sh [_ H]].
    assert (E1 : phys_lines w_indented_cr = [[32; 32; 97]; [32; 32; 98]]) by (vm_compute; reflexivity).
    assert (E2 : phys_lines (dedent_re w_indented_cr) = [[97]; [32; 32; 98]]) by (vm_compute; reflexivity).
    rewrite E1, E2 in H. inversion H as [|? ? ? ? R1 H2]; subst. inversion H2 as [|? ? ? ? R2 _]; subst.
    destruct R1 as [R1|[R1 _]]; [|vm_compute in R1; discriminate R1].
    destruct R2 as [R2|[R2 _]]; [|vm_compute in R2; discriminate R2].
    change [32; 32; 97] with ([32; 32] ++ [97]) in R1. apply app_inj_tail in R1. destruct R1 as [<- _].
    discriminate R2.
  - intros H.
    specialize (H four_spaces (fun _ => true) s_SyntaxError [] 1 1 [] w_foo_cr_bar
                  ltac:(vm_compute; intuition discriminate) ltac:(vm_compute; intuition discriminate)
                  ltac:(repeat constructor; discriminate)).
    destruct H as [comments [E [Hc _]]].
    set (rs := four_spaces ++ raise_stmt (fun _ => true) s_SyntaxError [] 1 1 []) in *.
    assert (E0 : phys_lines (indent_re four_spaces
                   (stub_code (fun _ => true) s_SyntaxError [] 1 1 [] w_foo_cr_bar))
                 = [[32; 32; 32; 32; 35; 32; 102; 111; 111; 40]; [98; 97; 114]] ++ [rs])
      by (vm_compute; reflexivity).
    rewrite E0 in E. apply app_inj_tail in E. destruct E as [<- _].
    apply Forall_inv_tail, Forall_inv in Hc. vm_compute in Hc. discriminate Hc.
Qed.

(* A form feed resets the tokenizer's column: "\f1" indented by four blanks still sits at column 0. *)
Theorem C19_refuted_ff : ~ indent_columns_stmt.
Proof.
  intros H. specialize (H 4%nat [12; 49]). unfold all_indented_cols in H.
  assert (E : phys_lines (indent_re (repeat SP 4) [12; 49]) = [[32; 32; 32; 32; 12; 49]]) by (vm_compute; reflexivity).
  rewrite E in H. apply Forall_inv in H. specialize (H eq_refl). vm_compute in H. apply H. reflexivity.
Qed.

(* ---- physical lines: the definition agrees with the tokenizer's own normalisation ---- *)
Theorem C19_phys_lines_universal : forall t, phys_lines (universal_newlines t) = phys_lines t.
Proof. exact phys_lines_universal. Qed.

(* ---- comment-out ---- *)
Theorem C19_comment_out_all_lines_partial : forall t,
  no_bare_cr (rstrip t) = true -> all_commented (comment_re t).
Proof. exact comment_all_lines_nbc. Qed.

Theorem C19_comment_out_all_lines_fixed : forall t, all_commented (comment_fixed t).
Proof. exact comment_all_lines_fixed. Qed.

(* ---- indent ---- *)
Theorem C19_indent_all_lines_partial : forall ind t,
  ~ In NL ind -> ~ In CR ind -> no_bare_cr t = true -> all_indented ind (indent_re ind t).
Proof. exact indent_all_lines_nbc. Qed.

Theorem C19_indent_all_lines_fixed : forall ind t,
  ~ In NL ind -> ~ In CR ind -> all_indented ind (indent_fixed ind t).
Proof. exact indent_all_lines_fixed. Qed.

(* with the tokenizer's column rule; the form feed is not repaired by the proposed patch, so this one stays
   partial for the repaired variant too *)
Theorem C19_indent_columns_partial : forall n t,
  ~ In FF t -> no_bare_cr t = true -> all_indented_cols (repeat SP n) (indent_re (repeat SP n) t).
Proof. exact indent_cols_nbc. Qed.

Theorem C19_indent_columns_fixed_partial : forall n t,
  ~ In FF t -> all_indented_cols (repeat SP n) (indent_fixed (repeat SP n) t).
Proof. exact indent_cols_fixed. Qed.

(* ---- dedent ---- *)
Theorem C19_dedent_sound_partial : forall t, no_bare_cr t = true -> dedent_ok t (dedent_re t).
Proof. exact dedent_nbc. Qed.

Theorem C19_dedent_sound_fixed : forall t, dedent_ok t (dedent_fixed t).
Proof. exact dedent_fixed_ok. Qed.

(* ---- the syntax-error stub as placed into a function body of the shared module: comment lines carrying the
   indent, then one line `raise Name('...', ('usercode', n, n, '...'))` without a line end inside, whose two
   literals are complete string literals by the tokenizer's rule; for every printable-table ---- *)
Theorem C19_stub_is_wellformed_partial : forall ind printable name msg line col1 ltext t,
  ~ In NL ind -> ~ In CR ind -> Forall (fun c => c <> NL /\ c <> CR) name ->
  no_bare_cr (rstrip t) = true ->
  stub_wellformed ind (indent_re ind (stub_code printable name msg line col1 ltext t))
                  printable name msg line col1 ltext.
Proof. exact stub_wellformed_nbc. Qed.

Theorem C19_stub_is_wellformed_fixed : forall ind printable name msg line col1 ltext t,
  ~ In NL ind -> ~ In CR ind -> Forall (fun c => c <> NL /\ c <> CR) name ->
  stub_wellformed ind (indent_re ind (stub_fixed printable name msg line col1 ltext t))
                  printable name msg line col1 ltext.
Proof. exact stub_wellformed_fixed. Qed.

(* repr() of any string is one complete short string literal without a line end, whatever the message is *)
Theorem C19_repr_is_one_literal : forall printable s rest,
  scan_string (py_repr printable s ++ rest) = Some rest /\
  Forall (fun c => c <> NL /\ c <> CR) (py_repr printable s).
Proof. intros. split; [apply scan_py_repr|apply py_repr_no_le]. Qed.

(* ---- `$name` -> `rec.name` and `return`: applying the patches the code builds from the parser's positions
   (name tokens written with `$`, in any order; start of the final expression statement) gives the per-token
   meaning: `$x` is `rec.x` outside string/comment tokens, the last expression is returned ---- *)
Theorem C19_dollar_translation : forall (ks : list tok) (name_pos : list Z) (last_expr : option Z),
  forallb tok_wf ks = true ->
  Permutation name_pos (name_offsets 0 ks) ->
  mark_offsets 0 ks = match last_expr with Some p => [p] | None => [] end ->
  translate (src_of ks) name_pos last_expr = spec_of ks.
Proof. exact translate_meets_spec. Qed.

(* ---- non-vacuity of the hypotheses ---- *)
(* "if x:\r\n    y\r\n" + "\r\n" line ends: no bare "\r"; the partial theorems speak about it *)
Definition ex_crlf : text := [32; 32; 105; 102; 32; 120; 58; 13; 10; 32; 32; 32; 32; 121; 13; 10; 13; 10; 32; 32; 122].
Example C19_partial_nonvacuous :
  no_bare_cr ex_crlf = true /\ no_bare_cr (rstrip ex_crlf) = true /\ ~ In FF ex_crlf /\
  phys_lines (comment_re ex_crlf)
    = [[35; 32; 32; 32; 105; 102; 32; 120; 58]; [35; 32; 32; 32; 32; 32; 121]; [35; 32]; [35; 32; 32; 32; 122]] /\
  phys_lines (indent_re four_spaces ex_crlf)
    = [[32; 32; 32; 32; 32; 32; 105; 102; 32; 120; 58]; [32; 32; 32; 32; 32; 32; 32; 32; 121]; [];
       [32; 32; 32; 32; 32; 32; 122]] /\
  (* the "\r" of the empty CRLF line stops the code's dedent (no shared indent found); the repaired one finds it *)
  dedent_re ex_crlf = ex_crlf /\
  phys_lines (dedent_fixed ex_crlf) = [[105; 102; 32; 120; 58]; [32; 32; 121]; []; [122]].
Proof.
  repeat split; try (vm_compute; reflexivity). vm_compute. intuition discriminate.
Qed.

Example C19_fixed_on_witnesses :
  phys_lines (comment_fixed w_foo_cr_bar) = [[35; 32; 102; 111; 111; 40]; [35; 32; 98; 97; 114]] /\
  phys_lines (indent_fixed four_spaces w_assign_cr_return)
    = [[32; 32; 32; 32; 120; 32; 61; 32; 49]; [32; 32; 32; 32; 114; 101; 116; 117; 114; 110; 32; 120]] /\
  phys_lines (dedent_fixed w_indented_cr) = [[97]; [98]].
Proof. repeat split; vm_compute; reflexivity. Qed.

(* `$a + '$b' # $c` then `$d` on the next line; the parser's answers given in reverse order *)
Example C19_dollar_nonvacuous :
  let ks := [TMark; TDollar [97]; TCode [32; 43; 32]; TOpaque [39; 36; 98; 39]; TCode [32];
             TOpaque [35; 32; 36; 99]; TCode [10]; TDollar [100]] in
  forallb tok_wf ks = true /\
  translate (src_of ks) (rev (name_offsets 0 ks)) (Some 0) = spec_of ks /\
  spec_of ks = s_return ++ s_rec ++ [97; 32; 43; 32; 39; 36; 98; 39; 32; 35; 32; 36; 99; 10] ++ s_rec ++ [100].
Proof. exact translate_example. Qed.

(* ---- placement into the shared module (gencode._make_formula_field): a blank line, the `def` line, then exactly
   the physical lines of the body, then a blank line; so a body whose lines are all comment/raise/indented lines
   stays inside its own function.  The stub bodies satisfy the hypothesis (second and third theorem). ---- *)
Theorem C19_field_lines : forall indent name params body,
  Forall (fun c => c <> NL /\ c <> CR) indent -> Forall (fun c => c <> NL /\ c <> CR) name ->
  Forall (fun c => c <> NL /\ c <> CR) params -> no_bare_cr body = true ->
  phys_lines (formula_field indent name params body)
  = [] :: (indent ++ s_def ++ name ++ [40] ++ params ++ [41; 58]) :: phys_lines body ++ [[]].
Proof. exact field_lines. Qed.

Theorem C19_stub_body_no_bare_cr_partial : forall ind printable name msg line col1 ltext t,
  ~ In NL ind -> ~ In CR ind -> Forall (fun c => c <> NL /\ c <> CR) name -> no_bare_cr (rstrip t) = true ->
  no_bare_cr (indent_re ind (stub_code printable name msg line col1 ltext t)) = true.
Proof. exact stub_body_nbc. Qed.

Theorem C19_stub_body_no_bare_cr_fixed : forall ind printable name msg line col1 ltext t,
  ~ In NL ind -> ~ In CR ind -> Forall (fun c => c <> NL /\ c <> CR) name ->
  no_bare_cr (indent_re ind (stub_fixed printable name msg line col1 ltext t)) = true.
Proof. exact stub_body_nbc_fixed. Qed.

(* def X(rec, table): with the stub of "foo(\rbar" after the repair *)
Example C19_field_nonvacuous :
  let body := indent_re four_spaces (stub_fixed (fun _ => true) s_SyntaxError [] 1 1 [] w_foo_cr_bar) in
  no_bare_cr body = true /\
  phys_lines (formula_field [32; 32] [88] [114; 101; 99] body)
  = [ []; [32; 32; 100; 101; 102; 32; 88; 40; 114; 101; 99; 41; 58];
      [32; 32; 32; 32; 35; 32; 102; 111; 111; 40]; [32; 32; 32; 32; 35; 32; 98; 97; 114];
      four_spaces ++ raise_stmt (fun _ => true) s_SyntaxError [] 1 1 []; [] ].
Proof. split; vm_compute; reflexivity. Qed.
