(* C19 -- placeholder while the proofs are being written. *)
From Coq Require Import ZArith List Bool.
Import ListNotations.
Require Import Grist.Model.Codegen Grist.Model.Dollar.
Open Scope Z_scope.
Example C19_placeholder : phys_lines [97; 13; 98] = [[97]; [98]].
Proof. vm_compute. reflexivity. Qed.
