(* C19 -- Invalid formulas are isolated and valid ones mean what they say.
   Line-level kernel: how a formula text is placed into the shared generated module
   (codebuilder._do_make_formula_body/_indent/_dedent/_create_syntax_error_code/make_formula_body,
   gencode._make_formula_field).  Models: Model/Codegen.v, Model/Dollar.v (hand-written, compared with the running
   code on every run by harness/props/c19.py).  Statements only; proofs are in Proofs/Codegen_proofs.v and
   Proofs/Dollar_proofs.v.

   Since /repo commits 2055653 (line ends normalised before the line-based code generation) and 66ce871 (un-indent
   of multi-line strings) the statements hold for ALL formula texts; the former witnesses ("foo(\rbar", ...) are kept
   as regression examples.  Still open on the source: a form feed in leading whitespace (C19_refuted_ff). *)
From Coq Require Import ZArith List Bool Permutation.
Import ListNotations.
Require Import Grist.Model.Codegen Grist.Model.Dollar Grist.Proofs.Codegen_proofs Grist.Proofs.Dollar_proofs.
Open Scope Z_scope.

Definition four_spaces : text := repeat SP 4.
Definition s_SyntaxError : text := [83; 121; 110; 116; 97; 120; 69; 114; 114; 111; 114].

(* ---- physical lines: the definition agrees with the tokenizer's own normalisation ---- *)
Theorem C19_phys_lines_universal : forall t, phys_lines (universal_newlines t) = phys_lines t.
Proof. exact phys_lines_universal. Qed.

(* the text the code works on after its first two steps holds no "\r" at all *)
Theorem C19_formula_text_has_no_cr : forall f, ~ In CR (formula_text f).
Proof. exact formula_text_crfree. Qed.

(* ---- comment-out: every physical line of the commented part of a syntax-error stub starts with '#' ---- *)
Theorem C19_comment_out_all_lines : forall f, all_commented (comment_re (formula_text f)).
Proof. exact comment_out_all_lines. Qed.

(* ---- indent: every non-blank physical line of an indented body carries the indent; for the formula text itself
   and for any body without "\r" (patched formula texts and stubs are such bodies) ---- *)
Theorem C19_indent_all_lines : forall ind f,
  ~ In NL ind -> ~ In CR ind -> all_indented ind (indent_re ind (formula_text f)).
Proof. exact indent_all_lines. Qed.

Theorem C19_indent_all_lines_body : forall ind body,
  ~ In NL ind -> ~ In CR ind -> ~ In CR body -> all_indented ind (indent_re ind body).
Proof. exact indent_all_lines_body. Qed.

(* with the tokenizer's column rule a form feed still defeats the indent: "\f1" indented by four blanks sits at
   column 0 (known finding C19-form-feed); proved for texts without form feed *)
Definition indent_columns_stmt : Prop :=
  forall n f, all_indented_cols (repeat SP n) (indent_re (repeat SP n) (formula_text f)).

Theorem C19_refuted_ff : ~ indent_columns_stmt.
Proof.
  intros H. specialize (H 4%nat [12; 49]). unfold all_indented_cols in H.
  assert (E : phys_lines (indent_re (repeat SP 4) (formula_text [12; 49])) = [[32; 32; 32; 32; 12; 49]])
    by (vm_compute; reflexivity).
  rewrite E in H. apply Forall_inv in H. specialize (H eq_refl). vm_compute in H. apply H. reflexivity.
Qed.

Theorem C19_indent_columns_partial : forall n f,
  ~ In FF f -> all_indented_cols (repeat SP n) (indent_re (repeat SP n) (formula_text f)).
Proof. exact indent_cols. Qed.

Theorem C19_indent_columns_body_partial : forall n body,
  ~ In FF body -> no_bare_cr body = true -> all_indented_cols (repeat SP n) (indent_re (repeat SP n) body).
Proof. exact indent_cols_nbc. Qed.

(* ---- dedent: one and the same run of blanks/tabs is removed from every physical line of the formula (lines of
   blanks and tabs only may stay as they are) ---- *)
Theorem C19_dedent_sound : forall f, dedent_ok f (formula_text f).
Proof. exact dedent_sound. Qed.

(* ---- the syntax-error stub as placed into a function body of the shared module: comment lines carrying the
   indent, then one line `raise Name('...', ('usercode', n, n, '...'))` without a line end inside, whose two
   literals are complete string literals by the tokenizer's rule; for every formula, message and printable-table ---- *)
Theorem C19_stub_is_wellformed : forall ind printable name msg line col1 ltext f,
  ~ In NL ind -> ~ In CR ind -> Forall (fun c => c <> NL /\ c <> CR) name ->
  stub_wellformed ind (indent_re ind (stub_of_formula printable name msg line col1 ltext f))
                  printable name msg line col1 ltext.
Proof. exact stub_is_wellformed. Qed.

Theorem C19_stub_body_no_bare_cr : forall ind printable name msg line col1 ltext f,
  ~ In NL ind -> ~ In CR ind -> Forall (fun c => c <> NL /\ c <> CR) name ->
  no_bare_cr (indent_re ind (stub_of_formula printable name msg line col1 ltext f)) = true.
Proof. exact stub_body_no_bare_cr. Qed.

Theorem C19_repr_is_one_literal : forall printable s rest,
  scan_string (py_repr printable s ++ rest) = Some rest /\
  Forall (fun c => c <> NL /\ c <> CR) (py_repr printable s).
Proof. intros. split; [apply scan_py_repr|apply py_repr_no_le]. Qed.

(* ---- placement into the shared module (gencode._make_formula_field): a blank line, the `def` line, then exactly
   the physical lines of the body, then a blank line ---- *)
Theorem C19_field_lines : forall indent name params body,
  Forall (fun c => c <> NL /\ c <> CR) indent -> Forall (fun c => c <> NL /\ c <> CR) name ->
  Forall (fun c => c <> NL /\ c <> CR) params -> no_bare_cr body = true ->
  phys_lines (formula_field indent name params body)
  = [] :: (indent ++ s_def ++ name ++ [40] ++ params ++ [41; 58]) :: phys_lines body ++ [[]].
Proof. exact field_lines. Qed.

(* ---- un-indent of a multi-line string node: exactly the lines _indent changed are changed back, so the text of
   the literal (first line from wherever the node starts, then whole lines) is what the user wrote ---- *)
Theorem C19_unindent_inverse : forall ind first l ls,
  ~ In NL ind -> ~ In NL first -> Forall (fun x => ~ In NL x) (l :: ls) ->
  unindent_re ind (join_nl (first :: map (indent_line ind) (l :: ls))) = join_nl (first :: l :: ls).
Proof. exact unindent_inverse. Qed.

(* ---- `$name` -> `rec.name` and `return`: applying the patches the code builds from the parser's positions
   gives the per-token meaning ---- *)
Theorem C19_dollar_translation : forall (ks : list tok) (name_pos : list Z) (last_expr : option Z),
  forallb tok_wf ks = true ->
  Permutation name_pos (name_offsets 0 ks) ->
  mark_offsets 0 ks = match last_expr with Some p => [p] | None => [] end ->
  translate (src_of ks) name_pos last_expr = spec_of ks.
Proof. exact translate_meets_spec. Qed.

(* ---- regression examples: the inputs that refuted these statements before the two repairs ---- *)
Definition w_foo_cr_bar : text := [102; 111; 111; 40; 13; 98; 97; 114].                       (* "foo(\rbar" *)
Definition w_assign_cr_return : text := [120; 32; 61; 32; 49; 13; 114; 101; 116; 117; 114; 110; 32; 120].
Definition w_indented_cr : text := [32; 32; 97; 13; 32; 32; 98].                              (* "  a\r  b" *)
Definition ex_crlf : text := [32; 32; 105; 102; 32; 120; 58; 13; 10; 32; 32; 32; 32; 121; 13; 10; 13; 10; 32; 32; 122].

Example C19_cr_witnesses_regression :
  phys_lines (comment_re (formula_text w_foo_cr_bar)) = [[35; 32; 102; 111; 111; 40]; [35; 32; 98; 97; 114]] /\
  phys_lines (indent_re four_spaces (formula_text w_assign_cr_return))
    = [[32; 32; 32; 32; 120; 32; 61; 32; 49]; [32; 32; 32; 32; 114; 101; 116; 117; 114; 110; 32; 120]] /\
  phys_lines (formula_text w_indented_cr) = [[97]; [98]] /\
  (* "  if x:\r\n    y\r\n\r\n  z": the shared indentation is found across the empty CRLF line *)
  phys_lines (formula_text ex_crlf) = [[105; 102; 32; 120; 58]; [32; 32; 121]; []; [122]] /\
  (* what the helpers alone do with a bare "\r" (why the normalisation has to come first) *)
  phys_lines (comment_re w_foo_cr_bar) = [[35; 32; 102; 111; 111; 40]; [98; 97; 114]].
Proof. repeat split; vm_compute; reflexivity. Qed.

(* the string  a / four blanks / b  keeps its blank line with the new un-indent; the old one lost it *)
Example C19_mlstring_regression :
  let node := [34; 34; 34; 97; 10; 32; 32; 32; 32; 10; 98; 34; 34; 34] in
  (* (the first line is not part of what the un-indent touches: it keeps the indent of the statement) *)
  unindent_re four_spaces (indent_re four_spaces node) = four_spaces ++ node /\
  unindent_old four_spaces (indent_re four_spaces node) = four_spaces ++ [34; 34; 34; 97; 10; 10; 98; 34; 34; 34].
Proof. split; vm_compute; reflexivity. Qed.

Example C19_field_nonvacuous :
  let body := indent_re four_spaces (stub_of_formula (fun _ => true) s_SyntaxError [] 1 1 [] w_foo_cr_bar) in
  no_bare_cr body = true /\
  phys_lines (formula_field [32; 32] [88] [114; 101; 99] body)
  = [ []; [32; 32; 100; 101; 102; 32; 88; 40; 114; 101; 99; 41; 58];
      [32; 32; 32; 32; 35; 32; 102; 111; 111; 40]; [32; 32; 32; 32; 35; 32; 98; 97; 114];
      four_spaces ++ raise_stmt (fun _ => true) s_SyntaxError [] 1 1 []; [] ].
Proof. split; vm_compute; reflexivity. Qed.

Example C19_dollar_nonvacuous :
  let ks := [TMark; TDollar [97]; TCode [32; 43; 32]; TOpaque [39; 36; 98; 39]; TCode [32];
             TOpaque [35; 32; 36; 99]; TCode [10]; TDollar [100]] in
  forallb tok_wf ks = true /\
  translate (src_of ks) (rev (name_offsets 0 ks)) (Some 0) = spec_of ks /\
  spec_of ks = s_return ++ s_rec ++ [97; 32; 43; 32; 39; 36; 98; 39; 32; 35; 32; 36; 99; 10] ++ s_rec ++ [100].
Proof. exact translate_example. Qed.

(* A line made only of a character that is whitespace for the regexps but not a blank for the tokenizer (NBSP here:
   "x" / NBSP / "y +"): the comment-out is by line_start, so EVERY line gets its '#'.  Commenting with the rule of
   _indent (only lines holding a non-space) would leave the NBSP line as live text in the module. *)
Example C19_pseudo_blank_regression :
  let t := [120; 10; 160; 10; 121; 32; 43] in
  phys_lines (comment_re (formula_text t)) = [[35; 32; 120]; [35; 32; 160]; [35; 32; 121; 32; 43]] /\
  phys_lines (indent_re [35; 32] (rstrip (formula_text t))) = [[35; 32; 120]; [160]; [35; 32; 121; 32; 43]].
Proof. split; vm_compute; reflexivity. Qed.
