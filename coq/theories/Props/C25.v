(* C25 -- Migrations are total and reach the current schema.

   What is modelled (Model/Migrate.v, compared with the running code on every run): table_data_set.TableDataSet
   (all 14 doc actions, with the exceptions it raises) and the DRIVER of migrations.create_migrations
   (version loop, need_all_tables, the final schemaVersion update).  The 46 migration BODIES are not modelled:
   below they are the Section variable `migs` (any functions from the tdset to doc actions).  So the theorems
   here are about the driver and the interpreter for ALL possible migration bodies; that the real bodies
   never raise on type-correct metadata (the property's totality clause, C25_full_statement below) is NOT
   proved -- it is only searched for on generated old-version documents by harness/props/c25.py (that search
   found eight defects: seven repaired in /repo, migration 7 still a known finding).

   Statements only; proofs are in Proofs/Migrate_proofs.v. *)
From Coq Require Import ZArith Bool String List Sorted.
Import ListNotations.
Require Import Grist.Model.Migrate Grist.Proofs.Migrate_proofs.
Open Scope Z_scope.

Section C25.
  Variable current : Z.                              (* schema.SCHEMA_VERSION *)
  Variable need_all : Z -> bool.                     (* migration_func.need_all_tables *)
  Variable migs : Z -> tds -> res (list action).     (* all_migrations.get(v, noop_migration) *)

  (* A document already at (or beyond) the current version: no migration runs, the tdset is left alone and
     the only returned action is the schemaVersion update. *)
  Theorem C25_migrate_current_noop : forall metadata_only s d,
    doc_version_of s = Ok d -> current <= d ->
    create_migrations current need_all migs metadata_only s = Ok ([sv_update current], s, []).
  Proof. exact (create_noop current need_all migs). Qed.

  (* ... and applying that action rewrites one column of _grist_DocInfo: no schema change, no other table, no
     row id, no other column. *)
  Theorem C25_current_noop_effect : forall D D',
    tds_apply (sv_update current) D = Ok D' ->
    t_schema D' = t_schema D /\
    (forall u, seqb u DOCINFO = false -> lookup u (t_data D') = lookup u (t_data D)) /\
    exists rows cols cols',
      lookup DOCINFO (t_data D) = Some (rows, cols) /\ lookup DOCINFO (t_data D') = Some (rows, cols') /\
      forall c, seqb c SCHEMAVERSION = false -> lookup c cols' = lookup c cols.
  Proof. exact (sv_update_effect current). Qed.

  (* The driver, for every start version: the versions run are exactly doc_version+1 .. current in order, each
     migration on the tdset its predecessor left (chain), and the returned actions are theirs followed by the
     schemaVersion update. *)
  Theorem C25_driver_reaches_current : forall metadata_only s acts s' vs,
    create_migrations current need_all migs metadata_only s = Ok (acts, s', vs) ->
    exists d body,
      doc_version_of s = Ok d /\ vs = versions_from d current /\
      acts = body ++ [sv_update current] /\ chain need_all migs metadata_only vs s body s'.
  Proof. exact (create_spec current need_all migs). Qed.

  (* The driver has no failure of its own: if every migration in range succeeds on every tdset satisfying an
     invariant and re-establishes it, create_migrations succeeds. *)
  Theorem C25_driver_total_given_migrations : forall (Inv : tds -> Prop) metadata_only s d,
    doc_version_of s = Ok d -> Inv s ->
    (forall v s, Inv s -> d < v <= current ->
       need_all v && metadata_only = false /\
       exists acts s1, migs v s = Ok acts /\ tds_apply_all acts s = Ok s1 /\ Inv s1) ->
    exists body s', create_migrations current need_all migs metadata_only s =
                      Ok (body ++ [sv_update current], s', versions_from d current) /\ Inv s'.
  Proof. exact (create_total current need_all migs). Qed.

  (* After the returned actions, the document reads as version `current` (given that _grist_DocInfo still has
     its record 1 first and a schemaVersion column when the last action is reached). *)
  Theorem C25_version_after_migration : forall body D D1,
    tds_apply_all body D = Ok D1 -> docinfo_ok D1 ->
    exists D', tds_apply_all (body ++ [sv_update current]) D = Ok D' /\ doc_version_of D' = Ok current.
  Proof.
    intros body D D1 H1 Hok. destruct (sv_update_version current D1 Hok) as [D' [Ha Hv]].
    exists D'. split; [|exact Hv]. rewrite tds_apply_all_app, H1. cbn [bind tds_apply_all]. rewrite Ha. reflexivity.
  Qed.

  (* The full property (NOT proved: needs the migration bodies).  `load` stands for the loading prelude of
     create_migrations, `typed` for "every metadata cell holds a value of its declared type". *)
  Definition C25_full_statement (load : tds -> res tds) (typed : tds -> Prop) (current_schema : schema) : Prop :=
    forall D d, typed D -> doc_version_of D = Ok d -> 0 <= d <= current ->
      exists T0 acts T1 vs D',
        load D = Ok T0 /\ create_migrations current need_all migs false T0 = Ok (acts, T1, vs) /\
        tds_apply_all acts D = Ok D' /\ doc_version_of D' = Ok current /\
        schema_matches current_schema (filter (fun kv => is_meta (fst kv)) (t_schema D')) = true.
End C25.

(* range(doc_version + 1, SCHEMA_VERSION + 1): every version in range exactly once, ascending, ending at current *)
Theorem C25_each_version_once : forall d c,
  (forall v, In v (versions_from d c) <-> d < v <= c) /\
  NoDup (versions_from d c) /\ StronglySorted Z.lt (versions_from d c) /\
  (d < c -> last (versions_from d c) 0 = c).
Proof.
  intros d c. split; [intro v; apply versions_from_in|]. split; [apply sorted_nodup, versions_from_sorted|].
  split; [apply versions_from_sorted|apply versions_from_last].
Qed.

(* Actions that name only _grist_ tables leave every user table (cells, row ids, schema) as it was. *)
Theorem C25_meta_only_actions_frame : forall acts s s' u,
  meta_only acts = true -> tds_apply_all acts s = Ok s' -> is_meta u = false ->
  lookup u (t_data s') = lookup u (t_data s) /\ lookup u (t_schema s') = lookup u (t_schema s).
Proof.
  intros acts s s' u Hm Ha Hu. eapply tds_apply_all_frame; [exact Ha|apply meta_only_avoids; assumption].
Qed.

(* More generally a table is untouched by actions none of which names it. *)
Theorem C25_unnamed_table_frame : forall acts s s' u,
  Forall (fun a => forall t, In t (action_tables a) -> seqb u t = false) acts ->
  tds_apply_all acts s = Ok s' ->
  lookup u (t_data s') = lookup u (t_data s) /\ lookup u (t_schema s') = lookup u (t_schema s).
Proof. intros acts s s' u HF Ha. eapply tds_apply_all_frame; eassumption. Qed.

(* The schema after applying actions is the schema-action subsequence (Add/Remove/Rename/Modify Column|Table)
   applied to the schema alone. *)
Theorem C25_tds_schema_of_actions : forall acts s s',
  tds_apply_all acts s = Ok s' ->
  schema_apply_all (filter is_schema_action acts) (t_schema s) = Ok (t_schema s').
Proof. intros acts s s' H. rewrite schema_apply_all_filter. apply tds_apply_all_schema. exact H. Qed.

Theorem C25_schema_determined_by_schema_actions : forall acts1 acts2 s1 s2 s1' s2',
  filter is_schema_action acts1 = filter is_schema_action acts2 -> t_schema s1 = t_schema s2 ->
  tds_apply_all acts1 s1 = Ok s1' -> tds_apply_all acts2 s2 = Ok s2' -> t_schema s1' = t_schema s2'.
Proof.
  intros acts1 acts2 s1 s2 s1' s2' Hf Hs H1 H2.
  apply C25_tds_schema_of_actions in H1. apply C25_tds_schema_of_actions in H2.
  rewrite Hf, Hs in H1. rewrite H1 in H2. injection H2 as H2. exact H2.
Qed.

(* ---- Non-vacuity: a toy chain of "migrations" on a small document with a user table ---- *)
Definition toy_doc : tds := mkTds
  [(DOCINFO, ([Some 1], [(SCHEMAVERSION, [VInt 1]); (zs "docId", [VStr (zs "d")])]));
   (zs "Table1", ([Some 1; Some 2], [(zs "A", [VInt 5; VInt 6])]))]
  [(DOCINFO, [(SCHEMAVERSION, mkci SCHEMAVERSION (zs "Int") false []);
              (zs "docId", mkci (zs "docId") (zs "Text") false [])]);
   (zs "Table1", [(zs "A", mkci (zs "A") (zs "Int") false [])])].

Definition toy_migs (v : Z) (_ : tds) : res (list action) :=
  let c := zs "c" ++ [48 + v] in
  Ok [AddColumn DOCINFO c (mkci c (zs "Text") false []); UpdateRecord DOCINFO (Some 1) [(c, VStr (zs "x"))]].

Example C25_nonvacuous :
  exists acts T D',
    create_migrations 3 (fun _ => false) toy_migs false toy_doc = Ok (acts, T, [2; 3]) /\
    length acts = 5%nat /\ meta_only acts = true /\
    tds_apply_all acts toy_doc = Ok D' /\ doc_version_of D' = Ok 3 /\
    lookup (zs "Table1") (t_data D') = lookup (zs "Table1") (t_data toy_doc) /\
    lookup (zs "c3") (match lookup DOCINFO (t_data D') with Some (_, cols) => cols | None => [] end)
      = Some [VStr (zs "x")].
Proof. do 3 eexists. repeat split; vm_compute; reflexivity. Qed.

Example C25_docinfo_ok_example : docinfo_ok toy_doc /\ doc_version_of toy_doc = Ok 1.
Proof. split; [|reflexivity]. unfold docinfo_ok. do 4 eexists. repeat split; reflexivity. Qed.

(* a migration marked need_all_tables stops a metadata-only run; a current document is a no-op *)
Example C25_need_all_example :
  create_migrations 3 (fun v => Z.eqb v 3) toy_migs true toy_doc = Err NeedAllTables /\
  create_migrations 1 (fun v => Z.eqb v 3) toy_migs true toy_doc = Ok ([sv_update 1], toy_doc, []).
Proof. split; vm_compute; reflexivity. Qed.

(* an action naming a user table is seen by meta_only; RenameTable counts both names *)
Example C25_meta_only_example :
  meta_only [RenameTable (zs "_grist_X") (zs "Table1")] = false /\
  meta_only [AddColumn (zs "_grist_Tables") (zs "c") []; RemoveRecord (zs "_grist_Views") (Some 2)] = true.
Proof. split; vm_compute; reflexivity. Qed.

(* ---- The places where a migration reads JSON out of a Text cell (Model/MigrateSites.v: raise behaviour only,
        compared with the real migrations on one-cell documents on every run).  Since fix 5a4118c every site
        guards the operation it performs; the *_raw functions are those operations without the guard. ---- *)
Require Import Grist.Model.MigrateSites Grist.Proofs.MigrateSites_proofs.

(* No valid JSON, of whatever shape, makes a migration raise at any of the six sites. *)
Definition C25_json_sites_total_statement : Prop := forall n key j, site_fn n key j = Ok tt.

Theorem C25_json_sites_total : C25_json_sites_total_statement.
Proof. exact sites_total. Qed.

(* Regression: the inputs that made the sites raise before the repair now pass ... *)
Example C25_json_sites_old_witnesses_pass :
  m15_site (zs "3") (JNum (JInt 5)) = Ok tt /\
  m15_site (zs "3") (JStr (zs "3")) = Ok tt /\
  m16_site (JArr [JNum (JInt 1); JNum (JInt 2)]) = Ok tt /\
  m16_site (JStr (zs "s")) = Ok tt /\
  m16_site (JObj [(zs "visibleCol", JArr [JStr (zs "x")])]) = Ok tt /\
  m29_site (JArr [JNum (JInt 1); JNum (JInt 2)]) = Ok tt /\
  m34_site JNull = Ok tt /\
  m34_site (JArr [JNum (JInt 1); JNum (JInt 2)]) = Ok tt /\
  m35_site (JNum (JInt 5)) = Ok tt /\
  m35_site (JObj [(zs "a", JNum (JInt 1))]) = Ok tt /\
  m35_site (JArr [JStr (zs "Comment")]) = Ok tt /\
  m45_site (JObj [(zs "timeCreated", JStr (zs "x"))]) = Ok tt /\
  m45_site (JObj [(zs "timeUpdated", JNum (JFlt 9218868437227405312))]) = Ok tt /\
  m45_site (JObj [(zs "timeCreated", JNum (JFlt 9221120237041090560))]) = Ok tt.
Proof. repeat split; vm_compute; reflexivity. Qed.

(* ... while the operations behind the guards do raise on them (why the guards are needed). *)
Example C25_json_raw_operations_raise :
  m15_raw (zs "3") (JNum (JInt 5)) = Err TypeErr /\
  m15_raw (zs "3") (JStr (zs "3")) = Err TypeErr /\
  m16_raw (JArr [JNum (JInt 1); JNum (JInt 2)]) = Err TypeErr /\
  m16_raw (JStr (zs "s")) = Err AttrErr /\
  m16_raw (JObj [(zs "visibleCol", JArr [JStr (zs "x")])]) = Err TypeErr /\
  m29_raw (JArr [JNum (JInt 1); JNum (JInt 2)]) = Err AttrErr /\
  m34_raw JNull = Err AttrErr /\
  m34_raw (JArr [JNum (JInt 1); JNum (JInt 2)]) = Err AttrErr /\
  m35_raw (JNum (JInt 5)) = Err TypeErr /\
  m35_raw (JObj [(zs "a", JNum (JInt 1))]) = Err KeyErr /\
  m35_raw (JArr [JStr (zs "Comment")]) = Err IndexErr /\
  m45_raw (JObj [(zs "timeCreated", JStr (zs "x"))]) = Err TypeErr /\
  m45_raw (JObj [(zs "timeUpdated", JNum (JFlt 9218868437227405312))]) = Err OverflowErr /\
  m45_raw (JObj [(zs "timeCreated", JNum (JFlt 9221120237041090560))]) = Err ValueErr.
Proof. exact raw_ops_raise. Qed.

(* The raw operations are safe exactly where the migrations expected them to be used: a JSON object (15, 29, 34);
   an object whose visibleCol is absent or a scalar (16); an empty value or a list that is not a Comment node or
   has 3 items (35); not an object, or one whose timeCreated/timeUpdated are absent, null, booleans or finite
   numbers (45).  (These shapes are also the harness's table for blaming a cell, should a site regress.) *)
Theorem C25_json_raw_total_on_expected_shapes : forall key j,
  (ws_obj j = true -> m15_raw key j = Ok tt /\ m29_raw j = Ok tt /\ m34_raw j = Ok tt) /\
  (ws_m16 j = true -> m16_raw j = Ok tt) /\
  (ws_m35 j = true -> m35_raw j = Ok tt) /\
  (ws_m45 j = true -> m45_raw j = Ok tt).
Proof.
  intros key j. split; [intro H; split; [apply m15_ok_on_objects|split; [apply m29_ok_on_objects|apply m34_ok_on_objects]]; exact H|].
  split; [apply m16_ok_on_shape|]. split; [apply m35_ok_on_shape|apply m45_ok_on_shape].
Qed.

Example C25_json_sites_expected_shapes_nonvacuous :
  ws_obj (JObj [(zs "filterBar", JBool true)]) = true /\
  ws_m16 (JObj [(zs "visibleCol", JStr (zs "A")); (zs "alignment", JStr (zs "left"))]) = true /\
  ws_m35 (JArr [JStr (zs "Comment"); JArr [JStr (zs "Const"); JBool true]; JStr (zs "memo")]) = true /\
  ws_m45 (JObj [(zs "text", JStr (zs "t")); (zs "timeCreated", JNum (JInt 1700000000000)); (zs "resolved", JBool true)]) = true.
Proof. repeat split; vm_compute; reflexivity. Qed.
