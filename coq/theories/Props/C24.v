(* C24 -- Everything sent to Node is marshal-safe and round-trips.
   encode_f / decode_f / action_repr / to_json_obj are Model/Values.v (objtypes.py, actions.py, action_obj.py as
   coded); `fuel` is the number of nested encode_object calls the interpreter stack still allows (a call that
   cannot be made raises RecursionError, which the caller's `except Exception` turns into ['U', repr]).
   Statements only; proofs are in Proofs/Values_enc_proofs.v.

   Full statement (C24_full): for every value, any fuel and any library oracle, the encoded form is marshalable
   and encode (decode (encode v)) = encode v.  Marshal safety holds modulo the pass-through fields (the dict-key
   defect was repaired in /repo f01e3d4); the round trip is violated at the end of the calendar (witness below)
   and C24_encode_decode_encode_partial excludes exactly that. *)
From Coq Require Import ZArith List Bool String.
Import ListNotations.
Require Import Grist.Lib.PyFloat Grist.Model.Values Grist.Proofs.Values_enc_proofs Grist.Proofs.Values_depth_proofs.
Require Import GristGen.Actions_gen Grist.Model.ValuesPy Grist.Model.ValuesPyEnc GristGen.Objtypes_gen Grist.Proofs.Objtypes_bridge.
Open Scope Z_scope.

Definition C24_full : Prop := forall orc fuel v,
  marshalableb (encode_f orc fuel v) = true /\
  encode_f orc fuel (decode_f orc fuel (encode_f orc fuel v)) = encode_f orc fuel v.

(* ---- marshal safety --------------------------------------------------------------------------- *)

(* For every fuel and every value: if, at every node encode_object visits, the fields it passes through
   unencoded are marshal-safe (node_ok = node_wf: error name/message/details, stub fields,
   UnmarshallableValue.value_repr -- str/None from the engine, marshalled data from decode_object), then the
   encoded form contains only exact None/bool/int/float/str, lists, tuples and dicts with exact-str keys.
   This is the full statement modulo those pass-through fields. *)
Theorem C24_encode_marshalable : forall orc fuel v,
  vforall node_ok v = true -> marshalableb (encode_f orc fuel v) = true.
Proof. exact encode_marshalable. Qed.

(* Regression (fixed in /repo f01e3d4; before it the key object itself went into the encoded dict and
   marshal.dumps refused it): {S('a'): 1} with S a subclass of str encodes with the exact str key 'a'. *)
Example C24_regression_strsub_key : forall orc fuel,
  encode_f orc (S fuel) (PDict [(PStr true (Str "a"), PInt false 1)]) =
    tag "O" [PDict [(PStr false (Str "a"), PInt false 1)]] /\
  marshalableb (encode_f orc (S fuel) (PDict [(PStr true (Str "a"), PInt false 1)])) = true.
Proof. intros orc [|n]; split; reflexivity. Qed.

(* actions.get_action_repr: record actions encode their cell values, other actions pass their fields through *)
Theorem C24_action_repr_marshalable : forall orc fuel a,
  action_ok a = true -> marshalableb (action_repr orc fuel a) = true.
Proof. exact action_repr_marshalable. Qed.

(* The action classes whose cell values actions.convert_action_values passes through the converter, read off the
   current actions.py (gen/Actions_gen.v, regenerated on every run), are the model's: dropping a class from the
   dispatch (its values would then leave unencoded) or adding one breaks this obligation.  The rest of the path
   of a reply (convert_recursive_*, encode_objects, get_action_repr, to_json_obj) is pinned by AST equality. *)
Theorem C24_code_action_kinds : gen_single_kinds = single_kinds /\ gen_bulk_kinds = bulk_kinds.
Proof. split; reflexivity. Qed.

(* ... and every action of such a class is modelled by the constructor that encodes its values *)
Theorem C24_action_of_kinds : forall name t r rest c1 cn,
  (In name gen_single_kinds -> action_of name (t :: r :: rest) c1 cn = ARecord name t r c1) /\
  (In name gen_bulk_kinds -> action_of name (t :: r :: rest) c1 cn = ABulk name t r cn).
Proof.
  intros name t r rest c1 cn. split; intros H; cbn in H;
    repeat (destruct H as [<-|H]; [reflexivity|]); contradiction.
Qed.

(* ActionBundle.to_json_obj, the body of every apply_user_actions reply *)
Theorem C24_reply_marshalable : forall orc fuel b,
  bundle_ok b = true -> marshalableb (to_json_obj orc fuel b) = true.
Proof. exact to_json_obj_marshalable. Qed.

(* Nesting: with interpreter stack for `fuel` nested encode_object calls, the encoded form nests at most
   2 * fuel + r + 3 container levels, r bounding the nesting of the fields passed through unencoded (node_raw).
   With the default recursion limit of 1000 this stays below marshal's limit of 2000 levels. *)
Theorem C24_encode_depth : forall orc r, 0 <= r -> forall fuel v,
  vforall (node_raw r) v = true -> vdepth (encode_f orc fuel v) <= 2 * Z.of_nat fuel + r + 3.
Proof. exact encode_depth. Qed.

(* ---- round trip --------------------------------------------------------------------------------- *)

(* For every fuel (also when it does not suffice and parts of the value became ['U', ...]) and every value whose
   dates are calendar dates and whose datetimes have a known zone and a UTC instant at least a day inside the
   calendar (node_dt), under the library facts
     - 'UTC' is a zone of the tz database,
     - timedelta(seconds=total_seconds) is exact on whole seconds, lands within 16 microseconds otherwise and has
       the same total_seconds,
     - the offset of a zone at a UTC instant is below a day and is what the zone reports for the resulting wall
       time when that offset is favoured (C34),
   decoding the encoded form yields a value that encodes to the same form. *)
Theorem C24_encode_decode_encode_partial : forall orc,
  zone_ok orc (Str "UTC") = true ->
  (forall d, MIN_DAY <= d <= MAX_DAY ->
     o_td_seconds orc (o_total_seconds orc (d * US_PER_DAY)) = UsOk (d * US_PER_DAY)) ->
  (forall u, in_dt_range u = true ->
     exists u', o_td_seconds orc (o_total_seconds orc u) = UsOk u' /\ Z.abs (u' - u) <= 16 /\
                o_total_seconds orc u' = o_total_seconds orc u) ->
  (forall z u, in_dt_range u = true ->
     Z.abs (o_ts_offset orc z u) < US_PER_DAY /\
     o_dt_offset orc z (Some (o_ts_offset orc z u)) (u + o_ts_offset orc z u) = o_ts_offset orc z u) ->
  forall n v, vforall (node_dt orc) v = true ->
  encode_f orc n (decode_f orc n (encode_f orc n v)) = encode_f orc n v.
Proof. exact encode_decode_encode. Qed.

(* The last microsecond of year 9999 (datetime.max), with the executable timedelta arithmetic of Lib/PyFloat.v
   (compared with CPython on every run): it encodes to ['D', 253402300800.0, 'UTC'], the next whole second, which
   decodes to an OverflowError value, which encodes to ['E', 'OverflowError']. *)
Definition utc_tables : tables :=
  Build_tables [] [] [] [] [] [] [] [] [] [] [] [] [(PStr false (Str "UTC"), Ok true)] [] [((Str "UTC", 253402300800000000), 0)] [] [] [].

Theorem C24_refuted_datetime_max :
  let orc := oracles_of utc_tables in
  let v := PDateTime MAX_US TzNaive in
  encode_f orc 5 v = tag "D" [PFloat false (FNum 1979705475 7); PStr false (Str "UTC")] /\
  encode_f orc 5 (decode_f orc 5 (encode_f orc 5 v)) = tag "E" [PStr false (Str "OverflowError")].
Proof. cbv zeta. split; vm_compute; reflexivity. Qed.

(* ---- the code itself ------------------------------------------------------------------------------
   gen_encode_object / gen_decode_object are GristGen.Objtypes_gen: translated by harness/ot2v.py from
   objtypes.encode_object / decode_object on every run.  The bridging obligations say that they ARE encode_f /
   decode_f, for every fuel, value and oracle; a semantic edit of the source makes one of them fail. *)

Theorem C24_bridge_encode : forall orc n v, gen_encode_object orc n v = Ok (encode_f orc n v).
Proof. exact bridge_encode. Qed.

Theorem C24_bridge_decode : forall orc n v, gen_decode_object orc n v = Ok (decode_f orc n v).
Proof. exact bridge_decode. Qed.

(* encode_object as coded never raises and its result is marshalable *)
Theorem C24_code_encode_marshalable : forall orc fuel v, vforall node_ok v = true ->
  exists e, gen_encode_object orc fuel v = Ok e /\ marshalableb e = true.
Proof.
  intros orc fuel v H. exists (encode_f orc fuel v). split; [apply bridge_encode|apply encode_marshalable; exact H].
Qed.

(* decode_object as coded never raises, and encoding what it returns for an encoded form gives that form back *)
Theorem C24_code_encode_decode_encode_partial : forall orc,
  zone_ok orc (Str "UTC") = true ->
  (forall d, MIN_DAY <= d <= MAX_DAY ->
     o_td_seconds orc (o_total_seconds orc (d * US_PER_DAY)) = UsOk (d * US_PER_DAY)) ->
  (forall u, in_dt_range u = true ->
     exists u', o_td_seconds orc (o_total_seconds orc u) = UsOk u' /\ Z.abs (u' - u) <= 16 /\
                o_total_seconds orc u' = o_total_seconds orc u) ->
  (forall z u, in_dt_range u = true ->
     Z.abs (o_ts_offset orc z u) < US_PER_DAY /\
     o_dt_offset orc z (Some (o_ts_offset orc z u)) (u + o_ts_offset orc z u) = o_ts_offset orc z u) ->
  forall n v, vforall (node_dt orc) v = true ->
  exists e d, gen_encode_object orc n v = Ok e /\ gen_decode_object orc n e = Ok d /\ gen_encode_object orc n d = Ok e.
Proof.
  intros orc H1 H2 H3 H4 n v Hv. exists (encode_f orc n v), (decode_f orc n (encode_f orc n v)).
  repeat split; try apply bridge_encode; try apply bridge_decode.
  rewrite bridge_encode. f_equal. apply encode_decode_encode; assumption.
Qed.

(* ---- non-vacuity -------------------------------------------------------------------------------- *)

(* An error with user input [1.5, date(1970,1,2), {"k": None}] inside a list: well formed, encodes to nested
   tagged lists, marshalable. *)
Example C24_nonvacuous_marshalable :
  let orc := oracles_of utc_tables in
  let v := PList LPlain [PErr (PStr false (Str "ValueError")) PNone PNone
                              (Some (PTuple [PFloat false (FNum 3 (-1)); PDate 1; PDict [(PStr false (Str "k"), PNone)]]));
                         PInt false (2 ^ 40)] in
  vforall node_ok v = true /\
  encode_f orc 9 v =
    tag "L" [tag "E" [PStr false (Str "ValueError"); PNone; PNone;
                      PDict [(PStr false (Str "u"),
                              tag "L" [PFloat false (FNum 3 (-1)); tag "d" [PFloat false (FNum 675 7)];
                                       tag "O" [PDict [(PStr false (Str "k"), PNone)]]])]];
             tag "U" [PStr false (Str "1099511627776")]].
Proof. cbv zeta. split; vm_compute; reflexivity. Qed.

(* The hypotheses of the round-trip theorem are consistent: an idealised library (seconds kept exactly, no zone
   offsets) satisfies them, and a datetime in a list satisfies node_dt there. *)
Definition ideal_orc : oracles := {|
  o_float_of_str := fun _ => None; o_float_of_bytes := fun _ => None;
  o_float_repr := fun _ => []; o_fmt15g := fun _ => []; o_str := fun _ => None; o_repr := fun _ => None;
  o_type_name := fun _ => []; o_json_loads := fun _ => None; o_iso_parse := fun _ => None;
  o_int_of_str := fun _ => None; o_lower := fun s => s; o_utf8_decode := fun _ => None;
  o_zone_known := fun _ => Ok true; o_dt_offset := fun _ _ _ => 0; o_ts_offset := fun _ _ => 0;
  o_total_seconds := fun u => FNum u 0;
  o_td_seconds := fun f => match f with FNum m _ => UsOk m | _ => UsValueError end;
  o_truthy := fun _ => None; o_float_of_opaque := fun _ => None; o_iter := fun _ => None |}.

Example C24_nonvacuous_roundtrip :
  zone_ok ideal_orc (Str "UTC") = true /\
  (forall d, MIN_DAY <= d <= MAX_DAY ->
     o_td_seconds ideal_orc (o_total_seconds ideal_orc (d * US_PER_DAY)) = UsOk (d * US_PER_DAY)) /\
  (forall u, in_dt_range u = true ->
     exists u', o_td_seconds ideal_orc (o_total_seconds ideal_orc u) = UsOk u' /\ Z.abs (u' - u) <= 16 /\
                o_total_seconds ideal_orc u' = o_total_seconds ideal_orc u) /\
  (forall z u, in_dt_range u = true ->
     Z.abs (o_ts_offset ideal_orc z u) < US_PER_DAY /\
     o_dt_offset ideal_orc z (Some (o_ts_offset ideal_orc z u)) (u + o_ts_offset ideal_orc z u) = o_ts_offset ideal_orc z u) /\
  vforall (node_dt ideal_orc) (PList LPlain [PDateTime 1725246501000000 (TzMoment (Str "Asia/Tokyo") None); PDate 19968]) = true.
Proof.
  repeat split; try reflexivity.
  - intros u _. exists u. cbn. repeat split; try reflexivity. rewrite Z.sub_diag. cbn. discriminate.
Qed.


(* the error of C24_nonvacuous_marshalable in a list: raw fields of depth 0, encoded form nesting 5 levels
   (['L', ['E', .., {'u': ['L', .., ['O', {'k': None}]]}]]), within the bound for the fuel it needs *)
Example C24_nonvacuous_depth :
  let orc := oracles_of utc_tables in
  let v := PList LPlain [PErr (PStr false (Str "ValueError")) PNone PNone
                              (Some (PTuple [PFloat false (FNum 3 (-1)); PDate 1; PDict [(PStr false (Str "k"), PNone)]]))] in
  vforall (node_raw 0) v = true /\ vdepth (encode_f orc 3 v) = 5.
Proof. cbv zeta. split; vm_compute; reflexivity. Qed.
