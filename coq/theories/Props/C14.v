(* C14 -- Sorted searches and PREVIOUS/NEXT/RANK agree with a linear scan.
   Statements only; the model is Model/Bisect.v (compared with the engine by harness/props/c14.py on every
   run), the proofs are in Proofs/Bisect_proofs.v.  All theorems hold for record lists of any length. *)
From Coq Require Import ZArith QArith List Bool Sorted Permutation.
Import ListNotations.
Require Import Grist.Model.Bisect Grist.Proofs.Bisect_proofs.
Open Scope Z_scope.

(* ---- the order ------------------------------------------------------------------------------------ *)

(* SortKey.__lt__ (column order with signs, type-position fallback, row id last) is a strict total order on
   records whose sort values are mutually comparable (dom_ok) and whose row ids differ. *)
Theorem C14_sortkey_strict_total : forall spec rows, dom_ok spec rows ->
  (forall a, key_lt spec (row_key a) (row_key a) = false) /\
  (forall a b, key_lt spec (row_key a) (row_key b) = true -> key_lt spec (row_key b) (row_key a) = false) /\
  (forall a b c, In a rows -> In b rows -> In c rows ->
     key_lt spec (row_key a) (row_key b) = true -> key_lt spec (row_key b) (row_key c) = true ->
     key_lt spec (row_key a) (row_key c) = true) /\
  (forall a b, rid a <> rid b ->
     key_lt spec (row_key a) (row_key b) = true \/ key_lt spec (row_key b) (row_key a) = true).
Proof. exact sortkey_strict_total. Qed.

(* ---- bisect --------------------------------------------------------------------------------------- *)

(* bisect_left(a, x, key=key) returns the partition point: if all(key(e) < x for e in l1) and
   not any(key(e) < x for e in l2) then the result on l1 ++ l2 is len(l1).  Any types, any `<`. *)
Theorem C14_bisect_left_partition : forall (A K : Type) (ltb : K -> K -> bool) (keyf : A -> K) l1 l2 x,
  (forall e, In e l1 -> ltb (keyf e) x = true) -> (forall e, In e l2 -> ltb (keyf e) x = false) ->
  bisect_left ltb keyf (l1 ++ l2) x = Z.of_nat (length l1).
Proof. intros A K. exact (@bisect_left_split A K). Qed.

(* bisect_right: if not any(x < key(e) for e in l1) and all(x < key(e) for e in l2) then len(l1). *)
Theorem C14_bisect_right_partition : forall (A K : Type) (ltb : K -> K -> bool) (keyf : A -> K) l1 l2 x,
  (forall e, In e l1 -> ltb x (keyf e) = false) -> (forall e, In e l2 -> ltb x (keyf e) = true) ->
  bisect_right ltb keyf (l1 ++ l2) x = Z.of_nat (length l1).
Proof. intros A K. exact (@bisect_right_split A K). Qed.

(* On records sorted under the key order such a partition exists for every probe key built by
   find.lt / find.ge (values, -inf) ... *)
Theorem C14_bisect_left_sorted : forall spec rows vals,
  dom_ok spec rows -> probe_ok rows vals -> sorted_rows spec rows ->
  exists l1 l2, rows = l1 ++ l2 /\
    bisect_left (key_lt spec) row_key rows (vals, RNegInf) = Z.of_nat (length l1) /\
    (forall e, In e l1 -> key_lt spec (row_key e) (vals, RNegInf) = true) /\
    (forall e, In e l2 -> key_lt spec (row_key e) (vals, RNegInf) = false).
Proof. exact bisect_left_probe. Qed.

(* ... and by find.le / find.gt (values, +inf). *)
Theorem C14_bisect_right_sorted : forall spec rows vals,
  dom_ok spec rows -> probe_ok rows vals -> sorted_rows spec rows ->
  exists l1 l2, rows = l1 ++ l2 /\
    bisect_right (key_lt spec) row_key rows (vals, RPosInf) = Z.of_nat (length l1) /\
    (forall e, In e l1 -> key_lt spec (vals, RPosInf) (row_key e) = false) /\
    (forall e, In e l2 -> key_lt spec (vals, RPosInf) (row_key e) = true).
Proof. exact bisect_right_probe. Qed.

(* ---- find.lt / le / gt / ge / eq = linear scan -------------------------------------------------- *)
(* For a record set with a sort key whose records are in key order, and any probe values (fewer, as many or
   more than the sort columns): the nearest record before / at-or-before / after / at-or-after / the first
   equal one, or the empty record (id 0). *)

Theorem C14_find_lt : forall spec rows vals, spec <> [] -> vals <> [] ->
  dom_ok spec rows -> probe_ok rows vals -> sorted_rows spec rows ->
  find_lt (mkRset spec rows) vals = Ok (lt_scan spec vals rows).
Proof. exact find_lt_scan. Qed.

Theorem C14_find_le : forall spec rows vals, spec <> [] -> vals <> [] ->
  dom_ok spec rows -> probe_ok rows vals -> sorted_rows spec rows ->
  find_le (mkRset spec rows) vals = Ok (le_scan spec vals rows).
Proof. exact find_le_scan. Qed.

Theorem C14_find_gt : forall spec rows vals, spec <> [] -> vals <> [] ->
  dom_ok spec rows -> probe_ok rows vals -> sorted_rows spec rows ->
  find_gt (mkRset spec rows) vals = Ok (gt_scan spec vals rows).
Proof. exact find_gt_scan. Qed.

Theorem C14_find_ge : forall spec rows vals, spec <> [] -> vals <> [] ->
  dom_ok spec rows -> probe_ok rows vals -> sorted_rows spec rows ->
  find_ge (mkRset spec rows) vals = Ok (ge_scan spec vals rows).
Proof. exact find_ge_scan. Qed.

Theorem C14_find_eq : forall spec rows vals, spec <> [] -> vals <> [] ->
  dom_ok spec rows -> probe_ok rows vals -> sorted_rows spec rows ->
  find_eq (mkRset spec rows) vals = Ok (eq_scan spec vals rows).
Proof. exact find_eq_scan. Qed.

(* ---- FindOps.previous / next / rank ------------------------------------------------------------- *)
(* For the record r at any position of a record set in key order (distinct row ids; sort values may repeat):
   previous = the record just before it, next = the one just after, rank asc = its 1-based position,
   rank desc = its 1-based position from the end; and these positions are the numbers of records whose key
   is strictly before / after the key of r. *)
Theorem C14_previous_next_rank : forall spec g1 r g2, spec <> [] ->
  dom_ok spec (g1 ++ r :: g2) -> sorted_rows spec (g1 ++ r :: g2) -> NoDup (map rid (g1 ++ r :: g2)) ->
  let rs := mkRset spec (g1 ++ r :: g2) in
  find_previous rs r = Ok (last_id g1) /\
  find_next rs r = Ok (head_id g2) /\
  find_rank rs r true = Ok (Z.of_nat (length g1) + 1) /\
  find_rank rs r false = Ok (Z.of_nat (length g2) + 1) /\
  count_before spec r (g1 ++ r :: g2) = Z.of_nat (length g1) /\
  count_after spec r (g1 ++ r :: g2) = Z.of_nat (length g2).
Proof.
  intros spec g1 r g2 Hs HD HS HN rs. unfold rs.
  repeat split; [apply find_previous_spec | apply find_next_spec | apply find_rank_asc_spec
                 | apply find_rank_desc_spec | apply count_before_spec | apply count_after_spec]; assumption.
Qed.

(* ---- sorted lookups satisfy the hypotheses ---------------------------------------------------- *)
(* What lookupRecords(..., order_by=...) returns is a permutation of the matching records, in key order. *)
Theorem C14_sorted_lookup : forall spec rows, dom_ok spec rows ->
  Permutation (sort_rows spec rows) rows /\ sorted_rows spec (sort_rows spec rows).
Proof. intros spec rows HD. split; [apply sort_rows_perm | apply sort_rows_sorted; exact HD]. Qed.

(* find.* on `T.lookupRecords(<group key>, order_by=..., sort_by=...)`, end to end *)
Theorem C14_lookup_find : forall tbl hm gkey ob sb rs probe,
  lookup_records tbl hm gkey ob sb = Some rs ->
  rs_spec rs <> [] -> probe <> [] ->
  dom_ok (rs_spec rs) (rs_rows rs) -> probe_ok (rs_rows rs) probe ->
  sorted_rows (rs_spec rs) (rs_rows rs) /\
  eval_find OLt tbl hm gkey ob sb probe = Ok (lt_scan (rs_spec rs) probe (rs_rows rs)) /\
  eval_find OLe tbl hm gkey ob sb probe = Ok (le_scan (rs_spec rs) probe (rs_rows rs)) /\
  eval_find OGt tbl hm gkey ob sb probe = Ok (gt_scan (rs_spec rs) probe (rs_rows rs)) /\
  eval_find OGe tbl hm gkey ob sb probe = Ok (ge_scan (rs_spec rs) probe (rs_rows rs)) /\
  eval_find OEq tbl hm gkey ob sb probe = Ok (eq_scan (rs_spec rs) probe (rs_rows rs)).
Proof. exact eval_find_spec. Qed.

(* ---- PREVIOUS / NEXT / RANK(rec, group_by=..., order_by=...), end to end ----------------------- *)
(* rec is the record with id rec_id; its group = the records whose group_by cells equal its own; rs = that
   group as lookup_records orders it. *)
Definition prevnext_hyps tbl hm group_by ob rec_id rec gkey rs vs : Prop :=
  NoDup (map t_id tbl) /\
  find (fun r => t_id r =? rec_id) tbl = Some rec /\
  gkey_of rec group_by = Some gkey /\
  lookup_records tbl hm gkey ob [] = Some rs /\
  cells_of rec (map fst (sort_cols ob [] hm)) = Some vs /\
  dom_ok (rs_spec rs) (rs_rows rs).

Definition prevnext_conclusion tbl hm group_by ob rec_id (rs : rset) vs : Prop :=
  let r := mkRow rec_id vs in
  exists g1 g2,
    rs_rows rs = g1 ++ r :: g2 /\
    sorted_rows (rs_spec rs) (rs_rows rs) /\
    eval_prevnext OPrev tbl hm group_by ob rec_id = Ok (last_id g1) /\
    eval_prevnext ONext tbl hm group_by ob rec_id = Ok (head_id g2) /\
    eval_prevnext ORankAsc tbl hm group_by ob rec_id = Ok (Z.of_nat (length g1) + 1) /\
    eval_prevnext ORankDesc tbl hm group_by ob rec_id = Ok (Z.of_nat (length g2) + 1) /\
    count_before (rs_spec rs) r (rs_rows rs) = Z.of_nat (length g1) /\
    count_after (rs_spec rs) r (rs_rows rs) = Z.of_nat (length g2).

(* The full statement: for every order_by. *)
Definition C14_PREVIOUS_NEXT_RANK_full : Prop :=
  forall tbl hm group_by ob rec_id rec gkey rs vs,
    prevnext_hyps tbl hm group_by ob rec_id rec gkey rs vs ->
    prevnext_conclusion tbl hm group_by ob rec_id rs vs.

(* It fails on the code as it is: an order_by that starts with "id" (row-id order) gives an empty sort spec,
   lookup_records then passes sort_key=None and FindOps raises ValueError.  Two records 1, 2; PREVIOUS of
   record 2 ordered by "id" should be record 1. *)
Theorem C14_refuted_order_by_id : ~ C14_PREVIOUS_NEXT_RANK_full.
Proof.
  intros H.
  pose (tbl := [mkTrow 1 [(s_id, num 1 1); (s_manualSort, num 1 1)];
                mkTrow 2 [(s_id, num 2 1); (s_manualSort, num 2 1)]]).
  destruct (H tbl true [] [s_id] 2 (mkTrow 2 [(s_id, num 2 1); (s_manualSort, num 2 1)]) []
              (mkRset [] [mkRow 1 []; mkRow 2 []]) []) as (g1 & g2 & _ & _ & Hp & _).
  - unfold prevnext_hyps. repeat split; try (vm_compute; reflexivity).
    + repeat constructor; cbn; intuition discriminate.
    + cbn. intros r [<-|[<-|[]]]; reflexivity.
    + cbn. intros a b [<-|[<-|[]]] [<-|[<-|[]]]; reflexivity.
  - vm_compute in Hp. discriminate.
Qed.

(* What holds: the statement for every order_by whose effective sort spec is not empty (i.e. that does
   not start with "id"). *)
Theorem C14_PREVIOUS_NEXT_RANK_partial :
  forall tbl hm group_by ob rec_id rec gkey rs vs,
    prevnext_hyps tbl hm group_by ob rec_id rec gkey rs vs ->
    rs_spec rs <> [] ->
    prevnext_conclusion tbl hm group_by ob rec_id rs vs.
Proof.
  intros tbl hm group_by ob rec_id rec gkey rs vs (HN & Hf & Hg & Hl & Hc & HD) Hs.
  exact (eval_prevnext_spec tbl hm group_by ob rec_id rec gkey rs vs HN Hf Hg Hl Hc Hs HD).
Qed.

(* the boolean check used by the harness implies the domain hypotheses *)
Theorem C14_domain_check : forall spec rows probes, rset_okb spec rows probes = true ->
  dom_ok spec rows /\ (forall vals, In vals probes -> probe_ok rows vals).
Proof. exact rset_okb_spec. Qed.

(* ---- non-vacuity -------------------------------------------------------------------------------- *)
(* Five records with duplicate and mixed-type sort values (None, 2, "a", 2.0, [1]), descending on the first
   column, manualSort second; probes 2 and ("a", 0.5). *)
Definition ex_spec := [false; true].
Definition ex_raw := [mkRow 1 [VNone; num 1 1]; mkRow 2 [num 2 1; num 2 1]; mkRow 3 [VStr [97]; num 3 1];
                      mkRow 4 [num 4 2; num 4 1]; mkRow 5 [VSeq false [num 1 1]; num 5 1]].
Definition ex_rows := [mkRow 3 [VStr [97]; num 3 1]; mkRow 5 [VSeq false [num 1 1]; num 5 1];
                       mkRow 2 [num 2 1; num 2 1]; mkRow 4 [num 4 2; num 4 1]; mkRow 1 [VNone; num 1 1]].

Example C14_nonvacuous_rset :
  ex_spec <> [] /\ dom_ok ex_spec ex_rows /\ probe_ok ex_rows [num 2 1] /\ probe_ok ex_rows [VStr [97]; num 1 2] /\
  sorted_rows ex_spec ex_rows /\ NoDup (map rid ex_rows) /\
  find_lt (mkRset ex_spec ex_rows) [num 2 1] = Ok 5 /\ find_le (mkRset ex_spec ex_rows) [num 2 1] = Ok 4 /\
  find_gt (mkRset ex_spec ex_rows) [num 2 1] = Ok 1 /\ find_ge (mkRset ex_spec ex_rows) [num 2 1] = Ok 2 /\
  find_eq (mkRset ex_spec ex_rows) [num 2 1] = Ok 2 /\ find_eq (mkRset ex_spec ex_rows) [VStr [97]; num 1 2] = Ok 0 /\
  find_previous (mkRset ex_spec ex_rows) (mkRow 4 [num 4 2; num 4 1]) = Ok 2 /\
  find_rank (mkRset ex_spec ex_rows) (mkRow 4 [num 4 2; num 4 1]) false = Ok 2.
Proof.
  assert (ex_rows = sort_rows ex_spec ex_raw) as E by (vm_compute; reflexivity).
  destruct (rset_okb_spec ex_spec ex_rows [[num 2 1]; [VStr [97]; num 1 2]]) as [HD HP]; [vm_compute; reflexivity|].
  repeat split; try (vm_compute; reflexivity); try exact (proj1 HD); try exact (proj2 HD).
  - discriminate.
  - apply HP. left. reflexivity.
  - apply HP. right. left. reflexivity.
  - rewrite E. apply sort_rows_sorted. apply (dom_ok_perm ex_spec ex_rows); [|exact HD].
    rewrite E. apply sort_rows_perm.
  - repeat constructor; cbn; intuition discriminate.
Qed.

(* A table with a group column G and sort column S (duplicates, mixed types): PREVIOUS / NEXT / RANK of record 4
   in group G = 1 ordered by S, then manualSort. *)
Definition ex_G := [71].
Definition ex_S := [83].
Definition ex_tbl :=
  [mkTrow 1 [(s_id, num 1 1); (ex_G, num 1 1); (ex_S, num 2 1); (s_manualSort, num 1 1)];
   mkTrow 2 [(s_id, num 2 1); (ex_G, num 2 1); (ex_S, num 0 1); (s_manualSort, num 2 1)];
   mkTrow 3 [(s_id, num 3 1); (ex_G, num 1 1); (ex_S, VNone); (s_manualSort, num 3 1)];
   mkTrow 4 [(s_id, num 4 1); (ex_G, num 2 2); (ex_S, num 4 2); (s_manualSort, num 4 1)];
   mkTrow 5 [(s_id, num 5 1); (ex_G, num 1 1); (ex_S, VStr [97]); (s_manualSort, num 5 1)]].

Definition ex_grp := [mkRow 3 [VNone; num 3 1]; mkRow 1 [num 2 1; num 1 1]; mkRow 4 [num 4 2; num 4 1];
                      mkRow 5 [VStr [97]; num 5 1]].

Example C14_nonvacuous_end_to_end :
  let rec := mkTrow 4 [(s_id, num 4 1); (ex_G, num 2 2); (ex_S, num 4 2); (s_manualSort, num 4 1)] in
  let rs := mkRset [true; true] ex_grp in
  prevnext_hyps ex_tbl true [ex_G] [ex_S] 4 rec [(ex_G, num 2 2)] rs [num 4 2; num 4 1] /\ rs_spec rs <> [] /\
  eval_prevnext OPrev ex_tbl true [ex_G] [ex_S] 4 = Ok 1 /\
  eval_prevnext ONext ex_tbl true [ex_G] [ex_S] 4 = Ok 5 /\
  eval_prevnext ORankAsc ex_tbl true [ex_G] [ex_S] 4 = Ok 3 /\
  eval_prevnext ORankDesc ex_tbl true [ex_G] [ex_S] 4 = Ok 2 /\
  lookup_records ex_tbl true [(ex_G, num 1 1)] [ex_S] [] = Some rs /\
  probe_ok (rs_rows rs) [num 2 1] /\
  eval_find OLe ex_tbl true [(ex_G, num 1 1)] [ex_S] [] [num 2 1] = Ok 4.
Proof.
  cbv zeta.
  destruct (rset_okb_spec [true; true] ex_grp [[num 2 1]]) as [HD HP]; [vm_compute; reflexivity|].
  unfold prevnext_hyps. cbn [rs_spec rs_rows].
  repeat split; try (vm_compute; reflexivity); try exact (proj1 HD); try exact (proj2 HD).
  - repeat constructor; cbn; intuition discriminate.
  - discriminate.
  - apply HP. left. reflexivity.
Qed.

(* ================================================================================================== *)
(* The code itself.  GristGen.Bisect_gen is translated from /repo/sandbox/grist/{sort_key.py, records.py,
   functions/prevnext.py} by harness/bs2v.py on EVERY run; the lemmas below (Proofs/Bisect_bridge.v) are
   re-checked against that translation, so an edit that changes what these methods compute breaks a proof
   here, not only a sampled comparison.  res_of maps ValueError to ErrValue, any other exception to ErrOther. *)
Require Import Grist.Model.BisectPy GristGen.Bisect_gen Grist.Proofs.Bisect_bridge.

(* SortKey.__lt__ (the loop with sign, the TypeError fallback descriptors, the row-id tie-break) is key_lt *)
Theorem C14_bridge_SortKey_lt : forall cls x y, signs_ok (cls_spec cls) ->
  SortKey___lt__ cls x y = OK (key_lt (spec_of (cls_spec cls)) x y).
Proof. exact SortKey_lt_bridge. Qed.

(* make_sort_key's col_sort_spec is split_col_spec on every entry, with sign +1 / -1 *)
Theorem C14_bridge_make_sort_key_spec : forall table sort_spec,
  (forall cs, In cs sort_spec -> tb_has_column table (fst (split_col_spec cs)) = true) ->
  make_sort_key_spec table sort_spec = OK (model_cspec sort_spec) /\
  signs_ok (model_cspec sort_spec) /\
  spec_of (model_cspec sort_spec) = map snd (map split_col_spec sort_spec) /\
  map fst (model_cspec sort_spec) = map fst (map split_col_spec sort_spec).
Proof. intros. split; [apply make_sort_key_spec_bridge; assumption|apply model_cspec_ok]. Qed.

(* SortKey.__init__: explicit values win; otherwise the cells of the row; a sentinel row id has none *)
Theorem C14_bridge_SortKey_init : forall cls rows, table_ok cls rows ->
  (forall r v vs, SortKey___init__ cls r (Some (v :: vs)) = OK (v :: vs, r)) /\
  (forall r values, row_in_table cls r -> vals_truthy values = false ->
     SortKey___init__ cls (RId (rid r)) values = OK (row_key r)) /\
  (forall s values, cls_spec cls <> [] -> s = RNegInf \/ s = RPosInf -> vals_truthy values = false ->
     SortKey___init__ cls s values = Raise ExOther).
Proof.
  intros cls rows HT. split; [|split]; intros.
  - apply SortKey_init_values.
  - apply (SortKey_init_row cls rows); assumption.
  - apply (SortKey_init_sentinel cls rows); assumption.
Qed.

Theorem C14_bridge_at : forall self rows i, p_row_ids self = map rid rows ->
  RecordSet__at self i = OK (rid_of (at_row rows i)).
Proof. exact RecordSet_at_bridge. Qed.

(* FindOps.lt/le/gt/ge/eq (which bisect side, which sentinel, which shift) are the model's find_* *)
Theorem C14_bridge_find : forall self spec rows values, rs_rel self spec rows ->
  res_of (FindOps_lt self values) = find_lt (mkRset spec rows) values /\
  res_of (FindOps_le self values) = find_le (mkRset spec rows) values /\
  res_of (FindOps_gt self values) = find_gt (mkRset spec rows) values /\
  res_of (FindOps_ge self values) = find_ge (mkRset spec rows) values /\
  res_of (FindOps_eq self values) = find_eq (mkRset spec rows) values.
Proof.
  intros. repeat split; [apply FindOps_lt_bridge|apply FindOps_le_bridge|apply FindOps_gt_bridge
                         |apply FindOps_ge_bridge|apply FindOps_eq_bridge]; assumption.
Qed.

(* FindOps.previous / next / rank (index arithmetic, order="asc"/"desc") are find_previous / find_next / find_rank *)
Theorem C14_bridge_previous_next_rank : forall self spec rows r, rs_rel self spec rows ->
  (forall cls, p_sort_key self = Some cls -> row_in_table cls r) ->
  res_of (FindOps_previous self (rid r)) = find_previous (mkRset spec rows) r /\
  res_of (FindOps_next self (rid r)) = find_next (mkRset spec rows) r /\
  (forall order, res_of (FindOps_rank self (rid r) order) =
     if str_eqb order s_asc then find_rank (mkRset spec rows) r true
     else if str_eqb order s_desc then find_rank (mkRset spec rows) r false
     else ErrValue).
Proof.
  intros self spec rows r HR Hr. repeat split.
  - apply FindOps_previous_bridge; assumption.
  - apply FindOps_next_bridge; assumption.
  - intros order. rewrite (FindOps_rank_bridge self spec rows r HR Hr). destruct spec; reflexivity.
Qed.

(* PREVIOUS / NEXT / RANK call exactly these on the record set _sorted_lookup returns *)
Theorem C14_bridge_PREVIOUS_NEXT_RANK : forall (GB OB : Type) (sl : Z -> GB -> OB -> exc pyrset) rec gb ob,
  PN_PREVIOUS sl rec gb ob = bind (sl rec gb ob) (fun rs => FindOps_previous rs rec) /\
  PN_NEXT sl rec gb ob = bind (sl rec gb ob) (fun rs => FindOps_next rs rec) /\
  (forall order, PN_RANK sl rec gb ob order = bind (sl rec gb ob) (fun rs => FindOps_rank rs rec order)).
Proof.
  intros. repeat split; [apply PN_PREVIOUS_bridge|apply PN_NEXT_bridge|intros; apply PN_RANK_bridge].
Qed.

(* ---- the property, stated about the translated code ------------------------------------------- *)
Theorem C14_code_find_is_linear_scan : forall self spec rows vals, rs_rel self spec rows ->
  spec <> [] -> vals <> [] -> dom_ok spec rows -> probe_ok rows vals -> sorted_rows spec rows ->
  res_of (FindOps_lt self vals) = Ok (lt_scan spec vals rows) /\
  res_of (FindOps_le self vals) = Ok (le_scan spec vals rows) /\
  res_of (FindOps_gt self vals) = Ok (gt_scan spec vals rows) /\
  res_of (FindOps_ge self vals) = Ok (ge_scan spec vals rows) /\
  res_of (FindOps_eq self vals) = Ok (eq_scan spec vals rows).
Proof.
  intros self spec rows vals HR Hs Hv HD HP HS.
  destruct (C14_bridge_find self spec rows vals HR) as (E1 & E2 & E3 & E4 & E5).
  rewrite E1, E2, E3, E4, E5.
  repeat split; [apply find_lt_scan|apply find_le_scan|apply find_gt_scan|apply find_ge_scan|apply find_eq_scan]; assumption.
Qed.

Theorem C14_code_previous_next_rank : forall (GB OB : Type) (sl : Z -> GB -> OB -> exc pyrset) gb ob self spec g1 r g2,
  sl (rid r) gb ob = OK self ->
  rs_rel self spec (g1 ++ r :: g2) -> spec <> [] ->
  dom_ok spec (g1 ++ r :: g2) -> sorted_rows spec (g1 ++ r :: g2) -> NoDup (map rid (g1 ++ r :: g2)) ->
  res_of (PN_PREVIOUS sl (rid r) gb ob) = Ok (last_id g1) /\
  res_of (PN_NEXT sl (rid r) gb ob) = Ok (head_id g2) /\
  res_of (PN_RANK sl (rid r) gb ob s_asc) = Ok (Z.of_nat (length g1) + 1) /\
  res_of (PN_RANK sl (rid r) gb ob s_desc) = Ok (Z.of_nat (length g2) + 1).
Proof.
  intros GB OB sl gb ob self spec g1 r g2 Hsl HR Hs HD HS HN.
  assert (forall cls, p_sort_key self = Some cls -> row_in_table cls r) as Hr.
  { intros cls Hk. destruct (rr_some _ _ _ HR Hs) as (cls' & Hk' & _ & _ & HT).
    assert (cls' = cls) as <- by congruence. apply (tk_rows _ _ HT). apply in_or_app. right. left. reflexivity. }
  destruct (C14_bridge_previous_next_rank self spec _ r HR Hr) as (Ep & En & Er).
  rewrite PN_PREVIOUS_bridge, PN_NEXT_bridge, !PN_RANK_bridge, Hsl. cbn [bind].
  rewrite Ep, En, (Er s_asc), (Er s_desc). cbn [str_eqb str_cmp s_asc s_desc Z.compare Pos.compare Pos.compare_cont].
  repeat split; [apply find_previous_spec|apply find_next_spec|apply find_rank_asc_spec|apply find_rank_desc_spec]; assumption.
Qed.

(* non-vacuity of rs_rel / table_ok: the record set of C14_nonvacuous_rset as a Python object *)
Definition ex_cells :=
  [(1, [([83], VNone); ([77], num 1 1)]); (2, [([83], num 2 1); ([77], num 2 1)]); (3, [([83], VStr [97]); ([77], num 3 1)]);
   (4, [([83], num 4 2); ([77], num 4 1)]); (5, [([83], VSeq false [num 1 1]); ([77], num 5 1)])].
Definition ex_cls := mkCls (table_of [[83]; [77]] ex_cells) [([83], -1); ([77], 1)].
Definition ex_self := mkPyrset [3; 5; 2; 4; 1] (Some ex_cls) false.

Example C14_nonvacuous_code :
  make_sort_key_spec (table_of [[83]; [77]] ex_cells) [[45; 83]; [77]] = OK (cls_spec ex_cls) /\
  rs_rel ex_self ex_spec ex_rows /\
  res_of (FindOps_le ex_self [num 2 1]) = Ok 4 /\ res_of (FindOps_previous ex_self 4) = Ok 2 /\
  res_of (FindOps_rank ex_self 4 s_desc) = Ok 2.
Proof.
  repeat split; try (vm_compute; reflexivity).
  - discriminate.
  - intros _. exists ex_cls. repeat split; try (vm_compute; reflexivity).
    + constructor; [right; reflexivity|constructor; [left; reflexivity|constructor]].
    + intros p [<-|[<-|[]]]; reflexivity.
    + intros r [<-|[<-|[<-|[<-|[<-|[]]]]]]; vm_compute; reflexivity.
Qed.
