(* C40 -- Predicate formula parse trees are faithful.
   Statements only; the model is Model/Predicate.v (hand-written, compared with the running
   predicate_formula.py on generated formulas by every run of the check), proofs in Proofs/Predicate_proofs.v.
   The model follows the code after the fix commits baa04cb (constants JSON cannot represent are rejected) and
   23a92f9 (f( **kwargs ) is rejected); the old witnesses are kept below as regression examples. *)
From Coq Require Import ZArith List Bool String.
Import ListNotations.
Require Import Grist.Model.Predicate Grist.Proofs.Predicate_proofs.
Open Scope Z_scope.

(* ------------------------------------------------------------------------------------------------- *)
(* 1. Faithful.  For every interpretation M of the primitive operations on Python values in which membership
   does not distinguish a tuple from a list, every environment and every expression of the subset: the
   converter returns a tree, and evaluating the tree with the documented node semantics gives what
   evaluating the expression in Python gives (same value, same exception, same operands evaluated). *)
Theorem C40_convert_faithful : forall (M : PySem) (g : env M) (e : expr),
  membership_ignores_tuple M -> in_subset e = true ->
  exists t, convert e = Ok t /\ eval_tree M g t = eval_py M g e.
Proof. intros M g e Hm Hs. exact (convert_faithful_lemma M Hm g e Hs). Qed.

(* ... also through parse_predicate_formula, with or without a comment in the text. *)
Theorem C40_parse_faithful : forall (M : PySem) (g : env M) (e : expr) (comments : list str),
  membership_ignores_tuple M -> in_subset e = true ->
  exists t, parse_predicate (Some e) comments = Ok t /\ eval_tree M g t = eval_py M g e.
Proof. intros M g e cs Hm Hs. exact (parse_predicate_faithful M Hm g e cs Hs). Qed.

(* The hypothesis on M holds for the concrete semantics the check compares with CPython. *)
Example C40_membership_hypothesis_holds : membership_ignores_tuple CSem.
Proof. exact CSem_membership. Qed.

(* Non-vacuity:  rec.office == 'Seattle' and user.email in ('sally@', 'xie@')  # Allow!
   is in the subset, converts to the expected tree, and tree and expression evaluate to True. *)
Definition ex_expr : expr :=
  EBoolOp (1, 0) BAnd
    [ECompare (1, 0) (EAttribute (1, 0) (EName (1, 0) (lit "rec")) (lit "office") 4) [OpEq]
              [EConstant (1, 14) (CStr (lit "Seattle"))];
     ECompare (1, 28) (EAttribute (1, 28) (EName (1, 28) (lit "user")) (lit "email") 33) [OpIn]
              [ETuple (1, 42) [EConstant (1, 43) (CStr (lit "sally@")); EConstant (1, 53) (CStr (lit "xie@"))]]].
Definition ex_env : env CSem :=
  cenv_of [(lit "rec", VObj [(lit "office", VStr (lit "Seattle"))]);
           (lit "user", VObj [(lit "email", VStr (lit "xie@"))])].
Definition ex_tree : tree :=
  TComment
    (TBoolOp BAnd
      [TCmp OpEq (TAttr (TName (lit "rec")) (lit "office")) (TConst (CStr (lit "Seattle")));
       TCmp OpIn (TAttr (TName (lit "user")) (lit "email"))
            (TListN [TConst (CStr (lit "sally@")); TConst (CStr (lit "xie@"))])])
    (lit "Allow!").

Example C40_nonvacuous :
  in_subset ex_expr = true /\ supported ex_expr = true /\
  parse_predicate (Some ex_expr) [lit "# Allow!  "] = Ok ex_tree /\
  eval_py CSem ex_env ex_expr = Val (VBool true) /\
  eval_tree CSem ex_env ex_tree = Val (VBool true) /\
  json_value (to_py ex_tree) = true.
Proof. vm_compute. repeat split; reflexivity. Qed.

(* Why tuples are in the subset only under a membership test: the converter turns every tuple display into
   a List node ("We don't distinguish tuples and lists"), and (1, 2) == [1, 2] is False in Python but True
   for the tree.  This is the documented design, not a finding; it delimits the quantifier above. *)
Example C40_tuple_outside_membership_differs :
  let e := ECompare (1, 0) (ETuple (1, 0) [EConstant (1, 1) (CInt 1); EConstant (1, 4) (CInt 2)]) [OpEq]
                    [EList (1, 10) [EConstant (1, 11) (CInt 1); EConstant (1, 14) (CInt 2)]] in
  in_subset e = false /\
  exists t, convert e = Ok t /\
            eval_py CSem (cenv_of []) e = Val (VBool false) /\ eval_tree CSem (cenv_of []) t = Val (VBool true).
Proof. cbv zeta. split; [reflexivity|]. eexists. vm_compute. repeat split; reflexivity. Qed.

(* ------------------------------------------------------------------------------------------------- *)
(* 2. JSON.  A supported expression is accepted, and its tree (Comment node included) consists of JSON
   values only; parse_predicate_formula_json returns valid JSON text for it. *)
Theorem C40_supported_accepted : forall e comments,
  supported e = true -> exists t, parse_predicate (Some e) comments = Ok t.
Proof.
  intros e cs Hs. apply is_ok_true_ok. rewrite parse_predicate_err_iff, convert_ok_iff. exact Hs.
Qed.

Theorem C40_convert_json : forall e comments t,
  supported e = true -> parse_predicate (Some e) comments = Ok t -> json_value (to_py t) = true.
Proof.
  intros e cs t Hs. unfold supported in Hs. apply andb_true_iff in Hs. apply parse_predicate_json_ok. tauto.
Qed.

Theorem C40_json_text : forall e comments,
  supported e = true ->
  exists v, parse_predicate_json true (Some e) comments = JDumps DumpsJSON v /\ json_value v = true.
Proof.
  intros e cs Hs. unfold parse_predicate_json. cbn [negb].
  destruct (parse_predicate (Some e) cs) as [t|err] eqn:E.
  - pose proof (C40_convert_json e cs t Hs E) as Hj. exists (to_py t). rewrite (json_dumps_ok _ Hj). auto.
  - destruct (C40_supported_accepted e cs Hs) as [t Ht]. congruence.
Qed.

Theorem C40_in_subset_supported : forall e, in_subset e = true -> supported e = true.
Proof. exact in_subset_supported. Qed.

(* ------------------------------------------------------------------------------------------------- *)
(* 3. Unsupported syntax is rejected: every expression outside the supported subset raises SyntaxError, and the
   converter accepts exactly the supported expressions. *)
Theorem C40_unsupported_rejected : forall e comments,
  supported e = false -> exists err, parse_predicate (Some e) comments = Err err.
Proof.
  intros e cs Hs. apply is_ok_false_err. rewrite parse_predicate_err_iff, convert_ok_iff. exact Hs.
Qed.

Theorem C40_accepted_iff_supported : forall e, is_ok (convert e) = supported e.
Proof. exact convert_ok_iff. Qed.

(* The same, node by node: any node of a class without a visit method, any binary operator other than
   + - * / %, any unary operator other than `not` (unary minus included), any chained comparison (bad_node), any
   constant that is not a number/string/bool/None and any call with a **kwargs argument (odd_node), anywhere in
   the expression, gives a SyntaxError -- and nothing else does. *)
Theorem C40_bad_node_rejected : forall e comments x,
  subexpr x e -> bad_node x \/ odd_node x -> exists err, parse_predicate (Some e) comments = Err err.
Proof.
  intros e cs x Hx Hb. apply is_ok_false_err. rewrite parse_predicate_err_iff.
  destruct Hb as [Hb|Hb]; [destruct (bad_node_rejected e x Hx Hb) as [err ->]
                          | destruct (odd_node_rejected e x Hx Hb) as [err ->]]; reflexivity.
Qed.

Theorem C40_accepted_iff_no_bad_node : forall e,
  (exists t, convert e = Ok t) <-> (forall x, subexpr x e -> ~ bad_node x /\ ~ odd_node x).
Proof. exact convert_ok_spec. Qed.

Example C40_bad_node_example :   (* rec.a > -1 : the unary minus *)
  let neg := EUnaryOp (1, 8) (UOther (lit "USub")) (EConstant (1, 9) (CInt 1)) in
  let e := ECompare (1, 0) (EAttribute (1, 0) (EName (1, 0) (lit "rec")) (lit "a") 4) [OpGt] [neg] in
  subexpr neg e /\ bad_node neg /\ convert e = Err (ErrUnsupported (1, 8)).
Proof.
  cbv zeta. split; [|split; [|reflexivity]].
  - eapply sub_step; [apply sub_refl | apply ch_cmpc; left; reflexivity].
  - right; right; left. eauto.
Qed.

(* Regression examples: the inputs on which the code violated the statement before the fix commits
   (..., b'x', 1j, 1e999 and f( **k ) were accepted) are unsupported and are rejected at the node itself. *)
Example C40_regression_odd_constants :
  let rejected c := supported (EConstant (1, 0) c) = false /\
                    parse_predicate (Some (EConstant (1, 0) c)) [] = Err (ErrUnsupported (1, 0)) in
  rejected CEllipsis /\ rejected (CBytes [120]) /\ rejected (CComplex 4607182418800017408) /\
  rejected (CFloat 9218868437227405312) /\
  parse_predicate (Some (EConstant (1, 0) (CFloat 4607182418800017408))) [] = Ok (TConst (CFloat 4607182418800017408)).
Proof. vm_compute. repeat split; reflexivity. Qed.

Example C40_regression_kwargs :
  let e := ECall (1, 0) (EName (1, 0) (lit "f")) [EName (1, 2) (lit "a")] [(None, EName (1, 7) (lit "k"))] in
  supported e = false /\ parse_predicate (Some e) [] = Err (ErrUnsupported (1, 0)).
Proof. vm_compute. split; reflexivity. Qed.

(* A text CPython's parser rejects is a SyntaxError (oracle). *)
Theorem C40_parser_error : forall comments, parse_predicate None comments = Err ErrParser.
Proof. reflexivity. Qed.

(* ------------------------------------------------------------------------------------------------- *)
(* 4. Comments.  With a comment in the text the result is [Comment, tree of the expression, text of the first
   comment without `#` and surrounding blanks]; without one it is the tree of the expression; the Comment
   node does not change the value. *)
Theorem C40_comment_node : forall e comments c t,
  first_comment comments = Some c -> parse_predicate (Some e) comments = Ok t ->
  exists t0, convert e = Ok t0 /\ t = TComment t0 (py_strip (tl c)).
Proof. exact parse_predicate_comment. Qed.

Theorem C40_no_comment : forall e comments,
  first_comment comments = None -> parse_predicate (Some e) comments = convert e.
Proof. exact parse_predicate_no_comment. Qed.

Theorem C40_comment_transparent : forall (M : PySem) (g : env M) t c, eval_tree M g (TComment t c) = eval_tree M g t.
Proof. reflexivity. Qed.

(* strip(): the comment text is the token text minus a prefix and a suffix of blanks, and neither starts nor
   ends with a blank *)
Theorem C40_comment_strip : forall s,
  exists a b, s = a ++ py_strip s ++ b /\ forallb py_isspace a = true /\ forallb py_isspace b = true /\
              (forall c t, py_strip s = c :: t -> py_isspace c = false) /\
              (forall c t, py_strip s = t ++ [c] -> py_isspace c = false).
Proof. exact py_strip_spec. Qed.

Example C40_comment_example :
  parse_predicate (Some (EConstant (1, 0) (CBool true))) [lit "# Comment!  "; lit "# second"]
  = Ok (TComment (TConst (CBool true)) (lit "Comment!")).
Proof. reflexivity. Qed.

(* ------------------------------------------------------------------------------------------------- *)
(* 5. The code itself.  GristGen.Predicate_gen is generated from predicate_formula.py (every TreeConverter.visit_*
   method, generic_visit, named_constants) by harness/pf2v.py on every run; gen_visit None is TreeConverter().visit.
   Bridge: on every AST the harness can produce (wf_expr: an operator kept by class name is not a handled one) the
   generated code returns exactly the serialisation of the model's tree, or the model's SyntaxError, and never
   another exception.  The main statements, restated about the generated code: *)
Require Import Grist.Model.PredVisit GristGen.Predicate_gen Grist.Proofs.Predicate_bridge.

Theorem C40_code_bridge : forall e, wf_expr e = true -> gen_visit None e [] = lift_tree [] (convert e).
Proof. exact gen_convert_bridge. Qed.

Theorem C40_code_unsupported_rejected : forall e,
  wf_expr e = true -> supported e = false -> exists err, gen_visit None e [] = GFail (GErr err).
Proof.
  intros e Hwf Hs. rewrite (gen_convert_bridge e Hwf).
  destruct (convert e) as [t|err] eqn:E; [|cbn; eauto].
  pose proof (convert_ok_iff e) as H. rewrite E, Hs in H. discriminate.
Qed.

Theorem C40_code_supported_json : forall e,
  wf_expr e = true -> supported e = true -> exists v, gen_visit None e [] = GOk (v, []) /\ json_value v = true.
Proof.
  intros e Hwf Hs. rewrite (gen_convert_bridge e Hwf).
  destruct (convert e) as [t|err] eqn:E.
  - exists (to_py t). split; [reflexivity|]. unfold supported in Hs. apply andb_true_iff in Hs.
    exact (convert_plain_json e t (proj2 Hs) E).
  - pose proof (convert_ok_iff e) as H. rewrite E, Hs in H. discriminate.
Qed.

Theorem C40_code_faithful : forall (M : PySem) (g : env M) (e : expr),
  membership_ignores_tuple M -> wf_expr e = true -> in_subset e = true ->
  exists t, gen_visit None e [] = GOk (to_py t, []) /\ eval_tree M g t = eval_py M g e.
Proof.
  intros M g e Hm Hwf Hs. destruct (convert_faithful_lemma M Hm g e Hs) as [t [Ct Et]].
  exists t. rewrite (gen_convert_bridge e Hwf), Ct. split; [reflexivity | exact Et].
Qed.

Example C40_code_nonvacuous :
  wf_expr ex_expr = true /\
  gen_visit None ex_expr [] = GOk (to_py (TBoolOp BAnd
      [TCmp OpEq (TAttr (TName (lit "rec")) (lit "office")) (TConst (CStr (lit "Seattle")));
       TCmp OpIn (TAttr (TName (lit "user")) (lit "email"))
            (TListN [TConst (CStr (lit "sally@")); TConst (CStr (lit "xie@"))])]), []) /\
  gen_visit None (EConstant (1, 0) CEllipsis) [] = GFail (GErr (ErrUnsupported (1, 0))).
Proof. vm_compute. repeat split; reflexivity. Qed.

(* parse_predicate_formula itself (GristGen.ParseFormula_gen, generated by harness/pr2v.py on every run: the try
   block, the conversion, the loop over the tokens that wraps the FIRST `#` comment, the re-raise).  Bridge and
   the statements about it; [tokens] are all tokens as (type == COMMENT, string). *)
Require Import GristGen.ParseFormula_gen Grist.Proofs.ParseFormula_bridge.

Theorem C40_code_parse_bridge : forall (dollar_ok : bool) (parsed : option expr) (tokens : list (bool * str)),
  match parsed with Some e => wf_expr e = true | None => True end ->
  gen_parse_predicate_formula dollar_ok parsed tokens
  = lift_parse (parse_predicate (if dollar_ok then parsed else None) (comments_of tokens)).
Proof. exact gen_parse_bridge. Qed.

Theorem C40_code_parse_unsupported_rejected : forall e tokens,
  wf_expr e = true -> supported e = false ->
  exists err, gen_parse_predicate_formula true (Some e) tokens = GFail (GErr err).
Proof.
  intros e tokens Hwf Hs. rewrite (gen_parse_bridge true (Some e) tokens Hwf).
  destruct (C40_unsupported_rejected e (comments_of tokens) Hs) as [err ->]. cbn. eauto.
Qed.

Theorem C40_code_parse_faithful : forall (M : PySem) (g : env M) e tokens,
  membership_ignores_tuple M -> wf_expr e = true -> in_subset e = true ->
  exists t, gen_parse_predicate_formula true (Some e) tokens = GOk (to_py t) /\ eval_tree M g t = eval_py M g e.
Proof.
  intros M g e tokens Hm Hwf Hs. rewrite (gen_parse_bridge true (Some e) tokens Hwf).
  destruct (C40_parse_faithful M g e (comments_of tokens) Hm Hs) as [t [-> Et]]. cbn. eauto.
Qed.

Theorem C40_code_comment_node : forall e tokens c v,
  wf_expr e = true -> first_comment (comments_of tokens) = Some c ->
  gen_parse_predicate_formula true (Some e) tokens = GOk v ->
  exists t0, convert e = Ok t0 /\ v = PList [pstr "Comment"; to_py t0; PLeaf (CStr (py_strip (tl c)))].
Proof.
  intros e tokens c v Hwf Hc H. rewrite (gen_parse_bridge true (Some e) tokens Hwf) in H.
  destruct (parse_predicate (Some e) (comments_of tokens)) as [t|err] eqn:E; [|discriminate].
  destruct (C40_comment_node e _ c t Hc E) as [t0 [C0 ->]]. inversion H. eauto.
Qed.

Example C40_code_parse_example :
  gen_parse_predicate_formula true (Some (EConstant (1, 0) (CBool true)))
    [(false, lit "True"); (true, lit "# Comment!  "); (false, []); (true, lit "# second")]
  = GOk (to_py (TComment (TConst (CBool true)) (lit "Comment!"))).
Proof. vm_compute. reflexivity. Qed.
