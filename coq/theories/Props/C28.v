(* C28 -- Upserts follow their specification.
   `upsert` / `upsert_single` (Model/Upsert.v) model UserActions.BulkAddOrUpdateRecord / AddOrUpdateRecord the way the
   code works: argument checks, one pass over the input rows that looks each row up in the PRE-CALL table and
   accumulates the arguments of one BulkAddRecord and one BulkUpdateRecord, id filling, trimming of unchanged
   update entries, placeholders of recordIds filled afterwards.  `ref_upsert` / `ref_single` are the reference:
   each input row decides on the pre-call table what it asks for (`ref_outcome`), the rows are carried out one after
   the other (`ref_run`), the four argument errors are stated on the arguments (`arg_error`).
   The model is compared with the running engine on every run (harness/props/c28.py).
   Statements only; proofs are in Proofs/Upsert_proofs.v. *)
From Coq Require Import ZArith List Bool.
Import ListNotations.
Require Import Grist.Model.Upsert Grist.Lib.UpsertPrelude Grist.Proofs.Upsert_proofs GristGen.Upsert_gen
               Grist.Proofs.Upsert_bridge.
Open Scope Z_scope.

(* The property at full strength: for all tables, arguments, options and conversion functions the call behaves
   like the reference (resulting table and returned ids, or the same rejection). *)
Definition C28_statement : Prop :=
  forall e t require col_values o, upsert e t require col_values o = ref_upsert e t require col_values o.

(* Both deviations found while building this check were repaired in /repo (commits e346da4, 060dc6b); the
   witnesses are kept below as regression examples of the model that follows the repaired code. *)
Definition ex_schema :=
  [{| c_id := 1; c_data := true; c_default := VText [] |}; {| c_id := 3; c_data := true; c_default := VText [] |}].
Definition ex_env := {| e_schema := ex_schema; e_conv := fun _ v => v; e_key := fun _ v => Some v |}.
Definition ex_default := {| o_on_many := OnFirst; o_update := true; o_add := true; o_allow_empty := false |}.
Definition ex_all := {| o_on_many := OnAll; o_update := true; o_add := true; o_allow_empty := true |}.
Definition ex_table1 : table := [(1, [(1, VText [97]); (3, VText [99])])].

(* Regression (repaired by commit 060dc6b: a BulkUpdateRecord naming a row more than once keeps the last
   occurrence): two input rows update record 1 (empty require); the last one writes the value the record already
   has ("c"), the first one writes "x".  Code and reference now both leave "c". *)
Example C28_stale_update_regression :
  upsert ex_env ex_table1 [] [(3, [VText [120]; VText [99]])] ex_all
    = Ok (ex_table1, {| r_record_ids := [[1]; [1]]; r_add_ids := []; r_update_ids := [[1]; [1]] |})
  /\ ref_upsert ex_env ex_table1 [] [(3, [VText [120]; VText [99]])] ex_all
    = Ok (ex_table1, {| r_record_ids := [[1]; [1]]; r_add_ids := []; r_update_ids := [[1]; [1]] |})
  /\ upsert ex_env ex_table1 [] [(3, [VText [99]; VText [120]])] ex_all
    = Ok ([(1, [(1, VText [97]); (3, VText [120])])],
          {| r_record_ids := [[1]; [1]]; r_add_ids := []; r_update_ids := [[1]; [1]] |}).
Proof. repeat split; vm_compute; reflexivity. Qed.

(* Regression (the second deviation found here was repaired in /repo by commit e346da4): two input rows that ask
   for a new record under the same row id, or a required row id 0, are now rejected by the code like by the
   reference, and nothing is added. *)
Example C28_new_id_regression :
  upsert ex_env [] [(0, [VInt 5; VInt 5]); (1, [VText [120]; VText [121]])] [] ex_default = Err EEnv
  /\ ref_upsert ex_env [] [(0, [VInt 5; VInt 5]); (1, [VText [120]; VText [121]])] [] ex_default = Err EEnv
  /\ upsert ex_env ex_table1 [(0, [VInt 0])] [(3, [VText [112]])] ex_default = Err EEnv
  /\ ref_upsert ex_env ex_table1 [(0, [VInt 0])] [(3, [VText [112]])] ex_default = Err EEnv
  /\ upsert ex_env ex_table1 [(0, [VInt (-1); VInt 2]); (1, [VText [120]; VText [121]])] [] ex_default
     = Ok (ex_table1 ++ [(3, [(1, VText [120]); (3, VText [])]); (2, [(1, VText [121]); (3, VText [])])],
           {| r_record_ids := [[3]; [2]]; r_add_ids := [3; 2]; r_update_ids := [] |}).
Proof. repeat split; vm_compute; reflexivity. Qed.

(* The property at full strength, for ALL inputs. *)
Theorem upsert_refines_reference : forall e t require col_values o,
  upsert e t require col_values o = ref_upsert e t require col_values o.
Proof. exact upsert_eq. Qed.

Theorem C28_holds : C28_statement.
Proof. exact upsert_eq. Qed.

(* Each argument error (bad on_many, empty require without allow_empty_require, mismatched lengths, duplicate
   require keys) rejects, and the table is unchanged -- for ALL inputs; and every rejection that is not raised
   by the record-level machinery (EEnv) is one of these. *)
Theorem upsert_arg_errors_reject : forall e t require col_values o x,
  arg_error require col_values o = Some x ->
  upsert e t require col_values o = Err x /\ table_after t (upsert e t require col_values o) = t.
Proof. exact arg_error_rejects. Qed.

Theorem upsert_rejections_are_argument_errors : forall e t require col_values o x,
  upsert e t require col_values o = Err x -> x <> EEnv -> arg_error require col_values o = Some x.
Proof. exact upsert_err_arg. Qed.

Theorem upsert_any_rejection_leaves_table : forall e t require col_values o x,
  upsert e t require col_values o = Err x -> table_after t (upsert e t require col_values o) = t.
Proof. exact err_unchanged. Qed.

(* AddOrUpdateRecord, full strength. *)
Theorem upsert_single_refines_reference : forall e t require col_values o,
  upsert_single e t require col_values o = ref_single e t require col_values o.
Proof. exact single_eq. Qed.

(* A concrete run: three input rows on a table with a duplicate key: "a" matches records 1 and 2 (on_many = all),
   "z" matches nothing and is added as record 5, "b" matches record 4. *)
Definition ex_table2 : table :=
  [(1, [(1, VText [97]); (3, VText [99])]); (2, [(1, VText [97]); (3, VText [100])]); (4, [(1, VText [98]); (3, VText [99])])].
Example C28_nonvacuous :
  let require := [(1, [VText [97]; VText [122]; VText [98]])] in
  let col_values := [(3, [VText [120]; VText [121]; VText [119]])] in
  upsert ex_env ex_table2 require col_values ex_all
  = Ok ([(1, [(1, VText [97]); (3, VText [120])]); (2, [(1, VText [97]); (3, VText [120])]);
         (4, [(1, VText [98]); (3, VText [119])]); (5, [(1, VText [122]); (3, VText [121])])],
        {| r_record_ids := [[1; 2]; [5]; [4]]; r_add_ids := [5]; r_update_ids := [[1; 2]; [4]] |}).
Proof. cbv zeta. repeat split; vm_compute; reflexivity. Qed.

Example C28_arg_errors_nonvacuous :
  arg_error [(1, [VText [97]; VText [97]])] [] ex_default = Some EUnique /\
  arg_error [(1, [VText [97]])] [(3, [VText [97]; VText [98]])] ex_default = Some ELengths /\
  arg_error [] [(3, [VText [97]])] ex_default = Some EEmptyRequire /\
  arg_error [] [] {| o_on_many := OnBad; o_update := true; o_add := true; o_allow_empty := true |} = Some EOnMany.
Proof. repeat split; vm_compute; reflexivity. Qed.

(* ===================== the code itself =====================
   `gen_upsert` / `gen_upsert_single` (GristGen.Upsert_gen) are translated from useractions.py on EVERY run by
   harness/up2v.py: the argument checks in their order, the per-row loop with the lookup, the on_many handling,
   the add/update accumulators (column dicts), require_add_keys, new_record_indexes, the recordIds placeholders
   and their filling, the AddOrUpdateRecord wrapper.  The table lookup, the column/metadata queries and the two
   record actions are the fields of the opaque `oenv`. *)

(* Pointwise bridge, for EVERY opaque environment: the regenerated code is (convertible with) the structured
   mirror cm_upsert of Proofs/Upsert_bridge.v -- any semantic edit of the source breaks these two proofs. *)
Theorem C28_code_bridge : forall oe t require col_values opts,
  gen_upsert oe t require col_values opts = cm_upsert oe t require col_values opts.
Proof. exact gen_upsert_is_mirror. Qed.

Theorem C28_code_bridge_single : forall oe t require col_values opts,
  gen_upsert_single oe t require col_values opts = cm_upsert_single oe t require col_values opts.
Proof. exact gen_upsert_single_is_mirror. Qed.

(* Over the environment given by the models of lookup / BulkAddRecord / BulkUpdateRecord (oenv_of), and for
   arguments that are dicts (no column named twice), the mirror is the row-major hand model ... *)
Theorem C28_code_is_model : forall e t require col_values o,
  wf_dict require -> wf_dict col_values ->
  gen_upsert (oenv_of e) t require col_values o = upsert e t require col_values o.
Proof. intros. rewrite gen_upsert_is_mirror. apply mirror_is_model; assumption. Qed.

(* ... hence the property holds of the generated functions. *)
Theorem C28_code_refines_reference : forall e t require col_values o,
  wf_dict require -> wf_dict col_values ->
  gen_upsert (oenv_of e) t require col_values o = ref_upsert e t require col_values o.
Proof. exact gen_refines_reference. Qed.

Theorem C28_code_arg_errors_reject : forall e t require col_values o x,
  wf_dict require -> wf_dict col_values ->
  arg_error require col_values o = Some x ->
  gen_upsert (oenv_of e) t require col_values o = Err x /\
  table_after t (gen_upsert (oenv_of e) t require col_values o) = t.
Proof. exact gen_arg_errors_reject. Qed.

Theorem C28_code_single_refines_reference : forall e t require col_values o,
  wf_dict require -> wf_dict col_values ->
  gen_upsert_single (oenv_of e) t require col_values o = ref_single e t require col_values o.
Proof. exact gen_single_refines_reference. Qed.

(* the hypotheses are satisfiable and the generated code computes (same run as C28_nonvacuous) *)
Example C28_code_nonvacuous :
  let require := [(1, [VText [97]; VText [122]; VText [98]])] in
  let col_values := [(3, [VText [120]; VText [121]; VText [119]])] in
  wf_dict require /\ wf_dict col_values /\
  gen_upsert (oenv_of ex_env) ex_table2 require col_values ex_all
  = Ok ([(1, [(1, VText [97]); (3, VText [120])]); (2, [(1, VText [97]); (3, VText [120])]);
         (4, [(1, VText [98]); (3, VText [119])]); (5, [(1, VText [122]); (3, VText [121])])],
        {| r_record_ids := [[1; 2]; [5]; [4]]; r_add_ids := [5]; r_update_ids := [[1; 2]; [4]] |}).
Proof.
  cbv zeta. repeat split; try (vm_compute; reflexivity); unfold wf_dict; simpl; repeat constructor; intros [].
Qed.
