(* C28 -- placeholder while the proofs are being written *)
From Coq Require Import ZArith List Bool.
Require Import Grist.Model.Upsert.
